/-
  C12 — the getter level: what `sf_get_string` returns on the re-opened handle.  The `meta_roundtrip_*` theorems conclude with the
  (type, text) pairs the header parser hands to psf_store_string; `sfmodel meta` (and the library) then answer `sf_get_string`
  from the table those calls build (`Sf.Meta.loadAll`, `Sf.Meta.get`).  `get_loadAll`: for ANY list of at most 32 pairs with
  valid types and NUL-free texts every one of those psf_store_string calls is accepted and `get` returns, per type, the text of the
  LAST pair of that type — so for the pairwise-different types a file written by the library holds, exactly the text that was stored.
-/
import SfProps.C12Order
namespace Sf.C12Get
open Sf Sf.Meta

def eR : Env := ⟨.read, false, [], []⟩

/-- what the slot loop marks: an entry of the type being stored becomes "replaced" -/
def mark (ty : Int) (s : Slot) : Slot := if s.type = ty then { s with type := -1 } else s

theorem firstFree_append (A B : List Slot) (h : ∀ s ∈ A, s.type ≠ 0) : firstFree (A ++ B) = A.length + firstFree B := by
  induction A with
  | nil => simp
  | cons a A ih =>
    have ha : a.type ≠ 0 := h a (by simp)
    simp only [List.cons_append, firstFree, ha, if_false, List.length_cons]
    rw [ih (fun s hs => h s (by simp [hs]))]
    omega

theorem firstFree_replicate (m : Nat) : firstFree (List.replicate m Slot.free) = 0 := by
  cases m <;> simp [firstFree, List.replicate, Slot.free]

theorem markBefore_append (ty : Int) (A B : List Slot) : markBefore ty A.length (A ++ B) = A.map (mark ty) ++ B := by
  induction A with
  | nil => simp [markBefore]
  | cons a A ih => simp [markBefore, mark, ih]

theorem set_append_at (A B : List Slot) (b x : Slot) : (A ++ b :: B).set A.length x = A ++ x :: B := by
  induction A with
  | nil => simp
  | cons a A ih => simp [ih]

/-- the table after `n` accepted calls: `n` entries in use (each live or replaced), the other slots free, storage in step -/
def Shape (n : Nat) (t : Strings) : Prop :=
  n ≤ 32 ∧ ∃ A : List Slot, t.slots = A ++ List.replicate (32 - n) Slot.free ∧ A.length = n ∧ (∀ s ∈ A, s.type ≠ 0) ∧ (n = 0 ↔ t.used = 0)

theorem shape_init : Shape 0 (Strings.init 0) :=
  ⟨by omega, [], by simp [Strings.init, SF_MAX_STRINGS], rfl, by simp, by simp [Strings.init, Strings.used]⟩

theorem shape_firstFree (n : Nat) (t : Strings) (h : Shape n t) : firstFree t.slots = n ∧ t.slots.length = 32 := by
  obtain ⟨hn, A, hs, hl, hnz, _⟩ := h
  rw [hs, firstFree_append A _ hnz, firstFree_replicate, hl]
  simp [hl]; omega

theorem validType_ne_zero (ty : Int) (h : validType ty = true) : ty ≠ 0 ∧ ty ≠ -1 := by
  unfold validType at h
  constructor <;> (intro h0; subst h0; simp at h)

/-- psf_store_string in read mode is accepted whenever the table has a free slot and the type is valid, and fills the next slot -/
theorem store_read_step (n : Nat) (t : Strings) (ty : Int) (s : List Byte) (hs : Shape n t) (hn : n < 32) (hv : validType ty = true) :
    (store eR t ty s).1 = 0 ∧ Shape (n + 1) (store eR t ty s).2 := by
  obtain ⟨hff, hlen⟩ := shape_firstFree n t hs
  obtain ⟨_, A, hsl, hl, hnz, hsync⟩ := hs
  subst hl
  have hok : (store eR t ty s).1 = 0 := by
    unfold store
    have e1 : isWriteMode eR.mode = false := rfl
    have e2 : (eR.mode = .rdwr || eR.haveWritten) = false := rfl
    have c1 : ¬ (A.length ≥ 32) := by omega
    have hA : A = [] ↔ t.used = 0 := by rw [← hsync]; exact List.length_eq_zero_iff.symm
    have c2 : ¬ (A = [] ∧ ¬ t.used = 0) := by
      intro h0; exact h0.2 (hA.mp h0.1)
    have c3 : ¬ (¬ A = [] ∧ t.used = 0) := by
      intro h0; exact h0.1 (hA.mpr h0.2)
    simp [e1, e2, hff, hlen, hv, c1, c2, c3]
  refine ⟨hok, ?_⟩
  obtain ⟨_, _, ⟨fl, hslots⟩, hstorage⟩ := store_ok eR t ty s hok
  rw [hff] at hslots
  have hrep : List.replicate (32 - A.length) Slot.free = Slot.free :: List.replicate (32 - (A.length + 1)) Slot.free := by
    have : 32 - A.length = (32 - (A.length + 1)) + 1 := by omega
    rw [this, List.replicate_succ]
  have hnew : (store eR t ty s).2.slots = (A.map (mark ty) ++ [⟨ty, fl, t.storage.length⟩]) ++ List.replicate (32 - (A.length + 1)) Slot.free := by
    rw [hslots, hsl, markBefore_append, hrep]
    have := set_append_at (A.map (mark ty)) (List.replicate (32 - (A.length + 1)) Slot.free) Slot.free ⟨ty, fl, t.storage.length⟩
    rw [List.length_map] at this
    rw [this]
    simp
  refine ⟨by omega, A.map (mark ty) ++ [⟨ty, fl, t.storage.length⟩], hnew, by simp, ?_, ?_⟩
  · intro x hx
    rcases List.mem_append.1 hx with h | h
    · obtain ⟨a, ha, rfl⟩ := List.mem_map.1 h
      unfold mark
      split
      · simp
      · exact hnz a ha
    · simp only [List.mem_cons, List.mem_nil_iff, or_false] at h
      subst h
      exact (validType_ne_zero ty hv).1
  · constructor
    · intro h0; omega
    · intro hu
      simp only [Strings.used, hstorage, List.length_append, List.length_cons, List.length_nil] at hu
      omega

/-- sf_set_string calls of the re-open: (type, text) -/
def callsOf (es : List (Nat × List Byte)) : List Call := es.map fun e => ((e.1 : Int), e.2)

theorem loadAll_runStr (es : List (Nat × List Byte)) : loadAll es = runStr eR (Strings.init 0) (callsOf es) := by
  unfold loadAll runStr callsOf eR
  rw [List.foldl_map]

/-- every psf_store_string call of a re-open with at most 32 valid pairs is accepted -/
theorem allOk_read : ∀ (cs : List Call) (n : Nat) (t : Strings), Shape n t → n + cs.length ≤ 32 → (∀ c ∈ cs, validType c.1 = true) →
    allOk eR t cs
  | [], _, _, _, _, _ => trivial
  | c :: cs, n, t, hs, hn, hv => by
    simp only [List.length_cons] at hn
    obtain ⟨h1, h2⟩ := store_read_step n t c.1 c.2 hs (by omega) (hv c (by simp))
    exact ⟨h1, allOk_read cs (n + 1) _ h2 (by omega) (fun d hd => hv d (by simp [hd]))⟩

theorem cstr_of_no_nul : ∀ (s : List Byte), (∀ b ∈ s, b ≠ 0) → cstr s = s
  | [], _ => rfl
  | a :: s, h => by
    have ha : a ≠ 0 := h a (by simp)
    have := cstr_of_no_nul s (fun b hb => h b (by simp [hb]))
    unfold cstr at this ⊢
    rw [List.takeWhile_cons]
    simp only [ha, ne_eq, not_false_eq_true, decide_true, if_true]
    rw [this]

/-- **get_loadAll** — `sf_get_string` on a re-opened handle whose header held the pairs `es` (at most 32, valid types, texts without
    NUL): per type the text of the last pair of that type, nothing for a type that does not occur -/
theorem get_loadAll (es : List (Nat × List Byte)) (hlen : es.length ≤ 32) (hty : ∀ e ∈ es, validType (e.1 : Int) = true)
    (hnul : ∀ e ∈ es, ∀ b ∈ e.2, b ≠ 0) (ty : Nat) (hpos : 0 < ty) :
    Meta.get (loadAll es) (ty : Int) = es.foldl (fun x e => if e.1 = ty then some e.2 else x) none := by
  have hok : allOk eR (Strings.init 0) (callsOf es) :=
    allOk_read (callsOf es) 0 _ shape_init (by simp [callsOf]; exact hlen)
      (by intro c hc; obtain ⟨e, he, rfl⟩ := List.mem_map.1 hc; exact hty e he)
  rw [loadAll_runStr, get_run eR (callsOf es) _ (init_inv 0) hok (ty : Int) (by omega)]
  have hinit : Meta.get (Strings.init 0) (ty : Int) = none := by
    unfold Meta.get Strings.init
    have : (List.replicate SF_MAX_STRINGS Slot.free).find? (fun s => decide (s.type = (ty : Int))) = none := by
      rw [List.find?_eq_none]
      intro s hs
      rw [(List.mem_replicate.1 hs).2]
      have : ¬ ((0 : Int) = (ty : Int)) := by omega
      simp only [Slot.free]
      simp [this]
    rw [this]; rfl
  rw [hinit]
  unfold callsOf
  rw [List.foldl_map]
  -- the two folds agree pair by pair
  have key : ∀ (l : List (Nat × List Byte)) (x : Option (List Byte)), (∀ e ∈ l, ∀ b ∈ e.2, b ≠ 0) →
      l.foldl (fun x e => if ((e.1 : Int), e.2).1 = (ty : Int) then some (cstr (storedText eR ((e.1 : Int), e.2).1 ((e.1 : Int), e.2).2)) else x) x
        = l.foldl (fun x e => if e.1 = ty then some e.2 else x) x := by
    intro l
    induction l with
    | nil => intro x _; rfl
    | cons e l ih =>
      intro x hn
      simp only [List.foldl_cons]
      have he : cstr (storedText eR (e.1 : Int) e.2) = e.2 := by
        have : storedText eR (e.1 : Int) e.2 = e.2 := by simp [storedText, eR, isWriteMode]
        rw [this]; exact cstr_of_no_nul _ (hn e (by simp))
      have hc : ((e.1 : Int) = (ty : Int)) ↔ e.1 = ty := by omega
      rw [he]
      by_cases h : e.1 = ty
      · simp only [h, if_true]; exact ih _ (fun d hd => hn d (by simp [hd]))
      · have : ¬ ((e.1 : Int) = (ty : Int)) := by omega
        simp only [h, this, if_false]; exact ih _ (fun d hd => hn d (by simp [hd]))
  exact key es none hnul

/-- … for pairwise different types (what a file written by the library holds: replaced slots are not written): the text of THE
    pair of that type -/
theorem get_loadAll_nodup (es : List (Nat × List Byte)) (hlen : es.length ≤ 32) (hty : ∀ e ∈ es, validType (e.1 : Int) = true)
    (hnul : ∀ e ∈ es, ∀ b ∈ e.2, b ≠ 0) (hnd : (es.map (·.1)).Nodup) (e : Nat × List Byte) (he : e ∈ es) (hpos : 0 < e.1) :
    Meta.get (loadAll es) (e.1 : Int) = some e.2 := by
  rw [get_loadAll es hlen hty hnul e.1 hpos]
  -- the fold returns the entry with that key
  have key : ∀ (l : List (Nat × List Byte)) (x : Option (List Byte)), (l.map (·.1)).Nodup → e ∈ l →
      l.foldl (fun x d => if d.1 = e.1 then some d.2 else x) x = some e.2 := by
    intro l
    induction l with
    | nil => intro x _ h; cases h
    | cons d l ih =>
      intro x hnd hm
      simp only [List.map_cons, List.nodup_cons] at hnd
      simp only [List.foldl_cons]
      rcases List.mem_cons.1 hm with rfl | hm
      · simp only [if_true]
        -- no later entry has this key
        have : ∀ (l' : List (Nat × List Byte)) (y : Option (List Byte)), (∀ d ∈ l', d.1 ≠ e.1) →
            l'.foldl (fun x d => if d.1 = e.1 then some d.2 else x) y = y := by
          intro l'
          induction l' with
          | nil => intro y _; rfl
          | cons d l' ih' =>
            intro y hne
            simp only [List.foldl_cons, hne d (by simp), if_false]
            exact ih' y (fun d' hd' => hne d' (by simp [hd']))
        exact this l _ (fun d hd hde => hnd.1 (by rw [← hde]; exact List.mem_map.2 ⟨d, hd, rfl⟩))
      · exact ih _ hnd.2 hm
  exact key es none hnd he

/-- non-vacuity: three pairs, the middle type asked for -/
example : Meta.get (loadAll [(1, ascii "Title"), (4, ascii "Artist"), (5, ascii "late")]) 4 = some (ascii "Artist") ∧
    Meta.get (loadAll [(1, ascii "Title"), (4, ascii "Artist")]) 5 = none := by decide +kernel

end Sf.C12Get
