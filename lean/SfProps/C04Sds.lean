-- properties: C04 C07 C11
/-
  C04 / C11 (and the header-update clause of C07) — the MIDI Sample Dump Standard container as a whole file
  (stand-alone L1 model SfModel/SdsFile.lean over the packet codec of SfModel/Sds.lean and the block scan of
  SfModel/SdsScan.lean; helpers SfProofs/SdsFileLemmas.lean).  Property theorems only.

  A *session* is `openW` (sf_open SFM_WRITE with any stale SF_INFO.frames), any list of `WOp`s — write calls of
  32-bit samples with or without auto header mode, SFC_UPDATE_HEADER_NOW in between — then `close`.
-/
import SfModel.SdsFile
import SfProofs.SdsFileLemmas
namespace Sf.C04Sds
open Sf Sf.Sds Sf.SdsFile

/-! ## the sample-period quantiser -/

theorem div_div_ge (U sr : Nat) (h1 : 0 < sr) (h2 : sr ≤ U) : sr ≤ U / (U / sr) := by
  have hp : 0 < U / sr := Nat.div_pos h2 h1
  exact (Nat.le_div_iff_mul_le hp).mpr (by rw [Nat.mul_comm]; exact Nat.div_mul_le_self U sr)

/-- **sds_rate_inrange.**  For 477 ≤ rate ≤ 10^9 the period 10^9 / rate fits the 21-bit field and a reader computes
    10^9 / (10^9 / rate). -/
theorem sds_rate_inrange (sr : Nat) (h1 : 477 ≤ sr) (h2 : sr ≤ 1000000000) : quant sr = 1000000000 / (1000000000 / sr) := by
  have hp1 : 1 ≤ 1000000000 / sr := Nat.div_pos h2 (by omega)
  have hp2 : 1000000000 / sr < 2 ^ 21 := (Nat.div_lt_iff_lt_mul (by omega)).mpr (by omega)
  unfold quant period rateOf
  rw [Nat.mod_eq_of_lt hp2, if_pos (by omega)]

/-- the quantised rate is never below the requested one… -/
theorem sds_rate_ge (sr : Nat) (h1 : 477 ≤ sr) (h2 : sr ≤ 1000000000) : sr ≤ quant sr := by
  rw [sds_rate_inrange sr h1 h2]; exact div_div_ge _ _ (by omega) h2

/-- …and exact when the rate divides 10^9 (8000, 16000, 31250, 62500, 10^6, …) -/
theorem sds_rate_exact (sr k : Nat) (h1 : 477 ≤ sr) (h : 1000000000 = sr * k) : quant sr = sr := by
  have hk : 0 < k := by
    rcases Nat.eq_zero_or_pos k with h0 | h0
    · subst h0; simp at h
    · exact h0
  have h2 : sr ≤ 1000000000 := by rw [h]; exact Nat.le_mul_of_pos_right _ hk
  rw [sds_rate_inrange sr h1 h2]
  have : 1000000000 / sr = k := by rw [h]; exact Nat.mul_div_cancel_left k (by omega)
  rw [this, h]; exact Nat.mul_div_cancel _ hk

example : quant 44100 = 1000000000 / (1000000000 / 44100) ∧ 44100 ≤ quant 44100 ∧ quant 31250 = 31250 ∧ 1000000000 = 31250 * 32000 ∧
    period 477 = 2096436 ∧ period 477 < 2 ^ 21 := by decide +kernel

/-- outside the field: below 477 Hz the period loses its high bits (1 Hz reads back as 569 Hz, 250 Hz as 525 Hz, 476 Hz as 271149 Hz),
    above 1 GHz it is 0 and the reader guesses 16000 -/
theorem sds_rate_outside : quant 1 = 569 ∧ quant 250 = 525 ∧ quant 476 = 271149 ∧ quant 477 = 477 ∧ quant 1000000001 = 16000 ∧
    quant 44100 = 44101 ∧ quant 8000 = 8000 ∧ quant 48000 = 48000 ∧ quant 11025 = 11025 := by decide +kernel

/-! ## sessions -/

/-- **stale_frames_ignored_sds.**  sds_open overwrites psf->sf.frames and the header is made of total_written: the
    caller's frames value reaches neither the open image, nor an update image, nor the closed file. -/
theorem stale_frames_ignored_sds (c : Cfg) (a b : Nat) (ops : List WOp) :
    closedBytes c a ops = closedBytes c b ops ∧ snapshotBytes c a ops = snapshotBytes c b ops ∧ (openW c a).bytes = (openW c b).bytes :=
  ⟨rfl, rfl, rfl⟩

example : closedBytes ⟨2, 44100⟩ 0 [.write [1, 2, 3] true, .update] = closedBytes ⟨2, 44100⟩ 99999 [.write [1, 2, 3] true, .update] ∧
    (openW ⟨2, 44100⟩ 7).bytes = header 16 44100 0 := by decide +kernel

/-- **sds_updates_dont_change_file** (C07 / C11).  However the samples are split over write calls, with or without
    auto header mode, with any number of SFC_UPDATE_HEADER_NOW in between — each of which writes the partly filled
    packet out, seeks back and restores the packet state — the closed file is byte for byte the file of ONE write
    call of all the samples.  (seeded/C07-sds-update-zeroes-pending and seeded/C11-sds-update-no-seekback break this.) -/
theorem sds_updates_dont_change_file (c : Cfg) (hwf : c.wf) (stale : Nat) (ops : List WOp) :
    closedBytes c stale ops = closedBytes c stale [.write (opsData ops) false] := by
  rw [closed_eq_canon c hwf stale ops, closed_eq_canon c hwf stale [.write (opsData ops) false]]
  simp [opsData]

def ex16 : Cfg := ⟨2, 44100⟩
def ex8 : Cfg := ⟨1, 8000⟩
def ex24 : Cfg := ⟨3, 48000⟩
/-- 45 samples in three calls around a header update inside the second packet of 40 -/
def exOps : List WOp :=
  [.write ((List.range 41).map fun (i : Nat) => (i : Int) * 65536 - 1000000) false, .update, .write [7 * 65536, -8 * 65536] true, .write [2147483647, -2147483648] false]
example : ex16.wf ∧ (opsData exOps).length = 45 ∧ closedBytes ex16 0 exOps = closedBytes ex16 9 [.write (opsData exOps) false] ∧
    (closedBytes ex16 0 exOps).length = 21 + 2 * 127 := by decide +kernel

/-- **sds_size_fields.**  The closed file is the 21-byte header for exactly the `N` samples the write calls
    accepted — `F0 7E 00 01 00 00 <bits> <period> <N mod 2^21, 3 x 7 bits> 0…0 F7` — followed by ⌈N / spb⌉ packets of
    127 bytes (spb = 60 / 40 / 30 for 8 / 16 / 24 bits); nothing else. -/
theorem sds_size_fields (c : Cfg) (hwf : c.wf) (stale : Nat) (ops : List WOp) (N : Nat) (hN : N = (opsData ops).length) :
    ∃ body : List Byte, closedBytes c stale ops = header c.bitwidth c.sr N ++ body ∧
      body.length = 127 * ((N + c.spb - 1) / c.spb) ∧
      dec3 (((closedBytes c stale ops).drop 10).take 3) = N % 2 ^ 21 ∧
      dec3 (((closedBytes c stale ops).drop 7).take 3) = period c.sr := by
  obtain ⟨body, hb, hl⟩ := close_canon c hwf (opsData ops)
  rw [closed_eq_canon c hwf stale ops, hN]
  refine ⟨body, hb, hl, ?_, ?_⟩
  · rw [hb]; obtain ⟨_, _, _, _, _, h6, _⟩ := header_reads c.bitwidth c.sr (opsData ops).length body
    rw [h6, dec3_enc3]
  · rw [hb]; obtain ⟨_, _, _, _, h5, _, _⟩ := header_reads c.bitwidth c.sr (opsData ops).length body
    rw [h5, dec3_enc3]; rfl

example : (closedBytes ex8 3 [.write [1, 2, 3] false]).take 21 = [0xF0, 0x7E, 0, 1, 0, 0, 8, 0x48, 0x50, 0x07, 3, 0, 0, 0, 0, 0, 0, 0, 0, 0, 0xF7] := by
  decide +kernel

/-- **sds_reopen_info.**  For every accepted configuration and every session the closed file re-opens as one channel,
    SDS / the requested width, the quantised rate, and — under the guard of the 21-bit data-length field — exactly the
    frames written. -/
theorem sds_reopen_info (c : Cfg) (hwf : c.wf) (stale : Nat) (ops : List WOp) :
    parse (closedBytes c stale ops) = .ok { ch := 1, fmt := c.fmtWord, sr := quant c.sr, frames := (opsData ops).length % 2 ^ 21 } := by
  obtain ⟨body, hb, _⟩ := close_canon c hwf (opsData ops)
  rw [closed_eq_canon c hwf stale ops, hb]
  obtain ⟨h0, h1, h3, h6, h7, h10, hlen⟩ := header_reads c.bitwidth c.sr (opsData ops).length body
  unfold parse
  rw [if_neg (by rw [hlen]; omega), guess_sds]
  simp only []
  unfold readHeader
  rw [if_neg (by rw [hlen]; omega), h0, h1, h3, h6, h7, h10, dec3_enc3, dec3_enc3]
  obtain ⟨hc, _⟩ := hwf
  have hq : rateOf (1000000000 / c.sr % 2 ^ 21) = quant c.sr := rfl
  rw [hq]
  rcases hc with h | h | h <;> simp [Cfg.bitwidth, Cfg.fmtWord, h]

theorem sds_reopen_frames (c : Cfg) (hwf : c.wf) (stale : Nat) (ops : List WOp) (hg : (opsData ops).length < 2 ^ 21) :
    parse (closedBytes c stale ops) = .ok { ch := 1, fmt := c.fmtWord, sr := quant c.sr, frames := (opsData ops).length } := by
  rw [sds_reopen_info c hwf stale ops, Nat.mod_eq_of_lt hg]

example : parse (closedBytes ex16 5 exOps) = .ok ⟨1, 0x110002, 44101, 45⟩ ∧ parse (closedBytes ex24 0 []) = .ok ⟨1, 0x110003, 48000, 0⟩ ∧
    parse (closedBytes ex8 0 [.write [5] true]) = .ok ⟨1, 0x110001, 8000, 1⟩ := by decide +kernel

/-- **sds_frames_bound.**  The header carries the sample count itself (not a packet count): `N` frames re-open as `N`
    (B = 1) although the audio region is padded with zero samples to whole packets. -/
theorem sds_frames_bound (N : Nat) (hg : N < 2 ^ 21) : N % 2 ^ 21 = N ∧ N ≤ N % 2 ^ 21 ∧ N % 2 ^ 21 < N + 1 := by
  rw [Nat.mod_eq_of_lt hg]; omega

example : (45 : Nat) % 2 ^ 21 = 45 := by decide

/-- beyond the field (2^21 = 2097152 frames and more) the count wraps: the witness is the header of such a file -/
theorem sds_length_field_wraps : dec3 ((header 16 44100 2097153).drop 10 |>.take 3) = 1 := by decide +kernel

/-- **sds_snapshot_valid** (C11).  After any session prefix, the image a header update leaves in the store is the
    header for the frames written so far, the complete packets of the plain run of those samples, and — when a packet
    is partly filled — one more whole packet that starts with the pending samples (the rest of it is what the staging
    buffer still held); it parses with the same parameters and exactly the frames written so far. -/
theorem sds_snapshot_valid (c : Cfg) (hwf : c.wf) (stale : Nat) (ops : List WOp) :
    parse (snapshotBytes c stale ops) =
      .ok { ch := 1, fmt := c.fmtWord, sr := quant c.sr, frames := (opsData ops).length % 2 ^ 21 } ∧
    ∃ (S : St), snapshotBytes c stale ops = header c.bitwidth c.sr (opsData ops).length ++
        ((canon c (opsData ops)).pkts.reverse.flatten ++ (if S.wcount > 0 then (encBlock c.w S.wblock S.buf).2 else [])) ∧
      S.wcount = (canon c (opsData ops)).wcount ∧ S.buf.take S.wcount = (canon c (opsData ops)).buf.take S.wcount := by
  obtain ⟨S, _, hb, hwc, hfr⟩ := snapshot_parts c hwf stale ops
  refine ⟨?_, S, hb, hwc, hfr⟩
  rw [hb]
  generalize ((opsData ops).foldl (push c) (openW c 0)).pkts.reverse.flatten ++ (if S.wcount > 0 then (encBlock c.w S.wblock S.buf).2 else []) = body
  obtain ⟨h0, h1, h3, h6, h7, h10, hlen⟩ := header_reads c.bitwidth c.sr (opsData ops).length body
  unfold parse
  rw [if_neg (by rw [hlen]; omega), guess_sds]
  simp only []
  unfold readHeader
  rw [if_neg (by rw [hlen]; omega), h0, h1, h3, h6, h7, h10, dec3_enc3, dec3_enc3]
  obtain ⟨hc, _⟩ := hwf
  have hq : rateOf (1000000000 / c.sr % 2 ^ 21) = quant c.sr := rfl
  rw [hq]
  rcases hc with h | h | h <;> simp [Cfg.bitwidth, Cfg.fmtWord, h]

example : parse (snapshotBytes ex16 5 (exOps.take 1)) = .ok ⟨1, 0x110002, 44101, 41⟩ ∧
    (snapshotBytes ex16 5 (exOps.take 1)).length = 21 + 2 * 127 := by decide +kernel

/-- the flushed partial packet carries stale samples behind the pending ones (here: sample 1 of the second packet is
    sample 1 of the first), and sds_close replaces them with zeros — the update image and the closed file differ there,
    the closed files do not -/
theorem sds_snapshot_tail_is_stale :
    let ops : List WOp := [.write ((List.range 41).map fun (i : Nat) => (i : Int) * 65536 + 65536) false]
    ((snapshotBytes ex16 0 ops).drop (21 + 127 + 5 + 3)).take 3 = ((snapshotBytes ex16 0 ops).drop (21 + 5 + 3)).take 3 ∧
    ((closedBytes ex16 0 ops).drop (21 + 127 + 5 + 3)).take 3 = [0x40, 0, 0] ∧
    ((snapshotBytes ex16 0 ops).drop (21 + 127 + 5)).take 3 = ((closedBytes ex16 0 ops).drop (21 + 127 + 5)).take 3 := by decide +kernel

/-! ## the packet scan -/

/-- **sds_blocks_counted.**  The block-count scan of sds_read_header (Sf.SdsScan.scan, current rule) run on the
    files of the examples counts their packets, stops at a zero marker and at a file that ends inside a marker. -/
theorem sds_blocks_counted :
    blocks (closedBytes ex16 5 exOps) = 2 ∧ blocks (closedBytes ex24 0 []) = 0 ∧
    blocks (closedBytes ex16 5 exOps ++ [0, 0, 1]) = 2 ∧ blocks (closedBytes ex16 5 exOps ++ [0, 1]) = 3 ∧
    blocks (closedBytes ex16 5 exOps ++ [1]) = 2 ∧ blocks ((closedBytes ex16 5 exOps).take (21 + 127 + 2)) = 2 ∧
    blocks ((closedBytes ex16 5 exOps).take (21 + 127 + 1)) = 1 ∧
    seekEnd (closedBytes ex16 5 exOps) = 45 ∧ seekEnd ((closedBytes ex16 5 exOps).take (21 + 127)) = 45 ∧ seekEnd ((closedBytes ex16 5 exOps).take 21) = -1 := by decide +kernel

end Sf.C04Sds
