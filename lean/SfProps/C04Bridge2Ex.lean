/-
  C01 / C04 / C07 / C11 — the write-side bridge for the remaining containers (lean/SfProps/C04Bridge2.lean): NON-VACUITY of every
  `<x>_session_accepted` — the hypotheses (configuration accepted by sf_open, `Valid` job, guards, rate clause) hold for a concrete
  job with a frames call, SFC_UPDATE_HEADER_NOW, auto mode and an items call; for SVX and VOC the whole record is evaluated in the
  kernel (two crash points with 1 and 3 frames; accepted) — and the rate clauses of IRCAM (binary32) and VOC / PCM_U8 (divisor) on the
  models' quantisers at the campaigns' rates.

  -- properties: C01 C04 C07 C11
-/
import SfProps.C04Bridge2
namespace Sf.C04Bridge2
open Sf Sf.AbsWrite Sf.AbsWriteBridge Sf.C04Bridge
open Sf.AbsWriteBridge.Small (Cont Laws Valid small2Cont)

instance (ch : Nat) (ty : Ty) (ops : List Small.Op) : Decidable (Valid ch ty ops) :=
  @List.decidableBAll _ _ (fun op => by cases op <;> (dsimp only; infer_instance)) ops

def exOps : List Small.Op := [.write true [1, -2], .update, .auto true, .write false [3, -4, 5, 6]]
def exOps1 : List Small.Op := [.write true [1], .update, .auto true, .write false [-2, 3]]
def exPaf : Paf.Cfg := ⟨0x02, 0, 2, 44100⟩
def exIrcam : Ircam.Cfg := ⟨0x02, 2, 2, 16777217⟩

/-- the hypotheses of `paf_session_accepted`, `ircam_session_accepted` (a rate the binary32 field rounds: 2^24 + 1 → 2^24),
    `nist_session_accepted`, `mat5_session_accepted` hold for the stereo 16-bit job -/
example : exPaf.wf ∧ exPaf.codec ≠ 0x03 ∧ Valid exPaf.ch .s16 exOps := by decide
example : exIrcam.wf ∧ Ircam.rateQ exIrcam.sr = some 16777216 ∧ rateOk 0x0A exIrcam.sr 16777216 = true ∧ Valid exIrcam.ch .s16 exOps := by
  decide +kernel
example : C04Nist.exCfg.wf ∧ Valid C04Nist.exCfg.ch .s16 exOps ∧
    (Small.sampleList exOps).length * (encFor C04Nist.exCfg.codec C04Nist.exCfg.big).nbytes / C04Nist.exCfg.bw < 2 ^ 63 := by decide
example : C04Mat5.exCfg.wf ∧ Valid C04Mat5.exCfg.ch .s16 exOps := by decide +kernel

/-- SVX (mono 16SV with a file name): hypotheses, and the record evaluated -/
example : C04Svx.exCfg.wf ∧ Valid C04Svx.exCfg.ch .s16 exOps1 ∧
    (Small.recordOf (Small.small1Cont (Svx.spec C04Svx.exCfg) Svx.parse (svxGeom C04Svx.exCfg) (encFor 2 true)) .s16 0 99999 exOps1).snaps.map (·.info.frames) = [1, 3] ∧
    accepted (Small.recordOf (Small.small1Cont (Svx.spec C04Svx.exCfg) Svx.parse (svxGeom C04Svx.exCfg) (encFor 2 true)) .s16 0 99999 exOps1) = true := by
  decide +kernel

/-- VOC: stereo PCM_16 (type 9 block) and mono PCM_U8 at 11025 Hz (divisor 166 = 11111 Hz: inside the divisor clause); the closed file ends
    in the terminator byte, the crash images do not -/
example : C04Voc.exPcm.wf ∧ rateOk 0x08 C04Voc.exPcm.sr ((Voc.quant C04Voc.exPcm : Nat) : Int) = true ∧ Valid C04Voc.exPcm.ch .s16 exOps ∧
    (Small.sampleList exOps).length * (encFor C04Voc.exPcm.codec false).nbytes + 14 < 2 ^ 24 ∧
    (Small.recordOf (vocCont C04Voc.exPcm) .s16 0 99999 exOps).snaps.map (·.info.frames) = [1, 3] ∧
    (Small.recordOf (vocCont C04Voc.exPcm) .s16 0 99999 exOps).one.bytes.size = 42 + 12 + 1 ∧
    accepted (Small.recordOf (vocCont C04Voc.exPcm) .s16 0 99999 exOps) = true ∧
    rateOk 0x08 11025 ((Voc.quant ⟨5, 1, 11025⟩ : Nat) : Int) = true ∧
    (Small.recordOf (vocCont ⟨5, 1, 11025⟩) .s16 0 99999 exOps1).info.sr = 11111 ∧
    accepted (Small.recordOf (vocCont ⟨5, 1, 11025⟩) .s16 0 99999 exOps1) = true := by
  decide +kernel

/-- the two rate hypotheses at the rates the campaigns ask for: the model's IEEE round trip of the rate IS the predicate's `roundF32`
    (exact up to 2^24, ties-to-even above, the cap 2^31 − 128 inside the class the clause leaves open) -/
theorem ircam_rate_clause : ∀ sr ∈ [1, 8000, 11025, 44100, 48000, 65535, 65536, 96000, 2 ^ 24, 2 ^ 24 + 1, 2 ^ 24 + 3, 2 ^ 30 - 1, 2 ^ 30, 2 ^ 30 + 1,
      2 ^ 31 - 65, 2 ^ 31 - 64, 2 ^ 31 - 1],
    ∃ q, Ircam.rateQ sr = some q ∧ rateOk 0x0A sr (q : Int) = true ∧ (sr < 2 ^ 31 - 64 → q = roundF32 sr) := by
  decide +kernel


/-- the PCM_U8 divisor clause at the campaign's rates (one and two channels), by evaluation -/
theorem voc_rate_clause_u8 : ∀ sr ∈ [1, 3906, 3907, 4000, 8000, 11025, 22050, 44100, 48000, 96000, 200000, 200001, 1000000, 2 ^ 31 - 1], ∀ ch ∈ [1, 2],
    rateOk 0x08 sr ((Voc.quant ⟨5, ch, sr⟩ : Nat) : Int) = true := by decide

end Sf.C04Bridge2
