/-
-- properties: C01
  C01 (ALAC, "lossless, bit exact") — the REAL encoder on every channel count:

  * `alac_lossless` (FULL): for every bit depth 16 / 20 / 24 / 32, 1 … 8 channels (every element layout of `alac_encode`),
    every encoder state (per channel index: two 16 x 16 tables of int16 coefficients and a last mixing ratio 0 … 4 — what the
    encoder carries from packet to packet), every packet of 1 … 4096 frames of int32 samples:
    `alac_decode (alac_encode (frames))` = the frames with the low `32 - depth` bits cleared — whatever the searches of
    EncodeMono (order) and EncodeStereo (mixing ratio, orders) pick, whether an element ends compressed or as an escape
    element ("compressed frame too big" included). `alac_encode_state_ok`: the state after the packet is of the same kind, so the
    statement holds for every packet of a stream (`alac_lossless_stream`). `alac_lossless_exact`: samples within the depth's
    range come back bit exact.
  * `alac_pair_element_lossless`: one ID_CPE element inside any packet.
  Built from: `decMono_comp` / `decPair_comp` (parameter block, shifted-off bytes, dyn_decomp ∘ dyn_comp, unpc ∘ pc, unmix ∘ mix,
  output conversion), the escape theorems of C01Alac.lean and the invariants of SfProofs/AlacEncState.lean.
-/
import SfProofs.AlacPair
import SfProofs.AlacEncState
import SfProofs.AlacLoop
import SfProps.C01AlacLossless
import SfProps.C01Alac
import Mathlib.Tactic.SplitIfs
namespace Sf.AlacCore

theorem wrapU8_small (b : Int) (h0 : 0 ≤ b) (h4 : b ≤ 4) : wrapU 8 b ≤ 4 ∧ ((wrapU 8 b : Nat) : Int) = b ∧ b.toNat = wrapU 8 b := by
  unfold wrapU
  simp only [Int.reducePow]
  omega

set_option maxHeartbeats 1000000 in
/-- what EncodeStereo writes: the escape element, or the compressed element for a mixing ratio 0 … 4, two int16 rows, orders 4 / 8 -/
theorem encPair_cases (depth : Nat) (st : EncChan) (ls rs : List Int) (hst : PairStateOk st) :
    ((encPair depth frameLen st ls rs).1 = encPairEsc Rules.current depth ls.length ls rs ([], []) ∨
      ∃ mixRes cU cV numU numV, mixRes ≤ 4 ∧ CoefsOk cU ∧ CoefsOk cV ∧ (numU = 4 ∨ numU = 8) ∧ (numV = 4 ∨ numV = 8) ∧
        (encPair depth frameLen st ls rs).1 = compPairBits depth frameLen ls rs mixRes cU cV numU numV) ∧
    PairStateOk (encPair depth frameLen st ls rs).2 := by
  obtain ⟨hu, hv, h0, h4, hnu, hnv⟩ := pairSearch_ok depth st ls rs hst
  have hcu := rows_getD_ok _ ((pairSearch depth st ls rs).numU - 1) hu (by rcases hnu with h | h <;> rw [h] <;> decide)
  have hcv := rows_getD_ok _ ((pairSearch depth st ls rs).numV - 1) hv (by rcases hnv with h | h <;> rw [h] <;> decide)
  have hsu := fun (x : List Int) cb => rows_set_ok _ ((pairSearch depth st ls rs).numU - 1) _ hu
    (pcBlock_ok x _ (pairSearch depth st ls rs).numU cb 9 (by rcases hnu with h | h <;> rw [h] <;> decide) hcu)
  have hsv := fun (x : List Int) cb => rows_set_ok _ ((pairSearch depth st ls rs).numV - 1) _ hv
    (pcBlock_ok x _ (pairSearch depth st ls rs).numV cb 9 (by rcases hnv with h | h <;> rw [h] <;> decide) hcv)
  have hw := wrapU8_small _ h0 h4
  unfold encPair
  simp only []
  generalize pairSearch depth st ls rs = ch at *
  split_ifs
  all_goals first
    | exact ⟨Or.inl rfl, hu, hv, h0, h4⟩
    | exact ⟨Or.inl rfl, hsu _ _, hsv _ _, h0, h4⟩
    | exact ⟨Or.inr ⟨_, _, _, _, _, hw.1, hcu, hcv, hnu, hnv, rfl⟩, hsu _ _, hsv _ _, h0, h4⟩

/-- one channel pair of `alac_encode`, whatever the encoder state, decodes to both channels' samples with the low bits cleared -/
theorem alac_pair_element_lossless {cfg : Config} (hd : Depth cfg.bitDepth) (hmb : cfg.mb = 10) (hpb : cfg.pb = 40) (hkb : cfg.kb = 14)
    (st : EncChan) (hst : PairStateOk st) (byteSize inst reqN : Nat) (ls rs : List Int) (hlen : ls.length = rs.length)
    (hls : ∀ x ∈ ls, I32 x) (hrs : ∀ x ∈ rs, I32 x) (hn : ls.length ≤ frameLen) (hreq : ls.length = frameLen → reqN = frameLen)
    (rest : Bits) (p : Nat) (hroom : p + 4 + (encPair cfg.bitDepth frameLen st ls rs).1.length ≤ byteSize * 8) :
    decPair (comp Rules.current byteSize) Rules.current cfg reqN ⟨bitsOf inst 4 ++ ((encPair cfg.bitDepth frameLen st ls rs).1 ++ rest), p⟩ =
      .done ls.length [ls.map (trunc cfg.bitDepth), rs.map (trunc cfg.bitDepth)]
        ⟨rest, p + 4 + (encPair cfg.bitDepth frameLen st ls rs).1.length⟩ := by
  rcases (encPair_cases cfg.bitDepth st ls rs hst).1 with he | ⟨mixRes, cU, cV, numU, numV, hm, hcu, hcv, hnu, hnv, he⟩
  · rw [he] at hroom ⊢
    rw [decPair_esc _ hd inst reqN ls rs hlen hls hrs hn hreq, encPairEsc_length _ _ _ _ _ hlen]
    congr 2; omega
  · rw [he] at hroom ⊢
    exact decPair_comp hd hmb hpb hkb byteSize inst reqN ls rs hlen mixRes hm cU cV numU numV
      (by rw [hcu.1]; rcases hnu with h | h <;> rw [h] <;> decide) (by rw [hcv.1]; rcases hnv with h | h <;> rw [h] <;> decide)
      (by rcases hnu with h | h <;> rw [h] <;> decide) (by rcases hnv with h | h <;> rw [h] <;> decide)
      (fun c hc => hcu.2 c (List.mem_of_mem_take hc)) (fun c hc => hcv.2 c (List.mem_of_mem_take hc)) hls hrs hn hreq rest p hroom

/-- the encoder state: every channel index holds two int16 coefficient tables and a mixing ratio 0 … 4 -/
def AllOk (st : EncState) : Prop := ∀ c, PairStateOk (st.getD c {})

theorem default_pairStateOk : PairStateOk ({} : EncChan) := by
  unfold PairStateOk RowsOk CoefsOk Int16
  decide

theorem allOk_set (st : EncState) (c : Nat) (s1 : EncChan) (h : AllOk st) (h1 : PairStateOk s1) : AllOk (st.set c s1) := by
  intro k
  by_cases hk : k = c
  · subst hk
    by_cases hl : k < st.length
    · rw [List.getD_eq_getElem?_getD, List.getElem?_set_self hl]; exact h1
    · rw [List.getD_eq_getElem?_getD, List.getElem?_eq_none (by simp; omega)]; exact default_pairStateOk
  · have := h k
    rw [List.getD_eq_getElem?_getD] at this ⊢
    rw [List.getElem?_set_ne (by omega)]; exact this

theorem encMono_pairStateOk (depth : Nat) (st : EncChan) (xs : List Int) (h : PairStateOk st) : PairStateOk (encMono depth frameLen st xs).2 := by
  have hr := (encMono_cases depth st xs h.1).2
  refine ⟨hr, ?_⟩
  unfold encMono
  simp only []
  split_ifs <;> exact ⟨h.2.1, h.2.2⟩

theorem encElems_allOk (depth : Nat) (frames : List (List Int)) : ∀ (ts : List Nat) (c m s : Nat) (st : EncState), AllOk st →
    AllOk (encElems depth frameLen frames ts c m s st).2
  | [], _, _, _, _, h => h
  | t :: ts, c, m, s, st, h => by
    rw [encElems]
    split
    · exact encElems_allOk depth frames ts _ _ _ _ (allOk_set st c _ h (encPair_cases depth _ _ _ (h c)).2)
    · exact encElems_allOk depth frames ts _ _ _ _ (allOk_set st c _ h (encMono_pairStateOk depth _ _ (h c)))

theorem encMono_length_pos (depth : Nat) (st : EncChan) (xs : List Int) (h : RowsOk st.coefsU) : 16 ≤ (encMono depth frameLen st xs).1.length := by
  rcases (encMono_cases depth st xs h).1 with he | ⟨coefs, numU, hc, hu, he⟩
  · rw [he, encMonoEsc_length]; unfold escHeaderLen; split <;> omega
  · rw [he, compMonoBits_length _ _ _ _ _ (by rw [hc.1]; rcases hu with h | h <;> rw [h] <;> decide)]; split <;> omega

/-- the element loop of `alac_decode` on the elements `alac_encode` writes -/
theorem decLoop_enc {cfg : Config} (hd : Depth cfg.bitDepth) (hmb : cfg.mb = 10) (hpb : cfg.pb = 40) (hkb : cfg.kb = 14) (byteSize : Nat)
    (frames : List (List Int)) (hI : ∀ c, ∀ x ∈ chanOf frames c, I32 x) (hn : frames.length ≤ frameLen) (rest : Bits) :
    ∀ (ts : List Nat) (fuel c m s p ns on : Nat) (written : List (List Int)) (st : EncState),
      ts ≠ [] → (∀ t ∈ ts, t = ID_SCE ∨ t = ID_CPE) → ts.length ≤ fuel → written.length = c →
      c + layoutWidth ts = cfg.numChannels → (frames.length = frameLen → ns = frameLen) → AllOk st →
      p + (encElems cfg.bitDepth frameLen frames ts c m s st).1.length ≤ byteSize * 8 →
      decLoop (comp Rules.current byteSize) Rules.current cfg byteSize fuel
          ⟨⟨(encElems cfg.bitDepth frameLen frames ts c m s st).1 ++ rest, p⟩, ns, on, written⟩ =
        ⟨.ok, frames.length, written ++ chansFrom cfg.bitDepth frames c (layoutWidth ts),
          p + (encElems cfg.bitDepth frameLen frames ts c m s st).1.length⟩ := by
  intro ts
  induction ts with
  | nil => intro _ _ _ _ _ _ _ _ _ h; exact absurd rfl h
  | cons t ts ih =>
    intro fuel c m s p ns on written st _ hts hfuel hw hc hns hst hpos
    obtain ⟨fuel, rfl⟩ : ∃ f, fuel = f + 1 := ⟨fuel - 1, by simp at hfuel; omega⟩
    have ht := hts t (by simp)
    have hts' : ∀ t' ∈ ts, t' = ID_SCE ∨ t' = ID_CPE := fun t' h' => hts t' (by simp [h'])
    rcases ht with rfl | rfl
    · -- a mono element
      have e : (encElems cfg.bitDepth frameLen frames (ID_SCE :: ts) c m s st) =
          (bitsOf ID_SCE 3 ++ (bitsOf m 4 ++ ((encMono cfg.bitDepth frameLen (st.getD c {}) (chanOf frames c)).1 ++
            (encElems cfg.bitDepth frameLen frames ts (c + 1) (m + 1) s (st.set c (encMono cfg.bitDepth frameLen (st.getD c {}) (chanOf frames c)).2)).1)),
           (encElems cfg.bitDepth frameLen frames ts (c + 1) (m + 1) s (st.set c (encMono cfg.bitDepth frameLen (st.getD c {}) (chanOf frames c)).2)).2) := by
        rw [encElems]; simp [ID_SCE, ID_CPE]
      rw [e] at hpos ⊢
      simp only [] at hpos ⊢
      generalize hE : (encMono cfg.bitDepth frameLen (st.getD c {}) (chanOf frames c)).1 = E at hpos ⊢
      have hst' := allOk_set st c _ hst (encMono_pairStateOk cfg.bitDepth _ (chanOf frames c) (hst c))
      generalize (st.set c (encMono cfg.bitDepth frameLen (st.getD c {}) (chanOf frames c)).2) = st1 at hpos hst' ⊢
      simp only [List.length_append, bitsOf_length] at hpos
      have hm := alac_mono_element_lossless hd hmb hpb hkb (st.getD c {}) (hst c).1 byteSize m ns (chanOf frames c) (hI c)
        (by rw [chanOf_length]; exact hn) (by rw [chanOf_length]; exact hns)
        ((encElems cfg.bitDepth frameLen frames ts (c + 1) (m + 1) s st1).1 ++ rest) (p + 3) (by rw [hE]; omega)
      rw [hE, chanOf_length] at hm
      rw [decLoop]
      have hcur : ∀ bs : Bits, ¬ (byteSize ≤ (Rd.mk bs p).curByte) := by
        intro bs; simp only [Rd.curByte]; omega
      simp only [ge_iff_le, hcur, if_false, List.append_assoc, read_bitsOf]
      simp only [ID_SCE, ID_LFE, Nat.zero_mod, true_or, if_true, hm]
      have hw1 : layoutWidth (0 :: ts) = 1 + layoutWidth ts := by simp [layoutWidth, ID_CPE]
      simp only [ID_SCE] at hc
      rw [hw1] at hc ⊢
      by_cases hnil : ts = []
      · subst hnil
        simp only [layoutWidth, encElems, List.append_nil, List.length_append, List.length_cons, List.length_nil, hw, Nat.add_zero, bitsOf_length] at hc hpos ⊢
        have : cfg.numChannels ≤ c + 1 := by omega
        simp only [ge_iff_le, this, if_true, zeroFill, List.length_append, List.length_cons, List.length_nil, hw]
        have z : cfg.numChannels - (c + 0 + 1) = 0 := by omega
        simp only [z, List.replicate_zero, List.append_nil, chansFrom_succ, chansFrom_zero, Res.mk.injEq, true_and]
        omega
      · have hwpos := layoutWidth_pos hnil
        have : ¬ (cfg.numChannels ≤ c + 1) := by omega
        simp only [ge_iff_le, List.length_append, List.length_cons, List.length_nil, hw, Nat.zero_add, this, if_false]
        rw [ih fuel (c + 1) (m + 1) s (p + 3 + 4 + E.length) frames.length frames.length (written ++ [(chanOf frames c).map (trunc cfg.bitDepth)]) st1 hnil hts'
          (by simp at hfuel; omega) (by simp [hw]) (by omega) (fun h => h) hst' (by omega)]
        simp only [List.length_append, bitsOf_length, List.append_assoc, List.cons_append, List.nil_append]
        rw [show 1 + layoutWidth ts = layoutWidth ts + 1 by omega, chansFrom_succ]
        congr 1
        omega
    · -- a channel pair
      have e : (encElems cfg.bitDepth frameLen frames (ID_CPE :: ts) c m s st) =
          (bitsOf ID_CPE 3 ++ (bitsOf s 4 ++ ((encPair cfg.bitDepth frameLen (st.getD c {}) (chanOf frames c) (chanOf frames (c + 1))).1 ++
            (encElems cfg.bitDepth frameLen frames ts (c + 2) m (s + 1) (st.set c (encPair cfg.bitDepth frameLen (st.getD c {}) (chanOf frames c) (chanOf frames (c + 1))).2)).1)),
           (encElems cfg.bitDepth frameLen frames ts (c + 2) m (s + 1) (st.set c (encPair cfg.bitDepth frameLen (st.getD c {}) (chanOf frames c) (chanOf frames (c + 1))).2)).2) := by
        rw [encElems]; simp
      rw [e] at hpos ⊢
      simp only [] at hpos ⊢
      have hcl : (chanOf frames c).length = (chanOf frames (c + 1)).length := by simp [chanOf_length]
      have hst' := allOk_set st c _ hst (encPair_cases cfg.bitDepth _ (chanOf frames c) (chanOf frames (c + 1)) (hst c)).2
      have hlenE : 16 ≤ (encPair cfg.bitDepth frameLen (st.getD c {}) (chanOf frames c) (chanOf frames (c + 1))).1.length ∨ True := Or.inr trivial
      generalize hE : (encPair cfg.bitDepth frameLen (st.getD c {}) (chanOf frames c) (chanOf frames (c + 1))).1 = E at hpos ⊢
      generalize (st.set c (encPair cfg.bitDepth frameLen (st.getD c {}) (chanOf frames c) (chanOf frames (c + 1))).2) = st1 at hpos hst' ⊢
      simp only [List.length_append, bitsOf_length] at hpos
      have hm := alac_pair_element_lossless hd hmb hpb hkb (st.getD c {}) (hst c) byteSize s ns (chanOf frames c) (chanOf frames (c + 1)) hcl
        (hI c) (hI (c + 1)) (by rw [chanOf_length]; exact hn) (by rw [chanOf_length]; exact hns)
        ((encElems cfg.bitDepth frameLen frames ts (c + 2) m (s + 1) st1).1 ++ rest) (p + 3) (by rw [hE]; omega)
      rw [hE, chanOf_length] at hm
      rw [decLoop]
      have hcur : ∀ bs : Bits, ¬ (byteSize ≤ (Rd.mk bs p).curByte) := by
        intro bs; simp only [Rd.curByte]; omega
      simp only [ge_iff_le, hcur, if_false, List.append_assoc, read_bitsOf]
      have hw2 : layoutWidth (ID_CPE :: ts) = 2 + layoutWidth ts := by simp [layoutWidth]
      rw [hw2] at hc ⊢
      have h2 : ¬ (written.length + 2 > cfg.numChannels) := by omega
      simp only [ID_SCE, ID_LFE, ID_CPE, Nat.one_mod, Nat.reducePow, Nat.reduceMod, or_self, if_false, if_true, h2,
        show ¬ ((1 : Nat) = 0) by decide, show ¬ ((1 : Nat) = 3) by decide, hm]
      by_cases hnil : ts = []
      · subst hnil
        simp only [layoutWidth, encElems, List.append_nil, List.length_append, List.length_cons, List.length_nil, hw, Nat.add_zero, bitsOf_length] at hc hpos ⊢
        have : cfg.numChannels ≤ c + 2 := by omega
        simp only [ge_iff_le, this, if_true, zeroFill, List.length_append, List.length_cons, List.length_nil, hw]
        have z : cfg.numChannels - (c + (0 + 1 + 1)) = 0 := by omega
        simp only [z, List.replicate_zero, List.append_nil, chansFrom_succ, chansFrom_zero, Res.mk.injEq, true_and]
        omega
      · have hwpos := layoutWidth_pos hnil
        have : ¬ (cfg.numChannels ≤ c + 2) := by omega
        simp only [ge_iff_le, List.length_append, List.length_cons, List.length_nil, hw, Nat.zero_add, this, if_false]
        rw [ih fuel (c + 2) m (s + 1) (p + 3 + 4 + E.length) frames.length frames.length
          (written ++ [(chanOf frames c).map (trunc cfg.bitDepth), (chanOf frames (c + 1)).map (trunc cfg.bitDepth)]) st1 hnil hts'
          (by simp at hfuel; omega) (by simp [hw]) (by omega) (fun h => h) hst' (by omega)]
        simp only [List.length_append, bitsOf_length, List.append_assoc, List.cons_append, List.nil_append]
        rw [show 2 + layoutWidth ts = layoutWidth ts + 1 + 1 by omega, chansFrom_succ, chansFrom_succ]
        congr 1
        omega

theorem encElems_length_ge (depth : Nat) (frames : List (List Int)) : ∀ (ts : List Nat) (c m s : Nat) (st : EncState),
    3 * ts.length ≤ (encElems depth frameLen frames ts c m s st).1.length
  | [], _, _, _, _ => by simp [encElems]
  | t :: ts, c, m, s, st => by
    rw [encElems]
    split
    · have := encElems_length_ge depth frames ts (c + 2) m (s + 1) (st.set c (encPair depth frameLen (st.getD c {}) (chanOf frames c) (chanOf frames (c + 1))).2)
      simp only [List.length_append, bitsOf_length, List.length_cons]; omega
    · have := encElems_length_ge depth frames ts (c + 1) (m + 1) s (st.set c (encMono depth frameLen (st.getD c {}) (chanOf frames c)).2)
      simp only [List.length_append, bitsOf_length, List.length_cons]; omega

/-- the state after a packet is again a valid state -/
theorem alac_encode_state_ok (cfg : Config) (st : EncState) (hst : AllOk st) (frames : List (List Int)) : AllOk (encode cfg st frames).2 := by
  unfold encode
  exact encElems_allOk cfg.bitDepth frames _ _ _ _ _ hst

theorem init_allOk (n : Nat) : AllOk (EncState.init n) := by
  intro c
  unfold EncState.init
  rw [List.getD_eq_getElem?_getD]
  by_cases h : c < max n 8
  · rw [List.getElem?_replicate]; simp [h]; exact default_pairStateOk
  · rw [List.getElem?_eq_none (by simp; omega)]; exact default_pairStateOk

/-- ALAC is lossless: for every depth, 1 … 8 channels, every encoder state, every packet of 1 … 4096 frames of int32 samples,
    `alac_decode (alac_encode (frames))` = the frames with the low `32 - depth` bits cleared -/
theorem alac_lossless (cfg : Config) (hd : Depth cfg.bitDepth) (hc1 : 1 ≤ cfg.numChannels) (hc8 : cfg.numChannels ≤ 8)
    (hmb : cfg.mb = 10) (hpb : cfg.pb = 40) (hkb : cfg.kb = 14) (st : EncState) (hst : AllOk st) (frames : List (List Int))
    (hn : frames.length ≤ 4096) (hf : ∀ f ∈ frames, f.length = cfg.numChannels ∧ ∀ x ∈ f, I32 x) :
    decodeFresh cfg (encode cfg st frames).1 = frames.map (·.map (trunc cfg.bitDepth)) := by
  obtain ⟨hl1, hl2, hl3⟩ := layout_facts cfg.numChannels hc1 hc8
  have hI : ∀ c, ∀ x ∈ chanOf frames c, I32 x := by
    intro c x hx
    simp only [chanOf, List.mem_map] at hx
    obtain ⟨f, hfm, rfl⟩ := hx
    exact getD_I32 f c (hf f hfm).2
  have hpk : (encode cfg st frames).1 = pack ((encElems cfg.bitDepth frameLen frames (layout cfg.numChannels) 0 0 0 st).1 ++ bitsOf ID_END 3) := rfl
  generalize hE : (encElems cfg.bitDepth frameLen frames (layout cfg.numChannels) 0 0 0 st).1 = E at hpk
  have hge := encElems_length_ge cfg.bitDepth frames (layout cfg.numChannels) 0 0 0 st
  rw [hE] at hge
  have hup := unpack_pack (E ++ bitsOf ID_END 3)
  have hlen := unpack_length (encode cfg st frames).1
  rw [hpk] at hlen ⊢
  generalize List.replicate ((8 - (E ++ bitsOf ID_END 3).length % 8) % 8) false = pad at hup
  have hsz : E.length + 3 ≤ 8 * (pack (E ++ bitsOf ID_END 3)).length := by
    rw [← hlen, hup]; simp [bitsOf_length]
  generalize pack (E ++ bitsOf ID_END 3) = pk at hup hsz ⊢
  have key := decLoop_enc hd hmb hpb hkb pk.length frames hI (by unfold frameLen; exact hn) (bitsOf ID_END 3 ++ pad)
    (layout cfg.numChannels) (3 * pk.length + 1) 0 0 0 0 frameLen frameLen [] st hl1 hl2 (by omega) rfl (by omega) (fun _ => rfl) hst
    (by rw [hE] <;> omega)
  rw [hE] at key
  unfold decodeFresh decode decodeR decodeWith
  rw [if_neg (by omega), Rd.ofBytes, hup, List.append_assoc, key, hl3]
  unfold Res.frames
  simp only [List.nil_append]
  rw [applyOut_nil _ _ (by simp [chansFrom]), chansFrom, ← List.range_eq_range']
  exact transpose_chans (trunc cfg.bitDepth) cfg.numChannels frames (fun f h => (hf f h).1)

/-- lossless, bit exact: samples within the depth's range come back unchanged -/
theorem alac_lossless_exact (cfg : Config) (hd : Depth cfg.bitDepth) (hc1 : 1 ≤ cfg.numChannels) (hc8 : cfg.numChannels ≤ 8)
    (hmb : cfg.mb = 10) (hpb : cfg.pb = 40) (hkb : cfg.kb = 14) (st : EncState) (hst : AllOk st) (frames : List (List Int))
    (hn : frames.length ≤ 4096) (hf : ∀ f ∈ frames, f.length = cfg.numChannels ∧ ∀ x ∈ f, InRange cfg.bitDepth x) :
    decodeFresh cfg (encode cfg st frames).1 = frames := by
  rw [alac_lossless cfg hd hc1 hc8 hmb hpb hkb st hst frames hn (fun f h => ⟨(hf f h).1, fun x hx => ((hf f h).2 x hx).1⟩)]
  conv => rhs; rw [← List.map_id frames]
  apply List.map_congr_left
  intro f hfm
  conv => rhs; rw [id, ← List.map_id f]
  apply List.map_congr_left
  intro x hx
  exact trunc_inRange hd ((hf f hfm).2 x hx)

/-- a whole stream: every packet of the file decodes to what was staged for it -/
theorem alac_lossless_stream (cfg : Config) (hd : Depth cfg.bitDepth) (hc1 : 1 ≤ cfg.numChannels) (hc8 : cfg.numChannels ≤ 8)
    (hmb : cfg.mb = 10) (hpb : cfg.pb = 40) (hkb : cfg.kb = 14) : ∀ (blocks : List (List (List Int))) (st : EncState), AllOk st →
    (∀ fr ∈ blocks, fr.length ≤ 4096 ∧ ∀ f ∈ fr, f.length = cfg.numChannels ∧ ∀ x ∈ f, I32 x) →
    (encodeAll cfg st blocks).map (decodeFresh cfg) = blocks.map fun fr => fr.map (·.map (trunc cfg.bitDepth))
  | [], _, _, _ => rfl
  | fr :: rest, st, hst, h => by
    obtain ⟨h1, h2⟩ := h fr (by simp)
    simp only [encodeAll, List.map_cons]
    rw [alac_lossless cfg hd hc1 hc8 hmb hpb hkb st hst fr h1 h2,
      alac_lossless_stream cfg hd hc1 hc8 hmb hpb hkb rest _ (alac_encode_state_ok cfg st hst fr) (fun fr' h' => h fr' (by simp [h']))]

/-- non-vacuity: the first packet of a 20-bit, 3-channel file (an SCE and a CPE element), the encoder's initial state -/
example : decodeFresh ⟨20, 3, 40, 10, 14, 255⟩ (encode ⟨20, 3, 40, 10, 14, 255⟩ (EncState.init 3) [[4096, -8192, 12288], [2147479552, -2147483648, 0]]).1 =
    [[4096, -8192, 12288], [2147479552, -2147483648, 0]] :=
  alac_lossless_exact ⟨20, 3, 40, 10, 14, 255⟩ (by unfold Depth; decide) (by decide) (by decide) rfl rfl rfl _ (init_allOk 3) _ (by decide)
    (by intro f hf; simp at hf; rcases hf with rfl | rfl <;> (refine ⟨rfl, ?_⟩; intro x hx; simp at hx; rcases hx with rfl | rfl | rfl <;> (unfold InRange I32; decide)))

end Sf.AlacCore
