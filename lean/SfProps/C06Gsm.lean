/-
  C06 / C05 (GSM 06.10) — the decoder core and the read side of src/gsm610.c, on the bit-exact model
  (SfModel/Gsm.lean, GsmFile.lean).
  -- properties: C05 C06

  * arithmetic layer: the saturating macros stay inside int16 and equal the clamped exact result;
  * memory safety of the decoder core, PROVED: for every reachable decoder state and EVERY input frame (any bytes),
    every table index and every array index the decoder forms is in range, every value it stores is an int16, and
    it delivers exactly 160 int16 samples (`gsm_decode_safe`, `gsm_decoder_indices_in_range`,
    `gsm_reachable_states_safe`);
  * totality: every loop of the decoder is a counted `for` (structural recursion here) except the normalisation loop
    `while (mant <= 7)` of APCM_quantization_xmaxc_to_exp_mant, which runs at most 3 times for every 6-bit xmaxc
    (`gsm_expmant_loop_terminates`);
  * the wrapper: every block of a GSM file decodes to exactly `samplesperblock` int16 samples; reads of any partition,
    through any of the four caller types (staging pieces of 4096), deliver the slice of the one sequential decode at
    the handle's position; the seek contract as implemented: `sf_seek` refuses every call (the C06 seek clause holds
    vacuously), and `gsm610_seek` as written — unreachable — would load the wrong bytes.
  Property theorems only; helpers in SfProofs/GsmLemmas.lean, GsmFileLemmas.lean.
-/
import SfProofs.GsmFileLemmas
import SfProps.C06Block
namespace Sf.C06Gsm
open Sf Sf.Gsm Sf.Gsm.Proofs Sf.Block Sf.Block.Proofs

/-! ## arithmetic layer -/

/-- GSM_ADD, GSM_SUB, gsm_mult_r and every `int16_t` assignment produce int16 values, whatever the operands -/
theorem gsm_sat_ops_in_int16 (a b : Int) : W16 (add a b) ∧ W16 (sub a b) ∧ W16 (gsmMultR a b) ∧ W16 (w16 a) ∧ W16 (sat a) :=
  ⟨add_range a b, sub_range a b, gsmMultR_range a b, w16_range a, sat_range a⟩

/-- GSM_ADD (written with `>= MAX_WORD` / `<= MIN_WORD`) is the exact sum clamped to int16 -/
theorem gsm_add_is_clamped_sum (a b : Int) :
    add a b = (if a + b > 32767 then 32767 else if a + b < -32768 then -32768 else a + b) := by
  unfold add; simp only; split <;> split <;> (try split) <;> omega

theorem gsm_sub_is_clamped_difference (a b : Int) :
    sub a b = (if a - b > 32767 then 32767 else if a - b < -32768 then -32768 else a - b) := by
  unfold sub; simp only; split <;> split <;> (try split) <;> omega

/-- an `int16_t` assignment of a value already in range changes nothing (the conversions only matter where the C
    relies on truncation: `& 0xFFF8` in Postprocessing, GSM_MULT_R (MIN_WORD, MIN_WORD)) -/
theorem gsm_w16_exact_in_range (x : Int) (h : W16 x) : w16 x = x := w16_id x h

/-- Postprocessing: `GSM_ADD (msr, msr) & 0xFFF8` stored in an `int16_t` is the saturated sum rounded down to a multiple
    of 8 — the mask and the conversion together never wrap -/
theorem gsm_postproc_truncation_exact (x : Int) (h : W16 x) :
    w16 (((wrapU 16 x / 8 * 8 : Nat) : Int)) = x / 8 * 8 := by
  unfold W16 at h
  unfold w16 wrapS wrapU
  simp only [pow16]
  by_cases hx : 0 ≤ x
  · have h1 : x % 65536 = x := Int.emod_eq_of_lt hx (by omega)
    rw [h1]
    have h2 : ((x.toNat / 8 * 8 : Nat) : Int) = x / 8 * 8 := by omega
    rw [h2]
    have h3 : (x / 8 * 8) % 65536 = x / 8 * 8 := Int.emod_eq_of_lt (by omega) (by omega)
    rw [h3]; split <;> omega
  · have h1 : x % 65536 = x + 65536 := by
      have := Int.emod_eq_of_lt (show 0 ≤ x + 65536 by omega) (show x + 65536 < 65536 by omega)
      rw [← this, Int.add_emod_right]
    rw [h1]
    have h2 : (((x + 65536).toNat / 8 * 8 : Nat) : Int) = x / 8 * 8 + 65536 := by omega
    rw [h2]
    have h3 : (x / 8 * 8 + 65536) % 65536 = x / 8 * 8 + 65536 := Int.emod_eq_of_lt (by omega) (by omega)
    rw [h3]; split <;> omega

/-- the one product GSM_MULT_R cannot represent: it yields 32768, which the `int16_t` assignment wraps to −32768;
    `gsm_mult_r` (and its open-coded twin in the synthesis filter) special-cases it to 32767 -/
theorem gsm_multR_min_min : multR (-32768) (-32768) = 32768 ∧ w16 (multR (-32768) (-32768)) = -32768 ∧
    gsmMultR (-32768) (-32768) = 32767 := by decide

example : W16 (-32768) ∧ w16 (((wrapU 16 (-32768 : Int) / 8 * 8 : Nat) : Int)) = -32768 ∧ w16 (((wrapU 16 (-3 : Int) / 8 * 8 : Nat) : Int)) = -8 := by
  refine ⟨by unfold W16; omega, by decide, by decide⟩

example : add 32767 1 = 32767 ∧ add (-32768) (-1) = -32768 ∧ add 100 (-30) = 70 ∧ sub (-32768) 1 = -32768 := by decide

/-! ## frame parameters -/

/-- whatever the 33 bytes are, the parameters unpacked from them lie inside their bit fields -/
theorem gsm_frame_fields_in_range (c : List Byte) (p : Params) (h : unpack33 c = some p) : PInv p := unpack33_inv c p h

/-- the same for both halves of a WAV49 block; the carried half byte is a nibble -/
theorem gsm_wav49_fields_in_range (chain : Nat) (c : List Byte) :
    PInv (unpack49a c).1 ∧ (unpack49a c).2 < 16 ∧ PInv (unpack49b chain c) :=
  ⟨(unpack49a_inv c).1, (unpack49a_inv c).2, unpack49b_inv chain c⟩

example : ∃ p, unpack33 (0xDF :: List.replicate 32 0xFF) = some p ∧ p.larc = [63, 63, 31, 31, 15, 15, 7, 7] := by
  refine ⟨_, rfl, ?_⟩; decide

/-- a frame whose first nibble is not 0xD is refused before anything is touched -/
theorem gsm_bad_magic_untouched (st : State) (c : List Byte) (hw : st.wavFmt = false) (h : (c.getD 0 0) / 16 % 16 ≠ 13) :
    gsmDecode st c = (st, none) := by
  unfold gsmDecode
  rw [if_neg (by rw [hw]; decide)]
  unfold unpack33
  rw [if_pos h]

/-! ## RPE decoding: exponent / mantissa -/

/-- for every 6-bit xmaxc: the mantissa indexes gsm_FAC [0..7], the exponent is in −4..6 (so `6 − expon` is a shift
    count in 0..10) -/
theorem gsm_expmant_in_range (x : Int) (h0 : 0 ≤ x) (h1 : x < 64) :
    0 ≤ (expMant x).2 ∧ (expMant x).2 ≤ 7 ∧ -4 ≤ (expMant x).1 ∧ (expMant x).1 ≤ 6 := by
  have := expMant_range x.toNat (by omega)
  rwa [Int.toNat_of_nonneg h0] at this

/-- the only unbounded-looking loop of the decoder, `while (mant <= 7)`, ends within 3 rounds for every mantissa that
    can reach it (1..15): with fuel 3 the loop has left `mant > 7` -/
theorem gsm_expmant_loop_terminates : ∀ m : Nat, 1 ≤ m → m ≤ 15 → ∀ e : Int, -1 ≤ e → e ≤ 6 →
    7 < (normLoop 3 e m).2 ∧ normLoop 16 e m = normLoop 3 e m := by
  intro m h1 h2
  have key : ∀ m : Nat, m < 16 → ∀ e : Nat, e < 8 → 1 ≤ m →
      7 < (normLoop 3 ((e : Int) - 1) m).2 ∧ normLoop 16 ((e : Int) - 1) m = normLoop 3 ((e : Int) - 1) m := by decide
  intro e he1 he2
  have := key m (by omega) (e + 1).toNat (by omega) h1
  rwa [Int.toNat_of_nonneg (by omega), Int.add_sub_cancel] at this

/-! ## memory safety of the decoder core -/

/-- every index the decoder forms for one sub-frame is in range, in every state satisfying the invariant and for
    every parameter set that can come out of the unpackers:
    `gsm_FAC [mant]`, `gsm_QLB [bcr]`, the lag `Nr` (so that `drp [k - Nr]`, k = 0..39, reads cells −120..−1 of the
    history and never a cell being written), the grid position `Mc` (RPE_grid_positioning writes exactly 40 cells) -/
theorem gsm_decoder_indices_in_range (st : State) (s : Sub) (inv : SInv st) (si : SubInv s) :
    (0 ≤ (expMant s.xmaxc).2 ∧ (expMant s.xmaxc).2 < (tabFAC.length : Int)) ∧
    (0 ≤ s.bc ∧ s.bc < (tabQLB.length : Int)) ∧
    (∀ nrp : Int, 40 ≤ nrp → nrp ≤ 120 → ∀ k : Int, 0 ≤ k → k < 40 →
      -120 ≤ k - nrOf nrp s.nc ∧ k - nrOf nrp s.nc ≤ -1) ∧
    (40 ≤ nrOf st.nrp s.nc ∧ nrOf st.nrp s.nc ≤ 120) ∧
    (0 ≤ s.mc ∧ s.mc ≤ 3) ∧ (rpeDecode s.xmaxc s.mc s.xmc).length = 40 := by
  obtain ⟨m0, m1, _, _⟩ := gsm_expmant_in_range s.xmaxc si.xmaxc.1 si.xmaxc.2
  have hfac : (tabFAC.length : Int) = 8 := by decide
  have hqlb : (tabQLB.length : Int) = 4 := by decide
  have hmc := si.mc.2
  have hbc := si.bc.2
  refine ⟨⟨m0, by omega⟩, ⟨si.bc.1, by omega⟩, ?_, nrOf_range _ _ inv.nrp_lo inv.nrp_hi, ⟨si.mc.1, by omega⟩,
    rpeDecode_length _ _ _⟩
  intro nrp h1 h2 k k0 k1
  have := nrOf_range nrp s.nc h1 h2
  omega

/-- `gsm_decode` on ANY byte string, from any state satisfying the invariant: the state after it satisfies the
    invariant again (array lengths, every stored word an int16, 40 ≤ nrp ≤ 120, j and frame_index bits,
    frame_chain a nibble) and, when it does not refuse the frame, it delivers exactly 160 int16 samples.
    Totality is by construction: the model is a total function. -/
theorem gsm_decode_safe (st : State) (c : List Byte) (inv : SInv st) :
    SInv (gsmDecode st c).1 ∧ ∀ o, (gsmDecode st c).2 = some o → o.length = 160 ∧ AllW16 o := gsmDecode_spec st c inv

/-- every state reachable from `gsm_create` (33-byte or WAV49 mode) by decoding any sequence of frames satisfies the
    invariant — no bound on the number of frames, no condition on their bytes -/
theorem gsm_reachable_states_safe (frames : List (List Byte)) :
    SInv (frames.foldl (fun s c => (gsmDecode s c).1) State.init) ∧
    SInv (frames.foldl (fun s c => (gsmDecode s c).1) State.initWav) := by
  have key : ∀ (fs : List (List Byte)) (s : State), SInv s → SInv (fs.foldl (fun s c => (gsmDecode s c).1) s) := by
    intro fs
    induction fs with
    | nil => intro s h; exact h
    | cons c cs ih => intro s h; exact ih _ (gsmDecode_spec s c h).1
  exact ⟨key frames _ SInv_init, key frames _ SInv_initWav⟩

example : SInv State.init ∧ State.init.nrp = 40 := ⟨SInv_init, rfl⟩
/-- non-vacuity of the index theorem: the sub-frame of an all-ones frame (lag 127 outside 40..120, gain 3, xmaxc 63) -/
example : SubInv ⟨127, 3, 3, 63, List.replicate 13 7⟩ ∧ nrOf 40 127 = 40 ∧ (expMant 63).2 = 7 := by
  refine ⟨⟨by decide, by decide, by decide, by decide, by decide, ?_⟩, by decide, by decide⟩
  intro x hx
  have := List.eq_of_mem_replicate hx
  subst this; decide

/-! ## the wrapper: blocks, reads -/

theorem array_getD_mem {α} (l : List α) (k : Nat) (d : α) (h : k < l.length) : l.toArray.getD k d ∈ l := by
  have : l.toArray.getD k d = l[k] := by simp [Array.getD, h]
  rw [this]; exact List.getElem_mem h

/-- every block of a GSM file — whatever its bytes, also the block after a short read and blocks with a wrong magic
    nibble — decodes to exactly `samplesperblock` samples, all of them int16 -/
theorem gsm_block_has_spb_samples (c : Cfg) (file : List Byte) (dlen k : Nat) :
    ((reader c file dlen).src k).length = c.spb ∧ AllW16 ((reader c file dlen).src k) := by
  obtain ⟨hl, hx⟩ := seqDecode_spec c (blocksOf c dlen) (DSt.init c) file (DInv_init c)
  simp only [reader]
  split
  · rename_i hk
    have hm := array_getD_mem (seqDecode c (blocksOf c dlen) (DSt.init c) file) k [] (by rw [hl]; exact hk)
    obtain ⟨h1, h2⟩ := hx _ hm
    rw [fixLen_id _ _ h1]
    exact ⟨h1, h2⟩
  · exact ⟨by simp [zeros], AllW16_replicate _⟩

/-- the GSM reader is a well-formed instance of the generic block reader -/
theorem gsm_reader_wf (c : Cfg) (file : List Byte) (dlen : Nat) : WF (reader c file dlen) := reader_wf c file dlen

/-- C05 / C06, short callers: from any state satisfying the reader invariant, a read of n frames that ends inside the
    data returns n, delivers items [pos, pos + n) of the sequential decode and advances the position by n -/
theorem gsm_reads_deliver_stream (c : Cfg) (file : List Byte) (dlen : Nat) (st : RState)
    (inv : Inv (reader c file dlen) st) (n : Nat) (h : (reader c file dlen).pos st + n ≤ (reader c file dlen).frames) :
    ((reader c file dlen).read st n).2.1 = (reader c file dlen).slice ((reader c file dlen).pos st) n ∧
    ((reader c file dlen).read st n).2.2 = n ∧ Inv (reader c file dlen) ((reader c file dlen).read st n).1 ∧
    (reader c file dlen).pos ((reader c file dlen).read st n).1 = (reader c file dlen).pos st + n := by
  have hch : (reader c file dlen).ch = 1 := rfl
  have := C06Block.block_reader_refines_stream _ (reader_wf c file dlen) st inv n (by rw [hch] at *; exact h)
  rw [hch, Nat.mul_one, Nat.mul_one] at this
  exact this

/-- C06 partition clause, ∀ splits: a then b frames = one read of a + b frames -/
theorem gsm_read_partition (c : Cfg) (file : List Byte) (dlen : Nat) (st : RState) (inv : Inv (reader c file dlen) st) (a b : Nat)
    (h : (reader c file dlen).pos st + (a + b) ≤ (reader c file dlen).frames) :
    ((reader c file dlen).read st (a + b)).2.1 =
      ((reader c file dlen).read st a).2.1 ++ ((reader c file dlen).read ((reader c file dlen).read st a).1 b).2.1 := by
  have hch : (reader c file dlen).ch = 1 := rfl
  have := (C06Block.partition_invariance_block _ (reader_wf c file dlen) st inv a b h).1
  rw [hch, Nat.mul_one, Nat.mul_one, Nat.mul_one] at this
  exact this

/-- the staging loops of gsm610_read_i / _f / _d (pieces of 4096 shorts) and of gsm610_read_s (one piece): for EVERY
    piece size the loop delivers the same n items as one inner call, so the four caller types see the same samples -/
theorem gsm_read_staged (c : Cfg) (file : List Byte) (dlen chunk : Nat) (st : RState) (inv : Inv (reader c file dlen) st) (n : Nat)
    (h : (reader c file dlen).pos st + n ≤ (reader c file dlen).frames) :
    ∃ st', (reader c file dlen).readChunked chunk (n + 1) st n [] 0 =
        (st', (reader c file dlen).slice ((reader c file dlen).pos st) n, n) ∧
      Inv (reader c file dlen) st' ∧ (reader c file dlen).pos st' = (reader c file dlen).pos st + n := by
  obtain ⟨st', h1, h2, h3⟩ := readChunked_spec _ (reader_wf c file dlen) rfl chunk (n + 1) st n [] 0 inv (Nat.lt_succ_self n) h rfl
  exact ⟨st', by simpa using h1, h2, h3⟩

/-- non-vacuity of the three reader theorems: the state after open satisfies the invariant, and 3 + 4 frames lie
    inside a one-block file -/
example : Inv (reader ⟨true⟩ (List.replicate 65 0) 65) (reader ⟨true⟩ (List.replicate 65 0) 65).init ∧
    (reader ⟨true⟩ (List.replicate 65 0) 65).pos (reader ⟨true⟩ (List.replicate 65 0) 65).init + (3 + 4) ≤
      (reader ⟨true⟩ (List.replicate 65 0) 65).frames :=
  ⟨(init_inv _).1, by rw [(init_inv _).2]; decide⟩

/-- handle level (`sf_read_T`): a handle whose position agrees with its reader state -/
structure HInv (h : RHandle) : Prop where
  wf   : WF h.r
  ch1  : h.r.ch = 1
  inv  : Inv h.r h.st
  pos  : h.pos = h.r.pos h.st
  frm  : h.frames ≤ h.r.frames

theorem gsm_open_hinv (c : Cfg) (file : List Byte) (dlen : Nat) (hdr : Option Nat) : HInv (openRead c file dlen hdr) := by
  refine ⟨reader_wf c file dlen, rfl, (init_inv _).1, (init_inv _).2.symm, ?_⟩
  show framesAtOpen c dlen hdr ≤ c.spb * blocksOf c dlen
  unfold framesAtOpen framesWith blocksOf
  cases hdr with
  | none => exact Nat.le_refl _
  | some x => simp only; split <;> omega

/-- C05 read contract for every caller type, request inside the data: `sf_read_T (h, n)` returns n, fills the n cells
    with the caller-type image of items [pos, pos + n) of the sequential decode, advances the position by n and
    leaves a handle satisfying the invariant — for the short, int, float and double entry points alike -/
theorem gsm_read_call_contract (h : RHandle) (hi : HInv h) (cv : Conv) (ty : Ty) (n : Nat) (hn : n ≠ 0)
    (hend : h.pos + n ≤ h.frames) :
    (readCall h cv ty n).2.2 = n ∧ (readCall h cv ty n).2.1 = (h.r.slice h.pos n).map (toCaller cv ty) ∧
    (readCall h cv ty n).1.pos = h.pos + n ∧ HInv (readCall h cv ty n).1 := by
  have hlt : ¬ h.pos ≥ h.frames := by omega
  obtain ⟨st', h1, h2, h3⟩ := readChunked_spec h.r hi.wf hi.ch1 (chunkOf ty) (n + 1) h.st n [] 0 hi.inv (Nat.lt_succ_self n)
    (by have := hi.frm; rw [← hi.pos]; omega) rfl
  have hcnt : n ≤ (h.frames - h.pos) * h.r.ch := by rw [hi.ch1, Nat.mul_one]; omega
  unfold readCall RHandle.read
  simp only [hn, hlt, if_false, h1, List.nil_append, Nat.zero_add, hcnt, if_true]
  refine ⟨trivial, by rw [hi.pos], by rw [hi.ch1, Nat.div_one], ?_⟩
  exact ⟨hi.wf, hi.ch1, h2, by simp only [hi.ch1, Nat.div_one]; rw [h3, hi.pos], hi.frm⟩

/-- C05 end-of-data clause: at or after `frames` a read returns 0, zero-fills the whole request and changes nothing -/
theorem gsm_read_at_end (h : RHandle) (cv : Conv) (ty : Ty) (n : Nat) (hn : n ≠ 0) (hend : h.pos ≥ h.frames) :
    (readCall h cv ty n).2.2 = 0 ∧ (readCall h cv ty n).1 = h ∧ (readCall h cv ty n).2.1.length = n := by
  unfold readCall RHandle.read
  simp [hn, hend, zeros]

/-- non-vacuity: a one-frame RAW file has 160 frames, the freshly opened handle satisfies the invariant at position 0,
    and a read of 5 items lies inside the data -/
example : (openRead ⟨false⟩ (0xD0 :: List.replicate 32 0) 33 none).frames = 160 ∧
    (openRead ⟨false⟩ (0xD0 :: List.replicate 32 0) 33 none).pos + 5 ≤ (openRead ⟨false⟩ (0xD0 :: List.replicate 32 0) 33 none).frames ∧
    HInv (openRead ⟨false⟩ (0xD0 :: List.replicate 32 0) 33 none) :=
  ⟨by decide, by decide, gsm_open_hinv _ _ _ _⟩

/-! ## the seek contract as implemented -/

/-- `sf_seek` never reports success on a GSM handle (sf.seekable = 0), for any offset and whence — also SEEK_CUR 0 —,
    sets an error, and leaves the handle as it was: the C06 clause "whenever sf_seek reports success …" is vacuous,
    and what follows any number of refused seeks is still the sequential stream -/
theorem gsm_seek_always_refused (h : RHandle) (off : Int) (wh : Nat) :
    (sfSeek h off wh).2.1 = -1 ∧ (sfSeek h off wh).2.2 = true ∧ (sfSeek h off wh).1 = h := ⟨rfl, rfl, rfl⟩

theorem decodeBlock_block (c : Cfg) (d : DSt) (got : List Byte) :
    (decodeBlock c d got).block = got ++ d.block.drop got.length := by
  unfold decodeBlock
  simp only
  split
  · split
    · rfl
    · split <;> rfl
  · split <;> rfl

/-- `gsm610_seek` AS WRITTEN (reachable only by calling `psf->seek` directly, never through the public API) does NOT
    implement "load block k / spb": it positions the file at byte `newblock * samplesperblock` instead of
    `newblock * blocksize`.  33-byte geometry, target frame 160 = the start of block 1 (bytes 33..65): the block it
    loads is bytes 160..192 -/
theorem gsm610_seek_as_written_loads_wrong_bytes (blocks : Nat) (file : List Byte) (s : SeekSt) (hb : 2 ≤ blocks)
    (hf : 193 ≤ file.length) :
    (seekAsWritten ⟨false⟩ false blocks file 0 s 160).2 = some 160 ∧
    (seekAsWritten ⟨false⟩ false blocks file 0 s 160).1.d.block.take 33 = (file.drop 160).take 33 := by
  have h160 : ¬ ((160 : Int) < 0 ∨ (160 : Int) > (blocks : Int) * (((⟨false⟩ : Cfg).spb : Nat) : Int)) := by
    have : (⟨false⟩ : Cfg).spb = 160 := rfl
    rw [this]; omega
  have hlen : ((file.drop 160).take 33).length = 33 := by rw [List.length_take, List.length_drop]; omega
  have hnb : (160 : Int).toNat / (⟨false⟩ : Cfg).spb = 1 := by decide
  have hns : (160 : Int).toNat % (⟨false⟩ : Cfg).spb = 0 := by decide
  unfold seekAsWritten
  rw [if_neg (by decide), if_neg h160]
  simp only [hnb, hns]
  rw [if_pos (by decide)]
  refine ⟨rfl, ?_⟩
  unfold decodeAt
  rw [if_neg (by show ¬ (1 + 1 > blocks); omega)]
  simp only [decodeBlock_block]
  have hsp : 1 * (⟨false⟩ : Cfg).spb = 160 := rfl
  have hbs : (⟨false⟩ : Cfg).blocksize = 33 := rfl
  rw [hsp, hbs, hlen]
  rw [List.take_append_of_le_length (by omega), List.take_of_length_le (by omega)]

example : 2 ≤ 3 ∧ 193 ≤ (List.replicate 200 (0 : Byte)).length := ⟨by decide, by rw [List.length_replicate]; decide⟩

end Sf.C06Gsm
