/-
  C01 — a WAVEX file re-opens as the encoding it was written with, whatever SFC_WAVEX_SET_AMBISONIC said before the audio
  (lean/SfModel/WavexGuid.lean; campaign vlib/precmd.py).

  * `guid_roundtrip`: for every encoding WAVEX carries and both values of the flag, the GUID the writer emits is read back as that very
    encoding (so the re-opened handle runs the same sample codec over the same bytes: the round trip of lean/SfProps/C01.lean applies);
  * `amb_flag_roundtrip`: PCM / float files keep the flag; `guid_injective`: different (flag, GUID class) pairs never share a GUID;
  * `merged_branches_lose_float`: with the two Ambisonic branches of the reader folded into one (seeded/C01-wavex-ambisonic-float-guid-merged)
    an Ambisonic FLOAT file re-opens as PCM_32 and an Ambisonic DOUBLE file not at all — outside `guid_roundtrip`.
-/
import SfModel.WavexGuid
namespace Sf.WavexGuid

theorem guid_roundtrip : ∀ amb : Bool, ∀ codec ∈ codecs,
    ∃ g, guidOf amb codec = some g ∧ subformatOf g (bytewidth codec) = some codec := by decide

theorem amb_flag_roundtrip : ∀ amb : Bool, ∀ codec ∈ [0x05, 0x02, 0x03, 0x04, 0x06, 0x07],
    ∃ g, guidOf amb codec = some g ∧ ambOf g = amb := by decide

/-- the writer never emits a GUID the reader refuses, and a file it wrote is accepted by the codec initialisation -/
theorem written_guid_opens : ∀ amb : Bool, ∀ codec ∈ codecs, opens ((guidOf amb codec).bind fun g => subformatOf g (bytewidth codec)) = true := by decide

theorem merged_branches_lose_float :
    subformatMerged AMB_FLOAT (bytewidth 0x06) = some 0x04 ∧ opens (subformatMerged AMB_FLOAT (bytewidth 0x07)) = false ∧
    subformatOf AMB_FLOAT (bytewidth 0x06) = some 0x06 ∧ subformatOf AMB_FLOAT (bytewidth 0x07) = some 0x07 := by decide

/-- without the flag the merged chain is indistinguishable from the real one: only files made after the command show the difference -/
theorem merged_agrees_without_flag : ∀ codec ∈ codecs, ∀ g, guidOf false codec = some g →
    subformatMerged g (bytewidth codec) = subformatOf g (bytewidth codec) := by decide

/-- non-vacuity: the Ambisonic float GUID is the one written for FLOAT with the flag set -/
example : guidOf true 0x06 = some AMB_FLOAT ∧ subformatOf AMB_FLOAT 4 = some 0x06 ∧ ambOf AMB_FLOAT = true := by decide

end Sf.WavexGuid
