/-
  C06 (block codecs) — the generic block reader (`Sf.Block.Reader`, the shape of paf24_read / sds_read and of the
  IMA / MS / GSM readers) delivers a function of the frame position only: every read of whole frames that ends
  inside the data is the corresponding slice of the concatenated block stream, for every `decodeBlock`, every
  block length, every channel count, any number of blocks crossed; hence any partition of a read gives the same
  items, and a read after a seek to frame k starts at frame k.  Property theorems only; helpers in
  SfProofs/BlockReader.lean.
-/
import SfProofs.BlockReader
import SfModel.Paf24
namespace Sf.C06Block
open Sf Sf.Block Sf.Block.Proofs

theorem le_mul_ch (r : Reader) (wf : WF r) (m : Nat) : m < m * r.ch + 1 :=
  Nat.lt_succ_of_le (Nat.le_mul_of_pos_right m wf.ch_pos)

/-- invariant + refinement: from any state satisfying the reader invariant, a request of `m` frames with
    `pos + m ≤ frames` returns exactly items `[pos·ch, (pos+m)·ch)` of the block stream, reports `m·ch`, and
    leaves a state satisfying the invariant at position `pos + m` -/
theorem block_reader_refines_stream (r : Reader) (wf : WF r) (st : RState) (inv : Inv r st) (m : Nat)
    (h : r.pos st + m ≤ r.frames) :
    (r.read st (m * r.ch)).2.1 = r.slice (r.pos st * r.ch) (m * r.ch) ∧ (r.read st (m * r.ch)).2.2 = m * r.ch ∧
      Inv r (r.read st (m * r.ch)).1 ∧ r.pos (r.read st (m * r.ch)).1 = r.pos st + m := by
  obtain ⟨st', h1, h2, h3⟩ := readLoop_spec r wf (m * r.ch + 1) st m inv (le_mul_ch r wf m) h
  unfold Reader.read
  rw [h1]
  exact ⟨rfl, rfl, h2, h3⟩

/-- the state after `*_init` satisfies the invariant at position 0, and so does every state reached by reads -/
theorem block_reader_init (r : Reader) : Inv r r.init ∧ r.pos r.init = 0 := init_inv r

/-- end-of-data rule of the codec loop: nothing delivered, the request zero-filled, state unchanged -/
theorem block_reader_eof (r : Reader) (st : RState) (n : Nat) (hn : n ≠ 0) (h : r.pos st ≥ r.frames) :
    r.read st n = (st, zeros n, 0) := readLoop_eof r n st n hn h

/-- ∀ splits: reading a frames and then b frames gives the items, the count and the position of one read of
    a + b frames -/
theorem partition_invariance_block (r : Reader) (wf : WF r) (st : RState) (inv : Inv r st) (a b : Nat)
    (h : r.pos st + (a + b) ≤ r.frames) :
    (r.read st ((a + b) * r.ch)).2.1 = (r.read st (a * r.ch)).2.1 ++ (r.read (r.read st (a * r.ch)).1 (b * r.ch)).2.1 ∧
    (r.read st ((a + b) * r.ch)).2.2 = (r.read st (a * r.ch)).2.2 + (r.read (r.read st (a * r.ch)).1 (b * r.ch)).2.2 ∧
    r.pos (r.read st ((a + b) * r.ch)).1 = r.pos (r.read (r.read st (a * r.ch)).1 (b * r.ch)).1 := by
  obtain ⟨ha1, ha2, ha3, ha4⟩ := block_reader_refines_stream r wf st inv a (by omega)
  obtain ⟨hb1, hb2, _, hb4⟩ := block_reader_refines_stream r wf _ ha3 b (by rw [ha4]; omega)
  obtain ⟨hc1, hc2, _, hc4⟩ := block_reader_refines_stream r wf st inv (a + b) h
  rw [hc1, hc2, hc4, ha1, ha2, hb1, hb2, hb4, ha4, Nat.add_mul, slice_append, Nat.add_mul]
  exact ⟨rfl, rfl, by omega⟩

/-- a seek to frame k loads block k / spb and skips k % spb: the next read delivers frames k, k+1, … -/
theorem seek_then_read_block (r : Reader) (wf : WF r) (k m : Nat) (h : k + m ≤ r.frames) :
    (r.read (r.seek k) (m * r.ch)).2.1 = r.slice (k * r.ch) (m * r.ch) ∧ (r.read (r.seek k) (m * r.ch)).2.2 = m * r.ch ∧
      r.pos (r.read (r.seek k) (m * r.ch)).1 = k + m := by
  obtain ⟨hi, hp⟩ := seek_inv r wf k
  obtain ⟨h1, h2, _, h4⟩ := block_reader_refines_stream r wf (r.seek k) hi m (by rw [hp]; exact h)
  rw [hp] at h1 h4
  exact ⟨h1, h2, h4⟩

/-- the PAF24 reader over any data region is well formed (so the theorems above apply to it) -/
theorem paf24_reader_wf (ch : Nat) (big : Bool) (data : List Byte) (hch : 0 < ch) : WF (Paf24.reader ch big data) := by
  refine ⟨Nat.succ_pos 9, hch, ?_⟩
  intro k
  simp only [Paf24.reader]
  split
  · simp [Paf24.decBlock]
  · simp [zeros]

/-- non-vacuity: a two-frames-per-block, two-channel reader over three blocks; a read that crosses two block
    boundaries after a seek into the middle of a block -/
def toy : Reader := { spb := 2, ch := 2, frames := 6, src := fun k => [100 * k, 100 * k + 1, 100 * k + 2, 100 * k + 3] }
theorem toy_wf : WF toy := ⟨by decide, by decide, fun _ => rfl⟩
example : (toy.read (toy.seek 1) (4 * 2)).2.1 = [2, 3, 100, 101, 102, 103, 200, 201] ∧
    toy.slice (1 * 2) (4 * 2) = [2, 3, 100, 101, 102, 103, 200, 201] ∧ toy.pos (toy.seek 1) + 4 ≤ toy.frames := by decide
example : (toy.read (toy.seek 6) 4).2 = ([0, 0, 0, 0], 0) := by decide

end Sf.C06Block
