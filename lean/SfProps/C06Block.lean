/-
  C06 (block codecs) — the generic block reader (`Sf.Block.Reader`, the shape of paf24_read / sds_read and of the
  IMA / MS / GSM readers) delivers a function of the frame position only: every read of whole frames that ends
  inside the data is the corresponding slice of the concatenated block stream, for every `decodeBlock`, every
  block length, every channel count, any number of blocks crossed; hence any partition of a read gives the same
  items, and a read after a seek to frame k starts at frame k.  Property theorems only; helpers in
  SfProofs/BlockReader.lean.
-/
import SfProofs.BlockReader
import SfModel.Paf24
import SfModel.AdpcmReader
namespace Sf.C06Block
open Sf Sf.Block Sf.Block.Proofs

theorem le_mul_ch (r : Reader) (wf : WF r) (m : Nat) : m < m * r.ch + 1 :=
  Nat.lt_succ_of_le (Nat.le_mul_of_pos_right m wf.ch_pos)

/-- invariant + refinement: from any state satisfying the reader invariant, a request of `m` frames with
    `pos + m ≤ frames` returns exactly items `[pos·ch, (pos+m)·ch)` of the block stream, reports `m·ch`, and
    leaves a state satisfying the invariant at position `pos + m` -/
theorem block_reader_refines_stream (r : Reader) (wf : WF r) (st : RState) (inv : Inv r st) (m : Nat)
    (h : r.pos st + m ≤ r.frames) :
    (r.read st (m * r.ch)).2.1 = r.slice (r.pos st * r.ch) (m * r.ch) ∧ (r.read st (m * r.ch)).2.2 = m * r.ch ∧
      Inv r (r.read st (m * r.ch)).1 ∧ r.pos (r.read st (m * r.ch)).1 = r.pos st + m := by
  obtain ⟨st', h1, h2, h3⟩ := readLoop_spec r wf (m * r.ch + 1) st m inv (le_mul_ch r wf m) h
  unfold Reader.read
  rw [h1]
  exact ⟨rfl, rfl, h2, h3⟩

/-- the state after `*_init` satisfies the invariant at position 0, and so does every state reached by reads -/
theorem block_reader_init (r : Reader) : Inv r r.init ∧ r.pos r.init = 0 := init_inv r

/-- end-of-data rule of the codec loop: nothing delivered, the request zero-filled, state unchanged -/
theorem block_reader_eof (r : Reader) (st : RState) (n : Nat) (hn : n ≠ 0) (h : r.pos st ≥ r.frames) :
    r.read st n = (st, zeros n, 0) := readLoop_eof r n st n hn h

/-- reads that run past `frames`, `frames` not necessarily a whole number of blocks (SDS): the inner call
    delivers `t` frames of the stream with `min m (frames − pos) ≤ t ≤ m` — everything up to `frames`, possibly the
    rest of the block that holds frame `frames − 1` — zero-fills the rest of the request and reports `t·ch`; the
    sf_read_* wrapper then clamps the count to `frames − pos` and zero-fills from there (`RHandle.read`) -/
theorem block_reader_past_end (r : Reader) (wf : WF r) (st : RState) (inv : Inv r st) (m : Nat) :
    ∃ t, t ≤ m ∧ min m (r.frames - r.pos st) ≤ t ∧
      (r.read st (m * r.ch)).2.1 = r.slice (r.pos st * r.ch) (t * r.ch) ++ zeros ((m - t) * r.ch) ∧
      (r.read st (m * r.ch)).2.2 = t * r.ch ∧ Inv r (r.read st (m * r.ch)).1 ∧
      r.pos (r.read st (m * r.ch)).1 = r.pos st + t := by
  obtain ⟨t, st', h1, h2, h3, h4, h5⟩ := readLoop_general r wf (m * r.ch + 1) st m inv (le_mul_ch r wf m)
  refine ⟨t, h1, h2, ?_⟩
  unfold Reader.read
  rw [h3]
  exact ⟨rfl, rfl, h4, h5⟩

/-- ∀ splits: reading a frames and then b frames gives the items, the count and the position of one read of
    a + b frames -/
theorem partition_invariance_block (r : Reader) (wf : WF r) (st : RState) (inv : Inv r st) (a b : Nat)
    (h : r.pos st + (a + b) ≤ r.frames) :
    (r.read st ((a + b) * r.ch)).2.1 = (r.read st (a * r.ch)).2.1 ++ (r.read (r.read st (a * r.ch)).1 (b * r.ch)).2.1 ∧
    (r.read st ((a + b) * r.ch)).2.2 = (r.read st (a * r.ch)).2.2 + (r.read (r.read st (a * r.ch)).1 (b * r.ch)).2.2 ∧
    r.pos (r.read st ((a + b) * r.ch)).1 = r.pos (r.read (r.read st (a * r.ch)).1 (b * r.ch)).1 := by
  obtain ⟨ha1, ha2, ha3, ha4⟩ := block_reader_refines_stream r wf st inv a (by omega)
  obtain ⟨hb1, hb2, _, hb4⟩ := block_reader_refines_stream r wf _ ha3 b (by rw [ha4]; omega)
  obtain ⟨hc1, hc2, _, hc4⟩ := block_reader_refines_stream r wf st inv (a + b) h
  rw [hc1, hc2, hc4, ha1, ha2, hb1, hb2, hb4, ha4, Nat.add_mul, slice_append, Nat.add_mul]
  exact ⟨rfl, rfl, by omega⟩

/-- a seek to frame k loads block k / spb and skips k % spb: the next read delivers frames k, k+1, … -/
theorem seek_then_read_block (r : Reader) (wf : WF r) (k m : Nat) (h : k + m ≤ r.frames) :
    (r.read (r.seek k) (m * r.ch)).2.1 = r.slice (k * r.ch) (m * r.ch) ∧ (r.read (r.seek k) (m * r.ch)).2.2 = m * r.ch ∧
      r.pos (r.read (r.seek k) (m * r.ch)).1 = k + m := by
  obtain ⟨hi, hp⟩ := seek_inv r wf k
  obtain ⟨h1, h2, _, h4⟩ := block_reader_refines_stream r wf (r.seek k) hi m (by rw [hp]; exact h)
  rw [hp] at h1 h4
  exact ⟨h1, h2, h4⟩

/-- the PAF24 reader over any data region is well formed (so the theorems above apply to it) -/
theorem paf24_reader_wf (ch : Nat) (big : Bool) (data : List Byte) (hch : 0 < ch) : WF (Paf24.reader ch big data) := by
  refine ⟨Nat.succ_pos 9, hch, ?_⟩
  intro k
  simp only [Paf24.reader]
  split
  · simp [Paf24.decBlock]
  · simp [zeros]

/-! ## IMA ADPCM (WAV layout) and MS ADPCM: the readers are instances, so the theorems above are their
    model-level seek / read theorems (the block decoders are the ones proved equal to the reference decoders in
    SfProps/C20Adpcm.lean) -/

theorem fixLen_length (n : Nat) (l : List Int) : (fixLen n l).length = n := by
  simp [fixLen, zeros]

theorem ite_length {c : Prop} [Decidable c] (a b : List Int) (n : Nat) (ha : a.length = n) (hb : b.length = n) :
    (if c then a else b).length = n := by
  split <;> assumption

theorem adpcm_reader_wf (dec : List Byte → List Int) (ch ba spb : Nat) (data : List Byte) (hch : 0 < ch) (hspb : 0 < spb) :
    WF (adpcmReader dec ch ba spb data) := by
  refine ⟨hspb, hch, ?_⟩
  intro k
  unfold adpcmReader
  exact ite_length _ _ _ (fixLen_length _ _) (by simp [zeros])

theorem ima_wav_reader_wf (ch ba spb : Nat) (data : List Byte) (hch : 0 < ch) (hspb : 0 < spb) :
    WF (imaWavReader ch ba spb data) := adpcm_reader_wf _ ch ba spb data hch hspb

theorem ms_reader_wf (ch ba spb : Nat) (data : List Byte) (hch : 0 < ch) (hspb : 0 < spb) :
    WF (msReader ch ba spb data) := adpcm_reader_wf _ ch ba spb data hch hspb

/-- IMA WAV: after a seek to frame k, a read of m frames inside the data returns frames k … k+m−1 of the decoded
    block stream, whatever the block bytes are -/
theorem ima_wav_seek_then_read (ch ba spb : Nat) (data : List Byte) (hch : 0 < ch) (hspb : 0 < spb) (k m : Nat)
    (h : k + m ≤ (imaWavReader ch ba spb data).frames) :
    ((imaWavReader ch ba spb data).read ((imaWavReader ch ba spb data).seek k) (m * ch)).2.1 =
      (imaWavReader ch ba spb data).slice (k * ch) (m * ch) :=
  (seek_then_read_block _ (ima_wav_reader_wf ch ba spb data hch hspb) k m h).1

theorem ms_seek_then_read (ch ba spb : Nat) (data : List Byte) (hch : 0 < ch) (hspb : 0 < spb) (k m : Nat)
    (h : k + m ≤ (msReader ch ba spb data).frames) :
    ((msReader ch ba spb data).read ((msReader ch ba spb data).seek k) (m * ch)).2.1 =
      (msReader ch ba spb data).slice (k * ch) (m * ch) :=
  (seek_then_read_block _ (ms_reader_wf ch ba spb data hch hspb) k m h).1

/-- non-vacuity: a two-frames-per-block, two-channel reader over three blocks; a read that crosses two block
    boundaries after a seek into the middle of a block -/
def toy : Reader := { spb := 2, ch := 2, frames := 6, src := fun k => [100 * k, 100 * k + 1, 100 * k + 2, 100 * k + 3] }
theorem toy_wf : WF toy := ⟨by decide, by decide, fun _ => rfl⟩
example : (toy.read (toy.seek 1) (4 * 2)).2.1 = [2, 3, 100, 101, 102, 103, 200, 201] ∧
    toy.slice (1 * 2) (4 * 2) = [2, 3, 100, 101, 102, 103, 200, 201] ∧ toy.pos (toy.seek 1) + 4 ≤ toy.frames := by decide
example : (toy.read (toy.seek 6) 4).2 = ([0, 0, 0, 0], 0) := by decide
/-- a reader whose data ends inside a block (5 of 6 frames): a read of 3 frames from frame 3 delivers the rest of
    the block (t = 3 ≥ min 3 (5 − 3)); the wrapper clamps to 2 frames -/
def toy5 : Reader := { toy with frames := 5 }
example : (toy5.read (toy5.seek 3) (3 * 2)).2 = ([102, 103, 200, 201, 202, 203], 6) ∧
    ((RHandle.open toy5 5).seek 3 |>.read 0 6).2 = ([102, 103, 200, 201, 0, 0], 4) := by decide

end Sf.C06Block
