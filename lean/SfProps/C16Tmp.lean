/-
  SfProps.C16Tmp — the ALAC spool file is removed at close for EVERY state of the temp directory (model: SfModel/TmpFile.lean).

  * `tmpfile_removed` (full strength): whatever access () / fopen () answer, whatever the two random names are, whatever files exist
    already — after the handle's life the file system is what it was.
  * `name_is_file`: psf_open_tmpfile hands back a stream iff it hands back a name, and the name is the file's.
  * `openTmpSeeded_old_rule`: the seeded fallback (no name stored) leaves the spool file behind as soon as the temp directory fails
    access (); `openTmpSeeded_usable_dir_fine`: with a usable temp directory it is indistinguishable (what the test-suite sees).
-/
import SfModel.TmpFile
namespace Sf.C16Tmp
open Sf.TmpFile

theorem name_is_file (e : Env) (r1 r2 : Nat) (f0 : Option Path) : (openTmp e r1 r2 f0).fname = (openTmp e r1 r2 f0).file := by
  unfold openTmp
  split
  · rfl
  · split <;> rfl

theorem tmpfile_removed (e : Env) (r1 r2 : Nat) (fs : Fs) : life openTmp e r1 r2 fs = fs := by
  have hn := name_is_file e r1 r2 none
  simp only [life, afterClose, afterOpen, hn]
  cases h : (openTmp e r1 r2 none).file with
  | none => rfl
  | some p => simp

-- non-vacuity: the three paths through the function
example : life openTmp ⟨true, true, true⟩ 7 9 [(.cwd, 1)] = [(.cwd, 1)] ∧ (openTmp ⟨true, true, true⟩ 7 9 none).file = some (.tmp, 7) ∧
    (openTmp ⟨false, true, true⟩ 7 9 none).file = some (.cwd, 9) ∧ (openTmp ⟨true, false, true⟩ 7 9 none).file = some (.cwd, 9) ∧
    (openTmp ⟨true, false, false⟩ 7 9 none).file = none := by decide

/-- the seeded rule: temp directory missing -> the file created in the current directory stays -/
theorem openTmpSeeded_old_rule : ¬ ∀ (e : Env) (r1 r2 : Nat) (fs : Fs), life openTmpSeeded e r1 r2 fs = fs := by
  intro h
  have := h ⟨false, false, true⟩ 7 9 []
  revert this
  decide

/-- … also when the directory passes access () and only the fopen inside it fails (the name of the file that could not be created
    is what gets removed) -/
theorem openTmpSeeded_blocked_dir : life openTmpSeeded ⟨true, false, true⟩ 7 9 [] = [(.cwd, 7)] := by decide

theorem openTmpSeeded_usable_dir_fine (r1 r2 : Nat) (fs : Fs) (c : Bool) :
    life openTmpSeeded ⟨true, true, c⟩ r1 r2 fs = fs := by
  simp [life, openTmpSeeded, afterOpen, afterClose]

end Sf.C16Tmp
