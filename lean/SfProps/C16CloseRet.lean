/-
  SfProps.C16CloseRet — sf_close returns the status of the descriptor's close, whatever the hooks answered (model: SfModel/CloseRet.lean).

  * `close_returns_fclose_status` / `close_zero_when_descriptor_closes` (full strength, every combination of hook answers);
  * the seeded rule: each site alone is harmless (`site_a_alone_harmless`: every container hook of the tree ends in `return 0`;
    `site_b_alone_harmless`: psf_close as written ignores the hook), both together are refuted by a header writer that answers
    SFE_INTERNAL on a healthy descriptor (`seeded_rule_returns_header_status`).
-/
import SfModel.CloseRet
namespace Sf.C16CloseRet
open Sf.CloseRet

theorem close_returns_fclose_status (c : Calls) : psfClose c = c.fclose := rfl

theorem close_zero_when_descriptor_closes (c : Calls) (h : c.fclose = 0) : psfClose c = 0 := by
  rw [close_returns_fclose_status, h]

-- non-vacuity: hooks that answer non-zero on a descriptor that closes
example : psfClose { codec := some 3, container := some 29, fclose := 0 } = 0 ∧
    psfClose { codec := none, container := some 0, fclose := 9 } = 9 := by decide

/-- site A with every container hook returning 0 (site B not applied) -/
theorem site_a_alone_harmless (codec : Option Int) (f status : Int) :
    psfCloseSeeded { codec := codec, container := some (wavClose false status), fclose := f } =
    psfClose { codec := codec, container := some (wavClose false status), fclose := f } := by
  unfold psfCloseSeeded psfClose wavClose
  by_cases hf : f = 0 <;> simp [hf]

/-- site B under psf_close as written -/
theorem site_b_alone_harmless (codec : Option Int) (f status : Int) :
    psfClose { codec := codec, container := some (wavClose true status), fclose := f } = f := rfl

/-- both sites: the status of the header writer becomes the result of sf_close although the descriptor closed -/
theorem seeded_rule_returns_header_status :
    psfCloseSeeded { codec := none, container := some (wavClose true 29), fclose := 0 } = 29 ∧
    ¬ ∀ c : Calls, c.fclose = 0 → psfCloseSeeded c = 0 := by
  refine ⟨by decide, fun h => ?_⟩
  have := h { codec := none, container := some 29, fclose := 0 } rfl
  revert this
  decide

end Sf.C16CloseRet
