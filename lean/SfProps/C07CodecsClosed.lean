-- properties: C04 C06
/-
  C07 / C04 / C06 for the three modelled block codecs with cross-block state (G.721 / G.723, NMS ADPCM, GSM 06.10) —
  the CLOSED FORM of a written file and what a re-open makes of it.

  For every rate / geometry, every conversion setting, every list of write calls of any caller types and sizes:

    `*_closed_form`      the data region after `sf_close` is `encChunks encodeBlock spb … init (converted samples)`:
                         the encoder run over the spb-chunks of the converted samples, the last chunk zero-padded, the
                         encoder state threaded from block to block (Sf.Block.Closed.encChunks) — a function of the
                         concatenated converted samples ONLY (C07 in closed form, not just "equal for equal inputs")
    `*_closed_length`    its byte length: ⌈N / spb⌉ · bytes-per-block
    `*_frames_at_reopen` frames at re-open computed FROM that length: F = ⌈N / spb⌉ · spb, hence N ≤ F < N + spb
                         (the C04 bound as a corollary of the closed form)
    `*_written_stream`   the C06 stream of the re-opened file (what every read delivers, SfProps/C06G72x / C06Nms /
                         C06Gsm) is the stream of the reader over `encChunks …`: a function of the written samples
    `nms_written_stream_flat`  NMS: that stream is `(decodedBlocks … (closed data)).flatten` cut at the position — every
                         decoded block has exactly 160 samples (`nms_decode_block_160`)

  Property theorems only; helpers in SfProofs/BlockClosed.lean, BlockStream.lean, NmsBlocks.lean.
-/
import SfProps.C07Nms
import SfProps.C07G72x
import SfProps.C07Gsm
import SfProps.C06Nms
import SfProofs.BlockClosed
import SfProofs.BlockStream
import SfProofs.NmsBlocks
import SfProofs.GsmFileLemmas
namespace Sf.C07CodecsClosed
open Sf Sf.Block Sf.Block.Proofs Sf.Block.Closed

/-! ## the generic statement (∀ encodeBlock, ∀ spb, ∀ channels) -/

/-- **closed form of the generic block writer**: any frames pushed through any calls, then the padding close -/
theorem block_writer_closed_form {σ : Type} (w : Writer σ) (wf : WWF w) (s0 : σ) (fs : List (List Int)) (hu : Uniform w.ch fs) :
    (w.close true (fs.foldl (pushFrame w) (w.init s0))).bytes = encChunks w.enc (w.spb * w.ch) (fs.length + 1) s0 fs.flatten :=
  closed_form w wf s0 fs hu

/-- non-vacuity: the toy writer that numbers its blocks (2 frames of 2 channels per block) -/
example : ((C07Block.toyW.close true (([[1, 2], [3, 4], [5, 6]] : List (List Int)).foldl (pushFrame C07Block.toyW) (C07Block.toyW.init 0))).bytes
      = [0, 1, 2, 3, 4, 1, 5, 6, 0, 0]) ∧
    encChunks C07Block.toyW.enc 4 4 0 [1, 2, 3, 4, 5, 6] = [0, 1, 2, 3, 4, 1, 5, 6, 0, 0] := by decide

theorem singles_flatten (xs : List Int) : (xs.map fun x => [x]).flatten = xs := by
  induction xs with
  | nil => rfl
  | cons x xs ih => simp only [List.map_cons, List.flatten_cons, ih]; rfl

theorem singles_uniform (xs : List Int) : Uniform 1 (xs.map fun x => [x]) := by
  intro f hf
  obtain ⟨x, _, rfl⟩ := List.mem_map.mp hf
  rfl

/-! ## NMS ADPCM -/

section nms
open Sf.Nms Sf.C07Nms Sf.Nms.Proofs

/-- the model's own `encodeAll` is the generic `encChunks` -/
theorem nms_encode_all_eq (r : Rate) : ∀ (fuel : Nat) (s : St) (xs : List Int),
    encodeAll r fuel s xs = encChunks (encodeBlock r) spb fuel s xs := by
  intro fuel
  induction fuel with
  | zero => intro s xs; rfl
  | succ fuel ih =>
    intro s xs
    unfold encodeAll encChunks
    by_cases hx : xs = []
    · simp [hx]
    · simp only [hx, if_false]
      rw [ih]

/-- **NMS closed form** -/
theorem nms_closed_form (r : Rate) (cv : Conv) (calls : List (Ty × List Int)) :
    closedData r cv calls = encChunks (encodeBlock r) spb ((shortsOf cv calls).length + 1) (St.init r) (shortsOf cv calls) ∧
    closedData r cv calls = encodeAll r ((shortsOf cv calls).length + 1) (St.init r) (shortsOf cv calls) := by
  have inv : WInv (writer r) (openW r) := init_inv_w (writer r) (writer_wf r) _
  have h := closed_form (writer r) (writer_wf r) (St.init r) ((shortsOf cv calls).map fun x => [x]) (singles_uniform _)
  rw [singles_flatten, List.length_map, List.foldl_map] at h
  have e : closedData r cv calls = encChunks (encodeBlock r) spb ((shortsOf cv calls).length + 1) (St.init r) (shortsOf cv calls) := by
    unfold closedData closeW
    rw [(nms_write_calls_fold r cv calls _ inv).1]
    exact h
  exact ⟨e, by rw [nms_encode_all_eq]; exact e⟩

/-- **byte length of a closed NMS data region** -/
theorem nms_closed_length (r : Rate) (cv : Conv) (calls : List (Ty × List Int)) :
    (closedData r cv calls).length = nblocks (shortsOf cv calls).length spb * r.blockBytes := by
  rw [(nms_closed_form r cv calls).1]
  exact encChunks_length (encodeBlock r) spb r.blockBytes (Nat.succ_pos 159) (fun s b hb => encodeBlock_length r s b hb) _ _ _
    (Nat.lt_succ_self _)

theorem blockBytes_pos (r : Rate) : 0 < r.blockBytes := by cases r <;> decide

/-- **frames at re-open, from the closed length** (C04 for NMS as a corollary) -/
theorem nms_frames_at_reopen_closed (r : Rate) (cv : Conv) (calls : List (Ty × List Int)) :
    framesAtOpen r (closedData r cv calls).length = nblocks (shortsOf cv calls).length spb * spb ∧
    (shortsOf cv calls).length ≤ framesAtOpen r (closedData r cv calls).length ∧
    framesAtOpen r (closedData r cv calls).length < (shortsOf cv calls).length + spb := by
  have e : framesAtOpen r (closedData r cv calls).length = nblocks (shortsOf cv calls).length spb * spb := by
    rw [nms_closed_length]
    unfold framesAtOpen blocksTotal
    rw [Nat.mul_mod_left, Nat.mul_div_cancel _ (blockBytes_pos r)]
    simp
  rw [e]
  exact ⟨rfl, nblocks_bound _ spb (Nat.succ_pos 159)⟩

/-- **`nms_adpcm_decode_block` always yields 160 samples**: every block of the sequential decode of ANY data region -/
theorem nms_decode_block_160 (r : Rate) (data : List Byte) : ∀ b ∈ decodedBlocks r blockWords data, b.length = 160 :=
  decodeBlocks_length r _ _ _ _

/-- the stream of the reader is the flat list of the decoded blocks, for any data region -/
theorem nms_stream_flat (r : Rate) (data : List Byte) (p m : Nat) (h : p + m ≤ framesAtOpen r data.length) :
    (reader r data).slice p m = ((stream r data).drop p).take m := by
  have hl := nms_decode_block_160 r data
  have hc : (decodedBlocks r blockWords data).length = blocksTotal r data.length := decodeBlocks_count r _ _ _ _ _
  unfold stream
  apply Sf.Block.Stream.slice_eq_flatten (reader r data) (decodedBlocks r blockWords data) (by decide : 0 < 160 * 1)
  · intro b hb; exact hl b hb
  · intro k hk
    rw [hc] at hk
    show (if k < blocksTotal r data.length then fixLen spb ((decodedBlocksIn r blockWords data.length data).getD k []) else zeros spb) = _
    rw [if_pos hk]
    have hm : (decodedBlocks r blockWords data).getD k [] ∈ decodedBlocks r blockWords data := by
      rw [List.getD_eq_getElem?_getD, List.getElem?_eq_getElem (by rw [hc]; exact hk)]
      exact List.getElem_mem _
    have := hl _ hm
    unfold fixLen
    show ((decodedBlocks r blockWords data).getD k [] ++ zeros spb).take spb = _
    rw [List.take_append_of_le_length (by rw [this]; exact Nat.le_refl _), List.take_of_length_le (by rw [this]; exact Nat.le_refl _)]
  · rw [hc]
    exact h

/-- **written stream, NMS**: a file written by any calls and re-opened: every request of any caller type that ends
    inside the frames delivers the caller image of `decodeAll (encodeAll (written samples))` at the position -/
theorem nms_written_stream (r : Rate) (cv cv2 : Conv) (calls : List (Ty × List Int)) (ty : Ty) (m : Nat)
    (hm : m ≤ framesAtOpen r (closedData r cv calls).length) :
    (Nms.read cv2 ty (openR r (closedData r cv calls)) m).2.1 =
      ((stream r (encodeAll r ((shortsOf cv calls).length + 1) (St.init r) (shortsOf cv calls))).take m).map (toCaller cv2 ty) ∧
    (Nms.read cv2 ty (openR r (closedData r cv calls)) m).2.2 = m := by
  have hi := C06Nms.nms_open_inv r false (closedData r cv calls).length (closedData r cv calls)
  obtain ⟨h', e, _, _, _, _⟩ := C06Nms.nms_read_inside cv2 ty _ hi m (by
    show 0 + m ≤ framesAtOpen r (closedData r cv calls).length
    omega)
  have e2 : openRIn r false (closedData r cv calls).length (closedData r cv calls) = openR r (closedData r cv calls) := rfl
  rw [e2] at e
  rw [e]
  have hs := nms_stream_flat r (closedData r cv calls) 0 m (by omega)
  simp only
  have e3 : (openR r (closedData r cv calls)).r = reader r (closedData r cv calls) := rfl
  have e4 : (openR r (closedData r cv calls)).pos = 0 := rfl
  rw [e3, e4, hs, List.drop_zero, ← (nms_closed_form r cv calls).2]
  exact ⟨rfl, trivial⟩

/-- non-vacuity: 161 samples in three calls of three caller types: 2 blocks = 84 bytes, 320 frames at re-open -/
example : framesAtOpen .r16 (closedData .r16 {} [(.s16, [700]), (.s32, List.replicate 159 (-65536000)), (.s16, [5])]).length = 320 ∧
    nblocks 161 spb = 2 := by decide +kernel

end nms

/-! ## G.721 / G.723 -/

section g72x
open Sf.G72x Sf.C07G72x

/-- **G.72x closed form** -/
theorem g72x_closed_form (r : Rate) (cv : Conv) (calls : List (Ty × List Int)) :
    closedBytes r cv calls = encChunks (encodeBlock r) blockSamples ((shorts cv calls).length + 1) St.init (shorts cv calls) := by
  have h := closed_form (writer r) (g72x_writer_wf r) St.init (frames1 (shorts cv calls)) (frames1_uniform _)
  rw [frames1_flatten] at h
  unfold closedBytes
  rw [(g72x_write_is_fold r cv calls _ (g72x_init_inv r)).1, h]
  simp only [frames1, List.length_map]
  rfl

/-- byte length, from the closed form (the same number as `g72x_closed_length`, derived from the chunks) -/
theorem g72x_closed_length_chunks (r : Rate) (hb : r.bits ≤ 8) (cv : Conv) (calls : List (Ty × List Int)) :
    (closedBytes r cv calls).length = nblocks (shorts cv calls).length blockSamples * r.blockBytes := by
  rw [g72x_closed_form]
  exact encChunks_length (encodeBlock r) blockSamples r.blockBytes (by decide) (fun s b hl => encodeBlock_length r hb s b hl) _ _ _
    (Nat.lt_succ_self _)

/-- **frames at re-open from the closed length**: F = ⌈N / 120⌉ · 120, so N ≤ F < N + 120 -/
theorem g72x_frames_at_reopen_closed (r : Rate) (hr : r.bits = 3 ∨ r.bits = 4 ∨ r.bits = 5) (cv : Conv) (calls : List (Ty × List Int)) :
    framesAtOpen r (closedBytes r cv calls).length = nblocks (shorts cv calls).length blockSamples * blockSamples ∧
    (shorts cv calls).length ≤ framesAtOpen r (closedBytes r cv calls).length ∧
    framesAtOpen r (closedBytes r cv calls).length < (shorts cv calls).length + blockSamples := by
  have hb : r.bits ≤ 8 := by omega
  have hpos : 0 < r.blockBytes := by
    unfold Rate.blockBytes blockSamples
    rcases hr with h | h | h <;> rw [h] <;> decide
  have e : framesAtOpen r (closedBytes r cv calls).length = nblocks (shorts cv calls).length blockSamples * blockSamples := by
    rw [g72x_closed_length_chunks r hb]
    unfold framesAtOpen blocksTotal
    have : (nblocks (shorts cv calls).length blockSamples * r.blockBytes + r.blockBytes - 1) / r.blockBytes =
        nblocks (shorts cv calls).length blockSamples := by
      have h1 : nblocks (shorts cv calls).length blockSamples * r.blockBytes + r.blockBytes - 1 =
          (r.blockBytes - 1) + nblocks (shorts cv calls).length blockSamples * r.blockBytes := by omega
      rw [h1, Nat.add_mul_div_right _ _ hpos, Nat.div_eq_of_lt (by omega), Nat.zero_add]
    rw [this]
  rw [e]
  exact ⟨rfl, nblocks_bound _ blockSamples (by decide)⟩

/-- **written stream, G.72x**: the handle opened on a written file reads the stream of the reader over the encoder run
    — a function of the written samples; what every read of it delivers (any size, any type, past the end or not) is
    `g72x_read_contract` (SfProps/C06G72x.lean) on this reader -/
theorem g72x_written_stream (r : Rate) (cv : Conv) (calls : List (Ty × List Int)) :
    (RHandle.open r (closedBytes r cv calls)).r =
      reader r (encChunks (encodeBlock r) blockSamples ((shorts cv calls).length + 1) St.init (shorts cv calls)) ∧
    (RHandle.open r (closedBytes r cv calls)).frames = framesAtOpen r (closedBytes r cv calls).length := by
  rw [← g72x_closed_form]
  exact ⟨rfl, rfl⟩

example : framesAtOpen g721 (closedBytes g721 {} [(.s16, List.replicate 121 5)]).length = 240 ∧ nblocks 121 blockSamples = 2 := by
  decide +kernel

end g72x

/-! ## GSM 06.10 -/

section gsm
open Sf.Gsm Sf.C07Gsm

/-- **GSM closed form** (both geometries) -/
theorem gsm_closed_form (c : Cfg) (cv : Conv) (calls : List (Ty × List Int)) :
    closeBytes c (calls.foldl (fun st k => writeCall c cv k.1 st k.2) (writeInit c)) =
      encChunks (fun st buf => encodeBlock c.wav st buf) c.spb ((samplesOf cv calls).length + 1)
        (if c.wav then State.initWav else State.init) (samplesOf cv calls) := by
  have key : calls.foldl (fun st k => writeCall c cv k.1 st k.2) (writeInit c) =
      ((samplesOf cv calls).map fun x => [x]).foldl (pushFrame (writer c)) (writeInit c) := by
    have := gsm_write_partition c (calls.map fun k => (k.1, k.2.map (ofCaller cv k.1))) (writeInit c) (gsm_write_init_inv c)
    rw [List.foldl_map, flatMap_singletons] at this
    exact this
  have h := closed_form (writer c) (gsm_writer_wwf c) (if c.wav then State.initWav else State.init)
    ((samplesOf cv calls).map fun x => [x]) (singles_uniform _)
  rw [singles_flatten, List.length_map] at h
  unfold closeBytes
  rw [key]
  have e : (writer c).spb * (writer c).ch = c.spb := Nat.mul_one _
  rw [e] at h
  exact h

/-- **byte length of a closed GSM data region**: ⌈N / spb⌉ · blocksize -/
theorem gsm_closed_length (c : Cfg) (cv : Conv) (calls : List (Ty × List Int)) :
    (closeBytes c (calls.foldl (fun st k => writeCall c cv k.1 st k.2) (writeInit c))).length =
      nblocks (samplesOf cv calls).length c.spb * c.blocksize := by
  rw [gsm_closed_form]
  exact encChunks_length _ c.spb c.blocksize (Sf.Gsm.Proofs.spb_pos c) (fun s b _ => gsm_block_size c s b) _ _ _ (Nat.lt_succ_self _)

/-- **frames at re-open from the closed length** (RAW and W64: `datalength` is the region; WAV adds a pad byte for an
    odd region, AIFF likewise — both forgiven by the current rule, SfProps/C04GsmPad.lean): F = ⌈N / spb⌉ · spb, so
    N ≤ F < N + spb -/
theorem gsm_frames_at_reopen_closed (c : Cfg) (cv : Conv) (calls : List (Ty × List Int)) (pad : Nat) (hp : pad ≤ 1) :
    framesAtOpen c ((closeBytes c (calls.foldl (fun st k => writeCall c cv k.1 st k.2) (writeInit c))).length + pad) none =
      nblocks (samplesOf cv calls).length c.spb * c.spb ∧
    (samplesOf cv calls).length ≤ nblocks (samplesOf cv calls).length c.spb * c.spb ∧
    nblocks (samplesOf cv calls).length c.spb * c.spb < (samplesOf cv calls).length + c.spb := by
  refine ⟨?_, nblocks_bound _ c.spb (Sf.Gsm.Proofs.spb_pos c)⟩
  rw [gsm_closed_length]
  generalize nblocks (samplesOf cv calls).length c.spb = k
  have hb : 1 < c.blocksize := by unfold Cfg.blocksize; split <;> decide
  unfold framesAtOpen framesWith blocksOfWith padRuleBoth
  have hpc : pad = 0 ∨ pad = 1 := by omega
  rcases hpc with rfl | rfl
  · simp only [Nat.add_zero, Nat.mul_mod_left, if_true, Nat.mul_div_cancel _ (by omega : 0 < c.blocksize)]
    exact Nat.mul_comm _ _
  · have h1 : (k * c.blocksize + 1) % c.blocksize = 1 := by
      rw [Nat.add_comm, Nat.add_mul_mod_self_right, Nat.mod_eq_of_lt hb]
    have h2 : (k * c.blocksize + 1) / c.blocksize = k := by
      rw [Nat.add_comm, Nat.add_mul_div_right _ _ (by omega : 0 < c.blocksize), Nat.div_eq_of_lt hb, Nat.zero_add]
    simp only [h1, h2]
    simp
    exact Nat.mul_comm _ _

/-- **written stream, GSM**: the handle opened on the written data region reads the stream of the reader over the
    encoder run: a function of the written samples; what every read delivers is `gsm_read_call_contract` /
    `gsm_read_crossing_end` on this reader -/
theorem gsm_written_stream (c : Cfg) (cv : Conv) (calls : List (Ty × List Int)) :
    (openRead c (closeBytes c (calls.foldl (fun st k => writeCall c cv k.1 st k.2) (writeInit c)))
        (closeBytes c (calls.foldl (fun st k => writeCall c cv k.1 st k.2) (writeInit c))).length none).r =
      reader c (encChunks (fun st buf => encodeBlock c.wav st buf) c.spb ((samplesOf cv calls).length + 1)
        (if c.wav then State.initWav else State.init) (samplesOf cv calls))
        (nblocks (samplesOf cv calls).length c.spb * c.blocksize) := by
  rw [gsm_closed_length, gsm_closed_form]
  rfl

example : nblocks 161 (Cfg.spb ⟨false⟩) = 2 ∧ nblocks 161 (Cfg.spb ⟨true⟩) = 1 ∧ nblocks 0 160 = 0 := by decide

end gsm

end Sf.C07CodecsClosed
