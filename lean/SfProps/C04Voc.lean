-- properties: C04 C11
/-
  C04 / C11 — the Creative Voice container (stand-alone L1 model SfModel/Voc.lean; helpers SfProofs/VocImage.lean,
  Small2Session.lean).  Property theorems only.

  A *session* is `openW`, any list of `WOp`s storing whole frames, then voc_close (terminator byte, header).
  Since the repair of KF-VOC-MONO-G711 / KF-VOC-UPDATE (voc_close records where the audio ends, type 1 length =
  datalength + 2, every block reader accepts a missing terminator) both statements hold at full strength for every
  accepted configuration; the failures of the rule before the repair (SfModel/VocOld.lean: u-law / A-law mono re-opened
  with one frame too many, PCM_U8 update images one byte short) stay as `…_old_rule` theorems.
-/
import SfModel.Voc
import SfModel.VocOld
import SfProofs.VocImage
namespace Sf.C04Voc
open Sf Sf.Small2 Sf.Voc

/-! ### the rate divisors -/

theorem div_div_ge (U sr : Nat) (h1 : 0 < sr) (h2 : sr ≤ U) : sr ≤ U / (U / sr) := by
  have hp : 0 < U / sr := Nat.div_pos h2 h1
  exact (Nat.le_div_iff_mul_le hp).mpr (by rw [Nat.mul_comm]; exact Nat.div_mul_le_self U sr)

theorem div_div_exact (U sr k : Nat) (h : U = sr * k) (hk : 0 < k) (hs : 0 < sr) : U / (U / sr) = sr := by
  subst h
  rw [Nat.mul_div_cancel_left k hs, Nat.mul_div_cancel _ hk]

/-- **the 8-bit divisor** (type 1 block): for 3907 ≤ sr ≤ 1000000 the byte holds 256 − 1000000 / sr without wrapping
    and a reader computes 1000000 / (1000000 / sr) -/
theorem voc_rate8_inrange (sr : Nat) (h1 : 3907 ≤ sr) (h2 : sr ≤ 1000000) : unrate8 (rate8 sr) = 1000000 / (1000000 / sr) := by
  have hp1 : 1 ≤ 1000000 / sr := Nat.div_pos h2 (by omega)
  have hp2 : 1000000 / sr ≤ 255 := by
    have : 1000000 / sr < 256 := (Nat.div_lt_iff_lt_mul (by omega)).mpr (by omega)
    omega
  have e : rate8 sr = 256 - 1000000 / sr := by
    unfold rate8
    have : (256 - ((1000000 / sr : Nat) : Int)) = ((256 - 1000000 / sr : Nat) : Int) := by omega
    rw [this]; exact wrapU_nat 8 _ (by omega)
  unfold unrate8; rw [e]; congr 1; omega

/-- the quantised rate is never below the requested one, and exact when the rate divides 1000000 -/
theorem voc_rate8_ge (sr : Nat) (h1 : 3907 ≤ sr) (h2 : sr ≤ 1000000) : sr ≤ unrate8 (rate8 sr) := by
  rw [voc_rate8_inrange sr h1 h2]; exact div_div_ge _ _ (by omega) h2

theorem voc_rate8_exact (sr k : Nat) (h1 : 3907 ≤ sr) (h : 1000000 = sr * k) : unrate8 (rate8 sr) = sr := by
  have hk : 0 < k := by
    rcases Nat.eq_zero_or_pos k with h0 | h0
    · subst h0; simp at h
    · exact h0
  have h2 : sr ≤ 1000000 := by rw [h]; exact Nat.le_mul_of_pos_right _ hk
  rw [voc_rate8_inrange sr h1 h2]; exact div_div_exact _ _ k h hk (by omega)

example : unrate8 (rate8 8000) = 8000 ∧ unrate8 (rate8 11025) = 11111 ∧ unrate8 (rate8 44100) = 45454 ∧ rate8 8000 = 131 := by decide

/-- **the 16-bit divisor** (type 8 block, stereo): for 1954 ≤ sr ≤ 128000000 -/
theorem voc_rate16_inrange (sr : Nat) (h1 : 1954 ≤ sr) (h2 : sr ≤ 128000000) :
    unrate16 true (rate16 sr) = 128000000 / (128000000 / sr) := by
  have hp1 : 1 ≤ 128000000 / sr := Nat.div_pos h2 (by omega)
  have hp2 : 128000000 / sr ≤ 65535 := by
    have : 128000000 / sr < 65536 := (Nat.div_lt_iff_lt_mul (by omega)).mpr (by omega)
    omega
  have e : rate16 sr = 65536 - 128000000 / sr := by
    unfold rate16
    have : (65536 - ((128000000 / sr : Nat) : Int)) = ((65536 - 128000000 / sr : Nat) : Int) := by omega
    rw [this]; exact wrapU_nat 16 _ (by omega)
  unfold unrate16; rw [e]; simp only [if_true]; congr 1; omega

theorem voc_rate16_ge (sr : Nat) (h1 : 1954 ≤ sr) (h2 : sr ≤ 128000000) : sr ≤ unrate16 true (rate16 sr) := by
  rw [voc_rate16_inrange sr h1 h2]; exact div_div_ge _ _ (by omega) h2

theorem voc_rate16_exact (sr k : Nat) (h1 : 1954 ≤ sr) (h : 128000000 = sr * k) : unrate16 true (rate16 sr) = sr := by
  have hk : 0 < k := by
    rcases Nat.eq_zero_or_pos k with h0 | h0
    · subst h0; simp at h
    · exact h0
  have h2 : sr ≤ 128000000 := by rw [h]; exact Nat.le_mul_of_pos_right _ hk
  rw [voc_rate16_inrange sr h1 h2]; exact div_div_exact _ _ k h hk (by omega)

example : unrate16 true (rate16 8000) = 8000 ∧ unrate16 true (rate16 44100) = 44107 ∧ unrate16 true (rate16 11025) = 11025 := by decide

/-- the type 9 block stores the rate itself -/
theorem voc_rate_exact9 (c : Cfg) (h : c.codec ≠ 5) : quant c = c.sr := by unfold quant; rw [if_neg h]

/-! ### the closed file -/

/-- class of the repaired KF-VOC-MONO-G711 -/
def KF.monoLaw (c : Cfg) : Prop := (c.codec = 0x10 ∨ c.codec = 0x11) ∧ c.ch = 1
instance (c : Cfg) : Decidable (KF.monoLaw c) := by unfold KF.monoLaw; infer_instance

/-- class of the repaired KF-VOC-UPDATE -/
def KF.u8 (c : Cfg) : Prop := c.codec = 5
instance (c : Cfg) : Decidable (KF.u8 c) := by unfold KF.u8; infer_instance

theorem wrapS32_nat (n : Nat) (h : n < 2 ^ 31) : wrapS 32 (n : Int) = n := by
  unfold wrapS
  have e : ((n : Int) % (2 ^ 32 : Int)) = n := Int.emod_eq_of_lt (Int.natCast_nonneg _) (by
    have : (n : Int) < ((2 ^ 31 : Nat) : Int) := by exact_mod_cast h
    have e2 : ((2 ^ 31 : Nat) : Int) < (2 ^ 32 : Int) := by decide
    omega)
  simp only [e]
  have h2 : (n : Int) < (2 ^ 32 : Int) / 2 := by
    have : (n : Int) < ((2 ^ 31 : Nat) : Int) := by exact_mod_cast h
    have e2 : (2 ^ 32 : Int) / 2 = ((2 ^ 31 : Nat) : Int) := by decide
    omega
  rw [if_pos h2]

theorem field24 (n : Nat) (h : n < 2 ^ 24) : wrapU 24 (wrapS 32 (n : Int)) = n := by
  rw [wrapS32_nat n (by omega)]; exact wrapU_nat 24 n h

/-- the fields `calc_length` leaves on an open handle when `n` bytes follow the header -/
def calcFields (c : Cfg) (n : Nat) : Fields :=
  { filelength := ((c.hdrLen + n : Nat) : Int), datalength := ((c.hdrLen + n : Nat) : Int) - c.hdrLen,
    frames := (((c.hdrLen + n : Nat) : Int) - c.hdrLen) / ((c.bw : Nat) : Int) }

theorem calcHdr_eq (c : Cfg) (n : Nat) : calcHdr (fmt c) (c.hdrLen + n) = hdr c (calcFields c n) := rfl

theorem calc_datalength (c : Cfg) (n : Nat) : (calcFields c n).datalength + 2 = ((n + 2 : Nat) : Int) := by
  simp only [calcFields]; omega

theorem calc_frames (c : Cfg) (n : Nat) : (calcFields c n).frames = ((n / c.bw : Nat) : Int) := by
  simp only [calcFields]
  have e : ((c.hdrLen + n : Nat) : Int) - (c.hdrLen : Int) = (n : Int) := by omega
  rw [e, ← Int.natCast_ediv]

theorem close_datalength (c : Cfg) (n : Nat) : (closeFields c n).datalength + 2 = ((n + 2 : Nat) : Int) := by
  simp only [closeFields]; omega

theorem close_frames (c : Cfg) (n : Nat) : (closeFields c n).frames = ((n / c.bw : Nat) : Int) := rfl

theorem closed_eq (c : Cfg) (stale : Nat) (ops : List WOp) :
    closedBytes c stale ops = hdr c (closeFields c (opsData ops).length) ++ (opsData ops ++ [0]) := Voc.closedBytes_eq c stale ops

theorem snapshot_eq (c : Cfg) (stale : Nat) (ops : List WOp) :
    snapshotBytes c stale ops = hdr c (calcFields c (opsData ops).length) ++ opsData ops := by
  unfold Voc.snapshotBytes
  rw [Small2.snapshotBytes_eq (fmt c) (lawful c) stale ops]; rfl

/-- the value of the type 9 length field when the header is computed over `n` audio bytes: whole frames among them, plus 12 -/
theorem field9 (c : Cfg) (f : Fields) (n : Nat) (hf : f.frames = ((n / c.bw : Nat) : Int)) (hn : n + 12 < 2 ^ 24) :
    wrapU 24 (wrapS 32 (f.frames * c.ch * bytewidth c.codec + 12)) = n / c.bw * c.bw + 12 := by
  rw [hf]
  have hle : n / c.bw * c.bw ≤ n := Nat.div_mul_le_self n c.bw
  have e : ((n / c.bw : Nat) : Int) * (c.ch : Int) * ((bytewidth c.codec : Nat) : Int) + 12 = ((n / c.bw * c.bw + 12 : Nat) : Int) := by
    have e2 : ((c.bw : Nat) : Int) = ((bytewidth c.codec : Nat) : Int) * ((c.ch : Nat) : Int) := by unfold Cfg.bw; exact Int.natCast_mul _ _
    rw [Int.natCast_add, Int.natCast_mul, e2, Int.mul_assoc, Int.mul_comm ((c.ch : Nat) : Int)]; rfl
  rw [e]; exact field24 _ (by omega)

theorem bw_pos (c : Cfg) (hwf : c.wf) : 0 < c.bw := by
  unfold Cfg.bw bytewidth
  rcases hwf.2.1 with g | g <;> rw [g] <;> split <;> decide

theorem whole_div (D bw : Nat) (hm : D % bw = 0) : D / bw * bw = D := by
  have := Nat.div_add_mod D bw
  rw [hm, Nat.add_zero, Nat.mul_comm] at this; exact this

/-- **voc_reopen_info (C04, full strength).**  For EVERY accepted configuration (PCM_U8 / PCM_16 / u-law / A-law, one
    or two channels, any rate) and every session of whole frames (guard: the 3-byte block length), the closed file
    re-opens with the requested channels and encoding, the quantised rate (`quant`: exact for the type 9 block, the
    divisor rules above for PCM_U8) and exactly the frames written. -/
theorem voc_reopen_info (c : Cfg) (hwf : c.wf) (stale : Nat) (ops : List WOp) (hw : WholeFrames c.bw ops)
    (hguard : (opsData ops).length + 14 < 2 ^ 24) :
    parse (closedBytes c stale ops) = .ok { ch := c.ch, fmt := c.fmtWord, sr := quant c, frames := (opsData ops).length / c.bw } := by
  have hm := opsData_whole c.bw ops hw
  rw [closed_eq]
  generalize hD : (opsData ops).length = D at hm hguard
  have hdl : (opsData ops ++ [0]).length = D + 1 := by simp [hD]
  have hbpos := bw_pos c hwf
  obtain ⟨hcodec, hch, hsr1, hsr2⟩ := hwf
  by_cases h5 : c.codec = 5
  · have hL : wrapU 24 (wrapS 32 ((closeFields c D).datalength + 2)) = D + 2 := by
      rw [close_datalength]; exact field24 _ (by omega)
    rcases hch with h1 | h2
    · rw [parse_image1 c ⟨hcodec, Or.inl h1, hsr1, hsr2⟩ h5 h1 _ (D + 2) hL _ (by rw [hdl]; omega) (by rw [hdl]; omega) (by rw [hdl]; omega)]
      have : c.bw = 1 := by unfold Cfg.bw bytewidth; rw [h5, h1]; decide
      rw [hdl, this, h1]; simp
    · rw [parse_image8 c ⟨hcodec, Or.inr h2, hsr1, hsr2⟩ h5 h2 _ (D + 2) hL _ (by rw [hdl]; omega) (by rw [hdl])]
      have : c.bw = 2 := by unfold Cfg.bw bytewidth; rw [h5, h2]; decide
      rw [hdl, this, h2]; simp
  · have hS := field9 c (closeFields c D) D (close_frames c D) (by omega)
    rw [whole_div D c.bw hm] at hS
    rw [parse_image9 c ⟨hcodec, hch, hsr1, hsr2⟩ h5 _ (D + 12) hS _ (by rw [hdl]; omega) (by rw [hdl]; omega)]
    rw [voc_rate_exact9 c h5, hdl]
    have : frames9 (D + 12) (42 + (D + 1)) c.bw = D / c.bw := by
      unfold frames9
      have n1 : ¬ (((D + 12 : Nat) : Int) + 31 = ((42 + (D + 1) : Nat) : Int) + 1) := by omega
      rw [if_neg n1]
      unfold framesOf
      have bpos : ((c.bw : Nat) : Int) > 0 := by exact_mod_cast hbpos
      have g1 : ((42 + (D + 1) : Nat) : Int) > ((42 : Nat) : Int) := by omega
      have g2 : ((42 + (D + 1) : Nat) : Int) - 1 > 0 := by omega
      rw [if_pos g1, if_pos g2, if_pos bpos]
      have e : ((42 + (D + 1) : Nat) : Int) - 1 - ((42 : Nat) : Int) = ((D : Nat) : Int) := by omega
      rw [e, Int.tdiv_eq_ediv_of_nonneg (Int.natCast_nonneg _), ← Int.natCast_ediv, Int.toNat_natCast]
    rw [this]

/-- C04 at full strength for VOC, as a proposition about a writer / reader pair -/
def reopenInfoFull (closed : Cfg → Nat → List WOp → List Byte) (prs : List Byte → ParseRes) : Prop :=
  ∀ (c : Cfg), c.wf → ∀ (stale : Nat) (ops : List WOp), WholeFrames c.bw ops → (opsData ops).length + 14 < 2 ^ 24 →
    prs (closed c stale ops) = .ok { ch := c.ch, fmt := c.fmtWord, sr := quant c, frames := (opsData ops).length / c.bw }

/-- … holds of the current code … -/
theorem voc_reopen_info_full_holds : reopenInfoFull closedBytes parse :=
  fun c hwf stale ops hw hg => voc_reopen_info c hwf stale ops hw hg

def exLaw : Cfg := ⟨0x10, 1, 8000⟩
def exU8 : Cfg := ⟨5, 2, 11025⟩
def exU8m : Cfg := ⟨5, 1, 8000⟩
def exPcm : Cfg := ⟨2, 2, 44100⟩
def exOps : List WOp := [.write [1, 2, 3, 4] false, .update, .write [5, 6, 7, 8] true]

/-- … and failed under the rule before the repair of KF-VOC-MONO-G711: three u-law mono frames re-opened as four
    (findings/kf_voc_mono_ulaw.txt), with the old reader and with the current one -/
theorem voc_mono_g711_old_rule :
    KF.monoLaw exLaw ∧
    Old.parse (Old.closedBytes exLaw 0 [.write [1, 2, 3] false]) = .ok ⟨1, 0x080010, 8000, 4⟩ ∧
    parse (Old.closedBytes exLaw 0 [.write [1, 2, 3] false]) = .ok ⟨1, 0x080010, 8000, 4⟩ ∧
    parse (closedBytes exLaw 0 [.write [1, 2, 3] false]) = .ok ⟨1, 0x080010, 8000, 3⟩ := by decide +kernel

theorem voc_reopen_info_full_old_rule_fails : ¬ reopenInfoFull Old.closedBytes Old.parse := by
  intro h
  have := h exLaw (by decide) 0 [.write [1, 2, 3] false] (by decide) (by decide)
  exact absurd this (by decide +kernel)

example : exPcm.wf ∧ WholeFrames exPcm.bw exOps ∧
    parse (closedBytes exPcm 7 exOps) = .ok ⟨2, 0x080002, 44100, 2⟩ := by decide +kernel
example : exU8.wf ∧ parse (closedBytes exU8 7 exOps) = .ok ⟨2, 0x080005, 11025, 4⟩ := by decide +kernel
example : exU8m.wf ∧ parse (closedBytes exU8m 7 exOps) = .ok ⟨1, 0x080005, 8000, 8⟩ := by decide +kernel
example : exLaw.wf ∧ parse (closedBytes exLaw 0 [.write [1, 2, 3] false]) = .ok ⟨1, 0x080010, 8000, 3⟩ := by decide +kernel

/-- **voc_frames_bound.**  `F = N` for every configuration: the terminator byte is never counted. -/
theorem voc_frames_bound (c : Cfg) (hwf : c.wf) (stale : Nat) (ops : List WOp) (hw : WholeFrames c.bw ops)
    (hguard : (opsData ops).length + 14 < 2 ^ 24) :
    ∃ F, parse (closedBytes c stale ops) = .ok { ch := c.ch, fmt := c.fmtWord, sr := quant c, frames := F } ∧
      F = (opsData ops).length / c.bw :=
  ⟨_, voc_reopen_info c hwf stale ops hw hguard, rfl⟩

example : (4 * 2) / 2 = 4 := by decide

/-- **voc_size_fields.**  The closed file is the header, the audio and one terminator byte; the header is the one
    `voc_write_header` computes from the audio bytes alone (`closeFields`): type 1 length field = audio + 2 (rate and
    compression bytes + audio), type 9 length field = 12 + the whole frames among the audio bytes. -/
theorem voc_size_fields (c : Cfg) (stale : Nat) (ops : List WOp) (bytes : List Byte) (D : Nat)
    (hbytes : bytes = closedBytes c stale ops) (hD : D = (opsData ops).length) :
    bytes.length = c.hdrLen + D + 1 ∧ bytes.drop c.hdrLen = opsData ops ++ [0] ∧ bytes.take c.hdrLen = hdr c (closeFields c D) ∧
    (closeFields c D).datalength + 2 = ((D + 2 : Nat) : Int) ∧ (closeFields c D).frames = ((D / c.bw : Nat) : Int) := by
  rw [closed_eq, ← hD] at hbytes
  have hl := hdr_length c (closeFields c D)
  refine ⟨by rw [hbytes, List.length_append, hl, List.length_append, ← hD, List.length_singleton]; omega, by rw [hbytes]; exact drop_append_len _ _ _ hl,
    by rw [hbytes]; exact take_append_len _ _ _ hl, close_datalength c D, close_frames c D⟩

example : (closedBytes exPcm 7 exOps).length = 42 + 8 + 1 ∧ (closedBytes exPcm 7 exOps).drop 42 = opsData exOps ++ [0] := by decide +kernel

/-- **stale_frames_ignored_voc.**  Closed bytes and update images do not depend on the caller's frames value
    (the type 9 header sf_open itself writes does: `voc_open_image_stale`). -/
theorem stale_frames_ignored_voc (c : Cfg) (a b : Nat) (ops : List WOp) :
    closedBytes c a ops = closedBytes c b ops ∧ snapshotBytes c a ops = snapshotBytes c b ops := by
  constructor
  · rw [closed_eq, closed_eq]
  · rw [snapshot_eq, snapshot_eq]

example : closedBytes exPcm 0 exOps = closedBytes exPcm 123456 exOps := by decide +kernel

theorem voc_open_image_stale : (openW (fmt exPcm) 0).bytes ≠ (openW (fmt exPcm) 99).bytes := by decide +kernel

/-! ### header updates (C11) -/

/-- **voc_snapshot_valid (C11, full strength).**  For EVERY accepted configuration: after any session prefix of whole
    frames the image a header update leaves parses with the same parameters and exactly the frames written so far (the
    readers' "missing zero byte" rule), and is the header followed by the audio. -/
theorem voc_snapshot_valid (c : Cfg) (hwf : c.wf) (stale : Nat) (ops : List WOp) (hw : WholeFrames c.bw ops)
    (hguard : (opsData ops).length + 14 < 2 ^ 24) :
    parse (snapshotBytes c stale ops) = .ok { ch := c.ch, fmt := c.fmtWord, sr := quant c, frames := (opsData ops).length / c.bw } ∧
    ∃ h, h.length = c.hdrLen ∧ snapshotBytes c stale ops = h ++ opsData ops := by
  have hm := opsData_whole c.bw ops hw
  rw [snapshot_eq]
  refine ⟨?_, _, hdr_length c _, rfl⟩
  generalize hD : (opsData ops).length = D at hm hguard
  have hbpos := bw_pos c hwf
  by_cases h5 : c.codec = 5
  · have hL : wrapU 24 (wrapS 32 ((calcFields c D).datalength + 2)) = D + 2 := by
      rw [calc_datalength]; exact field24 _ (by omega)
    rcases hwf.2.1 with h1 | h2
    · rw [parse_image1_missing c hwf h5 h1 _ (D + 2) hL _ (by rw [hD]; omega) (by rw [hD])]
      have : c.bw = 1 := by unfold Cfg.bw bytewidth; rw [h5, h1]; decide
      rw [hD, this, h1]; simp
    · rw [parse_image8_missing c hwf h5 h2 _ (D + 2) hL _ (by rw [hD]; omega) (by rw [hD])]
      have : c.bw = 2 := by unfold Cfg.bw bytewidth; rw [h5, h2]; decide
      rw [hD, this, h2]
  · have hS := field9 c (calcFields c D) D (calc_frames c D) (by omega)
    rw [whole_div D c.bw hm] at hS
    rw [parse_image9 c hwf h5 _ (D + 12) hS _ (by rw [hD]; omega) (by rw [hD]; omega)]
    rw [voc_rate_exact9 c h5, hD]
    have : frames9 (D + 12) (42 + D) c.bw = D / c.bw := by
      unfold frames9
      have n1 : ((D + 12 : Nat) : Int) + 31 = ((42 + D : Nat) : Int) + 1 := by omega
      rw [if_pos n1]
      exact framesOf_nat 42 D c.bw hbpos
    rw [this]

/-- C11 at full strength for VOC, as a proposition about a writer / reader pair -/
def snapshotValidFull (snap : Cfg → Nat → List WOp → List Byte) (prs : List Byte → ParseRes) : Prop :=
  ∀ (c : Cfg), c.wf → ∀ (stale : Nat) (ops : List WOp), WholeFrames c.bw ops → (opsData ops).length + 14 < 2 ^ 24 →
    prs (snap c stale ops) = .ok { ch := c.ch, fmt := c.fmtWord, sr := quant c, frames := (opsData ops).length / c.bw }

theorem voc_snapshot_valid_full_holds : snapshotValidFull snapshotBytes parse :=
  fun c hwf stale ops hw hg => (voc_snapshot_valid c hwf stale ops hw hg).1

/-- the rule before the repair of KF-VOC-UPDATE: three stereo PCM_U8 frames, header update, the image re-opened with
    two (findings/kf_voc_update.txt); the current writer's image re-opens with three -/
theorem voc_snapshot_u8_old_rule :
    KF.u8 exU8 ∧
    Old.parse (Old.snapshotBytes exU8 0 [.write [1, 2, 3, 4, 5, 6] false]) = .ok ⟨2, 0x080005, 11025, 2⟩ ∧
    Old.parse (Old.snapshotBytes exU8m 0 [.write [1, 2, 3] false]) = .ok ⟨1, 0x080005, 8000, 2⟩ ∧
    parse (snapshotBytes exU8 0 [.write [1, 2, 3, 4, 5, 6] false]) = .ok ⟨2, 0x080005, 11025, 3⟩ ∧
    parse (snapshotBytes exU8m 0 [.write [1, 2, 3] false]) = .ok ⟨1, 0x080005, 8000, 3⟩ := by decide +kernel

theorem voc_snapshot_valid_full_old_rule_fails : ¬ snapshotValidFull Old.snapshotBytes Old.parse := by
  intro h
  have := h exU8 (by decide) 0 [.write [1, 2, 3, 4, 5, 6] false] (by decide) (by decide)
  exact absurd this (by decide +kernel)

/-- the old READER refused the current writer's update image of a type 1 file ("truncated"): the reader had to learn the
    missing-terminator rule together with the writer's new length -/
theorem voc_old_reader_refuses_new_image : Old.parse (snapshotBytes exU8m 0 [.write [1, 2, 3] false]) = .err := by decide +kernel

example : parse (snapshotBytes exPcm 5 [.write [1, 2, 3, 4] false]) = .ok ⟨2, 0x080002, 44100, 1⟩ := by decide +kernel
example : parse (snapshotBytes exLaw 5 [.write [1, 2, 3, 4] false]) = .ok ⟨1, 0x080010, 8000, 4⟩ := by decide +kernel

/-- header updates never change the finished file: with or without them the closed bytes are equal -/
theorem voc_updates_dont_change_file (c : Cfg) (stale : Nat) (ops : List WOp) :
    closedBytes c stale ops = closedBytes c stale [.write (opsData ops) false] := by
  rw [closed_eq, closed_eq]; simp [opsData]

example : closedBytes exPcm 0 exOps = closedBytes exPcm 0 [.write (opsData exOps) false] := by decide +kernel

end Sf.C04Voc
