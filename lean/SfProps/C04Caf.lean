-- properties: C04 C11
/-
  C04 / C11 — the CAF container (SfModel/Caf.lean), sample-granular encodings.  Property theorems only
  (helpers: SfProofs/CafBytes.lean, CafImage.lean, CafSession.lean).

  `image c N pk data = hdr c N pk ++ data ++ tail c N` is the closed file of N frames whose encoded audio is `data`
  and whose PEAK table (float / double files) is `pk`.
-/
import SfProofs.CafSession
import SfProofs.CafParse
namespace Sf.C04Caf
open Sf Sf.Caf Sf.CafW64

/-- the header always ends on a multiple of 4096 (the 'free' chunk fills the gap, whatever the channel count of the
    'peak' chunk), its length does not depend on the lengths or peaks written into it, and the closed file is the
    header, the audio, and one zero byte exactly when the audio ends on an odd offset — so the total is even -/
theorem caf_header_length (c : Cfg) (n : Nat) (pk : List Peak) (data : List Byte)
    (hpk : isFloat c.codec = true → pk.length = c.ch) (hd : data.length = n * c.bw) :
    (hdr c n pk).length = dataOffset c ∧ dataOffset c % 4096 = 0 ∧
    (image c n pk data).length = dataOffset c + data.length + data.length % 2 ∧ (image c n pk data).length % 2 = 0 := by
  have h1 := hdrRaw_length c ((n * c.bw : Nat) : Int) pk hpk
  have h2 := dataOffset_aligned c
  have h3 := image_length c n pk data hpk
  have h4 : (tail c n).length = data.length % 2 := by
    unfold tail; rw [hd]
    by_cases h : (dataOffset c + n * c.bw) % 2 = 1
    · simp [h]; omega
    · simp [h]; omega
  refine ⟨h1, h2.1, by rw [h3, h4], by rw [h3, h4]; omega⟩

/-- every size field of the closed file equals the real length, for every N: 'desc' is 32, 'free' is exactly the gap up
    to the 16 bytes of the data chunk header and edit count, and the 64-bit 'data' size is the audio byte count + 4 (the
    edit count) — it does NOT count the pad byte -/
theorem caf_size_fields (c : Cfg) (n : Nat) (pk : List Peak) (data : List Byte)
    (hpk : isFloat c.codec = true → pk.length = c.ch) (hd : data.length = n * c.bw) (hsz : n * c.bw + 4 < 2 ^ 64) :
    let img := image c n pk data
    ofBE ((img.drop 12).take 8) = 32 ∧
    ofBE ((img.drop (preLen c + 4)).take 8) = freeLen c ∧ preLen c + 12 + freeLen c + 16 = dataOffset c ∧
    ofBE ((img.drop (dataOffset c - 12)).take 8) = data.length + 4 := by
  intro img
  obtain ⟨g1, g2, g3, g4, g5, _⟩ := mk_lengths
  have e64 : (256 : Nat) ^ 8 = 2 ^ 64 := by decide
  have hpl := peakPart_length c pk hpk
  have hfl : freeLen c < 4096 := by unfold freeLen; omega
  refine ⟨?_, ?_, rfl, ?_⟩
  · have hb : img = (mk "caff" ++ beBytes 2 1 ++ beBytes 2 0 ++ mk "desc") ++ (beBytes 8 32 ++
        (beBytes 8 (Float.f64.ofInt c.sr) ++ (descRest c ++ (peakPart c pk ++ (mk "free" ++ (beBytes 8 (freeLen c) ++ (zeros (freeLen c) ++ (mk "data" ++
          (beBytes 8 (wrapU 64 (((n * c.bw : Nat) : Int) + 4)) ++ (beBytes 4 0 ++ (data ++ tail c n))))))))))) := by
      simp only [img, image, hdr, hdrRaw_eq, descChunk_eq, List.append_assoc]
    rw [be_field_at img _ _ 8 _ 12 hb (by simp [beBytes_length, g1, g2])]
  · have hb : img = (mk "caff" ++ beBytes 2 1 ++ beBytes 2 0 ++ descChunk c ++ peakPart c pk ++ mk "free") ++ (beBytes 8 (freeLen c) ++
        (zeros (freeLen c) ++ (mk "data" ++ (beBytes 8 (wrapU 64 (((n * c.bw : Nat) : Int) + 4)) ++ (beBytes 4 0 ++ (data ++ tail c n)))))) := by
      simp only [img, image, hdr, hdrRaw_eq, List.append_assoc]
    rw [be_field_at img _ _ 8 _ (preLen c + 4) hb (by simp [beBytes_length, descChunk_length, g1, g4]; omega), e64]
    exact Nat.mod_eq_of_lt (by omega)
  · have hb : img = (mk "caff" ++ beBytes 2 1 ++ beBytes 2 0 ++ descChunk c ++ peakPart c pk ++ mk "free" ++ beBytes 8 (freeLen c) ++
        zeros (freeLen c) ++ mk "data") ++ (beBytes 8 (wrapU 64 (((n * c.bw : Nat) : Int) + 4)) ++ (beBytes 4 0 ++ (data ++ tail c n))) := by
      simp only [img, image, hdr, hdrRaw_eq, List.append_assoc]
    have hw : wrapU 64 (((n * c.bw : Nat) : Int) + 4) = n * c.bw + 4 := by
      have := wrapU_nat 64 (n * c.bw + 4) hsz
      simpa using this
    rw [be_field_at img _ _ 8 _ (dataOffset c - 12) hb
      (by simp [beBytes_length, descChunk_length, zeros, g1, g4, g5, dataOffset]; omega), hw, hd, e64]
    exact Nat.mod_eq_of_lt hsz

/-- the sample rate: the 8 bytes at offset 20 are the big-endian binary64 of the rate, which is finite, and `lrint` of it
    is the rate — for EVERY rate a C `int` can hold (all of them are exactly representable; 2^53 is the real bound) -/
theorem caf_rate_field (c : Cfg) (n : Nat) (pk : List Peak) (data : List Byte) (hsr : c.sr < 2 ^ 53) :
    let img := image c n pk data
    ofBE ((img.drop 20).take 8) = Float.f64.ofInt c.sr % 2 ^ 64 ∧
    (Float.f64.toDy (Float.f64.ofInt c.sr)).rint = c.sr := by
  intro img
  obtain ⟨g1, g2, _⟩ := mk_lengths
  refine ⟨?_, rate_roundtrip c.sr hsr⟩
  have hb : img = (mk "caff" ++ beBytes 2 1 ++ beBytes 2 0 ++ mk "desc" ++ beBytes 8 32) ++ (beBytes 8 (Float.f64.ofInt c.sr) ++
      (descRest c ++ (peakPart c pk ++ (mk "free" ++ (beBytes 8 (freeLen c) ++ (zeros (freeLen c) ++ (mk "data" ++
        (beBytes 8 (wrapU 64 (((n * c.bw : Nat) : Int) + 4)) ++ (beBytes 4 0 ++ (data ++ tail c n)))))))))) := by
    simp only [img, image, hdr, hdrRaw_eq, descChunk_eq, List.append_assoc]
  rw [be_field_at img _ _ 8 _ 20 hb (by simp [beBytes_length, g1, g2])]
  rfl

/-- non-vacuity and concrete re-opens: a little-endian stereo float file of 1 frame (with its 'peak' chunk), an 8-bit
    mono file of 1 frame (odd length: pad byte), and a 16-bit file with no audio at the top rate -/
def exPk : List Peak := [{ value := 0x3FE0000000000000, position := 0 }, { value := 0x3FF0000000000000, position := 0 }]
example : ({ codec := 0x06, endian := 1, ch := 2, sr := 44100 } : Cfg).wf ∧ (image { codec := 0x06, endian := 1, ch := 2, sr := 44100 } 1 exPk [0, 0, 0, 63, 0, 0, 128, 191]).length = 4104 ∧
    parse (image { codec := 0x06, endian := 1, ch := 2, sr := 44100 } 1 exPk [0, 0, 0, 63, 0, 0, 128, 191]) =
      .ok { fmtWord := 0x10180006, ch := 2, sr := 44100, frames := 1, dataoffset := 4096, datalength := 8 } := by decide +kernel
example : (image { codec := 0x01, endian := 0, ch := 1, sr := 8000 } 1 [] [5]).length = 4098 ∧
    parse (image { codec := 0x01, endian := 0, ch := 1, sr := 8000 } 1 [] [5]) =
      .ok { fmtWord := 0x180001, ch := 1, sr := 8000, frames := 1, dataoffset := 4096, datalength := 1 } := by decide +kernel
example : parse (image { codec := 0x02, endian := 2, ch := 6, sr := 0x7FFFFFFF } 0 [] []) =
      .ok { fmtWord := 0x180002, ch := 6, sr := 0x7FFFFFFF, frames := 0, dataoffset := 4096, datalength := 0 } := by decide +kernel

/-! ### the write session: stale frames, crash points -/

/-- `stale_frames_ignored` for CAF: caf_open zeroes sf.frames, and whatever the caller's value was, however the frames
    were split over write calls and interleaved with header updates (explicit or automatic), the closed file is
    `image c N pk data` with N the frames accepted, `data` their encoded bytes in order and `pk` the last peak table —
    an expression in which the stale value does not occur.  Together with `caf_header_length` / `caf_size_fields` this
    gives every size field of every closed file. -/
theorem stale_frames_ignored_caf (c : Cfg) (hwf : c.wf) (stale : Int) (ops : List Op) (hv : ∀ op ∈ ops, op.valid c) :
    (close c (run c (openW c stale) ops)).bytes = image c (sessFrames ops) (sessPeaks c ops) (sessData ops) ∧
    (openW c stale).bytes = (openW c 0).bytes := by
  have i := run_inv (wf_bw_pos hwf) ops (openW_inv c stale) hv
  refine ⟨?_, rfl⟩
  have := close_bytes i
  simpa [sessPeaks_eq] using this

/-- C11 `snapshot_valid` for CAF: when SFC_UPDATE_HEADER_NOW returns, the store is the header of the frames written so
    far followed by exactly their bytes — the closed file without its tailer (a reader of the copy finds the data chunk
    running to the end of the file) -/
theorem snapshot_valid_caf (c : Cfg) (hwf : c.wf) (stale : Int) (ops : List Op) (hv : ∀ op ∈ ops, op.valid c) :
    (step c (run c (openW c stale) ops) .update).bytes = hdr c (sessFrames ops) (sessPeaks c ops) ++ sessData ops := by
  have i := run_inv (wf_bw_pos hwf) ops (openW_inv c stale) hv
  have := (writeHeader_inv i (wf_bw_pos hwf) true).2.1 rfl
  simpa [step, sessPeaks_eq] using this

/-- …and in auto mode every write call that transferred something ends in such a crash point -/
theorem auto_write_is_snapshot_caf (c : Cfg) (hwf : c.wf) (stale : Int) (ops : List Op) (hv : ∀ op ∈ ops, op.valid c)
    (k : Nat) (data : List Byte) (p : List Peak) (hk : k ≠ 0) (hd : data.length = k * c.bw) (hp : p.length = c.ch)
    (hauto : (run c (openW c stale) ops).auto = true) :
    (step c (run c (openW c stale) ops) (.write k data p)).bytes =
      hdr c (sessFrames ops + k) (sessPeaks c (ops ++ [.write k data p])) ++ (sessData ops ++ data) := by
  have i := run_inv (wf_bw_pos hwf) ops (openW_inv c stale) hv
  have := (step_inv i (wf_bw_pos hwf) (.write k data p) ⟨hd, hp⟩).2 k data p rfl hk hauto
  simpa [sessPeaks_eq, List.foldl_append] using this

/-- a float session: two write calls around an update, auto mode switched on in between -/
def exCfg : Cfg := { codec := 0x06, endian := 1, ch := 1, sr := 8000 }
def exOps : List Op :=
  [.write 1 [0, 0, 0, 63] [{ value := 0x3FE0000000000000, position := 0 }], .update, .auto true,
   .write 2 [0, 0, 128, 63, 0, 0, 0, 0] [{ value := 0x3FF0000000000000, position := 1 }]]
example : exCfg.wf ∧ (∀ op ∈ exOps, op.valid exCfg) ∧ sessFrames exOps = 3 ∧
    (close exCfg (run exCfg (openW exCfg 99999) exOps)).bytes.length = 4096 + 12 ∧
    parse (close exCfg (run exCfg (openW exCfg 99999) exOps)).bytes =
      .ok { fmtWord := 0x10180006, ch := 1, sr := 8000, frames := 3, dataoffset := 4096, datalength := 12 } := by decide +kernel

/-! ### re-opening the closed file -/

/-- `reopen_info` for CAF: for every configuration sf_open accepts for writing, every frame count N, every peak table and
    every encoded audio `data` of N frames, the reader of the closed file reports the requested channels, the format word
    (CAF | encoding | the byte order the file records), the requested sample rate — every rate a C `int` holds is exact in
    the binary64 field — and frames = N; the audio starts at `dataOffset` and has exactly N·bw bytes.
    Guard: the audio is at most 2^31 − 1 bytes (caf_read_header passes `datalength` through an `int`: beyond that the scan
    would walk into the audio; no file of that size can be run through the harness, so the model does not describe it). -/
theorem caf_reopen_info (c : Cfg) (hwf : c.wf) (n : Nat) (pk : List Peak) (data : List Byte)
    (hpk : isFloat c.codec = true → pk.length = c.ch) (hd : data.length = n * c.bw) (hsz : n * c.bw ≤ 0x7FFFFFFF) :
    parse (image c n pk data) =
      .ok { fmtWord := (if c.little then 0x10000000 else 0) + 0x180000 + c.codec, ch := c.ch, sr := c.sr, frames := n,
            dataoffset := dataOffset c, datalength := n * c.bw } :=
  parse_image c hwf n pk data hpk hd hsz

/-- `read_to_eof`: the bytes between the reported data offset and data length are exactly the audio written — the pad
    byte is never part of them -/
theorem caf_reopen_data (c : Cfg) (n : Nat) (pk : List Peak) (data : List Byte)
    (hpk : isFloat c.codec = true → pk.length = c.ch) (hd : data.length = n * c.bw) :
    ((image c n pk data).drop (dataOffset c)).take (n * c.bw) = data := by
  have h := hdrRaw_length c ((n * c.bw : Nat) : Int) pk hpk
  simp only [image, hdr, List.append_assoc]
  rw [← h, ← hd]
  simp

/-- the closed file of ANY valid write session re-opens with what was written: `stale_frames_ignored_caf` and
    `caf_reopen_info` composed -/
theorem caf_session_reopen (c : Cfg) (hwf : c.wf) (stale : Int) (ops : List Op) (hv : ∀ op ∈ ops, op.valid c)
    (hsz : sessFrames ops * c.bw ≤ 0x7FFFFFFF) :
    parse (close c (run c (openW c stale) ops)).bytes =
      .ok { fmtWord := (if c.little then 0x10000000 else 0) + 0x180000 + c.codec, ch := c.ch, sr := c.sr, frames := sessFrames ops,
            dataoffset := dataOffset c, datalength := sessFrames ops * c.bw } := by
  have i := run_inv (wf_bw_pos hwf) ops (openW_inv c stale) hv
  rw [(stale_frames_ignored_caf c hwf stale ops hv).1]
  exact parse_image c hwf _ _ _ (by rw [sessPeaks_eq]; exact i.pklen) (by simpa using i.dlen) hsz

/-! KF-CAF-DATA-MINUS-ONE (a 'data' chunk of size −1 was refused) is repaired: the theorems about the new rule and the rule before the
    repair (`caf_data_to_end_walk`, `caf_data_to_end_reopens`, `caf_data_size_minus_one_old_rule`) are in SfProps/C04CafDataEnd.lean. -/

end Sf.C04Caf
