/-
-- properties: C06 C15
  C06 / C15 (CAF/ALAC) — the copy loop of `alac_read_*`, `alac_decode_block` and `alac_seek` for EVERY codec core and EVERY
  I/O oracle (the function that says which bytes a read at a data offset delivers — short, empty or wrong answers
  included):
  * a read delivers what is left of the decoded packet first: inside the current packet the items are the slice of the
    packet at the position, whatever the call size, and two calls deliver what one call delivers (C06);
  * a successful seek to frame k leaves the reader in packet k / 4096 at frame k % 4096 of it, and the next read
    delivers that packet's frames from there (C06);
  * the loops are total functions (structural recursion on a fuel that is an upper bound of the iterations, `readFuel`):
    a read call never delivers more than it was asked for, consumes at most one table entry per packet decoded and
    never moves the table position backwards, whatever the I/O oracle answers (C15: returns within bounded time, count in
    range).
  Model: SfModel/AlacFile.lean.  Property theorems only.
-/
import SfModel.AlacFile
namespace Sf.C06Alac
open Sf Sf.Alac

variable {σ α : Type}

/-- `alac_decode_block` consumes at most one table entry and never moves backwards, for every I/O answer -/
theorem decodeBlock_cur (cd : Codec σ α) (io : Alac.IO) (r : R α) :
    r.cur ≤ (decodeBlock cd io r).1.cur ∧ (decodeBlock cd io r).1.cur ≤ r.cur + 1 := by
  unfold decodeBlock
  split
  · simp
  · simp only
    split
    · simp
    · split
      · simp
      · split <;> simp

/-- a failing `alac_decode_block` at the end of the table changes nothing (so the next call fails the same way) -/
theorem decodeBlock_exhausted (cd : Codec σ α) (io : Alac.IO) (r : R α) (h : r.cur ≥ r.sizes.length) :
    decodeBlock cd io r = (r, false) := by
  unfold decodeBlock; rw [if_pos h]

/-- a successful `alac_decode_block` starts the new packet at its first frame and records its frame count -/
theorem decodeBlock_ok (cd : Codec σ α) (io : Alac.IO) (r : R α) (h : (decodeBlock cd io r).2 = true) :
    (decodeBlock cd io r).1.part = 0 ∧ (decodeBlock cd io r).1.ftb = (decodeBlock cd io r).1.block.length ∧
    (decodeBlock cd io r).1.block = cd.dec (io r.inPos (r.sizes.getD r.cur 0)) := by
  unfold decodeBlock at h ⊢
  split
  · rename_i hc; rw [if_pos hc] at h; simp at h
  · rename_i hc
    rw [if_neg hc] at h
    simp only at h ⊢
    split
    · rename_i h0; rw [if_pos h0] at h; simp at h
    · rename_i h0
      rw [if_neg h0] at h
      split
      · rename_i h1; rw [if_pos h1] at h; simp at h
      · rename_i h1
        rw [if_neg h1] at h
        split
        · rename_i h2; rw [if_pos h2] at h; simp at h
        · simp

/-- C15: a read never delivers more frames than asked, for every codec, every I/O oracle, every state, every fuel -/
theorem readLoop_le (cd : Codec σ α) (io : Alac.IO) : ∀ (fuel : Nat) (r : R α) (len : Nat),
    (readLoop cd io fuel r len).2.length ≤ len := by
  intro fuel
  induction fuel with
  | zero => intro r len; simp [readLoop]
  | succ fuel ih =>
    intro r len
    rw [readLoop]
    split
    · simp
    · split
      rename_i r1 ok hd
      split
      · simp
      · simp only [List.length_append, List.length_take, List.length_drop]
        have := ih { r1 with part := r1.part + min (r1.ftb - r1.part) len } (len - min (r1.ftb - r1.part) len)
        omega

/-- C15: the table position only moves forward during a read, by at most one entry per iteration -/
theorem readLoop_cur (cd : Codec σ α) (io : Alac.IO) : ∀ (fuel : Nat) (r : R α) (len : Nat),
    r.cur ≤ (readLoop cd io fuel r len).1.cur ∧ (readLoop cd io fuel r len).1.cur ≤ r.cur + fuel := by
  intro fuel
  induction fuel with
  | zero => intro r len; simp [readLoop]
  | succ fuel ih =>
    intro r len
    rw [readLoop]
    split
    · simp
    · split
      rename_i r1 ok hd
      have hr1 : r.cur ≤ r1.cur ∧ r1.cur ≤ r.cur + 1 := by
        split at hd
        · have := decodeBlock_cur cd io r
          rw [hd] at this; exact this
        · cases hd; simp
      split
      · simp only; omega
      · have := ih { r1 with part := r1.part + min (r1.ftb - r1.part) len } (len - min (r1.ftb - r1.part) len)
        simp only at this ⊢
        omega

/-- C06: inside the current packet a read is a slice of the packet at the position: no decode, no I/O -/
theorem readLoop_within (cd : Codec σ α) (io : Alac.IO) (fuel : Nat) (r : R α) (len : Nat)
    (hl : 0 < len) (hp : r.part + len ≤ r.ftb) :
    readLoop cd io (fuel + 2) r len = ({ r with part := r.part + len }, (r.block.drop r.part).take len) := by
  rw [readLoop]
  rw [if_neg (by omega), if_neg (by omega)]
  simp only [Bool.not_true, Bool.false_eq_true, if_false]
  have hm : min (r.ftb - r.part) len = len := by omega
  rw [hm, Nat.sub_self, readLoop]
  simp

/-- C06, partition inside a packet: two reads deliver what one read of the sum delivers, and leave the same state -/
theorem read_partition_within (cd : Codec σ α) (io : Alac.IO) (r : R α) (a b : Nat)
    (ha : 0 < a) (hb : 0 < b) (hp : r.part + (a + b) ≤ r.ftb) (hblk : r.ftb = r.block.length) :
    let one := readLoop cd io 2 r (a + b)
    let r1 := readLoop cd io 2 r a
    let r2 := readLoop cd io 2 r1.1 b
    r2.1 = one.1 ∧ r1.2 ++ r2.2 = one.2 := by
  intro one r1 r2
  have h1 : r1 = ({ r with part := r.part + a }, (r.block.drop r.part).take a) :=
    readLoop_within cd io 0 r a ha (by omega)
  have h2 : r2 = ({ r with part := r.part + a + b }, (r.block.drop (r.part + a)).take b) := by
    show readLoop cd io 2 r1.1 b = _
    rw [h1]
    exact readLoop_within cd io 0 _ b hb (by simp only; omega)
  have h3 : one = ({ r with part := r.part + (a + b) }, (r.block.drop r.part).take (a + b)) :=
    readLoop_within cd io 0 r (a + b) (by omega) hp
  rw [h1, h2, h3]
  refine ⟨by simp [Nat.add_assoc], ?_⟩
  simp only
  rw [List.take_add, List.drop_drop]

/-- C06, seek: a seek to frame k > 0 inside the table that finds its packet leaves the reader in packet k / 4096, at frame
    k % 4096 of the freshly decoded packet -/
theorem seekR_lands (cd : Codec σ α) (io : Alac.IO) (r : R α) (k : Nat) (hk : 0 < k) (hin : k ≤ r.sizes.length * fpb)
    (hok : (decodeBlock cd io { r with inPos := blockOffset r.sizes (k / fpb), cur := k / fpb }).2 = true) :
    ∃ r1, seekR cd io r k = some r1 ∧ r1.part = k % fpb ∧ r1.cur = k / fpb + 1 ∧
      r1.block = cd.dec (io (blockOffset r.sizes (k / fpb)) (r.sizes.getD (k / fpb) 0)) ∧ r1.ftb = r1.block.length := by
  unfold seekR
  rw [if_neg (by omega), if_neg (by omega)]
  refine ⟨_, rfl, rfl, ?_, ?_, ?_⟩
  · have hc := decodeBlock_cur cd io { r with inPos := blockOffset r.sizes (k / fpb), cur := k / fpb }
    simp only at hc ⊢
    -- a successful decode consumed exactly one entry
    unfold decodeBlock at hok ⊢
    simp only at hok ⊢
    split
    · rename_i h0; rw [if_pos h0] at hok; simp at hok
    · rename_i h0
      rw [if_neg h0] at hok
      split
      · rename_i h1; rw [if_pos h1] at hok
      · rename_i h1
        rw [if_neg h1] at hok
        split
        · rename_i h2; rw [if_pos h2] at hok
        · rename_i h2
          rw [if_neg h2] at hok
          split
          · rename_i h3; rw [if_pos h3] at hok
          · simp
  · exact (decodeBlock_ok cd io _ hok).2.2
  · exact (decodeBlock_ok cd io _ hok).2.1

/-- C06: a rewind (seek to frame 0) forces the next read to decode the first packet again from data offset 0 -/
theorem seekR_zero (cd : Codec σ α) (io : Alac.IO) (r : R α) :
    seekR cd io r 0 = some { r with ftb := 0, inPos := 0, cur := 0 } := by
  unfold seekR; simp

/-- non-vacuity: two packets of three and two frames behind a byte-per-frame codec; read 2 + 2 + 2 and seek -/
example :
    let cd : Codec Unit Nat := { init := (), enc := fun _ st => ((), st), dec := fun p => p }
    let io := fileIO [10, 11, 12, 20, 21]
    let r0 : R Nat := { sizes := [3, 2] }
    (readCall cd io r0 2).2 = [10, 11] ∧
    (readCall cd io (readCall cd io r0 2).1 2).2 = [12, 20] ∧
    (readCall cd io r0 9).2 = [10, 11, 12, 20, 21] ∧
    (decodeBlock cd (fun _ _ => []) r0).2 = false := by
  refine ⟨?_, ?_, ?_, ?_⟩ <;> decide

end Sf.C06Alac
