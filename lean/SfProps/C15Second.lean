/-
  SfProps.C15Second — the second file of a handle (SD2 resource fork): a failing open releases every descriptor (C15 / C16).
  -- properties: C15

  `Sf.RsrcSwap.session` is sf_open (path, SFM_WRITE) of an SD2 file followed — when the open succeeds — by the sf_close of the session.
  With sd2_write_rsrc_fork as written (`Rule.code`) the descriptor table after the session is the table before it, whatever numbers
  the two `open` calls were given, whether or not the fork could be opened and whether or not its write succeeded, and no close ()
  hits a number that is not open (`code_rule_releases`).  The early return of the seeded regression leaves the data file's descriptor
  open and closes the fork's number twice (`early_rule_leaks`); the two rules agree whenever the write succeeds
  (`early_rule_same_when_write_ok`).  `obsOk_meaning`: what an accepted observation of `second try` says.
-/
import SfModel.RsrcSwap
namespace Sf.RsrcSwap

theorem opened_closed_free (t : Tab) (n : Nat) (h : t n = false) : (t.opened n).closed n = t := by
  funext m; unfold Tab.opened Tab.closed; by_cases hm : m = n <;> simp [hm, h]

/-- THE OPEN RELEASES EVERYTHING (rule of the code): for every table, every pair of free numbers, every outcome of opening and of
    writing the fork, the session ends with the table it started from and without a close () on a number that is not open. -/
theorem code_rule_releases (c : Cfg) (t : Tab) (d r : Nat) (hd : t d = false) (hr : t r = false) (hdr : d ≠ r) :
    (session .code c t d r).tab = t ∧ (session .code c t d r).ebadf = 0 := by
  have hrd : r ≠ d := fun h => hdr h.symm
  cases c with
  | mk forkOpens writeOk =>
    cases forkOpens <;> cases writeOk <;> refine ⟨?_, ?_⟩
    all_goals first
      | (funext m
         by_cases h1 : m = d <;> by_cases h2 : m = r <;>
           simp [session, writeFork, useRsrc, closeRsrc, psfClose, closeFd, Tab.opened, Tab.closed, hdr, hrd, h1, h2, hd, hr] <;> simp_all)
      | simp [session, writeFork, useRsrc, closeRsrc, psfClose, closeFd, Tab.opened, Tab.closed, hdr, hrd]

/-- the early return: the fork opens, its write fails -> the data file's descriptor stays open and the fork's number is closed twice -/
theorem early_rule_leaks (t : Tab) (d r : Nat) (hdr : d ≠ r) :
    (session .early { forkOpens := true, writeOk := false } t d r).tab d = true ∧
    (session .early { forkOpens := true, writeOk := false } t d r).ebadf = 1 := by
  have hrd : r ≠ d := fun h => hdr h.symm
  refine ⟨?_, ?_⟩ <;>
    simp [session, writeFork, useRsrc, closeRsrc, psfClose, closeFd, Tab.opened, Tab.closed, hdr, hrd]

theorem early_rule_same_when_write_ok (c : Cfg) (t : Tab) (d r : Nat) (hw : c.writeOk = true) (hf : c.forkOpens = true) :
    session .early c t d r = session .code c t d r := by
  cases c with
  | mk forkOpens writeOk =>
    simp only at hw hf
    subst hw; subst hf
    by_cases hdr : d = r <;> simp [session, writeFork, useRsrc, hdr]

/-- the concrete tables of the driver: stdin / stdout / stderr open, the two files get 3 and 4 -/
def t3 : Tab := fun n => n < 3

example : (session .code { forkOpens := true, writeOk := false } t3 3 4).tab = t3 ∧ (session .code { forkOpens := true, writeOk := false } t3 3 4).ebadf = 0 :=
  code_rule_releases _ t3 3 4 (by decide) (by decide) (by decide)
example : leaked t3 (session .early { forkOpens := true, writeOk := false } t3 3 4).tab (List.range 16) = 1 := by decide
example : leaked t3 (session .code { forkOpens := false, writeOk := false } t3 3 4).tab (List.range 16) = 0 := by decide

/-- an accepted observation: a failing open reported an error, no descriptor is left, the lowest free number is the old one, no
    close () failed with EBADF, the heap is balanced -/
theorem obsOk_meaning (o : Obs) :
    obsOk o = [] ↔ ((o.openNull = true → o.err ≠ 0 ∧ o.msglen ≠ 0) ∧ o.fds = 0 ∧ o.lowSame = true ∧ o.ebadf = 0 ∧ o.blocks = 0) := by
  unfold obsOk
  cases hn : o.openNull <;> cases hl : o.lowSame <;>
    by_cases h1 : o.err = 0 <;> by_cases h2 : o.msglen = 0 <;> by_cases h3 : o.fds = 0 <;>
    by_cases h4 : o.ebadf = 0 <;> by_cases h5 : o.blocks = 0 <;> simp [h1, h2, h3, h4, h5]

example : obsOk { openNull := true, err := 2, msglen := 39 } = [] := by decide
example : obsOk { openNull := true, err := 2, msglen := 39, fds := 1, lowSame := false, ebadf := 1 } = ["descriptor", "double-close"] := by decide

end Sf.RsrcSwap
