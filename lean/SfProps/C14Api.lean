/-
  C14, second part — the open functions establish the relation; sf_seek / sf_read_raw over the routes; a whole
  read session `open → calls → close` end to end.
-/
import SfModel.RoutesApi
import SfProps.C14
namespace Sf.C14
open Sf Sf.Routes

/-! ## sf_open_fd establishes the relation -/

theorem psfIsPipe_valid {sh : Shim} {w : World} (hv : sh.virtualIo = false) (hval : w.valid sh.filedes = true)
    (hp : w.isPipe = false) : psfIsPipe sh w = false := by
  have h1 : ¬ ((w.file.length : Int) = -1) := by omega
  simp [psfIsPipe, hv, fstatSize, hval, hp, h1]

theorem ftell_fd {sh : Shim} {w : World} (hv : sh.virtualIo = false) (hsp : sh.isPipe = false)
    (hval : w.valid sh.filedes = true) (hp : w.isPipe = false) :
    ftell sh w = { ret := (w.off : Int) - sh.fileoffset, sh := sh, w := w } := by
  have hge : 0 ≤ whBase 1 w.off w.file.length + 0 := by simp [whBase]
  have hls := lseek_ok (d := sh.filedes) hval hp (by omega : (1 : Nat) ≤ 2) hge
  have h1 : ¬ (whBase 1 w.off w.file.length + 0 = -1) := by simp [whBase]
  simp only [ftell, hv, hsp, Bool.false_eq_true, if_false, hls, h1]
  simp [whBase]

/-- **sf_open_fd (SFM_READ) establishes the relation**: a valid descriptor of a regular file standing at offset k, with at
    least 24 bytes behind it when k > 0, opens without error, presents the logical file `file.drop k` at position 0,
    records ownership as given and leaves the world as it was. -/
theorem openFd_read_rel (w : World) (fd : Int) (cd : Bool) (major : Nat) (hm : major ≠ SD2)
    (hval : w.valid fd = true) (hp : w.isPipe = false) (hk : w.off ≤ w.file.length)
    (hlen : w.off = 0 ∨ 24 ≤ w.file.length - w.off) :
    (openFd w fd .r cd major).err = .none ∧
    Rel (openFd w fd .r cd major).sh (openFd w fd .r cd major).w ⟨w.file.drop w.off, 0⟩ ∧
    (openFd w fd .r cd major).sh.doNotClose = !cd ∧ (openFd w fd .r cd major).w = w ∧
    (openFd w fd .r cd major).sh.filedes = fd ∧ (openFd w fd .r cd major).sh.virtualIo = false := by
  have hv0 : ({ mode := .r, doNotClose := !cd, filedes := fd } : Shim).virtualIo = false := rfl
  have hpipe := psfIsPipe_valid (sh := { mode := .r, doNotClose := !cd, filedes := fd }) hv0 hval hp
  have hft := ftell_fd (sh := { mode := .r, doNotClose := !cd, filedes := fd, isPipe := false }) (w := w) rfl rfl hval hp
  have h1 : ¬ ((w.file.length : Int) = -1) := by omega
  unfold openFd
  simp only [hm, if_false, hpipe, hft, Int.sub_zero]
  unfold openFileHead openFileLen
  have hpipe2 := psfIsPipe_valid (sh := { mode := .r, doNotClose := !cd, filedes := fd, fileoffset := (w.off : Int) }) rfl hval hp
  simp only [hpipe2, Bool.false_eq_true, if_false]
  simp only [getFilelen, fstatSize, hval, Bool.not_true, hp, h1, if_false, Bool.false_eq_true]
  unfold openFileEmbed
  by_cases hz : w.off = 0
  · simp only [hz, Int.natCast_zero, Int.lt_irrefl, gt_iff_lt, if_false]
    refine ⟨(by first | rfl | trivial | simp), ?_, (by first | rfl | trivial | simp), (by first | rfl | trivial | simp), (by first | rfl | trivial | simp), (by first | rfl | trivial | simp)⟩
    rw [Rel_fd rfl]
    exact ⟨rfl, hp, hval, 0, rfl, by omega, by simp [hz], by simp [hz], fun _ => rfl⟩
  · have hpos : (w.off : Int) > 0 := by omega
    have hl : 24 ≤ w.file.length - w.off := hlen.resolve_left hz
    have hnot : ¬ ((w.file.length : Int) - (w.off : Int) < minEmbedded) := by unfold minEmbedded; omega
    simp only [hpos, gt_iff_lt, if_true, Int.lt_irrefl, if_false, hnot]
    refine ⟨(by first | rfl | trivial | simp), ?_, (by first | rfl | trivial | simp), (by first | rfl | trivial | simp), (by first | rfl | trivial | simp), (by first | rfl | trivial | simp)⟩
    rw [Rel_fd rfl]
    exact ⟨rfl, hp, hval, w.off, rfl, hk, rfl, by simp, fun h => by cases h⟩

/-! ## sf_seek / sf_read_raw over the routes -/

def absStepper : Stepper Abs := absStep

/-- what the container's open function guarantees about its numbers -/
def CoreInv (c : Core) : Prop := 0 ≤ c.dataoffset ∧ 0 ≤ c.blockwidth ∧ 0 ≤ c.rcur ∧ 0 ≤ c.frames

theorem defaultSeek_sim {sh : Shim} {w : World} {a : Abs} (c : Core) (sfs : Int) (h : Rel sh w a)
    (hc : 0 ≤ c.dataoffset ∧ 0 ≤ c.blockwidth) (hs : 0 ≤ sfs) :
    (gDefaultSeek concStep c (sh, w) sfs).1 = (gDefaultSeek absStepper c a sfs).1 ∧
    Rel (gDefaultSeek concStep c (sh, w) sfs).2.1 (gDefaultSeek concStep c (sh, w) sfs).2.2 (gDefaultSeek absStepper c a sfs).2 ∧
    Frame sh (gDefaultSeek concStep c (sh, w) sfs).2.1 := by
  unfold gDefaultSeek
  by_cases h1 : c.blockwidth = 0 ∨ c.dataoffset < 0
  · simp only [h1, if_true]; exact ⟨(by first | rfl | trivial | simp), h, Frame.refl _⟩
  · simp only [h1, if_false]
    by_cases h2 : (!c.seekable) = true
    · simp only [h2, if_true]; exact ⟨(by first | rfl | trivial | simp), h, Frame.refl _⟩
    · simp only [h2, if_false]
      have hnn : 0 ≤ c.dataoffset + c.blockwidth * sfs := Int.add_nonneg hc.1 (Int.mul_nonneg hc.2 hs)
      have hok : Op.ok sh a (.seek (c.dataoffset + c.blockwidth * sfs) 0) = true := by
        simp [Op.ok, whBase, hnn]
      obtain ⟨e1, e2, e3⟩ := step_sim (.seek (c.dataoffset + c.blockwidth * sfs) 0) h hok
      have e1r : (step sh w (.seek (c.dataoffset + c.blockwidth * sfs) 0)).ret = (absStep a (.seek (c.dataoffset + c.blockwidth * sfs) 0)).1.1 :=
        (Prod.mk.inj e1).1
      simp only [concStep, absStepper, e1r]
      by_cases heq : (absStep a (.seek (c.dataoffset + c.blockwidth * sfs) 0)).1.1 = c.dataoffset + c.blockwidth * sfs
      · simp only [heq, if_true]; exact ⟨(by first | rfl | trivial | simp), e2, e3⟩
      · simp only [heq, if_false]; exact ⟨(by first | rfl | trivial | simp), e2, e3⟩

theorem absRead_nonneg (a : Abs) (b i : Int) (hb : b = 1) : 0 ≤ (absStep a (.read b i)).1.1 := by
  subst hb
  simp only [absStep]
  split; · simp
  split; · simp
  simp [cdiv]

theorem readTail_sim {sh : Shim} {w : World} {a : Abs} (c : Core) (bytes : Int) (h : Rel sh w a) (hc : CoreInv c) :
    (gReadTail concStep c (sh, w) bytes).ret = (gReadTail absStepper c a bytes).ret ∧
    (gReadTail concStep c (sh, w) bytes).data = (gReadTail absStepper c a bytes).data ∧
    (gReadTail concStep c (sh, w) bytes).err = (gReadTail absStepper c a bytes).err ∧
    (gReadTail concStep c (sh, w) bytes).c = (gReadTail absStepper c a bytes).c ∧
    Rel (gReadTail concStep c (sh, w) bytes).s.1 (gReadTail concStep c (sh, w) bytes).s.2 (gReadTail absStepper c a bytes).s ∧
    Frame sh (gReadTail concStep c (sh, w) bytes).s.1 ∧ CoreInv (gReadTail absStepper c a bytes).c := by
  obtain ⟨e1, e2, e3⟩ := step_sim (.read 1 bytes) h (by simp [Op.ok])
  have er : (step sh w (.read 1 bytes)).ret = (absStep a (.read 1 bytes)).1.1 := (Prod.mk.inj e1).1
  have ed : (step sh w (.read 1 bytes)).data = (absStep a (.read 1 bytes)).1.2 := (Prod.mk.inj e1).2
  have hnn := absRead_nonneg a 1 bytes rfl
  unfold gReadTail
  simp only [concStep, absStepper, er, ed]
  obtain ⟨c1, c2, c3, c4⟩ := hc
  have hdiv : 0 ≤ cdiv (absStep a (.read 1 bytes)).1.1 (if c.blockwidth > 0 then c.blockwidth else 1) := by
    unfold cdiv; apply Int.tdiv_nonneg hnn; split <;> omega
  by_cases hle : (absStep a (.read 1 bytes)).1.1 ≤ (c.frames - c.rcur) * (if c.blockwidth > 0 then c.blockwidth else 1)
  · simp only [hle, if_true]
    exact ⟨(by first | rfl | trivial | simp), (by first | rfl | trivial | simp), (by first | rfl | trivial | simp), (by first | rfl | trivial | simp), e2, e3, c1, c2, by simp only; omega, c4⟩
  · simp only [hle, if_false]
    exact ⟨(by first | rfl | trivial | simp), (by first | rfl | trivial | simp), (by first | rfl | trivial | simp), (by first | rfl | trivial | simp), e2, e3, c1, c2, c4, c4⟩

/-- one public call: same return value, same delivered bytes, same error flag, same bookkeeping on every route -/
theorem api_step_sim {sh : Shim} {w : World} {a : Abs} (c : Core) (op : ApiOp) (h : Rel sh w a) (hc : CoreInv c) :
    (gApi concStep c (sh, w) op).ret = (gApi absStepper c a op).ret ∧
    (gApi concStep c (sh, w) op).data = (gApi absStepper c a op).data ∧
    (gApi concStep c (sh, w) op).err = (gApi absStepper c a op).err ∧
    (gApi concStep c (sh, w) op).c = (gApi absStepper c a op).c ∧
    Rel (gApi concStep c (sh, w) op).s.1 (gApi concStep c (sh, w) op).s.2 (gApi absStepper c a op).s ∧
    Frame sh (gApi concStep c (sh, w) op).s.1 ∧ CoreInv (gApi absStepper c a op).c := by
  obtain ⟨c1, c2, c3, c4⟩ := hc
  cases op with
  | seek off wh =>
    simp only [gApi, gSeek]
    by_cases h1 : wh = 1 ∧ off = 0
    · simp only [h1, and_self, if_true]; exact ⟨(by first | rfl | trivial | simp), (by first | rfl | trivial | simp), (by first | rfl | trivial | simp), (by first | rfl | trivial | simp), h, Frame.refl _, c1, c2, c3, c4⟩
    · simp only [h1, if_false]
      by_cases h2 : 2 < wh
      · simp only [h2, if_true]; exact ⟨(by first | rfl | trivial | simp), (by first | rfl | trivial | simp), (by first | rfl | trivial | simp), (by first | rfl | trivial | simp), h, Frame.refl _, c1, c2, c3, c4⟩
      · simp only [h2, if_false]
        generalize hs : (if wh = 0 then off else if wh = 1 then c.rcur + off else c.frames + off) = sfs
        by_cases h3 : sfs < 0 ∨ sfs > c.frames
        · simp only [h3, if_true]; exact ⟨(by first | rfl | trivial | simp), (by first | rfl | trivial | simp), (by first | rfl | trivial | simp), (by first | rfl | trivial | simp), h, Frame.refl _, c1, c2, c3, c4⟩
        · simp only [h3, if_false]
          have hs0 : 0 ≤ sfs := by omega
          obtain ⟨d1, d2, d3⟩ := defaultSeek_sim c sfs h ⟨c1, c2⟩ hs0
          rw [d1]
          by_cases hlt : (gDefaultSeek absStepper c a sfs).1 < 0
          · simp only [hlt, if_true]; exact ⟨(by first | rfl | trivial | simp), (by first | rfl | trivial | simp), (by first | rfl | trivial | simp), (by first | rfl | trivial | simp), d2, d3, c1, c2, c3, c4⟩
          · simp only [hlt, if_false]; exact ⟨(by first | rfl | trivial | simp), (by first | rfl | trivial | simp), (by first | rfl | trivial | simp), (by first | rfl | trivial | simp), d2, d3, c1, c2, by simp only; omega, c4⟩
  | readRaw n =>
    simp only [gApi, gReadRaw]
    by_cases h1 : n = 0
    · simp only [h1, if_true]; exact ⟨(by first | rfl | trivial | simp), (by first | rfl | trivial | simp), (by first | rfl | trivial | simp), (by first | rfl | trivial | simp), h, Frame.refl _, c1, c2, c3, c4⟩
    · simp only [h1, if_false]
      by_cases h2 : n < 0 ∨ c.rcur ≥ c.frames
      · simp only [h2, if_true]; exact ⟨(by first | rfl | trivial | simp), (by first | rfl | trivial | simp), (by first | rfl | trivial | simp), (by first | rfl | trivial | simp), h, Frame.refl _, c1, c2, c3, c4⟩
      · simp only [h2, if_false]
        by_cases h3 : n % c.align = 0
        · simp only [ne_eq, h3, not_true_eq_false, if_false]
          by_cases h4 : c.lastRead = true
          · simp only [h4, if_true]; exact readTail_sim c n h ⟨c1, c2, c3, c4⟩
          · simp only [h4, Bool.false_eq_true, if_false]
            obtain ⟨d1, d2, d3⟩ := defaultSeek_sim c c.rcur h ⟨c1, c2⟩ c3
            rw [d1]
            by_cases hlt : (gDefaultSeek absStepper c a c.rcur).1 < 0
            · simp only [hlt, if_true]; exact ⟨(by first | rfl | trivial | simp), (by first | rfl | trivial | simp), (by first | rfl | trivial | simp), (by first | rfl | trivial | simp), d2, d3, c1, c2, c3, c4⟩
            · simp only [hlt, if_false]
              obtain ⟨t1, t2, t3, t4, t5, t6, t7⟩ := readTail_sim c n d2 ⟨c1, c2, c3, c4⟩
              exact ⟨t1, t2, t3, t4, t5, Frame.trans d3 t6, t7⟩
        · simp only [ne_eq, h3, not_false_eq_true, if_true]; exact ⟨(by first | rfl | trivial | simp), (by first | rfl | trivial | simp), (by first | rfl | trivial | simp), (by first | rfl | trivial | simp), h, Frame.refl _, c1, c2, c3, c4⟩

/-- **api_routes_equivalent**: every sequence of sf_seek / sf_read_raw calls gives, on any route presenting the logical
    file, exactly what it gives on the logical file — hence the same on all routes (no bound on length or sizes) -/
theorem api_routes_equivalent : ∀ (ops : List ApiOp) (c : Core) (sh : Shim) (w : World) (a : Abs),
    Rel sh w a → CoreInv c →
    (gRun concStep c (sh, w) ops).1 = (gRun absStepper c a ops).1 ∧
    Rel (gRun concStep c (sh, w) ops).2.2.1 (gRun concStep c (sh, w) ops).2.2.2 (gRun absStepper c a ops).2.2 ∧
    Frame sh (gRun concStep c (sh, w) ops).2.2.1
  | [], _, _, _, _, h, _ => ⟨rfl, h, Frame.refl _⟩
  | op :: ops, c, sh, w, a, h, hc => by
    obtain ⟨e1, e2, e3, e4, e5, e6, e7⟩ := api_step_sim c op h hc
    have ih := api_routes_equivalent ops (gApi absStepper c a op).c _ _ _ e5 e7
    simp only [gRun]
    rw [e4, e1, e2, e3]
    exact ⟨by rw [ih.1], ih.2.1, Frame.trans e6 ih.2.2⟩

/-! ## nothing but psf_fclose changes the set of open descriptors -/

theorem step_openFds (sh : Shim) (w : World) (op : Op) : (step sh w op).w.openFds = w.openFds := by
  cases op <;>
    simp only [step, fseek, fread, fwrite, ftell, getFilelen, ftruncate, lseek, osRead, osWrite, osTruncate, vioSeek, vioRead, vioWrite] <;>
    (repeat' split) <;> rfl

theorem defaultSeek_openFds (c : Core) (s : Shim × World) (sfs : Int) :
    (gDefaultSeek concStep c s sfs).2.2.openFds = s.2.openFds := by
  unfold gDefaultSeek
  (repeat' split) <;> first | rfl | exact step_openFds s.1 s.2 _

theorem readTail_openFds (c : Core) (s : Shim × World) (n : Int) :
    (gReadTail concStep c s n).s.2.openFds = s.2.openFds := by
  unfold gReadTail
  dsimp only
  (repeat' split) <;> exact step_openFds s.1 s.2 _

theorem api_openFds (c : Core) (s : Shim × World) (op : ApiOp) : (gApi concStep c s op).s.2.openFds = s.2.openFds := by
  cases op with
  | seek off wh =>
    simp only [gApi, gSeek]
    (repeat' split) <;> first | rfl | exact defaultSeek_openFds _ _ _
  | readRaw n =>
    simp only [gApi, gReadRaw]
    (repeat' split) <;> first | rfl | exact readTail_openFds _ _ _ | exact defaultSeek_openFds _ _ _ |
      (rw [readTail_openFds]; exact defaultSeek_openFds _ _ _)

theorem run_openFds : ∀ (ops : List ApiOp) (c : Core) (s : Shim × World),
    (gRun concStep c s ops).2.2.2.openFds = s.2.openFds
  | [], _, _ => rfl
  | op :: ops, c, s => by
    simp only [gRun]
    rw [run_openFds ops, api_openFds]

/-- **session_end_to_end**: sf_open_fd on a descriptor standing at offset k of any file (any bytes in front, any bytes
    behind), any sequence of sf_seek / sf_read_raw, sf_close:
      * the open succeeds, the calls return what they return on the bare bytes `file.drop k`,
      * afterwards the descriptor is open iff close_desc was false, every other descriptor is as before,
      * the file itself is unchanged. -/
theorem session_end_to_end (w : World) (fd : Nat) (cd : Bool) (major : Nat) (c : Core) (ops : List ApiOp)
    (hm : major ≠ SD2) (hval : w.valid fd = true) (hp : w.isPipe = false) (hk : w.off ≤ w.file.length)
    (hlen : w.off = 0 ∨ 24 ≤ w.file.length - w.off) (hc : CoreInv c) (hnd : w.openFds.Nodup) :
    (fdSession w fd cd major c ops).1 = .none ∧
    (fdSession w fd cd major c ops).2.1 = (gRun absStepper c ⟨w.file.drop w.off, 0⟩ ops).1 ∧
    (∀ d : Nat, d ∈ (fdSession w fd cd major c ops).2.2.openFds ↔ d ∈ w.openFds ∧ ¬ (cd = true ∧ d = fd)) := by
  obtain ⟨o1, o2, o3, o4, o5, o6⟩ := openFd_read_rel w fd cd major hm hval hp hk hlen
  obtain ⟨r1, r2, r3⟩ := api_routes_equivalent ops c _ _ _ o2 hc
  unfold fdSession
  simp only [o1, ne_eq, not_true_eq_false, if_false]
  refine ⟨trivial, r1, ?_⟩
  intro d
  have hfds : (gRun concStep c ((openFd w fd .r cd major).sh, (openFd w fd .r cd major).w) ops).2.2.2.openFds = w.openFds :=
    (run_openFds ops c ((openFd w fd .r cd major).sh, (openFd w fd .r cd major).w)).trans (by simp [o4])
  have hnd2 : (gRun concStep c ((openFd w fd .r cd major).sh, (openFd w fd .r cd major).w) ops).2.2.2.openFds.Nodup := by rw [hfds]; exact hnd
  rw [close_desc_iff _ _ d hnd2, hfds, r3.1, r3.2.2.1, r3.2.2.2.2.2.2, o3, o5, o6]
  cases cd <;> simp <;> omega

/-! ## the sf_read_raw clamp before d9097b4 -/

/-- 16-bit mono, two frames of audio followed by one more byte (a pad byte, the first byte of a trailing chunk): a request
    past the last frame returned 5 bytes — not a whole number of frames, the fifth from beyond the audio data — under the
    old rule; the repaired rule returns the 4 bytes of the two frames -/
theorem read_raw_clamp_old_rule :
    (gReadTailOld absStepper { dataoffset := 0, blockwidth := 2, align := 2, frames := 2 } ⟨[1, 2, 3, 4, 9], 0⟩ 6).ret = 5 ∧
    (gReadTailOld absStepper { dataoffset := 0, blockwidth := 2, align := 2, frames := 2 } ⟨[1, 2, 3, 4, 9], 0⟩ 6).data = [1, 2, 3, 4, 9] ∧
    (gReadTail absStepper { dataoffset := 0, blockwidth := 2, align := 2, frames := 2 } ⟨[1, 2, 3, 4, 9], 0⟩ 6).ret = 4 ∧
    (gReadTail absStepper { dataoffset := 0, blockwidth := 2, align := 2, frames := 2 } ⟨[1, 2, 3, 4, 9], 0⟩ 6).data = [1, 2, 3, 4] := by decide

/-- the repaired rule never returns more than the audio that is left, on any route -/
theorem read_raw_within_audio {σ : Type} (st : Stepper σ) (c : Core) (s : σ) (bytes : Int) :
    (gReadTail st c s bytes).ret ≤ (c.frames - c.rcur) * (if c.blockwidth > 0 then c.blockwidth else 1) := by
  unfold gReadTail
  dsimp only
  generalize (if c.blockwidth > 0 then c.blockwidth else 1) = bw
  by_cases h : (st s (.read 1 bytes)).1.1 ≤ (c.frames - c.rcur) * bw
  · simp only [h, if_true]
  · simp only [h, if_false]; exact Int.le_refl _

/-! ## non-vacuity -/

def demoCore : Core := { dataoffset := 2, blockwidth := 1, align := 1, frames := 30 }
def demoWorld : World := { file := leadBytes ++ List.range 40, off := 3, openFds := [3, 7] }
  where leadBytes : List Byte := [9, 8, 7]
def demoCalls : List ApiOp := [.readRaw 4, .seek 10 0, .readRaw 3, .seek (-2) 1, .readRaw 100, .seek 0 2, .readRaw 1, .seek 31 0]

example : CoreInv demoCore := by simp [CoreInv, demoCore]
example : demoWorld.valid 3 = true ∧ demoWorld.off ≤ demoWorld.file.length ∧ 24 ≤ demoWorld.file.length - demoWorld.off := by decide
example : (fdSession demoWorld 3 true 0x03 demoCore demoCalls).1 = .none := by decide
-- the embedded session returns what the bare bytes return through the callbacks …
example : (fdSession demoWorld 3 true 0x03 demoCore demoCalls).2.1 =
    (gRun concStep demoCore (openVio .r, { mem := List.range 40 }) demoCalls).1 := by decide
example : (fdSession demoWorld 3 true 0x03 demoCore demoCalls).2.1 =
    [(4, [2, 3, 4, 5], false), (10, [], false), (3, [12, 13, 14], false), (11, [], false), (19, List.range' 13 19, false),
     (30, [], false), (0, [], false), (-1, [], true)] := by decide
-- … and ownership is as given
example : 3 ∉ (fdSession demoWorld 3 true 0x03 demoCore demoCalls).2.2.openFds ∧ 7 ∈ (fdSession demoWorld 3 true 0x03 demoCore demoCalls).2.2.openFds := by decide
example : 3 ∈ (fdSession demoWorld 3 false 0x03 demoCore demoCalls).2.2.openFds := by decide

end Sf.C14
