/-
  C13 ("… without disturbing audio") / C06 (query clause): a chunk query between two reads, for codecs that cannot seek.
  Property theorems only; model lean/SfModel/AbsQuerySeek.lean; campaign vlib/queryfix.py.
-- properties: C06 C13
-/
import SfModel.AbsQuerySeek
namespace Sf.C13QuerySeek
open Sf Sf.AbsQ Sf.AbsQS

/-- FULL STRENGTH: `*_get_chunk_data` as written (save, seek, read, restore) leaves the handle exactly as it was — for EVERY codec,
    including those whose seek function refuses every call: the read after the query is the read without the query -/
theorem restore_needs_no_codec_seek (c : Codec) (h : H) (off len datalen n : Nat) :
    queryRestore h off len datalen = h ∧ readCall c (queryRestore h off len datalen) n = readCall c h n := by
  have : queryRestore h off len datalen = h := by
    simp [queryRestore, runAll, getChunkData, Io.run]
  exact ⟨this, by rw [this]⟩

/-- between reads, a read after the restoring query returns the frames asked for, from the right place -/
theorem read_after_restore (c : Codec) (h : H) (off len datalen n : Nat) (hc : Coherent c h) :
    (readCall c (queryRestore h off len datalen) n).2 = ⟨n, true⟩ := by
  rw [(restore_needs_no_codec_seek c h off len datalen n).2]
  simp [readCall, hc.1, hc.2]

/-- the forgetting variant is indistinguishable wherever the codec can seek to the current frame … -/
theorem forget_rule_same_when_seekable (c : Codec) (h : H) (off len datalen n : Nat) (hc : Coherent c h)
    (hs : c.canSeek h.rpos = true) :
    (readCall c (queryForget h off len datalen) n).2 = (readCall c h n).2 ∧
    (readCall c (queryForget h off len datalen) n).1 = (readCall c h n).1 := by
  obtain ⟨fd, lr, rp, e⟩ := h
  obtain ⟨h1, h2⟩ := hc
  simp only at h1 h2 hs
  subst h1
  simp [readCall, queryForget, hs, h2]

/-- … and loses the audio wherever it cannot: the read after the query returns 0 frames and latches the seek error -/
theorem forget_rule_loses_audio_when_seek_refused (c : Codec) (h : H) (off len datalen n : Nat)
    (hs : c.canSeek h.rpos = false) :
    (readCall c (queryForget h off len datalen) n).2.ret = 0 ∧ (readCall c (queryForget h off len datalen) n).1.err = true ∧
    (readCall c (queryForget h off len datalen) n).1.rpos = h.rpos := by
  simp [readCall, queryForget, hs]

/-- DWVW (rewind only): the forgetting variant works at frame 0 — a query before the first read — and nowhere else -/
theorem dwvw_forget_rule (offsetOf : Nat → Nat) (h : H) (off len datalen n : Nat) :
    (h.rpos = 0 → (readCall (rewindOnly offsetOf) (queryForget h off len datalen) n).2 = ⟨n, true⟩) ∧
    (h.rpos ≠ 0 → (readCall (rewindOnly offsetOf) (queryForget h off len datalen) n).2 = ⟨0, false⟩) := by
  constructor
  · intro h0; simp [readCall, queryForget, rewindOnly, h0]
  · intro h0; simp [readCall, queryForget, rewindOnly, h0]

/-- G.72x / NMS ADPCM (seek always refused): the forgetting variant loses the audio at every position, 0 included -/
theorem never_forget_rule (offsetOf : Nat → Nat) (h : H) (off len datalen n : Nat) :
    (readCall (never offsetOf) (queryForget h off len datalen) n).2 = ⟨0, false⟩ := by
  simp [readCall, queryForget, never]

-- non-vacuity: a handle 7 frames into a file whose decoder continues at byte 54 + 2 k; chunk of 8 bytes at offset 20
example : Coherent (rewindOnly fun k => 54 + 2 * k) ⟨68, true, 7, false⟩ := by simp [Coherent, rewindOnly]
example : (readCall (rewindOnly fun k => 54 + 2 * k) (queryRestore ⟨68, true, 7, false⟩ 20 8 8) 5).2 = ⟨5, true⟩ ∧
    (readCall (rewindOnly fun k => 54 + 2 * k) (queryForget ⟨68, true, 7, false⟩ 20 8 8) 5).2 = ⟨0, false⟩ ∧
    (readCall (anywhere fun k => 54 + 2 * k) (queryForget ⟨68, true, 7, false⟩ 20 8 8) 5).2 = ⟨5, true⟩ := by decide
example : (rewindOnly fun k => 54 + 2 * k).canSeek 7 = false ∧ (anywhere fun k => 54 + 2 * k).canSeek 7 = true := by decide

end Sf.C13QuerySeek
