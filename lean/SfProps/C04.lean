/-
  C04 — a closed file describes exactly what was written into it.  Property theorems only
  (helpers: SfProofs/Container*.lean).  Containers with modelled header bytes: RAW, AU, WAV.

  A *session* is `openHandle … .w` on an empty store, then any list of operations `SOp`
  (write calls of any type and count, SFC_UPDATE_HEADER_NOW, SFC_SET_UPDATE_HEADER_AUTO), then `closeHandle`.
  `SOp.valid` asks of a write call only what the API asks: count ≥ 0, whole frames, and a caller buffer that
  holds the items.  N = `sessFrames` is the number of frames the write calls accepted.
-/
import SfModel.Geometry
import SfProofs.ContainerSnap
namespace Sf.C04
open Sf Sf.Geometry

/-! ### geometry table (all containers, L0) -/

/-- sample-granular encodings have block length 1 in every container (PAF 24-bit, which packs 10 frames per
    block, is the one exception and is named) -/
theorem frames_bound_granular (major codec ch sr : Nat) (hg : codec ∈ sampleGranular) (hpaf : ¬ (major = 0x05 ∧ codec = 0x03)) :
    blockFrames major codec ch sr = 1 := by
  simp [sampleGranular] at hg
  unfold blockFrames IMA MS GSM VOX NMS G72X
  rcases hg with h | h | h | h | h | h | h | h | h | h | h <;> subst h <;> simp_all

/-- no container needs a pad-frame allowance any more (AIFF lost it with the repair of KF-AIFF-ODD-PAD) -/
theorem pad_bound (major codec ch : Nat) : padFrames major codec ch = 0 := rfl

/-- the table before that repair: at most one frame, and zero outside AIFF one-byte encodings -/
theorem pad_bound_old_rule (major codec ch : Nat) : padFramesOld major codec ch ≤ 1 ∧ (major ≠ 0x02 → padFramesOld major codec ch = 0) := by
  unfold padFramesOld; constructor
  · dsimp only; split <;> omega
  · intro h; simp [h]

/-- N ≤ ⌈N⌉_B < N + B: the frame count a block codec may report -/
theorem frames_bound (n b : Nat) (hb : 1 ≤ b) : n ≤ ceilToBlock n b ∧ ceilToBlock n b < n + b := by
  unfold ceilToBlock
  have h1 := Nat.div_add_mod' (n + b - 1) b
  have h2 := Nat.mod_lt (n + b - 1) (show b > 0 by omega)
  constructor <;> omega

/-- B = 1 → F = N -/
theorem frames_bound_one (n : Nat) : ceilToBlock n 1 = n := by simp [ceilToBlock]

/-- ⌊N⌋_B ≤ N < ⌊N⌋_B + B (snapshots of block codecs, C11) -/
theorem floor_bound (n b : Nat) (hb : 1 ≤ b) : floorToBlock n b ≤ n ∧ n < floorToBlock n b + b := by
  unfold floorToBlock
  have h1 := Nat.div_add_mod' n b
  have h2 := Nat.mod_lt n (show b > 0 by omega)
  constructor <;> omega

example : blockFrames 0x01 0x12 2 44100 = 2041 ∧ blockFrames 0x01 0x13 1 8000 = 500 ∧ blockFrames 0x05 0x03 1 8000 = 10 ∧
    blockFrames 0x03 0x02 2 8000 = 1 ∧ ceilToBlock 1000 505 = 1010 := by decide

/-! ### AU -/

/-- AU: for every configuration the model accepts for writing and every valid session, the closed bytes parse
    with the requested channels, rate, codec and byte order, the data starts at 24 and is exactly the encoded
    audio, and a reader of those bytes reports frames = N.  No size guard is needed for these facts: beyond
    2^31 − 1 data bytes the writer stores −1 and the reader falls back to the file length (see the two
    `au_size_field…` theorems for the field itself). -/
theorem au_reopen_info (ix fmt : Nat) (ch sr : Int) (h0 : H) (s0 : Store) (ops : List SOp)
    (hc : containerOf fmt = some .au)
    (ho : openHandle ix {} .w fmt ch sr = .ok h0 s0)
    (hsr : sr ≤ 0x7FFFFFFF)
    (hv : ∀ op ∈ ops, op.valid ch.toNat) :
    let fin := runS (h0, s0) ops
    let bytes := (closeHandle fin.1 fin.2).bytes
    let N := sessFrames ch.toNat ops
    ∃ p c, auParse bytes = .ok p ∧ openCfg fmt ch sr = some c ∧ (p.ch : Int) = ch ∧ p.sr = sr ∧
      p.fmtWord = (if dataBig .au fmt then 0 else 0x10000000) + 0x030000 + codecOf fmt ∧
      p.dataoffset = 24 ∧ bytes.drop 24 = sessData c ops ∧
      ∀ (ix' pos fmt0 : Nat) (ch0 sr0 : Int), containerOf fmt0 ≠ some .raw →
        ∃ h' s', openHandle ix' ⟨bytes, pos⟩ .r fmt0 ch0 sr0 = .ok h' s' ∧ h'.frames = N ∧
          (h'.ch : Int) = ch ∧ h'.sr = sr ∧ h'.fmtWord = p.fmtWord ∧ h'.enc = c.enc := by
  intro fin bytes N
  obtain ⟨c, hcfg, h1, h2, h3, i⟩ := session_inv ops ho hv
  obtain ⟨f1, f2, f3, f4, f5, f6⟩ := openCfg_facts hcfg
  have hcc : c.container = .au := by rw [hc] at f1; exact (Option.some.inj f1).symm
  rw [hcc] at f5 f6
  have hb : bytes = snapImage c (c.init.run c ops) := by
    show (closeHandle _ _).bytes = _
    rw [close_bytes i]; simp [closedImage, hcc]
  obtain ⟨p, hp, p1, p2, p3, _, p5, p6, p7⟩ :=
    au_image_reopen c (c.init.run c ops) hcc (by rw [f2]; exact encOf_au_codecs f6) (by omega) (by omega)
      (by rw [f2]; exact f6) i.dlen
  rw [← hb] at hp p6 p7
  refine ⟨p, c, hp, hcfg, by rw [p1, f4]; omega, by rw [p2, f3], by rw [p3, f5, f2], p5, ?_, ?_⟩
  · rw [p6, run_data]; simp [Cfg.init]
  · intro ix' pos fmt0 ch0 sr0 hraw
    obtain ⟨h', s', q1, q2, q3, q4, q5, q6, _⟩ := p7 ix' pos fmt0 ch0 sr0 hraw
    refine ⟨h', s', q1, ?_, by rw [q3, f4]; omega, by rw [q4, f3], q5, q6⟩
    rw [q2, run_frames, f4]; simp [Cfg.init, N]

/-- a concrete AU session (stereo 16-bit, a frame call, a header update, an item call): it opens, its calls are
    valid, it closes to these 36 bytes, and a reader finds 3 frames -/
def exOps : List SOp := [.write ⟨.s16, true, 2, [1, -2, 3, -4]⟩, .update, .write ⟨.s16, false, 2, [5, 6]⟩]
def exAu : List Byte :=
  [46,115,110,100, 0,0,0,24, 0,0,0,12, 0,0,0,3, 0,0,172,68, 0,0,0,2, 0,1,255,254,0,3,255,252,0,5,0,6]
example : ∃ h0 s0, openHandle 0 {} .w 0x030002 2 44100 = .ok h0 s0 := OpenRes.exists_of_isOk (by decide)
example : (∀ op ∈ exOps, op.valid (2 : Int).toNat) ∧ sessFrames 2 exOps = 3 := by decide
example : sessionBytes 0 0x030002 2 44100 exOps = some exAu ∧ reopenFrames exAu = some 3 := by decide

/-- the AU data-size field of the closed file holds the data length while that is ≤ 2^31 − 1 … -/
theorem au_size_field (ix fmt : Nat) (ch sr : Int) (h0 : H) (s0 : Store) (ops : List SOp)
    (hc : containerOf fmt = some .au) (ho : openHandle ix {} .w fmt ch sr = .ok h0 s0)
    (hv : ∀ op ∈ ops, op.valid ch.toNat) (c : Cfg) (hcfg : openCfg fmt ch sr = some c)
    (hsize : sessFrames ch.toNat ops * c.bw ≤ 0x7FFFFFFF) :
    let fin := runS (h0, s0) ops
    rd32 (dataBig .au fmt) (closeHandle fin.1 fin.2).bytes 8 = sessFrames ch.toNat ops * c.bw := by
  intro fin
  obtain ⟨c', hcfg', _, _, _, i⟩ := session_inv ops ho hv
  rw [hcfg] at hcfg'; cases hcfg'
  obtain ⟨f1, f2, f3, f4, f5, f6⟩ := openCfg_facts hcfg
  have hcc : c.container = .au := by rw [hc] at f1; exact (Option.some.inj f1).symm
  have hN : (c.init.run c ops).frames = sessFrames ch.toNat ops := by rw [run_frames, f4]; simp [Cfg.init]
  show rd32 _ (closeHandle _ _).bytes 8 = _
  rw [close_bytes i]; simp only [closedImage, hcc]
  rw [← hcc, ← f5, au_size_field_image c _ hcc, i.dlen, hN]
  have : ¬ ((sessFrames ch.toNat ops * c.bw : Nat) : Int) > 0x7FFFFFFF := by omega
  simp only [this, if_false]
  have := wrapU_of_range 32 ((sessFrames ch.toNat ops * c.bw : Nat) : Int) (by omega) (by omega)
  omega

/-- … and −1 (0xFFFFFFFF) beyond: `au_reopen_info` shows the reader still reports frames = N -/
theorem au_size_field_overlimit (ix fmt : Nat) (ch sr : Int) (h0 : H) (s0 : Store) (ops : List SOp)
    (hc : containerOf fmt = some .au) (ho : openHandle ix {} .w fmt ch sr = .ok h0 s0)
    (hv : ∀ op ∈ ops, op.valid ch.toNat) (c : Cfg) (hcfg : openCfg fmt ch sr = some c)
    (hsize : sessFrames ch.toNat ops * c.bw > 0x7FFFFFFF) :
    let fin := runS (h0, s0) ops
    rd32 (dataBig .au fmt) (closeHandle fin.1 fin.2).bytes 8 = 0xFFFFFFFF := by
  intro fin
  obtain ⟨c', hcfg', _, _, _, i⟩ := session_inv ops ho hv
  rw [hcfg] at hcfg'; cases hcfg'
  obtain ⟨f1, f2, f3, f4, f5, f6⟩ := openCfg_facts hcfg
  have hcc : c.container = .au := by rw [hc] at f1; exact (Option.some.inj f1).symm
  have hN : (c.init.run c ops).frames = sessFrames ch.toNat ops := by rw [run_frames, f4]; simp [Cfg.init]
  show rd32 _ (closeHandle _ _).bytes 8 = _
  rw [close_bytes i]; simp only [closedImage, hcc]
  rw [← hcc, ← f5, au_size_field_image c _ hcc, i.dlen, hN]
  have : ((sessFrames ch.toNat ops * c.bw : Nat) : Int) > 0x7FFFFFFF := by omega
  simp only [this, if_true]; decide

/-! ### WAV -/

/-- WAV (PCM_U8/16/24/32, FLOAT, DOUBLE, ULAW, ALAW; RIFF and RIFX; with the fact chunk, the PEAK chunk of
    float/double files and the pad byte after an odd-length data chunk): under the RIFF guard
    (total length < 2^32) the closed bytes parse with the requested channels, rate, codec and byte order; the
    data starts right after the header and is exactly the encoded audio followed by at most one pad byte;
    and a reader reports frames = N (the pad byte never becomes a frame: `initFrames` uses `dataend`). -/
theorem wav_reopen_info (ix fmt : Nat) (ch sr : Int) (h0 : H) (s0 : Store) (ops : List SOp)
    (hc : containerOf fmt = some .wav)
    (ho : openHandle ix {} .w fmt ch sr = .ok h0 s0)
    (hsr : sr ≤ 0x7FFFFFFF)
    (hv : ∀ op ∈ ops, op.valid ch.toNat)
    (hguard : (closeHandle (runS (h0, s0) ops).1 (runS (h0, s0) ops).2).bytes.length < 2 ^ 32) :
    let fin := runS (h0, s0) ops
    let bytes := (closeHandle fin.1 fin.2).bytes
    let N := sessFrames ch.toNat ops
    ∃ p c pad, wavParse bytes = .ok p ∧ openCfg fmt ch sr = some c ∧ (p.ch : Int) = ch ∧ p.sr = sr ∧
      p.fmtWord = (if dataBig .wav fmt then 0x20000000 else 0) + 0x010000 + codecOf fmt ∧
      p.dataoffset = c.hdrLen ∧ bytes.drop c.hdrLen = sessData c ops ++ pad ∧ pad.length ≤ 1 ∧ bytes.length % 2 = 0 ∧
      ∀ (ix' pos fmt0 : Nat) (ch0 sr0 : Int), containerOf fmt0 ≠ some .raw →
        ∃ h' s', openHandle ix' ⟨bytes, pos⟩ .r fmt0 ch0 sr0 = .ok h' s' ∧ h'.frames = N ∧
          (h'.ch : Int) = ch ∧ h'.sr = sr ∧ h'.fmtWord = p.fmtWord ∧ h'.enc = c.enc := by
  intro fin bytes N
  obtain ⟨c, hcfg, h1, h2, h3, i⟩ := session_inv ops ho hv
  obtain ⟨f1, f2, f3, f4, f5, f6⟩ := openCfg_facts hcfg
  have hcc : c.container = .wav := by rw [hc] at f1; exact (Option.some.inj f1).symm
  rw [hcc] at f5 f6
  have hb : bytes = hdrBytes c (c.init.run c ops)
      ((c.hdrLen + (c.init.run c ops).data.length + (wavPad_ct c (c.init.run c ops)).length : Nat) : Int)
      ((c.init.run c ops).data.length : Int) ++ (c.init.run c ops).data ++ wavPad_ct c (c.init.run c ops) := by
    show (closeHandle _ _).bytes = _
    rw [close_bytes i]; simp [closedImage, hcc]
  have hpadl : (wavPad_ct c (c.init.run c ops)).length ≤ 1 := by unfold wavPad_ct; split <;> simp
  have hlen : bytes.length = c.hdrLen + (c.init.run c ops).data.length + (wavPad_ct c (c.init.run c ops)).length := by
    rw [hb]; simp [hdrBytes_length c _ _ _ i.pkSome i.pkLen]; omega
  have hg : (c.init.run c ops).data.length < 0xFFFFFFFF := by
    have : bytes.length < 2 ^ 32 := hguard
    have hL : 0 < c.hdrLen := by simp [Cfg.hdrLen, hcc, wavHdrLen_ct]
    omega
  obtain ⟨p, hp, p1, p2, p3, _, p5, p6, p7⟩ :=
    wav_image_reopen c (c.init.run c ops) _ (wavPad_ct c (c.init.run c ops)) hcc (by omega) (by omega)
      (by rw [f2]; exact f6) i.dlen i.pkLen i.pkSome hg hpadl
  rw [← hb] at hp p6 p7
  refine ⟨p, c, wavPad_ct c (c.init.run c ops), hp, hcfg, by rw [p1, f4]; omega, by rw [p2, f3], by rw [p3, f5, f2], p5, ?_,
    hpadl, ?_, ?_⟩
  · rw [p6, run_data]; simp [Cfg.init]
  · rw [hlen]; unfold wavPad_ct; split <;> simp <;> omega
  · intro ix' pos fmt0 ch0 sr0 hraw
    obtain ⟨h', s', q1, q2, q3, q4, q5, q6, _⟩ := p7 ix' pos fmt0 ch0 sr0 hraw
    refine ⟨h', s', q1, ?_, by rw [q3, f4]; omega, by rw [q4, f3], q5, q6⟩
    rw [q2, run_frames, f4]; simp [Cfg.init, N]

/-- the RIFF length field and the data-chunk size field of the closed file: the true values, clamped to
    0xFFFFFFFF — this one statement covers the guarded case (fields exact) and the over-limit branch
    (`wav_large_file_clamps` of the design: the fields saturate, and the 32-bit container can no longer
    describe the audio, which is why `wav_reopen_info` carries the guard) -/
theorem wav_size_fields_closed (ix fmt : Nat) (ch sr : Int) (h0 : H) (s0 : Store) (ops : List SOp)
    (hc : containerOf fmt = some .wav) (ho : openHandle ix {} .w fmt ch sr = .ok h0 s0)
    (hv : ∀ op ∈ ops, op.valid ch.toNat) (c : Cfg) (hcfg : openCfg fmt ch sr = some c) :
    let fin := runS (h0, s0) ops
    let bytes := (closeHandle fin.1 fin.2).bytes
    let D := sessFrames ch.toNat ops * c.bw
    rd32 (dataBig .wav fmt) bytes 4 = (if bytes.length - 8 < 0xFFFFFFFF then bytes.length - 8 else 0xFFFFFFFF) ∧
    rd32 (dataBig .wav fmt) bytes (c.hdrLen - 4) = (if D < 0xFFFFFFFF then D else 0xFFFFFFFF) := by
  intro fin bytes D
  obtain ⟨c', hcfg', _, _, _, i⟩ := session_inv ops ho hv
  rw [hcfg] at hcfg'; cases hcfg'
  obtain ⟨f1, f2, f3, f4, f5, f6⟩ := openCfg_facts hcfg
  have hcc : c.container = .wav := by rw [hc] at f1; exact (Option.some.inj f1).symm
  have hN : (c.init.run c ops).frames = sessFrames ch.toNat ops := by rw [run_frames, f4]; simp [Cfg.init]
  have hb : bytes = hdrBytes c (c.init.run c ops)
      ((c.hdrLen + (c.init.run c ops).data.length + (wavPad_ct c (c.init.run c ops)).length : Nat) : Int)
      ((c.init.run c ops).data.length : Int) ++ ((c.init.run c ops).data ++ wavPad_ct c (c.init.run c ops)) := by
    show (closeHandle _ _).bytes = _
    rw [close_bytes i]; simp [closedImage, hcc]
  have hlen : bytes.length = c.hdrLen + (c.init.run c ops).data.length + (wavPad_ct c (c.init.run c ops)).length := by
    rw [hb]; simp [hdrBytes_length c _ _ _ i.pkSome i.pkLen]; omega
  have hL : 44 ≤ c.hdrLen := by simp [Cfg.hdrLen, hcc, wavHdrLen_ct, wavFmtLen]; split <;> omega
  have hD : (c.init.run c ops).data.length = D := by rw [i.dlen, hN]
  obtain ⟨r1, r2⟩ := wav_size_fields c (c.init.run c ops) _ _ _ hcc i.pkLen i.pkSome
  rw [← hb, ← hcc, ← f5] at *
  rw [r1, r2, ← hlen, hD]
  constructor
  · have hne : ¬ ((bytes.length : Int) < 8) := by omega
    simp only [hne, if_false]
    by_cases hlt : bytes.length - 8 < 0xFFFFFFFF
    · have : (bytes.length : Int) - 8 < 0xFFFFFFFF := by omega
      simp only [this, hlt, if_true]
      have := wrapU_of_range 32 ((bytes.length : Int) - 8) (by omega) (by omega); omega
    · have : ¬ (bytes.length : Int) - 8 < 0xFFFFFFFF := by omega
      simp only [this, hlt, if_false]; decide
  · by_cases hlt : D < 0xFFFFFFFF
    · have : (D : Int) < 0xFFFFFFFF := by omega
      simp only [this, hlt, if_true]
      have := wrapU_of_range 32 (D : Int) (by omega) (by omega); omega
    · have : ¬ (D : Int) < 0xFFFFFFFF := by omega
      simp only [this, hlt, if_false]; decide

/-- a float WAV session (fact + PEAK chunks) and an odd-length µ-law session (fact chunk + pad byte) -/
def exF : List SOp := [.write ⟨.f32, true, 1, [0x3F000000]⟩, .write ⟨.s16, true, 1, [16384]⟩]
def exU : List SOp := [.write ⟨.s16, true, 3, [0, 1000, -1000]⟩]
example : (openHandle 0 {} .w 0x010006 1 8000).isOk_ct = true ∧ (∀ op ∈ exF, op.valid 1) ∧
    (sessionBytes 0 0x010006 1 8000 exF).map List.length = some 88 ∧
    (sessionBytes 0 0x010006 1 8000 exF).bind (reopenFrames ·) = some 2 := by decide +kernel
example : (openHandle 0 {} .w 0x010010 1 8000).isOk_ct = true ∧ (∀ op ∈ exU, op.valid 1) ∧
    (sessionBytes 0 0x010010 1 8000 exU).map List.length = some 62 ∧
    (sessionBytes 0 0x010010 1 8000 exU).bind (reopenFrames ·) = some 3 := by decide

/-! ### RAW -/

/-- RAW: a reader of any bytes reports frames = byte length / block width -/
theorem raw_reopen_frames (ix : Nat) (bs : List Byte) (pos fmt : Nat) (ch sr : Int) (enc : Enc)
    (hc : containerOf fmt = some .raw) (hch : 1 ≤ ch ∧ ch ≤ 1024) (hsr : 1 ≤ sr)
    (he : encOf .raw (codecOf fmt) (dataBig .raw fmt) = some enc) :
    ∃ h s', openHandle ix ⟨bs, pos⟩ .r fmt ch sr = .ok h s' ∧
      h.frames = ((bs.length / (enc.nbytes * ch.toNat) : Nat) : Int) ∧ (h.ch : Int) = ch ∧ h.sr = sr := by
  obtain ⟨h, s', h1, h2, h3, h4, _⟩ := openHandle_raw_r ix bs pos fmt ch sr enc hc hch hsr he
  exact ⟨h, s', h1, h2, h3, h4⟩

/-- RAW: the closed file of a session is exactly the encoded audio, and re-opening it with the same parameters
    reports frames = N -/
theorem raw_reopen_info (ix fmt : Nat) (ch sr : Int) (h0 : H) (s0 : Store) (ops : List SOp)
    (hc : containerOf fmt = some .raw) (ho : openHandle ix {} .w fmt ch sr = .ok h0 s0)
    (hv : ∀ op ∈ ops, op.valid ch.toNat) :
    let fin := runS (h0, s0) ops
    let bytes := (closeHandle fin.1 fin.2).bytes
    ∃ c, openCfg fmt ch sr = some c ∧ bytes = sessData c ops ∧
      ∀ ix' pos, ∃ h' s', openHandle ix' ⟨bytes, pos⟩ .r fmt ch sr = .ok h' s' ∧ h'.frames = sessFrames ch.toNat ops := by
  intro fin bytes
  obtain ⟨c, hcfg, h1, h2, h3, i⟩ := session_inv ops ho hv
  obtain ⟨f1, f2, f3, f4, f5, f6⟩ := openCfg_facts hcfg
  have hcc : c.container = .raw := by rw [hc] at f1; exact (Option.some.inj f1).symm
  rw [hcc] at f5 f6
  have hb : bytes = (c.init.run c ops).data := by
    show (closeHandle _ _).bytes = _
    rw [close_bytes i]; simp [closedImage, hcc, snapImage, hdrBytes]
  refine ⟨c, hcfg, by rw [hb, run_data]; simp [Cfg.init], ?_⟩
  intro ix' pos
  obtain ⟨h', s', q1, q2, _⟩ := openHandle_raw_r ix' bytes pos fmt ch sr c.enc hc ⟨h1, h2⟩ h3 (by rw [← f5]; exact f6)
  refine ⟨h', s', q1, ?_⟩
  have hbw : 0 < c.enc.nbytes * ch.toNat := Nat.mul_pos (encOf_nbytes_pos_ct f6) (by omega)
  rw [q2, hb, i.dlen, Cfg.bw, f4, Nat.mul_div_cancel _ hbw, run_frames, f4]; simp [Cfg.init]

example : sessionBytes 0 0x040002 2 44100 exOps = some [1,0,254,255,3,0,252,255,5,0,6,0] ∧
    reopenFrames [1,0,254,255,3,0,252,255,5,0,6,0] 0x040002 2 44100 = some 3 := by decide

/-! ### the caller's frames field -/

/-- `openHandle` in write mode has no `frames` parameter at all: the closed bytes are a function of
    (format word, channels, rate, the calls) only — `sessionBytes` *is* that function, and this theorem says it
    gives the bytes of every session.  It is immediate from the signature; it is stated because the property
    names it.  (The real library's W64 block-codec writers do leak the caller's stale SF_INFO.frames into the
    'fact' chunk — a known finding outside the containers modelled here.) -/
theorem stale_frames_ignored (ix fmt : Nat) (ch sr : Int) (h0 : H) (s0 : Store) (ops : List SOp)
    (ho : openHandle ix {} .w fmt ch sr = .ok h0 s0) :
    sessionBytes ix fmt ch sr ops = some (closeHandle (runS (h0, s0) ops).1 (runS (h0, s0) ops).2).bytes := by
  simp [sessionBytes, ho]

/-- …and they do not depend on the store index the handle is bound to either -/
theorem closed_bytes_canonical (ix fmt : Nat) (ch sr : Int) (ops : List SOp) (hv : ∀ op ∈ ops, op.valid ch.toNat)
    (bs : List Byte) (hb : sessionBytes ix fmt ch sr ops = some bs) :
    ∃ c, openCfg fmt ch sr = some c ∧ bs = closedImage c (c.init.run c ops) := by
  unfold sessionBytes at hb
  split at hb
  · rename_i h s ho
    obtain ⟨c, hcfg, _, _, _, i⟩ := session_inv ops ho hv
    exact ⟨c, hcfg, by cases hb; exact close_bytes i⟩
  · cases hb

end Sf.C04
