/-
  C07 on the GENERIC handle machine `Sf.HandleG`: the part of a write call behind the header latch (`wBody`: codec write,
  write position, frame count, data end) of `xs` then of `ys` is that of `xs ++ ys` — handle and store, every container
  record, every state (not only appending sessions: overwrites in SFM_RDWR included).  Property theorems only.
-/
-- properties: C07 C08
import SfProofs.HandleGWrite
namespace Sf.C07HandleG
open Sf Sf.HandleG

/-- a valid write call on the generic machine is `wPre` (seek back, header latch), `wBody`, `wPost` (automatic header) -/
theorem write_call_phases (c : Cont) (h : H) (s : Store) (ty : Ty) (fc : Bool) (n : Int) (data : List Int)
    (hn : 0 < n) (hm : h.mode ≠ .r) (ha : fc = true ∨ n % h.ch = 0) :
    (HandleG.stepWrite c h s ty fc n data).1 = (HandleG.wPost c (HandleG.wBody (HandleG.wPre c h s) ty (reqLen h fc n) data)).1 ∧
    (HandleG.stepWrite c h s ty fc n data).2.1 = (HandleG.wPost c (HandleG.wBody (HandleG.wPre c h s) ty (reqLen h fc n) data)).2 := by
  rw [HandleG.stepWrite_main c h s ty fc n data hn hm ha]
  exact ⟨rfl, rfl⟩

/-- write-partition independence of the codec write, generic: two bodies = one body with the concatenated buffer
    (whole frames in the first; no PEAK bookkeeping) — same handle (write position, frames, data end …), same store bytes
    and position -/
theorem write_partition_generic (p : H × Store) (ty : Ty) (xs ys : List Int)
    (hch : 0 < p.1.ch) (hd : (xs.length : Int) % p.1.ch = 0) (hp : p.1.peak = none) :
    HandleG.wBody (HandleG.wBody p ty xs.length xs) ty ys.length ys = HandleG.wBody p ty ((xs.length : Int) + ys.length) (xs ++ ys) :=
  HandleG.wBody_two p ty _ _ xs ys hch rfl rfl hd hp

/-- non-vacuity on an AVR handle: the stores after (1 frame, 2 frames) and after 3 frames are the same bytes -/
example :
    (match avrSpec.openH 0 {} .w 0x120002 2 8000 0 with
     | .ok h s =>
        let p := HandleG.wPre avrSpec.toCont h s
        decide ((HandleG.wBody (HandleG.wBody p .s16 2 [1, 2]) .s16 4 [3, 4, 5, 6]).2.bytes = (HandleG.wBody p .s16 6 [1, 2, 3, 4, 5, 6]).2.bytes ∧
                (HandleG.wBody p .s16 6 [1, 2, 3, 4, 5, 6]).2.bytes.length = 128 + 12 ∧ p.1.peak = none ∧ 0 < p.1.ch)
     | _ => false) = true := by decide +kernel

end Sf.C07HandleG
