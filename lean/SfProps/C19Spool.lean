/-
  C19 — the spool files of simultaneously open CAF/ALAC writers: an operation on one writer's spool leaves every other file of the
  temporary directory alone as long as the writers hold DIFFERENT files, a new name always gets a new file, and a name that is
  already there hands out — and empties — the file of whoever holds it (`fopen "wb+"`, no O_EXCL).  So isolation of the writers is
  exactly distinctness of their names: with per-handle names both writers close to what they spooled, for all data; with a name two
  live handles share (the output file's base name; "" for descriptor / virtual-I/O handles) they do not.
  Model: SfModel/SpoolWorld.lean.  Campaigns: vlib/fdworld.py (name class), vlib/spoolcamp.py.
-/
import SfModel.SpoolWorld
namespace Sf.C19Spool
open Sf Sf.SpoolWorld

theorem setAt_getD_ne {α} (l : List α) (k j : Nat) (v dflt : α) (h : j ≠ k) : (setAt l k v).getD j dflt = l.getD j dflt := by
  unfold setAt
  simp only [List.getD_eq_getElem?_getD]
  rw [List.getElem?_set_ne (Ne.symm h)]

/-- **frame**: spooling into one writer's file changes no other file of the directory -/
theorem fwrite_frame (d : Dir) (h : H) (bs : List Byte) (k : Nat) (hk : k ≠ h.fid) :
    (fwrite d h bs).1.files.getD k [] = d.files.getD k [] := by
  simp only [fwrite]
  exact setAt_getD_ne _ _ _ _ _ hk

/-- a name nobody holds gets a NEW file: every existing file keeps its contents, and the new stream's file is none of them -/
theorem fopen_fresh (d : Dir) (n : Name) (hn : lookup d n = none) :
    (fopenWb d n).2.fid = d.files.length ∧ ∀ k, k < d.files.length → (fopenWb d n).1.files.getD k [] = d.files.getD k [] := by
  simp only [fopenWb, hn]
  refine ⟨trivial, ?_⟩
  intro k hk
  simp [List.getD_eq_getElem?_getD, List.getElem?_append_left hk]

/-- a name somebody holds hands out THAT file, emptied: the holder's spooled packets are gone and both streams now write one file -/
theorem fopen_shared_truncates (d : Dir) (n : Name) (k : Nat) (hn : lookup d n = some k) (hk : k < d.files.length) :
    (fopenWb d n).2.fid = k ∧ (fopenWb d n).1.files.getD k [1] = [] := by
  simp only [fopenWb, hn]
  refine ⟨trivial, ?_⟩
  simp [setAt, List.getD_eq_getElem?_getD, hk]

/-- closing (copy + remove) touches no file contents -/
theorem closeCopy_files (d : Dir) (h : H) : (closeCopy d h).1.files = d.files := rfl

/-- per-handle names: both writers get exactly what they spooled — for ALL data -/
theorem two_writers_isolated (a b b2 : List Byte) : twoWriters freshNamer a b b2 = (a, b ++ b2) := by
  simp [twoWriters, freshNamer, fopenWb, lookup, fwrite, closeCopy, setAt, writeAt]

/-- a shared name (base name of the output file, or none): with these data A's file gets B's packet and B's file keeps a piece of
    A's — neither is what its handle wrote -/
theorem two_writers_shared_name :
    twoWriters baseNameNamer [1, 2, 3] [9] [8] = ([9, 2, 3], [9, 8, 3]) ∧
    twoWriters freshNamer [1, 2, 3] [9] [8] = ([1, 2, 3], [9, 8]) := by
  refine ⟨by decide, by decide⟩

end Sf.C19Spool
