/-
  C19 — the spool files of simultaneously open CAF/ALAC writers.  A process with any number of writers, any interleaving of their
  opens, packet writes and closes (`Sf.SpoolWorld.run`), against the specification in which every handle is a machine of its own
  (`arun`: what each handle does ALONE): when the spool names of different handles differ (`nm` injective — the code as it is: two
  values of the process-wide generator per name) every handle's file receives exactly the bytes that handle spooled, for every
  history (`run_isolated`); with a name two live handles share (the output file's base name; "" for descriptor / virtual-I/O
  handles) it does not (`two_writers_shared_name`): `fopen "wb+"` without O_EXCL hands out — and empties — the other handle's file.
  Model: SfModel/SpoolWorld.lean.  Campaigns: vlib/fdworld.py (name class), vlib/spoolcamp.py.
-/
import SfModel.SpoolWorld
namespace Sf.C19Spool
open Sf Sf.SpoolWorld

theorem writeAt_end (x bs : List Byte) : writeAt x x.length bs = x ++ bs := by
  simp [writeAt]

/-- **frame**: spooling into one writer's file changes no other file of the directory -/
theorem fwrite_frame (d : Dir) (h : H) (bs : List Byte) (k : Nat) (hk : k ≠ h.fid) :
    (fwrite d h bs).1.files k = d.files k := by
  simp [fwrite, hk]

/-- a name nobody holds gets a NEW file: every existing file keeps its contents -/
theorem fopen_fresh (d : Dir) (n : Name) (hn : d.names n = none) :
    (fopenWb d n).2.fid = d.next ∧ ∀ k, k < d.next → (fopenWb d n).1.files k = d.files k := by
  simp only [fopenWb, hn]
  refine ⟨trivial, ?_⟩
  intro k hk
  have : k ≠ d.next := by omega
  simp [this]

/-- a name somebody holds hands out THAT file, emptied: the holder's spooled packets are gone and both streams now write one file -/
theorem fopen_shared_truncates (d : Dir) (n : Name) (k : Nat) (hn : d.names n = some k) :
    (fopenWb d n).2.fid = k ∧ (fopenWb d n).1.files k = [] := by
  simp [fopenWb, hn]

/-- what ties the process to the specification: every open handle holds a file of its own, entered under its own name, holding
    exactly what the handle spooled; the directory has no other entries -/
def Inv (nm : Namer) (w : W) (a : A) : Prop :=
  (∀ i, a.acc i = none ↔ w.live i = none) ∧
  (∀ i h x, w.live i = some h → a.acc i = some x →
      h.name = nm i ∧ w.dir.names (nm i) = some h.fid ∧ w.dir.files h.fid = x ∧ h.pos = x.length) ∧
  (∀ n k, w.dir.names n = some k → k < w.dir.next ∧ ∃ i h, w.live i = some h ∧ nm i = n ∧ h.fid = k) ∧
  (∀ n m k, w.dir.names n = some k → w.dir.names m = some k → n = m) ∧
  (∀ i, w.out i = a.out i)

theorem inv_init (nm : Namer) : Inv nm {} {} := by
  refine ⟨fun _ => ⟨fun _ => rfl, fun _ => rfl⟩, ?_, ?_, ?_, fun _ => rfl⟩
  · intro i h x hl; simp at hl
  · intro n k hn; simp at hn
  · intro n m k hn; simp at hn

theorem step_inv (nm : Namer) (hinj : ∀ i j, nm i = nm j → i = j) (w : W) (a : A) (op : Op) (hI : Inv nm w a)
    (hwf : match op with | .open i => a.acc i = none | _ => True) : Inv nm (step nm w op) (astep a op) := by
  obtain ⟨h1, h2, h3, h4, h5⟩ := hI
  cases op with
  | «open» i =>
    have hli : w.live i = none := (h1 i).mp hwf
    have hfree : w.dir.names (nm i) = none := by
      cases hn : w.dir.names (nm i) with
      | none => rfl
      | some k =>
        obtain ⟨_, j, h, hj, hnm, _⟩ := h3 _ _ hn
        have := hinj _ _ hnm; subst this; rw [hli] at hj; cases hj
    simp only [step, astep, fopenWb, hfree]
    refine ⟨?_, ?_, ?_, ?_, h5⟩
    · intro j; by_cases hj : j = i <;> simp [hj]; exact h1 j
    · intro j h x hl ha
      by_cases hj : j = i
      · subst hj; simp at hl ha; subst hl; subst ha; simp
      · simp only [hj, if_false] at hl ha
        obtain ⟨e1, e2, e3, e4⟩ := h2 j h x hl ha
        have hne : nm j ≠ nm i := fun e => hj (hinj _ _ e)
        have hlt := (h3 _ _ e2).1
        have hne2 : h.fid ≠ w.dir.next := by omega
        simp [hne, hne2, e1, e2, e3, e4]
    · intro n k hn
      by_cases hni : n = nm i
      · subst hni; simp at hn; subst hn
        exact ⟨by simp, i, ⟨nm i, w.dir.next, 0⟩, by simp, rfl, rfl⟩
      · simp only [hni, if_false] at hn
        obtain ⟨hlt, j, h, hj, hnm, hf⟩ := h3 _ _ hn
        have hji : j ≠ i := by intro e; subst e; rw [hli] at hj; cases hj
        exact ⟨by simp; omega, j, h, by simp [hji, hj], hnm, hf⟩
    · intro n m k hn hm
      by_cases hni : n = nm i <;> by_cases hmi : m = nm i
      · rw [hni, hmi]
      · simp only [hni, if_true, hmi, if_false] at hn hm
        have := (h3 _ _ hm).1; cases hn; omega
      · simp only [hni, if_false, hmi, if_true] at hn hm
        have := (h3 _ _ hn).1; cases hm; omega
      · simp only [hni, hmi, if_false] at hn hm; exact h4 _ _ _ hn hm
  | write i bs =>
    cases hl : w.live i with
    | none =>
      have : a.acc i = none := (h1 i).mpr hl
      simp only [step, astep, hl, this]
      exact ⟨h1, h2, h3, h4, h5⟩
    | some h =>
      cases ha : a.acc i with
      | none => have := (h1 i).mp ha; rw [hl] at this; cases this
      | some x =>
        obtain ⟨e1, e2, e3, e4⟩ := h2 i h x hl ha
        simp only [step, astep, hl, ha, fwrite]
        refine ⟨?_, ?_, ?_, ?_, h5⟩
        · intro j; by_cases hj : j = i <;> simp [hj]; exact h1 j
        · intro j g y hlj haj
          by_cases hj : j = i
          · subst hj; simp at hlj haj; subst hlj; subst haj
            simp [e1, e2, e3, e4, writeAt_end]
          · simp only [hj, if_false] at hlj haj
            obtain ⟨f1, f2, f3, f4⟩ := h2 j g y hlj haj
            have hne : g.fid ≠ h.fid := by
              intro e; rw [e] at f2
              exact hj (hinj _ _ (h4 _ _ _ f2 e2))
            simp [hne, f1, f2, f3, f4]
        · intro n k hn
          obtain ⟨hlt, j, g, hj, hnm, hf⟩ := h3 _ _ hn
          refine ⟨hlt, ?_⟩
          by_cases hji : j = i
          · subst hji; rw [hl] at hj; cases hj
            exact ⟨j, { h with pos := h.pos + bs.length }, by simp, hnm, hf⟩
          · exact ⟨j, g, by simp [hji, hj], hnm, hf⟩
        · exact h4
  | close i =>
    cases hl : w.live i with
    | none =>
      have : a.acc i = none := (h1 i).mpr hl
      simp only [step, astep, hl, this]
      exact ⟨h1, h2, h3, h4, h5⟩
    | some h =>
      cases ha : a.acc i with
      | none => have := (h1 i).mp ha; rw [hl] at this; cases this
      | some x =>
        obtain ⟨e1, e2, e3, e4⟩ := h2 i h x hl ha
        simp only [step, astep, hl, ha, closeCopy]
        refine ⟨?_, ?_, ?_, ?_, ?_⟩
        · intro j; by_cases hj : j = i <;> simp [hj]; exact h1 j
        · intro j g y hlj haj
          by_cases hj : j = i
          · subst hj; simp at hlj
          · simp only [hj, if_false] at hlj haj
            obtain ⟨f1, f2, f3, f4⟩ := h2 j g y hlj haj
            have hne : nm j ≠ h.name := by rw [e1]; exact fun e => hj (hinj _ _ e)
            simp [hne, f1, f2, f3, f4]
        · intro n k hn
          by_cases hni : n = h.name
          · simp [hni] at hn
          · simp only [hni, if_false] at hn
            obtain ⟨hlt, j, g, hj, hnm, hf⟩ := h3 _ _ hn
            have hji : j ≠ i := by
              intro e; subst e; rw [hl] at hj; cases hj; exact hni (by rw [← hnm, e1])
            exact ⟨hlt, j, g, by simp [hji, hj], hnm, hf⟩
        · intro n m k hn hm
          by_cases hni : n = h.name <;> by_cases hmi : m = h.name
          · rw [hni, hmi]
          · simp [hni] at hn
          · simp [hmi] at hm
          · simp only [hni, hmi, if_false] at hn hm; exact h4 _ _ _ hn hm
        · intro j; by_cases hj : j = i <;> simp [hj, e3]; exact h5 j

/-- **isolation for every history**: any number of writers, any interleaving of opens, packet writes and closes in which no slot is
    opened twice at once: when different handles get different spool names, the bytes each handle's file receives at close are those
    of the specification, where every handle runs alone -/
theorem run_isolated (nm : Namer) (hinj : ∀ i j, nm i = nm j → i = j) : ∀ (ops : List Op) (w : W) (a : A),
    Inv nm w a → wellFormed a ops → ∀ i, (run nm w ops).out i = (arun a ops).out i := by
  intro ops
  induction ops with
  | nil => intro w a hI _ i; exact hI.2.2.2.2 i
  | cons op ops ih =>
    intro w a hI hwf i
    simp only [run, arun, List.foldl_cons]
    exact ih _ _ (step_inv nm hinj w a op hI hwf.1) hwf.2 i

/-- from the start of the process -/
theorem run_isolated_from_start (nm : Namer) (hinj : ∀ i j, nm i = nm j → i = j) (ops : List Op) (hwf : wellFormed {} ops) (i : Nat) :
    (run nm {} ops).out i = (arun {} ops).out i :=
  run_isolated nm hinj ops {} {} (inv_init nm) hwf i

/-- the specification really is "each handle alone": an operation of another handle does not touch handle i's machine -/
theorem astep_other (a : A) (op : Op) (i : Nat) (h : op.handle ≠ i) :
    (astep a op).acc i = a.acc i ∧ (astep a op).out i = a.out i := by
  cases op with
  | «open» j => simp only [Op.handle] at h; simp [astep, Ne.symm h]
  | write j bs =>
    simp only [Op.handle] at h
    simp only [astep]; split <;> simp [Ne.symm h]
  | close j =>
    simp only [Op.handle] at h
    simp only [astep]; split <;> simp [Ne.symm h]

/-- per-handle names: both writers get exactly what they spooled — for ALL data -/
theorem two_writers_isolated (a b b2 : List Byte) : twoWriters freshNamer a b b2 = (some a, some (b ++ b2)) := by
  have hinj : ∀ i j, freshNamer i = freshNamer j → i = j := fun _ _ h => h
  have hwf : wellFormed {} [.open 0, .open 1, .write 0 a, .write 1 b, .close 0, .write 1 b2, .close 1] := by
    simp [wellFormed, astep]
  unfold twoWriters
  simp only [run_isolated_from_start freshNamer hinj _ hwf]
  simp [arun, astep]

/-- a shared name (base name of the output file, or none): A's file gets B's packet and B's file keeps a piece of A's — neither
    is what its handle wrote -/
theorem two_writers_shared_name :
    twoWriters baseNameNamer [1, 2, 3] [9] [8] = (some [9, 2, 3], some [9, 8, 3]) ∧
    twoWriters freshNamer [1, 2, 3] [9] [8] = (some [1, 2, 3], some [9, 8]) := by
  refine ⟨by decide, by decide⟩

/-- non-vacuity of `run_isolated`: three writers, interleaved, slot 0 used twice -/
example : wellFormed {} [.open 0, .open 1, .write 1 [5], .open 2, .write 0 [1], .close 0, .open 0, .write 2 [7], .write 0 [2], .close 1, .close 0, .close 2] := by
  simp [wellFormed, astep]

end Sf.C19Spool
