/-
  C09 / C16 — the caller's file and the ledger after a FAILING sf_open (model: SfModel/FailedOpen.lean, SfModel/Ledger.lean).
-- properties: C09 C16

  * `failed_open_never_divides_by_zero` / `failed_open_rewrites_only_from_valid_info` (full strength, the repaired error exit): no
    close function ever runs a header writer on an SF_INFO that failed validate_sfinfo, hence no division by zero — any channel count an
    `int` can hold, any byte width 1..8, any failure point, early or late installation of the close function.
  * `failed_open_old_rule_traps`, `failed_open_old_rule_traps_by_wraparound`: the error exit before the repair (witnesses: channels = 0, the
    MAT5 file of findings/c16_rdwr_failed_open_fpe.txt; channels = 2^30 with 4-byte samples, the MAT4 witness).
  * `failed_open_writes_nothing_full` is the statement "a failing open writes nothing"; it is refuted for the current code by
    `failed_open_writes_nothing_refuted` (KF-RDWR-FAILED-OPEN-WRITES: a valid file whose codec has no read/write mode) and proved outside
    exactly that class by `failed_open_writes_nothing_partial` / `failed_open_writes_iff_class`.
  * `error_exit_mode_releases_the_same`: closing the handle as a read handle changes nothing in the resource ledger of C16.
-/
import SfModel.FailedOpen
import SfModel.Ledger
namespace Sf.C09FailedOpen
open Sf.FailedOpen

theorem wrapS32_small (x : Int) (h0 : 0 ≤ x) (h1 : x < 2147483648) : wrapS 32 x = x := by
  unfold wrapS
  have hm : ((2 : Int) ^ 32) = 4294967296 := by decide
  simp only [hm]
  have : x % 4294967296 = x := Int.emod_eq_of_lt h0 (by omega)
  rw [this]
  have : (4294967296 : Int) / 2 = 2147483648 := by decide
  rw [this]
  simp [h1]

/-- a valid SF_INFO and a byte width of 1..8 give a non-zero `int` product -/
theorem divisor_ne_zero (c : Cfg) (hv : infoValid c = true) (hb1 : 1 ≤ c.bytewidth) (hb8 : c.bytewidth ≤ 8) : divisor c ≠ 0 := by
  unfold infoValid at hv
  simp only [Bool.and_eq_true, SF_MAX_CHANNELS] at hv
  obtain ⟨⟨_, h1⟩, h2⟩ := hv
  have h2 : c.channels ≤ 1024 := of_decide_eq_true h2
  have h1 : 1 ≤ c.channels := of_decide_eq_true h1
  have hlo : 1 ≤ c.bytewidth * c.channels := by
    have := Int.mul_le_mul hb1 h1 (by omega) (by omega)
    omega
  have hhi : c.bytewidth * c.channels ≤ 8 * 1024 := Int.mul_le_mul hb8 h2 (by omega) (by omega)
  unfold divisor
  rw [wrapS32_small _ (by omega) (by omega)]
  omega

/-- **failed_open_never_divides_by_zero.**  With the repaired error exit no failing SFM_RDWR (or SFM_READ) open reaches the division by
    zero of a header writer: every channel count, every byte width 1..8, every failure point, either installation order. -/
theorem failed_open_never_divides_by_zero (c : Cfg) (f : Fail) (hm : c.mode ≠ .w) (hb1 : 1 ≤ c.bytewidth) (hb8 : c.bytewidth ≤ 8) :
    Ev.trap ∉ events .validate c f := by
  unfold events
  intro h
  rcases List.mem_append.mp h with h | h
  · split at h <;> simp at h
  · split at h
    · rename_i hw
      simp only [Bool.and_eq_true] at hw
      have hcw := hw.2
      by_cases hv : infoValid c = true
      · have := divisor_ne_zero c hv hb1 hb8
        simp [closeWrite, this] at h
      · -- an invalid SF_INFO: SFM_RDWR is closed as SFM_READ, and SFM_READ never writes
        have hv' : infoValid c = false := by simpa using hv
        cases hmode : c.mode with
        | r => simp [closeMode, hmode, writesMode] at hcw
        | w => exact hm hmode
        | rw => simp [closeMode, hmode, hv', writesMode] at hcw
    · simp at h

/-- **failed_open_rewrites_only_from_valid_info.**  Whatever a close function writes on the repaired error exit of a SFM_RDWR open is derived
    from an SF_INFO that passed validate_sfinfo. -/
theorem failed_open_rewrites_only_from_valid_info (c : Cfg) (f : Fail) (hm : c.mode = .rw) (v : Bool)
    (h : Ev.closeRewrite v ∈ events .validate c f) : v = true ∧ infoValid c = true := by
  unfold events at h
  rcases List.mem_append.mp h with h | h
  · split at h <;> simp at h
  · split at h
    · rename_i hw
      simp only [Bool.and_eq_true] at hw
      have hcw := hw.2
      by_cases hv : infoValid c = true
      · unfold closeWrite at h
        split at h
        · simp at h
        · simp at h
          exact ⟨by rw [h, hv], hv⟩
      · have hv' : infoValid c = false := by simpa using hv
        simp [closeMode, hm, hv', writesMode] at hcw
    · simp at h

example : Ev.trap ∉ events .validate { mode := .rw, channels := 0, bytewidth := 2 } .sfinfo :=
  failed_open_never_divides_by_zero _ _ (by decide) (by decide) (by decide)

/-- **failed_open_old_rule_traps.**  Before the repair: MAT5, channel count 0 in the file, SFM_RDWR — the witness of KF-RDWR-FAILED-OPEN-FPE. -/
theorem failed_open_old_rule_traps :
    Ev.trap ∈ events .old { mode := .rw, channels := 0, bytewidth := 2 } .sfinfo := by decide

/-- … and a channel count that makes the `int` product wrap to zero (MAT4, 4-byte samples, 2^30 columns). -/
theorem failed_open_old_rule_traps_by_wraparound :
    Ev.trap ∈ events .old { mode := .rw, channels := 1073741824, bytewidth := 4 } .codec := by decide

/-- the same two handles on the repaired error exit: the provisional header at most, no trap -/
example : events .validate { mode := .rw, channels := 0, bytewidth := 2 } .sfinfo = [.provisional] := by decide
example : events .validate { mode := .rw, channels := 1073741824, bytewidth := 4 } .codec = [.provisional] := by decide

/-- the full statement: a failing open writes nothing into the caller's file -/
def failed_open_writes_nothing_full : Prop :=
  ∀ (c : Cfg) (f : Fail), c.mode ≠ .w → events .validate c f = []

/-- **failed_open_writes_nothing_refuted** (KF-RDWR-FAILED-OPEN-WRITES).  A VALID file (two channels, 16-bit) whose codec has no
    read/write mode, opened SFM_RDWR: provisional header, then the close function's rewrite. -/
theorem failed_open_writes_nothing_refuted : ¬ failed_open_writes_nothing_full := by
  intro h
  have := h { mode := .rw, channels := 2, bytewidth := 2 } .codec (by decide)
  revert this
  decide

/-- **failed_open_writes_iff_class.**  The class of the finding is exact: something is written iff the case lies in it (either rule). -/
theorem failed_open_writes_iff_class (rule : Rule) (c : Cfg) (f : Fail) :
    events rule c f ≠ [] ↔ KF.lateRefusal rule c f = true := by
  unfold events KF.lateRefusal
  by_cases h1 : (writesMode c.mode && f.late) = true <;> by_cases h2 : (hookInstalled c f && writesMode (closeMode rule c)) = true <;>
    simp [h1, h2]

/-- **failed_open_writes_nothing_partial.**  Outside the class nothing is written: every SFM_READ open, every refusal in front of the
    container's open function, every refusal by the header reader of a container that installs its close function late. -/
theorem failed_open_writes_nothing_partial (rule : Rule) (c : Cfg) (f : Fail) (h : KF.lateRefusal rule c f = false) :
    events rule c f = [] := by
  by_cases he : events rule c f = []
  · exact he
  · have := (failed_open_writes_iff_class rule c f).mp he
    rw [h] at this
    cases this

/-- a failing SFM_READ open never writes -/
theorem read_mode_failed_open_writes_nothing (rule : Rule) (c : Cfg) (f : Fail) (hm : c.mode = .r) : events rule c f = [] := by
  apply failed_open_writes_nothing_partial
  have hc : closeMode rule c = .r := by
    unfold closeMode
    simp [hm]
  simp [KF.lateRefusal, hm, hc, writesMode]

/-- a refusal by the header reader of a container that installs its close function late (every container but AIFF) writes nothing -/
theorem reader_refusal_writes_nothing (rule : Rule) (c : Cfg) (hh : c.hookEarly = false) : events rule c .reader = [] := by
  apply failed_open_writes_nothing_partial
  simp [KF.lateRefusal, Fail.late, hookInstalled, hh]

example : events .validate { mode := .rw, channels := 2, bytewidth := 2 } .reader = [] :=
  reader_refusal_writes_nothing _ _ rfl
example : KF.lateRefusal .validate { mode := .rw, channels := 2, bytewidth := 2 } .codec = true := by decide
example : KF.lateRefusal .validate { mode := .rw, channels := 2, bytewidth := 2, hookEarly := true } .reader = true := by decide

/-! ### the ledger of C16 does not see the repaired error exit -/

open Sf.Ledger in
/-- **error_exit_mode_releases_the_same.**  psf_close's release program on a SFM_RDWR handle equals the one on the same handle closed as
    SFM_READ (the only mode test among the release actions is alac_close's `== SFM_WRITE`): descriptor, temporary file and heap cells are
    released exactly as before, for every handle state. -/
theorem error_exit_mode_releases_the_same (h : Sf.Ledger.Handle) (hm : h.mode = .rw) :
    releaseProg { h with mode := .r } = releaseProg h := by
  unfold releaseProg releaseHead
  simp only [hm]
  cases h.codecClose with
  | none => rfl
  | some k => cases k <;> simp [codecHookProg]

open Sf.Ledger in
example : releaseProg { ({ mode := .rw, codecClose := some .alac } : Sf.Ledger.Handle) with mode := .r }
    = releaseProg ({ mode := .rw, codecClose := some .alac } : Sf.Ledger.Handle) :=
  error_exit_mode_releases_the_same _ rfl

end Sf.C09FailedOpen
