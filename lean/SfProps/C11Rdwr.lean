/-
  C11 for read/write sessions on RE-OPENED files: what the Lean predicate (`Sf.Abs.check`, evaluated by `sfmodel abs` on the
  transcript "history up to the image, then the image opened read-only and read") says about a crash-point image.
  The image is opened while the writer is still open; for the abstract model that is a `reopen .r` line judged in the state the
  history has reached.  Property theorems only.
-/
import SfModel.RdwrTail
import SfProofs.AbsRun
import SfProofs.AbsMeaning
namespace Sf.C11Rdwr
open Sf Sf.Abs

/-- "a reader opening a copy of those bytes obtains … a frame count equal to the frames written so far": for a sample-granular
    encoding (block 1, no pad frames) an accepted image open reports EXACTLY the frame count of the writer at that instant — the old
    frames kept, the frames appended across the old end counted, nothing behind the audio counted — and starts at frame 0 of the same
    stream -/
theorem image_open_meaning (g : Geom) (st : St) (o : Out) (st1 : St) (hb : g.block ≤ 1) (hp : g.pad = 0)
    (h : reopenOk g st .r o = .ok st1) :
    o.null = false ∧ o.frames = (st.frames : Int) ∧ st1.frames = st.frames ∧ st1.rpos = 0 ∧ st1.mode = .r ∧ st1.ref = st.ref ∧
    st1.valid = st.valid := by
  unfold reopenOk at h
  by_cases hn : o.null = true
  · rw [if_pos hn] at h; simp at h
  · rw [if_neg hn] at h
    simp only [show (Mode.r = Mode.w) = False by simp, if_false] at h
    by_cases he : o.frames = (st.frames : Int)
    · rw [if_pos he] at h
      injection h with h; subst h
      refine ⟨by simpa using hn, he, rfl, rfl, rfl, rfl, ?_⟩
      funext t; simp
    · rw [if_neg he] at h
      split at h
      · rename_i hc
        have : max g.block 1 = 1 := by omega
        rw [this, hp] at hc
        omega
      · exact Res.noConfusion h

/-- "… and reads back exactly that prefix of the written data": the whole-file read of an accepted image delivers the stream the
    history has built (for the caller type the writer used losslessly, the samples it wrote), all of it, then the end of data -/
theorem image_read_meaning (g : Geom) (st : St) (o : Out) (st1 st2 : St) (ty : Ty) (n : Int) (r : Out)
    (hb : g.block ≤ 1) (hp : g.pad = 0) (ho : reopenOk g st .r o = .ok st1) (hval : st.valid ty = true)
    (hv : validReq g false n = true) (hpos : 0 < st.frames) (hrd : readOk g st1 ty false n r = .ok st2)
    (hall : (st.frames * g.ch : Nat) ≤ n.toNat) :
    retItems g false r.ret / g.ch = st.frames ∧
    sliceEq r.data 0 (st.ref ty) 0 (retItems g false r.ret * cells ty) = true := by
  obtain ⟨_, _, hf, hr0, hm, href, hvalid⟩ := image_open_meaning g st o st1 hb hp ho
  have hreq : ReadReq g st1 false n := ⟨hv, by rw [hm]; simp⟩
  obtain ⟨h0, hle, _, _, _, _, hmain⟩ := readOk_valid g st1 ty false n r st2 hreq hrd
  obtain ⟨_, hin, hdat, hshort⟩ := hmain (by rw [hr0, hf]; exact hpos)
  rw [hr0, Nat.zero_add, hf] at hin
  have hd := hdat (by rw [hvalid]; exact hval)
  rw [hr0, href, Nat.zero_mul] at hd
  refine ⟨?_, hd⟩
  by_cases hlt : r.ret < n
  · have := hshort hlt
    rw [hr0, Nat.zero_add, hf] at this
    exact this
  · have hret : r.ret = n := by omega
    have hi : retItems g false r.ret = n.toNat := by simp [retItems, hret]
    have hch : 0 < g.ch := by
      rcases Nat.eq_zero_or_pos g.ch with hz | hz
      · exfalso
        have hv' := hv
        simp [validReq, hz] at hv'
        omega
      · exact hz
    rw [hi] at hin ⊢
    have : st.frames ≤ n.toNat / g.ch := (Nat.le_div_iff_mul_le hch).mpr hall
    omega

/-! ## non-vacuity: append across the old end of a 3-frame file, image, read -/

def exG : Geom := { ch := 1, bw := 2, frames0 := 0, mode0 := .w, strictSeek := true, lossless := fun ty => ty = .s16 }

def exTr : List (Op × Out) :=
  [(.reopen .w, {}), (.write .s16 true 3 #[1, 2, 3], { ret := 3 }), (.other, {}), (.close, { ret := 0 }), (.reopen .rw, { frames := 3 }),
   (.seek (-1) 0x22, { ret := 2 }), (.write .s16 true 3 #[7, 8, 9], { ret := 3 }), (.other, {}), (.info, { frames := 5 }), (.other, {}),
   (.reopen .r, { frames := 5 }), (.read .s16 false 8, { ret := 5, data := #[1, 2, 7, 8, 9, 0, 0, 0] })]

example : holdsOn exG (fun _ => #[]) (fun _ => true) exTr = .ok 12 := by decide +kernel
/-- an image whose header still carries the old length (the stale end-of-audio mark), or one that counts the bytes behind the audio:
    refused, clause `reopen-frames` -/
example : holdsOn exG (fun _ => #[]) (fun _ => true) (exTr.take 10 ++ [(.reopen .r, { frames := 3 })]) = .bad 10 "reopen-frames" := by decide +kernel
example : holdsOn exG (fun _ => #[]) (fun _ => true) (exTr.take 10 ++ [(.reopen .r, { frames := 29 })]) = .bad 10 "reopen-frames" := by decide +kernel
example : exG.block ≤ 1 ∧ exG.pad = 0 ∧ validReq exG false 8 = true := by decide

end Sf.C11Rdwr
