/-
  C01 / C04 / C07 / C11 — THE WRITE-SIDE BRIDGE for the REMAINING stand-alone container models (round 8): `Laws` of
  `Sf.AbsWriteBridge.Small` for PAF (PCM_S8 / PCM_16), IRCAM, SVX (`Sf.Small` session machine: `Small1Facts`) and NIST, MAT5, VOC
  (`Sf.Small2` machine: `Small2Facts` / `Laws` directly), each from the container's own `<x>_reopen_info`, `<x>_snapshot_valid`,
  `closedBytes_eq`, `stale_frames_ignored_<x>` theorems; hence `<x>_session_accepted`: the record the all-format write campaign
  would write down of ANY job (whole frames of values of the caller's type; any split into item / frame calls;
  SFC_UPDATE_HEADER_NOW / SFC_SET_UPDATE_HEADER_AUTO anywhere; any stale SF_INFO.frames), if the library behaved like the
  container's model, passes every clause of `Sf.AbsWrite.judge` — C04 info / rate / frames / eof, C01 round trip under the side
  condition, C07 partition / stale, C11 at every crash point.

  -- properties: C01 C04 C07 C11
-/
import SfProps.C04Bridge
import SfProps.C04Paf
import SfProps.C04Ircam
import SfProps.C04Svx
import SfProps.C04Nist
import SfProps.C04Mat5
import SfProps.C04Voc
namespace Sf.C04Bridge2
open Sf Sf.AbsWrite Sf.AbsWriteBridge Sf.C04Bridge
open Sf.AbsWriteBridge.Small (Cont Laws Valid small2Cont laws_of_small2 small2_machine_facts small_pred_good)

/-- machine facts of an `Sf.Small` container whose header holds no length (written once at open, never rewritten: PAF, IRCAM) -/
theorem small1_static_facts (sp : Sf.Small.Spec) (hdr : List Byte) (hl : hdr.length = sp.hdrLen)
    (hc : ∀ st ops, Sf.Small.closedBytes sp st ops = hdr ++ Sf.Small.opsData ops)
    (hs : ∀ st ops, Sf.Small.snapshotBytes sp st ops = hdr ++ Sf.Small.opsData ops) :
    (∀ st ops, ∃ h, h.length = sp.hdrLen ∧ Sf.Small.snapshotBytes sp st ops = h ++ Sf.Small.opsData ops) ∧
    (∀ st ops, ∃ h tail, h.length = sp.hdrLen ∧ Sf.Small.closedBytes sp st ops = h ++ Sf.Small.opsData ops ++ tail) ∧
    (∀ a b ops ops', Sf.Small.opsData ops = Sf.Small.opsData ops' → Sf.Small.closedBytes sp a ops = Sf.Small.closedBytes sp b ops') :=
  ⟨fun st ops => ⟨hdr, hl, hs st ops⟩, fun st ops => ⟨hdr, [], hl, by rw [hc]; simp⟩,
   fun a b ops ops' h => by rw [hc, hc, h]⟩

/-! ## PAF (PCM_S8 / PCM_16, either byte order, up to 1024 channels; the 24-bit block encoding: C07Bridge2) -/

def pafGeom (c : Paf.Cfg) : AbsWrite.Geom := { word := c.endian * 0x10000000 + 0x050000 + c.codec, ch := c.ch, sr := c.sr }

theorem paf_facts (c : Paf.Cfg) (hwf : c.wf) (h24 : c.codec ≠ 0x03) :
    Small.Small1Facts (Paf.spec c) Paf.parse (pafGeom c) (encFor c.codec (!c.little)) (fun _ => True) := by
  obtain ⟨m1, m2, m3⟩ := small1_static_facts (Paf.spec c) (Paf.hdr c) (Sf.Paf.hdr_length c) (C04Paf.closedBytes_eq c) (C04Paf.snapshotBytes_eq c)
  obtain ⟨hcd, hch1, _⟩ := Sf.Paf.cfg_cases c hwf
  have hcd : c.codec = 0x01 ∨ c.codec = 0x02 := by rcases hcd with h | h | h <;> simp_all
  have hend : c.endian < 4 := by
    have := hwf.1; unfold Paf.accepted at this
    simp only [Bool.decide_and, Bool.and_eq_true, decide_eq_true_eq] at this
    exact this.2.1
  have hcodec : (pafGeom c).codec = c.codec := by
    show (c.endian * 0x10000000 + 0x050000 + c.codec) % 0x10000 = c.codec
    rcases hcd with h | h <;> omega
  have hmajor : (pafGeom c).major = 0x05 := by
    show (c.endian * 0x10000000 + 0x050000 + c.codec) / 0x10000 % 0x1000 = 0x05
    rcases hcd with h | h <;> omega
  have henc : encOf .raw c.codec (!c.little) = some (encFor c.codec (!c.little)) := by
    unfold encFor; rcases hcd with h | h <;> rw [h] <;> simp [encOf]
  have hnbw : (encFor c.codec (!c.little)).nbytes = c.bytewidth := by
    unfold encFor Paf.Cfg.bytewidth; rcases hcd with h | h <;> rw [h] <;> simp [encOf, Enc.nbytes, PcmFmt.nbytes]
  obtain ⟨hnb, hewf⟩ := encOf_props _ _ _ _ henc
  have hfmt : c.fmtWord % 0x10000000 = (pafGeom c).word % 0x10000000 := by
    show ((if c.little then 0x10000000 else 0x20000000) + 0x050000 + c.codec) % 0x10000000 =
      (c.endian * 0x10000000 + 0x050000 + c.codec) % 0x10000000
    rcases hcd with h | h <;> (split <;> omega)
  have hfr : ∀ D, Paf.framesOf c D = D / ((encFor c.codec (!c.little)).nbytes * (pafGeom c).ch) := by
    intro D; unfold Paf.framesOf; rw [if_neg h24, hnbw]; rfl
  refine { chpos := hch1, nb := hnb, wf := hewf,
           block := C04.frames_bound_granular _ _ _ _
             (by rw [hcodec]; rcases hcd with h | h <;> rw [h] <;> simp [Geometry.sampleGranular])
             (by rw [hmajor, hcodec]; rcases hcd with h | h <;> rw [h] <;> simp),
           notRaw := by rw [hmajor]; simp, codec := ⟨_, by rw [hcodec]; exact henc⟩,
           snapForm := m1, closedForm := m2, closedFn := m3, closedParse := ?_, snapParse := ?_ }
  · intro st ops _
    refine ⟨_, C04Paf.paf_reopen_info c hwf st _, ?_, rfl, hfmt, ?_⟩
    · show Paf.framesOf c (Sf.Small.opsData (Small.toS1 ops)).length = _
      rw [Small.opsData_toS1, hfr]
    · show rateOk (pafGeom c).major c.sr ((c.sr : Nat) : Int) = true
      rw [hmajor]; simp [rateOk, rateClass]
  · intro st w _
    obtain ⟨h1, _⟩ := C04Paf.paf_snapshot_valid c hwf st w
    exact ⟨_, h1, hfr _, rfl, hfmt⟩

/-- PAF, PCM_S8 / PCM_16: every job of whole frames is accepted — no guard, no class -/
theorem paf_session_accepted (c : Paf.Cfg) (hwf : c.wf) (h24 : c.codec ≠ 0x03) (ty : Ty) (stale stale' : Nat) (ops : List Small.Op)
    (hv : Valid c.ch ty ops) :
    accepted (Small.recordOf (Small.small1Cont (Paf.spec c) Paf.parse (pafGeom c) (encFor c.codec (!c.little))) ty stale stale' ops) = true :=
  cont_session_accepted _ _ (Small.laws_of_small1 (paf_facts c hwf h24)) ty stale stale' ops hv trivial (fun _ _ _ => trivial)

/-! ## IRCAM (PCM_16 / PCM_32 / FLOAT / ULAW / ALAW, either byte order, up to 256 channels; binary32 rate field) -/

def ircamGeom (c : Ircam.Cfg) : AbsWrite.Geom := { word := c.endian * 0x10000000 + 0x0A0000 + c.codec, ch := c.ch, sr := c.sr }

/-- `q`: what the binary32 rate field makes of the rate (`Ircam.rateQ`, through the byte-exact IEEE writer / reader of the model);
    `hrate`: the float32 clause of the predicate (`roundF32`, capped) accepts it — `ircam_rate_clause` evaluates both sides at the
    campaign's rates -/
theorem ircam_facts (c : Ircam.Cfg) (hwf : c.wf) (q : Nat) (hq : Ircam.rateQ c.sr = some q)
    (hrate : rateOk 0x0A c.sr (q : Int) = true) :
    Small.Small1Facts (Ircam.spec c) Ircam.parse (ircamGeom c) (encFor c.codec c.big) (fun _ => True) := by
  obtain ⟨m1, m2, m3⟩ := small1_static_facts (Ircam.spec c) (Ircam.hdr c) (Sf.Ircam.hdr_length c) (C04Ircam.closedBytes_eq c) (C04Ircam.snapshotBytes_eq c)
  obtain ⟨hcd, hch1, _⟩ := Sf.Ircam.cfg_cases c hwf
  have hend : c.endian < 4 := by
    have := hwf.1; unfold Ircam.accepted at this
    simp only [Bool.decide_and, Bool.and_eq_true, decide_eq_true_eq] at this
    exact this.2.1
  have hcodec : (ircamGeom c).codec = c.codec := by
    show (c.endian * 0x10000000 + 0x0A0000 + c.codec) % 0x10000 = c.codec
    rcases hcd with h | h | h | h | h <;> omega
  have hmajor : (ircamGeom c).major = 0x0A := by
    show (c.endian * 0x10000000 + 0x0A0000 + c.codec) / 0x10000 % 0x1000 = 0x0A
    rcases hcd with h | h | h | h | h <;> omega
  have henc : encOf .raw c.codec c.big = some (encFor c.codec c.big) := by
    unfold encFor; rcases hcd with h | h | h | h | h <;> rw [h] <;> simp [encOf]
  have hnbw : (encFor c.codec c.big).nbytes = c.bytewidth := by
    unfold encFor Ircam.Cfg.bytewidth; rcases hcd with h | h | h | h | h <;> rw [h] <;> simp [encOf, Enc.nbytes, PcmFmt.nbytes]
  obtain ⟨hnb, hewf⟩ := encOf_props _ _ _ _ henc
  have hfmt : c.fmtWord % 0x10000000 = (ircamGeom c).word % 0x10000000 := by
    show ((if c.big then 0x20000000 else 0x10000000) + 0x0A0000 + c.codec) % 0x10000000 =
      (c.endian * 0x10000000 + 0x0A0000 + c.codec) % 0x10000000
    rcases hcd with h | h | h | h | h <;> (split <;> omega)
  have hspec : ∀ D, C04Ircam.reopenSpec c D = .ok { ch := c.ch, fmt := c.fmtWord, sr := q, frames := D / c.bw } := by
    intro D; unfold C04Ircam.reopenSpec; rw [hq]
  have hbw : (encFor c.codec c.big).nbytes * (ircamGeom c).ch = c.bw := by rw [hnbw]; rfl
  refine { chpos := hch1, nb := hnb, wf := hewf,
           block := C04.frames_bound_granular _ _ _ _
             (by rw [hcodec]; rcases hcd with h | h | h | h | h <;> rw [h] <;> simp [Geometry.sampleGranular])
             (by rw [hmajor]; simp),
           notRaw := by rw [hmajor]; simp, codec := ⟨_, by rw [hcodec]; exact henc⟩,
           snapForm := m1, closedForm := m2, closedFn := m3, closedParse := ?_, snapParse := ?_ }
  · intro st ops _
    refine ⟨_, (C04Ircam.ircam_reopen_info c hwf st _).trans (hspec _), ?_, rfl, hfmt, ?_⟩
    · show (Sf.Small.opsData (Small.toS1 ops)).length / c.bw = _
      rw [Small.opsData_toS1, hbw]
    · show rateOk (ircamGeom c).major c.sr ((q : Nat) : Int) = true
      rw [hmajor]; exact hrate
  · intro st w _
    obtain ⟨h1, _⟩ := C04Ircam.ircam_snapshot_valid c hwf st w
    exact ⟨_, h1.trans (hspec _), by show _ / c.bw = _; rw [hbw], rfl, hfmt⟩

/-- IRCAM: every job of whole frames is accepted (both byte orders — KF-IRCAM-BE-CHANNELS is repaired —, 1..256 channels) -/
theorem ircam_session_accepted (c : Ircam.Cfg) (hwf : c.wf) (q : Nat) (hq : Ircam.rateQ c.sr = some q)
    (hrate : rateOk 0x0A c.sr (q : Int) = true) (ty : Ty) (stale stale' : Nat) (ops : List Small.Op) (hv : Valid c.ch ty ops) :
    accepted (Small.recordOf (Small.small1Cont (Ircam.spec c) Ircam.parse (ircamGeom c) (encFor c.codec c.big)) ty stale stale' ops) = true :=
  cont_session_accepted _ _ (Small.laws_of_small1 (ircam_facts c hwf q hq hrate)) ty stale stale' ops hv trivial (fun _ _ _ => trivial)

/-! ## the wrapper for any `Cont` whose guard depends on the number of audio bytes only (generalises `small2_session_accepted`) -/

theorem guarded_session_accepted (K : Cont) (P : Nat → Prop) (L : Laws K (guardOf (K.enc.nbytes * K.g.ch) P)) (ty : Ty) (stale stale' : Nat)
    (ops : List Small.Op) (hv : Valid K.g.ch ty ops)
    (hP : ∀ p post, ops = p ++ post → P ((Small.sampleList p).length * K.enc.nbytes)) :
    accepted (Small.recordOf K ty stale stale' ops) = true := by
  have hG : ∀ p, Valid K.g.ch ty p → P ((Small.sampleList p).length * K.enc.nbytes) →
      guardOf (K.enc.nbytes * K.g.ch) P (Small.toW K ty false p) := by
    intro p hvp hp
    obtain ⟨g1, g2⟩ := Small.callsOf_good K.g.ch ty p hvp
    have hl := samples_length K.g.ch _ g1
    rw [g2] at hl
    unfold guardOf
    rw [Small.opsData_toW, Enc.encodeAll_length]
    refine ⟨?_, hp⟩
    rw [hl, Nat.mul_assoc, Nat.mul_comm K.g.ch]; exact Nat.mul_mod_left _ _
  apply cont_session_accepted _ _ L ty stale stale' ops hv
  · apply hG _ (Small.refOps_valid K.g.ch ty L.chpos ops hv)
    rw [Small.refOps_samples]
    simpa using hP ops [] (by simp)
  · intro p post e
    exact hG p (fun o ho => hv o (by rw [e]; simp [ho])) (hP p post e)

/-! ## SVX (8SVX / 16SV, one channel, 16-bit saturating rate field) -/

def svxGeom (c : Svx.Cfg) : AbsWrite.Geom := { word := c.endian * 0x10000000 + 0x060000 + c.codec, ch := c.ch, sr := c.sr }

/-- the re-open fact of the SVX model: the chunk-loop reader `Svx.parse` on a closed file of whole frames shorter than 2^32 audio
    bytes (the BODY size field has 32 bits) reports the requested parameters, the saturated rate and D / bw frames.  Until round 9
    this was THE MISSING FACT, carried as a hypothesis; it is a theorem now — lean/SfProofs/SvxReopen.lean `svx_reopens`, for the reader
    after the repair of KF-SVX-NAME-LENGTH — and `C04Bridge3.svx_session_accepted_all` has no hypothesis left. -/
def SvxReopens (c : Svx.Cfg) : Prop :=
  ∀ st (w : List Sf.Small.WOp), (Sf.Small.opsData w).length % c.bw = 0 → (Sf.Small.opsData w).length < 2 ^ 32 →
    Svx.parse (Sf.Small.closedBytes (Svx.spec c) st w) =
      .ok { ch := c.ch, fmt := c.fmtWord, sr := min c.sr 65535, frames := (Sf.Small.opsData w).length / c.bw }

/-- the guard of SVX: the BODY size field -/
def svxGuard (D : Nat) : Prop := D < 2 ^ 32

theorem svx_facts (c : Svx.Cfg) (hwf : c.wf) (hre : SvxReopens c) :
    Small.Small1Facts (Svx.spec c) Svx.parse (svxGeom c) (encFor c.codec true)
      (guardOf ((encFor c.codec true).nbytes * (svxGeom c).ch) svxGuard) := by
  obtain ⟨m1, m2, m3⟩ := Small.small1_machine_facts (Svx.spec c) (Sf.Svx.spec_lenOk c hwf) rfl rfl
  obtain ⟨hcd, hch1, _⟩ := Sf.Svx.cfg_facts c hwf
  have hend : c.endian = 0 ∨ c.endian = 2 := by
    have := hwf.1; unfold Svx.accepted at this
    simp only [Bool.decide_and, Bool.decide_or, Bool.and_eq_true, Bool.or_eq_true, decide_eq_true_eq] at this
    exact this.2.1
  have hcodec : (svxGeom c).codec = c.codec := by
    show (c.endian * 0x10000000 + 0x060000 + c.codec) % 0x10000 = c.codec
    rcases hcd with h | h <;> omega
  have hmajor : (svxGeom c).major = 0x06 := by
    show (c.endian * 0x10000000 + 0x060000 + c.codec) / 0x10000 % 0x1000 = 0x06
    rcases hcd with h | h <;> omega
  have henc : encOf .raw c.codec true = some (encFor c.codec true) := by
    unfold encFor; rcases hcd with h | h <;> rw [h] <;> simp [encOf]
  have hnbw : (encFor c.codec true).nbytes = c.bytewidth := by
    unfold encFor Svx.Cfg.bytewidth; rcases hcd with h | h <;> rw [h] <;> simp [encOf, Enc.nbytes, PcmFmt.nbytes]
  obtain ⟨hnb, hewf⟩ := encOf_props _ _ _ _ henc
  have hbw : (encFor c.codec true).nbytes * (svxGeom c).ch = c.bw := by rw [hnbw]; rfl
  have hfmt : c.fmtWord % 0x10000000 = (svxGeom c).word % 0x10000000 := by
    show (0x060000 + c.codec) % 0x10000000 = (c.endian * 0x10000000 + 0x060000 + c.codec) % 0x10000000
    rcases hcd with h | h <;> omega
  refine { chpos := by show 0 < c.ch; omega, nb := hnb, wf := hewf,
           block := C04.frames_bound_granular _ _ _ _
             (by rw [hcodec]; rcases hcd with h | h <;> rw [h] <;> simp [Geometry.sampleGranular])
             (by rw [hmajor]; simp),
           notRaw := by rw [hmajor]; simp, codec := ⟨_, by rw [hcodec]; exact henc⟩,
           snapForm := m1, closedForm := m2, closedFn := m3, closedParse := ?_, snapParse := ?_ }
  · intro st ops hg
    rw [hbw] at hg ⊢
    have hm : (Sf.Small.opsData (Small.toS1 ops)).length % c.bw = 0 := by rw [Small.opsData_toS1]; exact hg.1
    have hD : (Sf.Small.opsData (Small.toS1 ops)).length < 2 ^ 32 := by rw [Small.opsData_toS1]; exact hg.2
    refine ⟨_, hre st _ hm hD, by show _ / c.bw = _; rw [Small.opsData_toS1], rfl, hfmt, ?_⟩
    show rateOk (svxGeom c).major c.sr ((min c.sr 65535 : Nat) : Int) = true
    rw [hmajor]
    simp [rateOk, rateClass]                 -- the 16-bit clause is exact: min sr 65535
  · intro st w ⟨ops, hg, e⟩
    rw [hbw] at hg ⊢
    have hm : (Sf.Small.opsData w).length % c.bw = 0 := by rw [e]; exact hg.1
    have hD : (Sf.Small.opsData w).length < 2 ^ 32 := by rw [e]; exact hg.2
    rw [C04Svx.snapshotBytes_eq c hwf]
    exact ⟨_, hre st w hm hD, rfl, rfl, hfmt⟩

/-- SVX: every job of whole frames below 2^32 audio bytes is accepted, given the re-open fact of the chunk-loop reader (`SvxReopens`:
    proved in round 9, see `C04Bridge3.svx_session_accepted_all`) -/
theorem svx_session_accepted (c : Svx.Cfg) (hwf : c.wf) (hre : SvxReopens c) (ty : Ty) (stale stale' : Nat) (ops : List Small.Op)
    (hv : Valid c.ch ty ops) (hguard : svxGuard ((Small.sampleList ops).length * (encFor c.codec true).nbytes)) :
    accepted (Small.recordOf (Small.small1Cont (Svx.spec c) Svx.parse (svxGeom c) (encFor c.codec true)) ty stale stale' ops) = true := by
  apply guarded_session_accepted _ svxGuard (Small.laws_of_small1 (svx_facts c hwf hre)) ty stale stale' ops hv
  intro p post e
  have : (Small.sampleList p).length ≤ (Small.sampleList ops).length := by rw [e, Small.sampleList_append]; simp
  have h2 := Nat.mul_le_mul_right (encFor c.codec true).nbytes this
  unfold svxGuard at *
  exact Nat.lt_of_le_of_lt h2 hguard

/-- `SvxReopens` on concrete sessions, by evaluation of the model's reader (8-bit at a saturating rate, 16-bit with a file name) -/
example : Svx.parse (Sf.Small.closedBytes (Svx.spec C04Svx.exVio) 0 [.write [1, 2, 3] false]) =
      .ok { ch := 1, fmt := C04Svx.exVio.fmtWord, sr := min C04Svx.exVio.sr 65535, frames := 3 } ∧
    Svx.parse (Sf.Small.closedBytes (Svx.spec C04Svx.exCfg) 99 C04Svx.exOps) =
      .ok { ch := 1, fmt := C04Svx.exCfg.fmtWord, sr := min C04Svx.exCfg.sr 65535, frames := 3 } := by decide +kernel

/-! ## containers whose open function drops the caller's frames value before the first header (NIST: `psf->sf.frames = 0`) -/

/-- the same container with the stale frames value pinned at open -/
def fixStale (K : Cont) (s0 : Nat) : Cont := { K with closed := fun _ ops => K.closed s0 ops, store := fun _ ops => K.store s0 ops }

theorem laws_fixStale {K : Cont} {G : List Small2.WOp → Prop} (L : Laws K G) (s0 : Nat) : Laws (fixStale K s0) G :=
  { chpos := L.chpos, nb := L.nb, wf := L.wf, block := L.block, notRaw := L.notRaw, codec := L.codec,
    closedForm := fun _ ops h => L.closedForm s0 ops h, closedParse := fun _ ops h => L.closedParse s0 ops h,
    closedFn := fun _ _ ops ops' h => L.closedFn s0 s0 ops ops' h,
    storeForm := fun _ ops h he => L.storeForm s0 ops h he, storeParse := fun _ ops h he => L.storeParse s0 ops h he }

/-! ## NIST / SPHERE (PCM_S8 / 16 / 24 / 32, ULAW, ALAW; 1024-byte text header; decimal rate and sample count) -/

def nistGeom (c : Nist.Cfg) : AbsWrite.Geom := { word := c.endian * 0x10000000 + 0x070000 + c.codec, ch := c.ch, sr := c.sr }

theorem nist_facts (c : Nist.Cfg) (hwf : c.wf) :
    Small.Small2Facts (Nist.fmt c) Nist.parse (nistGeom c) (encFor c.codec c.big)
      (guardOf ((encFor c.codec c.big).nbytes * (nistGeom c).ch) (fun D => D / c.bw < 2 ^ 63)) := by
  obtain ⟨m1, m2, m3⟩ := small2_machine_facts (Nist.fmt c) (Sf.Nist.lawful c) rfl
  obtain ⟨hcd, hend, hch1, hch2, hsr1, hsr2⟩ := hwf
  have hcodec : (nistGeom c).codec = c.codec := by
    show (c.endian * 0x10000000 + 0x070000 + c.codec) % 0x10000 = c.codec
    rcases hcd with h | h | h | h | h | h <;> omega
  have hmajor : (nistGeom c).major = 0x07 := by
    show (c.endian * 0x10000000 + 0x070000 + c.codec) / 0x10000 % 0x1000 = 0x07
    rcases hcd with h | h | h | h | h | h <;> omega
  have henc : encOf .raw c.codec c.big = some (encFor c.codec c.big) := by
    unfold encFor; rcases hcd with h | h | h | h | h | h <;> rw [h] <;> simp [encOf]
  have hnbw : (encFor c.codec c.big).nbytes = Nist.bytewidth c.codec := by
    unfold encFor; rcases hcd with h | h | h | h | h | h <;> rw [h] <;> simp [encOf, Enc.nbytes, PcmFmt.nbytes, Nist.bytewidth]
  have hbw : (encFor c.codec c.big).nbytes * (nistGeom c).ch = c.bw := by rw [hnbw]; rfl
  obtain ⟨hnb, hewf⟩ := encOf_props _ _ _ _ henc
  refine { chpos := hch1, nb := hnb, wf := hewf,
           block := C04.frames_bound_granular _ _ _ _
             (by rw [hcodec]; rcases hcd with h | h | h | h | h | h <;> rw [h] <;> simp [Geometry.sampleGranular])
             (by rw [hmajor]; simp),
           notRaw := by rw [hmajor]; simp, codec := ⟨_, by rw [hcodec]; exact henc⟩,
           snapForm := m1, closedIsSnap := m2, snapFn := m3, snapParse := ?_, Gdata := fun a b e h => by unfold guardOf at *; rw [← e]; exact h }
  intro st ops hg
  rw [hbw] at hg ⊢
  obtain ⟨h1, _⟩ := C04Nist.nist_snapshot_valid c ⟨hcd, hend, hch1, hch2, hsr1, hsr2⟩ 0 ops hg.2
  have e : Small2.snapshotBytes (Nist.fmt c) st ops = Nist.snapshotBytes c 0 ops := m3 st 0 ops ops rfl
  rw [e]
  refine ⟨_, h1, rfl, rfl, ?_, ?_⟩
  · show ((if c.codec = 2 ∨ c.codec = 3 ∨ c.codec = 4 then (if c.big then 0x20000000 else 0x10000000) else 0) + 0x070000 + c.codec) % 0x10000000 =
      (c.endian * 0x10000000 + 0x070000 + c.codec) % 0x10000000
    rcases hcd with h | h | h | h | h | h <;> (split <;> (try split) <;> omega)
  · show rateOk (nistGeom c).major c.sr ((Nist.quant c.sr : Nat) : Int) = true
    rw [hmajor]; simp [rateOk, rateClass, Nist.quant]

/-- the NIST container as the bridge sees it: `nist_open` clears `sf.frames` before the first header, so the caller's stale value
    never reaches the session machine (`Nist.openW c stale = Small2.openW (fmt c) 0`) -/
def nistCont (c : Nist.Cfg) : Cont := fixStale (small2Cont (Nist.fmt c) Nist.parse (nistGeom c) (encFor c.codec c.big)) 0

/-- `nistCont` IS the model: its closed file and its store are `Nist.closedBytes` / the store of `Nist.openW`'s session -/
theorem nistCont_is_model (c : Nist.Cfg) (st : Nat) (ops : List Small2.WOp) :
    (nistCont c).closed st ops = Nist.closedBytes c st ops ∧
    (nistCont c).store st ops = (Small2.run (Nist.fmt c) (Nist.openW c st) ops).bytes := ⟨rfl, rfl⟩

/-- NIST: every job of whole frames is accepted under the guard of the 64-bit `sample_count` line (fewer than 2^63 frames) -/
theorem nist_session_accepted (c : Nist.Cfg) (hwf : c.wf) (ty : Ty) (stale stale' : Nat) (ops : List Small.Op)
    (hv : Valid c.ch ty ops) (hguard : (Small.sampleList ops).length * (encFor c.codec c.big).nbytes / c.bw < 2 ^ 63) :
    accepted (Small.recordOf (nistCont c) ty stale stale' ops) = true := by
  apply guarded_session_accepted (nistCont c) (fun D => D / c.bw < 2 ^ 63) (laws_fixStale (laws_of_small2 (nist_facts c hwf)) 0) ty stale stale' ops hv
  intro p post e
  have : (Small.sampleList p).length ≤ (Small.sampleList ops).length := by rw [e, Small.sampleList_append]; simp
  exact Nat.lt_of_le_of_lt (Nat.div_le_div_right (Nat.mul_le_mul_right _ this)) hguard

/-! ## MAT5 (PCM_U8 / PCM_16 / PCM_32 / FLOAT / DOUBLE, both byte orders; 264-byte header; the reader takes the frames from the file length) -/

def mat5Geom (c : Mat5.Cfg) : AbsWrite.Geom := { word := c.endian * 0x10000000 + 0x0D0000 + c.codec, ch := c.ch, sr := c.sr }

theorem mat5_facts (c : Mat5.Cfg) (hwf : c.wf) :
    Small.Small2Facts (Mat5.fmt c) Mat5.parse (mat5Geom c) (encFor c.codec (!c.little)) (fun _ => True) := by
  have hwf0 := hwf
  obtain ⟨hcd, hend, hch1, hch2, hsr1, hsr2, ht, _, _⟩ := hwf
  obtain ⟨m1, m2, m3⟩ := small2_machine_facts (Mat5.fmt c) (Sf.Mat5.lawful c ht) rfl
  have hcodec : (mat5Geom c).codec = c.codec := by
    show (c.endian * 0x10000000 + 0x0D0000 + c.codec) % 0x10000 = c.codec
    rcases hcd with h | h | h | h | h <;> omega
  have hmajor : (mat5Geom c).major = 0x0D := by
    show (c.endian * 0x10000000 + 0x0D0000 + c.codec) / 0x10000 % 0x1000 = 0x0D
    rcases hcd with h | h | h | h | h <;> omega
  have henc : encOf .raw c.codec (!c.little) = some (encFor c.codec (!c.little)) := by
    unfold encFor; rcases hcd with h | h | h | h | h <;> rw [h] <;> simp [encOf]
  have hnbw : (encFor c.codec (!c.little)).nbytes = Mat5.bytewidth c.codec := by
    unfold encFor; rcases hcd with h | h | h | h | h <;> rw [h] <;> simp [encOf, Enc.nbytes, PcmFmt.nbytes, Mat5.bytewidth]
  obtain ⟨hnb, hewf⟩ := encOf_props _ _ _ _ henc
  refine { chpos := hch1, nb := hnb, wf := hewf,
           block := C04.frames_bound_granular _ _ _ _
             (by rw [hcodec]; rcases hcd with h | h | h | h | h <;> rw [h] <;> simp [Geometry.sampleGranular])
             (by rw [hmajor]; simp),
           notRaw := by rw [hmajor]; simp, codec := ⟨_, by rw [hcodec]; exact henc⟩,
           snapForm := m1, closedIsSnap := m2, snapFn := m3, snapParse := ?_, Gdata := fun _ _ _ h => h }
  intro st ops _
  obtain ⟨h1, _⟩ := C04Mat5.mat5_snapshot_valid c hwf0 st ops
  refine ⟨_, h1, by rw [hnbw]; rfl, rfl, ?_, ?_⟩
  · show ((if c.little then 0x10000000 else 0x20000000) + 0x0D0000 + c.codec) % 0x10000000 =
      (c.endian * 0x10000000 + 0x0D0000 + c.codec) % 0x10000000
    rcases hcd with h | h | h | h | h <;> (split <;> omega)
  · show rateOk (mat5Geom c).major c.sr ((Mat5.quant c.sr : Nat) : Int) = true
    rw [C04Mat5.mat5_rate_exact c.sr hsr1 hsr2, hmajor]; simp [rateOk, rateClass]

/-- MAT5: every job of whole frames is accepted — no guard (the reader takes the frame count from the file length), no class -/
theorem mat5_session_accepted (c : Mat5.Cfg) (hwf : c.wf) (ty : Ty) (stale stale' : Nat) (ops : List Small.Op) (hv : Valid c.ch ty ops) :
    accepted (Small.recordOf (small2Cont (Mat5.fmt c) Mat5.parse (mat5Geom c) (encFor c.codec (!c.little))) ty stale stale' ops) = true :=
  cont_session_accepted _ _ (laws_of_small2 (mat5_facts c hwf)) ty stale stale' ops hv trivial (fun _ _ _ => trivial)

/-! ## VOC (PCM_U8 / PCM_16 / ULAW / ALAW, one or two channels; `voc_close` appends the terminator block: closed file ≠ update image) -/

def vocGeom (c : Voc.Cfg) : AbsWrite.Geom := { word := 0x080000 + c.codec, ch := c.ch, sr := c.sr }

/-- the VOC container as the bridge sees it: `Voc.closedBytes` (header recomputed with the terminator's offset as data end, audio,
    terminator byte), the store of the `Small2` session machine, `Voc.parse` -/
def vocCont (c : Voc.Cfg) : Cont :=
  { small2Cont (Voc.fmt c) Voc.parse (vocGeom c) (encFor c.codec false) with closed := Voc.closedBytes c }

/-- the guard of `voc_reopen_info`: the 3-byte block length -/
def vocGuard (D : Nat) : Prop := D + 14 < 2 ^ 24

/-- the rate clause for the type 9 block (every encoding but PCM_U8): the rate is stored as a 32-bit number, exact; VOC's class in
    the predicate is `.divisor` (1 MHz / (256 − divisor), the PCM_U8 block), whose tolerance an exact answer meets trivially -/
theorem voc_rate_ok9 (c : Voc.Cfg) (h5 : c.codec ≠ 5) : rateOk 0x08 c.sr ((Voc.quant c : Nat) : Int) = true := by
  rw [C04Voc.voc_rate_exact9 c h5]
  have hc : rateClass 0x08 = .divisor := by decide
  unfold rateOk; rw [hc]; simp

theorem voc_laws (c : Voc.Cfg) (hwf : c.wf) (hrate : rateOk 0x08 c.sr ((Voc.quant c : Nat) : Int) = true) :
    Laws (vocCont c) (guardOf ((encFor c.codec false).nbytes * (vocGeom c).ch) vocGuard) := by
  have hwf0 := hwf
  obtain ⟨hcd, hch, hsr1, hsr2⟩ := hwf
  obtain ⟨m1, m2, m3⟩ := small2_machine_facts (Voc.fmt c) (Sf.Voc.lawful c) rfl
  have hcodec : (vocGeom c).codec = c.codec := by
    show (0x080000 + c.codec) % 0x10000 = c.codec
    rcases hcd with h | h | h | h <;> omega
  have hmajor : (vocGeom c).major = 0x08 := by
    show (0x080000 + c.codec) / 0x10000 % 0x1000 = 0x08
    rcases hcd with h | h | h | h <;> omega
  have henc : encOf .raw c.codec false = some (encFor c.codec false) := by
    unfold encFor; rcases hcd with h | h | h | h <;> rw [h] <;> simp [encOf]
  have hnbw : (encFor c.codec false).nbytes = Voc.bytewidth c.codec := by
    unfold encFor; rcases hcd with h | h | h | h <;> rw [h] <;> simp [encOf, Enc.nbytes, PcmFmt.nbytes, Voc.bytewidth]
  have hbw : (encFor c.codec false).nbytes * (vocGeom c).ch = c.bw := by rw [hnbw]; rfl
  obtain ⟨hnb, hewf⟩ := encOf_props _ _ _ _ henc
  have hchpos : 0 < (vocGeom c).ch := by show 0 < c.ch; rcases hch with h | h <;> omega
  have hblock : (vocGeom c).block = 1 := C04.frames_bound_granular _ _ _ _
    (by rw [hcodec]; rcases hcd with h | h | h | h <;> rw [h] <;> simp [Geometry.sampleGranular]) (by rw [hmajor]; simp)
  -- the update images: the Small2 machine of `Voc.fmt`
  have X : Small.Small2Facts (Voc.fmt c) Voc.parse (vocGeom c) (encFor c.codec false)
      (guardOf ((encFor c.codec false).nbytes * (vocGeom c).ch) vocGuard) := by
    refine { chpos := hchpos, nb := hnb, wf := hewf, block := hblock, notRaw := by rw [hmajor]; simp,
             codec := ⟨_, by rw [hcodec]; exact henc⟩, snapForm := m1, closedIsSnap := m2, snapFn := m3, snapParse := ?_,
             Gdata := fun a b e h => by unfold guardOf at *; rw [← e]; exact h }
    intro st ops hg
    rw [hbw] at hg ⊢
    have e := m3 st st ops [.write (Small2.opsData ops) false] (by simp [Small2.opsData])
    obtain ⟨h1, _⟩ := C04Voc.voc_snapshot_valid c hwf0 st [.write (Small2.opsData ops) false] (whole_single _ _ hg.1)
      (by simpa [Small2.opsData, vocGuard] using hg.2)
    have e' : Small2.snapshotBytes (Voc.fmt c) st [.write (Small2.opsData ops) false] = Voc.snapshotBytes c st [.write (Small2.opsData ops) false] := rfl
    rw [← e', ← e] at h1
    refine ⟨_, h1, by simp [Small2.opsData], rfl, rfl, ?_⟩
    rw [hmajor]; exact hrate
  have L2 := laws_of_small2 X
  have hK : ∀ st ops, (vocCont c).store st ops = (small2Cont (Voc.fmt c) Voc.parse (vocGeom c) (encFor c.codec false)).store st ops := fun _ _ => rfl
  have sF : ∀ st ops, guardOf ((encFor c.codec false).nbytes * (vocGeom c).ch) vocGuard ops → Small.EndsInRewrite ops →
      ∃ hdr tail, hdr.length = c.hdrLen ∧ (vocCont c).store st ops = hdr ++ Small2.opsData ops ++ tail := L2.storeForm
  have sP : ∀ st ops, guardOf ((encFor c.codec false).nbytes * (vocGeom c).ch) vocGuard ops → Small.EndsInRewrite ops →
      ∃ i, Voc.parse ((vocCont c).store st ops) = .ok i ∧ i.frames = (Small2.opsData ops).length / ((encFor c.codec false).nbytes * (vocGeom c).ch) ∧
        i.ch = (vocGeom c).ch ∧ i.fmt % 0x10000000 = (vocGeom c).word % 0x10000000 := L2.storeParse
  refine ⟨L2.chpos, L2.nb, L2.wf, L2.block, L2.notRaw, L2.codec, ?_, ?_, ?_, sF, sP⟩
  · intro st ops _
    exact ⟨_, [0], Sf.Voc.hdr_length c _, by show Voc.closedBytes c st ops = _; rw [C04Voc.closed_eq, List.append_assoc]⟩
  · intro st ops hg
    have hg' := hg
    show ∃ i, Voc.parse (Voc.closedBytes c st ops) = Small2.ParseRes.ok i ∧
      i.frames = (Small2.opsData ops).length / ((encFor c.codec false).nbytes * (vocGeom c).ch) ∧ i.ch = (vocGeom c).ch ∧
      i.fmt % 0x10000000 = (vocGeom c).word % 0x10000000 ∧ rateOk (vocGeom c).major (vocGeom c).sr (i.sr : Int) = true
    rw [hbw] at hg' ⊢
    have e := C04Voc.voc_updates_dont_change_file c st ops
    have h1 := C04Voc.voc_reopen_info c hwf0 st [.write (Small2.opsData ops) false] (whole_single _ _ hg'.1)
      (by simpa [Small2.opsData, vocGuard] using hg'.2)
    rw [← e] at h1
    refine ⟨_, h1, by simp [Small2.opsData], rfl, rfl, ?_⟩
    rw [hmajor]; exact hrate
  · intro a b ops ops' h
    show Voc.closedBytes c a ops = Voc.closedBytes c b ops'
    rw [C04Voc.closed_eq, C04Voc.closed_eq, h]

/-- VOC: every job of whole frames is accepted under the guard of the 3-byte block length, asked of the finished file and of every
    crash image; `hrate` is the `.divisor` clause on the model's quantiser — free for the type 9 block (`voc_rate_ok9`), the
    tolerance of the one-byte divisor for PCM_U8 -/
theorem voc_session_accepted (c : Voc.Cfg) (hwf : c.wf) (hrate : rateOk 0x08 c.sr ((Voc.quant c : Nat) : Int) = true)
    (ty : Ty) (stale stale' : Nat) (ops : List Small.Op) (hv : Valid c.ch ty ops)
    (hguard : vocGuard ((Small.sampleList ops).length * (encFor c.codec false).nbytes)) :
    accepted (Small.recordOf (vocCont c) ty stale stale' ops) = true := by
  apply guarded_session_accepted (vocCont c) vocGuard (voc_laws c hwf hrate) ty stale stale' ops hv
  intro p post e
  have : (Small.sampleList p).length ≤ (Small.sampleList ops).length := by rw [e, Small.sampleList_append]; simp
  have h2 := Nat.mul_le_mul_right (encFor c.codec false).nbytes this
  unfold vocGuard at *
  show _ + 14 < 2 ^ 24
  exact Nat.lt_of_le_of_lt (Nat.add_le_add_right h2 14) hguard


end Sf.C04Bridge2
