-- properties: C04 C11
/-
  C04 / C11 — the Portable Voice Format container (stand-alone L1 model SfModel/Pvf.lean; helpers
  SfProofs/PvfImage.lean, SfProofs/Small2Session.lean).  Property theorems only.

  A *session* is `openW`, any list of `WOp`s (write calls, SFC_UPDATE_HEADER_NOW, auto mode), then `close`.  The PVF
  header holds no length, so every header update rewrites the same text and the closed file is simply
  `header ++ audio`.
-/
import SfModel.Pvf
import SfProofs.PvfImage
namespace Sf.C04Pvf
open Sf Sf.Small2 Sf.Pvf

/-- the rate is stored as decimal text: every rate in [1, 2^31 − 1] is reported back exactly -/
theorem pvf_rate_exact (sr : Nat) : quant sr = sr := rfl

/-- printf "%d" followed by sscanf "%d" is the identity on every non-negative int -/
theorem pvf_decimal_roundtrip (n : Nat) : scanInt (digits n) = some ((n : Int), []) := by
  have := scanInt_digits n [] (by intro b r h; cases h)
  simpa using this

example : digits 44100 = [0x34, 0x34, 0x31, 0x30, 0x30] ∧ scanInt (digits 2147483647) = some (2147483647, []) := by decide +kernel

theorem closedBytes_eq (c : Cfg) (stale : Nat) (ops : List WOp) :
    closedBytes (fmt c) stale ops = hdr c ++ opsData ops ∧ snapshotBytes (fmt c) stale ops = hdr c ++ opsData ops :=
  closedBytes_const (fmt c) (lawfulConst c) stale ops

/-- the class of the repaired defect KF-PVF-SHORT-HEADER: the text header is shorter than the 12 bytes that
    `guess_file_type` leaves in the header cache -/
def KF.shortHeader (c : Cfg) : Prop := (hdr c).length < 12
instance (c : Cfg) : Decidable (KF.shortHeader c) := by unfold KF.shortHeader; infer_instance

theorem digits_length_one (n : Nat) : (digits n).length = 1 ↔ n < 10 := by
  constructor
  · intro h
    by_cases hn : n < 10
    · exact hn
    · have hd : digits n = digits (n / 10) ++ [n % 10 + 48] := by rw [digits]; simp [hn]
      rw [hd, List.length_append, List.length_singleton] at h
      have : (digits (n / 10)).length ≠ 0 := fun h0 => digits_ne_nil _ (List.eq_nil_of_length_eq_zero h0)
      omega
  · intro hn
    have hd : digits n = [n + 48] := by rw [digits]; simp [hn]
    rw [hd]; rfl

/-- the class in terms of the configuration: 8-bit samples, fewer than 10 channels, a rate below 10 Hz
    ("PVF1\nC R 8\n" is 11 bytes) -/
theorem pvf_short_header_class (c : Cfg) (hwf : c.wf) : KF.shortHeader c ↔ c.codec = 1 ∧ c.ch < 10 ∧ c.sr < 10 := by
  have hl : (hdr c).length = 8 + (digits c.ch).length + (digits c.sr).length + (digits (bytewidth c.codec * 8)).length := by
    simp [hdr, line]; omega
  have p1 : (digits c.ch).length ≠ 0 := fun h0 => digits_ne_nil _ (List.eq_nil_of_length_eq_zero h0)
  have p2 : (digits c.sr).length ≠ 0 := fun h0 => digits_ne_nil _ (List.eq_nil_of_length_eq_zero h0)
  have p3 : (digits (bytewidth c.codec * 8)).length ≠ 0 := fun h0 => digits_ne_nil _ (List.eq_nil_of_length_eq_zero h0)
  have q1 := digits_length_one c.ch
  have q2 := digits_length_one c.sr
  have q3 := digits_length_one (bytewidth c.codec * 8)
  have hb : bytewidth c.codec * 8 < 10 ↔ c.codec = 1 := by
    unfold bytewidth; rcases hwf.1 with h | h | h <;> simp [h]
  unfold KF.shortHeader
  rw [hl]
  constructor
  · intro h
    exact ⟨hb.mp (q3.mp (by omega)), q1.mp (by omega), q2.mp (by omega)⟩
  · intro ⟨h1, h2, h3⟩
    have := q1.mpr h2; have := q2.mpr h3; have := q3.mpr (hb.mpr h1)
    omega

/-- what C04 asks of PVF, of a reader `p` and of files of at least `lo` bytes -/
def reopenFull (p : List Byte → ParseRes) (lo : Nat) : Prop :=
  ∀ (c : Cfg), c.wf → ∀ (stale : Nat) (ops : List WOp), lo ≤ (hdr c).length + (opsData ops).length →
    p (closedBytes (fmt c) stale ops) =
      .ok { ch := c.ch, fmt := 0x0E0000 + c.codec, sr := c.sr, frames := (opsData ops).length / (bytewidth c.codec * c.ch) }

/-- the full statement: every closed file -/
def pvf_reopen_full : Prop := reopenFull parse 0

/-- the class of the repaired defect KF-PVF-TINY-FILE: the whole file is shorter than the 12 bytes the type detection
    used to insist on (an 11-byte header and no audio) -/
def KF.tinyFile (c : Cfg) (ops : List WOp) : Prop := (hdr c).length + (opsData ops).length < 12
instance (c : Cfg) (ops : List WOp) : Decidable (KF.tinyFile c ops) := by unfold KF.tinyFile; infer_instance

/-- **pvf_reopen_info** (full strength: no class is excluded any more — KF.shortHeader since the repair of
    KF-PVF-SHORT-HEADER, KF.tinyFile since the repair of KF-PVF-TINY-FILE: `guess_file_type` probes what a file shorter
    than 12 bytes has).  For every accepted configuration and every session — also the 11-byte file without audio —
    the closed file re-opens with the requested channels, PVF / the requested PCM width, exactly the requested rate, and
    frames = audio bytes / block width. -/
theorem pvf_reopen_info (c : Cfg) (hwf : c.wf) (stale : Nat) (ops : List WOp) :
    parse (closedBytes (fmt c) stale ops) =
      .ok { ch := c.ch, fmt := 0x0E0000 + c.codec, sr := quant c.sr, frames := (opsData ops).length / (bytewidth c.codec * c.ch) } := by
  rw [(closedBytes_eq c stale ops).1]
  show parseWith true _ = _
  rw [parseWith_image true c hwf _ (by intro h; cases h)]
  have : offOf true c = (hdr c).length := rfl
  rw [this, Nat.add_sub_cancel_left]; rfl

/-- the full statement holds -/
theorem pvf_reopen_holds : pvf_reopen_full := fun c hwf stale ops _ => pvf_reopen_info c hwf stale ops

theorem pvf_reopen_partial : reopenFull parse 12 := fun c hwf stale ops _ => pvf_reopen_info c hwf stale ops

/-- **pvf_short_header_old_rule.**  Before the repair (`psf->dataoffset = psf_ftell (psf)`), inside the class
    KF.shortHeader and with at least one byte of audio, the reader started the audio one byte late (data offset 12
    instead of 11): it reported (audio bytes − 1) / block width frames and shifted samples -/
theorem pvf_short_header_old_rule (c : Cfg) (hwf : c.wf) (stale : Nat) (ops : List WOp) (hk : KF.shortHeader c)
    (h1 : 12 ≤ (hdr c).length + (opsData ops).length) :
    parseOld (closedBytes (fmt c) stale ops) =
      .ok { ch := c.ch, fmt := 0x0E0000 + c.codec, sr := c.sr,
            frames := ((hdr c).length + (opsData ops).length - 12) / (bytewidth c.codec * c.ch) } := by
  unfold KF.shortHeader at hk
  rw [(closedBytes_eq c stale ops).1]
  show parseWith false _ = _
  rw [parseWith_image false c hwf _ (fun _ => by simp; omega)]
  have : offOf false c = 12 := by unfold offOf; exact Nat.max_eq_left (by omega)
  rw [this]

/-- … and outside that class the old reader did what the current one does -/
theorem pvf_reopen_info_old_rule (c : Cfg) (hwf : c.wf) (stale : Nat) (ops : List WOp) (hk : ¬ KF.shortHeader c) :
    parseOld (closedBytes (fmt c) stale ops) =
      .ok { ch := c.ch, fmt := 0x0E0000 + c.codec, sr := c.sr, frames := (opsData ops).length / (bytewidth c.codec * c.ch) } := by
  unfold KF.shortHeader at hk
  rw [(closedBytes_eq c stale ops).1]
  show parseWith false _ = _
  rw [parseWith_image false c hwf _ (fun _ => by simp; omega)]
  have : offOf false c = (hdr c).length := by unfold offOf; exact Nat.max_eq_right (by omega)
  rw [this, Nat.add_sub_cancel_left]

/-- **pvf_tiny_not_reopened_old_rule.**  Before the repair of KF-PVF-TINY-FILE (a 12-byte probe or SFE_BAD_FILE_READ) every
    closed file in the class KF.tinyFile was refused -/
theorem pvf_tiny_not_reopened_old_rule (c : Cfg) (stale : Nat) (ops : List WOp) (h : KF.tinyFile c ops) :
    parseProbe12 (closedBytes (fmt c) stale ops) = .err := by
  unfold KF.tinyFile at h
  rw [(closedBytes_eq c stale ops).1]
  unfold parseProbe12 parseWithP
  rw [if_pos ⟨by simp; omega, Or.inl rfl⟩]

/-- … and outside that class the old probe did what the current one does -/
theorem pvf_reopen_info_probe12_old_rule (c : Cfg) (stale : Nat) (ops : List WOp) (hk : ¬ KF.tinyFile c ops) :
    parseProbe12 (closedBytes (fmt c) stale ops) = parse (closedBytes (fmt c) stale ops) := by
  unfold KF.tinyFile at hk
  rw [(closedBytes_eq c stale ops).1]
  unfold parseProbe12 parse parseWith parseWithP
  have h12 : ¬ (hdr c ++ opsData ops).length < 12 := by simp; omega
  rw [if_neg (fun h => h12 h.1), if_neg (fun h => h12 h.1)]

/-- two channels of 8-bit samples at 1 Hz, three frames (findings/kf_pvf_short_header.txt) -/
def shortCfg : Cfg := ⟨1, 2, 1⟩
def shortOps : List WOp := [.write [1, 2, 3, 4, 5, 6] false]

/-- the witness of the repaired KF-PVF-SHORT-HEADER re-opens with its three frames; the old reader found two; the
    11-byte file without audio (the repaired KF-PVF-TINY-FILE, findings/kf_pvf_tiny_file.txt) re-opens with no frames,
    the old probe refused it -/
theorem pvf_short_witness : shortCfg.wf ∧ KF.shortHeader shortCfg ∧
    parse (closedBytes (fmt shortCfg) 0 shortOps) = .ok ⟨2, 0x0E0001, 1, 3⟩ ∧
    parseOld (closedBytes (fmt shortCfg) 0 shortOps) = .ok ⟨2, 0x0E0001, 1, 2⟩ ∧
    KF.tinyFile shortCfg [] ∧ (closedBytes (fmt shortCfg) 7 []).length = 11 ∧
    parse (closedBytes (fmt shortCfg) 7 []) = .ok ⟨2, 0x0E0001, 1, 0⟩ ∧
    parseProbe12 (closedBytes (fmt shortCfg) 7 []) = .err := by decide +kernel

/-- the full statement failed for the old reader on files of at least 12 bytes: the three frames re-opened as two -/
theorem pvf_reopen_old_rule_fails : ¬ reopenFull parseOld 12 := by
  intro h
  have h1 := h shortCfg pvf_short_witness.1 0 shortOps (by decide +kernel)
  rw [pvf_short_witness.2.2.2.1] at h1
  revert h1; decide

/-- the full statement failed for the old probe, for the 11-byte file (KF-PVF-TINY-FILE) -/
theorem pvf_reopen_probe12_old_rule_fails : ¬ reopenFull parseProbe12 0 := by
  intro h
  have h1 := h shortCfg pvf_short_witness.1 7 [] (by decide)
  rw [pvf_short_witness.2.2.2.2.2.2.2] at h1
  revert h1; decide

def exCfg : Cfg := ⟨2, 2, 44100⟩
def exOps : List WOp := [.write [0, 1, 0, 2] false, .update, .write [0, 3, 0, 4, 0, 5, 0, 6] true]
example : exCfg.wf ∧ (closedBytes (fmt exCfg) 77 exOps).length = 28 ∧
    parse (closedBytes (fmt exCfg) 77 exOps) = .ok ⟨2, 0x0E0002, 44100, 3⟩ := by decide +kernel

/-- **pvf_size_fields.**  PVF has no size field: the closed file is exactly the text header followed by the audio
    (nothing is padded), so its length is header + audio bytes. -/
theorem pvf_size_fields (c : Cfg) (stale : Nat) (ops : List WOp) (bytes : List Byte) (D : Nat)
    (hbytes : bytes = closedBytes (fmt c) stale ops) (hD : D = (opsData ops).length) :
    bytes.length = (hdr c).length + D ∧ bytes.take (hdr c).length = hdr c ∧ bytes.drop (hdr c).length = opsData ops := by
  rw [(closedBytes_eq c stale ops).1] at hbytes
  subst hbytes hD
  exact ⟨by simp, take_append_len _ _ _ rfl, drop_append_len _ _ _ rfl⟩

example : (closedBytes (fmt exCfg) 77 exOps).take 16 = hdr exCfg := by decide +kernel

/-- **pvf_frames_bound.**  PCM is sample-granular and nothing is padded: `N` frames re-open as exactly `N`. -/
theorem pvf_frames_bound (bw N : Nat) (hbw : 0 < bw) : (N * bw) / bw = N ∧ N ≤ (N * bw) / bw ∧ (N * bw) / bw < N + 1 := by
  have : (N * bw) / bw = N := Nat.mul_div_cancel _ hbw
  omega

example : (3 * 4) / 4 = 3 := by decide

/-- **stale_frames_ignored_pvf.**  No image of the store depends on the frames value the caller left in SF_INFO. -/
theorem stale_frames_ignored_pvf (c : Cfg) (a b : Nat) (ops : List WOp) :
    closedBytes (fmt c) a ops = closedBytes (fmt c) b ops ∧ snapshotBytes (fmt c) a ops = snapshotBytes (fmt c) b ops := by
  rw [(closedBytes_eq c a ops).1, (closedBytes_eq c b ops).1, (closedBytes_eq c a ops).2, (closedBytes_eq c b ops).2]
  exact ⟨rfl, rfl⟩

example : closedBytes (fmt exCfg) 0 exOps = closedBytes (fmt exCfg) 123456 exOps := by decide +kernel

/-- **pvf_snapshot_valid.**  After any session prefix, the image a header update leaves in the store is the file
    a close at that instant would produce; it parses with the same parameters and exactly the frames written so far
    (also the 11-byte image of an update issued before any audio: KF-PVF-TINY-FILE is repaired). -/
theorem pvf_snapshot_valid (c : Cfg) (hwf : c.wf) (stale : Nat) (ops : List WOp) :
    parse (snapshotBytes (fmt c) stale ops) =
      .ok { ch := c.ch, fmt := 0x0E0000 + c.codec, sr := quant c.sr, frames := (opsData ops).length / (bytewidth c.codec * c.ch) } ∧
    snapshotBytes (fmt c) stale ops = hdr c ++ opsData ops := by
  have := pvf_reopen_info c hwf stale ops
  rw [(closedBytes_eq c stale ops).1] at this
  rw [(closedBytes_eq c stale ops).2]
  exact ⟨this, rfl⟩

example : parse (snapshotBytes (fmt exCfg) 5 [.write [1, 2, 3, 4] false]) = .ok ⟨2, 0x0E0002, 44100, 1⟩ ∧
    parse (snapshotBytes (fmt shortCfg) 5 [.update]) = .ok ⟨2, 0x0E0001, 1, 0⟩ := by decide +kernel

end Sf.C04Pvf
