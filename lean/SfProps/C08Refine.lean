/-
  C08 — read/write mode keeps independent, correct read and write positions: the REFINEMENT theorem.

  The abstract file of the statement (SfProofs/RdwrSpec.lean, 60 lines):

      structure AbsFile α where frames : List α; rpos : Nat; wpos : Nat
      read k      got = (frames.drop rpos).take k;  rpos += got.length
      write fs    frames = upTo zero frames wpos ++ fs ++ frames.drop (wpos + fs.length);  wpos += fs.length
                  (upTo: the frames in front of wpos, a hole past the end filled with `zero`)
      seek w p o  t = base w p + o  (base: 0 | rpos for SFM_READ, wpos otherwise | frames.length);
                  t < 0: −1, nothing moves;  else t is returned and rpos / wpos / both := t
      truncate n  frames = upTo zero frames n;  rpos = wpos = n
                  (promised only where the route has `ftruncate`; through SF_VIRTUAL_IO the command is a refused
                   call — return value 1, nothing changes — and stands for no abstract operation: `ROp.toAOp`)

  The abstraction map `absOf : H → Store → AbsFile (List Byte)` (SfProofs/RdwrInv.lean) reads the frames off the
  store's data section — one frame = `bw` stored bytes, so the map is independent of the caller's sample type and of
  the conversion settings — and the two positions off the handle.  `zero` is the frame of `bw` zero bytes.
  Values enter through the codec: a write hands over `encodeAll` of the caller's samples, a read returns
  `decodeAll` of the stored frames; with C01's lossless side condition the two cancel (`write_then_read`).

  `RwInv` (SfProofs/RdwrInv.lean) is the invariant: HInv's sign conditions, `0 ≤ frames`, data offset = the header
  length the container writes, a PEAK table (if any) of one entry per channel in front of the data (`PeakOk`),
  `dataend = 0` (RAW, AU), the store is header region ++ exactly `frames`
  whole frames ++ at most the zero pad byte behind an odd-length WAV data chunk (`TailOk`), and the descriptor position
  agrees with the pointer the last operation used.
  Containers: RAW, AU, WAV as modelled in SfModel/Handle.lean; every sample-granular encoding they offer.
-/
import SfProofs.RdwrCor
import SfProps.C01
import SfProps.C04
namespace Sf.C08Refine
open Sf

/-! ## the invariant reaches every state of an RDWR session -/

/-- a new (empty) file opened SFM_RDWR — RAW, AU or WAV, any encoding — satisfies the invariant; `b` is the flag
    the harness records after the open (does the route support `ftruncate`) -/
theorem RwInv_initial_new (ix : Nat) (s0 : Store) (fmt : Nat) (ch sr : Int) (h : H) (s : Store)
    (ho : openHandle ix s0 .rw fmt ch sr = .ok h s) (he : s0.bytes = []) (b : Bool) :
    RwInv { h with canTruncate := b } s :=
  (RwInv_open ix s0 fmt ch sr h s ho (open_fresh_tight ix s0 fmt ch sr h s ho he)).setTruncate b

/-- a pre-populated RAW file of whole frames opened SFM_RDWR satisfies it -/
theorem RwInv_initial_raw (ix : Nat) (s0 : Store) (fmt : Nat) (ch sr : Int) (h : H) (s : Store)
    (ho : openHandle ix s0 .rw fmt ch sr = .ok h s) (hc : h.container = .raw) (hw : s0.bytes.length % h.bw = 0)
    (b : Bool) : RwInv { h with canTruncate := b } s :=
  (RwInv_open ix s0 fmt ch sr h s ho (open_raw_tight ix s0 fmt ch sr h s ho hc hw)).setTruncate b

/-- any pre-populated file whose opened handle is "tight" (header of the length the container writes, no PEAK
    chunk, nothing behind the data, whole frames) satisfies it -/
theorem RwInv_initial_tight (ix : Nat) (s0 : Store) (fmt : Nat) (ch sr : Int) (h : H) (s : Store)
    (ho : openHandle ix s0 .rw fmt ch sr = .ok h s) (ht : OpenTight h s) (b : Bool) :
    RwInv { h with canTruncate := b } s :=
  (RwInv_open ix s0 fmt ch sr h s ho ht).setTruncate b

/-- … or "padded": tight up to the single zero pad byte behind an odd-length WAV data chunk -/
theorem RwInv_initial_padded (ix : Nat) (s0 : Store) (fmt : Nat) (ch sr : Int) (h : H) (s : Store)
    (ho : openHandle ix s0 .rw fmt ch sr = .ok h s) (ht : OpenPadded h s) (b : Bool) :
    RwInv { h with canTruncate := b } s :=
  (RwInv_open_padded ix s0 fmt ch sr h s ho ht).setTruncate b

/-- every call of the alphabet preserves it, on every route -/
theorem RwInv_preserved (h : H) (s : Store) (op : ROp) (inv : RwInv h s) (hok : op.ok h) :
    RwInv (stepAny h s (op.toOp h)).1 (stepAny h s (op.toOp h)).2.1 :=
  (rdwr_step h s op inv hok).2.1

/-- hence it holds after every call sequence -/
theorem RwInv_reachable (h : H) (s : Store) (ops : List ROp) (inv : RwInv h s) (hok : ∀ op ∈ ops, op.ok h) :
    RwInv (runR h s ops).1 (runR h s ops).2 :=
  (RwInv_runR ops h s inv hok).1

/-- it implies C05's `HInv`, and says in plain terms: -/
theorem RwInv_gives (h : H) (s : Store) (inv : RwInv h s) :
    HInv h s ∧ h.mode = .rw ∧ 0 ≤ h.rpos ∧ 0 ≤ h.wpos ∧ 0 ≤ h.frames ∧ h.dataoffset = (hdrLenOf h : Nat) ∧
    PeakOk h ∧ (h.container ≠ .wav → h.dataend = 0) ∧
    (∃ t : Nat, (s.bytes.length : Int) = h.dataoffset + h.frames * (h.bw : Int) + t ∧
      (t = 0 ∨ (t = 1 ∧ h.container = .wav)) ∧ s.bytes.drop (s.bytes.length - t) = zeros t) ∧
    ((absOf h s).frames.length : Int) = h.frames ∧ ((absOf h s).rpos : Int) = h.rpos ∧
    ((absOf h s).wpos : Int) = h.wpos ∧ (∀ g ∈ (absOf h s).frames, g.length = h.bw) :=
  let g := inv.gives
  ⟨inv.toHInv, g.1, g.2.2.2.1, g.2.2.2.2.1, g.2.2.2.2.2.1, g.2.2.2.2.2.2.1, g.2.2.2.2.2.2.2.1, g.2.2.2.2.2.2.2.2.1,
   g.2.2.2.2.2.2.2.2.2.1, inv.nframes, inv.abs_rpos, inv.abs_wpos, inv.frame_len⟩

/-! ## rdwr_refines -/

/-- ONE STEP.  From any state satisfying the invariant, every call of the alphabet — read `k` frames (items or
    frames variant, any caller type), write a whole-frame buffer, seek (3 whence × {plain, SFM_READ, SFM_WRITE}, any
    offset), SFC_FILE_TRUNCATE to `n`, and the flag commands incl. SFC_UPDATE_HEADER_NOW / _AUTO —
    answers what the abstract operation answers (`ROp.outOk`), keeps the invariant, and commutes with `absOf`.
    FULL strength: every route.  `op.ok` only asks that a write buffer holds whole frames (an unaligned items call is an
    invalid call, C09).  Since the TRUNC-VIO repair SFC_FILE_TRUNCATE needs no side condition: where the route has no
    `ftruncate` (SF_VIRTUAL_IO) it is refused before anything is touched — answer 1, no error — and `ROp.toAOp` maps it
    to no abstract operation; the abstract file of the statement promises truncation only where the route supports it.
    (Before the repair the theorem needed `canTruncate` for truncate: `rdwr_refines_old_rule`.) -/
theorem rdwr_refines (h : H) (s : Store) (op : ROp) (inv : RwInv h s) (hok : op.ok h) :
    op.outOk h s (absOf h s) (stepAny h s (op.toOp h)).2.2 ∧
    RwInv (stepAny h s (op.toOp h)).1 (stepAny h s (op.toOp h)).2.1 ∧
    absOf (stepAny h s (op.toOp h)).1 (stepAny h s (op.toOp h)).2.1 =
      (absOf h s).stepOpt (zeroFrame h.bw) (op.toAOp h) :=
  rdwr_step h s op inv hok

/-- ALL SEQUENCES, by induction: along every call sequence every answer is the abstract one (`RefinesRun`), and at
    the end the handle stands for the result of the abstract run -/
theorem rdwr_refines_run (h : H) (s : Store) (ops : List ROp) (inv : RwInv h s) (hok : ∀ op ∈ ops, op.ok h) :
    RefinesRun (zeroFrame h.bw) h s (absOf h s) ops ∧
    absOf (runR h s ops).1 (runR h s ops).2 = absRunR (zeroFrame h.bw) h s (absOf h s) ops :=
  let r := rdwr_run ops h s inv hok
  ⟨r, (RefinesRun.final _ ops h s _ r).2⟩

/-! ## corollaries -/

/-- `write_then_read`: data written at frame `p` is what a later read at `p` returns.  Write a whole-frame buffer
    of lossless samples at the write position `p`, move the read pointer to `p` (SEEK_SET | SFM_READ or plain
    SEEK_SET), read as many frames with the same type (items or frames call, independently of the write call):
    every call succeeds in full and the buffer read is the buffer written, bit for bit. -/
theorem write_then_read (h : H) (s : Store) (inv : RwInv h s) (ty : Ty) (fc fc' : Bool) (data : List Int) (ptr : Ptr)
    (hmod : data.length % h.ch = 0) (hpos : 0 < data.length) (hptr : ptr ≠ .wr) (p : Nat) (hp : h.wpos = (p : Int))
    (hwf : h.enc.wf) (hv : ∀ v ∈ data, ty.inRange v) (hl : ∀ v ∈ data, lossless h.enc ty v) :
    let r1 := stepAny h s ((ROp.write ty fc data).toOp h)
    let r2 := stepAny r1.1 r1.2.1 ((ROp.seek .set ptr (p : Int)).toOp r1.1)
    let r3 := stepAny r2.1 r2.2.1 ((ROp.read ty fc' (data.length / h.ch)).toOp r2.1)
    r1.2.2.ret = callCount h fc (data.length / h.ch) ∧ r1.2.2.err = 0 ∧ r2.2.2.ret = (p : Int) ∧
    r3.2.2.ret = callCount h fc' (data.length / h.ch) ∧ r3.2.2.err = 0 ∧ r3.2.2.data = data := by
  intro r1 r2 r3
  obtain ⟨a, b, c, d, e, f⟩ := write_seek_read h s inv ty fc fc' data ptr hmod hpos hptr p hp
  refine ⟨a, b, c, d, e, ?_⟩
  rw [f]
  exact C01.data_roundtrip C01.widenExact h.enc hwf inv.gives.2.2.1 _ _ ty data hv hl

/-- the same two facts in the VALUES view `absValues h s ty` (every stored frame decoded to its `ch` items of the caller's
    type): after a write of lossless samples at write position `p`, frames `p … p+k` of the file are the caller's
    frames (the buffer cut into groups of `ch` items) … -/
theorem write_puts_values (h : H) (s : Store) (inv : RwInv h s) (ty : Ty) (fc : Bool) (data : List Int)
    (hmod : data.length % h.ch = 0) (hpos : 0 < data.length)
    (hwf : h.enc.wf) (hv : ∀ v ∈ data, ty.inRange v) (hl : ∀ v ∈ data, lossless h.enc ty v) :
    let r := stepAny h s ((ROp.write ty fc data).toOp h)
    ((absValues r.1 r.2.1 ty).drop (absOf h s).wpos).take (data.length / h.ch) = groups h.ch data := by
  have g := inv.gives
  have hsub := groups_mem_sub h.ch g.2.1 data hmod
  exact write_puts_values_core h s inv ty fc data hmod hpos (fun c' x hx =>
    C01.data_roundtrip C01.widenExact h.enc hwf g.2.2.1 _ c' ty x (fun v hvx => hv v (hsub x hx v hvx))
      (fun v hvx => hl v (hsub x hx v hvx)))

/-- … and a read of `k` frames returns the frames `rpos … rpos+k` of that view (as many as exist), the rest of the
    requested region untouched — or zero when the read position was at / after the end, and (`readFill`) when the
    request ran past the end of a WAV of 1-byte samples into the pad byte behind its odd-length data -/
theorem read_returns_values (h : H) (s : Store) (inv : RwInv h s) (ty : Ty) (fc : Bool) (k : Nat) (hk : 0 < k) :
    let r := stepAny h s ((ROp.read ty fc k).toOp h)
    let got := ((absValues h s ty).drop (absOf h s).rpos).take k
    r.2.2.ret = callCount h fc got.length ∧ r.2.2.err = 0 ∧
    r.2.2.data = got.flatten ++ List.replicate ((k - got.length) * h.ch)
      (if (absOf h s).rpos < (absOf h s).frames.length then readFill h s ty k got.length else 0) :=
  read_values_core h s inv ty fc k hk

/-- `overwrite_keeps_length`: writing inside existing data replaces exactly the frames `wpos … wpos+k` and leaves
    the frame count alone -/
theorem overwrite_keeps_length (h : H) (s : Store) (inv : RwInv h s) (ty : Ty) (fc : Bool) (data : List Int)
    (hmod : data.length % h.ch = 0) (hpos : 0 < data.length)
    (hin : h.wpos + ((data.length / h.ch : Nat) : Int) ≤ h.frames) :
    let r := stepAny h s ((ROp.write ty fc data).toOp h)
    r.1.frames = h.frames ∧ (absOf r.1 r.2.1).frames.length = (absOf h s).frames.length ∧
    (absOf r.1 r.2.1).frames = (absOf h s).frames.take (absOf h s).wpos ++ writtenFrames h ty data ++
      (absOf h s).frames.drop ((absOf h s).wpos + data.length / h.ch) := by
  intro r
  obtain ⟨hne, wl, a, f, _⟩ := write_effect h s inv ty fc data hmod hpos
  have hin' : (absOf h s).wpos + (writtenFrames h ty data).length ≤ (absOf h s).frames.length := by
    have := inv.nframes; have := inv.abs_wpos; omega
  obtain ⟨e1, e2⟩ := AbsFile.write_inside (zeroFrame h.bw) (absOf h s) _ hne hin'
  exact ⟨by rw [f]; omega, by rw [a, e2], by rw [a, e1, wl]⟩

/-- `write_at_end_extends`: writing at or past the end makes the frame count `wpos + k`; the file is then the old
    frames, the hole a seek past the end left — `wpos − frames` frames of ZERO BYTES (`zeroFrame`) — and the new frames.
    (Real library, harness scripts on the memory and the descriptor route, RAW unsigned 8-bit / WAV µ-law / AU 16-bit
    stereo: the hole reads back as zero bytes — 0x8000, 0x8284, 0 as shorts — and the re-opened file has `wpos + k` frames.) -/
theorem write_at_end_extends (h : H) (s : Store) (inv : RwInv h s) (ty : Ty) (fc : Bool) (data : List Int)
    (hmod : data.length % h.ch = 0) (hpos : 0 < data.length) (hge : h.frames ≤ h.wpos) :
    let r := stepAny h s ((ROp.write ty fc data).toOp h)
    r.1.frames = h.wpos + ((data.length / h.ch : Nat) : Int) ∧
    (absOf r.1 r.2.1).frames = (absOf h s).frames ++
      List.replicate ((absOf h s).wpos - (absOf h s).frames.length) (zeroFrame h.bw) ++ writtenFrames h ty data := by
  intro r
  obtain ⟨hne, wl, a, f, _⟩ := write_effect h s inv ty fc data hmod hpos
  have hge' : (absOf h s).frames.length ≤ (absOf h s).wpos := by
    have := inv.nframes; have := inv.abs_wpos; omega
  exact ⟨by rw [f]; omega, by rw [a]; exact (AbsFile.write_at_end _ _ _ hne hge').1⟩

/-- `whence_moves_only_that_pointer`: for every whence and offset, `| SFM_READ` leaves the write position alone and
    `| SFM_WRITE` leaves the read position alone; an accepted seek puts the named pointer at the returned frame; a
    refused one (−1) moves nothing; frame count and content never change -/
theorem whence_moves_only_that_pointer (h : H) (s : Store) (inv : RwInv h s) (w : Whence) (off : Int) :
    let rd := stepAny h s ((ROp.seek w .rd off).toOp h)
    let wr := stepAny h s ((ROp.seek w .wr off).toOp h)
    rd.1.wpos = h.wpos ∧ rd.1.frames = h.frames ∧ (absOf rd.1 rd.2.1).frames = (absOf h s).frames ∧
      (0 ≤ rd.2.2.ret → rd.1.rpos = rd.2.2.ret) ∧ (rd.2.2.ret = -1 → rd.1.rpos = h.rpos) ∧
    wr.1.rpos = h.rpos ∧ wr.1.frames = h.frames ∧ (absOf wr.1 wr.2.1).frames = (absOf h s).frames ∧
      (0 ≤ wr.2.2.ret → wr.1.wpos = wr.2.2.ret) ∧ (wr.2.2.ret = -1 → wr.1.wpos = h.wpos) := by
  intro rd wr
  obtain ⟨a1, a2, a3, a4, a5⟩ := seek_effect h s inv w .rd off
  obtain ⟨b1, b2, b3, b4, b5⟩ := seek_effect h s inv w .wr off
  refine ⟨?_, a1, a2, fun hc => (a5 hc).2.1, fun hc => (a4 hc).1, ?_, b1, b2, fun hc => (b5 hc).2.2, fun hc => (b4 hc).2⟩
  · rcases a3 with hc | hc
    · exact (a4 hc).2
    · exact (a5 hc).2.2
  · rcases b3 with hc | hc
    · exact (b4 hc).1
    · exact (b5 hc).2.1

/-- `plain_whence_moves_both`: an accepted seek with a plain whence value puts BOTH pointers at the returned frame
    (a plain SEEK_CUR is relative to the write position: `AbsFile.base`) -/
theorem plain_whence_moves_both (h : H) (s : Store) (inv : RwInv h s) (w : Whence) (off : Int) :
    let r := stepAny h s ((ROp.seek w .both off).toOp h)
    r.2.2.ret = ((absOf h s).seek w .both off).1 ∧
    (0 ≤ r.2.2.ret → r.1.rpos = r.2.2.ret ∧ r.1.wpos = r.2.2.ret ∧ r.2.2.err = 0) ∧
    (r.2.2.ret = -1 → r.1.rpos = h.rpos ∧ r.1.wpos = h.wpos) ∧ r.1.frames = h.frames := by
  intro r
  obtain ⟨a1, _, _, a4, a5⟩ := seek_effect h s inv w .both off
  exact ⟨(rdwr_step h s (.seek w .both off) inv trivial).1.1, fun hc => ⟨(a5 hc).2.1, (a5 hc).2.2, (a5 hc).1⟩, a4, a1⟩

/-- the 12 whence values: besides the 9 of the alphabet, SEEK_SET|SFM_RDWR is a plain SEEK_SET, and SEEK_CUR|SFM_RDWR,
    SEEK_END|SFM_RDWR are refused (−1, error set, nothing else changes) -/
theorem whence_sfm_rdwr (h : H) (s : Store) (inv : RwInv h s) (off : Int) :
    stepSeek h s off 0x30 = stepSeek h s off (whenceCode .set .both) ∧
    stepSeek h s off 0x31 = ({ h with error := E_BAD_SEEK }, s, { ret := -1, err := E_BAD_SEEK }) ∧
    stepSeek h s off 0x32 = ({ h with error := E_BAD_SEEK }, s, { ret := -1, err := E_BAD_SEEK }) :=
  seek_sfm_rdwr h s inv.gives.1 off

/-- `truncate_shortens`: SFC_FILE_TRUNCATE (on a route with `ftruncate`) returns 0, makes the frame count `n`, puts
    both pointers at `n`, and keeps every frame below `n` (a count past the end extends with zero-byte frames) -/
theorem truncate_shortens (h : H) (s : Store) (inv : RwInv h s) (n : Nat) (hc : h.canTruncate = true) :
    let r := stepAny h s ((ROp.truncate n).toOp h)
    r.2.2.ret = 0 ∧ r.2.2.err = 0 ∧ r.1.frames = (n : Int) ∧ r.1.rpos = (n : Int) ∧ r.1.wpos = (n : Int) ∧
    (absOf r.1 r.2.1).frames.length = n ∧
    (n ≤ (absOf h s).frames.length → (absOf r.1 r.2.1).frames = (absOf h s).frames.take n) ∧
    (∀ i, i < n → i < (absOf h s).frames.length → (absOf r.1 r.2.1).frames[i]? = (absOf h s).frames[i]?) := by
  intro r
  obtain ⟨a, b, c, d, e, f⟩ := truncate_effect h s inv n hc
  refine ⟨a, b, c, d, e, by rw [f]; exact AbsFile.truncate_length _ _ _, fun hle => ?_, fun i hi hl => ?_⟩
  · rw [f]; exact AbsFile.upTo_of_le _ _ _ hle
  · rw [f]; exact AbsFile.truncate_keeps _ _ _ _ hi hl

/-- … and where the route has no `ftruncate` (SF_VIRTUAL_IO) the command is refused: it returns 1 with no error, the
    handle is unchanged up to the cleared error field — frame count and both positions included — and the store, hence
    the abstract file, is untouched (since the TRUNC-VIO repair) -/
theorem truncate_refused_without_ftruncate (h : H) (s : Store) (inv : RwInv h s) (n : Nat) (hc : h.canTruncate = false) :
    let r := stepAny h s ((ROp.truncate n).toOp h)
    r.2.2.ret = 1 ∧ r.2.2.err = 0 ∧ r.1 = { h with error := 0 } ∧ r.2.1 = s ∧ absOf r.1 r.2.1 = absOf h s :=
  truncate_refused_effect h s n inv.gives.1 hc

/-- `untouched_preserved`: a write changes no frame outside `wpos … wpos+k` -/
theorem untouched_preserved (h : H) (s : Store) (inv : RwInv h s) (ty : Ty) (fc : Bool) (data : List Int)
    (hmod : data.length % h.ch = 0) (hpos : 0 < data.length) (i : Nat) (hi : i < (absOf h s).frames.length)
    (hout : i < (absOf h s).wpos ∨ (absOf h s).wpos + data.length / h.ch ≤ i) :
    let r := stepAny h s ((ROp.write ty fc data).toOp h)
    (absOf r.1 r.2.1).frames[i]? = (absOf h s).frames[i]? := by
  intro r
  obtain ⟨_, wl, a, _⟩ := write_effect h s inv ty fc data hmod hpos
  rw [a]
  rcases hout with hb | ha
  · exact AbsFile.write_before _ _ _ _ hb hi
  · exact AbsFile.write_after _ _ _ _ (by rw [wl]; exact ha)

/-- `reopen_sees_final`: close the handle, open the file read-only: the open succeeds and sees exactly the final
    frame count and the final frame sequence, read position 0.  (`CfgOf`: the handle was created with `fmt ch sr`;
    WAV: data below the 4 GiB RIFF limit; sample rate a positive `int`.) -/
theorem reopen_sees_final (h : H) (s : Store) (inv : RwInv h s) (fmt : Nat) (ch sr : Int) (cfg : CfgOf fmt ch sr h)
    (hsr : sr ≤ 0x7FFFFFFF) (hguard : h.container = .wav → h.frames * (h.bw : Int) < 0xFFFFFFFF) (ix pos : Nat) :
    ∃ h' s', openHandle ix ⟨(closeHandle h s).bytes, pos⟩ .r fmt ch sr = .ok h' s' ∧
      h'.mode = .r ∧ h'.frames = h.frames ∧ h'.ch = h.ch ∧ h'.enc = h.enc ∧ h'.rpos = 0 ∧
      (absOf h' s').frames = (absOf h s).frames :=
  reopen_effect h s inv cfg hsr hguard ix pos

/-- … and what it then delivers: a frames call for the whole file returns every frame, and the buffer is the decoding
    of exactly the final stored frames (so, for lossless samples, the values written: `write_then_read`'s codec step) -/
theorem reopen_reads_final (h : H) (s : Store) (inv : RwInv h s) (fmt : Nat) (ch sr : Int) (cfg : CfgOf fmt ch sr h)
    (hsr : sr ≤ 0x7FFFFFFF) (hguard : h.container = .wav → h.frames * (h.bw : Int) < 0xFFFFFFFF) (hF : 0 < h.frames)
    (ix pos : Nat) (ty : Ty) :
    ∃ h' s', openHandle ix ⟨(closeHandle h s).bytes, pos⟩ .r fmt ch sr = .ok h' s' ∧ h'.frames = h.frames ∧
      (stepRead h' s' ty true h.frames).2.2.ret = h.frames ∧ (stepRead h' s' ty true h.frames).2.2.err = 0 ∧
      (stepRead h' s' ty true h.frames).2.2.data = h'.enc.decodeAll h'.conv ty (absOf h s).frames.flatten :=
  reopen_read_all h s inv cfg hsr hguard hF ix pos ty

/-- the "pre-populated file" of the statement: close, then open SFM_RDWR again — the open succeeds, the new handle
    satisfies the invariant (so every theorem above applies to the second session), it stands for the final frames
    with the read position at 0 and the write position at the end.  FULL strength for RAW, AU and WAV: a WAV whose
    odd-length data is followed by the pad byte is covered (the invariant admits that zero byte). -/
theorem reopen_rdwr_continues (h : H) (s : Store) (inv : RwInv h s) (fmt : Nat) (ch sr : Int) (cfg : CfgOf fmt ch sr h)
    (hsr : sr ≤ 0x7FFFFFFF) (hguard : h.container = .wav → h.frames * (h.bw : Int) < 0xFFFFFFFF)
    (ix pos : Nat) :
    ∃ h' s', openHandle ix ⟨(closeHandle h s).bytes, pos⟩ .rw fmt ch sr = .ok h' s' ∧ RwInv h' s' ∧
      absOf h' s' = { frames := (absOf h s).frames, rpos := 0, wpos := (absOf h s).frames.length } ∧
      h'.frames = h.frames ∧ h'.ch = h.ch ∧ h'.enc = h.enc :=
  reopen_rw_effect h s inv cfg hsr hguard ix pos

/-- the other "pre-populated file": one written by a write-only session (open SFM_WRITE on a new file, any valid write
    calls and header updates, close — the sessions of C04 / C07).  Opened SFM_RDWR it satisfies the invariant and stands
    for exactly the frames written, read position 0, write position at the end.  FULL strength for RAW, AU and WAV:
    WAV float/double files (they carry a PEAK chunk: the invariant admits a PEAK table in front of the data) and WAVs
    whose odd-length data is followed by the pad byte are covered; `hex` is only the 4 GiB RIFF limit. -/
theorem prepopulated_opens_rdwr (ix fmt : Nat) (ch sr : Int) (h0 : H) (s0 : Store) (ops : List SOp)
    (ho : openHandle ix {} .w fmt ch sr = .ok h0 s0) (hsr : sr ≤ 0x7FFFFFFF) (hv : ∀ op ∈ ops, op.valid ch.toNat)
    (hex : ∀ c, openCfg fmt ch sr = some c → c.container = .wav → (sessData c ops).length < 0xFFFFFFFF)
    (ix' pos : Nat) :
    ∃ c h' s', openCfg fmt ch sr = some c ∧
      openHandle ix' ⟨(closeHandle (runS (h0, s0) ops).1 (runS (h0, s0) ops).2).bytes, pos⟩ .rw fmt ch sr = .ok h' s' ∧
      RwInv h' s' ∧
      absOf h' s' = { frames := groups c.bw (sessData c ops), rpos := 0, wpos := sessFrames ch.toNat ops } :=
  written_file_opens_rdwr ix fmt ch sr h0 s0 ops ho hsr hv hex ix' pos

/-- the whole history of the statement: create a file SFM_RDWR (RAW, AU or WAV), run ANY sequence of calls, close,
    open read-only: the frames seen are those of the abstract run from the empty file -/
theorem rdwr_session (ix : Nat) (s0 : Store) (fmt : Nat) (ch sr : Int) (h : H) (s : Store) (b : Bool)
    (ho : openHandle ix s0 .rw fmt ch sr = .ok h s) (he : s0.bytes = []) (ops : List ROp)
    (hok : ∀ op ∈ ops, op.ok { h with canTruncate := b }) (hsr : sr ≤ 0x7FFFFFFF) (ix' pos : Nat) :
    let hb : H := { h with canTruncate := b }
    let e := runR hb s ops
    absOf hb s = { frames := [], rpos := 0, wpos := 0 } ∧
    ((e.1.container = .wav → e.1.frames * (e.1.bw : Int) < 0xFFFFFFFF) →
      ∃ h' s', openHandle ix' ⟨(closeHandle e.1 e.2).bytes, pos⟩ .r fmt ch sr = .ok h' s' ∧ h'.frames = e.1.frames ∧
        (absOf h' s').frames = (absRunR (zeroFrame h.bw) hb s { frames := [], rpos := 0, wpos := 0 } ops).frames) := by
  intro hb e
  have inv : RwInv hb s := RwInv_initial_new ix s0 fmt ch sr h s ho he b
  obtain ⟨_, _, hr, _, hw, _, hfresh, _⟩ := open_rw_facts ix s0 fmt ch sr h s ho
  have hf0 : h.frames = 0 := (hfresh he).1
  have habs : absOf hb s = { frames := [], rpos := 0, wpos := 0 } := by
    have g := inv.nframes
    have e1 : (absOf hb s).frames = [] := List.eq_nil_of_length_eq_zero (by
      have : hb.frames = 0 := hf0
      rw [this] at g; omega)
    have e2 : (absOf hb s).rpos = 0 := by show h.rpos.toNat = 0; rw [hr]; rfl
    have e3 : (absOf hb s).wpos = 0 := by show h.wpos.toNat = 0; rw [hw, hf0]; rfl
    cases hx : absOf hb s
    rw [hx] at e1 e2 e3
    simp only at e1 e2 e3
    rw [e1, e2, e3]
  refine ⟨habs, fun hguard => ?_⟩
  obtain ⟨invE, sc⟩ := RwInv_runR ops hb s inv hok
  have cfg : CfgOf fmt ch sr hb :=
    let c := open_rw_cfg ix s0 fmt ch sr h s ho (Or.inl he)
    ⟨c.cont, c.enc, c.big, c.fmtWord, c.chr, c.srr, c.hch, c.hsr⟩
  obtain ⟨h', s', ho', _, hfr, _, _, _, hab⟩ := reopen_effect e.1 e.2 invE (cfg.congr sc) hsr hguard ix' pos
  refine ⟨h', s', ho', hfr, ?_⟩
  have := (rdwr_refines_run hb s ops inv hok).2
  rw [hab, this, habs]
  rfl

/-! ## where the side conditions are needed (full statements, witnesses, what was proved instead) -/

def tS : Store := { bytes := [1, 0, 2, 0], pos := 0 }
/-- a 2-frame 16-bit mono RAW file opened RDWR through virtual I/O (`canTruncate = false`) -/
def tH : H := { store := 0, mode := .rw, container := .raw, enc := .pcm ⟨16, false, false⟩, big := false, ch := 1,
                sr := 8000, fmtWord := 0x040002, frames := 2, wpos := 2, lastOp := .rw, haveWritten := true,
                datalength := 4, filelength := 4 }
theorem tH_opened : openHandle 0 tS .rw 0x040002 1 8000 = .ok tH tS := by rfl
theorem tH_inv : RwInv tH tS := RwInv_initial_raw 0 tS 0x040002 1 8000 tH tS tH_opened rfl (by decide) false

/-- NEW RULE on the old witness: SFC_FILE_TRUNCATE to 3 frames through virtual I/O is refused — 1, no error, handle and
    store as they were, invariant kept (an instance of `rdwr_refines` / `truncate_refused_without_ftruncate`).
    Repaired library, same script: `ret=1 err=0`, then `frames=2`, store 4 bytes. -/
theorem truncate_vio_witness_new_rule :
    stepAny tH tS ((ROp.truncate 3).toOp tH) = ({ tH with error := 0 }, tS, { ret := 1 }) ∧
    RwInv (stepAny tH tS ((ROp.truncate 3).toOp tH)).1 (stepAny tH tS ((ROp.truncate 3).toOp tH)).2.1 :=
  ⟨by rfl, RwInv_preserved tH tS (.truncate 3) tH_inv trivial⟩

/-- OLD RULE (before the TRUNC-VIO repair, `stepTruncateOld`): the same call returned −1 with SFE_SYSTEM, but `sf.frames`
    was 3 afterwards while the store still held 2 frames, so the invariant was lost and the one-step theorem had to
    exclude truncate on routes without `ftruncate` (it was `rdwr_refines_partial`; C09
    `truncate_minus_one_sets_frames_old_rule` is the same staging defect).  Unrepaired library, same script:
    `ret=-1 err=2`, then `frames=3`, store 4 bytes. -/
theorem rdwr_refines_old_rule :
    (stepTruncateOld tH tS 3).2.2.ret = -1 ∧ (stepTruncateOld tH tS 3).2.2.err = 2 ∧
    (stepTruncateOld tH tS 3).1.frames = 3 ∧ (stepTruncateOld tH tS 3).2.1.bytes.length = 4 ∧
    ¬ RwInv (stepTruncateOld tH tS 3).1 (stepTruncateOld tH tS 3).2.1 := by
  refine ⟨by decide, by decide, by decide, by decide, ?_⟩
  intro i'
  obtain ⟨t, h1, _, _⟩ := i'.gives.2.2.2.2.2.2.2.2.2.1
  have e1 : (stepTruncateOld tH tS 3).2.1.bytes.length = 4 := by decide
  have e2 : (stepTruncateOld tH tS 3).1.dataoffset = 0 := by decide
  have e3 : (stepTruncateOld tH tS 3).1.frames = 3 := by decide
  have e4 : (stepTruncateOld tH tS 3).1.bw = 2 := by decide
  rw [e1, e2, e3, e4] at h1
  omega

/-- on routes where `ftruncate` works the repair changed nothing -/
theorem truncate_rule_unchanged_with_ftruncate (h : H) (s : Store) (f : Int) (hc : h.canTruncate = true) :
    stepTruncate h s f = stepTruncateOld h s f :=
  stepTruncate_eq_old h s f hc

/-- "every successful RDWR open establishes the invariant" -/
def RwInv_initial_full : Prop :=
  ∀ (ix : Nat) (s0 : Store) (fmt : Nat) (ch sr : Int) (h : H) (s : Store),
    openHandle ix s0 .rw fmt ch sr = .ok h s → RwInv h s

def pS : Store := { bytes := [0x55, 0x66, 0x77], pos := 0 }
def pH : H := { store := 0, mode := .rw, container := .raw, enc := .pcm ⟨16, false, false⟩, big := false, ch := 1,
                sr := 8000, fmtWord := 0x040002, frames := 1, wpos := 1, lastOp := .rw, haveWritten := true,
                datalength := 3, filelength := 3 }
theorem pH_opened : openHandle 0 pS .rw 0x040002 1 8000 = .ok pH pS := by rfl

/-- witness: a RAW file with a trailing partial frame (3 bytes, 16-bit mono).  The stale byte is not part of any
    frame, but a write past the end makes it one: seek the write pointer to 3, write one frame — frame 1 is then
    `77 00`, not the zero frame the abstract file puts into a hole.  (Real library, same script: read-back
    `6655 0077 0000 0007`.)  Not a defect of the library: the content of a hole is not promised by the property;
    it is the reason the refinement needs "nothing but whole frames (and the WAV pad byte) behind the header". -/
theorem RwInv_initial_full_fails : ¬ RwInv_initial_full := by
  intro hfull
  obtain ⟨t, h1, h2, _⟩ := (hfull 0 pS 0x040002 1 8000 pH pS pH_opened).gives.2.2.2.2.2.2.2.2.2.1
  have e1 : pS.bytes.length = 3 := by decide
  have e2 : pH.dataoffset = 0 := by decide
  have e3 : pH.frames = 1 := by decide
  have e4 : pH.bw = 2 := by decide
  rw [e1, e2, e3, e4] at h1
  rcases h2 with h0 | ⟨_, hw⟩
  · omega
  · exact absurd hw (by decide)

theorem partial_frame_hole_not_zero :
    (runR pH pS [.seek .set .wr 3, .write .s16 true [7]]).2.bytes = [0x55, 0x66, 0x77, 0, 0, 0, 7, 0] := by decide

/-- what holds: `RwInv_initial_tight` / `RwInv_initial_padded` (and the instances `RwInv_initial_new`,
    `RwInv_initial_raw`).  `OpenPadded` admits the WAV pad byte and a PEAK table in front of the data.  NOT covered:
    files with other bytes behind the data (a partial frame, a PEAK chunk at the END of a foreign WAV, a LIST chunk …).
    For files the library wrote — by an RDWR session (`reopen_rdwr_continues`) or a write-only session
    (`prepopulated_opens_rdwr`) — the shape is proved, not assumed. -/
theorem RwInv_initial_partial (ix : Nat) (s0 : Store) (fmt : Nat) (ch sr : Int) (h : H) (s : Store)
    (ho : openHandle ix s0 .rw fmt ch sr = .ok h s) (ht : OpenTight h s) : RwInv h s :=
  RwInv_open ix s0 fmt ch sr h s ho ht

/-! ## non-vacuity -/

def eH : H := { store := 0, mode := .rw, container := .raw, enc := .pcm ⟨16, false, false⟩, big := false, ch := 2,
                sr := 8000, fmtWord := 0x040002, frames := 0, lastOp := .rw, canTruncate := true }
theorem eH_opened : openHandle 0 {} .rw 0x040002 2 8000 = .ok { eH with canTruncate := false } {} := by rfl
theorem eH_inv : RwInv eH {} := RwInv_initial_new 0 {} 0x040002 2 8000 _ _ eH_opened rfl true

/-- the invariant is met by new files of the other containers too (WAV µ-law mono, AU 24-bit stereo) -/
example : ∃ h s, openHandle 0 {} .rw 0x010010 1 8000 = .ok h s ∧ RwInv h s ∧ s.bytes.length = 58 := by
  refine ⟨_, _, rfl, ?_, by decide⟩
  exact RwInv_open 0 {} 0x010010 1 8000 _ _ rfl (open_fresh_tight 0 {} 0x010010 1 8000 _ _ rfl rfl)
example : ∃ h s, openHandle 0 {} .rw 0x030003 2 48000 = .ok h s ∧ RwInv h s ∧ s.bytes.length = 24 := by
  refine ⟨_, _, rfl, ?_, by decide⟩
  exact RwInv_open 0 {} 0x030003 2 48000 _ _ rfl (open_fresh_tight 0 {} 0x030003 2 48000 _ _ rfl rfl)

/-- every kind of call is admitted by `ROp.ok eH` -/
example : ∀ op ∈ [ROp.write .s16 true [1, 2, 3, 4], .seek .cur .rd (-1), .read .s16 false 3, .truncate 1, .flag 0x1060 0],
    op.ok eH := by decide

/-- write_then_read: two stereo frames written at 0, read pointer back to 0, three frames asked: two delivered, the
    third cell pair untouched; hypotheses of `write_then_read` hold (16-bit PCM, shorts: lossless) -/
example : (runR eH {} [.write .s16 true [1, -2, 3, 32767], .seek .set .rd 0]).1.rpos = 0 ∧
    (stepAny (runR eH {} [.write .s16 true [1, -2, 3, 32767], .seek .set .rd 0]).1
             (runR eH {} [.write .s16 true [1, -2, 3, 32767], .seek .set .rd 0]).2
             ((ROp.read .s16 true 3).toOp eH)).2.2.data = [1, -2, 3, 32767, -23131, -23131] ∧
    eH.enc.wf ∧ (∀ v ∈ [1, -2, 3, 32767], Ty.inRange .s16 v) ∧ (∀ v ∈ [1, -2, 3, 32767], lossless eH.enc .s16 v) := by decide

/-- the values view: after the two frames above are written, the file is `[[1, -2], [3, 32767]]` for a caller of shorts -/
example : absValues (runR eH {} [.write .s16 true [1, -2, 3, 32767]]).1 (runR eH {} [.write .s16 true [1, -2, 3, 32767]]).2 .s16 =
    [[1, -2], [3, 32767]] := by decide

/-- write_at_end_extends, with a hole: on the empty file seek the write pointer to frame 2 and write one frame: 3 frames,
    the first two are zero bytes; overwrite_keeps_length: rewriting frame 0 afterwards keeps 3 frames -/
example : (runR eH {} [.seek .set .wr 2, .write .s16 true [5, 6]]).2.bytes = [0, 0, 0, 0, 0, 0, 0, 0, 5, 0, 6, 0] ∧
    (runR eH {} [.seek .set .wr 2, .write .s16 true [5, 6]]).1.frames = 3 ∧
    (runR eH {} [.seek .set .wr 2, .write .s16 true [5, 6], .seek .set .wr 0, .write .s16 false [9, 9]]).1.frames = 3 ∧
    (runR eH {} [.seek .set .wr 2, .write .s16 true [5, 6], .seek .set .wr 0, .write .s16 false [9, 9]]).2.bytes =
      [9, 0, 9, 0, 0, 0, 0, 0, 5, 0, 6, 0] := by decide

/-- whence × pointer: after 3 frames written (write position 3), SEEK_END|SFM_READ −1 moves only the read pointer,
    SEEK_CUR|SFM_WRITE −2 only the write pointer, plain SEEK_CUR 0 brings the read pointer to the write pointer,
    and a target below 0 is refused -/
example :
    let st := runR eH {} [.write .s16 true [1, 2, 3, 4, 5, 6], .seek .fromEnd .rd (-1), .seek .cur .wr (-2)]
    st.1.rpos = 2 ∧ st.1.wpos = 1 ∧ st.1.frames = 3 ∧
    (runR st.1 st.2 [.seek .cur .both 0]).1.rpos = 1 ∧ (runR st.1 st.2 [.seek .cur .both 0]).1.wpos = 1 ∧
    (stepAny st.1 st.2 ((ROp.seek .cur .rd (-5)).toOp eH)).2.2.ret = -1 := by decide

/-- truncate_refused_without_ftruncate: the same handle on virtual I/O: 3 frames stay 3 frames, positions stay -/
example :
    let st := runR { eH with canTruncate := false } {} [.write .s16 true [1, 2, 3, 4, 5, 6], .seek .set .rd 1, .truncate 1]
    st.1.frames = 3 ∧ st.1.rpos = 1 ∧ st.1.wpos = 3 ∧ st.2.bytes.length = 12 := by decide

/-- truncate_shortens / reopen_sees_final: 3 frames, truncate to 1, close, re-open read-only: 1 frame, the first one -/
example :
    let st := runR eH {} [.write .s16 true [1, 2, 3, 4, 5, 6], .truncate 1]
    st.1.frames = 1 ∧ st.1.rpos = 1 ∧ st.1.wpos = 1 ∧ (closeHandle st.1 st.2).bytes = [1, 0, 2, 0] := by decide
example : CfgOf 0x040002 2 8000 eH :=
  let c := open_rw_cfg 0 {} 0x040002 2 8000 _ _ eH_opened (Or.inl rfl)
  ⟨c.cont, c.enc, c.big, c.fmtWord, c.chr, c.srr, c.hch, c.hsr⟩

/-- `reopen_rdwr_continues` / `reopen_sees_final`: a new 16-bit mono WAV meets `CfgOf` -/
example : ∃ h s, openHandle 0 {} .rw 0x010002 1 8000 = .ok h s ∧ CfgOf 0x010002 1 8000 h := by
  refine ⟨_, _, rfl, open_rw_cfg 0 {} 0x010002 1 8000 _ _ rfl (Or.inl rfl)⟩

/-- `prepopulated_opens_rdwr`: C04's AU session (stereo 16-bit, three frames) meets the hypotheses -/
example : (∃ h0 s0, openHandle 0 {} .w 0x030002 2 44100 = .ok h0 s0) ∧ (∀ op ∈ C04.exOps, op.valid (2 : Int).toNat) ∧
    (∀ c, openCfg 0x030002 2 44100 = some c → c.container = .wav → False) := by
  refine ⟨OpenRes.exists_of_isOk (by decide), by decide, ?_⟩
  intro c hc
  obtain ⟨f1, _⟩ := openCfg_facts hc
  have h0 : containerOf 0x030002 = some Container.au := by decide
  have hcc : c.container = .au := (Option.some.inj (f1.symm.trans h0))
  exact fun hw => by rw [hcc] at hw; cases hw

/-- `prepopulated_opens_rdwr` on a PEAK-carrying file: two float frames written into a new mono float WAV in SFM_WRITE mode;
    the session is valid, stays below the RIFF limit, and the file re-opened SFM_RDWR does carry a PEAK table (one
    entry, in front of the data) — the case the invariant admits since round 3 (`PeakOk`) -/
def pkOps : List SOp := [.write ⟨.f32, true, 2, [0x3F000000, 0xBF800000]⟩]
def pkReopen : Option (Int × Option Nat × Bool) :=
  match sessionBytes 0 0x010006 1 8000 pkOps with
  | some bs => (match openHandle 0 ⟨bs, 0⟩ .rw 0 0 0 with
      | .ok h _ => some (h.frames, h.peak.map List.length, h.peakAtStart)
      | _ => none)
  | none => none
example : (∀ op ∈ pkOps, op.valid (1 : Int).toNat) ∧ pkReopen = some (2, some 1, true) := by decide +kernel

/-! ### the pad byte -/

def okDataend : OpenRes → Int
  | .ok h _ => h.dataend
  | _ => -1
/-- one 8-bit frame written into a new mono WAV, closed -/
def oddWav : List Byte :=
  match openHandle 0 {} .rw 0x010005 1 8000 with
  | .ok h s => (closeHandle (runR h s [.write .s16 true [256]]).1 (runR h s [.write .s16 true [256]]).2).bytes
  | _ => []

/-- the file is 46 bytes (44 header, 1 data, 1 pad); re-opened SFM_RDWR its handle has `dataend = 45 ≠ 0` and the store
    holds one byte behind the data — the case the invariant admits since round 3 (`TailOk`) -/
theorem odd_wav_reopens_with_dataend :
    oddWav.length = 46 ∧ okDataend (openHandle 0 ⟨oddWav, 0⟩ .rw 0 0 0) = 45 := by decide +kernel

def oH : H := match openHandle 0 {} .rw 0x010005 1 8000 with | .ok h _ => h | _ => default
def oS : Store := match openHandle 0 {} .rw 0x010005 1 8000 with | .ok _ s => s | _ => default
theorem oH_opened : openHandle 0 {} .rw 0x010005 1 8000 = .ok oH oS := by rfl

/-- non-vacuity of `reopen_rdwr_continues` on the pad-byte case: the one-frame 8-bit mono WAV, closed and opened SFM_RDWR
    again, satisfies the invariant and stands for its one frame; a read of 3 frames there runs into the pad byte: one
    frame delivered, the other two cells ZERO (not the untouched pattern) — `readFill` -/
theorem odd_wav_second_session :
    ∃ h' s', openHandle 0 ⟨(closeHandle (runR oH oS [.write .s16 true [256]]).1 (runR oH oS [.write .s16 true [256]]).2).bytes, 0⟩
        .rw 0x010005 1 8000 = .ok h' s' ∧ RwInv h' s' ∧ (absOf h' s').frames = [[129]] ∧ (absOf h' s').wpos = 1 := by
  have inv0 : RwInv oH oS := RwInv_open 0 {} 0x010005 1 8000 oH oS oH_opened (open_fresh_tight 0 {} 0x010005 1 8000 oH oS oH_opened rfl)
  have cfg0 := open_rw_cfg 0 {} 0x010005 1 8000 oH oS oH_opened (Or.inl rfl)
  have hok : ∀ op ∈ [ROp.write .s16 true [256]], op.ok oH := by decide
  obtain ⟨inv1, sc⟩ := RwInv_runR [ROp.write .s16 true [256]] oH oS inv0 hok
  obtain ⟨h', s', ho, inv', ha, _⟩ := reopen_rdwr_continues _ _ inv1 0x010005 1 8000 (cfg0.congr sc) (by decide)
    (fun _ => by decide) 0 0
  refine ⟨h', s', ho, inv', ?_, ?_⟩
  · rw [ha]; decide
  · rw [ha]; decide

def padRead : Out :=
  match openHandle 0 ⟨oddWav, 0⟩ .rw 0x010005 1 8000 with
  | .ok h s => (stepAny h s ((ROp.read .s16 true 3).toOp h)).2.2
  | _ => {}
example : padRead.ret = 1 ∧ padRead.data = [256, 0, 0] := by decide +kernel

end Sf.C08Refine
