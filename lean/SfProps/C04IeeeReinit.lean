-- properties: C04 C08
/-
  C04 / C08 — SFC_TEST_IEEE_FLOAT_REPLACE issued after audio was written (model lean/SfModel/IeeeReinit.lean;
  repaired in round 9, known_findings KF-IEEE-REPLACE-FRAMES).  Property theorems only.
-/
import SfModel.IeeeReinit
namespace Sf.C04IeeeReinit
open Sf.IeeeReinit

/-- **replace_command_keeps_length.**  On every handle state the command leaves the frame count, the data length and
    the write pointer alone. -/
theorem replace_command_keeps_length (p : P) :
    (command .current p).frames = p.frames ∧ (command .current p).datalength = p.datalength ∧ (command .current p).writeCur = p.writeCur := by
  simp [command, codecInit]

example : (command .current (write (openNew 2 44) 6)).frames = 6 := by decide

theorem step_atEnd (p : P) (h : AtEnd p) (o : Op) : AtEnd (step .current p o) ∧ (step .current p o).frames = p.frames + written [o] := by
  cases o with
  | write k =>
    unfold AtEnd at h
    simp only [step, write, AtEnd, written]
    constructor
    · split <;> omega
    · split <;> omega
  | cmd => simp [step, command, codecInit, AtEnd, written] at *; exact h

/-- **session_frames.**  From a handle whose write pointer stands at the end of the audio (a fresh SFM_WRITE or SFM_RDWR
    handle), after ANY sequence of write calls and SFC_TEST_IEEE_FLOAT_REPLACE commands the frame count is the count at
    open plus the frames the write calls accepted — what the container's close then serialises. -/
theorem session_frames (ops : List Op) (p : P) (h : AtEnd p) :
    AtEnd (run .current p ops) ∧ (run .current p ops).frames = p.frames + written ops := by
  induction ops generalizing p with
  | nil => simp [run, written]; exact h
  | cons o t ih =>
    have hs := step_atEnd p h o
    have := ih (step .current p o) hs.1
    simp only [run, List.foldl_cons] at *
    refine ⟨this.1, ?_⟩
    rw [this.2, hs.2]
    cases o <;> simp [written] <;> omega

example : AtEnd (openNew 1 44) ∧ AtEnd (openOld 2 44 9) ∧
    (run .current (openNew 1 44) [.write 6, .cmd, .write 3, .cmd]).frames = 9 ∧
    (run .current (openOld 2 44 9) [.write 3, .cmd]).frames = 12 := by decide

/-- **session_frames_old_rule.**  Before the repair the handle fell back to the length the file had at open: a new file
    on which 6 frames were written announced 0 frames after the command, a file of 9 frames that had grown to 12
    announced 9; and the next write call counted on from there only because the write pointer had not moved. -/
theorem session_frames_old_rule :
    (run .old (openNew 1 44) [.write 6, .cmd]).frames = 0 ∧ written [.write 6, .cmd] = 6 ∧
    (run .old (openOld 2 44 9) [.write 3, .cmd]).frames = 9 ∧
    (run .old (openNew 1 44) [.write 6, .cmd, .write 3]).frames = 9 := by decide

/-- the full statement fails for the old rule -/
theorem session_frames_full_old_rule_fails :
    ¬ (∀ (ops : List Op) (p : P), AtEnd p → (run .old p ops).frames = p.frames + written ops) := by
  intro h
  have := h [.write 6, .cmd] (openNew 1 44) (by decide)
  revert this; decide

end Sf.C04IeeeReinit
