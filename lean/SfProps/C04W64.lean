-- properties: C04 C11
/-
  C04 / C11 — the W64 container (SfModel/W64.lean), sample-granular encodings.  Property theorems only
  (helpers: SfProofs/CafBytes.lean, W64Image.lean, W64Session.lean).

  `image c N data = hdr c N ++ data` is the closed file of N frames whose encoded audio is `data`;
  `openW / step / close` is the write session (w64_open, the write call's bookkeeping, header updates, w64_close).
-/
import SfProofs.W64Session
import SfProofs.W64Parse
namespace Sf.C04W64
open Sf Sf.W64 Sf.CafW64

/-- the header is 104 bytes (PCM) or 136 bytes (with the 'fact' chunk: float, double, µ-law, A-law), always a multiple
    of 8, whatever the lengths written into it; nothing is appended after the audio data (no 8-byte padding) -/
theorem w64_header_length (c : Cfg) (n : Nat) (data : List Byte) :
    (hdr c n).length = hdrLen c ∧ hdrLen c % 8 = 0 ∧ (image c n data).length = hdrLen c + data.length := by
  refine ⟨hdr_length c n, ?_, image_length c n data⟩
  rcases hdrLen_cases c with h | h <;> omega

/-- every size field of the closed file equals the real length, for every N (all fields are 64-bit, so the only
    guard is 2^64): the 'riff' size is the file length, the 'fmt ' size is 40 = 24 + 16, the 'data' size is the audio
    byte count + 24 — each INCLUDING the 24-byte chunk header -/
theorem w64_size_fields (c : Cfg) (n : Nat) (data : List Byte) (hd : data.length = n * c.bw)
    (hsz : hdrLen c + n * c.bw + 24 < 2 ^ 64) :
    let img := image c n data
    ofLE ((img.drop 16).take 8) = img.length ∧
    ofLE ((img.drop 56).take 8) = 40 ∧
    ofLE ((img.drop (hdrLen c - 8)).take 8) = data.length + 24 := by
  intro img
  have hlen : img.length = hdrLen c + data.length := image_length c n data
  have e64 : (256 : Nat) ^ 8 = 2 ^ 64 := by decide
  obtain ⟨g1, g2, g3, g4, g5⟩ := guid_lengths
  refine ⟨?_, ?_, ?_⟩
  · have hb : img = riffG ++ (leBytes 8 (wrapU 64 ((hdrLen c + n * c.bw : Nat) : Int)) ++
        (waveG ++ (fmtG ++ (le 8 40 ++ (fmtBody c ++ (factPart c n ++ (dataG ++ (le 8 (((n * c.bw : Nat) : Int) + 24) ++ data)))))))) := by
      simp only [img, image, tail, hdr, hdrRaw_eq, le, List.append_assoc, List.append_nil]
    rw [le_field_at img _ _ 8 _ 16 hb g1.symm, wrapU_nat 64 _ (by omega), hlen, hd, e64]
    exact Nat.mod_eq_of_lt (by omega)
  · have hb : img = (riffG ++ le 8 ((hdrLen c + n * c.bw : Nat) : Int) ++ waveG ++ fmtG) ++ (leBytes 8 (wrapU 64 40) ++
        (fmtBody c ++ (factPart c n ++ (dataG ++ (le 8 (((n * c.bw : Nat) : Int) + 24) ++ data))))) := by
      simp only [img, image, tail, hdr, hdrRaw_eq, le, List.append_assoc, List.append_nil]
    rw [le_field_at img _ _ 8 _ 56 hb (by simp [le_length, g1, g2, g3])]
    decide
  · have hb : img = (riffG ++ le 8 ((hdrLen c + n * c.bw : Nat) : Int) ++ waveG ++ fmtG ++ le 8 40 ++ fmtBody c ++ factPart c n ++ dataG) ++
        (leBytes 8 (wrapU 64 (((n * c.bw : Nat) : Int) + 24)) ++ ([] ++ data)) := by
      simp only [img, image, tail, hdr, hdrRaw_eq, le, List.append_assoc, List.append_nil, List.nil_append]
    have hw : wrapU 64 (((n * c.bw : Nat) : Int) + 24) = n * c.bw + 24 := by
      have := wrapU_nat 64 (n * c.bw + 24) (by omega)
      simpa using this
    rw [le_field_at img _ _ 8 _ (hdrLen c - 8) hb (by simp [le_length, g1, g2, g3, g5, fmtBody_length, factPart_length, hdrLen]; omega), hw, hd, e64]
    exact Nat.mod_eq_of_lt (by omega)

/-- the 'fact' chunk of float / double / µ-law / A-law files holds the frame count -/
theorem w64_fact_frames (c : Cfg) (n : Nat) (data : List Byte) (hf : hasFact c.codec = true) (hn : n < 2 ^ 64) :
    ofLE (((image c n data).drop 104).take 8) = n := by
  obtain ⟨g1, g2, g3, g4, g5⟩ := guid_lengths
  have hb : image c n data = (riffG ++ le 8 ((hdrLen c + n * c.bw : Nat) : Int) ++ waveG ++ fmtG ++ le 8 40 ++ fmtBody c ++ factG ++ le 8 32) ++
      (leBytes 8 (wrapU 64 (n : Int)) ++ (dataG ++ (le 8 (((n * c.bw : Nat) : Int) + 24) ++ data))) := by
    simp only [image, tail, hdr, hdrRaw_eq, factPart, hf, if_true, le, List.append_assoc, List.append_nil]
  have e64 : (256 : Nat) ^ 8 = 2 ^ 64 := by decide
  rw [le_field_at _ _ _ 8 _ 104 hb (by simp [le_length, g1, g2, g3, g4, fmtBody_length]), wrapU_nat 64 n hn, e64]
  exact Nat.mod_eq_of_lt hn

/-- non-vacuity and a concrete re-open: a stereo 24-bit file of 2 frames and a mono µ-law file of 3 frames parse back
    with the written parameters; the parser takes the frame count from the FILE length (trailing bytes would count) -/
example : ({ codec := 0x03, ch := 2, sr := 44100 } : Cfg).wf ∧
    parse (image { codec := 0x03, ch := 2, sr := 44100 } 2 (List.replicate 12 7)) =
      .ok { fmtWord := 0x0B0003, ch := 2, sr := 44100, frames := 2, dataoffset := 104, datalength := 12 } := by decide +kernel
example : parse (image { codec := 0x10, ch := 1, sr := 8000 } 3 [1, 2, 3]) =
      .ok { fmtWord := 0x0B0010, ch := 1, sr := 8000, frames := 3, dataoffset := 136, datalength := 3 } := by decide +kernel
example : parse (image { codec := 0x10, ch := 1, sr := 8000 } 3 [1, 2, 3] ++ [9, 9]) =
      .ok { fmtWord := 0x0B0010, ch := 1, sr := 8000, frames := 5, dataoffset := 136, datalength := 5 } := by decide +kernel

/-! ### the write session: stale frames, crash points -/

/-- `stale_frames_ignored` for W64 (sample-granular encodings): whatever SF_INFO.frames held at open, and however the
    frames were split over write calls and interleaved with header updates, the closed file is `image c N data` — an
    expression in which the stale value does not occur.  (Before the repair of w64_open the value reached the header
    written at open — `w64_open_header_shows_stale_frames_old_rule` — and, for the block codecs, the closed file.) -/
theorem stale_frames_ignored_w64 (c : Cfg) (hwf : c.wf) (stale : Int) (ops : List Op) (hv : ∀ op ∈ ops, op.valid c) :
    (close c (run c (openW c stale) ops)).bytes = image c (sessFrames ops) (sessData ops) := by
  have i := run_inv (wf_bw_pos hwf) ops (openW_inv c stale) hv
  have := (writeHeader_inv i (wf_bw_pos hwf) true).2.1 rfl
  simpa [close, image, tail] using this

/-- since the repair of w64_open the header written by sf_open does not depend on the caller's value either: it is the
    header of an empty file whose lengths are not yet known (riff size 0, data size 24, fact 0) -/
theorem w64_open_header_ignores_stale_frames (c : Cfg) (stale : Int) :
    (openW c stale).bytes = hdrRaw c 0 0 0 ∧ (openW c stale).bytes = (openW c 0).bytes := by
  refine ⟨?_, rfl⟩
  simp [openW, writeHeader, writeAt]

/-- the rule before the repair (`openW_old`): the 'fact' chunk of the header written by sf_open held the caller's value
    until the first header update — a crash before that left it on disk -/
theorem w64_open_header_shows_stale_frames_old_rule :
    ofLE (((openW_old { codec := 0x06, ch := 1, sr := 8000 } 99999).bytes.drop 104).take 8) = 99999 ∧
    (openW_old { codec := 0x06, ch := 1, sr := 8000 } 99999).bytes ≠ (openW_old { codec := 0x06, ch := 1, sr := 8000 } 0).bytes ∧
    ofLE (((openW_old { codec := 0x02, ch := 1, sr := 8000 } 0).bytes.drop 96).take 8) = 23 := by
  decide +kernel

/-- C11 `snapshot_valid` for W64: when SFC_UPDATE_HEADER_NOW returns, the store is byte for byte the closed file of the
    frames written so far (there is no tailer) — so everything proved about `image` holds for the crash-point copy -/
theorem snapshot_valid_w64 (c : Cfg) (hwf : c.wf) (stale : Int) (ops : List Op) (hv : ∀ op ∈ ops, op.valid c) :
    (step c (run c (openW c stale) ops) .update).bytes = image c (sessFrames ops) (sessData ops) := by
  have i := run_inv (wf_bw_pos hwf) ops (openW_inv c stale) hv
  have := (writeHeader_inv i (wf_bw_pos hwf) true).2.1 rfl
  simpa [step, image, tail] using this

/-- …and in auto mode every write call that transferred something ends in such a crash point -/
theorem auto_write_is_snapshot_w64 (c : Cfg) (hwf : c.wf) (stale : Int) (ops : List Op) (hv : ∀ op ∈ ops, op.valid c)
    (k : Nat) (data : List Byte) (hk : k ≠ 0) (hd : data.length = k * c.bw) (hauto : (run c (openW c stale) ops).auto = true) :
    (step c (run c (openW c stale) ops) (.write k data)).bytes = image c (sessFrames ops + k) (sessData ops ++ data) := by
  have i := run_inv (wf_bw_pos hwf) ops (openW_inv c stale) hv
  have := step_write_auto i (wf_bw_pos hwf) k data hk hd hauto
  simpa [image, tail] using this

example : ({ codec := 0x10, ch := 1, sr := 8000 } : Cfg).wf ∧ (∀ op ∈ [Op.write 2 [1, 2], .update, .auto true, .write 1 [3]], op.valid { codec := 0x10, ch := 1, sr := 8000 }) ∧
    (close { codec := 0x10, ch := 1, sr := 8000 } (run { codec := 0x10, ch := 1, sr := 8000 } (openW { codec := 0x10, ch := 1, sr := 8000 } 77) [Op.write 2 [1, 2], .update, .auto true, .write 1 [3]])).bytes =
      image { codec := 0x10, ch := 1, sr := 8000 } 3 [1, 2, 3] := by decide +kernel

/-! ### re-opening the closed file -/

/-- `reopen_info` for W64: for every configuration sf_open accepts, every N and every encoded audio of N frames, the reader
    of the closed file reports the requested channels, W64 | encoding, the requested rate and frames = N; the audio starts
    right after the header.  (Guard 2^62: the reader treats larger data sizes as damage.) -/
theorem w64_reopen_info (c : Cfg) (hwf : c.wf) (n : Nat) (data : List Byte) (hd : data.length = n * c.bw)
    (hsz : hdrLen c + n * c.bw + 24 < 2 ^ 62) :
    parse (image c n data) =
      .ok { fmtWord := 0x0B0000 + c.codec, ch := c.ch, sr := c.sr, frames := n, dataoffset := hdrLen c, datalength := n * c.bw } :=
  parse_image c hwf n data hd hsz

/-- `read_to_eof`: the reported data region is exactly the audio written -/
theorem w64_reopen_data (c : Cfg) (n : Nat) (data : List Byte) (hd : data.length = n * c.bw) :
    ((image c n data).drop (hdrLen c)).take (n * c.bw) = data := by
  have h := hdr_length c n
  simp only [image, tail, List.append_nil]
  rw [← h, ← hd]
  simp

/-- the closed file of ANY valid write session, and the crash-point copy after ANY header update, re-open with the frames
    written so far (C04 and C11 `snapshot_valid` with the parser in the statement) -/
theorem w64_session_reopen (c : Cfg) (hwf : c.wf) (stale : Int) (ops : List Op) (hv : ∀ op ∈ ops, op.valid c)
    (hsz : hdrLen c + sessFrames ops * c.bw + 24 < 2 ^ 62) :
    parse (close c (run c (openW c stale) ops)).bytes =
      .ok { fmtWord := 0x0B0000 + c.codec, ch := c.ch, sr := c.sr, frames := sessFrames ops, dataoffset := hdrLen c,
            datalength := sessFrames ops * c.bw } ∧
    parse (step c (run c (openW c stale) ops) .update).bytes =
      .ok { fmtWord := 0x0B0000 + c.codec, ch := c.ch, sr := c.sr, frames := sessFrames ops, dataoffset := hdrLen c,
            datalength := sessFrames ops * c.bw } := by
  have i := run_inv (wf_bw_pos hwf) ops (openW_inv c stale) hv
  rw [stale_frames_ignored_w64 c hwf stale ops hv, snapshot_valid_w64 c hwf stale ops hv]
  have := parse_image c hwf (sessFrames ops) (sessData ops) (by simpa using i.dlen) hsz
  exact ⟨this, this⟩

/-- KF-W64-READER-LENGTH as a proved witness (foreign files only): two bytes appended to a library-written 3-frame u-law file
    are reported as two more frames — the reader takes the audio length from the file length, not from the 'data' size -/
theorem w64_trailing_bytes_counted :
    parse (image { codec := 0x10, ch := 1, sr := 8000 } 3 [1, 2, 3] ++ [9, 9]) =
      .ok { fmtWord := 0x0B0010, ch := 1, sr := 8000, frames := 5, dataoffset := 136, datalength := 5 } := by decide +kernel

end Sf.C04W64
