/-
  C04 / C11 — the W64 container (SfModel/W64.lean), sample-granular encodings.  Property theorems only
  (helpers: SfProofs/CafBytes.lean, W64Image.lean, W64Session.lean).

  `image c N data = hdr c N ++ data` is the closed file of N frames whose encoded audio is `data`;
  `openW / step / close` is the write session (w64_open, the write call's bookkeeping, header updates, w64_close).
-/
import SfProofs.W64Image
namespace Sf.C04W64
open Sf Sf.W64 Sf.CafW64

/-- the header is 104 bytes (PCM) or 136 bytes (with the 'fact' chunk: float, double, µ-law, A-law), always a multiple
    of 8, whatever the lengths written into it; nothing is appended after the audio data (no 8-byte padding) -/
theorem w64_header_length (c : Cfg) (n : Nat) (data : List Byte) :
    (hdr c n).length = hdrLen c ∧ hdrLen c % 8 = 0 ∧ (image c n data).length = hdrLen c + data.length := by
  refine ⟨hdr_length c n, ?_, image_length c n data⟩
  rcases hdrLen_cases c with h | h <;> omega

/-- every size field of the closed file equals the real length, for every N (all fields are 64-bit, so the only
    guard is 2^64): the 'riff' size is the file length, the 'fmt ' size is 40 = 24 + 16, the 'data' size is the audio
    byte count + 24 — each INCLUDING the 24-byte chunk header -/
theorem w64_size_fields (c : Cfg) (n : Nat) (data : List Byte) (hd : data.length = n * c.bw)
    (hsz : hdrLen c + n * c.bw + 24 < 2 ^ 64) :
    let img := image c n data
    ofLE ((img.drop 16).take 8) = img.length ∧
    ofLE ((img.drop 56).take 8) = 40 ∧
    ofLE ((img.drop (hdrLen c - 8)).take 8) = data.length + 24 := by
  intro img
  have hlen : img.length = hdrLen c + data.length := image_length c n data
  have e64 : (256 : Nat) ^ 8 = 2 ^ 64 := by decide
  obtain ⟨g1, g2, g3, g4, g5⟩ := guid_lengths
  refine ⟨?_, ?_, ?_⟩
  · have hb : img = riffG ++ (leBytes 8 (wrapU 64 ((hdrLen c + n * c.bw : Nat) : Int)) ++
        (waveG ++ (fmtG ++ (le 8 40 ++ (fmtBody c ++ (factPart c n ++ (dataG ++ (le 8 (((n * c.bw : Nat) : Int) + 24) ++ data)))))))) := by
      simp only [img, image, tail, hdr, hdrRaw_eq, le, List.append_assoc, List.append_nil]
    rw [le_field_at img _ _ 8 _ 16 hb g1.symm, wrapU_nat 64 _ (by omega), hlen, hd, e64]
    exact Nat.mod_eq_of_lt (by omega)
  · have hb : img = (riffG ++ le 8 ((hdrLen c + n * c.bw : Nat) : Int) ++ waveG ++ fmtG) ++ (leBytes 8 (wrapU 64 40) ++
        (fmtBody c ++ (factPart c n ++ (dataG ++ (le 8 (((n * c.bw : Nat) : Int) + 24) ++ data))))) := by
      simp only [img, image, tail, hdr, hdrRaw_eq, le, List.append_assoc, List.append_nil]
    rw [le_field_at img _ _ 8 _ 56 hb (by simp [le_length, g1, g2, g3])]
    decide
  · have hb : img = (riffG ++ le 8 ((hdrLen c + n * c.bw : Nat) : Int) ++ waveG ++ fmtG ++ le 8 40 ++ fmtBody c ++ factPart c n ++ dataG) ++
        (leBytes 8 (wrapU 64 (((n * c.bw : Nat) : Int) + 24)) ++ ([] ++ data)) := by
      simp only [img, image, tail, hdr, hdrRaw_eq, le, List.append_assoc, List.append_nil, List.nil_append]
    have hw : wrapU 64 (((n * c.bw : Nat) : Int) + 24) = n * c.bw + 24 := by
      have := wrapU_nat 64 (n * c.bw + 24) (by omega)
      simpa using this
    rw [le_field_at img _ _ 8 _ (hdrLen c - 8) hb (by simp [le_length, g1, g2, g3, g5, fmtBody_length, factPart_length, hdrLen]; omega), hw, hd, e64]
    exact Nat.mod_eq_of_lt (by omega)

/-- the 'fact' chunk of float / double / µ-law / A-law files holds the frame count -/
theorem w64_fact_frames (c : Cfg) (n : Nat) (data : List Byte) (hf : hasFact c.codec = true) (hn : n < 2 ^ 64) :
    ofLE (((image c n data).drop 104).take 8) = n := by
  obtain ⟨g1, g2, g3, g4, g5⟩ := guid_lengths
  have hb : image c n data = (riffG ++ le 8 ((hdrLen c + n * c.bw : Nat) : Int) ++ waveG ++ fmtG ++ le 8 40 ++ fmtBody c ++ factG ++ le 8 32) ++
      (leBytes 8 (wrapU 64 (n : Int)) ++ (dataG ++ (le 8 (((n * c.bw : Nat) : Int) + 24) ++ data))) := by
    simp only [image, tail, hdr, hdrRaw_eq, factPart, hf, if_true, le, List.append_assoc, List.append_nil]
  have e64 : (256 : Nat) ^ 8 = 2 ^ 64 := by decide
  rw [le_field_at _ _ _ 8 _ 104 hb (by simp [le_length, g1, g2, g3, g4, fmtBody_length]), wrapU_nat 64 n hn, e64]
  exact Nat.mod_eq_of_lt hn

/-- non-vacuity and a concrete re-open: a stereo 24-bit file of 2 frames and a mono µ-law file of 3 frames parse back
    with the written parameters; the parser takes the frame count from the FILE length (trailing bytes would count) -/
example : ({ codec := 0x03, ch := 2, sr := 44100 } : Cfg).wf ∧
    parse (image { codec := 0x03, ch := 2, sr := 44100 } 2 (List.replicate 12 7)) =
      .ok { fmtWord := 0x0B0003, ch := 2, sr := 44100, frames := 2, dataoffset := 104, datalength := 12 } := by decide +kernel
example : parse (image { codec := 0x10, ch := 1, sr := 8000 } 3 [1, 2, 3]) =
      .ok { fmtWord := 0x0B0010, ch := 1, sr := 8000, frames := 3, dataoffset := 136, datalength := 3 } := by decide +kernel
example : parse (image { codec := 0x10, ch := 1, sr := 8000 } 3 [1, 2, 3] ++ [9, 9]) =
      .ok { fmtWord := 0x0B0010, ch := 1, sr := 8000, frames := 5, dataoffset := 136, datalength := 5 } := by decide +kernel

end Sf.C04W64
