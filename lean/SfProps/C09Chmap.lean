/-
  C09 / KF-C09-CHMAP-REFUSED-KEPT — SFC_SET_CHANNEL_MAP_INFO stores the caller's map in psf->channel_map BEFORE it asks the container
  whether it can take it.  On a container without a command hook (AU, RAW, PAF, …) the call then returns SF_FALSE — and so it does on
  WAV / AIFF / CAF for a map they cannot express — while SFC_GET_CHANNEL_MAP_INFO afterwards returns SF_TRUE with that map: a call that
  reports failure has changed the metadata.  The model (`Sf.Command.withHandle`, arm k1101) mirrors the code.
  * `refused_setter_no_effect_full`       : every metadata setter that answers SF_FALSE leaves the handle alone — FALSE;
  * `chmap_refused_but_kept`, `…_full_fails` : the witness (findings/kf_c09_chmap_refused_kept.txt on the library);
  * `refused_setter_no_effect_partial`    : it holds for the four other setters (bext, cart, cue, instrument), every size and data.
-/
import SfModel.Command
import SfProofs.Command
import Mathlib.Tactic.SplitIfs
namespace Sf.C09Chmap
open Sf.Command

/-- the metadata setters that answer SF_FALSE on failure -/
def isSetter (cmd : Int) : Bool := cmd = 0x10F1 ∨ cmd = 0x1400 ∨ cmd = 0x10CF ∨ cmd = 0x10D1 ∨ cmd = 0x1101

/-- full statement: a setter that returns SF_FALSE leaves the handle as it was -/
def refused_setter_no_effect_full : Prop :=
  ∀ (g : G) (h : H) (cmd : Int) (size : Nat) (data : Option Mem), isSetter cmd = true →
    (run g (some h) cmd size data).ret = .exact 0 → (run g (some h) cmd size data).h' = some h

/-- an AU write handle (no container command hook) -/
def auW : H :=
  { mode := .w, container := 0x030000, codec := 2, channels := 2, seekable := true, hasCommand := false, haveWritten := false,
    readCur := 0, writeCur := 0, normFloat := true, normDouble := true, clipping := false, floatIntMult := false,
    scaleIntFloat := false, autoHeader := false, ieeeReplace := false, endswap := false, ambisonic := 0,
    rf64Downgrade := false, bext := none, cart := none, cues := none, hasInstrument := false, hasLoop := false,
    hasChanMap := false, hasPeak := false, logLen := 11, metaEpoch := 0, fileEpoch := 0 }
def g0 : G := { verLen := 16, gLogLen := 0, simpleCount := 13, majorCount := 23, subtypeCount := 28 }
/-- the ints 3, 4 (left, right … any valid entries) -/
def map34 : Mem := ⟨8, fun i => if i = 0 then 3 else if i = 4 then 4 else 0⟩

theorem chmap_refused_but_kept :
    (run g0 (some auW) 0x1101 8 (some map34)).ret = .exact 0 ∧
    (run g0 (some auW) 0x1101 8 (some map34)).h' = some { auW with hasChanMap := true, metaEpoch := 1 } := by decide

theorem refused_setter_no_effect_full_fails : ¬ refused_setter_no_effect_full := by
  intro hf
  have := hf g0 auW 0x1101 8 (some map34) (by decide) chmap_refused_but_kept.1
  rw [chmap_refused_but_kept.2] at this
  exact absurd this (by decide)

theorem refused_setter_no_effect_partial (g : G) (h : H) (cmd : Int) (size : Nat) (data : Option Mem)
    (hc : cmd = 0x10F1 ∨ cmd = 0x1400 ∨ cmd = 0x10CF ∨ cmd = 0x10D1)
    (hr : (run g (some h) cmd size data).ret = .exact 0) : (run g (some h) cmd size data).h' = some h := by
  have hp : preHandle g (some h) cmd size data = none := by rcases hc with rfl | rfl | rfl | rfl <;> simp [preHandle]
  simp only [run, hp] at hr ⊢
  rcases hc with rfl | rfl | rfl | rfl
  · have hcl : classify 0x10F1 = Cls.k10F1 := by decide
    simp only [withHandle, hcl] at hr ⊢
    split_ifs at hr ⊢ <;> try rfl
    all_goals (cases data <;> simp only [lateVar, varSet] at hr ⊢)
    all_goals (split_ifs at hr ⊢ <;> simp_all)
  · have hcl : classify 0x1400 = Cls.k1400 := by decide
    simp only [withHandle, hcl] at hr ⊢
    split_ifs at hr ⊢ <;> try rfl
    all_goals (cases data <;> simp only [lateVar, varSet] at hr ⊢)
    all_goals (split_ifs at hr ⊢ <;> simp_all)
  · have hcl : classify 0x10CF = Cls.k10CF := by decide
    simp only [withHandle, hcl] at hr ⊢
    split_ifs at hr ⊢ <;> try rfl
    all_goals (cases data <;> simp only [] at hr ⊢)
    all_goals (try split_ifs at hr ⊢) <;> simp_all
  · have hcl : classify 0x10D1 = Cls.k10D1 := by decide
    simp only [withHandle, hcl, guardEq] at hr ⊢
    split_ifs at hr ⊢ <;> try rfl
    all_goals (cases data <;> simp only [] at hr ⊢)
    all_goals (try split_ifs at hr ⊢) <;> simp_all
end Sf.C09Chmap
