/-
  C09 — a metadata setter that answers SF_FALSE has no effect, for ALL five setters (SFC_SET_BROADCAST_INFO, SFC_SET_CART_INFO,
  SFC_SET_CUE, SFC_SET_INSTRUMENT, SFC_SET_CHANNEL_MAP_INFO), every handle, size and data.

  SFC_SET_CHANNEL_MAP_INFO copies the caller's map into psf->channel_map BEFORE it asks the container whether it can take it.
  Until the repair "fix: a refused SFC_SET_CHANNEL_MAP_INFO on a handle without a channel map left the refused map behind"
  (KF-C09-CHMAP-REFUSED-KEPT) a refused map stayed there when the handle had no map before — on AU / RAW / PAF … (no command hook)
  EVERY set was "refused but kept": SF_FALSE, and SFC_GET_CHANNEL_MAP_INFO afterwards SF_TRUE with that map.  The repaired code
  frees the refused map; the model (`Sf.Command.chmapSet false`, with the container's verdict `Sf.ChmapVerdict.containerAccepts`)
  mirrors it, the rule before (`chmapSet true`; `Sf.ChmapVerdict.Rule.keepNew`) is kept next to it.
  * `refused_setter_no_effect`                      : the full statement (was `…_full`, refuted; `…_partial` excluded the channel map);
  * `chmap_refused_but_kept_old_rule`, `refused_chmap_no_effect_old_rule_fails` : the witness under the rule before the repair
                                                      (findings/kf_c09_chmap_refused_kept.txt on the library);
  * `setMap_refused_no_effect` … : the same on the state machine that carries the map itself (`sfmodel chmap`, vlib/chmapfix.py);
  * `remask_witness` : the residual KF-C09-CHMAP-REMASK (the handler's mask is re-derived from the old map: foreign masks with spare bits).
-/
import SfModel.Command
import SfModel.ChmapVerdict
import SfProofs.Command
import Mathlib.Tactic.SplitIfs
namespace Sf.C09Chmap
open Sf.Command

/-- the metadata setters that answer SF_FALSE on failure -/
def isSetter (cmd : Int) : Bool := cmd = 0x10F1 ∨ cmd = 0x1400 ∨ cmd = 0x10CF ∨ cmd = 0x10D1 ∨ cmd = 0x1101

/-- an AU write handle (no container command hook) -/
def auW : H :=
  { mode := .w, container := 0x030000, codec := 2, channels := 2, seekable := true, hasCommand := false, haveWritten := false,
    readCur := 0, writeCur := 0, normFloat := true, normDouble := true, clipping := false, floatIntMult := false,
    scaleIntFloat := false, autoHeader := false, ieeeReplace := false, endswap := false, ambisonic := 0,
    rf64Downgrade := false, bext := none, cart := none, cues := none, hasInstrument := false, hasLoop := false,
    hasChanMap := false, hasPeak := false, logLen := 11, metaEpoch := 0, fileEpoch := 0 }
/-- a WAV write handle (wav_command answers by the channel mask) -/
def wavW : H := { auW with container := 0x010000, hasCommand := true }
def g0 : G := { verLen := 16, gLogLen := 0, simpleCount := 13, majorCount := 23, subtypeCount := 28 }
/-- the ints 3, 4 (right, centre: mask bits 1 and 2) -/
def map34 : Mem := ⟨8, fun i => if i = 0 then 3 else if i = 4 then 4 else 0⟩
/-- the ints 4, 3 (centre, right: not in mask-bit order — wavlike_gen_channel_mask answers 0) -/
def map43 : Mem := ⟨8, fun i => if i = 0 then 4 else if i = 4 then 3 else 0⟩

theorem refused_setter_no_effect_four (g : G) (h : H) (cmd : Int) (size : Nat) (data : Option Mem)
    (hc : cmd = 0x10F1 ∨ cmd = 0x1400 ∨ cmd = 0x10CF ∨ cmd = 0x10D1)
    (hr : (run g (some h) cmd size data).ret = .exact 0) : (run g (some h) cmd size data).h' = some h := by
  have hp : preHandle g (some h) cmd size data = none := by rcases hc with rfl | rfl | rfl | rfl <;> simp [preHandle]
  simp only [run, hp] at hr ⊢
  rcases hc with rfl | rfl | rfl | rfl
  · have hcl : classify 0x10F1 = Cls.k10F1 := by decide
    simp only [withHandle, hcl] at hr ⊢
    split_ifs at hr ⊢ <;> try rfl
    all_goals (cases data <;> simp only [lateVar, varSet] at hr ⊢)
    all_goals (split_ifs at hr ⊢ <;> simp_all)
  · have hcl : classify 0x1400 = Cls.k1400 := by decide
    simp only [withHandle, hcl] at hr ⊢
    split_ifs at hr ⊢ <;> try rfl
    all_goals (cases data <;> simp only [lateVar, varSet] at hr ⊢)
    all_goals (split_ifs at hr ⊢ <;> simp_all)
  · have hcl : classify 0x10CF = Cls.k10CF := by decide
    simp only [withHandle, hcl] at hr ⊢
    split_ifs at hr ⊢ <;> try rfl
    all_goals (cases data <;> simp only [] at hr ⊢)
    all_goals (try split_ifs at hr ⊢) <;> simp_all
  · have hcl : classify 0x10D1 = Cls.k10D1 := by decide
    simp only [withHandle, hcl, guardEq] at hr ⊢
    split_ifs at hr ⊢ <;> try rfl
    all_goals (cases data <;> simp only [] at hr ⊢)
    all_goals (try split_ifs at hr ⊢) <;> simp_all

/-- the SFC_SET_CHANNEL_MAP_INFO arm of the current code: SF_FALSE leaves the handle as it was -/
theorem chmapSet_refused_no_effect (h : H) (size : Nat) (data : Option Mem)
    (hr : (chmapSet false h size data).ret = .exact 0) : (chmapSet false h size data).h' = some h := by
  unfold chmapSet guardEq at hr ⊢
  cases data <;> simp only [] at hr ⊢
  · split_ifs <;> rfl
  · split_ifs at hr ⊢ <;> first | rfl | simp_all

/-- **refused_setter_no_effect** (full strength): whichever of the five setters answers SF_FALSE, on whatever handle, size
    and data, the handle is what it was -/
theorem refused_setter_no_effect (g : G) (h : H) (cmd : Int) (size : Nat) (data : Option Mem) (hc : isSetter cmd = true)
    (hr : (run g (some h) cmd size data).ret = .exact 0) : (run g (some h) cmd size data).h' = some h := by
  by_cases h5 : cmd = 0x1101
  · subst h5
    have hp : preHandle g (some h) 0x1101 size data = none := by simp [preHandle]
    have hcl : classify 0x1101 = Cls.k1101 := by decide
    simp only [run, hp, withHandle, hcl] at hr ⊢
    exact chmapSet_refused_no_effect h size data hr
  · apply refused_setter_no_effect_four g h cmd size data _ hr
    simp only [isSetter, Bool.decide_or, Bool.or_eq_true, decide_eq_true_eq] at hc
    omega

/-- non-vacuity: the refusal happens — AU refuses every map, WAV one that is not in mask-bit order — and the handle is untouched;
    a map in mask-bit order is accepted by WAV and changes the handle -/
example : isSetter 0x1101 = true ∧ (run g0 (some auW) 0x1101 8 (some map34)).ret = .exact 0 ∧
    (run g0 (some auW) 0x1101 8 (some map34)).h' = some auW ∧
    (run g0 (some wavW) 0x1101 8 (some map43)).ret = .exact 0 ∧ (run g0 (some wavW) 0x1101 8 (some map43)).h' = some wavW ∧
    (run g0 (some wavW) 0x1101 8 (some map34)).ret = .exact 1 ∧
    (run g0 (some wavW) 0x1101 8 (some map34)).h' = some { wavW with hasChanMap := true, metaEpoch := 1 } := by decide

/-! ## the rule before the repair (KF-C09-CHMAP-REFUSED-KEPT) -/

/-- the statement for the arm as it was: SF_FALSE leaves the handle as it was -/
def refused_chmap_no_effect_old_rule : Prop :=
  ∀ (h : H) (size : Nat) (data : Option Mem), (chmapSet true h size data).ret = .exact 0 → (chmapSet true h size data).h' = some h

theorem chmap_refused_but_kept_old_rule :
    (chmapSet true auW 8 (some map34)).ret = .exact 0 ∧
    (chmapSet true auW 8 (some map34)).h' = some { auW with hasChanMap := true, metaEpoch := 1 } := by decide

theorem refused_chmap_no_effect_old_rule_fails : ¬ refused_chmap_no_effect_old_rule := by
  intro hf
  have := hf auW 8 (some map34) chmap_refused_but_kept_old_rule.1
  rw [chmap_refused_but_kept_old_rule.2] at this
  exact absurd this (by decide)

/-! ## the same on the state machine that carries psf->channel_map itself (`Sf.ChmapVerdict`, run against the library) -/

open Sf.ChmapVerdict in
/-- a refused call (SF_FALSE) leaves psf->channel_map and everything else as it was -/
theorem setMap_refused_no_effect (s : St) (size : Nat) (m : Option (List Int)) (hr : (setMap s size m).ret = 0) :
    (setMap s size m).st = s := by
  unfold setMap setMapW at hr ⊢
  cases m <;> simp only [] at hr ⊢
  · split_ifs <;> rfl
  · split_ifs at hr ⊢ <;> first | rfl | simp_all

open Sf.ChmapVerdict in
/-- … hence SFC_GET_CHANNEL_MAP_INFO answers after a refused call what it answered before -/
theorem getMap_after_refused (s : St) (size : Nat) (m : Option (List Int)) (gs : Nat) (gn : Bool)
    (hr : (setMap s size m).ret = 0) : getMap (setMap s size m).st gs gn = getMap s gs gn := by
  rw [setMap_refused_no_effect s size m hr]

open Sf.ChmapVerdict in
/-- an accepted call stores exactly the caller's map, and the container had a mask / tag for it -/
theorem setMap_accepted (s : St) (size : Nat) (m : Option (List Int)) (hr : (setMap s size m).ret = 1) :
    ∃ l, m = some l ∧ l.length = s.ch ∧ validEntries l = true ∧ containerAccepts s.container (l.map Int.toNat) = true ∧
      (setMap s size m).st = { s with map := some (l.map Int.toNat) } := by
  unfold setMap setMapW at hr ⊢
  cases m with
  | none => simp only [] at hr; split_ifs at hr <;> simp_all
  | some l =>
    refine ⟨l, rfl, ?_⟩
    simp only [] at hr ⊢
    split_ifs at hr ⊢ <;> simp_all

open Sf.ChmapVerdict in
/-- a container without a command hook accepts no map -/
theorem no_hook_refuses (c : Nat) (map : List Nat) (hc : hasHook c = false) : containerAccepts c map = false := by
  unfold hasHook at hc
  simp only [Bool.or_eq_false_iff, decide_eq_false_iff_not] at hc
  unfold containerAccepts
  simp [hc.1.1.1.1, hc.1.1.1.2, hc.1.1.2, hc.1.2, hc.2]

open Sf.ChmapVerdict in
/-- the rules before: `keepNew` (fe675bd) keeps the refused map on a handle that had none, `erase` (before that) also replaces the
    map accepted before; the current rule does neither -/
theorem setMap_old_rules :
    let au : St := ⟨0x030000, 2, false, none⟩
    let wav : St := ⟨0x010000, 2, false, some [2, 3]⟩
    (setMapW .keepNew au 8 (some [3, 4])).ret = 0 ∧ (setMapW .keepNew au 8 (some [3, 4])).st.map = some [3, 4] ∧
    (setMapW .erase wav 8 (some [4, 3])).ret = 0 ∧ (setMapW .erase wav 8 (some [4, 3])).st.map = some [4, 3] ∧
    (setMapW .keepNew wav 8 (some [4, 3])).st = wav ∧
    (setMap au 8 (some [3, 4])).ret = 0 ∧ (setMap au 8 (some [3, 4])).st = au ∧
    (setMap wav 8 (some [4, 3])).ret = 0 ∧ (setMap wav 8 (some [4, 3])).st = wav ∧
    (setMap wav 8 (some [3, 4])).ret = 1 ∧ (setMap wav 8 (some [3, 4])).st.map = some [3, 4] := by decide

open Sf.ChmapVerdict in
/-- KF-C09-CHMAP-REMASK (known finding, foreign files only): putting the old map back re-derives the handler's mask from it.  For a
    mask the library wrote itself (one bit per channel, `mapOfMask` then has no padding) that is the mask again; a foreign mask
    with more bits than channels (0x7 on two channels) comes back without the extra bits (findings/kf_c09_chmap_remask.txt) -/
theorem remask_witness :
    genChannelMask (mapOfMask 0x7 2) = 0x3 ∧ genChannelMask (mapOfMask 0x3 2) = 0x3 ∧ genChannelMask (mapOfMask 0x33 4) = 0x33 ∧
    genChannelMask (mapOfMask 0x3F 6) = 0x3F ∧ genChannelMask (mapOfMask 0xFF 8) = 0xFF ∧ genChannelMask (mapOfMask 0x4 1) = 0x4 := by decide

end Sf.C09Chmap
