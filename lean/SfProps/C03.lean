/-
  C03 — arbitrary input bytes never cause memory errors, hangs or insane info.   PARTIAL.

  Proved here (for every argument, every file content, every behaviour of the I/O layer and of the
  codec that respects its contract):
    * the header cache all ~25 parsers read through stays inside its buffer            (hdr_*)
    * whatever a parser leaves behind, a non-NULL sf_open result satisfies the SF_INFO
      postcondition, and a NULL result carries a non-zero error with a non-empty message (open_*)
    * the read wrappers never ask the codec for more than the caller's buffer holds, their own
      zero-fills stay inside it, returns are in [0, requested]; sf_seek hands the codec a position
      in [0, frames]                                                            (read_*, seek_range)
  NOT proved (monitored by the correspondence runs under ASan with per-call alarms): what the
  parsers and codecs themselves do with memory and time.
  Property theorems only; the lemmas are in SfProofs/HeaderCache.lean.
-/
import SfModel.HeaderCache
import SfModel.OpenGate
import SfModel.ReadWrap
import SfModel.ChunkQuery
import SfModel.SdsScan
import SfModel.Generated.C03Consts
import SfProofs.HeaderCache
namespace Sf.C03
open Sf.HeaderCache

/-! ## 1. header cache -/

/-- psf_allocate establishes the invariant -/
theorem hdr_inv_init : Inv St.init := by decide

/-- `0 ≤ indx ≤ len ∧ 0 ≤ end ≤ len ∧ 256 ≤ len ≤ 102400` is preserved by every primitive
    (header_read, header_seek with any whence, header_gets, psf_bump_header_allocation, the '!' reset,
    and one psf_binheader_readf format character with its guards), for every argument in the range the
    call sites use (`Op.argsOk`: read sizes and SEEK_SET positions are not negative) and every answer
    of the allocator and of the I/O layer. -/
theorem hdr_inv (s : St) (op : Op) (o : Oracle) (h : Inv s) (ha : op.argsOk) : Inv (step s op o).1 :=
  (step_spec h ha).1

/-- every access a primitive makes to the header buffer lies inside the buffer as allocated at that moment -/
theorem hdr_in_bounds (s : St) (op : Op) (o : Oracle) (h : Inv s) (ha : op.argsOk) :
    ∀ e ∈ (step s op o).2, e.inBounds (step s op o).1.len :=
  (step_spec h ha).2.1

/-- the buffer never shrinks -/
theorem hdr_len_monotone (s : St) (op : Op) (o : Oracle) (h : Inv s) (ha : op.argsOk) : s.len ≤ (step s op o).1.len :=
  (step_spec h ha).2.2

/-- lifted to ALL sequences of primitives, each with its own oracle answers, starting from psf_allocate:
    after every step the invariant holds and all of that step's accesses were in bounds -/
theorem hdr_all_sequences (ops : List (Op × Oracle)) (ha : ∀ x ∈ ops, x.1.argsOk) :
    (∀ x ∈ run St.init ops, Inv x.1 ∧ ∀ e ∈ x.2, e.inBounds x.1.len) ∧ Inv (finalState St.init ops) :=
  run_spec ops St.init hdr_inv_init ha

/-- a whole psf_binheader_readf call (any format string, the byte_count bookkeeping and the early
    `break`s included) from any state satisfying the invariant -/
theorem hdr_readf_safe (pipe : Bool) (s : St) (items : List (Item × Oracle)) (h : Inv s) (ha : ∀ x ∈ items, x.1.argsOk) :
    Inv (readf pipe s items).1.st ∧ ∀ e ∈ (readf pipe s items).2, e.inBounds (readf pipe s items).1.st.len := by
  unfold readf
  suffices H : ∀ (l : List (Item × Oracle)) (acc : Rf × List Ev), (∀ x ∈ l, x.1.argsOk) → Inv acc.1.st → AllIn acc.1.st.len acc.2 →
      Inv (l.foldl (fun (acc : Rf × List Ev) (io : Item × Oracle) =>
            let (r, ev) := readfItem pipe acc.1 io.1 io.2; (r, acc.2 ++ ev)) acc).1.st ∧
      AllIn (l.foldl (fun (acc : Rf × List Ev) (io : Item × Oracle) =>
            let (r, ev) := readfItem pipe acc.1 io.1 io.2; (r, acc.2 ++ ev)) acc).1.st.len
        (l.foldl (fun (acc : Rf × List Ev) (io : Item × Oracle) =>
            let (r, ev) := readfItem pipe acc.1 io.1 io.2; (r, acc.2 ++ ev)) acc).2 by
    exact H items ({ st := s }, []) ha h (AllIn.nil _)
  intro l
  induction l with
  | nil => intro acc _ hi hb; exact ⟨hi, hb⟩
  | cons hd tl ih =>
    intro acc hargs hi hb
    simp only [List.foldl_cons]
    obtain ⟨a, b, d⟩ := readfItem_spec (pipe := pipe) (r := acc.1) (it := hd.1) (o := hd.2) hi (hargs hd (List.mem_cons_self ..)) rfl
    exact ih _ (fun x hx => hargs x (List.mem_cons_of_mem _ hx)) a (AllIn.append (AllIn.mono d hb) b)

/-- the oracle used in the concrete examples: allocations succeed, the file is at EOF, no newline -/
def eofOracle : Oracle := { alloc := fun _ => true, io := fun _ => 0, nl := fun _ => false }
/-- allocations succeed, every read is satisfied in full -/
def fullOracle : Oracle := { alloc := fun _ => true, io := fun _ => 1000000, nl := fun _ => false }

/-- non-vacuity: the primitives move (a 300-byte read grows the buffer to 600 and lands at 300;
    a 60000-byte read grows it to the cap since the repair of psf_bump_header_allocation, a 110000-byte read is refused by the
    cap and changes nothing; a jump past the cache re-anchors it) -/
example : (step St.init (.read 300) fullOracle).1 = ⟨300, 300, 600⟩ ∧
          (step St.init (.read 60000) fullOracle).1 = ⟨60000, 60000, 102400⟩ ∧
          (step St.init (.read 110000) fullOracle) = (St.init, [Ev.denied 220000]) ∧
          (step ⟨24, 24, 256⟩ (.seek false 120000 1) fullOracle) = (⟨24, 24, 256⟩, [Ev.denied 240000, Ev.ioSeek 120000 1]) ∧
          (step ⟨24, 24, 256⟩ (.seek false 100000 1) fullOracle).1 = ⟨100024, 100024, 102400⟩ ∧
          (step ⟨24, 24, 256⟩ (.gets 10) eofOracle).1 = ⟨24, 24, 256⟩ := by decide

/-- The hypotheses are forced, not convenient: with a negative size header_read's memcpy leaves the
    buffer, and a negative SEEK_SET position makes indx negative so that the next read starts before
    the buffer.  No call site in src/*.c passes a negative 'p' argument (constants, the PAF header
    length, the 28-bit ID3 size); 'b' sizes are sizeof-style or range-checked by the caller — except
    caf_read_strings on a pipe, where the hypothesis WAS violated by a reachable input until round 4 (§8 below). -/
theorem hdr_args_necessary :
    (¬ ∀ e ∈ (step ⟨4, 4, 256⟩ (.read (-1)) fullOracle).2, e.inBounds (step ⟨4, 4, 256⟩ (.read (-1)) fullOracle).1.len) ∧
    ¬ HeaderCache.Inv (step St.init (.seek false (-1) 0) fullOracle).1 ∧
    (¬ ∀ e ∈ (step (step St.init (.seek false (-8) 0) fullOracle).1 (.read 4) fullOracle).2,
        e.inBounds (step (step St.init (.seek false (-8) 0) fullOracle).1 (.read 4) fullOracle).1.len) := by decide

/-- the allocation rule before the repair refused a request as soon as its double passed the cap, although the bytes the
    caller was about to use fitted: a 60000-byte read at offset 0 was denied (C13-header-cache, first half) -/
theorem bump_denied_old_rule :
    bumpOld St.init 60000 true = (St.init, true, [Ev.denied 120000]) ∧ (bump St.init 60000 true).1 = ⟨0, 0, 102400⟩ ∧
    (bump St.init 60000 true).2.1 = false := by decide

/-- the C computes these quantities in 64-bit integers; with `int` arguments nothing can wrap, so the
    mathematical integers of the model are the C values -/
theorem bump_newlen_small (s : St) (needed : Int) (h : Inv s) (hn : -2147483648 ≤ needed ∧ needed ≤ 2147483647) :
    let newlen := if needed > s.len then 2 * (if needed > INITIAL then needed else INITIAL) else 2 * s.len
    512 ≤ newlen ∧ newlen ≤ 4294967294 ∧ -2147483648 ≤ s.indx + needed ∧ s.indx + needed ≤ 2147483647 + 102400 := by
  unfold HeaderCache.Inv INITIAL CAP at h
  simp only [INITIAL]
  split <;> (try split) <;> omega

/-! ## 2. the open gate -/

theorem firstError_none {l : List (Bool × Int)} (h : Sf.OpenGate.firstError l = none) : ∀ x ∈ l, x.1 = false := by
  induction l with
  | nil => intro x hx; cases hx
  | cons hd tl ih =>
    obtain ⟨b, e⟩ := hd
    simp only [Sf.OpenGate.firstError] at h
    cases b with
    | true => simp at h
    | false =>
      simp only [Bool.false_eq_true, if_false] at h
      intro x hx
      rcases List.mem_cons.mp hx with rfl | hx
      · rfl
      · exact ih h x hx

theorem firstError_some {l : List (Bool × Int)} {e : Int} (h : Sf.OpenGate.firstError l = some e) : (true, e) ∈ l := by
  induction l with
  | nil => simp [Sf.OpenGate.firstError] at h
  | cons hd tl ih =>
    obtain ⟨b, e'⟩ := hd
    simp only [Sf.OpenGate.firstError] at h
    cases b with
    | true =>
      simp only [if_true, Option.some.injEq] at h
      subst h; exact List.mem_cons_self ..
    | false =>
      simp only [Bool.false_eq_true, if_false] at h
      exact List.mem_cons_of_mem _ (ih h)

open Sf.OpenGate in
/-- Whatever the parser did: if sf_open returns a handle in read (or read/write) mode, the SF_INFO
    handed back is sane. -/
theorem open_postcondition (E : Errs) (c : Ctx) (p : Parsed) (info : SfInfo)
    (hm : c.mode ≠ SFM_WRITE) (h : openFile E c p = .ok info) :
    1 ≤ info.channels ∧ info.channels ≤ 1024 ∧ 1 ≤ info.samplerate ∧ 0 ≤ info.frames ∧ 1 ≤ info.sections ∧
    container info.format ≠ 0 ∧ codec info.format ≠ 0 ∧ info = p.sf := by
  unfold openFile at h
  split at h
  · cases h
  · rename_i hnone
    rw [if_neg hm] at h
    injection h with h
    subst h
    have hv := firstError_none hnone (!validateSfinfo p.sf, E.badSfInfo) (by simp [checks])
    have hv' : validateSfinfo p.sf = true := by simpa using hv
    unfold validateSfinfo SF_MAX_CHANNELS at hv'
    repeat (split at hv'; · cases hv')
    refine ⟨?_, ?_, ?_, ?_, ?_, ?_, ?_, rfl⟩ <;> omega

open Sf.OpenGate in
/-- … and the geometry the read paths trust is not negative / not inconsistent -/
theorem open_geometry (E : Errs) (c : Ctx) (p : Parsed) (info : SfInfo) (h : openFile E c p = .ok info) :
    0 ≤ p.datalength ∧ 0 ≤ p.dataoffset ∧ (p.blockwidth = 0 ∨ p.blockwidth = p.sf.channels * p.bytewidth) := by
  unfold openFile at h
  split at h
  · cases h
  · rename_i hnone
    have hv := firstError_none hnone (!validatePsf p, E.internal) (by simp [checks])
    have hv' : validatePsf p = true := by simpa using hv
    unfold validatePsf at hv'
    repeat (split at hv'; · cases hv')
    omega

open Sf.OpenGate in
/-- a NULL return always leaves a non-zero sf_errno -/
theorem open_failure_reports (E : Errs) (c : Ctx) (p : Parsed) (e : Int) (hE : E.nonzero)
    (h : openFile E c p = .error e) : e ≠ 0 := by
  unfold Errs.nonzero at hE
  unfold openFile at h
  split at h
  · rename_i e' hsome
    injection h with h
    subst h
    have hmem := firstError_some hsome
    simp only [checks, List.mem_cons, Prod.mk.injEq, List.not_mem_nil, or_false] at hmem
    rcases hmem with h | h | h | h | h | h | h | h | h | h | h | h | h | h | h
    all_goals first
      | (obtain ⟨h1, h2⟩ := h; subst h2; simp_all; done)
      | (obtain ⟨h1, h2⟩ := h; have := h1.symm; simp at this; rw [h2]; exact this)
  · split at h <;> cases h

/-- the numbers this build uses are non-zero (regenerated from common.h on every run) -/
theorem open_errs_nonzero : Sf.Generated.C03.openErrs.nonzero := by decide

/-- the literals of the gate model are this tree's (masks, channel limit, embedding whitelist, modes) -/
theorem open_consts_agree :
    Sf.Generated.C03.maxChannels = Sf.OpenGate.SF_MAX_CHANNELS ∧ Sf.Generated.C03.typeMask = 0x0FFF0000 ∧
    Sf.Generated.C03.subMask = 0xFFFF ∧
    Sf.Generated.C03.embedContainers = [Sf.OpenGate.FMT_WAV, Sf.OpenGate.FMT_WAVEX, Sf.OpenGate.FMT_AIFF, Sf.OpenGate.FMT_AU, Sf.OpenGate.FMT_MPEG, Sf.OpenGate.FMT_FLAC] ∧
    Sf.Generated.C03.rawContainer = Sf.OpenGate.FMT_RAW ∧
    Sf.Generated.C03.modes = [Sf.OpenGate.SFM_READ, Sf.OpenGate.SFM_WRITE, Sf.OpenGate.SFM_RDWR] := by decide

/-- what sf_strerror (NULL) returns for sf_errno = e -/
def errMsgLen (e : Int) : Nat :=
  if e < 0 ∨ e > Sf.Generated.C03.maxError then Sf.Generated.C03.badErrnumLen
  else Sf.Generated.C03.errMsgLens.getD e.toNat 0

set_option maxRecDepth 8192 in
/-- … and the message is never empty, whatever the number (table from the running library) -/
theorem open_failure_message (e : Int) : 0 < errMsgLen e := by
  unfold errMsgLen
  split
  · decide
  · rename_i h
    have hall : ∀ x ∈ Sf.Generated.C03.errMsgLens, 0 < x := by decide
    have hlen : Sf.Generated.C03.errMsgLens.length = Sf.Generated.C03.maxError + 1 := by decide
    have h1 : e.toNat < Sf.Generated.C03.errMsgLens.length := by omega
    rw [List.getD_eq_getElem?_getD, List.getElem?_eq_getElem h1]
    exact hall _ (List.getElem_mem h1)

/-- non-vacuity: a sane parser result opens, an insane one (0 channels) is SFE_BAD_SF_INFO, a
    parser error is passed through unmapped -/
example :
    let good : Sf.OpenGate.Parsed := { error := 0, sf := ⟨100, 44100, 2, 0x10002, 1, 1⟩, datalength := 400, dataoffset := 44, blockwidth := 4, bytewidth := 2 }
    Sf.OpenGate.openFile Sf.Generated.C03.openErrs {} good = .ok good.sf ∧
    Sf.OpenGate.openFile Sf.Generated.C03.openErrs {} { good with sf := { good.sf with channels := 0 } } = .error Sf.Generated.C03.openErrs.badSfInfo ∧
    Sf.OpenGate.openFile Sf.Generated.C03.openErrs {} { good with blockwidth := 3 } = .error Sf.Generated.C03.openErrs.internal ∧
    Sf.OpenGate.openFile Sf.Generated.C03.openErrs {} { good with error := 77 } = .error 77 := by decide

/-! ## 3. read wrappers and sf_seek -/
open Sf.ReadWrap

theorem readTail_asked (h : H) (k : Kind) (n c : Int) : (readTail h k n c).asked = some (capacity h k n) := by
  unfold readTail
  simp only
  split <;> rfl

/-- the codec is never asked for more items than the caller's buffer holds -/
theorem read_clamp (E : Errs) (h : H) (k : Kind) (n seekRet codecRet a : Int)
    (ha : (readWrap E h k n seekRet codecRet).asked = some a) : a = capacity h k n := by
  unfold readWrap at ha
  repeat' (split at ha)
  all_goals first
    | (simp [fail] at ha; done)
    | (rw [readTail_asked] at ha; injection ha with ha; exact ha.symm)

theorem tdiv_le_of_le_mul {a b c : Int} (ha : 0 ≤ a) (hc : 0 < c) (h : a ≤ b * c) : Int.tdiv a c ≤ b := by
  rw [Int.tdiv_eq_ediv_of_nonneg ha]
  exact Int.ediv_le_of_le_mul hc h

/-- what "the wrapper itself is safe" means for one call -/
def Safe (h : H) (cap n : Int) (out : ROut) : Prop :=
  (∀ z ∈ out.zeroed, 0 ≤ z.1 ∧ 0 ≤ z.2 ∧ z.1 + z.2 ≤ cap) ∧
  0 ≤ out.ret ∧ out.ret ≤ n ∧ (h.rc ≤ h.frames → out.h.rc ≤ out.h.frames) ∧ (0 ≤ h.rc → 0 ≤ out.h.rc) ∧
  out.h.frames = h.frames ∧ out.h.ch = h.ch

theorem safe_fail (h : H) (cap n e : Int) (hn : 0 ≤ n) : Safe h cap n (fail h e) := by
  refine ⟨?_, Int.le_refl _, hn, fun x => x, fun x => x, rfl, rfl⟩
  intro z hz; cases hz

theorem wholeItems_bounds (c ch : Int) (hc : 0 ≤ c) (hch : 1 ≤ ch) : 0 ≤ wholeItems c ch ∧ wholeItems c ch ≤ c := by
  unfold wholeItems
  split
  · exact ⟨hc, Int.le_refl _⟩
  · have h0 : 0 ≤ Int.tmod c ch := Int.tmod_nonneg _ hc
    have h1 : Int.tmod c ch ≤ c := by
      rw [Int.tmod_eq_emod_of_nonneg hc]
      have hd : 0 ≤ c / ch := Int.ediv_nonneg hc (by omega)
      have hm : 0 ≤ ch * (c / ch) := Int.mul_nonneg (by omega) hd
      have := Int.emod_add_mul_ediv c ch
      omega
    omega

theorem safe_tail (h : H) (k : Kind) (n codecRet : Int)
    (hch : 1 ≤ h.ch) (hlt : h.rc < h.frames) (hc0 : 0 ≤ codecRet) (hc1 : codecRet ≤ capacity h k n) :
    Safe h (capacity h k n) n (readTail h k n codecRet) := by
  have hd0 : 0 ≤ Int.tdiv codecRet h.ch := Int.tdiv_nonneg hc0 (by omega)
  unfold readTail Safe
  simp only
  split
  · rename_i hle
    have hpos : h.rc + Int.tdiv codecRet h.ch ≤ h.frames := by
      have : Int.tdiv codecRet h.ch ≤ h.frames - h.rc := tdiv_le_of_le_mul hc0 (by omega) hle
      omega
    refine ⟨(by intro z hz; cases hz), ?_, ?_, fun _ => hpos, fun h0 => (by show 0 ≤ h.rc + Int.tdiv codecRet h.ch; omega), rfl, rfl⟩
    · cases k
      · exact (wholeItems_bounds _ _ hc0 hch).1
      · exact hd0
    · cases k <;> simp only [capacity] at hc1 ⊢
      · exact Int.le_trans (wholeItems_bounds _ _ hc0 hch).2 hc1
      · exact tdiv_le_of_le_mul hc0 (by omega) hc1
  · rename_i hgt
    have hc2 : 0 ≤ (h.frames - h.rc) * h.ch := Int.mul_nonneg (by omega) (by omega)
    refine ⟨?_, ?_, ?_, fun _ => Int.le_refl _, fun h0 => (by show 0 ≤ h.frames; omega), rfl, rfl⟩
    · intro z hz
      simp only [List.mem_singleton] at hz
      subst hz
      simp only
      omega
    · cases k
      · exact (wholeItems_bounds _ _ hc2 hch).1
      · exact Int.tdiv_nonneg hc2 (by omega)
    · cases k <;> simp only [capacity] at hc1 ⊢
      · have := (wholeItems_bounds _ _ hc2 hch).2
        omega
      · exact tdiv_le_of_le_mul hc2 (by omega) (by omega)

/-- every psf_memset the wrapper itself performs lies inside the caller's buffer, the return value is
    in [0, requested], and the read position stays ≤ frames — for any codec that returns between 0
    and the number of items it was asked for -/
theorem read_wrapper_safe (E : Errs) (h : H) (k : Kind) (n seekRet codecRet : Int)
    (hch : 1 ≤ h.ch) (hn : 0 ≤ n) (hc0 : 0 ≤ codecRet) (hc1 : codecRet ≤ capacity h k n) :
    Safe h (capacity h k n) n (readWrap E h k n seekRet codecRet) := by
  have hcap : 0 ≤ capacity h k n := by
    cases k <;> simp only [capacity]
    · exact hn
    · exact Int.mul_nonneg hn (by omega)
  unfold readWrap
  split
  · refine ⟨(by intro z hz; cases hz), Int.le_refl _, hn, fun x => x, fun x => x, rfl, rfl⟩
  · split
    · exact safe_fail h _ n _ hn
    · split
      · exact safe_fail h _ n _ hn
      · split
        · exact safe_fail h _ n _ hn
        · split
          · refine ⟨?_, Int.le_refl _, hn, fun x => x, fun x => x, rfl, rfl⟩
            intro z hz
            simp only [List.mem_singleton] at hz
            subst hz
            simp only
            omega
          · rename_i hlt
            split
            · exact safe_fail h _ n _ hn
            · split
              · exact safe_fail h _ n _ hn
              · exact safe_tail h k n codecRet hch (by omega) hc0 hc1

/-- sf_seek on a read handle passes the codec a frame position inside [0, frames] or nothing at all,
    for every offset and every whence value (invalid ones included) -/
theorem seek_range (E : Errs) (h : H) (offset whence codecRet p : Int)
    (hp : (sfSeekRead E h offset whence codecRet).asked = some p) : 0 ≤ p ∧ p ≤ h.frames := by
  unfold sfSeekRead at hp
  simp only at hp
  repeat' (split at hp)
  all_goals first
    | (simp at hp; done)
    | (simp only [Option.some.injEq] at hp; subst hp; omega)

/-- non-vacuity: a read that runs into the end is clamped and the tail zero-filled; a seek in range
    reaches the codec, one past the end does not -/
example :
    let E : Errs := Sf.Generated.C03.rwErrs
    let h : H := { rc := 8, frames := 10, ch := 2 }
    (readWrap E h .items 8 0 8).ret = 4 ∧ (readWrap E h .items 8 0 8).zeroed = [(4, 4)] ∧ (readWrap E h .items 8 0 8).h.rc = 10 ∧
    (readWrap E h .frames 4 0 2).ret = 1 ∧ (readWrap E h .items 3 0 0).h.err = E.badReadAlign ∧
    (readWrap E { h with rc := 9 } .items 4 0 3).ret = 2 ∧ (sfSeekRead E h 3 0 (-1)).h.rc = 8 ∧ (sfSeekRead E h 3 0 (-1)).h.err = E.seekFailed ∧
    (sfSeekRead E h 3 0 3).asked = some 3 ∧ (sfSeekRead E h 1 2 0).asked = none ∧ (sfSeekRead E h 1 2 0).h.err = E.badSeek ∧
    (sfSeekRead E h (-2) 2 8).asked = some 8 ∧ (sfSeekRead E h 0 77 0).ret = -1 := by decide

/-! ## 4. chunk queries

`sf_get_chunk_data` transfers `min (caller's datalen, chunk length)` bytes — never more than the
caller's buffer holds.  Until /repo c8a9c60 psf_fread divided by that number on the virtual-I/O path
(known finding KF-C03-chunk-data-zero, now `fixed`; its witness is still replayed on every run). -/
open Sf.ChunkQuery in
/-- the transfer never exceeds the caller's buffer -/
theorem chunk_query_in_buffer (datalen len : Nat) : request datalen len ≤ datalen := by
  unfold request; split <;> omega

/-- C03 for this call, at full strength: it returns, whatever the sizes and the route -/
theorem chunk_query_total (virtualIO : Bool) (datalen len ans : Nat) :
    (Sf.ChunkQuery.getChunkData virtualIO datalen len ans).isSome := by
  unfold Sf.ChunkQuery.getChunkData Sf.ChunkQuery.psfFread1
  split
  · rfl
  · cases virtualIO with
    | false => simp only [Bool.false_eq_true, if_false]; split <;> rfl
    | true =>
      simp only [if_true]
      rfl

/-- non-vacuity: an ordinary query returns one item; the formerly trapping cases return 0 -/
example : Sf.ChunkQuery.getChunkData true 32 31 1000 = some 1 ∧ Sf.ChunkQuery.getChunkData true 0 31 1000 = some 0 ∧
    Sf.ChunkQuery.getChunkData true 8 0 0 = some 0 := by decide

/-! ## 5. the SDS block-count scan: a loop whose termination depended on the I/O layer

Repaired in /repo 62c7950 (known finding KF-C03-sds-pipe-scan, now `fixed`; its witness is replayed as a
regression test on every run).  The current rule is proved at full strength; the old rule's failure is
kept as a theorem about `Rule.old`. -/

open Sf.SdsScan in
theorem scan_terminates (r : Rule) (filelength : Int) (o : Nat → Nat × Nat) : ∀ (fuel k : Nat) (b : Int) (m : Nat),
    0 ≤ b → filelength - b ≤ 125 * fuel → (scan r filelength o fuel k b m).isSome := by
  intro fuel
  induction fuel with
  | zero =>
    intro k b m h0 h
    unfold scan
    have : ¬ b < filelength := by omega
    simp [this]
  | succ n ih =>
    intro k b m h0 h
    unfold scan
    by_cases hlt : b < filelength
    · simp only [hlt, if_true]
      generalize (if (o k).1 = 0 then m else (o k).2) = m'
      generalize stopNow r (if (o k).1 ≥ 2 then (2 : Int) else ((o k).1 : Int)) m' = stop
      cases stop with
      | true => simp
      | false =>
        simp only [Bool.false_eq_true, if_false]
        have hg : 0 ≤ (if (o k).1 ≥ 2 then (2 : Int) else ((o k).1 : Int)) := by split <;> omega
        apply ih
        · simp only [SDS_BLOCK_SIZE]; omega
        · simp only [SDS_BLOCK_SIZE]; omega
    · simp [hlt]

open Sf.SdsScan in
/-- for a real file length the scan ends within filelength/125 + 1 iterations, under either rule, for
    every behaviour of the I/O layer and every file content -/
theorem sds_scan_bounded_by_length (r : Rule) (filelength : Int) (o : Nat → Nat × Nat) (bytesread : Int) (marker : Nat)
    (h0 : 0 ≤ bytesread) (hf : 0 ≤ filelength) :
    (scan r filelength o (filelength / 125 + 1).toNat 0 bytesread marker).isSome := by
  apply scan_terminates
  · exact h0
  · have h1 : 0 ≤ filelength / 125 := Int.ediv_nonneg hf (by omega)
    have h2 : ((filelength / 125 + 1).toNat : Int) = filelength / 125 + 1 := Int.toNat_of_nonneg (by omega)
    rw [h2]
    have := Int.emod_add_mul_ediv filelength 125
    have := Int.emod_lt_of_pos filelength (show (0 : Int) < 125 by omega)
    omega

open Sf.SdsScan in
theorem scan_current_stops_on_short_read (filelength : Int) (o : Nat → Nat × Nat) (N : Nat)
    (hN : ∀ k, N ≤ k → (o k).1 < 2) : ∀ (n k : Nat) (b : Int) (m : Nat), N ≤ k + n →
    (scan .current filelength o (n + 1) k b m).isSome := by
  intro n
  induction n with
  | zero =>
    intro k b m h
    unfold scan
    by_cases hlt : b < filelength
    · have hk := hN k (by omega)
      have hg : (if (o k).1 ≥ 2 then (2 : Int) else ((o k).1 : Int)) ≠ 2 := by
        split <;> omega
      simp [hlt, stopNow, hg]
    · simp [hlt]
  | succ n ih =>
    intro k b m h
    unfold scan
    by_cases hlt : b < filelength
    · simp only [hlt, if_true]
      generalize (if (o k).1 = 0 then m else (o k).2) = m'
      generalize stopNow .current (if (o k).1 ≥ 2 then (2 : Int) else ((o k).1 : Int)) m' = stop
      cases stop with
      | true => simp
      | false =>
        simp only [Bool.false_eq_true, if_false]
        exact ih (k + 1) _ _ (by omega)
    · simp [hlt]

open Sf.SdsScan in
/-- C03's "time bounded by the input size" for the scan, at FULL strength for the current code: whatever
    length the file announces (SF_COUNT_MAX for a pipe included), whatever the bytes are, if the input can
    satisfy at most N complete 2-byte reads (N ≤ input bytes / 2) the scan ends within N + 1 iterations -/
theorem sds_scan_bounded (filelength : Int) (o : Nat → Nat × Nat) (N : Nat) (bytesread : Int) (marker : Nat)
    (hN : ∀ k, N ≤ k → (o k).1 < 2) :
    (scan .current filelength o (N + 1) 0 bytesread marker).isSome :=
  scan_current_stops_on_short_read filelength o N hN N 0 bytesread marker (by omega)

open Sf.SdsScan in
theorem scan_eof_runs_old_rule (filelength : Int) : ∀ (fuel k : Nat) (b : Int) (m : Nat), m ≠ 0 → b + 125 * fuel < filelength →
    scan .old filelength eof fuel k b m = none := by
  intro fuel
  induction fuel with
  | zero =>
    intro k b m _ hb
    unfold scan
    have h1 : b < filelength := by omega
    simp [h1]
  | succ n ih =>
    intro k b m hm hb
    unfold scan
    have h1 : b < filelength := by omega
    simp only [h1, if_true, eof, stopNow]
    simp only [if_true, hm, decide_false, Bool.false_eq_true, if_false]
    apply ih _ _ _ hm
    simp [SDS_BLOCK_SIZE]
    omega

/-- the class the old rule failed on: the scan runs against an unbounded announced length (non-seekable input) -/
def KF.sdsPipe (filelength : Int) : Prop := filelength = Sf.SdsScan.SF_COUNT_MAX

instance (l : Int) : Decidable (KF.sdsPipe l) := by unfold KF.sdsPipe; infer_instance

open Sf.SdsScan in
/-- OLD RULE (before 62c7950): with an exhausted input (N = 0 in `sds_scan_bounded`) on a pipe, `marker`
    kept its last non-zero value and the loop was still running after 10^15 iterations on a 19-byte input
    (findings/C03-sds-pipe-scan.txt, now a regression script) -/
theorem sds_scan_unbounded_old_rule : ∃ (o : Nat → Nat × Nat) (marker : Nat), (∀ k, 0 ≤ k → (o k).1 < 2) ∧
    KF.sdsPipe SF_COUNT_MAX ∧ scan .old SF_COUNT_MAX o 1000000000000000 0 19 marker = none :=
  ⟨eof, 0xF07E, by intro k _; simp [eof], rfl,
    scan_eof_runs_old_rule SF_COUNT_MAX 1000000000000000 0 19 0xF07E (by decide) (by decide)⟩

/-- non-vacuity: a 402-byte file (3 blocks) is scanned in 3 iterations under both rules; on the old
    witness input the current rule stops at once -/
example : Sf.SdsScan.scan .current 402 (fun _ => (2, 0xF07E)) 4 0 21 0xF07E = some 3 ∧
    Sf.SdsScan.scan .old 402 (fun _ => (2, 0xF07E)) 4 0 21 0xF07E = some 3 ∧
    Sf.SdsScan.scan .current Sf.SdsScan.SF_COUNT_MAX Sf.SdsScan.eof 1 0 19 0xF07E = some 0 ∧
    Sf.SdsScan.scan .old Sf.SdsScan.SF_COUNT_MAX Sf.SdsScan.eof 50 0 19 0xF07E = none := by decide

/-! ## 6. the chunk loops of the IFF-family parsers — the OLD rule

Repaired in round 4 (fixes 0001–0003: psf_binheader_tell + "an iteration must end behind the offset it started
at"; known findings KF-C03-pipe-chunk-loop, KF-C03-svx-backjump, KF-C15-SCAN-HANG, now `fixed`, witnesses replayed
as regression scripts).  The current loops are proved bounded at full strength in SfProps/C03Loops.lean
(`chunk_loop_bounded_by_input`, `chunk_loop_bounded_by_length`).  What follows is about `Sf.SvxLoop.loop`, the loop
as it WAS: wav.c, rf64.c, aiff.c, svx.c, caf.c left their `while (! done)` loop only through
`if (psf_ftell (psf) >= psf->filelength - k) break`.  An iteration that makes no progress in the FILE (end of
input, or a chunk whose size field is 0xFFFFFFF8: the 'j' jump of -8 stays inside the header cache and the same
chunk is parsed again) is the `eof` oracle below. -/
open Sf.SvxLoop in
/-- at end of input the loop is left within one iteration -/
def svx_eof_exits_full_old_rule : Prop :=
  ∀ (filelength pos : Int) (k : Nat), 0 ≤ pos → (loop filelength eof 1 k pos).isSome

/-- the known-finding class: non-seekable input, psf->filelength = SF_COUNT_MAX -/
def KF.chunkLoopPipe (filelength : Int) : Prop := filelength = Sf.SdsScan.SF_COUNT_MAX

instance (l : Int) : Decidable (KF.chunkLoopPipe l) := by unfold KF.chunkLoopPipe; infer_instance

open Sf.SvxLoop in
theorem svx_eof_runs_old_rule (filelength : Int) : ∀ (fuel k : Nat) (pos : Int), pos < filelength - 4 → loop filelength eof fuel k pos = none := by
  intro fuel
  induction fuel with
  | zero => intro k pos _; rfl
  | succ n ih =>
    intro k pos h
    unfold loop
    simp only [eof, Bool.false_eq_true, if_false]
    have : ¬ (pos + ((0 : Nat) : Int) ≥ filelength - 4) := by omega
    simp only [this, if_false]
    exact ih _ _ (by omega)

open Sf.SvxLoop in
/-- on a pipe the loop is still running after any number of iterations
    (witnesses: findings/C03-svx-pipe-loop.txt, findings/C03-wav-pipe-backjump.txt) -/
theorem svx_eof_exits_fails_old_rule : ¬ svx_eof_exits_full_old_rule := by
  intro h
  have h1 := h Sf.SdsScan.SF_COUNT_MAX 53 0 (by decide)
  rw [svx_eof_runs_old_rule Sf.SdsScan.SF_COUNT_MAX 1 0 53 (by decide)] at h1
  cases h1

open Sf.SvxLoop in
/-- on a regular file (psf_ftell = filelength at end of input) it is left at once -/
theorem svx_eof_exits_partial_old_rule (filelength pos : Int) (k : Nat) (hend : filelength ≤ pos) :
    (loop filelength eof 1 k pos).isSome := by
  unfold loop
  simp only [eof, Bool.false_eq_true, if_false]
  have h2 : filelength - 4 ≤ pos := by omega
  simp [h2]

/-- non-vacuity -/
example : Sf.SvxLoop.loop 100 Sf.SvxLoop.eof 1 0 100 = some 0 ∧ Sf.SvxLoop.loop 100 (fun _ => (8, false)) 20 0 12 = some 10 ∧
    KF.chunkLoopPipe Sf.SdsScan.SF_COUNT_MAX := by decide

open Sf.SvxLoop in
theorem loop_progress_terminates_old_rule (filelength : Int) (o : Nat → Nat × Bool) (hprog : ∀ k, 1 ≤ (o k).1) :
    ∀ (n k : Nat) (pos : Int), filelength - 4 - pos ≤ n + 1 → (loop filelength o (n + 1) k pos).isSome := by
  intro n
  induction n with
  | zero =>
    intro k pos h
    unfold loop
    have := hprog k
    by_cases hd : (o k).2 = true
    · simp [hd]
    · have h2 : pos + ((o k).1 : Int) ≥ filelength - 4 := by omega
      simp [hd, h2]
  | succ n ih =>
    intro k pos h
    unfold loop
    have := hprog k
    by_cases hd : (o k).2 = true
    · simp [hd]
    · by_cases h2 : pos + ((o k).1 : Int) ≥ filelength - 4
      · simp [hd, h2]
      · simp only [hd, h2, if_false]
        exact ih (k + 1) _ (by omega)

/-- the known-finding class on seekable input: an iteration of svx_read_header that does not move the
    file position — a NAME / ANNO / unknown chunk whose size field is negative as `int` (0xFFFFFFF8: the
    'j' jump of -8 re-parses the same chunk header) with more than 4 bytes of file still unread -/
def KF.svxBackJump (o : Nat → Nat × Bool) : Prop := ∃ k, (o k).1 = 0

/-- outside that class (every iteration consumes at least one byte of the file) the chunk loop ends
    within filelength - pos iterations, on every route with a finite length
    (the looping case is `svx_eof_runs_old_rule`, which holds for every filelength; witness findings/C03-svx-backjump.txt) -/
theorem svx_loop_bounded_partial_old_rule (filelength : Int) (o : Nat → Nat × Bool) (pos : Int) (k : Nat)
    (hpos : 0 ≤ pos) (hf : pos ≤ filelength) (h : ¬ KF.svxBackJump o) :
    (Sf.SvxLoop.loop filelength o ((filelength - pos).toNat + 1) k pos).isSome := by
  apply loop_progress_terminates_old_rule
  · intro j
    unfold KF.svxBackJump at h
    have : ¬ (o j).1 = 0 := fun hz => h ⟨j, hz⟩
    omega
  · have : ((filelength - pos).toNat : Int) = filelength - pos := Int.toNat_of_nonneg (by omega)
    omega

/-! ## 8. CAF `info` over a pipe: a reachable violation of the header-cache hypothesis — repaired

caf_read_strings passed `(size_t) (chunk_size - 4)` to the 'b' conversion of psf_binheader_readf, which stores it
in an `int`; on a pipe nothing bounded chunk_size (known finding KF-C03-caf-info-pipe, repaired by fix 0004, now
`fixed`).  The current rule (`caf_info_count`, full strength) and the old rule's failure
(`caf_info_count_fails_old_rule`, `caf_info_count_partial_old_rule`) are in SfProps/C03Loops.lean. -/

/-! ## 7. NIST `sample_coding` : an unchecked sscanf

Repaired in /repo 6408f3b (`str [0] = 0` before the sscanf; known finding KF-C03-nist-sample-coding, now
`fixed`, witness kept as a regression script). -/

/-- no read of indeterminate memory, at full strength for the current code: whatever sscanf matched,
    `str` is a C string when strcmp and "%s" read it -/
theorem nist_coding (matched : Nat) : Sf.NistCoding.strDefined .current matched = true := rfl

/-- the class the old rule failed on: the key is present but a number and a word do not both follow it -/
def KF.nistCoding (matched : Nat) : Prop := matched < 2

instance (m : Nat) : Decidable (KF.nistCoding m) := by unfold KF.nistCoding; infer_instance

/-- OLD RULE (before 6408f3b): "sample_coding -s3" followed by a NUL byte matches one item only; strcmp
    and "%s" then walked over uninitialised stack memory (findings/C03-nist-sample-coding.txt) -/
theorem nist_coding_fails_old_rule : ∃ matched, matched ≤ 2 ∧ KF.nistCoding matched ∧ Sf.NistCoding.strDefined .old matched = false :=
  ⟨1, by decide, by decide, by decide⟩

/-- OLD RULE: outside that class `str` was defined -/
theorem nist_coding_partial_old_rule (matched : Nat) (h : ¬ KF.nistCoding matched) : Sf.NistCoding.strDefined .old matched = true := by
  unfold KF.nistCoding at h
  simp [Sf.NistCoding.strDefined]
  omega

/-- non-vacuity -/
example : Sf.NistCoding.strDefined .current 0 = true ∧ Sf.NistCoding.strDefined .old 2 = true ∧ KF.nistCoding 0 ∧ ¬ KF.nistCoding 2 := by decide

end Sf.C03
