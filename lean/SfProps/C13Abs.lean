/-
  C13 on THE PREDICATE (SfModel/AbsMeta.lean, namespace Sf.AbsMeta.Chunks) — `Chunks.judge`, which the check evaluates on the
  implementation's own records (`sfmodel abs-meta chunks`): what an accepted record MEANS, that a record on which the statement
  holds is accepted, and that what the concrete model `Sf.Chunk` is proved to produce (`chunks_roundtrip_within_cap`: the read
  table `expected`; `getData`; `accepts`) passes the clauses.  Property theorems only; lemmas in SfProofs/AbsChunkMeaning.lean.
-/
import SfProofs.AbsChunkMeaning
import SfProps.C13
namespace Sf.C13Abs
open Sf Sf.Chunk Sf.AbsMeta Sf.AbsMeta.Chunks

/-! ## meaning and completeness -/

/-- MEANING: on an accepted record every sf_set_chunk returned 0 or failed for a call it may refuse, the write / close / re-open
    succeeded, the frame count and the audio read back are what was written (nothing behind it touched), every complete
    iteration and every single-step call passed its clause -/
theorem chunks_contract_abs (r : CRecord) (h : Chunks.accepted r = true) : CHolds r r.main := ((Chunks.accepted_iff r).mp h).1

/-- COMPLETENESS: never an alarm where the statement holds -/
theorem never_alarm_abs (r : CRecord) (hm : CHolds r r.main)
    (ht : ∀ t, r.twin = some t → (r.main.reopen.map (·.ok)) = some true → Chunks.twinFails r.main t = []) : Chunks.accepted r = true :=
  (Chunks.accepted_iff r).mpr ⟨hm, ht⟩

/-- C13 "after re-opening each one is found by the chunk iterator functions - by identifier … with identical size and payload
    bytes (padded to the container's alignment).  Iteration visits every stored chunk exactly once": read off an accepted record
    for an iteration by an id that was set -/
theorem chunks_retrievable_by_id_abs (r : CRecord) (h : Chunks.accepted r = true) (ri : ReInfo) (hre : r.main.reopen = some ri)
    (q : List Byte) (it : Bool) (ents : List Entry) (endN : Int) (hq : Query.all (some q) it ents endN ∈ r.main.queries)
    (hset : ((stored r.main.sets).map (·.1)).contains (storedId q) = true) (hown : ownCount r.own (storedId q) = 0)
    (hfree : ¬ (r.c = .caf ∧ storedId q = [102, 114, 101, 101])) :
    endN = (ents.length : Int) ∧ ents.length = ((stored r.main.sets).filter (·.1 == storedId q)).length ∧
    ∀ p ∈ ents.zip ((stored r.main.sets).filter (·.1 == storedId q)),
      p.1.id = p.2.1 ∧ p.1.size = pad4 p.2.2.length ∧ p.1.data = wantData p.2.2 p.1.buflen ∧ p.1.sizeRet = 0 ∧ p.1.dataRet = 0 := by
  obtain ⟨_, _, _, hqs, _⟩ := (chunks_contract_abs r h).reopened ri hre
  have := hqs _ hq
  simp only [queryFails] at this
  exact byId_meaning r _ q ents endN hset hown hfree this

/-- C13 "sf_get_chunk_data copies at most the caller's datalen bytes": the buffer the `data` clause demands has the caller's
    length, carries min (datalen, padded size) payload bytes and keeps its fill value behind them -/
theorem get_data_copies_min_abs (payload : List Byte) (buflen : Nat) :
    (wantData payload buflen).length = buflen ∧
    (wantData payload buflen).take (min buflen (pad4 payload.length)) =
      (payload ++ List.replicate (pad4 payload.length - payload.length) 0).take (min buflen (pad4 payload.length)) ∧
    ∀ b ∈ (wantData payload buflen).drop (min buflen (pad4 payload.length)), b = 0xA5 := wantData_spec payload buflen

/-- C13 "audio untouched": frame count and samples of an accepted record -/
theorem audio_untouched_abs (r : CRecord) (h : Chunks.accepted r = true) (ri : ReInfo) (hre : r.main.reopen = some ri)
    (rb : ReadBack) (hrb : r.main.read = some rb) :
    rb.ret = (r.main.frames : Int) ∧ rb.err = 0 ∧ rb.data = r.main.items ++ List.replicate (r.main.readN - r.main.frames) 0xA5A5 := by
  obtain ⟨_, _, hr, _, _⟩ := (chunks_contract_abs r h).reopened ri hre
  exact hr rb hrb

/-! ## the model is never flagged -/

/-- what the harness prints for the chunk the iterator points at, computed from the model's read-table entry: size, id, and the
    caller's buffer after `Sf.Chunk.getData` (the buffer has the reported size unless the caller names a length) -/
def entryOfModel (rc : RChunk) (want : Option Nat) : Entry :=
  { sizeRet := 0, size := rc.len, dataRet := 0, id := rc.mark.bytes, buflen := want.getD rc.len,
    data := getData rc (List.replicate (want.getD rc.len) 0xA5) }

/-- **model_entries_accepted** — completeness against `C13.chunks_roundtrip_within_cap`: the read table that theorem proves the
    re-opened file to have (`C13.expected`), queried entry by entry as the harness does (any buffer length), passes the clauses
    `ids`, `size`, `data`, `ret` for the chunks that were set -/
theorem model_entries_accepted (c : Container) (want : Option Nat) : ∀ (l : List C13.Req) (pos : Nat),
    entriesFail ((C13.expected c l pos).map fun rc => entryOfModel rc want) (l.map fun q => (storedId q.id, q.payload)) = []
  | [], _ => by simp [C13.expected, entriesFail]
  | q :: l, pos => by
    unfold C13.expected
    simp only [List.map_cons]
    unfold entriesFail
    have h1 : entryFails (entryOfModel ⟨markerOf q.id, pos + hdrLen c, pad4 q.payload.length,
        q.payload ++ zeros (pad4 q.payload.length - q.payload.length)⟩ want) (storedId q.id, q.payload) = [] := by
      rw [entryFails_nil_iff]
      refine ⟨rfl, rfl, ?_, rfl, rfl⟩
      exact model_getData_accepted _ _ _ _
    rw [h1]
    exact model_entries_accepted c want l _

/-- every refusal of the model's `sf_set_chunk` (`Sf.Chunk.accepts`, theorem `C13.set_chunk_refusals`) is one the `set` clause
    allows: after the audio anything, before it only ids the API need not accept -/
theorem model_set_answers_accepted (c : CCont) (wrote : Bool) (id data : List Byte) :
    setFails c [{ id := id, data := data, late := wrote, ret0 := accepts (toModel c) wrote id, refused := !accepts (toModel c) wrote id }] = [] := by
  rw [setFails_nil_iff]
  intro s hs
  simp only [List.mem_cons, List.mem_nil_iff, or_false] at hs
  subst hs
  cases ha : accepts (toModel c) wrote id
  · right
    refine ⟨rfl, ?_⟩
    cases wrote
    · exact Or.inr (model_refusals_allowed c id ha)
    · exact Or.inl rfl
  · exact Or.inl rfl

/-! ## non-vacuity -/

def sampleRun : CRun :=
  { sets := [{ id := [97, 98, 99, 100], data := [1, 2, 3], ret0 := true }, { id := [120, 121], data := [9], ret0 := true },
             { id := [100, 97, 116, 97], data := [5], refused := true }, { id := [97, 98, 99, 100], data := [], ret0 := true },
             { id := [108, 97, 116, 101], data := [7], late := true, refused := true }],
    frames := 2, items := [1, 258], wret := some (2, 0), close := some 0, reopen := some { ok := true, frames := 2 },
    queries :=
      [.all none true [⟨0, 16, 0, [102, 109, 116, 32], 16, List.replicate 16 0⟩, ⟨0, 4, 0, [97, 98, 99, 100], 4, [1, 2, 3, 0]⟩,
                       ⟨0, 4, 0, [120, 121, 32, 32], 4, [9, 0, 0, 0]⟩, ⟨0, 0, 0, [97, 98, 99, 100], 0, []⟩,
                       ⟨0, 4, 0, [100, 97, 116, 97], 4, [1, 0, 2, 1]⟩] 5,
       .all (some [97, 98, 99, 100]) true [⟨0, 4, 0, [97, 98, 99, 100], 2, [1, 2]⟩, ⟨0, 0, 0, [97, 98, 99, 100], 2, [0xA5, 0xA5]⟩] 2,
       .iter (some [97, 98, 99, 100]) true, .data (some ⟨0, 4, 0, [97, 98, 99, 100], 6, [1, 2, 3, 0, 0xA5, 0xA5]⟩), .next true, .next false, .next false,
       .data none],
    readN := 4, read := some { ret := 2, err := 0, data := [1, 258, 0xA5A5, 0xA5A5] } }

example : Chunks.accepted { c := .wav, main := sampleRun, twin := some { sampleRun with sets := [], queries := [] } } = true := by decide +kernel


/-- the clauses are not vacuous: a byte copied past datalen, a chunk visited twice, next-after-last not NULL, a payload byte
    changed, audio disturbed -/
example :
    (Chunks.judge { c := .wav, main := { sampleRun with queries := [.all (some [120, 121]) true [⟨0, 4, 0, [120, 121, 32, 32], 2, [9, 0, 0]⟩] 1] } }).map (·.tag) = ["data"] ∧
    (Chunks.judge { c := .wav, main := { sampleRun with queries := [.all (some [120, 121]) true [⟨0, 4, 0, [120, 121, 32, 32], 4, [9, 0, 0, 0]⟩, ⟨0, 4, 0, [120, 121, 32, 32], 4, [9, 0, 0, 0]⟩] 2] } }).map (·.tag) = ["count"] ∧
    (Chunks.judge { c := .wav, main := { sampleRun with queries := sampleRun.queries.take 2 ++ [.iter (some [97, 98, 99, 100]) true, .next true, .next true] } }).map (·.tag) = ["step-next"] ∧
    (Chunks.judge { c := .wav, main := { sampleRun with queries := [.all (some [120, 121]) true [⟨0, 4, 0, [120, 121, 32, 32], 4, [8, 0, 0, 0]⟩] 1] } }).map (·.tag) = ["data"] ∧
    (Chunks.judge { c := .wav, main := { sampleRun with read := some { ret := 2, err := 0, data := [1, 259, 0xA5A5, 0xA5A5] } } }).map (·.tag) = ["audio"] := by
  decide +kernel

end Sf.C13Abs
