/-
  C06 on the ABSTRACT model (SfModel/Abs.lean): what the predicate `Sf.Abs.holdsOn` accepts about seeks and about the
  partition of reads — for any file, any codec, any container, because the reference stream is a parameter.
  Property theorems only; lemmas in SfProofs/Abs*.lean.
-/
import SfProofs.AbsRun
namespace Sf.C06Abs
open Sf Sf.Abs

/-- seek_result: an accepted seek line is a refusal (−1, error set, no position changes) or reports exactly the requested
    absolute frame `base + offset` (`base` = 0 / the read or write position / the frame count, as `whence` says), with no
    error; on a read-only handle that frame lies in `[0, frames]` -/
theorem seek_result_abs (g : Geom) (st : St) (off whence : Int) (o : Out) (st' : St)
    (h : seekOk g st off whence o = .ok st') :
    (o.ret = -1 ∧ o.err = true ∧ st'.rpos = st.rpos ∧ st'.wpos = st.wpos ∧ st'.frames = st.frames) ∨
    (∃ b : Nat, seekBase st whence = some b ∧ o.ret = (b : Int) + off ∧ 0 ≤ o.ret ∧ o.err = false ∧
      (st.mode = .r → o.ret ≤ st.frames ∧ (st'.rpos : Int) = o.ret) ∧ st'.frames = st.frames ∧ st'.ref = st.ref) := by
  rcases seekOk_ok g st off whence o st' h with ⟨a, b, hs⟩ | ⟨t, _, ht, hr, he, hs⟩
  · subst hs; exact Or.inl ⟨a, b, rfl, rfl, rfl⟩
  · obtain ⟨b, hb, hsum, hle, _, _⟩ := seekTarget_some st off whence t ht
    obtain ⟨f1, _, f3, _⟩ := seekMove_frames st whence t
    subst hs
    refine Or.inr ⟨b, hb, by omega, by omega, he, fun hm => ⟨by have := hle hm; omega, ?_⟩, f1, f3⟩
    rw [seekMove_rpos_r st off whence t hm ht]; omega

/-- seek_cur_zero: an accepted zero-offset SEEK_CUR (plain on a read-only handle, or qualified with SFM_READ on a handle
    that reads) is never a refusal when the handle is seekable, and reports the read position — the index of the next frame
    a read delivers — and moves nothing -/
theorem seek_cur_zero_abs (g : Geom) (st : St) (whence : Int) (o : Out) (st' : St) (hs : g.seekable = true)
    (hw : (whence = 1 ∧ st.mode = .r) ∨ (whence = 0x11 ∧ st.mode ≠ .w)) (hle : st.mode = .r → st.rpos ≤ st.frames)
    (h : seekOk g st 0 whence o = .ok st') : o.ret = (st.rpos : Int) ∧ o.err = false ∧ st'.rpos = st.rpos := by
  have hwm : whence % 0x10 = 1 := by rcases hw with ⟨rfl, _⟩ | ⟨rfl, _⟩ <;> decide
  have ht : seekTarget st 0 whence = some st.rpos := by
    unfold seekTarget
    rcases hw with ⟨rfl, hm⟩ | ⟨rfl, hm⟩
    · have : ¬ ((st.frames : Int) < (st.rpos : Int)) := by have := hle hm; omega
      simp [seekBase, seekQual, hm, this]
    · have h1 : ¬ (st.mode = .r ∧ (st.frames : Int) < (st.rpos : Int)) := by
        intro ⟨hm', hx⟩; have := hle hm'; omega
      simp [seekBase, seekQual, hm]
      exact hle
  unfold seekOk at h
  simp only [hs, if_true, ht] at h
  split at h
  · split at h
    · exact Res.noConfusion h
    · simp only [hwm, and_self, if_true] at h
      exact Res.noConfusion h
  · split at h
    · exact Res.noConfusion h
    · split at h
      · exact Res.noConfusion h
      · rename_i h1 h2
        injection h with h
        subst h
        refine ⟨by omega, by cases hx : o.err <;> simp_all, ?_⟩
        unfold seekMove seekPtr
        rcases hw with ⟨rfl, hm⟩ | ⟨rfl, hm⟩
        · simp [seekQual, hm]
        · simp [seekQual]

/-- seek_then_read: after an accepted seek that reported frame `k` on a read-only handle, an accepted valid read delivers
    exactly the items `k·ch, k·ch+1, …` of the reference stream -/
theorem seek_then_read_abs (g : Geom) (st : St) (off whence : Int) (o1 : Out) (st1 : St) (ty : Ty) (fc : Bool) (n : Int)
    (o2 : Out) (st2 : St) (hm : st.mode = .r) (hval : st.valid ty = true)
    (h1 : seekOk g st off whence o1 = .ok st1) (hk : o1.ret ≠ -1) (hv : validReq g fc n = true)
    (h2 : readOk g st1 ty fc n o2 = .ok st2) (hin : o1.ret < st.frames) :
    o2.data.extract 0 (retItems g fc o2.ret * cells ty) =
      (st.ref ty).extract (o1.ret.toNat * g.cpf ty) (o1.ret.toNat * g.cpf ty + retItems g fc o2.ret * cells ty) ∧
    st2.rpos = o1.ret.toNat + retItems g fc o2.ret / g.ch := by
  rcases seekOk_ok g st off whence o1 st1 h1 with ⟨a, _, _⟩ | ⟨t, _, ht, hr, _, hs⟩
  · exact absurd a hk
  · obtain ⟨f1, f2, f3, f4⟩ := seekMove_frames st whence t
    have hp : st1.rpos = t := by rw [hs]; exact seekMove_rpos_r st off whence t hm ht
    have hm1 : st1.mode = .r := by rw [hs, f2]; exact hm
    have hrr : ReadReq g st1 fc n := ⟨hv, by rw [hm1]; decide⟩
    obtain ⟨_, _, _, _, _, _, hmain⟩ := readOk_valid g st1 ty fc n o2 st2 hrr h2
    have hlt : st1.rpos < st1.frames := by rw [hp, hs, f1]; omega
    obtain ⟨hs2, _, hdat, _⟩ := hmain hlt
    have hv1 : st1.valid ty = true := by rw [hs, f4]; exact hval
    have hx := (sliceEq_extract _ _ _ _ _ (hdat hv1)).1
    have ht' : o1.ret.toNat = t := by omega
    rw [ht']
    constructor
    · rw [Nat.zero_add, hp, hs, f3] at hx; exact hx
    · rw [hs2]; simp only; rw [hp]

/-- partition independence for ANY two accepted transcripts of the same file: read sequences that start at the same
    position and end at the same position delivered the same items, however the calls were cut and whichever call
    variants (items / frames) were used; and each delivers the slice of the reference stream between the two positions -/
theorem partition_independence_abs (g : Geom) (ty : Ty) (rds1 rds2 : List RdLine) (st st1 st2 : St)
    (hv1 : ∀ r ∈ rds1, validReq g r.1 r.2.1 = true) (hv2 : ∀ r ∈ rds2, validReq g r.1 r.2.1 = true)
    (hm : st.mode = .r) (hval : st.valid ty = true) (hle : st.rpos ≤ st.frames)
    (h1 : accepts g st (rdTr ty rds1) = some st1) (h2 : accepts g st (rdTr ty rds2) = some st2)
    (hp : st1.rpos = st2.rpos) :
    deliveredAll g ty rds1 = deliveredAll g ty rds2 ∧
    deliveredAll g ty rds1 = (st.ref ty).extract (st.rpos * g.cpf ty) (st1.rpos * g.cpf ty) :=
  ⟨partition_independent g ty rds1 rds2 st st1 st2 hv1 hv2 hm hval hle h1 h2 hp,
   (reads_concat g ty rds1 st st1 hv1 hm hval hle h1).1⟩

/-- … in particular one sequential read of the whole file and any partition of it: both deliver the whole stream -/
theorem sequential_equals_any_partition (g : Geom) (ty : Ty) (rds : List RdLine) (st st1 : St)
    (hv : ∀ r ∈ rds, validReq g r.1 r.2.1 = true) (hm : st.mode = .r) (hval : st.valid ty = true) (h0 : st.rpos = 0)
    (hsz : (st.ref ty).size = st.frames * g.cpf ty)
    (h1 : accepts g st (rdTr ty rds) = some st1) (hend : st1.rpos = st.frames) :
    deliveredAll g ty rds = st.ref ty := by
  have := (reads_concat g ty rds st st1 hv hm hval (by omega) h1).1
  rw [this, h0, hend, Nat.zero_mul, ← hsz]
  exact Array.extract_size

/-! ## non-vacuity: the 3-frame stereo file -/

def exG : Geom := { ch := 2, frames0 := 3, mode0 := .r }
def exRef : Ty → Array Item := fun ty => match ty with | .s16 => #[1, 2, 3, 4, 5, 6] | _ => #[]
def exValid : Ty → Bool := fun ty => ty = .s16
def exSt : St := St.init exG exRef exValid

/-- seek to frame 1, read 2 frames; a seek past the end is refused with an error; SEEK_END −1; the probe -/
example : holdsOn exG exRef exValid
    [(.seek 1 0, { ret := 1 }), (.read .s16 true 2, { ret := 2, data := #[3, 4, 5, 6] }),
     (.seek 4 0, { ret := -1, err := true }), (.seek (-1) 2, { ret := 2 }), (.seek 0 1, { ret := 2 })] = .ok 5 := by decide
/-- the wrong frame after a seek, a seek that lands elsewhere, a probe that lies: refused with their clauses -/
example : holdsOn exG exRef exValid [(.seek 1 0, { ret := 1 }), (.read .s16 true 1, { ret := 1, data := #[5, 6] })] = .bad 1 "data" := by decide
example : holdsOn exG exRef exValid [(.seek 1 0, { ret := 2 })] = .bad 0 "seek" := by decide
example : holdsOn exG exRef exValid [(.seek 1 0, { ret := 1 }), (.seek 0 1, { ret := 0 })] = .bad 1 "position" := by decide
/-- two partitions of the same two frames (1+1 frames, 4 items) are both accepted from the same state and end at frame 2 -/
def p1 : List RdLine := [(true, 1, { ret := 1, data := #[1, 2] }), (true, 1, { ret := 1, data := #[3, 4] })]
def p2 : List RdLine := [(false, 4, { ret := 4, data := #[1, 2, 3, 4] })]
example : (accepts exG exSt (rdTr .s16 p1)).map (·.rpos) = some 2 ∧ (accepts exG exSt (rdTr .s16 p2)).map (·.rpos) = some 2 ∧
    deliveredAll exG .s16 p1 = #[1, 2, 3, 4] ∧ deliveredAll exG .s16 p2 = #[1, 2, 3, 4] := by decide

end Sf.C06Abs
