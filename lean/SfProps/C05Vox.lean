/-
  C05 / C06 / C04 for OKI/VOX ADPCM (vox_adpcm.c after the repair of KF-VOX-ODD): two samples per byte, the odd sample
  of a call held in the codec's private data.
-- properties: C04 C05 C06 C07
  C05  at the handle (`vox_handle_read`): a read returns min (n, frames left), advances the position by exactly that, delivers
       the next samples of the stream, zero-fills at the end — after any history (`VInv`); at the codec loops:
       a read call copies at most the requested number of samples — exactly the next ones of the stream —, falls short
       only when the data ends; a write call reports the count it was given (any parity, any staging).
  C06  the stream is a function of position only: any partition into read calls delivers the same samples.
  C04  N samples written -> (N + 1) / 2 bytes -> F = 2 * ((N + 1) / 2) frames at re-open, N <= F < N + 2 (B = 2);
       reading the file back delivers exactly F samples.
  The rule before the repair stays as `…_old_rule` witnesses.  Property theorems only; helpers in
  SfProofs/BlockVoxCarry.lean.
-/
import SfModel.BlockFile
import SfProofs.BlockVoxCarry
namespace Sf.C05Vox
open Sf Sf.Block Sf.Block.Proofs Sf.VoxCarry

/-! ## C05, read side -/

/-- the read contract of `vox_read_block`, for every coder state, every held sample, every rest of the file and every
    request: the samples copied out are exactly as many as the returned count, never more than requested (no cell
    behind the caller's buffer is touched), they are the next samples of the stream, the stream behind them is what
    the handle holds afterwards, and the count falls short of the request only when the data ends -/
theorem vox_read_contract (st : Oki.St) (c : Option Int) (bytes : List Byte) (n : Nat) :
    let r := Oki.readBlock (n + 1) st c bytes n
    r.2.2.2.1.length = r.2.2.2.2 ∧ r.2.2.2.2 ≤ n ∧
    r.2.2.2.1 = (stream st c bytes).take n ∧
    stream r.1 r.2.1 r.2.2.1 = (stream st c bytes).drop n ∧
    (r.2.2.2.2 < n → stream r.1 r.2.1 r.2.2.1 = []) := by
  simp only
  obtain ⟨h1, h2, h3⟩ := readBlock_spec (n + 1) st c bytes n (Nat.lt_succ_self _)
  refine ⟨?_, ?_, h1, h3, ?_⟩
  · rw [h1, h2, List.length_take]
  · rw [h2]; omega
  · intro hlt
    rw [h3, List.drop_of_length_le]
    rw [h2] at hlt; omega

/-- non-vacuity: a request of 3 on a 3-byte file delivers 3 and holds the fourth sample; the next request of 5 gets
    the held sample and the two of the last byte: 3, short because the data ends -/
example :
    (Oki.readBlock 4 {} none [0x12, 0x34, 0x56] 3).2.2.2.2 = 3 ∧ (Oki.readBlock 4 {} none [0x12, 0x34, 0x56] 3).2.1.isSome ∧
    (let r := Oki.readBlock 4 {} none [0x12, 0x34, 0x56] 3
     (Oki.readBlock 6 r.1 r.2.1 r.2.2.1 5).2.2.2.2 = 3 ∧
     r.2.2.2.1 ++ (Oki.readBlock 6 r.1 r.2.1 r.2.2.1 5).2.2.2.1 = (Oki.decBytes {} [0x12, 0x34, 0x56]).2) := by decide

/-- the same through the staging loop of `vox_read_i/f/d` (pieces of `chunk` samples; 0 = `vox_read_s`, one piece) -/
theorem vox_read_call_contract (chunk : Nat) (st : Oki.St) (c : Option Int) (bytes : List Byte) (n : Nat) :
    let r := voxReadCall chunk (n + 1) st c bytes n
    r.2.2.2.1.length = r.2.2.2.2 ∧ r.2.2.2.2 ≤ n ∧
    r.2.2.2.1 = (stream st c bytes).take n ∧
    stream r.1 r.2.1 r.2.2.1 = (stream st c bytes).drop n := by
  simp only
  obtain ⟨h1, h2, h3⟩ := voxReadCall_spec chunk (n + 1) st c bytes n (Nat.lt_succ_self _)
  refine ⟨?_, ?_, h1, h3⟩
  · rw [h1, h2, List.length_take]
  · rw [h2]; omega

example : (voxReadCall 2 6 {} none [0x12, 0x34, 0x56] 5).2.2.2.1 = ((Oki.decBytes {} [0x12, 0x34, 0x56]).2).take 5 := by decide

/-- old rule (KF-VOX-ODD), witness: a request of one sample copied two — one short behind the caller's buffer — and
    reported two -/
theorem vox_odd_read_overruns_old_rule :
    (Oki.readBlockOld 2 {} [0x12, 0x34] 1).2.2.1.length = 2 ∧ (Oki.readBlockOld 2 {} [0x12, 0x34] 1).2.2.2 = 2 := by decide

/-! ## C05, write side -/

/-- a write call reports exactly the count it was given and consumes exactly those samples: with the samples held
    from earlier calls in front, whole bytes are encoded and the odd last sample is held -/
theorem vox_write_contract (chunk : Nat) (st : Oki.St) (c : Option Int) (xs : List Int) :
    let r := Oki.writeCall chunk (xs.length + 1) st c xs xs.length
    r.2.2.2 = xs.length ∧
    r.2.2.1 = (Oki.encPairs st (evenPart (c.toList ++ xs))).2 ∧ r.2.1 = oddLast (c.toList ++ xs) ∧
    2 * r.2.2.1.length + r.2.1.toList.length = c.toList.length + xs.length := by
  simp only
  rw [writeCall_spec chunk _ st c xs (Nat.lt_succ_self _)]
  refine ⟨rfl, rfl, rfl, ?_⟩
  simp only [writeSpec]
  rw [encPairs_length, evenPart_length, oddLast_toList_length, List.length_append]
  omega

example : (Oki.writeCall 0 2 {} none [256] 1).2.2.2 = 1 ∧ (Oki.writeCall 0 2 {} none [256] 1).2.2.1 = [] ∧
    (Oki.writeCall 0 2 {} none [256] 1).2.1 = some 256 := by decide

/-- old rule (KF-VOX-ODD), witness: a write of one sample reported two -/
theorem vox_odd_write_overcounts_old_rule : (Oki.writeCallOld 0 2 {} [256] 1).2.2 = 2 := by decide

/-! ## C06: any partition into read calls -/

/-- reading with counts `ns`, one call after the other on one handle, delivers the first `ns.sum` samples of the
    stream: the concatenation of the deliveries depends on the total only, not on how it is cut -/
theorem vox_read_partition (st : Oki.St) (c : Option Int) (bytes : List Byte) (ns : List Nat) :
    voxReads st c bytes ns = (stream st c bytes).take ns.sum := voxReads_spec ns st c bytes

theorem vox_read_partition_invariant (bytes : List Byte) (ns ms : List Nat) (h : ns.sum = ms.sum) :
    voxReads {} none bytes ns = voxReads {} none bytes ms := by
  rw [vox_read_partition, vox_read_partition, h]

/-- non-vacuity: 1 + 3 + 2 is one read of 6 -/
example : voxReads {} none [0x12, 0x34, 0x56] [1, 3, 2] = voxReads {} none [0x12, 0x34, 0x56] [6] ∧
    (voxReads {} none [0x12, 0x34, 0x56] [1, 3, 2]).length = 6 := by decide

/-- old rule, witness: reads of 1, 3, 2 delivered (and counted) 2 + 4 + 0 samples -/
theorem vox_read_partition_old_rule :
    (Oki.readBlockOld 2 {} [0x12, 0x34, 0x56] 1).2.2.2 = 2 ∧
    (Oki.readBlockOld 4 (Oki.readBlockOld 2 {} [0x12, 0x34, 0x56] 1).1 (Oki.readBlockOld 2 {} [0x12, 0x34, 0x56] 1).2.1 3).2.2.2 = 4 := by
  decide

/-! ## C04: the frame count at re-open -/

/-- a file written with any calls holding N samples in all has (N + 1) / 2 bytes; `vox_adpcm_init` reports
    F = 2 * bytes frames: N ≤ F < N + 2 (the block length of the encoding is 2 frames) and F - N ≤ 1 -/
theorem vox_frames_bound (calls : List (List Int)) :
    (voxFile {} none calls).length = (calls.flatten.length + 1) / 2 ∧
    calls.flatten.length ≤ (VoxR.open (voxFile {} none calls)).frames ∧
    (VoxR.open (voxFile {} none calls)).frames < calls.flatten.length + 2 := by
  have h : (voxFile {} none calls).length = (calls.flatten.length + 1) / 2 := by
    rw [voxFile_spec, encPairs_length, padZero_length]
    simp only [Option.toList_none, List.nil_append]
    omega
  refine ⟨h, ?_, ?_⟩ <;> simp only [VoxR.open, h] <;> omega

example : (VoxR.open (voxFile {} none [[256], [512, 768]])).frames = 4 ∧ (VoxR.open (voxFile {} none [[256], [512]])).frames = 2 := by decide

/-- old rule, witness: three calls of one sample each gave a file of six frames (F = 2 N) -/
theorem vox_frames_old_rule :
    2 * ((Oki.writeBlockOld 2 {} [256] 1).2.1 ++
      (Oki.writeBlockOld 2 (Oki.writeBlockOld 2 {} [256] 1).1 [512] 1).2.1 ++
      (Oki.writeBlockOld 2 (Oki.writeBlockOld 2 (Oki.writeBlockOld 2 {} [256] 1).1 [512] 1).1 [768] 1).2.1).length = 6 := by decide

/-- reading the closed file back delivers exactly F samples: the decoded stream has 2 * bytes entries -/
theorem vox_reopen_delivers_frames (calls : List (List Int)) :
    (stream {} none (voxFile {} none calls)).length = (VoxR.open (voxFile {} none calls)).frames := by
  simp only [stream, Option.toList_none, List.nil_append, decBytes_length, VoxR.open]

/-! ## C05 at the handle: `sf_read_*` on a VOX handle (count, position, end of data) -/

/-- the invariant of a VOX read handle: the samples it has not delivered yet (held sample first, then the decoded rest of
    the file) are exactly the frames it still counts -/
def VInv (h : VoxR) : Prop := h.pos ≤ h.frames ∧ (stream h.st h.carry h.rest).length = h.frames - h.pos

theorem vox_handle_open_inv (data : List Byte) : VInv (VoxR.open data) := by
  simp [VInv, VoxR.open, stream, decBytes_length]

/-- one `sf_read_<ty> (h, buf, n)`: it returns min (n, frames left) — so less than requested only when the data ends, and 0
    at the end —, advances the position by exactly that, delivers the next samples of the stream (converted to the caller's
    type) and nothing else (`none` = the whole request zero-filled at the end of the data), and keeps the invariant: by
    induction the statement holds after any history of reads of any sizes and types -/
theorem vox_handle_read (h : VoxR) (c : Conv) (ty : Ty) (n : Nat) (hi : VInv h) :
    let r := h.read c ty n
    r.2.2 = min n (h.frames - h.pos) ∧ r.1.pos = h.pos + r.2.2 ∧ r.1.frames = h.frames ∧ VInv r.1 ∧
    (0 < n → h.pos < h.frames → r.2.1 = some (((stream h.st h.carry h.rest).take n).map (Oki.toCaller c ty))) ∧
    (0 < n → h.frames ≤ h.pos → r.2.1 = none) := by
  obtain ⟨hp, hl⟩ := hi
  simp only
  unfold VoxR.read
  by_cases hn : n = 0
  · subst hn; simp [VInv, hp, hl]
  · simp only [hn, if_false]
    by_cases he : h.pos ≥ h.frames
    · have : h.frames - h.pos = 0 := by omega
      simp [he, this, VInv, hp, hl]
    · simp only [he, if_false]
      obtain ⟨b1, b2, b3⟩ := voxReadCall_spec (Oki.chunkOf ty) (n + 1) h.st h.carry h.rest n (Nat.lt_succ_self _)
      have hcnt : (voxReadCall (Oki.chunkOf ty) (n + 1) h.st h.carry h.rest n).2.2.2.2 ≤ h.frames - h.pos := by
        rw [b2, hl]; omega
      simp only [hcnt, if_true]
      have hc2 : (voxReadCall (Oki.chunkOf ty) (n + 1) h.st h.carry h.rest n).2.2.2.2 = min n (h.frames - h.pos) := by rw [b2, hl]
      and_intros
      · exact hc2
      · trivial
      · trivial
      · show h.pos + _ ≤ h.frames
        rw [hc2]; omega
      · show (stream _ _ _).length = h.frames - (h.pos + _)
        rw [b3, List.length_drop, hl, hc2]; omega
      · intro _ _
        rw [b1, hc2, ← hl]
        congr 2
        by_cases hle : n ≤ (stream h.st h.carry h.rest).length
        · rw [Nat.min_eq_left hle, List.take_take, Nat.min_self]
        · rw [Nat.min_eq_right (by omega), List.take_of_length_le (by rw [List.length_take]; omega)]
      · intro _ h2; exact h2.elim

/-- non-vacuity: 3 bytes = 6 frames; reads of 3, 5, 1 items return 3, 3, 0 (the last one zero-fills) -/
example :
    ((VoxR.open [0x12, 0x34, 0x56]).read {} .s16 3).2.2 = 3 ∧
    ((((VoxR.open [0x12, 0x34, 0x56]).read {} .s16 3).1).read {} .s32 5).2.2 = 3 ∧
    (((((VoxR.open [0x12, 0x34, 0x56]).read {} .s16 3).1).read {} .s32 5).1.read {} .s16 1).2 = (none, 0) := by decide

end Sf.C05Vox
