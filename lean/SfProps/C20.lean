/-
  C20 — built-in codec kernels conform to their published definitions for every input.
  Property theorems only.  (G.711 part; IEEE serialisers, byte-order helpers and ADPCM are in
  SfProps/C20b.lean &c. as they are added.)
-/
import SfModel.G711
import SfModel.Generated.G711Tables
import SfProofs.Table
namespace Sf.C20
open Sf.G711 Sf.Generated

/-! ## The tables the library uses today are the G.711 definition

`*Tab` are regenerated from the running library on every check run; these `decide` proofs are
re-checked by the kernel against them, so they are theorems about what the code computes now. -/

theorem ulaw_decode_table_spec : ulawDecodeTab = (List.range 256).map ulawDecode :=
  tabIs_spec _ _ _ (by decide +kernel)
theorem alaw_decode_table_spec : alawDecodeTab = (List.range 256).map alawDecode :=
  tabIs_spec _ _ _ (by decide +kernel)
theorem ulaw_encode_table_spec : ulawEncodeTab = (List.range 8193).map ulawEncMag :=
  tabIs_spec _ _ _ (by decide +kernel)
theorem alaw_encode_table_spec : alawEncodeTab = (List.range 2049).map alawEncMag :=
  tabIs_spec _ _ _ (by decide +kernel)

/-! ## encode ∘ decode is the identity on codes

µ-law has two zeros: code 0x7F decodes to 0, which encodes to 0xFF (G.711 itself; stated as such). -/

theorem ulaw_enc_dec_id : ∀ c, c < 256 → c ≠ 0x7F → ulawEncode (ulawDecode c) = c := by decide +kernel
theorem ulaw_two_zeros : ulawDecode 0x7F = 0 ∧ ulawDecode 0xFF = 0 ∧ ulawEncode 0 = 0xFF := by decide
theorem alaw_enc_dec_id : ∀ c, c < 256 → alawEncode (alawDecode c) = c := by decide +kernel

/-! ## the lib-shaped short entry point is the definition on the whole 16-bit range -/

theorem ulaw_encS16_spec (x : Int) (h1 : -32768 ≤ x) (h2 : x ≤ 32767) : ulaw.encS16 x = ulawEncode x := by
  unfold Law.encS16 ulawEncode ulaw
  simp only
  split
  · congr 2; rw [Int.tdiv_eq_ediv_of_nonneg (by omega)]; rfl
  · congr 3
    have : Int.tdiv x (-(2 ^ 2)) = (-x) / 4 := by
      have h : x = -(-x) := by omega
      rw [h, Int.neg_tdiv_neg, Int.tdiv_eq_ediv_of_nonneg (by omega)]; simp
    rw [this]

theorem alaw_encS16_spec (x : Int) (h1 : -32768 ≤ x) (h2 : x ≤ 32767) : alaw.encS16 x = alawEncode x := by
  unfold Law.encS16 alawEncode alaw
  simp only
  split
  · congr 2; rw [Int.tdiv_eq_ediv_of_nonneg (by omega)]; rfl
  · congr 3
    have : Int.tdiv x (-(2 ^ 4)) = (-x) / 16 := by
      have h : x = -(-x) := by omega
      rw [h, Int.neg_tdiv_neg, Int.tdiv_eq_ediv_of_nonneg (by omega)]; simp
    rw [this]

/-- non-vacuity: the hypotheses are met by ordinary samples and the function is not constant -/
example : ulaw.encS16 1000 = 0xCE ∧ ulaw.encS16 (-1000) = 0x4E ∧ alaw.encS16 1000 = 0xFA := by decide

end Sf.C20
