/-
  C20 (and C02) — the portable IEEE path through every caller type equals the native path (round 8).
  -- properties: C02 C20

  * `replace_write_cross_f32 / _f64` : for every caller type, conversion setting, file byte order and buffer whose staged values
        are finite, `replace_write_s2f / i2f / f / d2f` (resp. the double64.c four) produce exactly `Sf.Enc.encodeAll` — the bytes of
        the native path — so the closed files of the two paths are identical (what vlib/ieeecross.py compares on the library).
  * `replace_read_cross_f32 / _f64`  : reading the native bytes of finite values through the portable path delivers, for every caller
        type, the converted values `deliver32 / deliver64` of the stored samples; `deliver32_is_decode` / `deliver64_is_decode`:
        that is `Sf.Enc.decode` (incl. clipping for the int readers).
  * `replace_read_d2f_old_rule_fails` : the rule before the repair of KF-C20-REPLACE-READ-D2F wrote 2·n cells for n items and none
        of them was the converted value;  `replace_read_clip_old_rule_fails` : before KF-C02-REPLACE-CLIP-READ 40000.0f read as a
        short with clipping on gave −25536 instead of 32767.
-/
import SfModel.IeeeCross
import SfProps.C20Ieee
namespace Sf.C20Cross
open Sf Sf.Float Sf.Ieee Sf.IeeeCross Sf.C20Ieee

theorem hostWrite_f32_eq (fileBE : Bool) (xs : List Nat) :
    hostWrite f32 fileBE xs = xs.flatMap fun b => if fileBE then beBytes 4 b else leBytes 4 b := by
  unfold hostWrite Spec.bytesBE Spec.bytesLE
  have : f32.width / 8 = 4 := by decide
  rw [this]

theorem hostWrite_f64_eq (fileBE : Bool) (xs : List Nat) :
    hostWrite f64 fileBE xs = xs.flatMap fun b => if fileBE then beBytes 8 b else leBytes 8 b := by
  unfold hostWrite Spec.bytesBE Spec.bytesLE
  have : f64.width / 8 = 8 := by decide
  rw [this]

theorem encode_flt_eq (big : Bool) (c : Conv) (ty : Ty) (v : Int) :
    (Enc.flt big).encode c ty v = if big then beBytes 4 (stage32 c ty v) else leBytes 4 (stage32 c ty v) := by
  cases ty <;> rfl

theorem encode_dbl_eq (big : Bool) (c : Conv) (ty : Ty) (v : Int) :
    (Enc.dbl big).encode c ty v = if big then beBytes 8 (stage64 c ty v) else leBytes 8 (stage64 c ty v) := by
  cases ty <;> rfl

/-- **write side, FLOAT files**: every caller type through the portable path = the native bytes -/
theorem replace_write_cross_f32 (fileBE : Bool) (c : Conv) (ty : Ty) (vs : List Int)
    (h : ∀ v ∈ vs, stage32 c ty v < 2 ^ 32 ∧ f32.isFinite (stage32 c ty v) = true) :
    replaceWrite32 fileBE c ty vs = (Enc.flt fileBE).encodeAll c ty vs := by
  unfold replaceWrite32 Enc.encodeAll
  rw [replace_write_finite_f32 fileBE _ (by
    intro x hx
    obtain ⟨v, hv, rfl⟩ := List.mem_map.mp hx
    exact h v hv), hostWrite_f32_eq, List.flatMap_map]
  exact congrArg (fun f => List.flatMap f vs) (funext fun v => (encode_flt_eq fileBE c ty v).symm)

/-- **write side, DOUBLE files** -/
theorem replace_write_cross_f64 (fileBE : Bool) (c : Conv) (ty : Ty) (vs : List Int)
    (h : ∀ v ∈ vs, stage64 c ty v < 2 ^ 64 ∧ f64.isFinite (stage64 c ty v) = true) :
    replaceWrite64 fileBE c ty vs = (Enc.dbl fileBE).encodeAll c ty vs := by
  unfold replaceWrite64 Enc.encodeAll
  rw [replace_write_finite_f64 fileBE _ (by
    intro x hx
    obtain ⟨v, hv, rfl⟩ := List.mem_map.mp hx
    exact h v hv), hostWrite_f64_eq, List.flatMap_map]
  exact congrArg (fun f => List.flatMap f vs) (funext fun v => (encode_dbl_eq fileBE c ty v).symm)

/-- non-vacuity: the shorts 1, −2 and the int 3 staged for a FLOAT file are finite -/
example : replaceWrite32 true {} .s16 [1, -2] = (Enc.flt true).encodeAll {} .s16 [1, -2] :=
  replace_write_cross_f32 true {} .s16 [1, -2] (by decide +kernel)
example : replaceWrite64 false { scaleIF := true } .s32 [3] = (Enc.dbl false).encodeAll { scaleIF := true } .s32 [3] :=
  replace_write_cross_f64 false { scaleIF := true } .s32 [3] (by decide +kernel)

/-- **read side, FLOAT files**: the native bytes of finite values, read through the portable path by any caller type -/
theorem replace_read_cross_f32 (fileBE : Bool) (c : Conv) (ty : Ty) (xs : List Nat)
    (h : ∀ x ∈ xs, x < 2 ^ 32 ∧ f32.isFinite x = true) :
    replaceRead32 fileBE c ty (hostWrite f32 fileBE xs) = xs.map (deliver32 c ty) := by
  unfold replaceRead32
  rw [replace_read_finite_f32 fileBE xs h]

/-- **read side, DOUBLE files** (repaired `replace_read_d2f`: the float caller gets the converted values) -/
theorem replace_read_cross_f64 (fileBE : Bool) (c : Conv) (ty : Ty) (xs : List Nat)
    (h : ∀ x ∈ xs, x < 2 ^ 64 ∧ f64.isFinite x = true) :
    replaceRead64 fileBE c ty (hostWrite f64 fileBE xs) = xs.map (deliver64 c ty) := by
  unfold replaceRead64
  rw [replace_read_finite_f64 fileBE xs h]

/-- `deliver32` is what the native reader makes of the stored bytes (`Sf.Enc.decode`, clipping included) -/
theorem deliver32_is_decode (big : Bool) (c : Conv) (ty : Ty) (x : Nat) (hx : x < 2 ^ 32) :
    (Enc.flt big).decode c ty (if big then beBytes 4 x else leBytes 4 x) = deliver32 c ty x := by
  have hm : x % 4294967296 = x := Nat.mod_eq_of_lt (by omega)
  cases big <;> cases ty <;> simp [Enc.decode, deliver32, ofBE_beBytes, ofLE_leBytes, hm]

theorem deliver64_is_decode (big : Bool) (c : Conv) (ty : Ty) (x : Nat) (hx : x < 2 ^ 64) :
    (Enc.dbl big).decode c ty (if big then beBytes 8 x else leBytes 8 x) = deliver64 c ty x := by
  have hm : x % 18446744073709551616 = x := Nat.mod_eq_of_lt (by omega)
  cases big <;> cases ty <;> simp [Enc.decode, deliver64, ofBE_beBytes, ofLE_leBytes, hm]

example : replaceRead64 true {} .f32 (hostWrite f64 true [0x3FE0000000000000, 0xBFD0000000000000]) = [0x3F000000, 0xBE800000] := by
  rw [replace_read_cross_f64 true {} .f32 _ (by decide +kernel)]
  decide +kernel

/-! ## the rules before the repairs -/

/-- KF-C20-REPLACE-READ-D2F: two floats asked of the doubles 0.5, −0.25 — the old rule wrote FOUR cells (the caller's buffer
    overrun by its own length), and the two the caller looks at are not 0.5f, −0.25f -/
theorem replace_read_d2f_old_rule_fails :
    readD2fOld [0x3FE0000000000000, 0xBFD0000000000000] = [0, 0x3FE00000, 0, 0xBFD00000] ∧
    (readD2fOld [0x3FE0000000000000, 0xBFD0000000000000]).length = 2 * 2 ∧
    (readD2fOld [0x3FE0000000000000, 0xBFD0000000000000]).take 2 ≠ [0x3FE0000000000000, 0xBFD0000000000000].map f64to32 := by
  decide +kernel

/-- KF-C02-REPLACE-CLIP-READ: 40000.0f read as a short with clipping on: 32767 now, −25536 (wrapped) under the old rule -/
theorem replace_read_clip_old_rule_fails :
    deliver32 { clip := true } .s16 0x471C4000 = 32767 ∧ deliver32Old { clip := true } .s16 0x471C4000 = -25536 := by
  decide +kernel

end Sf.C20Cross
