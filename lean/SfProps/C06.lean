/- C06 — placeholder until the handle theorems are merged -/
import SfModel.Handle
namespace Sf.C06
/-- a mode-qualified whence that contradicts the handle's mode fails with −1 and an error, changing nothing else -/
theorem seek_wrong_mode (h : H) (s : Store) (off : Int) (hm : h.mode = .r) :
    (stepSeek h s off 0x20).2.2.ret = -1 ∧ (stepSeek h s off 0x20).2.2.err ≠ 0 ∧ (stepSeek h s off 0x20).2.1 = s := by
  simp [stepSeek, hm, E_WRONG_SEEK]
end Sf.C06
