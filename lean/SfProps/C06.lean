/-
  C06 — decoded audio depends only on frame position (partition and seek consistency), for the sample-granular
  encodings of SfModel/Handle.lean.  Property theorems only (lemmas: SfProofs/HandleSeek.lean).

  `itemStream h bytes ty` is the decoded item sequence of the data section: `decodeAll` of the store bytes from
  `dataoffset` on.  Item `i` of frame `k`, channel `c` is `itemStream[k·ch + c]`.
-/
import SfProofs.HandleSeek
namespace Sf.C06
open Sf

/-! ## seek_result -/

/-- For every offset, every whence value (any integer) and every mode, `sf_seek` either fails — returns −1, sets a
    non-zero error and changes nothing else — or returns the requested absolute frame `base + offset` with error 0,
    where `base` is 0 / the current read or write position / the frame count as `whence` says (`seekBase`).
    On reachable states a successful result is never negative, so the two outcomes cannot be confused. -/
theorem seek_result (h : H) (s : Store) (off whence : Int) :
    let r := stepSeek h s off whence
    (r.2.2.ret = -1 ∧ r.2.2.err ≠ 0 ∧ r.1 = { h with error := r.2.2.err } ∧ r.2.1 = s) ∨
    (∃ base, seekBase h whence = some base ∧ r.2.2.ret = base + off ∧ r.2.2.err = 0 ∧ r.1.error = 0 ∧
      r.2.1.bytes = s.bytes ∧ (HInv h s → 0 ≤ base + off)) :=
  seek_result_any h s off whence

/-- on a read-only handle a successful seek leaves the read position at the value returned, inside `[0, frames]`,
    and changes nothing else a read depends on -/
theorem seek_success_read_mode (h : H) (s : Store) (off whence : Int) (hi : HInv h s) (hm : h.mode = .r)
    (hok : (stepSeek h s off whence).2.2.err = 0) :
    let r := stepSeek h s off whence
    r.1.rpos = r.2.2.ret ∧ SameFile h r.1 ∧ r.2.1.bytes = s.bytes ∧ r.1.error = 0 ∧ 0 ≤ r.2.2.ret ∧ r.2.2.ret ≤ h.frames :=
  seek_success_rmode h s off whence hi hm hok

/-! ## seek_cur_zero -/

/-- `sf_seek (f, 0, SEEK_CUR)` reports the read position of a read-only handle, the write position of a write-only
    handle, and changes nothing (it clears the error field); the mode-qualified forms `SEEK_CUR | SFM_READ`,
    `SEEK_CUR | SFM_WRITE` do the same for the cursor they name, also on RDWR handles -/
theorem seek_cur_zero (h : H) (s : Store) :
    (h.mode = .r → stepSeek h s 0 1 = ({ h with error := 0 }, s, { ret := h.rpos, err := 0 })) ∧
    (h.mode = .w → stepSeek h s 0 1 = ({ h with error := 0 }, s, { ret := h.wpos, err := 0 })) ∧
    (h.mode ≠ .w → stepSeek h s 0 0x11 = ({ h with error := 0 }, s, { ret := h.rpos, err := 0 })) ∧
    (h.mode ≠ .r → stepSeek h s 0 0x21 = ({ h with error := 0 }, s, { ret := h.wpos, err := 0 })) :=
  ⟨seek_cur_zero_r h s, seek_cur_zero_w h s, seek_cur_zero_read_qualified h s, seek_cur_zero_write_qualified h s⟩

/-- On a RDWR handle the unqualified form is a real seek to the *write* position: the value reported is the index
    of the next frame a read delivers only because the call moves the read position there. -/
theorem seek_cur_zero_rdwr (h : H) (s : Store) (hi : HInv h s) (hm : h.mode = .rw) :
    stepSeek h s 0 1 = ({ h with error := 0, rpos := h.wpos, wpos := h.wpos, lastOp := .r }, defaultSeek h s h.wpos,
      { ret := h.wpos, err := 0 }) :=
  seek_cur_zero_rw h s hm hi.wpos_nn

/-- in every mode that can read, the value a zero-offset SEEK_CUR reports is the read position afterwards -/
theorem seek_cur_zero_reports_next_frame (h : H) (s : Store) (hi : HInv h s) (hm : h.mode ≠ .w) :
    (stepSeek h s 0 1).2.2.ret = (stepSeek h s 0 1).1.rpos ∧ (stepSeek h s 0 1).2.2.err = 0 := by
  rcases mode_cases h.mode with m | m | m
  · rw [seek_cur_zero_r h s m]; exact ⟨rfl, rfl⟩
  · exact absurd m hm
  · rw [seek_cur_zero_rw h s m hi.wpos_nn]; exact ⟨rfl, rfl⟩

/-- the full statement "a zero-offset SEEK_CUR reports the position and changes nothing but the error field" -/
def seek_cur_zero_full : Prop :=
  ∀ (h : H) (s : Store), HInv h s →
    stepSeek h s 0 1 = ({ h with error := 0 }, s, { ret := if h.mode = .w then h.wpos else h.rpos, err := 0 })

/-- what holds: every handle that is not RDWR -/
theorem seek_cur_zero_partial (h : H) (s : Store) (hm : h.mode ≠ .rw) :
    stepSeek h s 0 1 = ({ h with error := 0 }, s, { ret := if h.mode = .w then h.wpos else h.rpos, err := 0 }) := by
  rcases mode_cases h.mode with m | m | m
  · rw [seek_cur_zero_r h s m]; simp [m]
  · rw [seek_cur_zero_w h s m]; simp [m]
  · exact absurd m hm

/-- witness: 8-frame mono RAW file opened RDWR, read cursor moved to 2 (`SEEK_SET | SFM_READ`), write cursor to 5
    (`SEEK_SET | SFM_WRITE`) -/
def rwStore : Store := { bytes := [1,0, 2,0, 3,0, 4,0, 5,0, 6,0, 7,0, 8,0], pos := 0 }
def rwH0 : H := { store := 0, mode := .rw, container := .raw, enc := .pcm ⟨16, false, false⟩, big := false, ch := 1,
                  sr := 8000, fmtWord := 0x040002, frames := 8, wpos := 8, lastOp := .rw, haveWritten := true,
                  datalength := 16, filelength := 16 }
def rwOps : List Op := [.seek 0 2 0x10, .seek 0 5 0x20]

theorem rwH0_opened : openHandle 0 rwStore .rw 0x040002 1 8000 = .ok rwH0 rwStore := by rfl

theorem seek_cur_zero_full_fails : ¬ seek_cur_zero_full := by
  intro hfull
  have hinv := HInv_reachable 0 rwStore .rw 0x040002 1 8000 rwH0 rwStore rwH0_opened rwOps
  have := congrArg (fun r => r.1.rpos) (hfull _ _ hinv)
  exact absurd this (by decide)

/-- the same witness, spelled out: the read cursor was 2, SEEK_CUR reports 5 and leaves the read cursor at 5 -/
example : (runOps rwH0 rwStore rwOps).1.rpos = 2 ∧ (runOps rwH0 rwStore rwOps).1.wpos = 5 ∧
    (stepSeek (runOps rwH0 rwStore rwOps).1 (runOps rwH0 rwStore rwOps).2 0 1).2.2.ret = 5 ∧
    (stepSeek (runOps rwH0 rwStore rwOps).1 (runOps rwH0 rwStore rwOps).2 0 1).1.rpos = 5 := by decide

/-! ## seek_then_read -/

/-- If `sf_seek` reports success with result `k` on a read-only handle, the following read returns exactly what any
    read-only handle on the same file whose read position is `k` returns: the result depends only on `k` and the
    store bytes. -/
theorem seek_then_read (h : H) (s : Store) (off whence : Int) (hi : HInv h s) (hm : h.mode = .r)
    (hok : (stepSeek h s off whence).2.2.err = 0)
    (h2 : H) (s2 : Store) (hi2 : HInv h2 s2) (sf : SameFile h h2) (hb : s2.bytes = s.bytes) (he2 : h2.error = 0)
    (hk : h2.rpos = (stepSeek h s off whence).2.2.ret) (ty : Ty) (fc : Bool) (n : Int) :
    (stepRead (stepSeek h s off whence).1 (stepSeek h s off whence).2.1 ty fc n).2.2 = (stepRead h2 s2 ty fc n).2.2 := by
  obtain ⟨p1, sf1, b1, e1, _, _⟩ := seek_success_rmode h s off whence hi hm hok
  have hm1 : (stepSeek h s off whence).1.mode = .r := by rw [← sf1.mode]; exact hm
  refine read_out_depends _ _ _ _ ty fc n (HInv_stepSeek h s off whence hi) hi2 hm1 ?_ ?_ ?_ ?_
  · exact ⟨sf1.enc.symm.trans sf.enc, sf1.conv.symm.trans sf.conv, sf1.ch.symm.trans sf.ch,
      sf1.frames.symm.trans sf.frames, sf1.dataoffset.symm.trans sf.dataoffset, sf1.mode.symm.trans sf.mode⟩
  · rw [p1, hk]
  · rw [b1, hb]
  · rw [e1, he2]

/-- … and that result is frames `k, k+1, …` of the item stream: a valid request for `m` frames after a successful
    seek to `k` delivers `d = min m (frames − k)` frames, which are items `k·ch … (k+d)·ch` of `itemStream`. -/
theorem seek_then_read_stream (h : H) (s : Store) (off whence : Int) (hi : HInv h s) (hm : h.mode = .r)
    (hok : (stepSeek h s off whence).2.2.err = 0) (ty : Ty) (fc : Bool) (n : Int)
    (hn : 0 < n) (ha : fc = true ∨ n % (h.ch : Int) = 0) :
    let k := (stepSeek h s off whence).2.2.ret
    let r := stepRead (stepSeek h s off whence).1 (stepSeek h s off whence).2.1 ty fc n
    ∃ m d : Nat, reqLen h fc n = (m : Int) * (h.ch : Int) ∧ (d : Int) = min (m : Int) (h.frames - k) ∧
      r.2.2.ret = (if fc then (d : Int) else (d : Int) * (h.ch : Int)) ∧
      r.1.rpos = k + d ∧
      r.2.2.data.take (d * h.ch) = ((itemStream h s.bytes ty).drop (k.toNat * h.ch)).take (d * h.ch) := by
  obtain ⟨p1, sf1, b1, _, _, _⟩ := seek_success_rmode h s off whence hi hm hok
  have hm1 : (stepSeek h s off whence).1.mode = .r := by rw [← sf1.mode]; exact hm
  have ha1 : fc = true ∨ n % ((stepSeek h s off whence).1.ch : Int) = 0 := by rw [← sf1.ch]; exact ha
  obtain ⟨m, d, hl, hd, hret, hrp, _, _, hdat⟩ :=
    read_rmode_full _ _ ty fc n (HInv_stepSeek h s off whence hi) hm1 hn ha1
  refine ⟨m, d, ?_, ?_, ?_, ?_, ?_⟩
  · rw [sf1.ch, ← hl]; unfold reqLen; rw [sf1.ch]
  · rw [hd, ← sf1.frames, p1]
  · rw [hret, ← sf1.ch]
  · rw [hrp, p1]
  · rw [sf1.ch, hdat, b1, ← SameFile.itemStream sf1, p1]

/-! ## partition_invariance -/

/-- Read-only handle, frames calls: reading `a` frames and then `b` frames returns, concatenated and restricted to the
    items actually returned, the same items as one read of `a + b` frames, returns the same total, and leaves the same
    read position. -/
theorem partition_invariance (h : H) (s : Store) (ty : Ty) (a b : Nat) (hi : HInv h s) (hm : h.mode = .r) :
    let r1 := stepRead h s ty true a
    let r2 := stepRead r1.1 r1.2.1 ty true b
    let r3 := stepRead h s ty true ((a + b : Nat) : Int)
    r1.2.2.ret + r2.2.2.ret = r3.2.2.ret ∧
    r2.1.rpos = r3.1.rpos ∧
    r1.2.2.data.take (r1.2.2.ret.toNat * h.ch) ++ r2.2.2.data.take (r2.2.2.ret.toNat * h.ch) =
      r3.2.2.data.take (r3.2.2.ret.toNat * h.ch) :=
  partition_frames h s ty a b hi hm

/-- the same for items calls (`a`, `b` frames requested as `a·ch`, `b·ch` items) -/
theorem partition_invariance_items (h : H) (s : Store) (ty : Ty) (a b : Nat) (hi : HInv h s) (hm : h.mode = .r) :
    let r1 := stepRead h s ty false ((a * h.ch : Nat) : Int)
    let r2 := stepRead r1.1 r1.2.1 ty false ((b * h.ch : Nat) : Int)
    let r3 := stepRead h s ty false (((a + b) * h.ch : Nat) : Int)
    r1.2.2.ret + r2.2.2.ret = r3.2.2.ret ∧
    r2.1.rpos = r3.1.rpos ∧
    r1.2.2.data.take r1.2.2.ret.toNat ++ r2.2.2.data.take r2.2.2.ret.toNat = r3.2.2.data.take r3.2.2.ret.toNat :=
  partition_items h s ty a b hi hm

/-- the two call variants agree: `n` frames through the frames call = `n·ch` items through the items call (same new
    state, same buffer, same error; the return value counts frames instead of items) — every mode, every `n` -/
theorem call_variants_agree (h : H) (s : Store) (ty : Ty) (n : Int) (hi : HInv h s) :
    let rf := stepRead h s ty true n
    let ri := stepRead h s ty false (n * (h.ch : Int))
    rf.1 = ri.1 ∧ rf.2.1 = ri.2.1 ∧ rf.2.2.data = ri.2.2.data ∧ rf.2.2.err = ri.2.2.err ∧
    rf.2.2.ret = ri.2.2.ret / (h.ch : Int) :=
  read_frames_vs_items h s ty n hi

/-! ## non-vacuity: the 3-frame stereo file of C05 -/

def exStore : Store := { bytes := [1,0, 2,0, 3,0, 4,0, 5,0, 6,0], pos := 0 }
def exH : H := { store := 0, mode := .r, container := .raw, enc := .pcm ⟨16, false, false⟩, big := false, ch := 2,
                 sr := 8000, fmtWord := 0x040002, frames := 3, lastOp := .r, datalength := 12, filelength := 12 }

example : HInv exH exStore ∧ exH.mode = .r :=
  ⟨HInv_openHandle 0 exStore .r 0x040002 2 8000 exH exStore (by rfl), rfl⟩
/-- seek to frame 1 succeeds; the next read of 2 frames delivers items 2… of the stream; −1 with an error beyond
    the end; 1 frame then 2 frames = 3 frames -/
example : (stepSeek exH exStore 1 0).2.2.ret = 1 ∧ (stepSeek exH exStore 1 0).2.2.err = 0 ∧
    (stepRead (stepSeek exH exStore 1 0).1 (stepSeek exH exStore 1 0).2.1 .s16 true 2).2.2.data = [3, 4, 5, 6] ∧
    itemStream exH exStore.bytes .s16 = [1, 2, 3, 4, 5, 6] ∧
    (stepSeek exH exStore 4 0).2.2.ret = -1 ∧ (stepSeek exH exStore 4 0).2.2.err ≠ 0 ∧
    (stepSeek exH exStore (-1) 2).2.2.ret = 2 := by decide

end Sf.C06
