/-
-- properties: C01 C03
  C01 / C03 (ALAC bit I/O) — the window arithmetic of src/ALAC/ALACBitUtilities.c is the bit-list reader of the model
  (lean/SfModel/AlacBits.lean), for every call the decoder makes:

  * `bbWindow_eq_bits`: `BitBufferRead (bits, n)` — three bytes at `cur`, shifted left by the bit index, masked to 24 bits,
    top `n` bits — is "the next n bits, most significant first" for every byte content, bit index 0 … 7 and n ≤ 16;
  * `bbWindowSmall_eq_bits`: the same for the 16-bit window of `BitBufferReadSmall`, n ≤ 8.
  (18 bits at bit index 7 is a request the 24-bit window does not cover: `bbWindow_18_fails`; no call site asks for more than 16.)
-/
import SfProofs.AlacEscape
import Mathlib.Tactic.IntervalCases
namespace Sf.AlacCore

theorem bitsOf_mod (v : Nat) : ∀ (n m : Nat), n ≤ m → bitsOf (v % 2 ^ m) n = bitsOf v n
  | 0, _, _ => rfl
  | n + 1, m, h => by
    simp only [bitsOf]
    rw [bitsOf_mod v n m (by omega)]
    congr 2
    have e : 2 ^ m = 2 ^ n * 2 ^ (m - n) := by rw [← Nat.pow_add]; congr 1; omega
    rw [e, Nat.mod_mul_right_div_self]
    have : 2 ∣ 2 ^ (m - n) := ⟨2 ^ (m - n - 1), by rw [← Nat.pow_succ']; congr 1; omega⟩
    rw [Nat.mod_mod_of_dvd _ this]

theorem bitsOf_drop (v a b : Nat) : (bitsOf v (a + b)).drop a = bitsOf v b := by
  rw [bitsOf_split, List.drop_left' (bitsOf_length _ _)]

theorem unpack3 (b0 b1 b2 : Nat) (h0 : b0 < 256) (h1 : b1 < 256) (h2 : b2 < 256) :
    unpack [b0, b1, b2] = bitsOf (b0 * 65536 + b1 * 256 + b2) 24 := by
  have e1 := bitsOf_split (b0 * 65536 + b1 * 256 + b2) 8 16
  have e2 := bitsOf_split (b0 * 65536 + b1 * 256 + b2) 8 8
  simp only [Nat.reduceAdd, Nat.reducePow] at e1 e2
  rw [e1, e2]
  have a0 : (b0 * 65536 + b1 * 256 + b2) / 65536 = b0 := by omega
  have a1 : bitsOf ((b0 * 65536 + b1 * 256 + b2) / 256) 8 = bitsOf b1 8 := by
    rw [← bitsOf_mod _ 8 8 (Nat.le_refl _)]; congr 1; simp only [Nat.reducePow]; omega
  have a2 : bitsOf (b0 * 65536 + b1 * 256 + b2) 8 = bitsOf b2 8 := by
    rw [← bitsOf_mod _ 8 8 (Nat.le_refl _)]; congr 1; simp only [Nat.reducePow]; omega
  rw [a0, a1, a2]
  simp [unpack]

/-- `BitBufferRead`: the 24-bit window arithmetic reads the next `n` bits, for every n ≤ 16 -/
theorem bbWindow_eq_bits (b0 b1 b2 bi n : Nat) (h0 : b0 < 256) (h1 : b1 < 256) (h2 : b2 < 256) (hbi : bi < 8) (hn : n ≤ 16) :
    bbWindow b0 b1 b2 bi n = ((Rd.mk ((unpack [b0, b1, b2]).drop bi) 0).read n).1 := by
  unfold bbWindow
  rw [unpack3 b0 b1 b2 h0 h1 h2]
  have hW : b0 * 65536 + b1 * 256 + b2 < 16777216 := by omega
  generalize b0 * 65536 + b1 * 256 + b2 = W at hW
  have e : (bitsOf W 24).drop bi = bitsOf W (n + (24 - bi - n)) ++ [] := by
    have h24 : bitsOf W 24 = bitsOf W (bi + (n + (24 - bi - n))) := by congr 1; omega
    rw [List.append_nil, h24, bitsOf_drop]
  rw [e, read_split]
  simp only
  interval_cases bi <;> interval_cases n <;> simp only [Nat.reducePow, Nat.reduceSub, Nat.reduceAdd, Nat.reduceMul] <;> omega

theorem unpack2 (b0 b1 : Nat) (h0 : b0 < 256) (h1 : b1 < 256) : unpack [b0, b1] = bitsOf (b0 * 256 + b1) 16 := by
  have e2 := bitsOf_split (b0 * 256 + b1) 8 8
  simp only [Nat.reduceAdd, Nat.reducePow] at e2
  rw [e2]
  have a0 : (b0 * 256 + b1) / 256 = b0 := by omega
  have a2 : bitsOf (b0 * 256 + b1) 8 = bitsOf b1 8 := by
    rw [← bitsOf_mod _ 8 8 (Nat.le_refl _)]; congr 1; simp only [Nat.reducePow]; omega
  rw [a0, a2]
  simp [unpack]

/-- `BitBufferReadSmall`: the 16-bit window arithmetic (result cast to uint8_t) reads the next `n` bits, for every n ≤ 8 -/
theorem bbWindowSmall_eq_bits (b0 b1 bi n : Nat) (h0 : b0 < 256) (h1 : b1 < 256) (hbi : bi < 8) (hn : n ≤ 8) :
    bbWindowSmall b0 b1 bi n = ((Rd.mk ((unpack [b0, b1]).drop bi) 0).read n).1 := by
  unfold bbWindowSmall
  rw [unpack2 b0 b1 h0 h1]
  have hW : b0 * 256 + b1 < 65536 := by omega
  generalize b0 * 256 + b1 = W at hW
  have e : (bitsOf W 16).drop bi = bitsOf W (n + (16 - bi - n)) ++ [] := by
    have h16 : bitsOf W 16 = bitsOf W (bi + (n + (16 - bi - n))) := by congr 1; omega
    rw [List.append_nil, h16, bitsOf_drop]
  rw [e, read_split]
  simp only
  interval_cases bi <;> interval_cases n <;> simp only [Nat.reducePow, Nat.reduceSub, Nat.reduceAdd, Nat.reduceMul] <;> omega

/-- the limit of the window: 18 bits at bit index 7 need a fourth byte -/
theorem bbWindow_18_fails : bbWindow 0 0 0 7 18 ≠ ((Rd.mk ((unpack [0, 0, 0, 255]).drop 7) 0).read 18).1 := by decide

/-- non-vacuity -/
example : bbWindow 0xA5 0x3C 0xF0 3 13 = 0x53C ∧ ((Rd.mk ((unpack [0xA5, 0x3C, 0xF0]).drop 3) 0).read 13).1 = 0x53C := by decide

end Sf.AlacCore
