/-
  C19 for the three modelled stateful codecs (G.721 / G.723, NMS ADPCM, GSM 06.10): the codec state is per handle.
  Model: SfModel/CodecWorld.lean (`cstep`: a slot table whose slots hold the codec side of a handle — encoder / decoder
  state, block buffers, positions — and whose step runs the real model functions on the calling slot).

    `codec_state_is_per_handle`   a call on slot i leaves the codec state of every other slot untouched (frame)
    `codec_step_local`            … and reads nothing of them: in two worlds that agree on slot i the call gives the same
                                  result and the same new state of slot i
    `codec_interleaving_irrelevant`  for EVERY history of calls by any number of slots (every merge of per-handle scripts,
                                  any codecs, any mix of writers and readers) slot i gets the transcript and the final
                                  state of the run in which only its own calls are made
  The models have no shared component by construction; that the C has none either (its static tables are never written)
  is what the merged-vs-solo campaign of vlib/codecpairs.py observes for every pair of these codecs, and what the
  `_tables_extracted` theorems pin down for the tables.
-/
import SfModel.CodecWorld
namespace Sf.C19Codec
open Sf Sf.CodecWorld

theorem upd_same (f : Nat → Option CodecSt) (i : Nat) (v : Option CodecSt) : upd f i v i = v := by simp [upd]
theorem upd_other (f : Nat → Option CodecSt) (i j : Nat) (v : Option CodecSt) (h : j ≠ i) : upd f i v j = f j := by simp [upd, h]

/-- **frame**: a call on slot i changes no other slot -/
theorem codec_state_is_per_handle (w : CW) (i : Nat) (op : COp) (j : Nat) (hj : j ≠ i) :
    (cstep w (i, op)).1.slots j = w.slots j := by
  unfold cstep
  simp only
  cases h : w.slots i with
  | none => rfl
  | some s => exact upd_other _ _ _ _ hj

/-- **locality**: the result and the new state of slot i depend on slot i alone -/
theorem codec_step_local (w w' : CW) (i : Nat) (op : COp) (h : w.slots i = w'.slots i) :
    (cstep w (i, op)).2 = (cstep w' (i, op)).2 ∧ (cstep w (i, op)).1.slots i = (cstep w' (i, op)).1.slots i := by
  unfold cstep
  simp only
  rw [← h]
  cases hs : w.slots i with
  | none => exact ⟨rfl, by rw [hs] at h; rw [hs, ← h]⟩
  | some s => exact ⟨rfl, by simp only [upd_same]⟩

/-- a call by another slot does not show in slot i's view and leaves slot i -/
theorem cstep_other (w : CW) (ev : Ev) (i : Nat) (h : ev.1 ≠ i) : (cstep w ev).1.slots i = w.slots i := by
  obtain ⟨j, op⟩ := ev
  exact codec_state_is_per_handle w j op i (fun e => h e.symm)

/-- the projection lemma: two worlds that agree on slot i, any history, and its projection on slot i -/
theorem crun_project (i : Nat) : ∀ (evs : List Ev) (w w' : CW), w.slots i = w'.slots i →
    view i (crun w evs).2 = view i (crun w' (proj i evs)).2 ∧ (crun w evs).1.slots i = (crun w' (proj i evs)).1.slots i := by
  intro evs
  induction evs with
  | nil => intro w w' h; exact ⟨rfl, h⟩
  | cons ev evs ih =>
    intro w w' h
    by_cases hi : ev.1 = i
    · have hb : (ev.1 == i) = true := by simp [hi]
      obtain ⟨j, op⟩ := ev
      simp only at hi
      subst hi
      have hl := codec_step_local w w' j op h
      obtain ⟨a, b⟩ := ih (cstep w (j, op)).1 (cstep w' (j, op)).1 hl.2
      simp only [proj, List.filter_cons, hb, if_true, crun, view]
      simp only [proj, view] at a b
      refine ⟨?_, b⟩
      rw [hl.1, List.map_cons, List.map_cons, a]
    · have hb : (ev.1 == i) = false := by simp [hi]
      have hs : (cstep w ev).1.slots i = w'.slots i := by rw [cstep_other w ev i hi, h]
      obtain ⟨a, b⟩ := ih (cstep w ev).1 w' hs
      simp only [proj, List.filter_cons, hb, crun, view]
      simp only [proj, view] at a b
      exact ⟨a, b⟩

/-- **interleaving is irrelevant**: every merge of per-handle scripts gives each handle its solo transcript and state -/
theorem codec_interleaving_irrelevant (evs : List Ev) (w : CW) (i : Nat) :
    view i (crun w evs).2 = view i (crun w (proj i evs)).2 ∧ (crun w evs).1.slots i = (crun w (proj i evs)).1.slots i :=
  crun_project i evs w w rfl

/-! ## non-vacuity: a G.721 writer, an NMS writer and a GSM reader interleaved -/

def w0 : CW :=
  { slots := fun j =>
      if j = 0 then some (.g72xW G72x.g721 {} ((G72x.writer G72x.g721).init G72x.St.init))
      else if j = 1 then some (.nmsW .r32 {} (Nms.openW .r32))
      else if j = 2 then some (.gsmR {} (Gsm.openRead ⟨false⟩ (0xD0 :: List.replicate 32 0) 33 none))
      else none }

def merged : List Ev :=
  [(0, .write .s16 [1000, -2000, 3000]), (2, .read .s16 3), (1, .write .s16 [500, 600]), (0, .write .s32 [65536 * 7]),
   (2, .read .s32 200), (1, .close), (0, .close), (3, .close)]

example : view 0 (crun w0 merged).2 = view 0 (crun w0 (proj 0 merged)).2 ∧
    (view 0 (crun w0 merged).2).length = 3 ∧ (view 2 (crun w0 merged).2).length = 2 ∧ view 3 (crun w0 merged).2 = [.refused] := by
  decide +kernel

/-- the closed data regions are those of the single-handle models: 4 samples -> one 60-byte G.721 block, 2 samples -> one
    82-byte NMS block -/
example : ((view 0 (crun w0 merged).2).getLast? = some (.closed (G72x.closedBytes G72x.g721 {} [(.s16, [1000, -2000, 3000]), (.s32, [65536 * 7])]))) ∧
    ((view 1 (crun w0 merged).2).getLast? = some (.closed (Nms.closedData .r32 {} [(.s16, [500, 600])]))) := by
  decide +kernel

end Sf.C19Codec
