/-
  C20 — G.711 as a quantiser: decode ∘ encode lands within half a step of the input, for every 16-bit input.
  (The Recommendation is not a nearest-level quantiser at segment edges — 508 µ-law / 504 A-law inputs have a nearer
   level in the neighbouring segment; that is the standard, stated here as the proved error bound per segment.)
  Independent of the generated tables: these are facts about the spec functions, checked once.
-/
import SfModel.G711
namespace Sf.C20
open Sf.G711

/-- segment number of a µ-law / A-law code -/
def ulawSeg (c : Nat) : Nat := ((255 - c % 256) / 16) % 8
def alawSeg (c : Nat) : Nat := ((Nat.xor (c % 256) 0x55) / 16) % 8

/-- half the quantisation step of the code's segment (µ-law steps are 8·2^s; the top segment also absorbs clipping) -/
def ulawHalfStep (c : Nat) : Int := if ulawSeg c = 7 then 644 else 2 ^ (ulawSeg c + 2)
def alawHalfStep (c : Nat) : Int := if alawSeg c = 0 then 8 else 2 ^ (alawSeg c + 2)

def ulawOk (u : Nat) : Bool :=
  let x : Int := (u : Int) - 32768
  decide ((ulawDecode (ulawEncode x) - x).natAbs ≤ (ulawHalfStep (ulawEncode x)).toNat)
def alawOk (u : Nat) : Bool :=
  let x : Int := (u : Int) - 32768
  decide ((alawDecode (alawEncode x) - x).natAbs ≤ (alawHalfStep (alawEncode x)).toNat)

theorem all_range_p {p : Nat → Bool} {a n : Nat} (h : (List.range' a n).all p = true) (i : Nat) (h1 : a ≤ i) (h2 : i < a + n) :
    p i = true := by
  rw [List.all_eq_true] at h
  exact h i (List.mem_range'_1.mpr ⟨h1, h2⟩)

set_option maxHeartbeats 2000000 in
theorem ulaw_q0 : (List.range' 0 8192).all ulawOk = true := by decide +kernel
set_option maxHeartbeats 2000000 in
theorem ulaw_q1 : (List.range' 8192 8192).all ulawOk = true := by decide +kernel
set_option maxHeartbeats 2000000 in
theorem ulaw_q2 : (List.range' 16384 8192).all ulawOk = true := by decide +kernel
set_option maxHeartbeats 2000000 in
theorem ulaw_q3 : (List.range' 24576 8192).all ulawOk = true := by decide +kernel
set_option maxHeartbeats 2000000 in
theorem ulaw_q4 : (List.range' 32768 8192).all ulawOk = true := by decide +kernel
set_option maxHeartbeats 2000000 in
theorem ulaw_q5 : (List.range' 40960 8192).all ulawOk = true := by decide +kernel
set_option maxHeartbeats 2000000 in
theorem ulaw_q6 : (List.range' 49152 8192).all ulawOk = true := by decide +kernel
set_option maxHeartbeats 2000000 in
theorem ulaw_q7 : (List.range' 57344 8192).all ulawOk = true := by decide +kernel

set_option maxHeartbeats 2000000 in
theorem alaw_q0 : (List.range' 0 8192).all alawOk = true := by decide +kernel
set_option maxHeartbeats 2000000 in
theorem alaw_q1 : (List.range' 8192 8192).all alawOk = true := by decide +kernel
set_option maxHeartbeats 2000000 in
theorem alaw_q2 : (List.range' 16384 8192).all alawOk = true := by decide +kernel
set_option maxHeartbeats 2000000 in
theorem alaw_q3 : (List.range' 24576 8192).all alawOk = true := by decide +kernel
set_option maxHeartbeats 2000000 in
theorem alaw_q4 : (List.range' 32768 8192).all alawOk = true := by decide +kernel
set_option maxHeartbeats 2000000 in
theorem alaw_q5 : (List.range' 40960 8192).all alawOk = true := by decide +kernel
set_option maxHeartbeats 2000000 in
theorem alaw_q6 : (List.range' 49152 8192).all alawOk = true := by decide +kernel
set_option maxHeartbeats 2000000 in
theorem alaw_q7 : (List.range' 57344 8192).all alawOk = true := by decide +kernel

theorem ulawOk_all (u : Nat) (hu : u < 65536) : ulawOk u = true := by
  by_cases h0 : u < 8192; · exact all_range_p ulaw_q0 u (by omega) (by omega)
  by_cases h1 : u < 16384; · exact all_range_p ulaw_q1 u (by omega) (by omega)
  by_cases h2 : u < 24576; · exact all_range_p ulaw_q2 u (by omega) (by omega)
  by_cases h3 : u < 32768; · exact all_range_p ulaw_q3 u (by omega) (by omega)
  by_cases h4 : u < 40960; · exact all_range_p ulaw_q4 u (by omega) (by omega)
  by_cases h5 : u < 49152; · exact all_range_p ulaw_q5 u (by omega) (by omega)
  by_cases h6 : u < 57344; · exact all_range_p ulaw_q6 u (by omega) (by omega)
  exact all_range_p ulaw_q7 u (by omega) (by omega)

theorem alawOk_all (u : Nat) (hu : u < 65536) : alawOk u = true := by
  by_cases h0 : u < 8192; · exact all_range_p alaw_q0 u (by omega) (by omega)
  by_cases h1 : u < 16384; · exact all_range_p alaw_q1 u (by omega) (by omega)
  by_cases h2 : u < 24576; · exact all_range_p alaw_q2 u (by omega) (by omega)
  by_cases h3 : u < 32768; · exact all_range_p alaw_q3 u (by omega) (by omega)
  by_cases h4 : u < 40960; · exact all_range_p alaw_q4 u (by omega) (by omega)
  by_cases h5 : u < 49152; · exact all_range_p alaw_q5 u (by omega) (by omega)
  by_cases h6 : u < 57344; · exact all_range_p alaw_q6 u (by omega) (by omega)
  exact all_range_p alaw_q7 u (by omega) (by omega)

/-- µ-law: for EVERY 16-bit sample, decode (encode x) is within half a quantisation step of x -/
theorem ulaw_quantiser_error (x : Int) (h1 : -32768 ≤ x) (h2 : x ≤ 32767) :
    (ulawDecode (ulawEncode x) - x).natAbs ≤ (ulawHalfStep (ulawEncode x)).toNat := by
  have h := ulawOk_all (x + 32768).toNat (by omega)
  have hx : (((x + 32768).toNat : Nat) : Int) - 32768 = x := by
    rw [Int.toNat_of_nonneg (by omega)]; omega
  unfold ulawOk at h
  simp only [hx, decide_eq_true_eq] at h
  exact h

/-- A-law: likewise -/
theorem alaw_quantiser_error (x : Int) (h1 : -32768 ≤ x) (h2 : x ≤ 32767) :
    (alawDecode (alawEncode x) - x).natAbs ≤ (alawHalfStep (alawEncode x)).toNat := by
  have h := alawOk_all (x + 32768).toNat (by omega)
  have hx : (((x + 32768).toNat : Nat) : Int) - 32768 = x := by
    rw [Int.toNat_of_nonneg (by omega)]; omega
  unfold alawOk at h
  simp only [hx, decide_eq_true_eq] at h
  exact h

/-- the quantiser is not nearest-level at segment edges: −16379 is coded 0x0F (level −16764) although level −15996
    (code 0x10, in the next segment) is nearer — G.711 itself, not a defect -/
theorem ulaw_not_nearest_witness :
    ulawEncode (-16379) = 0x0F ∧
    (ulawDecode 0x0F - (-16379)).natAbs > (ulawDecode 0x10 - (-16379)).natAbs := by decide

example : ulawEncode 1000 = 0xCE ∧ ulawDecode 0xCE = 988 ∧ ulawHalfStep 0xCE = 32 := by decide

end Sf.C20
