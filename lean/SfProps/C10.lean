/-
  C10 — sf_format_check agrees with what can really be written; the format enumeration lists are sound.
  Property theorems only.  The model (`Sf.Fmt.check`, `openWrite`, `outcome`, `roundTrips`) is in
  SfModel/FormatCheck.lean; the lists are regenerated from the running library on every check run
  (SfModel/Generated/FormatLists.lean), so the `decide` proofs below are about today's tables.
-/
import SfModel.FormatCheck
import SfModel.Generated.FormatLists
import SfProofs.FormatCheck
namespace Sf.C10
open Sf.Fmt Sf.Generated

/-! ## the quantifier: containers and encodings the build enumerates -/

def majorWords : List Int := majorFormats.map (·.1)
def subtypeWords : List Int := subtypeFormats.map (·.1)

/-- container in the SFC_GET_FORMAT_MAJOR list and encoding in the SFC_GET_FORMAT_SUBTYPE list;
    endianness bits, channels and sample rate are unconstrained -/
def Enumerated (f : Int) : Prop := container f ∈ majorWords ∧ codec f ∈ subtypeWords
instance (f : Int) : Decidable (Enumerated f) := by unfold Enumerated; infer_instance

/-- needs no external library (FLAC / Ogg / MPEG are stubs in this build) -/
def Internal (f : Int) : Prop :=
  container f ≠ FLAC ∧ container f ≠ OGG ∧ container f ≠ MPEG ∧ codec f ≠ MPEG_LAYER_III

theorem majors_internal : ∀ c ∈ majorWords, c ≠ FLAC ∧ c ≠ OGG ∧ c ≠ MPEG := by decide
theorem subtypes_internal : ∀ s ∈ subtypeWords, s ≠ MPEG_LAYER_III := by decide

theorem enumerated_internal (f : Int) (h : Enumerated f) : Internal f := by
  obtain ⟨hm, hs⟩ := h
  obtain ⟨a, b, c⟩ := majors_internal _ hm
  exact ⟨a, b, c, subtypes_internal _ hs⟩

/-! ## sf_format_check: bounds -/

theorem check_channel_bounds (f ch sr : Int) (h : ch < 1 ∨ ch > 1024) : check f ch sr = false := by
  unfold check; simp [h]

theorem check_samplerate_nonneg (f ch sr : Int) (h : sr < 0) : check f ch sr = false := by
  unfold check; simp [h]

theorem check_true_bounds (f ch sr : Int) (h : check f ch sr = true) : 1 ≤ ch ∧ ch ≤ 1024 ∧ 0 ≤ sr := by
  refine ⟨?_, ?_, ?_⟩
  · apply Classical.byContradiction; intro hn
    have := check_channel_bounds f ch sr (Or.inl (by omega)); simp [this] at h
  · apply Classical.byContradiction; intro hn
    have := check_channel_bounds f ch sr (Or.inr (by omega)); simp [this] at h
  · apply Classical.byContradiction; intro hn
    have := check_samplerate_nonneg f ch sr (by omega); simp [this] at h

/-- The statement one would like (and `validate_sfinfo` enforces at open time): no rate below 1 passes. -/
def check_samplerate_pos_full : Prop := ∀ f ch sr : Int, sr < 1 → check f ch sr = false

/-- It fails today: `sf_format_check` only rejects negative rates (WAV / PCM16 / mono / 0 Hz passes). -/
theorem check_samplerate_pos_fails : ¬ check_samplerate_pos_full := by
  intro h
  have := h (WAV + PCM_16) 1 0 (by decide)     -- a statement about `check` alone: no list is involved
  revert this; decide

/-- What does hold: below zero is rejected, and zero is the only non-positive rate that passes. -/
theorem check_samplerate_pos_partial (f ch sr : Int) (h : sr < 1) (hk : sr ≠ 0) : check f ch sr = false :=
  check_samplerate_nonneg f ch sr (by omega)

/-! ## rejected ⇒ the open fails with an error; accepted by open ⇒ check was TRUE -/

theorem check_false_rejected (f ch sr : Int) (h : check f ch sr = false) : openWrite f ch sr ≠ .ok := by
  unfold openWrite
  simp only [h]
  split
  · simp
  · split <;> simp

theorem accepts_check (f ch sr : Int) (h : accepts f ch sr = true) : check f ch sr = true := by
  cases hc : check f ch sr
  · have := check_false_rejected f ch sr hc
    unfold accepts at h; simp at h; exact absurd h.1 this
  · rfl

/-! ## check TRUE ⇒ the container's open succeeds and installs the writers -/

theorem accepts_of_good (f ch sr : Int) (h : check f ch sr = true) (g : Good f ch sr) : accepts f ch sr = true := by
  obtain ⟨g1, g2, g3, g4, _, _⟩ := g
  have hv := g3
  unfold validateSfinfo at hv
  simp at hv
  unfold accepts openWrite installed
  simp [h, g1, g2, g3, g4, hv.2.2.1, hv.2.2.2]

theorem check_good (f ch sr : Int) (hi : Internal f) (h : check f ch sr = true)
    (hsr : 1 ≤ sr ∨ rateRepaired f) : Good f ch sr := by
  obtain ⟨i1, i2, i3, hm⟩ := hi
  by_cases c1 : container f = WAV; · exact good_wav f ch sr c1 h hsr hm
  by_cases c2 : container f = WAVEX; · exact good_wavex f ch sr c2 h hsr hm
  by_cases c3 : container f = AIFF; · exact good_aiff f ch sr c3 h hsr hm
  by_cases c4 : container f = AU; · exact good_au f ch sr c4 h hsr hm
  by_cases c5 : container f = CAF; · exact good_caf f ch sr c5 h hsr hm
  by_cases c6 : container f = RAW; · exact good_raw f ch sr c6 h hsr hm
  by_cases c7 : container f = PAF; · exact good_paf f ch sr c7 h hsr hm
  by_cases c8 : container f = SVX; · exact good_svx f ch sr c8 h hsr hm
  by_cases c9 : container f = NIST; · exact good_nist f ch sr c9 h hsr hm
  by_cases c10 : container f = IRCAM; · exact good_ircam f ch sr c10 h hsr hm
  by_cases c11 : container f = VOC; · exact good_voc f ch sr c11 h hsr hm
  by_cases c12 : container f = W64; · exact good_w64 f ch sr c12 h hsr hm
  by_cases c13 : container f = MAT4; · exact good_mat4 f ch sr c13 h hsr hm
  by_cases c14 : container f = MAT5; · exact good_mat5 f ch sr c14 h hsr hm
  by_cases c15 : container f = PVF; · exact good_pvf f ch sr c15 h hsr hm
  by_cases c16 : container f = XI; · exact good_xi f ch sr c16 h hsr hm
  by_cases c17 : container f = HTK; · exact good_htk f ch sr c17 h hsr hm
  by_cases c18 : container f = SDS; · exact good_sds f ch sr c18 h hsr hm
  by_cases c19 : container f = AVR; · exact good_avr f ch sr c19 h hsr hm
  by_cases c20 : container f = SD2; · exact good_sd2 f ch sr c20 h hsr hm
  by_cases c21 : container f = WVE; · exact good_wve f ch sr c21 h hsr hm
  by_cases c22 : container f = MPC2K; · exact good_mpc2k f ch sr c22 h hsr hm
  by_cases c23 : container f = RF64; · exact good_rf64 f ch sr c23 h hsr hm
  exfalso
  unfold check at h
  simp [c1, c2, c3, c4, c5, c6, c7, c8, c9, c10, c11, c12, c13, c14, c15, c16, c17, c18, c19, c20, c21, c22, c23, i1, i2, i3] at h

/-! ## known-finding classes (exactly the excluded regions of the partial theorems) -/

/-- KF-C10-rate0: a sample rate of 0 passes `sf_format_check` but `validate_sfinfo` stops the open — except where the
    container repairs the rate.  (The division by the rate in the HTK / SDS / VOC header writers, which killed the process
    before validate_sfinfo was reached, is repaired: `rate0_open_fails_cleanly`, `rate0_died_old_rule`.  The check itself
    cannot be tightened: the library's own test-suite and examples/list_formats.c call it with a zeroed sample rate.) -/
def KF.rateZero (f sr : Int) : Prop := sr = 0 ∧ ¬ rateRepaired f
-- KF-C10-alac8 (DESIGN §8 #25, CAF/ALAC with more than 8 channels) is fixed in /repo by 0aa127c + e9742d9:
-- it is no longer an excluded class; `alac_over8_rejected` below is the regression statement.
-- KF-C10-vox-odd (DESIGN §8 #3, OKI/VOX reported an odd item count rounded up) is fixed in the library (vox_adpcm.c
-- holds the odd sample of a call): it is no longer an excluded class; `KF.voxOddOld` is the class it had and
-- `vox_odd_write_old_rule` below the regression statement.
def KF.voxOddOld (f n : Int) : Prop := container f = RAW ∧ codec f = VOX_ADPCM ∧ n % 2 = 1
/-- KF-C10-ircam-rate (DESIGN §8 #21, repaired): IRCAM keeps the rate as float32; ≥ 2^31 − 64 came back as a negative
    int before ircam_write_header capped the float -/
def KF.ircamRate (f sr : Int) : Prop := ircamRateLostOld f sr = true

instance (f sr : Int) : Decidable (KF.rateZero f sr) := by unfold KF.rateZero; infer_instance
instance (f n : Int) : Decidable (KF.voxOddOld f n) := by unfold KF.voxOddOld; infer_instance
instance (f sr : Int) : Decidable (KF.ircamRate f sr) := by unfold KF.ircamRate; infer_instance

/-! ## check ⇔ sf_open (write) hands out a working handle -/

/-- C10, first half, at full strength over every enumerated container/encoding, every endianness word,
    every channel count and every sample rate. -/
def check_iff_writable_full : Prop :=
  ∀ f ch sr : Int, Enumerated f → (check f ch sr = true ↔ accepts f ch sr = true)

/-- It fails today: WAV / PCM16 / mono at 0 Hz passes the check and cannot be opened. -/
theorem rate0_witness : ∃ m ∈ majorWords, ∃ s ∈ subtypeWords,
    Enumerated (m + s) ∧ check (m + s) 1 0 = true ∧ accepts (m + s) 1 0 = false := by decide

theorem check_iff_writable_fails : ¬ check_iff_writable_full := by
  intro h
  obtain ⟨m, _, s, _, he, h1, h2⟩ := rate0_witness
  have := (h (m + s) 1 0 he).1 h1
  rw [h2] at this; exact absurd this (by decide)

theorem check_iff_writable_partial (f ch sr : Int) (he : Enumerated f) (hk : ¬ KF.rateZero f sr) :
    check f ch sr = true ↔ accepts f ch sr = true := by
  constructor
  · intro h
    have hb := check_true_bounds f ch sr h
    have hsr : 1 ≤ sr ∨ rateRepaired f := by
      by_cases h0 : sr = 0
      · right; exact Classical.byContradiction fun hn => hk ⟨h0, hn⟩
      · left; omega
    exact accepts_of_good f ch sr h (check_good f ch sr (enumerated_internal f he) h hsr)
  · exact accepts_check f ch sr

/-- non-vacuity: enumerated formats exist on both sides of the equivalence -/
example :
    (∃ m ∈ majorWords, ∃ s ∈ subtypeWords, Enumerated (m + s) ∧ ¬ KF.rateZero (m + s) 44100 ∧
        check (m + s) 2 44100 = true ∧ accepts (m + s) 2 44100 = true) ∧
    (∃ m ∈ majorWords, ∃ s ∈ subtypeWords, Enumerated (m + s) ∧ ¬ KF.rateZero (m + s) 44100 ∧
        check (m + s) 2 44100 = false ∧ accepts (m + s) 2 44100 = false) := by decide

/-! ## the whole property: check TRUE ⇔ opens, takes frames through all four types, closes with 0,
       leaves nothing behind and re-opens as the same container and encoding -/

theorem container_rebuilt (f e : Int) (he : e = 0 ∨ e = E_LITTLE ∨ e = E_BIG ∨ e = E_CPU) :
    container (container f + codec f + e) = container f ∧ codec (container f + codec f + e) = codec f := by
  unfold container codec
  rcases he with h | h | h | h <;> subst h <;> (try simp only [E_LITTLE, E_BIG, E_CPU]) <;> (constructor <;> omega)

theorem reopenEndian_mem (f e : Int) :
    reopenEndian f e = 0 ∨ reopenEndian f e = E_LITTLE ∨ reopenEndian f e = E_BIG ∨ reopenEndian f e = e
      ∨ reopenEndian f e = endian f := by
  unfold reopenEndian
  simp only []
  repeat' split
  all_goals simp

theorem reopenEndian_cases (f e : Int) (he : e = 0 ∨ e = E_LITTLE ∨ e = E_BIG) :
    reopenEndian f e = 0 ∨ reopenEndian f e = E_LITTLE ∨ reopenEndian f e = E_BIG ∨ reopenEndian f e = E_CPU := by
  have hf := endian_cases f
  rcases reopenEndian_mem f e with h | h | h | h | h
  · exact Or.inl h
  · exact Or.inr (Or.inl h)
  · exact Or.inr (Or.inr (Or.inl h))
  · rw [h]; rcases he with h' | h' | h' <;> simp [h']
  · rw [h]; exact hf

def C10_full : Prop :=
  ∀ f ch sr n : Int, Enumerated f → 0 < n → (check f ch sr = true ↔ roundTrips f ch sr n = true)

/-- It fails today: some enumerated format passes the check at 0 Hz and cannot be opened (KF-C10-rate0).
    The IRCAM rate class was a second, independent reason before its repair (`ircam_rate_old_rule`). -/
theorem rate0_roundtrip_witness : ∃ m ∈ majorWords, ∃ s ∈ subtypeWords,
    Enumerated (m + s) ∧ check (m + s) 1 0 = true ∧ roundTrips (m + s) 1 0 3 = false := by decide

/-- **ircam_rate_old_rule.**  Before the repair of KF-C10-ircam-rate every point of the class passed the check and
    produced a file that did not re-open; IRCAM / PCM_16 at 2^31 − 1 Hz is the recorded witness, and it round-trips now. -/
theorem ircam_rate_old_rule :
    (∀ f ch sr : Int, KF.ircamRate f sr → reopenOld f ch sr = none) ∧
    (∃ m ∈ majorWords, ∃ s ∈ subtypeWords, Enumerated (m + s) ∧ check (m + s) 1 2147483647 = true ∧
      KF.ircamRate (m + s) 2147483647 ∧ roundTrips (m + s) 1 2147483647 4 = true) := by
  refine ⟨fun f ch sr h => ?_, by decide⟩
  unfold KF.ircamRate at h
  unfold reopenOld; simp [h]

/-- **rate0_open_fails_cleanly.**  At 0 Hz no container's open dies any more: on every enumerated container × encoding,
    every endianness word and 1, 2 or 9 channels, a point that passes the check and whose container does
    not repair the rate is refused by sf_open with SFE_BAD_SF_INFO — `openWrite` never yields `divZero`. -/
theorem rate0_open_fails_cleanly :
    ∀ m ∈ majorWords, ∀ s ∈ subtypeWords, ∀ e ∈ ([0, E_LITTLE, E_BIG, E_CPU] : List Int), ∀ ch ∈ ([1, 2, 9] : List Int),
      openWrite (m + s + e) ch 0 ≠ .divZero ∧
      (check (m + s + e) ch 0 = true → ¬ rateRepaired (m + s + e) → openWrite (m + s + e) ch 0 = .badSfInfo) := by decide +kernel

/-- **rate0_died_old_rule.**  The points at which the header writer used to divide by the rate (HTK; SDS with a legal
    bit width; VOC 8-bit PCM with one or two channels) pass the check, and sf_open used to die there. -/
theorem rate0_died_old_rule :
    ∃ m ∈ majorWords, ∃ s ∈ subtypeWords, Enumerated (m + s) ∧ check (m + s) 1 0 = true ∧ diedOld (m + s) 1 0 = true ∧
      openWrite (m + s) 1 0 = .badSfInfo := by decide

theorem C10_fails : ¬ C10_full := by
  intro h
  obtain ⟨m, _, s, _, he, h1, h2⟩ := rate0_roundtrip_witness
  have := (h (m + s) 1 0 3 he (by decide)).1 h1
  rw [h2] at this; exact absurd this (by decide)

/-- regression statement for the repaired DESIGN §8 #25: CAF/ALAC with more than 8 channels is refused by the
    check, hence (`check_false_rejected`) by sf_open -/
theorem alac_over8_rejected (f ch sr : Int) (hc : container f = CAF) (hs : isAlac (codec f) = true) (h : ch > 8) :
    check f ch sr = false ∧ openWrite f ch sr ≠ .ok := by
  have hcf : check f ch sr = false := by
    unfold isAlac at hs
    unfold check
    simp only [hc]
    simp at hs
    have h8 : ¬ ch ≤ 8 := by omega
    rcases hs with hs | hs | hs | hs <;>
      simp [hs, h8, CAF, WAV, WAVEX, AIFF, AU, ALAC_16, ALAC_20, ALAC_24, ALAC_32, PCM_S8, PCM_16, PCM_24, PCM_32, ULAW, ALAW, FLOAT, DOUBLE]
  exact ⟨hcf, check_false_rejected f ch sr hcf⟩

theorem roundTrips_opened (f ch sr n : Int) (h : roundTrips f ch sr n = true) : openWrite f ch sr = .ok := by
  by_cases ho : openWrite f ch sr = .ok
  · exact ho
  · unfold roundTrips outcome at h; simp [ho] at h

theorem C10_partial (f ch sr n : Int) (he : Enumerated f) (hn : 0 < n)
    (k1 : ¬ KF.rateZero f sr) :
    check f ch sr = true ↔ roundTrips f ch sr n = true := by
  constructor
  · intro h
    have hb := check_true_bounds f ch sr h
    have hsr : 1 ≤ sr ∨ rateRepaired f := by
      by_cases h0 : sr = 0
      · right; exact Classical.byContradiction fun hn => k1 ⟨h0, hn⟩
      · left; omega
    have g := check_good f ch sr (enumerated_internal f he) h hsr
    have ha := accepts_of_good f ch sr h g
    obtain ⟨_, _, _, _, ge, gch⟩ := g
    unfold accepts at ha
    simp at ha
    have hw : writeRet f ch sr n = n := by
      unfold writeRet
      simp [ha.2]
    have h4 : ircamRateLost f sr = false := rfl
    have hre := container_rebuilt f _ (reopenEndian_cases f _ ge)
    unfold roundTrips outcome reopen tmpLeft sameEncoding
    simp [ha.1, hw, h4, hre.1, hre.2, gch]
  · intro h
    cases hc : check f ch sr
    · exact absurd (roundTrips_opened f ch sr n h) (check_false_rejected f ch sr hc)
    · rfl

/-- non-vacuity of `C10_partial`: its hypotheses hold on ordinary points, both sides occur -/
example :
    ∃ m ∈ majorWords, ∃ s ∈ subtypeWords, Enumerated (m + s) ∧ ¬ KF.rateZero (m + s) 8000
      ∧ roundTrips (m + s) 1 8000 3 = true ∧ roundTrips (m + s) 1025 8000 3 = false := by decide

/-- the former class KF-C10-vox-odd is inside the theorem now: RAW / VOX_ADPCM with an odd number of frames per write -/
example : Enumerated (RAW + VOX_ADPCM) ∧ KF.voxOddOld (RAW + VOX_ADPCM) 3 ∧ ¬ KF.rateZero (RAW + VOX_ADPCM) 8000 ∧
    check (RAW + VOX_ADPCM) 1 8000 = true ∧ roundTrips (RAW + VOX_ADPCM) 1 8000 3 = true := by decide

/-- old rule: on every point of the former class KF-C10-vox-odd whose handle works, the four writes of `n` frames
    returned `n + 1` — "every write returns the requested count" failed exactly there — while the rule of the repaired
    library returns `n`; outside the class the two rules agree.  (The rate-0 class is covered by
    `check_iff_writable_fails` and the exhaustive grid.) -/
theorem vox_odd_write_old_rule (f ch sr n : Int) (hi : installed f ch sr = true) :
    (KF.voxOddOld f n → writeRetOld f ch sr n = n + 1 ∧ writeRet f ch sr n = n) ∧
    (¬ KF.voxOddOld f n → writeRetOld f ch sr n = writeRet f ch sr n) := by
  unfold writeRetOld writeRet KF.voxOddOld
  constructor
  · rintro ⟨h1, h2, h3⟩
    simp [hi, h1, h2]; omega
  · intro hk
    by_cases hv : container f = RAW ∧ codec f = VOX_ADPCM
    · have : ¬ n % 2 = 1 := fun h1 => hk ⟨hv.1, hv.2, h1⟩
      simp [hi, hv]; omega
    · simp [hi, hv]

example : installed (RAW + VOX_ADPCM) 1 8000 = true ∧ writeRetOld (RAW + VOX_ADPCM) 1 8000 3 = 4 ∧ writeRet (RAW + VOX_ADPCM) 1 8000 3 = 3 := by decide

/-! ## the enumeration lists -/

/-- distinct format words and distinct names inside each list -/
theorem format_lists_nodup :
    (simpleFormats.map (·.1)).Nodup ∧ (simpleFormats.map (·.2.1)).Nodup ∧
    (majorFormats.map (·.1)).Nodup ∧ (majorFormats.map (·.2.1)).Nodup ∧
    (subtypeFormats.map (·.1)).Nodup ∧ (subtypeFormats.map (·.2.1)).Nodup := by decide

/-- every entry carries a non-empty name; majors are pure container words, subtypes pure encoding words,
    simple formats have both parts -/
theorem format_lists_wellformed :
    (∀ x ∈ simpleFormats, x.2.1 ≠ "" ∧ container x.1 ≠ 0 ∧ codec x.1 ≠ 0 ∧ endian x.1 = 0) ∧
    (∀ x ∈ majorFormats, x.2.1 ≠ "" ∧ container x.1 = x.1 ∧ x.1 ≠ 0) ∧
    (∀ x ∈ subtypeFormats, x.2.1 ≠ "" ∧ codec x.1 = x.1 ∧ x.1 ≠ 0) := by decide

/-- every simple format passes `sf_format_check` with one or with two channels at an ordinary rate -/
theorem simple_formats_pass :
    ∀ x ∈ simpleFormats, check x.1 1 44100 = true ∨ check x.1 2 44100 = true := by decide

/-- every major format has at least one subtype (from the subtype list) that is accepted and writable
    mono at an ordinary rate with the default endianness -/
theorem major_has_subtype :
    ∀ m ∈ majorWords, ∃ s ∈ subtypeWords, check (m + s) 1 44100 = true ∧ roundTrips (m + s) 1 44100 4 = true := by
  decide

/-- SFC_GET_FORMAT_INFO agrees with the lists: every listed major / subtype is found under its own name,
    and nothing outside the lists is reported -/
theorem format_info_consistent :
    (∀ x ∈ majorFormats, (x.1, x.2.1) ∈ formatInfoMajor) ∧ (∀ y ∈ formatInfoMajor, y.1 ∈ majorWords) ∧
    (∀ x ∈ subtypeFormats, (x.1, x.2.1) ∈ formatInfoSubtype) ∧ (∀ y ∈ formatInfoSubtype, y.1 ∈ subtypeWords) := by
  decide

end Sf.C10
