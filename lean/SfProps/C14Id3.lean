/-
  C14 — a sound file behind an ID3v2 tag reads the same through SF_VIRTUAL_IO as by path / descriptor: positions count from
  psf->fileoffset on every route (repair of KF-C14-ID3-VIO-PIPE).  Model: SfModel/RoutesId3.lean; campaign: the `id3v2-tag` variants
  of vlib/foreign.py (every container, every route, reference = whichever route reads the base file out of it).
-/
import SfModel.RoutesId3
import SfProps.C14
namespace Sf.C14Id3
open Sf Sf.Routes Sf.RoutesId3

/-- without a tag (fileoffset = 0 — every virtual-I/O and pipe handle the other C14 theorems speak about) nothing changed -/
theorem fseekT_no_tag (sh : Shim) (w : World) (off : Int) (wh : Nat) (h0 : sh.fileoffset = 0) : fseekT sh w off wh = fseek sh w off wh := by
  by_cases hv : sh.virtualIo = true
  · by_cases hneg : (vioSeek w off wh).1 < 0 <;> simp [fseekT, fseek, hv, h0, hneg]
  · simp [fseekT, hv]

theorem ftellT_no_tag (sh : Shim) (w : World) (h0 : sh.fileoffset = 0) : ftellT sh w = ftell sh w := by
  by_cases hv : sh.virtualIo = true
  · simp [ftellT, ftell, hv, h0]
  · by_cases hp : sh.isPipe = true <;> simp [ftellT, ftell, hv, hp, h0]

/-- **virtual I/O behind a tag**: the store holds `tag ++ content`, id3_skip has moved fileoffset behind the tag; a seek to frame
    byte `p` of the sound file followed by a read of `m` bytes returns position `p` and the bytes of `content` at `p` — what
    sf_open on the same bytes gives (there by `routes_equivalent_partial` with fileoffset = tag length) -/
theorem vioSeek_set (w : World) (q : Nat) : vioSeek w (q : Int) 0 = ((q : Int), { w with mpos := q }) := by
  have h : ¬ ((0 : Int) + (q : Int) < 0) := by omega
  simp [vioSeek, whBase, h]

theorem vio_behind_tag (tag content : List Byte) (mode : Mode) (mpos p m : Nat) :
    seekRead fseekT (skipTag (openVio mode) tag.length) { mem := tag ++ content, mpos := mpos } p m
      = ((p : Int), readAt content p m) := by
  have hq : (p : Int) + (0 + (tag.length : Int)) = ((tag.length + p : Nat) : Int) := by omega
  have hnn : ¬ (((tag.length + p : Nat) : Int) < 0) := by omega
  have hdrop : List.drop (tag.length + p) (tag ++ content) = List.drop p content := by
    rw [List.drop_append]; simp
  by_cases hm : m = 0
  · subst hm
    simp only [seekRead, fseekT, skipTag, openVio, if_true, hq, vioSeek_set, hnn, if_false, fread, readAt]
    simp
    omega
  · have hm1 : ¬ ((1 : Int) = 0 ∨ (m : Int) = 0) := by omega
    have hm2 : ¬ ((1 : Int) * (m : Int) < 0) := by omega
    simp only [seekRead, fseekT, skipTag, openVio, if_true, hq, vioSeek_set, hnn, if_false, fread, hm1, vioRead, hm2, readAt,
      Int.one_mul, Int.toNat_natCast, hdrop]
    have hmn : ¬ ((m : Int) < 0) := by omega
    simp [hmn]
    omega

/-- **the rule before the repair** (Sf.Routes.fseek on the callbacks ignores fileoffset): a tag of 3 bytes in front of the audio
    1, 2, 3, 4 — the seek to byte 1 lands inside the tag, the read delivers tag bytes and the first audio byte -/
theorem vio_behind_tag_old_rule :
    seekRead fseek (skipTag (openVio .r) 3) { mem := [9, 9, 9] ++ [1, 2, 3, 4], mpos := 3 } 1 3 = (1, [9, 9, 1]) ∧
    seekRead fseekT (skipTag (openVio .r) 3) { mem := [9, 9, 9] ++ [1, 2, 3, 4], mpos := 3 } 1 3 = (1, [2, 3, 4]) ∧
    (ftell (skipTag (openVio .r) 3) { mem := [9, 9, 9] ++ [1, 2, 3, 4], mpos := 3 }).ret = 3 ∧
    (ftellT (skipTag (openVio .r) 3) { mem := [9, 9, 9] ++ [1, 2, 3, 4], mpos := 3 }).ret = 0 := by
  refine ⟨by decide, by decide, by decide, by decide⟩

/-- pipe: psf_ftell counts from behind the tag as well (the parsers compare it with chunk positions taken from the header cache) -/
theorem pipe_tell_behind_tag (sh : Shim) (w : World) (n : Nat) (hv : sh.virtualIo = false) (hp : sh.isPipe = true) (h0 : sh.fileoffset = 0)
    (hpo : sh.pipeoffset = (n : Int)) : (ftellT (skipTag sh n) w).ret = 0 := by
  simp [ftellT, skipTag, hv, hp, h0, hpo]

/-- the tag test gives the same answer for the same bytes wherever they sit in an enclosing file … -/
theorem tag_test_ignores_offset (k len filelength : Nat) : tagFits k len filelength = tagFits 0 len filelength := rfl

/-- … the test before the repair did not: a tag of 60 bytes, 304 bytes of tag + file; at offset 0 it passes, at offset 4096 it fails -/
theorem tag_test_old_rule : tagFitsOld 0 60 304 = true ∧ tagFitsOld 4096 60 304 = false ∧ tagFits 4096 60 304 = true := by
  refine ⟨by decide, by decide, by decide⟩

example : seekRead fseekT (skipTag (openVio .r) 3) { mem := [9, 9, 9] ++ [1, 2, 3, 4], mpos := 3 } 0 4 = (0, [1, 2, 3, 4]) := by decide

end Sf.C14Id3
