-- properties: C04 C11
/-
  C04 / C11 — the Amiga IFF 8SVX / 16SV container (stand-alone L1 model SfModel/Svx.lean over
  SfModel/SmallSession.lean; helpers SfProofs/SmallSession.lean, SfProofs/Svx.lean).  Property theorems only.

  Proved here: the closed and header-update images of every session in closed form (every header byte, incl. the NAME
  chunk with the file name), their size fields, independence of the caller's frames value, the 16-bit rate quantiser (saturating
  since the repair of KF-RATE16-WRAP; the wrap of before is `svx_rate_old_rule`).  The reader `parse` is validated against the library by the correspondence campaign
  (vlib/small1.py) and evaluated here on concrete closed files; a universal `parse (closedBytes …)` theorem over the chunk
  loop is not part of this file (see the report).
-/
import SfModel.Svx
import SfProofs.Svx
namespace Sf.C04Svx
open Sf Sf.Small Sf.Svx

/-- the closed bytes of a session: the header of the final lengths (FORM size = file length − 8, VHDR frames,
    BODY size = audio bytes), then the audio; nothing is appended -/
theorem closedBytes_eq (c : Cfg) (hwf : c.wf) (stale : Nat) (ops : List WOp) :
    closedBytes (spec c) stale ops =
      hdr c ((opsData ops).length / c.bw) ((hdrLen c + (opsData ops).length : Nat) : Int) (((opsData ops).length : Nat) : Int) ++ opsData ops := by
  have h := closed_calc (spec c) (spec_lenOk c hwf) rfl rfl stale ops
  simpa [spec] using h

theorem snapshotBytes_eq (c : Cfg) (hwf : c.wf) (stale : Nat) (ops : List WOp) :
    snapshotBytes (spec c) stale ops = closedBytes (spec c) stale ops := by
  rw [closedBytes_eq c hwf]
  have h := snapshot_calc (spec c) (spec_lenOk c hwf) rfl stale ops
  simpa [spec] using h

/-- **svx_size_fields.**  For every session: the file is header + audio; the FORM size field holds the low 32 bits
    of (file length − 8); the last four header bytes (the BODY size) hold the low 32 bits of the audio byte count. -/
theorem svx_size_fields (c : Cfg) (hwf : c.wf) (stale : Nat) (ops : List WOp) (bytes : List Byte) (D : Nat)
    (hbytes : bytes = closedBytes (spec c) stale ops) (hD : D = (opsData ops).length) :
    bytes.length = hdrLen c + D ∧ ofBE (slice bytes 4 4) = (hdrLen c + D - 8) % 2 ^ 32 ∧
    ofBE (slice bytes (hdrLen c - 4) 4) = D % 2 ^ 32 := by
  have hch : c.ch ≤ 1 := by have := (cfg_facts c hwf).2.1; omega
  have hl := hdr_length c hch (D / c.bw) ((hdrLen c + D : Nat) : Int) ((D : Nat) : Int)
  have h98 : 98 ≤ hdrLen c := by unfold hdrLen; omega
  rw [hbytes, closedBytes_eq c hwf, ← hD]
  refine ⟨by rw [List.length_append, hl, hD], ?_, ?_⟩
  · have e : hdr c (D / c.bw) ((hdrLen c + D : Nat) : Int) ((D : Nat) : Int) ++ opsData ops =
        mk4 "FORM" ++ (be32 (((hdrLen c + D : Nat) : Int) - 8) ++ ((if c.bytewidth = 1 then mk4 "8SVX" else mk4 "16SV") ++
        mk4 "VHDR" ++ be32 20 ++ be32 ((D / c.bw : Nat) : Int) ++ be32 0 ++ be32 0 ++ be16 (rateField c.sr) ++ [1] ++ [0] ++
        be32 (if c.bytewidth = 1 then 0xFF else 0xFFFF) ++ (if c.ch = 2 then mk4 "CHAN" ++ be32 4 ++ be32 6 else []) ++
        mk4 "NAME" ++ strField c.name ++ mk4 "ANNO" ++ strField annotation ++ mk4 "BODY" ++ be32 (if ((D : Nat) : Int) < 0 then 0 else ((D : Nat) : Int)) ++ opsData ops)) := by
      unfold hdr
      rw [if_neg (by omega)]
      simp only [List.append_assoc]
    rw [e, slice_field _ _ _ 4 4 rfl (be32_length _).symm, ofBE_be32]
    have : ((hdrLen c + D : Nat) : Int) - 8 = ((hdrLen c + D - 8 : Nat) : Int) := by omega
    rw [this, wrapU_mod]
  · obtain ⟨pre, hpre⟩ : ∃ pre, hdr c (D / c.bw) ((hdrLen c + D : Nat) : Int) ((D : Nat) : Int) = pre ++ be32 ((D : Nat) : Int) := by
      unfold hdr
      rw [if_neg (by omega : ¬ ((D : Nat) : Int) < 0)]
      exact ⟨_, rfl⟩
    have hpl : pre.length = hdrLen c - 4 := by
      have := congrArg List.length hpre
      rw [hl, List.length_append, be32_length] at this
      omega
    rw [hpre, List.append_assoc, slice_field pre _ _ (hdrLen c - 4) 4 hpl.symm (be32_length _).symm, ofBE_be32, wrapU_mod]

/-- **stale_frames_ignored_svx.**  `svx_open` keeps the caller's frames value in the first header it writes; every
    header update and `svx_close` recompute it: the closed bytes and every header-update image do not depend on it. -/
theorem stale_frames_ignored_svx (c : Cfg) (hwf : c.wf) (a b : Nat) (ops : List WOp) :
    closedBytes (spec c) a ops = closedBytes (spec c) b ops ∧ snapshotBytes (spec c) a ops = snapshotBytes (spec c) b ops :=
  stale_ignored_calc (spec c) (spec_lenOk c hwf) rfl rfl a b ops

/-- **svx_snapshot_is_closed_file** (C11).  A header update leaves exactly the bytes `svx_close` would leave at that
    moment (nothing is appended at close): every crash-point image is a closed SVX file of the audio written so far. -/
theorem svx_snapshot_is_closed_file (c : Cfg) (hwf : c.wf) (stale : Nat) (ops : List WOp) :
    snapshotBytes (spec c) stale ops = closedBytes (spec c) stale ops ∧
    ∃ h, h.length = hdrLen c ∧ snapshotBytes (spec c) stale ops = h ++ opsData ops := by
  refine ⟨snapshotBytes_eq c hwf stale ops, _, ?_, by rw [snapshotBytes_eq c hwf, closedBytes_eq c hwf]⟩
  exact hdr_length c (by have := (cfg_facts c hwf).2.1; omega) _ _ _

/-! ### the 16-bit rate field -/

/-- what C04 asks of a rate rule `q`: every rate a caller may pass produces a file that can be re-opened, and a rate the
    16-bit field can hold is reported exactly -/
def rateFull (q : Nat → Option Nat) : Prop := ∀ sr : Nat, 1 ≤ sr → sr ≤ 0x7FFFFFFF → q sr ≠ none ∧ (sr ≤ 65535 → q sr = some sr)

def svx_rate_full : Prop := rateFull rateQ

/-- the class of the repaired defect KF-RATE16-WRAP -/
def KF.rate16Wrap (sr : Nat) : Prop := sr % 65536 = 0
instance (sr : Nat) : Decidable (KF.rate16Wrap sr) := by unfold KF.rate16Wrap; infer_instance

/-- **svx_rate** (full strength since the repair of KF-RATE16-WRAP).  The quantiser saturates: exact up to 65535,
    65535 above; the field is never 0 for a rate ≥ 1, so every closed file can be re-opened. -/
theorem svx_rate (sr : Nat) (h1 : 1 ≤ sr) :
    rateQ sr = some (min sr 65535) ∧ (sr ≤ 65535 → rateQ sr = some sr) ∧ (65536 ≤ sr → rateQ sr = some 65535) ∧ rateQ sr ≠ none := by
  have hf : rateField sr = min sr 65535 := rfl
  have hne : ¬ rateField sr = 0 := by rw [hf]; omega
  unfold rateQ
  rw [if_neg hne, hf]
  refine ⟨rfl, fun h => ?_, fun h => ?_, by simp⟩
  · rw [Nat.min_eq_left h]
  · rw [Nat.min_eq_right (by omega)]

theorem svx_rate_full_holds : svx_rate_full := fun sr h1 _ => ⟨(svx_rate sr h1).2.2.2, (svx_rate sr h1).2.1⟩

example : rateQ 44100 = some 44100 ∧ rateQ 65536 = some 65535 ∧ rateQ 0x7FFFFFFF = some 65535 := by decide

/-- **svx_rate_old_rule.**  Before the repair the field held the low 16 bits: inside the class it was 0 (a file that
    cannot be re-opened), outside the class it was the residue — exact only below 65536. -/
theorem svx_rate_old_rule (sr : Nat) :
    (KF.rate16Wrap sr → rateQOld sr = none) ∧ (¬ KF.rate16Wrap sr → rateQOld sr = some (sr % 65536)) := by
  unfold KF.rate16Wrap rateQOld rateFieldOld
  exact ⟨fun h => by rw [if_pos h], fun h => by rw [if_neg h]⟩

theorem svx_rate_full_old_rule_fails : ¬ rateFull rateQOld := fun h => (h 65536 (by decide) (by decide)).1 (by decide)

/-- the rate bytes of the header are the big-endian saturated rate -/
theorem svx_rate_field (sr : Nat) : ofBE (be16 (rateField sr : Int)) = min sr 65535 := by
  rw [ofBE_be16, wrapU_mod]
  have : rateField sr = min sr 65535 := rfl
  rw [this]; omega

/-! ### concrete sessions through the reader -/

def exCfg : Cfg := ⟨0x02, 0, 1, 44100, ascii "s0.iff"⟩
def exVio : Cfg := ⟨0x01, 2, 1, 96000, []⟩
def exWrap : Cfg := ⟨0x01, 0, 1, 131072, []⟩
def exOps : List WOp := [.write [0, 1, 0, 2] false, .update, .write [0, 3] true]

/-- a 16-bit session with a file name: 3 frames; an 8-bit session at 96000 Hz re-opens at 65535 Hz (the field saturates);
    a rate that is a multiple of 65536 — the class of the repaired KF-RATE16-WRAP — re-opens at 65535 Hz as well -/
theorem svx_reopen_examples :
    exCfg.wf ∧ parse (closedBytes (spec exCfg) 99 exOps) = .ok ⟨1, 0x060002, 44100, 3⟩ ∧
    exVio.wf ∧ parse (closedBytes (spec exVio) 0 [.write [1, 2, 3] false]) = .ok ⟨1, 0x060001, 65535, 3⟩ ∧
    parse (snapshotBytes (spec exVio) 5 [.write [1, 2, 3] false]) = .ok ⟨1, 0x060001, 65535, 3⟩ ∧
    exWrap.wf ∧ KF.rate16Wrap exWrap.sr ∧ parse (closedBytes (spec exWrap) 0 [.write [1, 2, 3] false]) = .ok ⟨1, 0x060001, 65535, 3⟩ := by decide +kernel

example : ofBE (slice (closedBytes (spec exCfg) 99 exOps) 4 4) = 104 ∧ (closedBytes (spec exCfg) 99 exOps).length = 112 ∧
    closedBytes (spec exCfg) 0 exOps = closedBytes (spec exCfg) 123456 exOps := by decide +kernel

end Sf.C04Svx
