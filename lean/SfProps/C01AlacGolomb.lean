/-
-- properties: C01
  C01 (ALAC, compressed path) — the adaptive Golomb coder of ag_enc.c / ag_dec.c round-trips (lean/SfModel/AlacAg.lean,
  AlacEnc.lean), with the parameters the encoder uses and the decoder finds in the 'kuki' chunk (MB0 10, PB0 40, KB0 14):

  * `alac_dyn_get32_code32` / `alac_dyn_get_code`: one code word — `dyn_get_32bit (dyn_code_32bit (n)) = n` for EVERY Golomb
    parameter k ≥ 1 (m = 2^k - 1), every bit index 0 … 7 of the stream position, every n below 2^maxbits (escape codes
    included), and `dyn_get (dyn_code (n)) = n` for every zero-run length below 65536 — whatever bits follow the code
    (the decoder cuts its symbols out of a zero-filled 32-bit window).
  * `alac_dyn_decomp_dyn_comp_inverse` (FULL for residuals of up to 31 bits): `dyn_decomp (dyn_comp (r)) = r` for every list of
    residuals — the mean tracking `mb`, the zero-run mode, the 65535 cap of a run and the clamp of the mean run identically
    on both sides; the number of bits consumed is the number written.
-/
import SfProofs.AlacGolombLoop
namespace Sf.AlacCore

theorem alac_dyn_get32_code32 (maxbits k n off : Nat) (rest : Bits) (hk1 : 1 ≤ k) (hoff : off < 8) (hn : n < 2 ^ maxbits) :
    dynGet32 (dynCode32 maxbits (2 ^ k - 1) k n ++ rest) off (2 ^ k - 1) k maxbits = (n, (dynCode32 maxbits (2 ^ k - 1) k n).length) :=
  dynGet32_dynCode32 maxbits k n off rest hk1 hoff hn

theorem alac_dyn_get_code (k n off : Nat) (rest : Bits) (hk1 : 1 ≤ k) (hoff : off < 8) (hn : n < 65536) :
    dynGet (dynCode (2 ^ k - 1) k n ++ rest) off (2 ^ k - 1) k = (n, (dynCode (2 ^ k - 1) k n).length) :=
  dynGet_dynCode k n off rest hk1 hoff hn

/-- a residual fits `b` bits -/
def FitsBits (b : Nat) (x : Int) : Prop := Fits b x

theorem alac_dyn_decomp_dyn_comp_inverse (bitSize : Nat) (hb1 : 1 ≤ bitSize) (hb : bitSize ≤ 31) (pc : List Int)
    (hfit : ∀ x ∈ pc, FitsBits bitSize x) (rest : Bits) (pos byteSize : Nat)
    (hroom : pos + (dynComp stdAg pc bitSize).length ≤ byteSize * 8) :
    dynDecomp stdAg ⟨dynComp stdAg pc bitSize ++ rest, pos⟩ byteSize pc.length bitSize =
      (⟨true, pc, (dynComp stdAg pc bitSize).length⟩, ⟨rest, pos + (dynComp stdAg pc bitSize).length⟩) :=
  dynDecomp_dynComp bitSize hb1 hb pc hfit rest pos byteSize hroom

/-- non-vacuity: residuals with a zero run, an escape code and both signs -/
example : (dynDecomp stdAg ⟨dynComp stdAg [3, -1, 0, 0, 0, 0, 70000, -70000, 0, 1] 18 ++ [true, false], 5⟩ 100
    [3, -1, 0, 0, 0, 0, 70000, -70000, 0, 1].length 18).1.out =
    [3, -1, 0, 0, 0, 0, 70000, -70000, 0, 1] := by
  rw [alac_dyn_decomp_dyn_comp_inverse 18 (by decide) (by decide) [3, -1, 0, 0, 0, 0, 70000, -70000, 0, 1]
    (by intro x hx; simp at hx; rcases hx with rfl | rfl | rfl | rfl | rfl | rfl | rfl <;> (unfold FitsBits Fits; decide)) _ 5 100 (by decide)]

end Sf.AlacCore
