/-
  C14 — "sf_close closes a descriptor passed to sf_open_fd exactly when close_desc was true" holds for EVERY descriptor number,
  0 and 1 included: ownership is a property of the handle, not of the number.  Model: SfModel/FdWorld.lean (release) and
  SfModel/FdWorldLow.lean (the close decision as a parameter); the campaign that ties it to psf_close_fd is vlib/lowfd.py
  (harness op `lowfd`: descriptors 0 / 1 free, so that sf_open / sf_open_fd get them).
-/
-- properties: C14 C19
import SfModel.FdWorldLow
import SfProps.C19Fd
namespace Sf.C14LowFd
open Sf.FdWorld Sf.FdWorldLow Sf.C19Fd

/-- the code's rule is Sf.FdWorld.release -/
theorem releaseBy_is_release (t : Table) (h : Handle) : releaseBy .byOwnership t h = release .resets t h := by
  cases h with
  | mk f o r tm =>
    cases f <;> cases r <;> cases o <;> simp [releaseBy, release, closeRsrc, closeFd, Table.closeOpt]

/-- **close_desc = 1 / sf_open**: an owned descriptor is closed by sf_close whatever its number -/
theorem release_closes_owned (r : Rule) (t : Table) (h : Handle) (n : Nat) (ho : h.ownsFile = true) (hf : h.fileFd = some n) :
    (release r t h).ent n = none := by
  cases hr : h.rsrcFd <;> simp [release, closeRsrc, ho, hf, hr, Table.closeOpt, Table.osClose]

/-- **close_desc = 0**: a lent descriptor is left alone by sf_close whatever its number (the handle's other numbers are other
    descriptors) -/
theorem release_keeps_lent (r : Rule) (t : Table) (h : Handle) (n : Nat) (ho : h.ownsFile = false) (hf : h.fileFd = some n)
    (hr : h.rsrcFd ≠ some n) (ht : h.tmpFd ≠ some n) : (release r t h).ent n = t.ent n := by
  have hr2 : ∀ v, h.rsrcFd = some v → ¬ n = v := fun v hv e => hr (by rw [hv, e])
  have ht2 : ∀ v, h.tmpFd = some v → ¬ n = v := fun v hv e => ht (by rw [hv, e])
  cases hrs : h.rsrcFd <;> cases htm : h.tmpFd <;> simp [release, closeRsrc, Table.closeOpt, Table.osClose, ho, hrs, htm] <;>
    simp_all

/-- **open ; close restores the descriptor table**, for every table (so: whichever number is the lowest free one — 0 and 1 in a
    process without standard streams), every route -/
theorem open_close_restores (t : Table) (ht : TInv t) (a : Nat) (route : Route) (m : Nat) :
    (openClose .byOwnership t a route).ent m = t.ent m := by
  have hfree := lowestFree_free t ht
  have hat := osOpen_at t (.file a) ht
  have hsnd := osOpen_snd t (.file a)
  cases route <;>
    simp only [openClose, releaseBy, closeFd, Table.closeOpt, Table.osClose, bne_iff_ne, ne_eq, reduceCtorEq, not_false_eq_true,
      not_true_eq_false, if_true, if_false, ite_true, ite_false, decide_true, decide_false, hsnd] <;>
    (by_cases hm : m = t.lowestFree
     · subst hm; simp [hfree]
     · simp [hm, hat m])

/-- the rule that infers ownership from the number: in a process whose descriptor 0 is free, sf_open ; sf_close leaves
    descriptor 0 open — on every route that hands ownership to the library -/
theorem stdio_number_rule_leaks :
    ((openClose .skipsStdio (start [2]).tab 0 .path).entries = [(0, .file 0), (2, .sentinel 1002)]) ∧
    ((openClose .skipsStdio (start [2]).tab 0 .fd1).entries = [(0, .file 0), (2, .sentinel 1002)]) ∧
    ((openClose .byOwnership (start [2]).tab 0 .path).entries = [(2, .sentinel 1002)]) ∧
    ((openClose .skipsStdio (start [0, 1, 2]).tab 0 .path).entries = (start [0, 1, 2]).tab.entries) := by
  refine ⟨by decide, by decide, by decide, by decide⟩

/-- handles with a second descriptor (SD2 resource fork, ALAC spool file) at low numbers: every configuration and route, standard
    streams closed in every combination — open ; close restores the table -/
theorem low_numbers_open_close_restores :
    ∀ taken ∈ [[2], [1, 2], [0, 2], [0, 1, 2]], ∀ route ∈ [Route.path, Route.fd1, Route.fd0], ∀ sd2 alac fails : Bool,
      (run .resets (start taken) [.open 0 { route := route, sd2 := sd2, alacW := alac, fails := fails }, .close 0]).tab.entries
        = (start taken).tab.entries := by
  decide

/-- non-vacuity: descriptor 0 is what a handle gets when it is free, and it is owned -/
example : ((start [2]).tab.osOpen (.file 0)).2 = 0 ∧ TInv (start [2]).tab ∧
    (run .resets (start [2]) [.open 0 { route := .fd1 }]).tab.entries = [(0, .file 0), (2, .sentinel 1002)] := by
  refine ⟨by decide, ?_, by decide⟩
  exact (start_WInv [2]).1

end Sf.C14LowFd
