-- properties: C08 C17 C18
/-
  SfProps.C08Calc — the scanning commands (SFC_CALC_*) restore BOTH pointers AND the descriptor (model: SfModel/AbsCalc.lean).

  C08: "keeps separate readF and writeF positions"; C17: "commands that only query information leave the handle's position [and]
  audio … unchanged"; C18: the CALC commands on every seekable handle.  The caller sees the positions (`SamePos`); the audio is
  touched by what the NEXT readF delivers / where the NEXT writeF lands, which is decided by the descriptor and `last_op`
  (`Coherent`).  Universally quantified over the handle state, the scan's buffer length and the request that follows; the two
  seeded variants of round 8 are refuted by concrete handles.
-/
import SfModel.AbsCalc
namespace Sf.C08Calc
open Sf.AbsCalc

/-! ## the wrappers on a coherent handle -/

theorem read_from_rpos (s : P) (n : Nat) (h : Coherent s) : (readF s n).2.1 = s.rpos := by
  unfold readF
  by_cases hl : s.lastOp = .read
  · simp [hl, h.1 hl]
  · simp [hl]

theorem write_lands_wpos (s : P) (n : Nat) (h : Coherent s) : (writeF s n).2 = s.wpos := by
  unfold writeF
  by_cases hl : s.lastOp = .write
  · simp [hl, h.2 hl]
  · simp [hl]

theorem read_coherent (s : P) (n : Nat) (h : Coherent s) : Coherent (readF s n).1 := by
  unfold readF Coherent
  by_cases hl : s.lastOp = .read
  · simp [hl, h.1 hl]
  · simp [hl]

theorem write_coherent (s : P) (n : Nat) (h : Coherent s) : Coherent (writeF s n).1 := by
  unfold writeF Coherent
  by_cases hl : s.lastOp = .write
  · simp [hl, h.2 hl]
  · simp [hl]

theorem seekSet_coherent (s : P) (q : Qual) (p : Nat) (h : Coherent s) : Coherent (seekSet s q p) := by
  unfold seekSet Coherent
  cases q <;> cases hr : s.rdwr <;> simp_all [Coherent]

/-- a seek that names the readF pointer (or both) leaves a coherent handle whatever it started from -/
theorem seekSet_rd_coherent (s : P) (p : Nat) : Coherent (seekSet s .rd p) := by
  simp [seekSet, Coherent]

theorem seekSet_plain_coherent (s : P) (p : Nat) : Coherent (seekSet s .plain p) := by
  unfold seekSet Coherent
  cases hr : s.rdwr <;> simp

/-! ## the scan -/

/-- the loop ends with the readF pointer and the descriptor at the end of the audio; nothing else moves -/
theorem scan_end (len : Nat) (hlen : 0 < len) :
    ∀ (fuel : Nat) (s : P), s.lastOp = .read → s.fd = s.rpos → s.rpos ≤ s.frames → s.frames - s.rpos < fuel →
      scan len fuel s = { s with rpos := s.frames, fd := s.frames } := by
  intro fuel
  induction fuel with
  | zero => intro s _ _ _ h; omega
  | succ fuel ih =>
    intro s hl hfd hle hfuel
    unfold scan
    by_cases hk : min len (s.frames - s.rpos) = 0
    · have hz : s.frames - s.rpos = 0 := by omega
      have he : s.rpos = s.frames := by omega
      cases s
      simp_all [readF]
    · have hk' : (readF s len).2.2 ≠ 0 := by simpa [readF] using hk
      simp only [hk', if_false]
      rw [ih (readF s len).1]
      · cases s
        simp_all [readF]
      · simp [readF]
      · simp [readF, hl, hfd]
      · simp only [readF]; omega
      · simp only [readF]; omega

/-! ## the command as written -/

theorem calc_eq_rdwr (len : Nat) (hlen : 0 < len) (s : P) (hr : s.rdwr = true) :
    calcCmd len s = { s with fd := s.rpos, lastOp := .read } := by
  unfold calcCmd
  simp only [hr, if_true]
  rw [scan_end len hlen]
  · cases s; simp_all [seekSet]
  · simp [seekSet]
  · simp [seekSet]
  · simp [seekSet]
  · simp [seekSet]

theorem calc_eq_read (len : Nat) (hlen : 0 < len) (s : P) (hr : s.rdwr = false) :
    calcCmd len s = { s with fd := s.rpos, lastOp := .read } := by
  unfold calcCmd
  simp only [hr, tell]
  rw [scan_end len hlen]
  · cases s; simp_all [seekSet]
  · simp [seekSet, hr]
  · simp [seekSet, hr]
  · simp [seekSet, hr]
  · simp [seekSet, hr]

/-- FULL STRENGTH: on every handle state (readF or readF/writeF, any two pointers, whatever the last operation was, even an
    incoherent descriptor) the command leaves frame count, readF pointer and writeF pointer as they were … -/
theorem calc_same_pos (len : Nat) (hlen : 0 < len) (s : P) : SamePos (calcCmd len s) s := by
  cases hr : s.rdwr
  · rw [calc_eq_read len hlen s hr]; simp [SamePos]
  · rw [calc_eq_rdwr len hlen s hr]; simp [SamePos]

/-- … and a descriptor that stands where `last_op` says -/
theorem calc_coherent (len : Nat) (hlen : 0 < len) (s : P) : Coherent (calcCmd len s) := by
  cases hr : s.rdwr
  · rw [calc_eq_read len hlen s hr]; simp [Coherent]
  · rw [calc_eq_rdwr len hlen s hr]; simp [Coherent]

/-- the writeF right after the command (no seek) lands at the writeF pointer from before the command -/
theorem calc_next_write_lands (len : Nat) (hlen : 0 < len) (s : P) (n : Nat) : (writeF (calcCmd len s) n).2 = s.wpos := by
  rw [write_lands_wpos _ _ (calc_coherent len hlen s)]
  exact (calc_same_pos len hlen s).2.2.2

/-- the readF right after the command (no seek) delivers the frames at the readF pointer from before the command -/
theorem calc_next_read_from (len : Nat) (hlen : 0 < len) (s : P) (n : Nat) : (readF (calcCmd len s) n).2.1 = s.rpos := by
  rw [read_from_rpos _ _ (calc_coherent len hlen s)]
  exact (calc_same_pos len hlen s).2.2.1

/-- the command is invisible in front of any readF / writeF: same landing place, same source frame, same count as without it -/
theorem calc_invisible (len : Nat) (hlen : 0 < len) (s : P) (h : Coherent s) (n : Nat) :
    (writeF (calcCmd len s) n).2 = (writeF s n).2 ∧ (readF (calcCmd len s) n).2 = (readF s n).2 := by
  refine ⟨by rw [calc_next_write_lands len hlen, write_lands_wpos s n h], ?_⟩
  have h1 := calc_next_read_from len hlen s n
  have h2 := read_from_rpos s n h
  have hp := calc_same_pos len hlen s
  have hk : (readF (calcCmd len s) n).2.2 = (readF s n).2.2 := by
    simp only [readF]; rw [hp.2.1, hp.2.2.1]
  exact Prod.ext (by rw [h1, h2]) hk

-- non-vacuity: a readF/writeF handle whose last operation was a writeF, pointers apart, 10 frames, scan buffer of 4
example : let s : P := { rdwr := true, frames := 10, rpos := 2, wpos := 8, fd := 8, lastOp := .write }
    Coherent s ∧ SamePos (calcCmd 4 s) s ∧ (writeF (calcCmd 4 s) 1).2 = 8 ∧ (readF (calcCmd 4 s) 3).2 = (2, 3) := by decide

example : let s : P := { rdwr := false, frames := 10, rpos := 7, wpos := 0, fd := 7, lastOp := .read }
    Coherent s ∧ SamePos (calcCmd 4 s) s ∧ (readF (calcCmd 4 s) 5).2 = (7, 3) := by decide

/-! ## the rules of the two seeded regressions -/

/-- the statement the variants are measured against -/
def RestoresAll (c : P → P) : Prop :=
  ∀ s : P, Coherent s → s.rpos ≤ s.frames → SamePos (c s) s ∧ Coherent (c s)

theorem calc_restores_all (len : Nat) (hlen : 0 < len) : RestoresAll (calcCmd len) :=
  fun s _ _ => ⟨calc_same_pos len hlen s, calc_coherent len hlen s⟩

/-- "tell first": on a readF/writeF handle with the pointers apart the readF pointer ends at the writeF pointer -/
theorem calcTellFirst_old_rule : ¬ RestoresAll (calcTellFirst 4) := by
  intro h
  have := h { rdwr := true, frames := 10, rpos := 2, wpos := 8, fd := 8, lastOp := .write } (by decide) (by decide)
  revert this
  decide

/-- … and is harmless on every readF handle and whenever the pointers coincide (what the test-suite exercises) -/
theorem calcTellFirst_read_handle (len : Nat) (s : P) (hr : s.rdwr = false) :
    calcTellFirst len s = calcCmd len s := by
  unfold calcTellFirst calcCmd
  simp [hr, tell]

/-- "keep last_op": positions are reported unchanged, but after a writeF the descriptor is left at the READ pointer while
    last_op says SFM_WRITE — the next writeF lands on the readF pointer -/
theorem calcKeepLastOp_old_rule : ¬ RestoresAll (calcKeepLastOp 4) := by
  intro h
  have := h { rdwr := true, frames := 10, rpos := 2, wpos := 8, fd := 8, lastOp := .write } (by decide) (by decide)
  revert this
  decide

theorem calcKeepLastOp_same_pos (len : Nat) (hlen : 0 < len) (s : P) : SamePos (calcKeepLastOp len s) s := by
  have := calc_same_pos len hlen s
  simpa [calcKeepLastOp, SamePos] using this

theorem calcKeepLastOp_write_lands_on_read_pointer :
    let s : P := { rdwr := true, frames := 10, rpos := 2, wpos := 8, fd := 8, lastOp := .write }
    (writeF (calcKeepLastOp 4 s) 1).2 = 2 ∧ (writeF s 1).2 = 8 := by decide

end Sf.C08Calc
