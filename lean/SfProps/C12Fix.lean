/-
  C12 — the metadata defects repaired in round 4 (SfModel/MetaFix.lean): full-strength theorems about the current rules,
  `_old_rule` theorems about the rules they replace.

    KF-C12-CUE-NAMES            WAV cue point names (LIST / adtl / labl)       cue_names_roundtrip      cue_names_old_rule
    KF-C12-AIFF-INST-MARK       AIFF MARK chunk when an instrument is set too  aiff_cues_with_inst      aiff_cues_with_inst_old_rule
    KF-C12-AIFF-LATE-REPLACE    AIFF header shortened after the audio          late_replace_audio_in_place   late_replace_old_rule
-/
import SfModel.MetaFix
import SfProps.C12
import SfProps.C12X
namespace Sf.C12Fix
open Sf Sf.Meta Sf.MetaFix

/-! ## WAV cue point names -/

theorem takeWhile_ne_zero : ∀ (l : List Byte) (b : Byte), b ∈ l.takeWhile (· ≠ 0) → b ≠ 0
  | [], b, hb => by simp at hb
  | x :: xs, b, hb => by
    by_cases hx : x = 0
    · simp [List.takeWhile, hx] at hb
    · simp only [List.takeWhile, ne_eq, hx, not_false_eq_true, decide_true, List.mem_cons] at hb
      rcases hb with rfl | hb
      · exact hx
      · exact takeWhile_ne_zero xs b hb

theorem cueText_no_zero (c : Cue) : ∀ b ∈ cueText c, b ≠ 0 := by
  intro b hb
  have h1 : b ∈ cstr c.name := List.mem_of_mem_take hb
  exact takeWhile_ne_zero _ _ h1

theorem cueText_length (c : Cue) : (cueText c).length ≤ 255 := by
  unfold cueText; rw [List.length_take]; omega

theorem serLabel_eq (c : Cue) :
    serLabel c = mk "labl" ++ (le4 (4 + (cueText c).length + 1) ++ (le4 c.indx ++ ((cueText c ++ zeros (1 + ((cueText c).length + 1) % 2))))) := by
  simp [serLabel]

/-- one label parses back to (id, text), then the walk continues -/
theorem parseLabels_label (fuel : Nat) (c : Cue) (rest : List Byte) (hi : c.indx < 2 ^ 32) :
    parseLabels (fuel + 1) (serLabel c ++ rest) = (c.indx, cueText c) :: parseLabels fuel rest := by
  have hl := cueText_length c
  have hsz : 4 + (cueText c).length + 1 < 2 ^ 32 := by omega
  have hm : (mk "labl").length = 4 := by simp [mk_length]
  have hne : mk "labl" ≠ mk "adtl" := by decide
  generalize ht : cueText c = t at *
  have hz : ∀ b ∈ t, b ≠ 0 := ht ▸ cueText_no_zero c
  have hpad : (t ++ zeros (1 + (t.length + 1) % 2)).length = t.length + 1 + (t.length + 1) % 2 := by
    simp [zeros]; omega
  have hzl : (zeros (1 + (t.length + 1) % 2)).length = 1 + (t.length + 1) % 2 := by simp [zeros]
  rw [serLabel_eq, ht]
  rw [parseLabels]
  simp only [List.append_assoc]
  rw [if_neg (by simp [hm]), take_front _ _ 4 hm, if_neg hne, if_pos rfl]
  simp only [drop_front _ _ 4 hm, take_front _ _ 4 (le4_length _), ofLE_le4 hsz]
  rw [show (8 : Nat) = 4 + 4 from rfl, drop_front_add _ _ 4 4 hm, drop_front _ _ 4 (le4_length _), take_front _ _ 4 (le4_length _),
    ofLE_le4 hi]
  rw [show (12 : Nat) = 4 + 8 from rfl, drop_front_add _ _ 4 8 hm, show (8 : Nat) = 4 + 4 from rfl, drop_front_add _ _ 4 4 (le4_length _),
    drop_front _ _ 4 (le4_length _)]
  have hn : 4 + t.length + 1 - 4 + (4 + t.length + 1 - 4) % 2 = t.length + 1 + (t.length + 1) % 2 := by omega
  simp only [hn]
  rw [if_neg (by simp only [INFO_BUFFER, List.length_append, hzl]; omega)]
  rw [← List.append_assoc, take_front _ _ _ hpad, drop_front _ _ _ hpad]
  congr 2
  show cstr (t ++ zeros (1 + (t.length + 1) % 2)) = t
  have : zeros (1 + (t.length + 1) % 2) = 0 :: zeros ((t.length + 1) % 2) := by
    unfold zeros; rw [Nat.add_comm 1]; rfl
  rw [this]
  exact cstr_append_zero t _ hz

theorem parseLabels_labels (cs : List Cue) (h : ∀ c ∈ cs, c.indx < 2 ^ 32) (fuel : Nat) :
    parseLabels (cs.length + fuel) (cs.flatMap serLabel) = cs.map fun c => (c.indx, cueText c) := by
  induction cs with
  | nil => cases fuel <;> simp [parseLabels]
  | cons c t ih =>
    have e : (c :: t).length + fuel = (t.length + fuel) + 1 := by simp; omega
    rw [e, List.flatMap_cons, parseLabels_label _ c _ (h c (by simp)), ih (fun x hx => h x (by simp [hx]))]
    simp

theorem serLabel_length_ge (c : Cue) : 14 ≤ (serLabel c).length := by
  simp [serLabel, mk_length, le4_length, zeros]; omega

theorem flatMap_serLabel_length (cs : List Cue) : 14 * cs.length ≤ (cs.flatMap serLabel).length := by
  induction cs with
  | nil => simp
  | cons c t ih => simp only [List.flatMap_cons, List.length_append, List.length_cons]; have := serLabel_length_ge c; omega

theorem serLabel_length_le (c : Cue) : (serLabel c).length ≤ 270 := by
  have := cueText_length c
  simp [serLabel, mk_length, le4_length, zeros]; omega

theorem flatMap_serLabel_length_le (cs : List Cue) : (cs.flatMap serLabel).length ≤ 270 * cs.length := by
  induction cs with
  | nil => simp
  | cons c t ih => simp only [List.flatMap_cons, List.length_append, List.length_cons]; have := serLabel_length_le c; omega

/-- the LIST chunk the writer emits reads back as the (id, text) pairs of the named cue points, in order -/
theorem readLabels_writeLabels (cs : List Cue) (hn : cs.length ≤ MAX_CUES) (h : ∀ c ∈ cs, c.indx < 2 ^ 32) :
    readLabels (writeLabels cs) = (named cs).map fun c => (c.indx, cueText c) := by
  unfold writeLabels
  by_cases hnone : named cs = []
  · simp [hnone, readLabels, ofLE]
  · rw [if_neg hnone]
    have hnl : (named cs).length ≤ cs.length := List.length_filter_le _ _
    have hpos : 1 ≤ (named cs).length := by
      cases hh : named cs with
      | nil => exact absurd hh hnone
      | cons a l => simp
    have hge := flatMap_serLabel_length (named cs)
    have hle := flatMap_serLabel_length_le (named cs)
    generalize hb : (named cs).flatMap serLabel = body at *
    have hsize : 4 + body.length < 2 ^ 32 := by unfold MAX_CUES at hn; omega
    have hm : (mk "LIST").length = 4 := by simp [mk_length]
    have ha : (mk "adtl").length = 4 := by simp [mk_length]
    unfold readLabels
    simp only [List.append_assoc]
    rw [drop_front _ _ 4 hm, take_front _ _ 4 (le4_length _), ofLE_le4 hsize]
    rw [show (8 : Nat) = 4 + 4 from rfl, drop_front_add _ _ 4 4 hm, drop_front _ _ 4 (le4_length _)]
    rw [if_neg (by omega)]
    have htake : (mk "adtl" ++ body).take (4 + body.length) = mk "adtl" ++ body := by
      apply List.take_of_length_le; simp [ha]
    rw [htake]
    have hlen : (mk "adtl" ++ body).length = (body.length + 3) + 1 := by simp [ha]; omega
    rw [hlen]
    rw [parseLabels]
    rw [if_neg (by simp [ha]), take_front _ _ 4 ha, if_pos rfl, drop_front _ _ 4 ha]
    have hfuel : body.length + 3 = (named cs).length + (body.length + 3 - (named cs).length) := by omega
    rw [hfuel, ← hb]
    exact parseLabels_labels (named cs) (fun c hc => h c (List.mem_filter.1 hc).1) _

/-- a label whose id differs from the head's leaves the head alone -/
theorem applyLabels_cons (hd : Cue) (tl : List Cue) (ls : List (Nat × List Byte)) (h : ∀ l ∈ ls, l.1 ≠ hd.indx) :
    applyLabels (hd :: tl) ls = hd :: applyLabels tl ls := by
  induction ls generalizing tl with
  | nil => rfl
  | cons l r ih =>
    have h1 : hd.indx ≠ l.1 := fun e => h l (by simp) e.symm
    simp only [applyLabels, List.foldl_cons, setName, if_neg h1]
    exact ih _ (fun x hx => h x (by simp [hx]))

theorem strip_eq_norm_of_unnamed (c : Cue) (h : cueText c = []) : c.stripName = Cue.normName c := by
  simp [Cue.stripName, Cue.normName, h]

/-- every label finds its cue point when the ids are distinct -/
theorem applyLabels_named (cs : List Cue) (hd : (cs.map (·.indx)).Nodup) :
    applyLabels (cs.map Cue.stripName) ((named cs).map fun c => (c.indx, cueText c)) = cs.map Cue.normName := by
  induction cs with
  | nil => rfl
  | cons c t ih =>
    simp only [List.map_cons, List.nodup_cons] at hd
    obtain ⟨hc, ht⟩ := hd
    have hids : ∀ l ∈ (named t).map (fun c => (c.indx, cueText c)), l.1 ≠ (Cue.stripName c).indx := by
      intro l hl e
      obtain ⟨x, hx, rfl⟩ := List.mem_map.1 hl
      exact hc (List.mem_map.2 ⟨x, (List.mem_filter.1 hx).1, e⟩)
    by_cases hn : cueText c = []
    · have : named (c :: t) = named t := by simp [named, List.filter_cons, hn]
      rw [this, List.map_cons, applyLabels_cons _ _ _ hids, ih ht, List.map_cons, strip_eq_norm_of_unnamed c hn]
    · have : named (c :: t) = c :: named t := by simp [named, List.filter_cons, hn]
      rw [this, List.map_cons, List.map_cons]
      simp only [applyLabels, List.foldl_cons, setName, Cue.stripName, if_true]
      have hids2 : ∀ l ∈ (named t).map (fun c => (c.indx, cueText c)), l.1 ≠ ({ c with name := cueText c } : Cue).indx := hids
      have := applyLabels_cons ({ c with name := cueText c } : Cue) (t.map Cue.stripName) _ hids2
      simp only [applyLabels] at this ih
      rw [this, ih ht]
      simp [Cue.normName]

/-- **cue_names_roundtrip** (full strength; repaired writer): 0 … 2500 cue points with pairwise distinct ids (the RIFF
    specification requires unique cue point ids) come back with every field AND every name — the name as a C string of at most
    255 bytes, which is the one normalisation `SF_CUE_POINT.name [256]` imposes. -/
theorem cue_names_roundtrip (cs : List Cue) (hn : cs.length ≤ MAX_CUES) (h : ∀ c ∈ cs, c.wf) (hd : (cs.map (·.indx)).Nodup) :
    reopenCues cs = some (cs.map Cue.normName) := by
  unfold reopenCues reopenCuesWith
  rw [cue_roundtrip cs hn h, readLabels_writeLabels cs hn (fun c hc => (h c hc).1)]
  simp only [Option.map_some]
  rw [applyLabels_named cs hd]

/-- non-vacuity: a named and an unnamed cue point, and a name with an even and an odd length -/
example : reopenCues [⟨1, 10, 0x61746164, 0, 0, 10, ascii "one"⟩, ⟨7, 20, 0x61746164, 1, 2, 3, []⟩, ⟨9, 30, 0x61746164, 0, 0, 30, ascii "even"⟩]
    = some [⟨1, 10, 0x61746164, 0, 0, 10, ascii "one"⟩, ⟨7, 20, 0x61746164, 1, 2, 3, []⟩, ⟨9, 30, 0x61746164, 0, 0, 30, ascii "even"⟩] := by
  decide +kernel

/-- the rule before the repair: no label was written, every name came back empty -/
theorem cue_names_old_rule (cs : List Cue) (hn : cs.length ≤ MAX_CUES) (h : ∀ c ∈ cs, c.wf) :
    reopenCuesOld cs = some (cs.map Cue.stripName) := by
  unfold reopenCuesOld reopenCuesWith
  rw [cue_roundtrip cs hn h]
  simp [writeLabelsOld, readLabels, applyLabels, ofLE]

/-- … so the full statement failed for the old rule (witness: one cue point called "a") -/
theorem cue_names_lost_old_rule :
    reopenCuesOld [⟨1, 10, 0x61746164, 0, 0, 10, [97]⟩] ≠ some [Cue.normName ⟨1, 10, 0x61746164, 0, 0, 10, [97]⟩] := by decide

/-! ## AIFF: cue points and an instrument together -/

/-- repaired: whether or not an instrument was set, up to 2500 markers with 16-bit ids and names of at most 253 bytes come back -/
theorem aiff_cues_with_inst (inst : Bool) (cs : List Cue) (hn : cs.length ≤ 2500) (h : ∀ c ∈ cs, (MetaX.markOfCue c).ok) :
    aiffCues inst (some cs) = some ((cs.map MetaX.markOfCue).map MetaX.cueOfMark) := by
  have hr := MetaX.mark_roundtrip (cs.map MetaX.markOfCue) (by simpa using hn)
    (fun m hm => by obtain ⟨c, hc, rfl⟩ := List.mem_map.1 hm; exact h c hc)
  simp [aiffCues, aiffCuesWith, aiffMarkWritten, hr]

/-- the rule before the repair: with an instrument set, the cue points were lost (and without one they survived) -/
theorem aiff_cues_with_inst_old_rule (cs : List Cue) :
    aiffCuesOld true (some cs) = none ∧ aiffCuesOld false (some cs) = aiffCues false (some cs) := by
  simp [aiffCuesOld, aiffCues, aiffCuesWith, aiffMarkWrittenOld, aiffMarkWritten]

example : aiffCues true (some [⟨1, 0, 0, 0, 0, 10, ascii "one"⟩]) = some [⟨1, 0, 0x61746164, 0, 0, 10, ascii "one"⟩] := by decide +kernel

/-! ## AIFF: a header that became shorter after the audio was written -/

theorem ssndHeader_length (pad datalen : Nat) : (ssndHeader pad datalen).length = 16 + pad := by
  simp [ssndHeader, mk_length, MetaX.be4, beBytes, zeros, leBytes]; omega

/-- **late_replace_audio_in_place** (repaired): whatever header is assembled at close, as long as it is not longer than the
    one the audio was written behind, the reader finds the audio exactly where it was written, byte for byte. -/
theorem late_replace_audio_in_place (hdrNew oldFile : List Byte) (dataoffset datalen : Nat)
    (hshort : hdrNew.length + 16 ≤ dataoffset) :
    audioStart hdrNew.length (ssndPad true hdrNew.length dataoffset) = dataoffset ∧
    (closeImage (ssndPad true hdrNew.length dataoffset) hdrNew oldFile datalen).drop dataoffset = oldFile.drop dataoffset := by
  have hp : hdrNew.length + 16 + ssndPad true hdrNew.length dataoffset = dataoffset := by
    unfold ssndPad; simp only [true_and]; split <;> omega
  refine ⟨hp, ?_⟩
  unfold closeImage
  have hl : (hdrNew ++ ssndHeader (ssndPad true hdrNew.length dataoffset) datalen).length = dataoffset := by
    rw [List.length_append, ssndHeader_length]; omega
  rw [hl, List.drop_append_of_le_length (by omega), List.drop_of_length_le (by omega), List.nil_append]

/-- the rule before the repair: the SSND chunk header followed the shorter header directly, the reader took the bytes
    behind it — the rest of the OLD header — for audio -/
theorem late_replace_old_rule :
    audioStart 40 (ssndPadOld true 40 70) ≠ 70 ∧ audioStart 40 (ssndPad true 40 70) = 70 := by decide

example : ssndPad true 40 70 = 14 ∧ ssndPad true 54 70 = 0 ∧ ssndPad false 40 70 = 0 ∧
    (closeImage 2 [1, 2] ([9, 9] ++ List.replicate 18 8 ++ [5, 6, 7]) 3).drop 20 = [5, 6, 7] := by decide

end Sf.C12Fix
