/-
  C01 / C04 / C07 / C11 — THE WRITE-SIDE BRIDGE for the LOSSLESS BLOCK CODECS that were left (round 9), with crash points:
  the XI delta coders DPCM_16 / DPCM_8 inside their container (this file), SDS packets and PAF24 (C07Bridge3Sds / …Paf).
  Each `<x>_session_accepted` says: the record the all-format write campaign would write down of ANY job on that model — any caller
  type, any split into item / frame calls, a crash point after any of the calls — passes every clause of the predicate
  `sfmodel abs-write` evaluates on the implementation's records; for short / int callers that includes the C01 clause, through
  the WHOLE-FILE byte-level round trip `decode (closed data region) = samples` of the model's own reader.

  -- properties: C01 C04 C07 C11
-/
import SfProps.C07Bridge
import SfProps.C01AbsW
import SfProps.C04Xi
import SfProofs.AbsWriteBridgeBlock3
import SfProofs.AbsWriteBridgeBlock3Dpcm
namespace Sf.C07Bridge3
open Sf Sf.AbsWrite Sf.AbsWriteBridge Sf.C07Bridge Sf.Geometry

/-! ## shared: the side condition of C01 on a short / an int, list algebra of read-backs -/

/-- `sampleOk` of a short for an integer encoding of width `w`: the low `16 − w` bits are zero -/
theorem sampleOk_low16 (codec w : Nat) (hiw : intWidth codec = some w) (v : Int) (h : sampleOk codec .s16 v) : v % 2 ^ (16 - w) = 0 := by
  obtain ⟨lz, hlz, hcell⟩ := h
  simp only [losslessLow, hiw, Option.map_some, Option.some.injEq] at hlz
  subst hlz
  have h1 := hcell (wrapU 16 v) (by simp [cellOf])
  have h2 : wrapU 16 v % 2 ^ (16 - w) = 0 := by simpa [cellOk] using h1
  exact (C01AbsW.wrapU_mod 16 (16 - w) (by omega) v).1 h2

/-- … of an int: the low `32 − w` bits are zero -/
theorem sampleOk_low32 (codec w : Nat) (hiw : intWidth codec = some w) (v : Int) (h : sampleOk codec .s32 v) : v % 2 ^ (32 - w) = 0 := by
  obtain ⟨lz, hlz, hcell⟩ := h
  simp only [losslessLow, hiw, Option.map_some, Option.some.injEq] at hlz
  subst hlz
  have h1 := hcell (wrapU 32 v) (by simp [cellOf])
  have h2 : wrapU 32 v % 2 ^ (32 - w) = 0 := by simpa [cellOk] using h1
  exact (C01AbsW.wrapU_mod 32 (32 - w) (by omega) v).1 h2

theorem samples_take (cs : List LCall) (k : Nat) : samples cs = samples (cs.take k) ++ samples (cs.drop k) := by
  unfold samples
  rw [← List.flatMap_append, List.take_append_drop]

/-- the samples of the first `k` calls are a prefix of the samples -/
theorem samples_take_prefix (cs : List LCall) (k : Nat) : samples (cs.take k) = (samples cs).take (samples (cs.take k)).length := by
  conv => rhs; rw [samples_take cs k]
  simp

theorem mem_samples_take (cs : List LCall) (k : Nat) (v : Int) (h : v ∈ samples (cs.take k)) : v ∈ samples cs := by
  rw [samples_take cs k]; exact List.mem_append_left _ h

/-- a read-back region `decoded ++ fill`, cut at the request: its first `m ≤ |decoded|` items -/
theorem take_region (xs : List Int) (n m : Nat) (h1 : m ≤ xs.length) (h2 : xs.length ≤ n) :
    ((xs ++ List.replicate n 0).take n).take m = xs.take m := by
  rw [List.take_take, Nat.min_eq_left (by omega), List.take_append_of_le_length h1]

theorem map_id_of (f : Int → Int) (xs : List Int) (h : ∀ v ∈ xs, f v = v) : xs.map f = xs := by
  conv => rhs; rw [← List.map_id xs]
  exact List.map_congr_left h

/-! ## XI: DPCM_16 / DPCM_8 behind the 338 header bytes of Sf.Xi — a container with a sample-granular stateful codec -/

section Xi
open Sf.Xi Sf.AbsWriteBridge.Dpcm3

def xiWide (c : Xi.Cfg) : Bool := decide (c.codec = 0x51)

/-- an XI job: the data region is `Dpcm.write` call by call (the running value `last_16` carried from call to call); the header in
    front of a region of `n` bytes is `xi_write_header` with `n / bytewidth` frames; the store at a crash point holds the header
    and every byte written so far (nothing is buffered); the read-back goes through the handle model `DpcmR` -/
def xiJob (c : Xi.Cfg) (cv : Conv) (sr : Nat) (ty : Ty) (one split : List LCall) (marks : List Nat) : SnapJob :=
  { g := { word := c.fmtWord, ch := 1, sr := sr }, ty := ty, one := one, split := split,
    data := Dpcm3.data (xiWide c) cv ty,
    hdr := fun n => Xi.hdr c { frames := ((n / c.bw : Nat) : Int) }, tail := fun _ => [],
    framesAt := fun n => n / c.bw,
    back := Dpcm3.back (xiWide c) cv ty,
    marks := marks, stored := Dpcm3.data (xiWide c) cv ty }

theorem xi_bw (c : Xi.Cfg) : (if xiWide c = true then 2 else 1) = c.bw := by
  unfold xiWide Xi.Cfg.bw Xi.bytewidth
  by_cases h : c.codec = 0x51 <;> simp [h]

/-- THE JOB'S FILES ARE THE CONTAINER MODEL'S FILES: the closed file of a run is `Sf.Small2.closedBytes` of the XI session that
    writes the run's delta bytes, the image at a crash point its `snapshotBytes` — whatever the stale frames value at open -/
theorem xi_job_is_container (c : Xi.Cfg) (hwf : c.wf) (cv : Conv) (sr : Nat) (ty : Ty) (one split : List LCall) (marks : List Nat)
    (stale : Nat) (cs : List LCall) (k : Nat) :
    (xiJob c cv sr ty one split marks).file cs = Small2.closedBytes (Xi.fmt c) stale [.write (Dpcm3.data (xiWide c) cv ty cs) false] ∧
    (xiJob c cv sr ty one split marks).image k =
      Small2.snapshotBytes (Xi.fmt c) stale [.write (Dpcm3.data (xiWide c) cv ty (split.take k)) false] := by
  obtain ⟨h1, _⟩ := Xi.closed_eq c hwf stale [.write (Dpcm3.data (xiWide c) cv ty cs) false]
  obtain ⟨_, h2⟩ := Xi.closed_eq c hwf stale [.write (Dpcm3.data (xiWide c) cv ty (split.take k)) false]
  rw [h1, h2]
  simp [BlockJob.file, SnapJob.image, xiJob, Small2.opsData]

/-- what comes back is what was written, for a short / an int that meets the side condition of C01 -/
theorem xi_sample_exact (c : Xi.Cfg) (hwf : c.wf) (cv cv2 : Conv) (ty : Ty) (hty : ty = .s16 ∨ ty = .s32) (v : Int)
    (hr : ty.inRange v) (hs : sampleOk c.codec ty v) :
    rt (xiWide c) cv cv2 ty ty v = v := by
  unfold rt xiWide
  rcases hwf.1 with h | h
  · -- DPCM_8
    have hiw : intWidth c.codec = some 8 := by rw [h]; rfl
    simp only [h, show ¬ ((0x50 : Nat) = 0x51) by decide, decide_false, Bool.false_eq_true, if_false]
    rcases hty with rfl | rfl
    · exact out8_cur8 cv cv2 .s16 v hr (Or.inl ⟨rfl, sampleOk_low16 c.codec 8 hiw v hs⟩)
    · exact out8_cur8 cv cv2 .s32 v hr (Or.inr ⟨rfl, sampleOk_low32 c.codec 8 hiw v hs⟩)
  · -- DPCM_16
    have hiw : intWidth c.codec = some 16 := by rw [h]; rfl
    simp only [h, decide_true, if_true]
    rcases hty with rfl | rfl
    · exact out16_cur16 cv cv2 .s16 v (Or.inl rfl)
    · exact out16_cur16 cv cv2 .s32 v (Or.inr ⟨rfl, sampleOk_low32 c.codec 16 hiw v hs⟩)

/-- **XI (DPCM_16 and DPCM_8), every job with crash points after any calls is accepted** — C07 (`run_eq_one_call`: the bytes of any
    split are the bytes of one call), C04 (F = N: `data_length`), C11 (a crash point re-opens with the frames written so far and
    reads back that prefix), and C01 through the WHOLE-FILE round trip `back_data` for short / int callers (DPCM_8: shorts whose
    low 8 bits, ints whose low 24 bits are zero; DPCM_16: any short, ints whose low 16 bits are zero) -/
theorem xi_session_accepted (c : Xi.Cfg) (hwf : c.wf) (cv : Conv) (sr : Nat) (ty : Ty) (one split : List LCall) (marks : List Nat)
    (h1 : ∀ k ∈ one, k.good 1) (h2 : ∀ k ∈ split, k.good 1) (hs : samples split = samples one)
    (hr : ∀ v ∈ samples one, ty.inRange v) :
    accepted (xiJob c cv sr ty one split marks).pred.record = true := by
  apply snap_session_accepted
  have hbwpos : 0 < c.bw := by unfold Xi.Cfg.bw Xi.bytewidth; split <;> decide
  have hcodec : (xiJob c cv sr ty one split marks).g.codec = c.codec := by
    show c.fmtWord % 0x10000 = c.codec
    unfold Xi.Cfg.fmtWord; rcases hwf.1 with h | h <;> rw [h]
  have hmajor : (xiJob c cv sr ty one split marks).g.major = 0x0F := by
    show c.fmtWord / 0x10000 % 0x1000 = 0x0F
    unfold Xi.Cfg.fmtWord; rcases hwf.1 with h | h <;> rw [h]
  have hB : (xiJob c cv sr ty one split marks).g.block = 1 := by
    unfold Geom.block Geometry.blockFrames
    rw [hcodec, hmajor]
    rcases hwf.1 with h | h <;> rw [h] <;> simp [Geometry.IMA, Geometry.MS, Geometry.GSM, Geometry.VOX, Geometry.NMS, Geometry.G72X]
  have hch : (xiJob c cv sr ty one split marks).g.ch = 1 := rfl
  have hpad : (xiJob c cv sr ty one split marks).g.pad = 0 := rfl
  have hlenD : ∀ cs, (Dpcm3.data (xiWide c) cv ty cs).length / c.bw = (samples cs).length := by
    intro cs; rw [data_length, xi_bw, Nat.mul_div_cancel _ hbwpos]
  have hrk : ∀ k, ∀ v ∈ samples (split.take k), ty.inRange v := fun k v hv => hr v (by rw [← hs]; exact mem_samples_take split k v hv)
  have hrs : ∀ v ∈ samples split, ty.inRange v := fun v hv => hr v (by rw [← hs]; exact hv)
  -- the read-back of a run's data region
  have hback : ∀ cs, (∀ v ∈ samples cs, ty.inRange v) → ∀ n, (samples cs).length ≤ n →
      Dpcm3.back (xiWide c) cv ty (Dpcm3.data (xiWide c) cv ty cs) n =
        ((samples cs).map (rt (xiWide c) cv cv ty ty) ++ List.replicate n 0).take n :=
    fun cs hcs n hn => back_data (xiWide c) cv cv ty ty cs hcs n hn
  have hNk : ∀ k, (xiJob c cv sr ty one split marks).nk k = (samples (split.take k)).length := fun k => framesOf_one _
  have hitems : ∀ k, (xiJob c cv sr ty one split marks).items k = (samples (split.take k)).length := by
    intro k
    unfold SnapJob.items floorToBlock
    rw [hB, hNk]; show (samples (split.take k)).length / 1 * 1 * 1 = _; simp
  have hle : ∀ k, (samples (split.take k)).length ≤ (samples one).length := by
    intro k; rw [← hs, samples_take split k, List.length_append]; omega
  have base : BlockFacts (xiJob c cv sr ty one split marks).toBlockJob := by
    refine { chpos := by rw [hch]; decide, block := by rw [hB], calls1 := h1, calls2 := h2, same := hs,
             partition := fun h => by
               show Dpcm3.data (xiWide c) cv ty split = Dpcm3.data (xiWide c) cv ty one
               unfold Dpcm3.data; rw [run_eq_one_call, run_eq_one_call, hs],
             framesLo := by
               show framesOf 1 one ≤ (Dpcm3.data (xiWide c) cv ty one).length / c.bw
               rw [hlenD, framesOf_one],
             framesHi := by
               show (Dpcm3.data (xiWide c) cv ty one).length / c.bw < framesOf 1 one + _
               rw [hlenD, framesOf_one, hB]; omega,
             backLen := fun d n => back_length _ _ _ d n,
             rate := by
               show rateOk _ sr (sr : Int) = true
               unfold rateOk; rw [hmajor]; rfl,
             c01 := ?_ }
    by_cases hty : ty = .s16 ∨ ty = .s32
    · right
      intro hok
      show (Dpcm3.back (xiWide c) cv ty (Dpcm3.data (xiWide c) cv ty one) _).take (samples one).length = samples one
      rw [hback one hr _ (by
        show (samples one).length ≤ (framesOf 1 one + _ + _ + 8) * 1
        rw [framesOf_one]; omega)]
      rw [take_region _ _ _ (by simp) (by
        rw [List.length_map]
        show (samples one).length ≤ (framesOf 1 one + _ + _ + 8) * 1
        rw [framesOf_one]; omega)]
      rw [map_id_of _ _ (fun v hv => xi_sample_exact c hwf cv cv ty hty v (hr v hv) (by
        have := hok v hv; rw [hcodec] at this; exact this))]
      exact List.take_length
    · left
      show losslessLow _ ty = none
      rw [hcodec]
      rcases hwf.1 with h | h <;> rw [h] <;> cases ty <;> simp_all [losslessLow]
  refine { base := base,
           snapFrames := fun k _ => by
             show (Dpcm3.data (xiWide c) cv ty (split.take k)).length / c.bw = floorToBlock _ _
             rw [hlenD, hB, hNk]; unfold floorToBlock; simp,
           snapFinal := fun k _ => by
             show (Dpcm3.back (xiWide c) cv ty (Dpcm3.data (xiWide c) cv ty (split.take k)) _).take _ =
               (Dpcm3.back (xiWide c) cv ty (Dpcm3.data (xiWide c) cv ty one) _).take _
             rw [hitems, hback _ (hrk k) _ (by rw [hNk, hch]; omega), hback one hr _ (by
               show (samples one).length ≤ (framesOf 1 one + _ + _ + 8) * 1
               rw [framesOf_one]; omega)]
             rw [take_region _ _ _ (by simp) (by rw [List.length_map, hNk, hch]; omega),
               take_region _ _ _ (by rw [List.length_map]; exact hle k) (by
                 rw [List.length_map]
                 show (samples one).length ≤ (framesOf 1 one + _ + _ + 8) * 1
                 rw [framesOf_one]; omega)]
             rw [← hs]
             conv => rhs; rw [← List.map_take, ← samples_take_prefix split k]
             exact List.take_of_length_le (by simp),
           snapExact := ?_ }
  by_cases hty : ty = .s16 ∨ ty = .s32
  · right
    intro k _ hok
    show (Dpcm3.back (xiWide c) cv ty (Dpcm3.data (xiWide c) cv ty (split.take k)) _).take _ = _
    rw [hitems, hback _ (hrk k) _ (by rw [hNk, hch]; omega), take_region _ _ _ (by simp) (by rw [List.length_map, hNk, hch]; omega)]
    rw [map_id_of _ _ (fun v hv => xi_sample_exact c hwf cv cv ty hty v (hrk k v hv) (by
      have := hok v hv; rw [hcodec] at this; exact this))]
    rfl
  · left
    show losslessLow _ ty = none
    rw [hcodec]
    rcases hwf.1 with h | h <;> rw [h] <;> cases ty <;> simp_all [losslessLow]

/-! ### non-vacuity: a DPCM_16 and a DPCM_8 job of three shorts, written as 1 + 2 with a crash point after either call -/

def exOne : List LCall := [⟨true, [1000, -2000, 30000], 3⟩]
def exSplit : List LCall := [⟨true, [1000], 1⟩, ⟨false, [-2000, 30000], 2⟩]
def exOne8 : List LCall := [⟨true, [256, -512, 32512], 3⟩]
def exSplit8 : List LCall := [⟨true, [256], 1⟩, ⟨false, [-512, 32512], 2⟩]
def exJ16 : SnapJob := xiJob C04Xi.ex16 {} 44100 .s16 exOne exSplit [1, 2]
def exJ8 : SnapJob := xiJob C04Xi.ex8 {} 8000 .s16 exOne8 exSplit8 [1, 2]

/-- the hypotheses of `xi_session_accepted` hold, the side condition of C01 holds (the records are judged LOSSLESS), and the records
    evaluate: F = N = 3, the read-back begins with the samples, the crash points re-open with 1 and 3 frames, accepted -/
example : C04Xi.ex16.wf ∧ (∀ k ∈ exOne, k.good 1) ∧ (∀ k ∈ exSplit, k.good 1) ∧ samples exSplit = samples exOne ∧
    (∀ v ∈ samples exOne, Ty.s16.inRange v) ∧
    losslessFor exJ16.g .s16 (written exJ16.g.ch exJ16.pred.record.one.calls) = true ∧
    exJ16.pred.record.info.frames = 3 ∧ exJ16.pred.rbData.take 3 = [1000, -2000, 30000] ∧
    exJ16.pred.snaps.map (·.info.frames) = [1, 3] ∧ (exJ16.file exOne).length = 344 ∧ (exJ16.image 1).length = 340 ∧
    accepted exJ16.pred.record = true := by decide +kernel

example : C04Xi.ex8.wf ∧ (∀ k ∈ exOne8, k.good 1) ∧ (∀ k ∈ exSplit8, k.good 1) ∧ samples exSplit8 = samples exOne8 ∧
    (∀ v ∈ samples exOne8, Ty.s16.inRange v) ∧
    losslessFor exJ8.g .s16 (written exJ8.g.ch exJ8.pred.record.one.calls) = true ∧
    exJ8.pred.record.info.frames = 3 ∧ exJ8.pred.rbData.take 3 = [256, -512, 32512] ∧
    exJ8.pred.snaps.map (·.info.frames) = [1, 3] ∧ accepted exJ8.pred.record = true := by decide +kernel

end Xi

end Sf.C07Bridge3
