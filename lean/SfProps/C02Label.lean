/-
  C02 — codec labels and codec widths (lean/SfModel/Label.lean; campaign vlib/labelcamp.py, `sfmodel label`).

  * `keepOk_meaning`: an accepted `keep` record says that every int read back is the int written cut to its top w bits —
    "integer-to-integer moves keep the most significant bits (… narrowing truncates …)" with the FORMAT's width;
    `keep_cross_container`: two containers that carry the same codec deliver the same ints for the same input;
    `keepTop_idem`, `keepTop_low_zero`: the rule is a projection onto the ints whose low 32 − w bits are zero;
    `keep_rejects_wider`: a 12-bit codec that kept 16 bits (seeded/C02-aiff-dwvw12-init16) is rejected.
  * `voc_writes_spec_label` / `voc_reads_spec_label`: the VOC container model (lean/SfModel/Voc.lean, tied to voc.c by the C04 / C11
    campaigns) stores and accepts exactly the encoding numbers of `Sf.Label.spec` — 4 = 16-bit PCM, 6 = A-law, 7 = u-law —
    `voc_label_swap_rejected`: the transposed pair (seeded/C02-voc-alaw-ulaw-enum-swap) is not what the model reads.
  * `wavex_guid_is_wave_tag`: the first GUID field of the WAVEX model (lean/SfModel/Wavex.lean) is the WAVE format tag of the table.
-/
import SfModel.Label
import SfModel.Voc
import SfModel.Wavex
import SfProofs.Bytes
namespace Sf.Label

theorem keepAll_meaning (w : Nat) : ∀ (xs rs : List Int), keepAll w xs rs = true → rs = xs.map (keepTop w)
  | [], [], _ => rfl
  | [], _ :: _, h => by simp [keepAll] at h
  | _ :: _, [], h => by simp [keepAll] at h
  | x :: xs, r :: rs, h => by
    simp only [keepAll, Bool.and_eq_true, beq_iff_eq] at h
    simp [h.1, keepAll_meaning w xs rs h.2]

/-- what an accepted `keep` record means -/
theorem keepOk_meaning (w : Nat) (xs rs : List Int) (h : keepOk w xs rs = true) :
    1 ≤ w ∧ w ≤ 32 ∧ rs = xs.map (keepTop w) := by
  simp only [keepOk, Bool.and_eq_true, decide_eq_true_eq] at h
  exact ⟨h.1.1, h.1.2, keepAll_meaning w xs rs h.2⟩

/-- "the same stored sample … in every container": two files of one codec written from the same ints read back alike -/
theorem keep_cross_container (w : Nat) (xs r1 r2 : List Int) (h1 : keepOk w xs r1 = true) (h2 : keepOk w xs r2 = true) : r1 = r2 := by
  rw [(keepOk_meaning w xs r1 h1).2.2, (keepOk_meaning w xs r2 h2).2.2]

theorem keepTop_low_zero (w : Nat) (x : Int) : keepTop w x % 2 ^ (32 - w) = 0 := by
  simp [keepTop, Int.mul_emod_left]

theorem keepTop_idem (w : Nat) (x : Int) : keepTop w (keepTop w x) = keepTop w x := by
  have hp : (2 : Int) ^ (32 - w) ≠ 0 := by
    have : (0 : Int) < 2 ^ (32 - w) := Int.pow_pos (by decide)
    omega
  simp [keepTop, asr, Int.mul_ediv_cancel _ hp]

/-- full width: nothing is cut -/
theorem keepTop_32 (x : Int) : keepTop 32 x = x := by simp [keepTop, asr]

/-- a 12-bit codec that keeps 16 bits is rejected (0x12345678 must come back as 0x12300000, not 0x12340000) -/
theorem keep_rejects_wider : keepOk 12 [0x12345678] [0x12340000] = false ∧ keepOk 12 [0x12345678] [0x12300000] = true ∧
    keepOk 16 [0x12345678] [0x12340000] = true := by decide

/-- non-vacuity of `keepOk_meaning` / `keep_cross_container`: negative values, low bits set -/
example : keepOk 12 [0x7FFFFFFF, -1, 0x000FFFFF, -0x12345679] [0x7FF00000, -0x100000, 0, -0x12400000] = true := by decide
example : keepOk 24 [0x7FFFFFFF, -1] [0x7FFFFF00, -0x100] = true := by decide

/-! ## the VOC model carries the specification's labels -/

open Sf.Small2 in
theorem voc_hdr_prefix_length (c : Voc.Cfg) (f : Fields) (h : c.codec ≠ 5) :
    ∃ pre, pre.length = 36 ∧ Voc.hdr c f = pre ++ (le16 (Voc.encOf c.codec) ++ le32 0) := by
  refine ⟨Voc.fileHdr ++ [9] ++ Voc.le24 (wrapS 32 (f.frames * c.ch * Voc.bytewidth c.codec + 12)) ++ le32 c.sr ++
      [if c.codec = 2 then 16 else 8, c.ch], ?_, ?_⟩
  · have h1 : Voc.fileHdr.length = 26 := by decide
    simp [h1, Voc.le24, le32, leBytes_length]
  · simp [Voc.hdr, h, List.append_assoc]

/-- `voc_write_header`: bytes 36, 37 of a type 9 header are the specification's encoding number, for every codec VOC stores that way -/
theorem voc_writes_spec_label (c : Voc.Cfg) (f : Small2.Fields) (h : c.codec = 2 ∨ c.codec = 0x10 ∨ c.codec = 0x11) :
    ∃ v, spec 0x08 c.codec false = some (.num v) ∧ ((Voc.hdr c f).drop 36).take 2 = Small2.le16 v := by
  have h5 : c.codec ≠ 5 := by omega
  obtain ⟨pre, hl, he⟩ := voc_hdr_prefix_length c f h5
  have hlen : (Small2.le16 (Voc.encOf c.codec)).length = 2 := leBytes_length 2 _
  refine ⟨Voc.encOf c.codec, ?_, ?_⟩
  · rcases h with h | h | h <;> simp [spec, vocEnc, Voc.encOf, h]
  · rw [he, List.drop_append_of_le_length (by omega), show 36 = pre.length from hl.symm]
    simp [hlen]

/-- non-vacuity: an A-law configuration; bytes 36, 37 of its header are 06 00 -/
example : ∃ v, spec 0x08 0x11 false = some (.num v) ∧
    ((Voc.hdr { codec := 0x11, ch := 1, sr := 8000 } { filelength := 47, datalength := 4, frames := 4 }).drop 36).take 2 = Small2.le16 v :=
  voc_writes_spec_label { codec := 0x11, ch := 1, sr := 8000 } _ (Or.inr (Or.inr rfl))

/-- a type 9 block whose encoding field is `e`, 8 bits, one channel, 8000 Hz, 4 audio bytes + terminator -/
def vocFile (e : Nat) : List Byte :=
  Voc.fileHdr ++ [9] ++ Voc.le24 16 ++ Small2.le32 8000 ++ [8, 1] ++ Small2.le16 e ++ Small2.le32 0 ++ [1, 2, 3, 4] ++ [0]

/-- `voc_read_header`: the specification's labels select the specification's codecs … -/
theorem voc_reads_spec_label :
    Voc.readBlock (vocFile 6) = .ok 1 0x11 1 8000 42 46 ∧ spec 0x08 0x11 false = some (.num 6) ∧
    Voc.readBlock (vocFile 7) = .ok 1 0x10 1 8000 42 46 ∧ spec 0x08 0x10 false = some (.num 7) ∧
    Voc.readBlock (vocFile 4) = .ok 1 0x02 2 8000 42 46 ∧ spec 0x08 0x02 false = some (.num 4) := by decide

/-- … and not each other's: A-law data labelled 7 is not A-law to any reader of the format -/
theorem voc_label_swap_rejected :
    Voc.readBlock (vocFile 7) ≠ .ok 1 0x11 1 8000 42 46 ∧ Voc.readBlock (vocFile 6) ≠ .ok 1 0x10 1 8000 42 46 := by decide

/-! ## WAVEX -/

/-- the first field of the sub-format GUID the WAVEX model writes is the WAVE format tag of the table, for every encoding WAVEX carries -/
theorem wavex_guid_is_wave_tag : ∀ codec ∈ Wavex.codecs, spec 0x13 codec false = some (.num (Wavex.guidTag codec)) := by decide

end Sf.Label
