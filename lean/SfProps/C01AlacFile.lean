-- properties: C01 C06
/-
  C01 (CAF/ALAC) — write, close, re-open, read back, in the model: wrapper ∘ codec (round 7).  The wrapper of src/alac.c
  (SfModel/AlacFile.lean) cuts whatever the write calls hand over into packets of 4096 frames and a short final one
  (SfProofs/AlacWriter.lean `finish_inv`), the reader walks the packet table and the data region across packet boundaries
  (SfProofs/AlacStream.lean `readLoop_stream`); with a codec core whose decoder inverts its encoder on every packet
  (`CodecOk`; for the real core: `alac_lossless_exact` + `alac_encode_state_ok` of SfProps/C01AlacLosslessAll.lean) every
  partition of reads of the re-opened file delivers the frames written, in order.  Property theorems only.
-/
import SfProofs.AlacStream
import SfProofs.AlacWriter
import SfModel.AlacCodec
import SfProps.C06AlacStream
import SfProps.C01AlacLosslessAll
namespace Sf.C01AlacFile
open Sf Sf.Alac Sf.AlacStream Sf.AlacWriter

variable {σ α : Type}

/-- what the wrapper needs of the codec core: from a state that satisfies the invariant `I`, a packet of 1 … 4096 frames that
    satisfy `P` is encoded into 1 … maxPacket bytes which decode to the same frames, and the new state satisfies `I` -/
structure CodecOk (cd : Codec σ α) (I : σ → Prop) (P : α → Prop) : Prop where
  init : I cd.init
  step : ∀ e b, I e → 0 < b.length → b.length ≤ fpb → (∀ x ∈ b, P x) →
    I (cd.enc e b).1 ∧ cd.dec (cd.enc e b).2 = b ∧ 0 < (cd.enc e b).2.length ∧ (cd.enc e b).2.length ≤ maxPacket

theorem encSeq_ok (cd : Codec σ α) (I : σ → Prop) (P : α → Prop) (hc : CodecOk cd I P) : ∀ (blocks : List (List α)) (e : σ), I e →
    (∀ b ∈ blocks, 0 < b.length ∧ b.length ≤ fpb ∧ ∀ x ∈ b, P x) →
    streamOf cd (encSeq cd e blocks) = blocks.flatten ∧ ∀ p ∈ encSeq cd e blocks, 0 < p.length ∧ p.length ≤ maxPacket
  | [], _, _, _ => ⟨rfl, by simp [encSeq]⟩
  | b :: bs, e, he, h => by
    obtain ⟨h1, h2, h3⟩ := h b (by simp)
    obtain ⟨s1, s2, s3, s4⟩ := hc.step e b he h1 h2 h3
    obtain ⟨i1, i2⟩ := encSeq_ok cd I P hc bs _ s1 (fun b' hb' => h b' (by simp [hb']))
    refine ⟨?_, ?_⟩
    · simp only [encSeq, streamOf_cons, i1, s2, List.flatten_cons]
    · intro p hp
      simp only [encSeq, List.mem_cons] at hp
      rcases hp with rfl | hp
      · exact ⟨s3, s4⟩
      · exact i2 p hp

/-- C01 for ALAC in the model, wrapper ∘ codec: for every list of write calls whose frames satisfy `P`, the data region and
    the packet table `alac_close` leaves are such that a reader started on them (table = the written sizes, plus the zero
    entry when the 'pakt' chunk was padded) delivers, for EVERY sequence of read calls, the frames written in order: the
    k-th call gets the k-th piece, across packet boundaries, and reading N = (number of frames written) frames returns
    exactly what was written -/
theorem alac_file_roundtrip (cd : Codec σ α) (I : σ → Prop) (P : α → Prop) (hc : CodecOk cd I P) (calls : List (List α))
    (hP : ∀ c ∈ calls, ∀ x ∈ c, P x) (extra : List Nat) (hx : extra = [] ∨ extra = [0]) (r : R α)
    (hs : r.sizes = (finish cd (writeCalls cd (W.init cd) calls)).sizes ++ extra) (h0 : r.cur = 0 ∧ r.inPos = 0 ∧ r.ftb = 0)
    (lens : List Nat) :
    let io := fileIO (finish cd (writeCalls cd (W.init cd) calls)).tmp
    (lens.foldl (fun (acc : R α × List α) len => ((readCall cd io acc.1 len).1, acc.2 ++ (readCall cd io acc.1 len).2)) (r, [])).2
      = calls.flatten.take lens.sum ∧
    (readCall cd io r calls.flatten.length).2 = calls.flatten ∧
    (writeCalls cd (W.init cd) calls).frames = calls.flatten.length := by
  intro io
  obtain ⟨blocks, ht, hsz, hfl, hb, hfr⟩ := finish_inv cd calls
  have hPb : ∀ b ∈ blocks, 0 < b.length ∧ b.length ≤ fpb ∧ ∀ x ∈ b, P x := by
    intro b hbm
    refine ⟨(hb b hbm).1, (hb b hbm).2, fun x hx' => ?_⟩
    have : x ∈ calls.flatten := by rw [← hfl]; exact List.mem_flatten.mpr ⟨b, hbm, hx'⟩
    obtain ⟨c, hcm, hxc⟩ := List.mem_flatten.mp this
    exact hP c hcm x hxc
  obtain ⟨hst, hpk⟩ := encSeq_ok cd I P hc blocks cd.init hc.init hPb
  have hg : Good (encSeq cd cd.init blocks) extra := ⟨hpk, hx⟩
  have hs' : r.sizes = sizesOf (encSeq cd cd.init blocks) extra := by rw [hs, hsz]; rfl
  have hat := Sf.C06AlacStream.fresh_at_zero cd (encSeq cd cd.init blocks) r h0.1 h0.2.1 h0.2.2
  have hio : io = fileIO (encSeq cd cd.init blocks).flatten := by show fileIO _ = _; rw [ht]
  refine ⟨?_, ?_, hfr⟩
  · rw [hio, Sf.C06AlacStream.read_sequence_cross_packet cd _ extra hg lens r 0 hs' hat, hst, hfl]; rfl
  · rw [hio, (Sf.C06AlacStream.read_stream_cross_packet cd _ extra hg r _ 0 hs' hat).1, hst, hfl]
    simp only [List.drop_zero, List.take_length]

/-- the real codec core satisfies `CodecOk` as far as its statement is proved: decode ∘ encode = id on every packet of
    in-range samples from every reachable encoder state (`alac_lossless_exact`, `alac_encode_state_ok`); the packet size bounds
    (at least one byte, at most ALAC_MAX_CHANNEL_COUNT * ALAC_BYTE_BUFFER_SIZE) are the hypothesis `hsize` -/
theorem coreCodec_ok (cfg : Sf.AlacCore.Config) (hd : Sf.AlacCore.Depth cfg.bitDepth) (hc1 : 1 ≤ cfg.numChannels) (hc8 : cfg.numChannels ≤ 8)
    (hmb : cfg.mb = 10) (hpb : cfg.pb = 40) (hkb : cfg.kb = 14)
    (hsize : ∀ st fr, 0 < (Sf.AlacCore.encode cfg st fr).1.length ∧ (Sf.AlacCore.encode cfg st fr).1.length ≤ maxPacket) :
    CodecOk (Sf.AlacCore.coreCodec cfg) Sf.AlacCore.AllOk
      (fun f => f.length = cfg.numChannels ∧ ∀ x ∈ f, Sf.AlacCore.InRange cfg.bitDepth x) where
  init := Sf.AlacCore.init_allOk cfg.numChannels
  step := fun e b he _ h2 h3 =>
    ⟨Sf.AlacCore.alac_encode_state_ok cfg e he b,
     Sf.AlacCore.alac_lossless_exact cfg hd hc1 hc8 hmb hpb hkb e he b (by simpa [fpb] using h2) h3,
     (hsize e b).1, (hsize e b).2⟩

/-- C01 for ALAC end to end in the model (wrapper ∘ real core): every depth, 1 … 8 channels, every list of write calls of
    in-range samples; close; a reader on the written table and data region; reading N frames returns the samples written -/
theorem alac_core_file_roundtrip (cfg : Sf.AlacCore.Config) (hd : Sf.AlacCore.Depth cfg.bitDepth) (hc1 : 1 ≤ cfg.numChannels) (hc8 : cfg.numChannels ≤ 8)
    (hmb : cfg.mb = 10) (hpb : cfg.pb = 40) (hkb : cfg.kb = 14)
    (hsize : ∀ st fr, 0 < (Sf.AlacCore.encode cfg st fr).1.length ∧ (Sf.AlacCore.encode cfg st fr).1.length ≤ maxPacket)
    (calls : List (List (List Int))) (hP : ∀ c ∈ calls, ∀ f ∈ c, f.length = cfg.numChannels ∧ ∀ x ∈ f, Sf.AlacCore.InRange cfg.bitDepth x)
    (extra : List Nat) (hx : extra = [] ∨ extra = [0]) (r : R (List Int))
    (hs : r.sizes = (finish (Sf.AlacCore.coreCodec cfg) (writeCalls (Sf.AlacCore.coreCodec cfg) (W.init (Sf.AlacCore.coreCodec cfg)) calls)).sizes ++ extra)
    (h0 : r.cur = 0 ∧ r.inPos = 0 ∧ r.ftb = 0) :
    (readCall (Sf.AlacCore.coreCodec cfg)
      (fileIO (finish (Sf.AlacCore.coreCodec cfg) (writeCalls (Sf.AlacCore.coreCodec cfg) (W.init (Sf.AlacCore.coreCodec cfg)) calls)).tmp)
      r calls.flatten.length).2 = calls.flatten :=
  (alac_file_roundtrip _ _ _ (coreCodec_ok cfg hd hc1 hc8 hmb hpb hkb hsize) calls hP extra hx r hs h0 []).2.1

/-- non-vacuity: a codec that stores one byte per frame satisfies `CodecOk` for frames below 256; two calls (3 + 2 frames) are
    read back as 2 + 9 frames -/
example :
    let cd : Codec Unit Nat := { init := (), enc := fun _ st => ((), st), dec := fun p => p }
    let w := finish cd (writeCalls cd (W.init cd) [[1, 2, 3], [4, 5]])
    let r0 : R Nat := { sizes := w.sizes ++ [0] }
    w.sizes = [5] ∧ (readCall cd (fileIO w.tmp) r0 2).2 = [1, 2] ∧
      (readCall cd (fileIO w.tmp) (readCall cd (fileIO w.tmp) r0 2).1 9).2 = [3, 4, 5] := by
  refine ⟨by decide +kernel, by decide +kernel, by decide +kernel⟩

end Sf.C01AlacFile
