/-
  C15 — "data the I/O layer accepted before the failure is not corrupted by later calls": the seek latch.

  KF-C15-HEADER-POSITION (repaired, round 8).  Every header writer is `psf_fseek (psf, 0, SEEK_SET)` … build the header …
  `psf_fwrite (header)` … `psf_fseek (psf, current, SEEK_SET)`, with both seek results ignored.  Since the repair psf_fseek
  records a failure (`Sf.Faults.seekFailed`, a function of the callback history) and psf_fwrite makes no callback while the
  latch is set.  Theorems, over the memory store of the harness under ANY fault (kind, point, persistent or single-shot):
    * `header_write_contained`      au_write_header / wav_write_header change no byte at or behind the header length
    * `write_refused_after_failed_seek`   a codec write loop that starts with the latch set transfers nothing (every oracle)
    * `failed_seek_latches` / `good_seek_unlatches` / `latch_only_moved_by_seeks`
    * `header_over_audio_old_rule`  the rule before the repair (`fwriteOld`): the AU header lands on accepted audio
-/
import SfProofs.Faults
import SfProofs.CodecWriter
import SfProps.C15
namespace Sf.C15
open Sf Sf.Faults

/-! ### the store behind `memOracle` -/

/-- bytes of the store after a history -/
def bytesAfter (f : Fault) (m0 : Mem) (hist : Hist) : List Byte := (memAfter f m0 hist).bytes

theorem memAfter_cons (f : Fault) (m0 : Mem) (r : Req) (a : Ans) (hist : Hist) :
    memAfter f m0 ((r, a) :: hist) = (memStep f (memAfter f m0 hist) r).2 := rfl

theorem memStep_len_bytes (f : Fault) (m : Mem) : (memStep f m .len).2.bytes = m.bytes := by
  simp only [memStep]; (repeat' split) <;> rfl
theorem memStep_tell_bytes (f : Fault) (m : Mem) : (memStep f m .tell).2.bytes = m.bytes := by
  simp only [memStep]; (repeat' split) <;> rfl
theorem memStep_seek_bytes (f : Fault) (m : Mem) (off : Int) (wh : Nat) : (memStep f m (.seek off wh)).2.bytes = m.bytes := by
  simp only [memStep]; (repeat' split) <;> rfl
theorem memStep_read_bytes (f : Fault) (m : Mem) (n : Nat) : (memStep f m (.read n)).2.bytes = m.bytes := by
  simp only [memStep]; (repeat' split) <;> rfl

theorem ioTell_bytes (f : Fault) (m0 : Mem) (hist : Hist) :
    bytesAfter f m0 (ioTell (memOracle f m0) hist).2 = bytesAfter f m0 hist := by
  simp only [bytesAfter, ioTell, call, memAfter_cons, memStep_tell_bytes]
theorem ioLen_bytes (f : Fault) (m0 : Mem) (hist : Hist) :
    bytesAfter f m0 (ioLen (memOracle f m0) hist).2 = bytesAfter f m0 hist := by
  simp only [bytesAfter, ioLen, call, memAfter_cons, memStep_len_bytes]
theorem ioSeek_bytes (f : Fault) (m0 : Mem) (hist : Hist) (off : Int) (wh : Nat) :
    bytesAfter f m0 (ioSeek (memOracle f m0) hist off wh).2 = bytesAfter f m0 hist := by
  simp only [bytesAfter, ioSeek, call, memAfter_cons, memStep_seek_bytes]

/-- a seek to offset 0 of the store either reports failure (−1, position unchanged) or puts the store at offset 0 -/
theorem memStep_seek0 (f : Fault) (m : Mem) :
    ((memStep f m (.seek 0 0)).1.n = -1) ∨ ((memStep f m (.seek 0 0)).1.n = 0 ∧ (memStep f m (.seek 0 0)).2.pos = 0) := by
  simp only [memStep]
  split
  · left; rfl
  · right; simp

theorem writeAt_zero_drop_ge (bs d : List Byte) (L : Nat) (hd : d.length ≤ L) : (writeAt bs 0 d).drop L = bs.drop L := by
  have h1 : (writeAt bs 0 d).drop L = ((writeAt bs 0 d).drop d.length).drop (L - d.length) := by
    rw [List.drop_drop]; congr 1; omega
  rw [h1, writeAt_zero_drop, List.drop_drop]; congr 1; omega

/-- what a write callback does to the bytes of the store: nothing, or a prefix of the data at the current position -/
theorem memStep_write_bytes (f : Fault) (m : Mem) (d : List Byte) :
    (memStep f m (.write d)).2.bytes = m.bytes ∨ ∃ k, (memStep f m (.write d)).2.bytes = writeAt m.bytes m.pos (d.take k) := by
  simp only [memStep]
  generalize (if f.now (m.calls + 1) = true then shorten f.kind d.length else (d.length, false)) = c
  by_cases h2 : c.2 = true
  · simp only [h2, if_true]
    by_cases h3 : (d.take c.1).isEmpty = true
    · simp only [h3, if_true]; left; trivial
    · simp only [h3]; right; exact ⟨c.1, rfl⟩
  · simp only [h2]
    by_cases h3 : (d.take c.1).isEmpty = true
    · simp only [h3, if_true]; left; trivial
    · simp only [h3]; right; exact ⟨c.1, rfl⟩

/-- one write callback at store offset 0 with at most `L` bytes changes nothing at or behind offset `L` -/
theorem memStep_write_at0 (f : Fault) (m : Mem) (d : List Byte) (L : Nat) (hp : m.pos = 0) (hd : d.length ≤ L) :
    (memStep f m (.write d)).2.bytes.drop L = m.bytes.drop L := by
  rcases memStep_write_bytes f m d with h | ⟨k, h⟩
  · rw [h]
  · rw [h, hp]
    exact writeAt_zero_drop_ge _ _ _ (Nat.le_trans (by simp [List.length_take]; exact Nat.min_le_right _ _) hd)

/-! ### the latch -/

/-- a psf_fseek whose callback answers with a negative value sets the latch, any other answer clears it (every oracle) -/
theorem failed_seek_latches (o : Oracle) (hist : Hist) (off : Int) (wh : Nat) :
    seekFailed (ioSeek o hist off wh).2 = true ↔ (ioSeek o hist off wh).1 < 0 := by
  simp [ioSeek, call, seekFailed]

theorem good_seek_unlatches (o : Oracle) (hist : Hist) (off : Int) (wh : Nat) (h : 0 ≤ (ioSeek o hist off wh).1) :
    seekFailed (ioSeek o hist off wh).2 = false := by
  have := failed_seek_latches o hist off wh
  cases hs : seekFailed (ioSeek o hist off wh).2
  · rfl
  · have := this.1 hs; omega

/-- nothing but a psf_fseek moves the latch: tell, length, read and write callbacks leave it as it is -/
theorem latch_only_moved_by_seeks (o : Oracle) (hist : Hist) (w n : Nat) (d : List Byte) :
    seekFailed (ioTell o hist).2 = seekFailed hist ∧ seekFailed (ioLen o hist).2 = seekFailed hist ∧
    seekFailed (fread o hist w n).2.2 = seekFailed hist ∧ seekFailed (fwrite o hist w n d).2 = seekFailed hist := by
  refine ⟨rfl, rfl, ?_, fwrite_keeps_latch o hist w n d⟩
  unfold fread; split <;> rfl

/-- FULL STATEMENT (every oracle, every sample-granular codec, every caller type): a write call whose codec loop starts with the
    latch set -- the seek back from a header rewrite failed, or sf_seek's own seek -- makes NO callback and reports 0 items:
    the audio is not written at the wrong place.  (Before the repair it was written wherever the file position was.) -/
theorem write_refused_after_failed_seek (o : Oracle) (h : H) (hist : Hist) (ty : Ty) (fc : Bool) (len : Int) (data : List Int)
    (hl : seekFailed hist = true) :
    (writeTail o h hist ty fc len data).hist = hist ∧ (writeTail o h hist ty fc len data).out.ret = 0 ∧
    (writeTail o h hist ty fc len data).h.wpos = h.wpos := by
  have hw := writeLoop_latched o h.nb (stageLen h.enc ty true) (h.enc.encodeAll h.conv ty (data.take len.toNat)) len.toNat hist 0 0 hl
  refine ⟨?_, ?_, ?_⟩
  · unfold writeTail; exact hw.2
  · unfold writeTail
    simp only [hw.1, wholeFrames]
    cases fc <;> simp
  · unfold writeTail
    simp only [hw.1]
    simp

/-! ### header rewrites stay inside the header -/

/-- `psf_fseek (psf, 0, SEEK_SET) ; psf_fwrite (header, len, 1)` on the store under ANY fault: no byte at or behind `len` changes.
    Either the seek fails (latch: no write callback at all) or the store is at offset 0 when the header bytes arrive. -/
theorem seek0_write_contained (f : Fault) (m0 : Mem) (hist : Hist) (hdr : List Byte) :
    (bytesAfter f m0 (fwrite (memOracle f m0) (ioSeek (memOracle f m0) hist 0 0).2 hdr.length 1 hdr).2).drop hdr.length
      = (bytesAfter f m0 hist).drop hdr.length := by
  have hs := ioSeek_bytes f m0 hist 0 0
  unfold fwrite
  split
  · rw [hs]
  · split
    · rw [hs]
    · rename_i hnl
      simp only [call, bytesAfter, memAfter_cons]
      have hm1 : memAfter f m0 (ioSeek (memOracle f m0) hist 0 0).2 = (memStep f (memAfter f m0 hist) (.seek 0 0)).2 := rfl
      have hn : ¬ ((memStep f (memAfter f m0 hist) (.seek 0 0)).1.n < 0) := by
        intro hneg
        apply hnl
        simp only [ioSeek, call, seekFailed, memOracle]
        exact decide_eq_true hneg
      rw [hm1]
      rcases memStep_seek0 f (memAfter f m0 hist) with h1 | ⟨_, h2⟩
      · exfalso; apply hn; rw [h1]; decide
      · rw [memStep_write_at0 f _ hdr hdr.length h2 (Nat.le_refl _), memStep_seek_bytes]

/-- length of the header `xxx_write_header` builds for a handle (AU: 24 bytes; WAV: by format tag, fact and PEAK chunk) -/
def headerLen (h : H) : Nat :=
  match h.container with
  | .raw => 0
  | .au => 24
  | .wav => wavHdrLen h

/-- FULL STATEMENT for the modelled header writers (au_write_header, wav_write_header; first header, SFC_UPDATE_HEADER_NOW,
    auto-update and close), the memory store under ANY fault -- any kind, any point, persistent or single-shot, seek failures
    included: a header rewrite changes no byte of the store at or behind the header length.  With `dataoffset = headerLen` these
    are exactly the audio bytes: what the I/O layer accepted is not touched by the header. -/
theorem header_write_contained (f : Fault) (m0 : Mem) (h : H) (hist : Hist) (calcLen : Bool) :
    (bytesAfter f m0 (Faults.writeHeader (memOracle f m0) h hist calcLen).2.2).drop (headerLen h) = (bytesAfter f m0 hist).drop (headerLen h) := by
  unfold Faults.writeHeader headerLen
  cases hcont : h.container
  · simp only []
  · -- AU
    simp only []
    have hb : ∀ (hh : H) (hist1 : Hist),
        List.drop 24 (bytesAfter f m0 (fwrite (memOracle f m0) (ioSeek (memOracle f m0) hist1 0 0).2 (auHeader hh).length 1 (auHeader hh)).2)
          = List.drop 24 (bytesAfter f m0 hist1) := by
      intro hh hist1
      have h1 := seek0_write_contained f m0 hist1 (auHeader hh)
      have e : (auHeader hh).length = 24 := auHeader_length hh
      conv at h1 => lhs; arg 1; rw [e]
      conv at h1 => rhs; arg 1; rw [e]
      exact h1
    cases calcLen
    · simp only [Bool.false_eq_true, if_false]
      (repeat' split) <;> simp only [ioSeek_bytes, hb, ioTell_bytes]
    · simp only [if_true]
      (repeat' split) <;> simp only [ioSeek_bytes, hb, ioLen_bytes, ioTell_bytes]
  · -- WAV
    simp only []
    have hb : ∀ (hh : H) (hist1 : Hist), wavHdrLen hh = wavHdrLen h →
        List.drop (wavHdrLen h) (bytesAfter f m0 (fwrite (memOracle f m0) (ioSeek (memOracle f m0) hist1 0 0).2 (wavHeader hh).length 1 (wavHeader hh)).2)
          = List.drop (wavHdrLen h) (bytesAfter f m0 hist1) := by
      intro hh hist1 hlen
      have h1 := seek0_write_contained f m0 hist1 (wavHeader hh)
      have e : (wavHeader hh).length = wavHdrLen h := by rw [wavHeader_length, hlen]
      conv at h1 => lhs; arg 1; rw [e]
      conv at h1 => rhs; arg 1; rw [e]
      exact h1
    cases calcLen
    · simp only [Bool.false_eq_true, if_false]
      (repeat' split) <;>
        (simp only [ioSeek_bytes]; rw [hb]; simp only [ioSeek_bytes, ioTell_bytes]; first | rfl | exact wavHdrLen_congr h _ rfl rfl rfl)
    · simp only [if_true]
      (repeat' split) <;>
        (simp only [ioSeek_bytes]; rw [hb]; simp only [ioSeek_bytes, ioLen_bytes, ioTell_bytes]; first | rfl | exact wavHdrLen_congr h _ rfl rfl rfl)

/-! ### the rule before the repair, and non-vacuity -/

/-- the rule before the repair (`fwriteOld`: psf_fwrite wrote wherever a failed seek had left the file): the store holds
    `[1,2,3,4,5,6]` and stands at offset 4, the seek to 0 fails (fault kind 3, first callback, single-shot), the 2-byte "header"
    `[9,9]` lands on offsets 4 and 5 -- bytes behind the header length change -/
theorem header_over_audio_old_rule :
    ∃ (f : Fault) (m0 : Mem) (hdr : List Byte),
      (bytesAfter f m0 (fwriteOld (memOracle f m0) (ioSeek (memOracle f m0) [] 0 0).2 hdr.length 1 hdr).2).drop hdr.length
        ≠ (bytesAfter f m0 []).drop hdr.length :=
  ⟨{ at_ := 1, kind := 3, single := true }, { bytes := [1, 2, 3, 4, 5, 6], pos := 4 }, [9, 9], by decide⟩

/-- the same schedule on the repaired psf_fwrite: no callback, nothing changes -/
example : bytesAfter { at_ := 1, kind := 3, single := true } { bytes := [1, 2, 3, 4, 5, 6], pos := 4 }
    (fwrite (memOracle { at_ := 1, kind := 3, single := true } { bytes := [1, 2, 3, 4, 5, 6], pos := 4 })
      (ioSeek (memOracle { at_ := 1, kind := 3, single := true } { bytes := [1, 2, 3, 4, 5, 6], pos := 4 }) [] 0 0).2 2 1 [9, 9]).2
    = [1, 2, 3, 4, 5, 6] := by decide

/-- the hypothesis of `write_refused_after_failed_seek` is met after any seek the I/O layer answers with −1 -/
example : seekFailed (ioSeek (fun _ _ => { n := -1 }) [] 44 0).2 = true := by decide
example : (writeTail (fun _ _ => { n := -1 }) wH0 (ioSeek (fun _ _ => { n := -1 }) [] 44 0).2 .s16 false 4 [1, 2, 3, 4]).out.ret = 0 :=
  (write_refused_after_failed_seek _ _ _ _ _ _ _ (by decide)).2.1

/-- an AU handle whose header rewrite meets a failing seek: the instance of `header_write_contained` (24 header bytes, 4 audio bytes) -/
def wHau : H := { wH0 with container := .au, enc := .pcm ⟨16, true, false⟩, big := true, mode := .w, dataoffset := 24, fmtWord := 0x030002 }
def wMau : Mem := { bytes := List.replicate 24 0 ++ [1, 2, 3, 4], pos := 28 }
example : seekFailed (ioSeek (memOracle { at_ := 2, kind := 3 } wMau) (ioTell (memOracle { at_ := 2, kind := 3 } wMau) []).2 0 0).2 = true := by decide
example : (bytesAfter { at_ := 2, kind := 3 } wMau (Faults.writeHeader (memOracle { at_ := 2, kind := 3 } wMau) wHau [] false).2.2).drop 24 = [1, 2, 3, 4] :=
  header_write_contained { at_ := 2, kind := 3 } wMau wHau [] false

end Sf.C15
