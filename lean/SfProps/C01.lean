/-
  C01 — lossless write/read round trip is bit exact.  Property theorems only
  (sample-granular encodings; containers RAW, AU, WAV).

  * `lossless`          : the decidable side condition of the property statement (SfProofs/Codec.lean).
  * `sample_roundtrip`  : one sample, any conversion settings at write and at read time.
  * `data_roundtrip`    : any number of samples (N ≥ 0; interleaving is transparent, so any channel count).
  * `file_roundtrip`    : open for write, any split into write calls, close: the data section of the file
                          (from the handle's data offset, for RAW the whole file) is the encoding of the
                          concatenated samples, and decodes back to them.
  The one floating-point fact used — widening binary32 to binary64 and narrowing back is the identity on finite
  values — is p-float's; it appears as the explicit hypothesis `WidenExact` and only for float-into-double.
-/
import SfProofs.CodecFile
import SfProps.C02
import SfProofs.FloatPcm
namespace Sf.C01
open Sf Sf.Float

/-- `Enc.wf` for PCM is C02's `PcmFmt.valid` -/
theorem pcm_wf_iff (p : PcmFmt) : (Enc.pcm p).wf ↔ C02.PcmFmt.valid p := Iff.rfl

/-- every encoding a RAW / AU / WAV handle can have is well formed and has a positive sample size -/
theorem enc_of_open_wf (c : Container) (codec : Nat) (big : Bool) (e : Enc) (h : encOf c codec big = some e) :
    0 < e.nbytes ∧ e.wf := encOf_props c codec big e h

/-! ## one sample -/

/-- A lossless (encoding, type, value) triple survives encode → decode exactly.  The conversion settings used for
    writing (`c`) and for reading (`c'`) are arbitrary and may differ: normalisation, clipping, int/float scaling
    and the lrint variant play no part in integer→PCM moves nor in float→float moves. -/
theorem sample_roundtrip (hwiden : WidenExact) (e : Enc) (he : e.wf) (c c' : Conv) (ty : Ty) (v : Int)
    (hv : ty.inRange v) (hl : lossless e ty v) : e.decode c' ty (e.encode c ty v) = v :=
  Enc.sample_roundtrip hwiden e he c c' ty v hv hl

/-- without any floating-point hypothesis: every pair except float-into-binary64 -/
theorem sample_roundtrip_nofloat (e : Enc) (he : e.wf) (c c' : Conv) (ty : Ty) (v : Int)
    (hv : ty.inRange v) (hl : lossless e ty v) (hne : ¬ ((∃ big, e = .dbl big) ∧ ty = .f32)) :
    e.decode c' ty (e.encode c ty v) = v :=
  Enc.sample_roundtrip_nowiden e he c c' ty v hv hl hne

/-- non-vacuity: short → 24-bit BE, int with 8 zero low bits → 24-bit LE, short multiple of 256 → unsigned 8,
    a float NaN pattern → binary32 data, a double → big-endian binary64; and a non-lossless value is rejected -/
example :
    lossless (.pcm ⟨24, false, true⟩) .s16 (-32768) ∧ Ty.inRange .s16 (-32768) ∧
    lossless (.pcm ⟨24, false, false⟩) .s32 (-2147483648 + 256) ∧
    lossless (.pcm ⟨8, true, false⟩) .s16 (-32768 + 256) ∧ ¬ lossless (.pcm ⟨8, true, false⟩) .s16 1 ∧
    lossless (.flt false) .f32 0x7FC00001 ∧ lossless (.dbl true) .f64 0xBFF0000000000001 ∧
    lossless (.dbl false) .f32 0x3F800000 ∧
    (Enc.pcm ⟨8, true, false⟩).encode {} .s16 (-32768 + 256) = [1] ∧
    (Enc.pcm ⟨8, true, false⟩).decode {} .s16 [1] = -32768 + 256 := by
  decide

/-! ## a stream of samples -/

/-- every encoded sample has exactly `nbytes` bytes -/
theorem encode_length_cw (e : Enc) (c : Conv) (ty : Ty) (v : Int) : (e.encode c ty v).length = e.nbytes :=
  Enc.encode_length_cw e c ty v

/-- any number of samples N ≥ 0 (frames × channels: interleaving is transparent to the codec) -/
theorem data_roundtrip (hwiden : WidenExact) (e : Enc) (he : e.wf) (hn : 0 < e.nbytes) (c c' : Conv) (ty : Ty)
    (vs : List Int) (hv : ∀ v ∈ vs, ty.inRange v) (hl : ∀ v ∈ vs, lossless e ty v) :
    e.decodeAll c' ty (e.encodeAll c ty vs) = vs :=
  Enc.decodeAll_encodeAll_of e hn c c' ty vs
    (fun v hm => Enc.sample_roundtrip hwiden e he c c' ty v (hv v hm) (hl v hm))

theorem data_roundtrip_nofloat (e : Enc) (he : e.wf) (hn : 0 < e.nbytes) (c c' : Conv) (ty : Ty)
    (vs : List Int) (hv : ∀ v ∈ vs, ty.inRange v) (hl : ∀ v ∈ vs, lossless e ty v)
    (hne : ¬ ((∃ big, e = .dbl big) ∧ ty = .f32)) :
    e.decodeAll c' ty (e.encodeAll c ty vs) = vs :=
  Enc.decodeAll_encodeAll_of e hn c c' ty vs
    (fun v hm => Enc.sample_roundtrip_nowiden e he c c' ty v (hv v hm) (hl v hm) hne)

example : (Enc.pcm ⟨16, false, true⟩).decodeAll {} .s16 ((Enc.pcm ⟨16, false, true⟩).encodeAll {} .s16 [1, -1, 32767, -32768, 0])
    = [1, -1, 32767, -32768, 0] := by decide

/-! ## a file -/

/-- Open (RAW / AU / WAV) for write, hand over samples of type `ty` in any number of well-formed calls (items or
    frames variants, zero counts, SFC_UPDATE_HEADER_NOW in between), close.  Then the file exists, its data
    section — `N·bytewidth` bytes from the data offset the handle had all along — is exactly the encoding of the
    concatenated samples; for RAW and AU nothing follows it, for RAW the data section is the whole file. -/
theorem file_roundtrip_bytes (fmt : Nat) (ch sr : Int) (h : H) (s : Store) (ho : openHandle 0 {} .w fmt ch sr = .ok h s)
    (ty : Ty) (ops : List WOp) (hok : ∀ op ∈ ops, op.ok h) (ht : ∀ op ∈ ops, op.hasTy ty) :
    ∃ file hd tl, closeBytes fmt ch sr ops = some file ∧
      file = hd ++ h.enc.encodeAll {} ty (ops.flatMap WOp.samples) ++ tl ∧
      hd.length = hdrLenOf h ∧ (h.dataoffset : Int) = hdrLenOf h ∧
      (h.container ≠ .wav → tl = []) ∧ (h.container = .raw → hd = []) := by
  obtain ⟨inv, _⟩ := open_winv 0 {} rfl fmt ch sr h s ho
  obtain ⟨_, _, hconv, _⟩ := open_props 0 {} fmt ch sr h s ho
  have e := closeBytes_eq fmt ch sr h s ho ops hok
  rw [ops_bytes_eq _ _ ty ops ht, hconv] at e
  obtain ⟨hd, tl, e2, l, t⟩ := closeForm_split ({ h with
      frames := ((h.enc.encodeAll {} ty (ops.flatMap WOp.samples)).length : Int) / ((h.enc.nbytes * h.ch : Nat) : Int),
      peak := peakRun h.enc {} h.ch h.peak 0 ops } : H) (h.enc.encodeAll {} ty (ops.flatMap WOp.samples))
  have hl : hdrLenOf ({ h with
      frames := ((h.enc.encodeAll {} ty (ops.flatMap WOp.samples)).length : Int) / ((h.enc.nbytes * h.ch : Nat) : Int),
      peak := peakRun h.enc {} h.ch h.peak 0 ops } : H) = hdrLenOf h :=
    hdrLenOf_congr h _ rfl rfl rfl (peakRun_maplen _ _ _ ops h.peak 0 inv.peak_len)
  refine ⟨_, hd, tl, e, e2, by rw [l, hl], inv.doff, t, ?_⟩
  intro hc
  have : hdrLenOf h = 0 := by simp [hdrLenOf, hc]
  exact List.eq_nil_of_length_eq_zero (by rw [l, hl, this])

/-- … and that data section decodes (any read-side conversion settings) to exactly the samples written,
    whenever every sample is lossless for the encoding: bit-exact round trip through the file bytes. -/
theorem file_roundtrip (hwiden : WidenExact) (fmt : Nat) (ch sr : Int) (h : H) (s : Store)
    (ho : openHandle 0 {} .w fmt ch sr = .ok h s)
    (ty : Ty) (ops : List WOp) (hok : ∀ op ∈ ops, op.ok h) (ht : ∀ op ∈ ops, op.hasTy ty)
    (hv : ∀ v ∈ ops.flatMap WOp.samples, ty.inRange v) (hl : ∀ v ∈ ops.flatMap WOp.samples, lossless h.enc ty v)
    (c' : Conv) :
    ∃ file, closeBytes fmt ch sr ops = some file ∧
      h.enc.decodeAll c' ty ((file.drop (hdrLenOf h)).take ((ops.flatMap WOp.samples).length * h.enc.nbytes))
        = ops.flatMap WOp.samples := by
  obtain ⟨file, hd, tl, e, ef, l, _, _, _⟩ := file_roundtrip_bytes fmt ch sr h s ho ty ops hok ht
  obtain ⟨hnb, hwf, _⟩ := open_props 0 {} fmt ch sr h s ho
  refine ⟨file, e, ?_⟩
  rw [ef, ← l, List.append_assoc, List.drop_left' rfl, ← Enc.encodeAll_length_cw h.enc {} ty, List.take_left' rfl]
  exact data_roundtrip hwiden h.enc hwf hnb {} c' ty _ hv hl

/-- non-vacuity: stereo 24-bit big-endian AU, shorts, three calls incl. a frames call and a header update -/
example :
    (closeBytes 0x030003 2 48000 [.write .s16 true 1 [1, -1], .updHeader 0, .write .s16 false 2 [32767, -32768]]).map
      (fun f => (Enc.pcm ⟨24, false, true⟩).decodeAll {} .s16 ((f.drop 24).take 12)) = some [1, -1, 32767, -32768] := by
  decide +kernel

/-! ## re-open (the parser side belongs to C04; RAW, which has no header, is done here) -/

/-- RAW: the closed file, re-opened for read with the same parameters, has exactly the N frames that were written,
    data offset 0, the same encoding, and its whole content decodes to the written samples. -/
theorem file_roundtrip_raw_reopen (hwiden : WidenExact) (fmt : Nat) (ch sr : Int) (h : H) (s : Store)
    (ho : openHandle 0 {} .w fmt ch sr = .ok h s) (hc : h.container = .raw)
    (ty : Ty) (ops : List WOp) (hok : ∀ op ∈ ops, op.ok h) (ht : ∀ op ∈ ops, op.hasTy ty)
    (hv : ∀ v ∈ ops.flatMap WOp.samples, ty.inRange v) (hl : ∀ v ∈ ops.flatMap WOp.samples, lossless h.enc ty v)
    (c' : Conv) (si : Nat) :
    ∃ file h' s', closeBytes fmt ch sr ops = some file ∧
      openHandle si { bytes := file, pos := 0 } .r fmt ch sr = .ok h' s' ∧
      h'.frames * h.ch = (ops.flatMap WOp.samples).length ∧ h'.dataoffset = 0 ∧ h'.enc = h.enc ∧ h'.ch = h.ch ∧
      s'.bytes = file ∧ h'.enc.decodeAll c' ty file = ops.flatMap WOp.samples := by
  obtain ⟨file, hd, tl, e, ef, _, _, htl, hhd⟩ := file_roundtrip_bytes fmt ch sr h s ho ty ops hok ht
  obtain ⟨hnb, hwf, _⟩ := open_props 0 {} fmt ch sr h s ho
  obtain ⟨inv, _⟩ := open_winv 0 {} rfl fmt ch sr h s ho
  have hfile : file = h.enc.encodeAll {} ty (ops.flatMap WOp.samples) := by
    rw [ef, htl (by rw [hc]; decide), hhd hc]; simp
  obtain ⟨h', s', ho', hf, hd0, he, hch, _, _, hs'⟩ := reopen_raw fmt ch sr h s ho hc si file 0
  refine ⟨file, h', s', e, ho', ?_, hd0, he, hch, by rw [hs'], ?_⟩
  · have hm := ops_samples_mod h ops hok
    have hcp : (h.ch : Int) ≠ 0 := by have := inv.ch_pos; omega
    have hnp : (h.enc.nbytes : Int) ≠ 0 := by omega
    obtain ⟨k, hk⟩ := Int.dvd_of_emod_eq_zero hm
    have hb : ((h.enc.nbytes : Int) * (h.ch : Int)) ≠ 0 := Int.mul_ne_zero hnp hcp
    rw [hf, hfile, Enc.encodeAll_length_cw]
    push_cast
    rw [hk, show (h.ch : Int) * k * (h.enc.nbytes : Int) = k * ((h.enc.nbytes : Int) * (h.ch : Int)) by
      rw [Int.mul_comm (h.ch : Int) k, Int.mul_assoc, Int.mul_comm (h.ch : Int)], Int.mul_ediv_cancel _ hb,
      Int.mul_comm]
  · rw [he, hfile]
    exact data_roundtrip hwiden h.enc hwf hnb {} c' ty _ hv hl

end Sf.C01

/-! ## the float hypothesis is discharged by the C02 floating-point lemmas -/
namespace Sf.C01
open Sf Sf.Float

/-- `WidenExact` holds: widening a finite binary32 pattern is exact and narrows back to it (SfProofs/Float*). -/
theorem widenExact : WidenExact := by
  intro b hb hfin
  refine ⟨?_, Sf.Float.f64to32_f32to64 b hb hfin⟩
  have h : f32to64 b = f64.ofDy (f32.toDy b) := by simp [f32to64, hfin]
  rw [h]
  have := Sf.Float.ofDy_lt_width f64 (Or.inr rfl) (f32.toDy b)
  simpa [Fmt.width, f64] using this

/-- C01 per sample, with no hypothesis left -/
theorem sample_roundtrip_all (e : Enc) (he : e.wf) (c c' : Conv) (ty : Ty) (v : Int)
    (hv : ty.inRange v) (hl : lossless e ty v) : e.decode c' ty (e.encode c ty v) = v :=
  sample_roundtrip widenExact e he c c' ty v hv hl

end Sf.C01
