-- properties: C04 C11
/-
  C04 / C11 — the Psion WVE container (stand-alone L1 model SfModel/Wve.lean; helpers SfProofs/WveImage.lean,
  SfProofs/Small2Session.lean).  Property theorems only.

  A *session* is `openW` (sf_open SFM_WRITE; the caller's frames value is a parameter), any list of `WOp`s (write
  calls, with or without SFC_SET_UPDATE_HEADER_AUTO; SFC_UPDATE_HEADER_NOW), then `close`.  One frame is one byte.
-/
import SfModel.Wve
import SfProofs.WveImage
namespace Sf.C04Wve
open Sf Sf.Small2 Sf.Wve

/-- the container has no rate field: every file is 8000 Hz, so exactly the requested rate 8000 is reported back -/
theorem wve_rate_fixed (sr : Nat) : quant sr = 8000 ∧ (sr = 8000 → quant sr = sr) := ⟨rfl, fun h => by rw [h]; rfl⟩

example : quant 44100 = 8000 := rfl

theorem closedBytes_eq (stale : Nat) (ops : List WOp) :
    closedBytes fmt stale ops =
      magic ++ be16 3856 ++ be32 ((opsData ops).length : Nat) ++ [0, 0, 0, 0, 0, 0, 0, 0, 0, 0] ++ opsData ops := by
  rw [Small2.closedBytes_eq fmt lawful rfl stale ops]
  show calcHdr fmt (32 + _) ++ _ = _
  rw [calcHdr_eq]

/-- **wve_reopen_info.**  For every accepted configuration and every session — no size guard is needed, the reader
    takes the length from the file, not from the 32-bit field — the closed file re-opens as one channel of
    WVE / A-law at 8000 Hz with exactly the frames (bytes) written. -/
theorem wve_reopen_info (ch sr : Nat) (_hwf : wf ch sr) (stale : Nat) (ops : List WOp) :
    parse (closedBytes fmt stale ops) =
      .ok { ch := 1, fmt := 0x190011, sr := quant sr, frames := (opsData ops).length } := by
  rw [closedBytes_eq]
  have := parse_image (be16 3856 ++ be32 ((opsData ops).length : Nat) ++ [0, 0, 0, 0, 0, 0, 0, 0, 0, 0]) (by simp) (opsData ops)
  simpa [List.append_assoc, quant] using this

def exOps : List WOp := [.write [0xD5, 0x55] false, .update, .write [0x2A] true]
example : wf 1 8000 ∧ (closedBytes fmt 77 exOps).length = 35 ∧
    parse (closedBytes fmt 77 exOps) = .ok ⟨1, 0x190011, 8000, 3⟩ := by decide +kernel

/-- **wve_size_fields.**  The file is the 32-byte header plus the audio; the data-length field (offset 18) holds
    the low 32 bits of the number of audio bytes = file length − 32. -/
theorem wve_size_fields (stale : Nat) (ops : List WOp) (bytes : List Byte) (D : Nat)
    (hbytes : bytes = closedBytes fmt stale ops) (hD : D = (opsData ops).length) :
    bytes.length = 32 + D ∧ ofBE ((bytes.drop 18).take 4) = (bytes.length - 32) % 2 ^ 32 ∧ bytes.drop 32 = opsData ops := by
  rw [closedBytes_eq] at hbytes
  have hlen : bytes.length = 32 + D := by rw [hbytes, hD]; simp [magic]; omega
  have e : bytes = (magic ++ be16 3856) ++ (be32 ((opsData ops).length : Nat) ++ ([0, 0, 0, 0, 0, 0, 0, 0, 0, 0] ++ opsData ops)) := by
    rw [hbytes]; simp
  have h18 : (magic ++ be16 3856).length = 18 := by simp [magic]
  refine ⟨hlen, ?_, ?_⟩
  · rw [hlen, e, drop_append_len _ _ 18 h18, take_append_len _ _ 4 (be32_length _), ofBE_be32, wrapU_nat_mod, hD]
    have : 32 + (opsData ops).length - 32 = (opsData ops).length := by omega
    rw [this]
  · have : (32 : Nat) = 18 + (4 + 10) := rfl
    rw [e, this, ← List.drop_drop, drop_append_len _ _ 18 h18, ← List.drop_drop, drop_append_len _ _ 4 (be32_length _)]
    exact drop_append_len _ _ 10 rfl

example : ofBE (((closedBytes fmt 77 exOps).drop 18).take 4) = 3 := by decide +kernel

/-- **wve_frames_bound.**  One frame is one byte and nothing is padded: `N` frames re-open as exactly `N`
    (B = 1, no pad frame). -/
theorem wve_frames_bound (N : Nat) : (N * 1) / 1 = N ∧ N ≤ N * 1 ∧ N * 1 < N + 1 := by omega

example : (5 * 1) / 1 = 5 := by decide

/-- **stale_frames_ignored_wve.**  Closed bytes and update images do not depend on the caller's frames value. -/
theorem stale_frames_ignored_wve (a b : Nat) (ops : List WOp) :
    closedBytes fmt a ops = closedBytes fmt b ops ∧ snapshotBytes fmt a ops = snapshotBytes fmt b ops :=
  ⟨stale_ignored fmt lawful rfl a b ops, stale_ignored_snapshot fmt lawful a b ops⟩

example : closedBytes fmt 0 exOps = closedBytes fmt 123456 exOps := by decide +kernel

/-- **wve_snapshot_valid.**  After any session prefix, the image a header update leaves in the store parses with
    the same parameters and exactly the frames written so far, and is the 32-byte header followed by the audio
    written so far. -/
theorem wve_snapshot_valid (ch sr : Nat) (hwf : wf ch sr) (stale : Nat) (ops : List WOp) :
    parse (snapshotBytes fmt stale ops) =
      .ok { ch := 1, fmt := 0x190011, sr := quant sr, frames := (opsData ops).length } ∧
    ∃ hdr, hdr.length = 32 ∧ snapshotBytes fmt stale ops = hdr ++ opsData ops := by
  rw [← closed_is_snapshot fmt rfl stale ops]
  refine ⟨wve_reopen_info ch sr hwf stale ops, calcHdr fmt (32 + (opsData ops).length), ?_, ?_⟩
  · rw [calcHdr_eq]; simp [magic]
  · exact Small2.closedBytes_eq fmt lawful rfl stale ops

example : parse (snapshotBytes fmt 5 [.write [1, 2] false]) = .ok ⟨1, 0x190011, 8000, 2⟩ := by decide +kernel

end Sf.C04Wve
