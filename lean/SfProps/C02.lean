/-
  C02 — sample-type conversions follow the documented rules exactly.  Property theorems only.
-/
import SfModel.Pcm
import SfProofs.Bytes
namespace Sf.C02
open Sf

/-- the PCM layouts libsndfile has: 8/16/24/32 bit, unsigned only for 8 bit -/
def PcmFmt.valid (p : PcmFmt) : Prop := (p.w = 8 ∨ p.w = 16 ∨ p.w = 24 ∨ p.w = 32) ∧ (p.unsigned = true → p.w = 8)

def inRange (bits : Nat) (x : Int) : Prop := -(2 ^ (bits - 1) : Int) ≤ x ∧ x < (2 ^ (bits - 1) : Int)

/-! ### stored bytes ↔ code -/

/-- every in-range code survives serialisation, in every layout (both byte orders, signed and unsigned-8) -/
theorem pcm_code_roundtrip (p : PcmFmt) (hp : PcmFmt.valid p) (c : Int) (hc : inRange p.w c) :
    p.decCode (p.encCode c) = c := by
  obtain ⟨hw, hu⟩ := hp
  unfold PcmFmt.decCode PcmFmt.encCode PcmFmt.nbytes inRange at *
  cases hb : p.big <;> cases hs : p.unsigned <;> simp only [hb, hs] at * <;>
    rcases hw with h | h | h | h <;>
    simp [h, ofBE_beBytes, ofLE_leBytes, wrapU, sext] at * <;> omega

/-! ### integer ↔ integer: keep the most significant bits -/

/-- writing a short: the code is the short shifted into the top of the w-bit sample (w ≥ 16) or its top 8 bits -/
theorem int_msb_rule_write_s16 (p : PcmFmt) (x : Int) :
    p.ofS16 x = if p.w = 8 then x / 256 else x * 2 ^ (p.w - 16) := by
  unfold PcmFmt.ofS16 asr; split <;> simp

/-- writing an int keeps its top w bits (arithmetic shift, i.e. floor division) -/
theorem int_msb_rule_write_s32 (p : PcmFmt) (x : Int) : p.ofS32 x = x / 2 ^ (32 - p.w) := rfl

/-- reading as int places the code in the top w bits, zero below (widening zero-pads) -/
theorem int_msb_rule_read_s32 (p : PcmFmt) (hp : PcmFmt.valid p) (c : Int) (hc : inRange p.w c) :
    p.toS32 c = c * 2 ^ (32 - p.w) := by
  obtain ⟨hw, _⟩ := hp
  unfold PcmFmt.toS32 wrapS inRange at *
  rcases hw with h | h | h | h <;> simp [h] at * <;> omega

/-- reading as short keeps the top 16 bits of the sample (narrowing truncates) / widens an 8-bit sample -/
theorem int_msb_rule_read_s16 (p : PcmFmt) (hp : PcmFmt.valid p) (c : Int) (hc : inRange p.w c) :
    p.toS16 c = if p.w = 8 then c * 256 else c / 2 ^ (p.w - 16) := by
  obtain ⟨hw, _⟩ := hp
  unfold PcmFmt.toS16 wrapS asr inRange at *
  rcases hw with h | h | h | h <;> simp [h] at * <;> omega

/-- reading the same stored sample as short and as int agree: short = top half of the int -/
theorem cross_type_agree_int (p : PcmFmt) (hp : PcmFmt.valid p) (c : Int) (hc : inRange p.w c) :
    p.toS16 c = asr (p.toS32 c) 16 := by
  obtain ⟨hw, _⟩ := hp
  unfold PcmFmt.toS16 PcmFmt.toS32 wrapS asr inRange at *
  rcases hw with h | h | h | h <;> simp [h] at * <;> omega

/-- a short written to ≥16-bit PCM reads back identically; an int written to 32-bit PCM likewise -/
theorem s16_write_read_id (p : PcmFmt) (hp : PcmFmt.valid p) (hw16 : p.w ≥ 16) (x : Int) (hx : inRange 16 x) :
    p.toS16 (p.ofS16 x) = x := by
  obtain ⟨hw, _⟩ := hp
  unfold PcmFmt.toS16 PcmFmt.ofS16 asr inRange at *
  rcases hw with h | h | h | h <;> simp [h] at * <;> omega

/-- narrowing then widening an int keeps exactly its top w bits -/
theorem s32_write_read_truncates (p : PcmFmt) (hp : PcmFmt.valid p) (x : Int) (hx : inRange 32 x) :
    p.toS32 (p.ofS32 x) = x - x % 2 ^ (32 - p.w) := by
  obtain ⟨hw, _⟩ := hp
  unfold PcmFmt.toS32 PcmFmt.ofS32 asr wrapS inRange at *
  rcases hw with h | h | h | h <;> simp [h] at * <;> omega

/-- the written code always fits the sample width (no wrap) for in-range caller integers -/
theorem int_write_in_range (p : PcmFmt) (hp : PcmFmt.valid p) (x : Int) :
    (inRange 16 x → inRange p.w (p.ofS16 x)) ∧ (inRange 32 x → inRange p.w (p.ofS32 x)) := by
  obtain ⟨hw, _⟩ := hp
  unfold PcmFmt.ofS16 PcmFmt.ofS32 asr inRange at *
  rcases hw with h | h | h | h <;> simp [h] <;> omega

/-- unsigned 8-bit files are offset by 128 -/
theorem u8_offset (c : Int) (hc : inRange 8 c) :
    (⟨8, true, false⟩ : PcmFmt).encCode c = [(c + 128).toNat] := by
  unfold inRange at hc
  have h : wrapU 8 (c + 128) = (c + 128).toNat := by
    unfold wrapU
    have : (c + 128) % (2 ^ 8 : Int) = c + 128 := Int.emod_eq_of_lt (by omega) (by omega)
    rw [this]
  have h2 : (c + 128).toNat < 256 := by omega
  simp [PcmFmt.encCode, PcmFmt.nbytes, leBytes, h, Nat.mod_eq_of_lt h2]

/-! non-vacuity -/
example : PcmFmt.valid ⟨24, false, true⟩ ∧ inRange 24 (-8388608) ∧
    (⟨24, false, true⟩ : PcmFmt).encCode (-8388608) = [0x80, 0, 0] ∧
    (⟨24, false, true⟩ : PcmFmt).toS16 (-8388608) = -32768 :=
  ⟨by unfold PcmFmt.valid; decide, by unfold inRange; decide, by decide, by decide⟩

end Sf.C02
