/-
  C12 — `meta_roundtrip` for AIFF and CAF as ONE theorem per container over handle states (`Sf.MetaXS.XState`,
  lean/SfModel/MetaXState.lean): everything the handle holds — strings set before AND after the audio, cue points, the channel
  map — comes back after close and re-open as `normaliseX` says, for EVERY handle state within the containers' limits.
  (Round 5 had these as conjunctions over the items, `C12Round.meta_roundtrip_aiff / _caf`; they are the lemmas used here.)
-/
import SfModel.MetaXState
import SfProps.C12Round
namespace Sf.C12XState
open Sf Sf.Meta Sf.MetaX Sf.MetaXS

/-- strings of a type AIFF has no chunk for are not written at all -/
theorem aiffItem_other (e : Nat × List Byte) (h : aiffStored e = false) : aiffItem e = [] := by
  obtain ⟨ty, s⟩ := e
  simp only [aiffStored, Bool.or_eq_false_iff, decide_eq_false_iff_not] at h
  obtain ⟨⟨⟨⟨h1, h2⟩, h3⟩, h4⟩, h5⟩ := h
  unfold aiffItem
  split <;> simp_all

theorem aiffStrings_filter (es : List (Nat × List Byte)) : aiffStrings (es.filter aiffStored) = aiffStrings es := by
  induction es with
  | nil => rfl
  | cons e t ih =>
    unfold aiffStrings at ih ⊢
    by_cases h : aiffStored e = true
    · simp [List.filter_cons, h, ih]
    · have h' : aiffStored e = false := by simpa using h
      simp [List.filter_cons, h', ih, aiffItem_other e h']

/-- every text chunk takes at least one byte: the walk's fuel (file length + 1) is enough -/
theorem aiffItem_pos (e : Nat × List Byte) (h : aiffOk e) : 1 ≤ (aiffItem e).length := by
  obtain ⟨ty, s⟩ := e
  obtain ⟨_, _, hty⟩ := h
  rcases hty with ⟨h, _⟩ | ⟨h, _⟩ | ⟨h, _⟩ | ⟨h, _⟩ | ⟨h, _⟩ <;> simp only at h <;> subst h <;> simp [aiffItem, mk, ascii]

theorem aiffStrings_length_ge (es : List (Nat × List Byte)) (h : ∀ e ∈ es, aiffOk e) : es.length ≤ (aiffStrings es).length := by
  induction es with
  | nil => simp
  | cons e t ih =>
    have h1 := aiffItem_pos e (h e (by simp))
    have h2 := ih (fun x hx => h x (by simp [hx]))
    unfold aiffStrings at h2 ⊢
    simp only [List.flatMap_cons, List.length_append, List.length_cons]
    omega

/-- the strings of the header / of the trailer, as the writers see them -/
def startE (h : XState) : List (Nat × List Byte) :=
  if (h.strings.flags &&& SF_STR_LOCATE_START) ≠ 0 then entriesOf h.strings SF_STR_LOCATE_START else []
def endE (h : XState) : List (Nat × List Byte) :=
  if (h.strings.flags &&& SF_STR_LOCATE_END) ≠ 0 then entriesOf h.strings SF_STR_LOCATE_END else []

/-- the limits of an AIFF handle, all explicit: texts of the five stored types are non-empty C strings whose chunk the header
    cache holds (copyright and software printable ASCII: KF.aiffSanitize); at most 2500 markers with a name of at most 253
    bytes; a stored channel map carries its layout tag -/
structure WithinAiff (h : XState) : Prop where
  early : ∀ e ∈ (startE h).filter aiffStored, aiffOk e
  late : ∀ e ∈ (endE h).filter aiffStored, aiffOk e
  cues : ∀ cs, h.cues = some cs → cs.length ≤ 2500 ∧ ∀ c ∈ cs, (markOfCue c).ok
  chmap : ∀ m tag, h.chmap = some (m, tag) → tag = findTag m ∧ m.length = h.ch

theorem aiff_strings_back (es : List (Nat × List Byte)) (h : ∀ e ∈ es.filter aiffStored, aiffOk e) :
    aiffParse ((aiffStrings es).length + 1) (aiffStrings es) = es.filter aiffStored := by
  rw [← aiffStrings_filter es]
  exact aiff_text_roundtrip _ h _ (by have := aiffStrings_length_ge _ h; omega)

theorem chanBack_norm (caf : Bool) (ch : Nat) (cm : Option (List Nat × Nat))
    (w : ∀ m tag, cm = some (m, tag) → tag = findTag m ∧ m.length = ch) :
    chanBack caf ch cm = cm.bind fun p => if p.2 = 0 then none else some p.1 := by
  cases hcm : cm with
  | none => rfl
  | some p =>
    obtain ⟨m, tag⟩ := p
    obtain ⟨ht, hl⟩ := w m tag hcm
    simp only [chanBack, Option.bind_some]
    by_cases h0 : tag = 0
    · simp [h0]
    · simp only [h0, if_false]
      subst ht; subst hl
      exact chan_roundtrip caf m h0

/-- **meta_roundtrip** for AIFF, one theorem over handle states: get after re-open = normaliseX (handle), for every handle
    within the limits — strings set before and after the audio, markers with or without an instrument, the channel map -/
theorem meta_roundtrip_aiff_state (h : XState) (hc : h.cont = .aiff) (w : WithinAiff h) : xreopen h = normaliseX h := by
  obtain ⟨he, hl, hq, hm⟩ := w
  unfold xreopen normaliseX stringsBack
  have hs := aiff_strings_back (startE h) he
  have hs2 := aiff_strings_back (endE h) hl
  unfold startE at hs
  unfold endE at hs2
  have hcu : MetaFix.aiffCues h.inst h.cues = h.cues.map fun cs => (cs.map markOfCue).map cueOfMark := by
    cases hcs : h.cues with
    | none => simp [MetaFix.aiffCues, MetaFix.aiffCuesWith, MetaFix.aiffMarkWritten]
    | some cs =>
      obtain ⟨a, b⟩ := hq cs hcs
      simpa using C12Fix.aiff_cues_with_inst h.inst cs a b
  simp only [hc, decide_true, if_true, hs, hs2, hcu, chanBack_norm _ _ _ hm]

/-- the limits of a CAF handle: C strings (any of the ten types), at most 32 of them, within the string storage and the header
    cache; a stored channel map carries its layout tag -/
structure WithinCaf (h : XState) : Prop where
  early : ∀ e ∈ startE h, cafOk e
  late : ∀ e ∈ endE h, cafOk e
  count : (startE h).length ≤ SF_MAX_STRINGS ∧ (endE h).length ≤ SF_MAX_STRINGS
  used : storedBytes (startE h) ≤ h.strings.used ∧ storedBytes (endE h) ≤ h.strings.used
  cap : cafNeed (startE h) ≤ HEADER_CAP ∧ cafNeed (endE h) ≤ HEADER_CAP
  chmap : ∀ m tag, h.chmap = some (m, tag) → tag = findTag m ∧ m.length = h.ch

/-- **meta_roundtrip** for CAF, one theorem over handle states (the trailing `info` chunk is lost behind an odd number of audio
    bytes: `normaliseX` says so) -/
theorem meta_roundtrip_caf_state (h : XState) (hc : h.cont = .caf) (w : WithinCaf h) : xreopen h = normaliseX h := by
  obtain ⟨he, hl, hn, hu, hcap, hm⟩ := w
  unfold xreopen normaliseX stringsBack
  have hs := caf_info_roundtrip h.strings.used (startE h) he hn.1 hu.1 hcap.1
  have hs2 := caf_info_roundtrip h.strings.used (endE h) hl hn.2 hu.2 hcap.2
  unfold startE at hs
  unfold endE at hs2
  have hna : ¬ (h.cont = Container.aiff) := by rw [hc]; decide
  simp only [hc, hs, hs2, chanBack_norm _ _ _ hm, decide_true]
  simp

/-! ## non-vacuity: handles built with `xstep`, within the limits, and what they return -/

def sampleAiff : XState :=
  xrun (ascii "libsndfile") (ascii "1.2.2") (XState.open .aiff 2)
    [.setString 1 (ascii "Title"), .setString 7 (ascii "an album"), .setCues [⟨1, 5, 0, 0, 0, 10, ascii "one"⟩], .setInst, .setChmap [2, 3],
     .writeAudio 8, .setString 5 (ascii "late"), .setCues []]

example : xreopen sampleAiff = ⟨[(1, ascii "Title"), (5, ascii "late")], some [⟨1, 0, 0x61746164, 0, 0, 10, ascii "one"⟩], some [2, 3]⟩ := by
  decide +kernel

example : WithinAiff sampleAiff := by
  refine ⟨?_, ?_, ?_, ?_⟩
  · have : (startE sampleAiff).filter aiffStored = [(1, ascii "Title")] := by decide +kernel
    rw [this]; intro e he
    simp only [List.mem_cons, List.mem_nil_iff, or_false] at he
    subst he; exact ⟨by decide, by decide, by decide⟩
  · have : (endE sampleAiff).filter aiffStored = [(5, ascii "late")] := by decide +kernel
    rw [this]; intro e he
    simp only [List.mem_cons, List.mem_nil_iff, or_false] at he
    subst he; exact ⟨by decide, by decide, by decide⟩
  · intro cs hcs
    have : sampleAiff.cues = some [⟨1, 5, 0, 0, 0, 10, ascii "one"⟩] := by decide +kernel
    rw [this] at hcs; cases hcs
    refine ⟨by decide, ?_⟩
    intro c hc
    simp only [List.mem_cons, List.mem_nil_iff, or_false] at hc
    subst hc
    exact ⟨by decide, by decide, by decide, by decide⟩
  · intro m tag hmt
    have : sampleAiff.chmap = some ([2, 3], findTag [2, 3]) := by decide +kernel
    rw [this] at hmt; cases hmt
    exact ⟨rfl, by decide +kernel⟩

def sampleCaf : XState :=
  xrun (ascii "libsndfile") (ascii "1.2.2") (XState.open .caf 2)
    [.setString 8 (ascii "a licence"), .setString 3 (ascii "me"), .setChmap [2, 3], .writeAudio 8, .setString 5 (ascii "late")]

example : xreopen sampleCaf = ⟨[(8, ascii "a licence"), (3, ascii "me (libsndfile-1.2.2)"), (5, ascii "late")], none, some [2, 3]⟩ := by
  decide +kernel

example : WithinCaf sampleCaf := by
  have h1 : startE sampleCaf = [(8, ascii "a licence"), (3, ascii "me (libsndfile-1.2.2)")] := by decide +kernel
  have h2 : endE sampleCaf = [(5, ascii "late")] := by decide +kernel
  refine ⟨?_, ?_, ?_, ?_, ?_, ?_⟩
  · rw [h1]; intro e he
    simp only [List.mem_cons, List.mem_nil_iff, or_false] at he
    rcases he with rfl | rfl <;> exact ⟨by decide, by decide⟩
  · rw [h2]; intro e he
    simp only [List.mem_cons, List.mem_nil_iff, or_false] at he
    subst he; exact ⟨by decide, by decide⟩
  · rw [h1, h2]; decide
  · rw [h1, h2]; decide +kernel
  · rw [h1, h2]; decide +kernel
  · intro m tag hmt
    have : sampleCaf.chmap = some ([2, 3], findTag [2, 3]) := by decide +kernel
    rw [this] at hmt; cases hmt
    exact ⟨rfl, by decide +kernel⟩

end Sf.C12XState
