-- properties: C18 C20
/-
  C18 after the repair of KF-C18-PEAK-SUBNORMAL — the value field of a PEAK entry is the binary32 of the channel maximum for
  EVERY finite value, subnormal maxima included.  Property theorems only (model: SfModel/PeakExact.lean over SfModel/Ieee.lean).

  * `peak_field_exact`          : the repaired field is the binary32 pattern itself (full strength: every finite pattern);
  * `peak_field_bytes`          : … and its bytes in the chunk are those of `float32_be_write` / `float32_le_write`;
  * `peak_field_old_rule`       : the rule before (`Sf.wrF32`): every subnormal maximum was stored as 0.0f; witnesses 2^-148, 2^-127;
  * `chunk_agrees_old_rule`     : on chunks without a subnormal maximum the repaired chunk is the chunk of `Sf.Peak.chunkBytes`
                                  (every theorem of SfProps/C18.lean about that chunk carries over there);
  * `peak_chunk_roundtrip_exact`: the repaired chunk parses back, per channel, to the binary32 of the maximum (widened) and the
                                  low 32 bits of the position — with no exception below FLT_MIN.
-/
import SfModel.PeakExact
import SfProps.C20Ieee
import SfProofs.PeakChunk
namespace Sf.C18Exact
open Sf Sf.Float Sf.Ieee Sf.Peak

/-- the repaired PEAK value field holds the binary32 pattern itself, for every finite pattern (normal, subnormal, zero) -/
theorem peak_field_exact (b : Nat) (hb : b < 2 ^ 32) (hfin : f32.isFinite b = true) : PeakExact.wrF32 b = b := by
  unfold PeakExact.wrF32
  rw [(C20Ieee.ieee_write_finite_f32 b hb hfin).1, Spec.bytesBE, show f32.width / 8 = 4 from by decide, ofBE_beBytes]
  exact Nat.mod_eq_of_lt (by norm_num; omega)

/-- the bytes of the field in the chunk are the bytes the portable writer of the header's byte order produces -/
theorem peak_field_bytes (big : Bool) (b : Nat) (hb : b < 2 ^ 32) (hfin : f32.isFinite b = true) :
    u32 big (PeakExact.wrF32 b) = if big then f32BeWrite b else f32LeWrite b := by
  obtain ⟨w1, w2⟩ := C20Ieee.ieee_write_finite_f32 b hb hfin
  rw [peak_field_exact b hb hfin, w1, w2]
  have hw : wrapU 32 (b : Int) = b := by
    have := wrapU_of_range 32 (b : Int) (by omega) (by
      have : ((2:Int) ^ 32) = 4294967296 := by decide
      rw [this]; omega)
    exact_mod_cast this
  have h4 : f32.width / 8 = 4 := by decide
  cases big <;> simp [u32, hw, Spec.bytesBE, Spec.bytesLE, h4]

/-- non-vacuity: subnormal maxima (2^-149, 2^-148, 2^-127, the largest subnormal), FLT_MIN and an ordinary value -/
example : f32.isFinite 1 = true ∧ PeakExact.wrF32 1 = 1 ∧ PeakExact.wrF32 2 = 2 ∧ PeakExact.wrF32 0x00400000 = 0x00400000 ∧
    PeakExact.wrF32 0x007FFFFF = 0x007FFFFF ∧ PeakExact.wrF32 0x00800000 = 0x00800000 ∧ PeakExact.wrF32 0x3F800000 = 0x3F800000 ∧
    PeakExact.wrF32 0 = 0 ∧ u32 false (PeakExact.wrF32 2) = [2, 0, 0, 0] := by decide +kernel

/-- the rule before the repair (`Sf.wrF32TinyOld`, the writers' early return on `fabs (in) < FLT_MIN`): a maximum whose binary32 is
    subnormal was stored as 0.0f; everything else as itself -/
theorem peak_field_old_rule (b : Nat) :
    (b % 2 ^ 31 < 0x00800000 → Sf.wrF32TinyOld b = 0) ∧ (0x00800000 ≤ b % 2 ^ 31 → Sf.wrF32TinyOld b = b) ∧
    Sf.wrF32TinyOld 2 = 0 ∧ Sf.wrF32TinyOld 0x00400000 = 0 ∧ Sf.wrF32TinyOld 0x007FFFFF = 0 ∧ Sf.wrF32TinyOld 0x00800000 = 0x00800000 := by
  refine ⟨fun h => by unfold Sf.wrF32TinyOld; rw [if_pos h], fun h => ?_, by decide, by decide, by decide, by decide⟩
  have : ¬ b % 2 ^ 31 < 0x00800000 := by omega
  unfold Sf.wrF32TinyOld; rw [if_neg this]

/-- the full-strength statement about the old field … -/
def peak_field_old_rule_full : Prop := ∀ b, b < 2 ^ 32 → f32.isFinite b = true → Sf.wrF32TinyOld b = b
/-- … was false (2^-148, the witness of KF-C18-PEAK-SUBNORMAL) -/
theorem peak_field_old_rule_fails : ¬ peak_field_old_rule_full := by
  intro h
  have := h 2 (by decide) (by decide)
  revert this; decide

/-- the handle model's PEAK field (`Sf.wrF32`, SfModel/Handle.lean — the identity since the model follows 71c426d) and the
    repaired writers agree on every finite pattern: the handle model's header images are those of the repaired library,
    subnormal maxima included -/
theorem field_agrees (b : Nat) (hb : b < 2 ^ 32) (hfin : f32.isFinite b = true) :
    PeakExact.wrF32 b = Sf.wrF32 b := by
  rw [peak_field_exact b hb hfin]; rfl

/-- where the FLT_MIN rule agreed with the repaired one: a finite non-negative pattern that is zero or normal -/
theorem field_agrees_old_rule (b : Nat) (hb : b < 2 ^ 31) (hfin : f32.isFinite b = true) (hn : b = 0 ∨ 0x00800000 ≤ b) :
    PeakExact.wrF32 b = Sf.wrF32TinyOld b := by
  rw [peak_field_exact b (by omega) hfin]
  rcases hn with rfl | h
  · rfl
  · have : ¬ b % 2 ^ 31 < 0x00800000 := by rw [Nat.mod_eq_of_lt hb]; omega
    unfold Sf.wrF32TinyOld; rw [if_neg this]

/-- a PEAK list of finite values gives the very chunk of `Sf.Peak.chunkBytes` (the chunk the handle / PEAK models and their
    theorems are stated with), in every container -/
theorem chunk_agrees (k : Kind) (ch : Nat) (ps : List Peak)
    (h : ∀ p ∈ ps, f64to32 p.value < 2 ^ 32 ∧ f32.isFinite (f64to32 p.value) = true) :
    PeakExact.chunkBytes k ch ps = Peak.chunkBytes k ch ps := by
  have e32 : ∀ big : Bool, (ps.flatMap fun p => u32 big (PeakExact.wrF32 (f64to32 p.value)) ++ u32 big p.position) =
      (ps.flatMap fun p => u32 big (Sf.wrF32 (f64to32 p.value)) ++ u32 big p.position) := by
    intro big
    apply List.flatMap_congr
    intro p hp
    obtain ⟨h1, h2⟩ := h p hp
    rw [field_agrees _ h1 h2]
  have e64 : (ps.flatMap fun p => u32 true (PeakExact.wrF32 (f64to32 p.value)) ++ u64be p.position) =
      (ps.flatMap fun p => u32 true (Sf.wrF32 (f64to32 p.value)) ++ u64be p.position) := by
    apply List.flatMap_congr
    intro p hp
    obtain ⟨h1, h2⟩ := h p hp
    rw [field_agrees _ h1 h2]
  cases k <;> simp only [PeakExact.chunkBytes, Peak.chunkBytes, e32, e64]

/-- what a WAV / AIFF chunk entry holds of a PEAK record under the repaired rule: the binary32 of the value, the low 32 bits
    of the position -/
def exact32 (p : Peak) : Peak :=
  { value := f32to64 (f64to32 p.value), position := wrapU 32 p.position }

def entryX (big : Bool) (p : Peak) : List Byte := u32 big (PeakExact.wrF32 (f64to32 p.value)) ++ u32 big p.position

theorem parsePeaks_entriesX (big : Bool) (post : List Byte) : ∀ (ps : List Peak) (pre : List Byte),
    (∀ p ∈ ps, f64to32 p.value < 2 ^ 32 ∧ f32.isFinite (f64to32 p.value) = true) →
    parsePeaks big (pre ++ (ps.flatMap (entryX big) ++ post)) pre.length ps.length = ps.map exact32 := by
  intro ps
  induction ps with
  | nil => intro pre _; rfl
  | cons p ps ih =>
    intro pre hall
    obtain ⟨hp1, hp2⟩ := hall p (by simp)
    simp only [List.length_cons, parsePeaks, List.map_cons, List.flatMap_cons]
    have h1 : At (pre ++ (entryX big p ++ ps.flatMap (entryX big) ++ post)) pre.length (u32 big (PeakExact.wrF32 (f64to32 p.value))) := by
      have := At.skip (off := 0) pre (At.here (u32 big (PeakExact.wrF32 (f64to32 p.value))) (u32 big p.position ++ (ps.flatMap (entryX big) ++ post)))
      simpa [entryX, List.append_assoc] using this
    have h2 : At (pre ++ (entryX big p ++ ps.flatMap (entryX big) ++ post)) (pre.length + 4) (u32 big p.position) := by
      have := At.skip (off := 0) (pre ++ u32 big (PeakExact.wrF32 (f64to32 p.value))) (At.here (u32 big p.position) (ps.flatMap (entryX big) ++ post))
      simpa [entryX, List.append_assoc, u32_length_ct] using this
    rw [rd32_of_At h1, rd32_of_At h2]
    have e : pre ++ (entryX big p ++ ps.flatMap (entryX big) ++ post) = (pre ++ entryX big p) ++ (ps.flatMap (entryX big) ++ post) := by
      simp [List.append_assoc]
    have hl : pre.length + 8 = (pre ++ entryX big p).length := by simp [entryX, u32_length_ct]
    rw [e, hl, ih (pre ++ entryX big p) (fun q hq => hall q (by simp [hq]))]
    have hw : wrapU 32 ((PeakExact.wrF32 (f64to32 p.value) : Nat) : Int) = f64to32 p.value := by
      rw [peak_field_exact _ hp1 hp2]
      have := wrapU_of_range 32 ((f64to32 p.value : Nat) : Int) (by omega) (by
        have : ((2:Int) ^ 32) = 4294967296 := by decide
        rw [this]; omega)
      exact_mod_cast this
    simp only [exact32, hw]

/-- C18, chunk level, at full strength: for every PEAK list of the right length whose maxima are finite as binary32 — subnormal
    maxima included — the chunk the repaired writers produce (WAV / WAVEX / RF64 little-endian, RIFX and AIFF big-endian) is
    accepted by the reader and yields, per channel, the binary32 of the maximum (widened) and the low 32 bits of the position -/
theorem peak_chunk_roundtrip_exact (k : Kind) (hk : k ≠ .caf) (ch : Nat) (ps : List Peak) (hl : ps.length = ch) (hch : ch ≤ 1024)
    (hfin : ∀ p ∈ ps, f64to32 p.value < 2 ^ 32 ∧ f32.isFinite (f64to32 p.value) = true) :
    parseChunk k ch (PeakExact.chunkBytes k ch ps) = some (ps.map exact32) := by
  subst hl
  have key : ∀ big : Bool,
      let bytes := marker "PEAK" ++ u32 big (8 + 8 * ps.length) ++ u32 big 1 ++ u32 big 1000000000 ++ ps.flatMap (entryX big)
      rd32 big bytes 4 = 8 + 8 * ps.length ∧ parsePeaks big bytes 16 ps.length = ps.map exact32 := by
    intro big bytes
    constructor
    · have h : At bytes 4 (u32 big ((8 + 8 * ps.length : Nat) : Int)) := by
        have := At.skip (off := 0) (marker "PEAK") (At.here (u32 big ((8 + 8 * ps.length : Nat) : Int)) (u32 big 1 ++ u32 big 1000000000 ++ ps.flatMap (entryX big)))
        have hm : (marker "PEAK").length = 4 := by decide
        simpa [bytes, List.append_assoc, hm] using this
      rw [rd32_of_At h, size_field ps.length hch]
    · have e : bytes = (marker "PEAK" ++ u32 big (8 + 8 * ps.length) ++ u32 big 1 ++ u32 big 1000000000) ++ (ps.flatMap (entryX big) ++ []) := by
        simp [bytes]
      have hlen : (marker "PEAK" ++ u32 big (8 + 8 * ps.length) ++ u32 big 1 ++ u32 big 1000000000).length = 16 := by
        have hm : (marker "PEAK").length = 4 := by decide
        simp [u32_length_ct, hm]
      rw [e, ← hlen]
      exact parsePeaks_entriesX big [] ps _ hfin
  cases k with
  | caf => exact absurd rfl hk
  | wavLE =>
    obtain ⟨h1, h2⟩ := key false
    have h1' : rd32 false (PeakExact.chunkBytes .wavLE ps.length ps) 4 = 8 + 8 * ps.length := h1
    have h2' : parsePeaks false (PeakExact.chunkBytes .wavLE ps.length ps) 16 ps.length = ps.map exact32 := h2
    simp only [parseChunk, h1', h2', bne_self_eq_false, Bool.false_eq_true, if_false]
  | wavBE =>
    obtain ⟨h1, h2⟩ := key true
    have h1' : rd32 true (PeakExact.chunkBytes .wavBE ps.length ps) 4 = 8 + 8 * ps.length := h1
    have h2' : parsePeaks true (PeakExact.chunkBytes .wavBE ps.length ps) 16 ps.length = ps.map exact32 := h2
    simp only [parseChunk, h1', h2', bne_self_eq_false, Bool.false_eq_true, if_false]
  | aiff =>
    obtain ⟨h1, h2⟩ := key true
    have h1' : rd32 true (PeakExact.chunkBytes .aiff ps.length ps) 4 = 8 + 8 * ps.length := h1
    have h2' : parsePeaks true (PeakExact.chunkBytes .aiff ps.length ps) 16 ps.length = ps.map exact32 := h2
    simp only [parseChunk, h1', h2', bne_self_eq_false, Bool.false_eq_true, if_false]

/-- non-vacuity and the witness of KF-C18-PEAK-SUBNORMAL on both rules: a channel whose maximum is 2^-148 (binary64
    0x36B0000000000000) at frame 1 — the repaired chunk (and, since it follows the repair, the handle model's) holds 00000002 and re-opens as 2^-148; the FLT_MIN rule stored 00000000 -/
example : f64to32 0x36B0000000000000 = 2 ∧
    parseChunk .wavLE 1 (PeakExact.chunkBytes .wavLE 1 [{ value := 0x36B0000000000000, position := 1 }]) =
      some [{ value := 0x36B0000000000000, position := 1 }] ∧
    parseChunk .wavLE 1 (Peak.chunkBytes .wavLE 1 [{ value := 0x36B0000000000000, position := 1 }]) =
      some [{ value := 0x36B0000000000000, position := 1 }] ∧ Sf.wrF32TinyOld 2 = 0 ∧
    parseChunk .aiff 1 (PeakExact.chunkBytes .aiff 1 [{ value := 0x36B0000000000000, position := 1 }]) =
      some [{ value := 0x36B0000000000000, position := 1 }] := by decide +kernel

end Sf.C18Exact
