-- properties: C04 C11
/-
  C04 / C11 — the MATLAB 5 container (stand-alone L1 model SfModel/Mat5.lean; helpers SfProofs/Mat5Image.lean,
  SfProofs/Small2Session.lean).  Property theorems only.

  A *session* is `openW` (sf_open SFM_WRITE; the caller's frames value is a parameter — it shows in the size fields
  of the very first header only), any list of `WOp`s storing whole frames, then `close`.  The 124-byte text field
  (package name and version, date string) is a parameter of the configuration.
-/
import SfModel.Mat5
import SfProofs.Mat5Image
namespace Sf.C04Mat5
open Sf Sf.Small2 Sf.Mat5
open Sf.Mat4 (w32 r32 w32_length r32_w32)

/-- **mat5_rate_exact.**  The rate is stored as a compressed 16-bit element up to 65535 and as a compressed 32-bit
    element above: every rate in [1, 2^31 − 1] is reported back exactly. -/
theorem mat5_rate_exact (sr : Nat) (_h1 : 1 ≤ sr) (h2 : sr ≤ 0x7FFFFFFF) : quant sr = sr := by
  unfold quant
  split
  · exact wrapU_nat 32 sr (by omega)
  · exact wrapU_nat 16 sr (by omega)

example : quant 1 = 1 ∧ quant 65535 = 65535 ∧ quant 65536 = 65536 ∧ quant 2147483647 = 2147483647 := by decide +kernel

/-- the boundary between the two rate elements: 65535 is the last 16-bit one (bytes 04 00 02 00 FF FF 00 00 in a
    little-endian file), 65536 the first 32-bit one (06 00 04 00 00 00 01 00) -/
theorem mat5_rate_element_boundary :
    rateElem true 65535 = [4, 0, 2, 0, 0xFF, 0xFF, 0, 0] ∧ rateElem true 65536 = [6, 0, 4, 0, 0, 0, 1, 0] ∧
    rateElem false 65535 = [0, 2, 0, 4, 0xFF, 0xFF, 0, 0] ∧ rateElem false 65536 = [0, 4, 0, 6, 0, 1, 0, 0] := by decide +kernel

theorem closedBytes_eq (c : Cfg) (ht : c.text.length = 124) (stale : Nat) (ops : List WOp) :
    closedBytes (fmt c) stale ops =
      hdr c { frames := (((opsData ops).length / c.bw : Nat) : Int), filelength := ((264 + (opsData ops).length : Nat) : Int),
              datalength := ((opsData ops).length : Nat) } ++ opsData ops := by
  rw [Small2.closedBytes_eq (fmt c) (lawful c ht) rfl stale ops]
  show calcHdr (fmt c) (264 + _) ++ _ = _
  rw [calcHdr_eq]

/-- **mat5_reopen_info.**  For every accepted configuration (five encodings, both byte orders, 1 … 1024 channels,
    every rate in [1, 2^31 − 1], any text field the writer can produce) and every session — whatever the caller's
    stale frames value, however the audio was split over write calls and header updates — the closed file re-opens
    with the requested channels, MAT5 / the requested encoding in the byte order of the file, exactly the requested
    rate and exactly the frames written.  There is no size guard: the reader takes the frame count from the file
    length, not from the 32-bit fields. -/
theorem mat5_reopen_info (c : Cfg) (hwf : c.wf) (stale : Nat) (ops : List WOp) :
    parse (closedBytes (fmt c) stale ops) =
      .ok { ch := c.ch, fmt := c.fmtWord, sr := quant c.sr, frames := (opsData ops).length / c.bw } := by
  rw [closedBytes_eq c hwf.2.2.2.2.2.2.1, mat5_rate_exact c.sr hwf.2.2.2.2.1 hwf.2.2.2.2.2.1]
  exact parse_image c hwf _ _

def exText : List Byte :=
  asc "MATLAB 5.0 MAT-file, written by libsndfile-1.2.2, 2001-08-09 01:46:40 UTC" ++ [0] ++ List.replicate 50 0x20
def exCfg : Cfg := ⟨2, 2, 2, 44100, exText⟩
def exLe : Cfg := ⟨6, 0, 1, 96000, exText⟩
def exU8 : Cfg := ⟨5, 1, 3, 8000, exText⟩
def exOps : List WOp := [.write [0, 1, 0, 2] false, .update, .write [0, 3, 0, 4, 0, 5, 0, 6] true]
example : exCfg.wf ∧ exLe.wf ∧ exU8.wf ∧ WholeFrames exCfg.bw exOps ∧ (closedBytes (fmt exCfg) 77 exOps).length = 276 ∧
    parse (closedBytes (fmt exCfg) 77 exOps) = .ok ⟨2, 0x200D0002, 44100, 3⟩ := by decide +kernel
example : parse (closedBytes (fmt exLe) 0 exOps) = .ok ⟨1, 0x100D0006, 96000, 3⟩ ∧
    parse (closedBytes (fmt exU8) 5 exOps) = .ok ⟨3, 0x100D0005, 8000, 4⟩ := by decide +kernel

/-- **mat5_size_fields.**  The file is the 264-byte header plus the audio (nothing is padded, no tailer); in the
    byte order of the file the rows field (offset 232) holds the channels, the cols field (offset 236) the low 32
    bits of audio bytes / block width, the data element's size field (offset 260) the audio bytes clamped to
    0x7FFFFFFF, and the matrix element's size field (offset 204) the low 32 bits of audio bytes + 64 — eight more
    than the 56 bytes of sub-element headers that really precede the audio (the reader ignores the field). -/
theorem mat5_size_fields (c : Cfg) (hwf : c.wf) (stale : Nat) (ops : List WOp) (hw : WholeFrames c.bw ops) (bytes : List Byte) (D : Nat)
    (hbytes : bytes = closedBytes (fmt c) stale ops) (hD : D = (opsData ops).length) :
    bytes.length = 264 + D ∧ r32 c.little ((bytes.drop 232).take 4) = c.ch ∧
    r32 c.little ((bytes.drop 236).take 4) = (D / c.bw) % 2 ^ 32 ∧
    r32 c.little ((bytes.drop 260).take 4) = min D 0x7FFFFFFF ∧
    r32 c.little ((bytes.drop 204).take 4) = (D + 64) % 2 ^ 32 ∧ bytes.drop 264 = opsData ops := by
  have ht := hwf.2.2.2.2.2.2.1
  rw [closedBytes_eq c ht, ← hD] at hbytes
  have hm : D % c.bw = 0 := by rw [hD]; exact opsData_whole c.bw ops hw
  -- datasize = frames * channels * bytewidth = D for whole frames
  have hds : datasize c { frames := ((D / c.bw : Nat) : Int), filelength := ((264 + D : Nat) : Int), datalength := (D : Nat) } = (D : Int) := by
    have h1 := Nat.div_add_mod D c.bw
    rw [hm, Nat.add_zero] at h1
    have key : ∀ q : Nat, ((q : Nat) : Int) * (c.ch : Int) * (bytewidth c.codec : Int) = ((c.bw * q : Nat) : Int) := by
      intro q; unfold Cfg.bw; push_cast; rw [Int.mul_assoc, Int.mul_comm (c.ch : Int), Int.mul_comm]
    unfold datasize
    simp only []
    rw [key, h1]
  generalize hf : ({ frames := ((D / c.bw : Nat) : Int), filelength := ((264 + D : Nat) : Int), datalength := (D : Nat) } : Fields) = f at hbytes hds
  have hlen : bytes.length = 264 + D := by rw [hbytes, hD]; simp [hdr_length c ht]
  obtain ⟨l, hl⟩ : ∃ l, c.little = l := ⟨_, rfl⟩
  -- the image split at offset 204
  have e204 : bytes = (c.text ++ (hdrA c ++ w32 l 14)) ++ (w32 l (datasize c f + 64) ++ (w32 l 6 ++ (w32 l 8 ++ (w32 l 6 ++ (w32 l 0 ++
      (w32 l 5 ++ (w32 l 8 ++ (w32 l c.ch ++ (w32 l f.frames ++ (w32 l 1 ++ (w32 l 8 ++ (wdName ++
      (w32 l (encoding c.codec) ++ (w32 l (dataField c f) ++ opsData ops)))))))))))))) := by
    rw [hbytes, ← hl]; simp [hdr, hdrB, mxFields]
  have h204 : (c.text ++ (hdrA c ++ w32 l 14)).length = 204 := by simp [ht, hdrA_length, w32_length]
  have d204 := drop_append_len _ _ 204 h204 ▸ congrArg (List.drop 204) e204
  have step : ∀ (k : Nat) (x : List Byte) (v : Int), bytes.drop k = w32 l v ++ x → bytes.drop (k + 4) = x := by
    intro k x v h
    rw [← List.drop_drop, h]; exact drop_append_len _ _ 4 (w32_length _ _)
  have d208 := step 204 _ _ d204
  have d212 := step 208 _ _ d208
  have d216 := step 212 _ _ d212
  have d220 := step 216 _ _ d216
  have d224 := step 220 _ _ d220
  have d228 := step 224 _ _ d224
  have d232 := step 228 _ _ d228
  have d236 := step 232 _ _ d232
  have d240 := step 236 _ _ d236
  have d244 := step 240 _ _ d240
  have d248 : bytes.drop 248 = wdName ++ (w32 l (encoding c.codec) ++ (w32 l (dataField c f) ++ opsData ops)) := by
    rw [show (248 : Nat) = 244 + 4 from rfl, ← List.drop_drop, d244]; exact drop_append_len _ _ 4 (w32_length _ _)
  have d256 : bytes.drop 256 = w32 l (encoding c.codec) ++ (w32 l (dataField c f) ++ opsData ops) := by
    rw [show (256 : Nat) = 248 + 8 from rfl, ← List.drop_drop, d248]; exact drop_append_len _ _ 8 rfl
  have d260 : bytes.drop 260 = w32 l (dataField c f) ++ opsData ops := by
    rw [show (260 : Nat) = 256 + 4 from rfl, ← List.drop_drop, d256]; exact drop_append_len _ _ 4 (w32_length _ _)
  have d264 : bytes.drop 264 = opsData ops := by
    rw [show (264 : Nat) = 260 + 4 from rfl, ← List.drop_drop, d260]; exact drop_append_len _ _ 4 (w32_length _ _)
  have hfr : f.frames = ((D / c.bw : Nat) : Int) := by rw [← hf]
  rw [hl]
  refine ⟨hlen, ?_, ?_, ?_, ?_, d264⟩
  · rw [d232, take_append_len _ _ 4 (w32_length _ _), r32_w32]
    exact wrapU_nat 32 _ (by have := hwf.2.2.2.1; omega)
  · rw [d236, take_append_len _ _ 4 (w32_length _ _), r32_w32, hfr, wrapU_nat_mod]
  · rw [d260, take_append_len _ _ 4 (w32_length _ _), r32_w32]
    unfold dataField
    rw [hds]
    by_cases hbig : (D : Int) > 0x7FFFFFFF
    · rw [if_pos hbig]
      have : min D 0x7FFFFFFF = 0x7FFFFFFF := by omega
      rw [this]; decide
    · rw [if_neg hbig, wrapU_nat 32 D (by omega)]; omega
  · rw [d204, take_append_len _ _ 4 (w32_length _ _), r32_w32, hds]
    have : ((D : Nat) : Int) + 64 = ((D + 64 : Nat) : Int) := by push_cast; rfl
    rw [this, wrapU_nat_mod]

example : r32 exCfg.little (((closedBytes (fmt exCfg) 77 exOps).drop 236).take 4) = 3 ∧
    r32 exCfg.little (((closedBytes (fmt exCfg) 77 exOps).drop 260).take 4) = 12 ∧
    r32 exCfg.little (((closedBytes (fmt exCfg) 77 exOps).drop 204).take 4) = 76 := by decide +kernel

/-- **mat5_frames_bound.**  All five encodings are sample-granular and nothing is padded: `N` frames re-open as `N`. -/
theorem mat5_frames_bound (bw N : Nat) (hbw : 0 < bw) : (N * bw) / bw = N ∧ N ≤ (N * bw) / bw ∧ (N * bw) / bw < N + 1 := by
  have : (N * bw) / bw = N := Nat.mul_div_cancel _ hbw
  omega

example : (3 * 4) / 4 = 3 := by decide

/-- **stale_frames_ignored_mat5.**  Closed bytes and update images do not depend on the caller's frames value… -/
theorem stale_frames_ignored_mat5 (c : Cfg) (ht : c.text.length = 124) (a b : Nat) (ops : List WOp) :
    closedBytes (fmt c) a ops = closedBytes (fmt c) b ops ∧ snapshotBytes (fmt c) a ops = snapshotBytes (fmt c) b ops :=
  ⟨stale_ignored (fmt c) (lawful c ht) rfl a b ops, stale_ignored_snapshot (fmt c) (lawful c ht) a b ops⟩

example : closedBytes (fmt exCfg) 0 exOps = closedBytes (fmt exCfg) 123456 exOps := by decide +kernel

/-- …but the header written by sf_open itself carries it (matrix size, cols, data size) until the first write call
    or update; such an image still re-opens with the right parameters and 0 frames, because the reader ignores
    those fields -/
theorem mat5_open_image_stale : (openW (fmt exCfg) 0).bytes ≠ (openW (fmt exCfg) 99).bytes ∧
    parse (openW (fmt exCfg) 99).bytes = .ok ⟨2, 0x200D0002, 44100, 0⟩ := by decide +kernel

/-- **mat5_snapshot_valid.**  After any session prefix, the image a header update leaves in the store parses with
    the same parameters and exactly the frames written so far, and is the 264-byte header followed by the audio
    written so far. -/
theorem mat5_snapshot_valid (c : Cfg) (hwf : c.wf) (stale : Nat) (ops : List WOp) :
    parse (snapshotBytes (fmt c) stale ops) =
      .ok { ch := c.ch, fmt := c.fmtWord, sr := quant c.sr, frames := (opsData ops).length / c.bw } ∧
    ∃ hdr, hdr.length = 264 ∧ snapshotBytes (fmt c) stale ops = hdr ++ opsData ops := by
  have ht := hwf.2.2.2.2.2.2.1
  rw [← closed_is_snapshot (fmt c) rfl stale ops]
  refine ⟨mat5_reopen_info c hwf stale ops, calcHdr (fmt c) (264 + (opsData ops).length), (lawful c ht).hlen _, ?_⟩
  exact Small2.closedBytes_eq (fmt c) (lawful c ht) rfl stale ops

example : parse (snapshotBytes (fmt exCfg) 5 [.write [1, 2, 3, 4] false]) = .ok ⟨2, 0x200D0002, 44100, 1⟩ := by decide +kernel

/-- **mat5_crash_image_any_header.**  Stronger than C11 asks: ANY header the writer can emit (any values of the
    running fields) in front of ANY number of audio bytes is a valid file with the frames its length holds — so
    also the image between a write call and the next header update re-opens with every whole frame stored so far. -/
theorem mat5_crash_image_any_header (c : Cfg) (hwf : c.wf) (f : Fields) (data : List Byte) :
    parse (hdr c f ++ data) = .ok { ch := c.ch, fmt := c.fmtWord, sr := c.sr, frames := data.length / c.bw } :=
  parse_image c hwf f data

example : parse (hdr exCfg { frames := 12345 } ++ [1, 2, 3, 4, 5]) = .ok ⟨2, 0x200D0002, 44100, 1⟩ := by decide +kernel

/-- **mat5_updates_dont_change_file** (C07 / C11): the closed bytes depend on the audio only, not on how it was
    split over write calls nor on the header updates requested in between. -/
theorem mat5_updates_dont_change_file (c : Cfg) (ht : c.text.length = 124) (stale : Nat) (ops : List WOp) :
    closedBytes (fmt c) stale ops = closedBytes (fmt c) stale [.write (opsData ops) false] := by
  rw [closedBytes_eq c ht, closedBytes_eq c ht]; simp [opsData]

example : closedBytes (fmt exCfg) 0 exOps = closedBytes (fmt exCfg) 0 [.write (opsData exOps) false] := by decide +kernel

/-- **mat5_reader_variants.**  The layouts other writers use are read as the C code reads them: the rate as a double
    (here 48000.0), names as compressed elements, and a file whose first matrix is not 1 x 1 (no sample rate: the
    first matrix is the audio, 44100 Hz is assumed); a rate element of any other type is refused. -/
theorem mat5_reader_variants :
    let pre := exText ++ verMark true ++ (mxFields true 64 1 1).flatten
    let aud := (mxFields true 0 2 0).flatten ++ (w32 true 8 ++ (wdName ++ (w32 true 3 ++ w32 true 0))) ++ [1, 0, 2, 0, 3, 0, 4, 0]
    parse (pre ++ w32 true 10 ++ srName ++ w32 true 9 ++ w32 true 8 ++ [0, 0, 0, 0, 0, 0x70, 0xE7, 0x40] ++ aud) = .ok ⟨2, 0x100D0002, 48000, 2⟩ ∧
    parse (exText ++ verMark true ++ (mxFields true 64 1 1).flatten.take 40 ++ w32 true 0x00020001 ++ [0x73, 0x72, 0, 0] ++
           rateElem true 22050 ++ aud) = .ok ⟨2, 0x100D0002, 22050, 2⟩ ∧
    parse (exText ++ verMark true ++ (mxFields true 0 2 0).flatten ++ (w32 true 8 ++ (wdName ++ (w32 true 3 ++ w32 true 0))) ++ [1, 0, 2, 0, 3, 0, 4, 0]) =
      .ok ⟨2, 0x100D0002, 44100, 2⟩ ∧
    parse (pre ++ w32 true 10 ++ srName ++ w32 true 5 ++ w32 true 4 ++ w32 true 8000 ++ w32 true 0 ++ aud) = .err := by decide +kernel

end Sf.C04Mat5
