/-
  C09 — invalid calls fail cleanly; valid calls leave no error.  The part of the property that lives in the
  handle state machine (SfModel/Handle.lean): the read / write wrappers, `sf_seek`, SFC_FILE_TRUNCATE and the flag
  commands.  Property theorems only (lemmas: SfProofs/HandleErrors.lean).

  "State unchanged" is equality of the whole handle record up to the `error` field, and equality of the store
  (bytes and position).
-/
import SfProofs.HandleErrors
namespace Sf.C09
open Sf

/-! ## invalid_call_no_effect -/

/-- read wrappers: a negative count, a write-only handle, or an item count that is not a multiple of the channel
    count (`ReadInvalid`, for `n ≠ 0`) returns 0, sets a non-zero error, and leaves every other field and the store
    as they were -/
theorem invalid_read_no_effect (h : H) (s : Store) (ty : Ty) (fc : Bool) (n : Int) (hv : ReadInvalid h fc n) :
    ∃ e, e ≠ 0 ∧ (stepRead h s ty fc n).1 = { h with error := e } ∧ (stepRead h s ty fc n).2.1 = s ∧
      (stepRead h s ty fc n).2.2.ret = 0 ∧ (stepRead h s ty fc n).2.2.err = e :=
  read_invalid h s ty fc n hv

/-- write wrappers: negative count, read-only handle, misaligned item count -/
theorem invalid_write_no_effect (h : H) (s : Store) (ty : Ty) (fc : Bool) (n : Int) (data : List Int)
    (hv : WriteInvalid h fc n) :
    ∃ e, e ≠ 0 ∧ (stepWrite h s ty fc n data).1 = { h with error := e } ∧ (stepWrite h s ty fc n data).2.1 = s ∧
      (stepWrite h s ty fc n data).2.2.ret = 0 ∧ (stepWrite h s ty fc n data).2.2.err = e :=
  write_invalid h s ty fc n data hv

/-- `sf_seek`: an unknown whence value, a mode-qualified whence that contradicts the handle's mode, or a target outside
    the file (negative; beyond the last frame on a read-only handle) returns −1, sets a non-zero error, and changes
    nothing else -/
theorem invalid_seek_no_effect (h : H) (s : Store) (off whence : Int) (hv : SeekInvalid h off whence) :
    ∃ e, e ≠ 0 ∧ stepSeek h s off whence = ({ h with error := e }, s, { ret := -1, err := e }) :=
  seek_invalid h s off whence hv

/-- the individual classes with the error each one records -/
theorem invalid_call_classes (h : H) (s : Store) (ty : Ty) (fc : Bool) (n : Int) (data : List Int) :
    (n < 0 → (stepRead h s ty fc n).1 = { h with error := E_NEG_LEN } ∧ (stepRead h s ty fc n).2.2.ret = 0) ∧
    (0 < n → h.mode = .w →
      (stepRead h s ty fc n).1 = { h with error := E_NOT_READMODE } ∧ (stepRead h s ty fc n).2.2.ret = 0) ∧
    (0 < n → h.mode ≠ .w → n % (h.ch : Int) ≠ 0 →
      (stepRead h s ty false n).1 = { h with error := E_BAD_ALIGN } ∧ (stepRead h s ty false n).2.2.ret = 0) ∧
    (n < 0 → (stepWrite h s ty fc n data).1 = { h with error := E_NEG_LEN } ∧ (stepWrite h s ty fc n data).2.2.ret = 0) ∧
    (0 < n → h.mode = .r →
      (stepWrite h s ty fc n data).1 = { h with error := E_NOT_WRITEMODE } ∧ (stepWrite h s ty fc n data).2.2.ret = 0) ∧
    (0 < n → h.mode ≠ .r → n % (h.ch : Int) ≠ 0 →
      (stepWrite h s ty false n data).1 = { h with error := E_BAD_ALIGN } ∧ (stepWrite h s ty false n data).2.2.ret = 0) :=
  ⟨fun a => by rw [stepRead_neg _ _ _ _ _ a]; exact ⟨rfl, rfl⟩,
   fun a b => by rw [stepRead_wmode _ _ _ _ _ a b]; exact ⟨rfl, rfl⟩,
   fun a b c => by rw [stepRead_align _ _ _ _ a b c]; exact ⟨rfl, rfl⟩,
   fun a => by rw [stepWrite_neg _ _ _ _ _ _ a]; exact ⟨rfl, rfl⟩,
   fun a b => by rw [stepWrite_rmode _ _ _ _ _ _ a b]; exact ⟨rfl, rfl⟩,
   fun a b c => by rw [stepWrite_align _ _ _ _ _ a b c]; exact ⟨rfl, rfl⟩⟩

/-- lifted to histories: any sequence of invalid read / write / seek calls, of any length, leaves the handle unchanged
    up to the error field and the store untouched (and `HInv` is preserved by *every* sequence, C05
    `HInv_reachable`, so valid and invalid calls may be interleaved freely around it) -/
theorem invalid_sequence_no_effect (ops : List Op) (h : H) (s : Store) (hv : ∀ op ∈ ops, OpInvalid h op) :
    ∃ e, runOps h s ops = ({ h with error := e }, s) :=
  invalid_ops_no_effect ops h s hv

/-! ### SFC_FILE_TRUNCATE

`stepTruncate` mirrors `sf_command (SFC_FILE_TRUNCATE)`: refuse a read-only handle, refuse a virtual-I/O handle (since the
TRUNC-VIO repair: SF_VIRTUAL_IO has no truncate callback), then seek, compare the seek result with the requested
position, set `sf.frames`, call `psf_ftruncate`.  `h.canTruncate` is the route flag: true for path / descriptor routes. -/

/-- NEW RULE (TRUNC-VIO repair): on a handle without `ftruncate` (SF_VIRTUAL_IO) the command is refused for EVERY argument
    before anything is touched: it returns SF_TRUE (1), reports no error, and the handle (up to the cleared error field)
    and the store are unchanged — in particular the frame count -/
theorem truncate_vio_no_effect (h : H) (s : Store) (f : Int) (hm : h.mode ≠ .r) (hc : h.canTruncate = false) :
    stepTruncate h s f = ({ h with error := 0 }, s, { ret := 1 }) :=
  stepTruncate_vio h s f hm hc

/-- a negative frame count other than −1 is rejected without effect on a descriptor route (the command's failure value is 1) -/
theorem truncate_negative_no_effect (h : H) (s : Store) (f : Int) (hm : h.mode ≠ .r) (hc : h.canTruncate = true)
    (hf : f < 0) (hf1 : f ≠ -1) :
    stepTruncate h s f = ({ h with error := E_BAD_SEEK }, s, { ret := 1, err := E_BAD_SEEK }) :=
  stepTruncate_neg h s f hm hc hf hf1

/-- `invalid_call_no_effect` for the command, at FULL strength (every mode, every route, every argument): a call that
    reports failure (non-zero return) leaves the whole handle unchanged up to the error field — the frame count and both
    positions included — and the store untouched.  (Before the repair this failed on virtual I/O:
    `truncate_invalid_no_effect_old_rule`.) -/
theorem truncate_invalid_no_effect (h : H) (s : Store) (f : Int) (hr : (stepTruncate h s f).2.2.ret ≠ 0) :
    ∃ e, (stepTruncate h s f).1 = { h with error := e } ∧ (stepTruncate h s f).2.1 = s ∧
      (stepTruncate h s f).1.frames = h.frames := by
  by_cases hm : h.mode = .r
  · rw [stepTruncate_rmode _ _ _ hm]; exact ⟨0, rfl, rfl, rfl⟩
  by_cases hc : h.canTruncate = true
  case neg => rw [stepTruncate_vio _ _ _ hm (by simpa using hc)]; exact ⟨0, rfl, rfl, rfl⟩
  by_cases hf : 0 ≤ f
  · rw [stepTruncate_ok _ _ _ hm hf, if_pos hc] at hr; exact absurd rfl hr
  · by_cases hf1 : f = -1
    · subst hf1; rw [stepTruncate_minus1 _ _ hm, if_pos hc] at hr; exact absurd rfl hr
    · rw [stepTruncate_neg _ _ _ hm hc (by omega) hf1]; exact ⟨E_BAD_SEEK, rfl, rfl, rfl⟩

/-- the statement the repair made true, kept under its old name for the record -/
def truncate_invalid_no_effect_full : Prop :=
  ∀ (h : H) (s : Store) (f : Int), HInv h s → (stepTruncate h s f).2.2.ret ≠ 0 →
    (stepTruncate h s f).1.frames = h.frames

theorem truncate_invalid_no_effect_full_holds : truncate_invalid_no_effect_full := by
  intro h s f _ hr
  obtain ⟨_, _, _, e⟩ := truncate_invalid_no_effect h s f hr
  exact e

/-- what is still wrong (descriptor routes only): a negative frame count must be refused -/
def truncate_negative_refused_full : Prop :=
  ∀ (h : H) (s : Store) (f : Int), HInv h s → h.mode ≠ .r → f < 0 →
    (stepTruncate h s f).2.2.ret ≠ 0 ∧ (stepTruncate h s f).1.frames = h.frames

def tS : Store := { bytes := [1,0, 2,0, 3,0], pos := 0 }
/-- a 6-byte stereo 16-bit RAW file opened RDWR through virtual I/O … -/
def tH : H := { store := 0, mode := .rw, container := .raw, enc := .pcm ⟨16, false, false⟩, big := false, ch := 2,
                sr := 8000, fmtWord := 0x040002, frames := 1, wpos := 1, lastOp := .rw, haveWritten := true,
                datalength := 6, filelength := 6 }
/-- … and through a descriptor (the harness records `canTruncate` after the open) -/
def tHfd : H := { tH with canTruncate := true }
theorem tH_opened : openHandle 0 tS .rw 0x040002 2 8000 = .ok tH tS := by rfl

/-- witness (descriptor route): the request −1 equals `sf_seek`'s failure value, so the failed seek is taken for success:
    the call returns 0 (success!), the frame count becomes −1, the error left by the seek stays in the handle, and the
    file is cut at the current position — here at 0, all audio lost.  (Repaired and unrepaired library alike, descriptor
    route, same script: `ret=0 err=39`, then `frames=-1`.)  On virtual I/O the same request is refused cleanly. -/
theorem truncate_minus_one_sets_frames :
    (stepTruncate tHfd tS (-1)).2.2.ret = 0 ∧ (stepTruncate tHfd tS (-1)).1.error ≠ 0 ∧
    (stepTruncate tHfd tS (-1)).1.frames = -1 ∧ (stepTruncate tHfd tS (-1)).2.1.bytes = [] ∧
    stepTruncate tH tS (-1) = ({ tH with error := 0 }, tS, { ret := 1 }) ∧
    stepTruncate tH tS 2 = ({ tH with error := 0 }, tS, { ret := 1 }) := by
  refine ⟨by decide, by decide, by decide, by decide, by rfl, by rfl⟩

theorem truncate_negative_refused_full_fails : ¬ truncate_negative_refused_full := by
  intro hfull
  have hi : HInv tHfd tS :=
    (HInv_openHandle 0 tS .rw 0x040002 2 8000 tH tS tH_opened).of_writable (by decide) rfl rfl (by decide) (by decide) (by decide)
  exact absurd (hfull tHfd tS (-1) hi (by decide) (by decide)).1 (by decide)

/-- what holds: every negative count except −1 (`truncate_negative_no_effect`), and every count on virtual I/O
    (`truncate_vio_no_effect`) -/
theorem truncate_negative_refused_partial (h : H) (s : Store) (f : Int) (hm : h.mode ≠ .r) (hf : f < 0)
    (hx : h.canTruncate = false ∨ f ≠ -1) :
    (stepTruncate h s f).2.2.ret ≠ 0 ∧ (stepTruncate h s f).1.frames = h.frames := by
  by_cases hc : h.canTruncate = true
  case neg => rw [stepTruncate_vio _ _ _ hm (by simpa using hc)]; exact ⟨Int.one_ne_zero, rfl⟩
  rcases hx with hx | hx
  · rw [hc] at hx; cases hx
  · rw [stepTruncate_neg _ _ _ hm hc hf hx]; exact ⟨Int.one_ne_zero, rfl⟩

/-- OLD RULE (before the TRUNC-VIO repair, `stepTruncateOld`, virtual I/O): witness 1 — the request −1 was taken for a
    successful seek, the frame count became −1 and `psf_ftruncate` then failed: −1 with an error;
    witness 2 — `psf_ftruncate` failed *after* `sf.frames` was set, so a request of 2 frames on a 1-frame file returned −1
    with an error and left `frames = 2` -/
theorem truncate_minus_one_sets_frames_old_rule :
    (stepTruncateOld tH tS (-1)).2.2.ret = -1 ∧ (stepTruncateOld tH tS (-1)).2.2.err ≠ 0 ∧
    (stepTruncateOld tH tS (-1)).1.frames = -1 ∧
    (stepTruncateOld tH tS 2).2.2.ret = -1 ∧ (stepTruncateOld tH tS 2).2.2.err ≠ 0 ∧ (stepTruncateOld tH tS 2).1.frames = 2 := by
  decide

/-- OLD RULE: with `stepTruncateOld` the full statement failed (a failing call changed the frame count) -/
theorem truncate_invalid_no_effect_old_rule :
    ¬ (∀ (h : H) (s : Store) (f : Int), HInv h s → (stepTruncateOld h s f).2.2.ret ≠ 0 →
        (stepTruncateOld h s f).1.frames = h.frames) := by
  intro hfull
  have hi := HInv_openHandle 0 tS .rw 0x040002 2 8000 tH tS tH_opened
  exact absurd (hfull tH tS 2 hi (by decide)) (by decide)

/-- non-vacuity of `truncate_invalid_no_effect`: the three refusing classes are inhabited (read-only handle, virtual I/O,
    negative count on a descriptor route), and a successful call (which the theorem does not speak about) does change
    the frame count -/
example : (stepTruncate { tH with mode := .r } tS 0).2.2.ret ≠ 0 ∧ (stepTruncate tH tS 0).2.2.ret ≠ 0 ∧
    (stepTruncate tHfd tS (-2)).2.2.ret ≠ 0 ∧ (stepTruncate tHfd tS 0).2.2.ret = 0 ∧ (stepTruncate tHfd tS 0).1.frames = 0 := by
  decide

/-- consequence for C05: since the repair the refused command leaves the virtual-I/O handle exactly as it was, and a
    valid items read after it returns whole frames (2 items of the 1-frame file; the old rule delivered 3 of an
    inflated frame count, C05 `read_whole_frames_old_rule`) -/
example :
    let st := runOps tH tS [.truncate 0 2, .seek 0 0 0]
    (stepRead st.1 st.2 .s16 false 4).2.2.ret = 2 ∧ (stepRead st.1 st.2 .s16 false 4).2.2.err = 0 ∧
    (stepRead st.1 st.2 .s16 false 4).1.rpos = 1 ∧ (stepRead st.1 st.2 .s16 false 4).1.frames = 1 := by decide

/-! ## success_clears_error -/

/-- a valid read (`n > 0`) leaves error 0 in the handle and reports 0, whatever the error was before; indeed for
    `n ≠ 0` the previous error has no influence on the call at all -/
theorem read_success_clears_error (h : H) (s : Store) (ty : Ty) (fc : Bool) (n : Int) (e : Int) (hi : HInv h s)
    (hv : ReadValid h fc n) :
    (stepRead { h with error := e } s ty fc n).1.error = 0 ∧ (stepRead { h with error := e } s ty fc n).2.2.err = 0 ∧
    stepRead { h with error := e } s ty fc n = stepRead h s ty fc n := by
  have hn : n ≠ 0 := by have := hv.1; omega
  rw [read_error_irrelevant h s ty fc n e hn]
  exact ⟨(read_valid_err h s ty fc n hi hv.1 hv.2.1 hv.2.2).2, (read_valid_err h s ty fc n hi hv.1 hv.2.1 hv.2.2).1, rfl⟩

theorem write_success_clears_error (h : H) (s : Store) (ty : Ty) (fc : Bool) (n : Int) (data : List Int) (e : Int)
    (hi : HInv h s) (hv : WriteValid h fc n) :
    (stepWrite { h with error := e } s ty fc n data).1.error = 0 ∧
    (stepWrite { h with error := e } s ty fc n data).2.2.err = 0 ∧
    stepWrite { h with error := e } s ty fc n data = stepWrite h s ty fc n data := by
  have hn : n ≠ 0 := by have := hv.1; omega
  rw [write_error_irrelevant h s ty fc n data e hn]
  obtain ⟨_, a, b, _⟩ := write_contract_valid h s ty fc n data hi hv.1 hv.2.1 hv.2.2
  exact ⟨b, a, rfl⟩

/-- `sf_seek` ignores the previous error; when it succeeds (does not return −1 with an error) the error is 0 -/
theorem seek_success_clears_error (h : H) (s : Store) (off whence : Int) (e : Int) :
    stepSeek { h with error := e } s off whence = stepSeek h s off whence ∧
    ((stepSeek h s off whence).2.2.err = 0 → (stepSeek h s off whence).1.error = 0) := by
  refine ⟨rfl, fun hok => ?_⟩
  rcases seek_result_any h s off whence with ⟨_, hne, _⟩ | ⟨_, _, _, _, he, _⟩
  · exact absurd hok hne
  · exact he

/-- the flag commands always succeed and leave error 0 -/
theorem cmd_flag_clears_error (h : H) (s : Store) (cmd : Nat) (size : Int) :
    (stepCmdFlag h s cmd size).1.error = 0 ∧ (stepCmdFlag h s cmd size).2.2.err = 0 := by
  obtain ⟨cv, ah, ⟨fl, dl, off, e, _⟩, he, _⟩ := stepCmdFlag_fields h s cmd size
  exact ⟨by rw [e], he⟩

/-! ### the special case `n = 0`

`sf_read_* (f, p, 0)` / `sf_write_* (f, p, 0)` return 0 before the handle is looked at: the call neither validates
the mode nor clears the error. -/

theorem zero_count_returns_early (h : H) (s : Store) (ty : Ty) (fc : Bool) (data : List Int) :
    stepRead h s ty fc 0 = (h, s, { ret := 0, err := h.error }) ∧
    stepWrite h s ty fc 0 data = (h, s, { ret := 0, err := h.error }) :=
  ⟨stepRead_zero h s ty fc, stepWrite_zero h s ty fc data⟩

/-- the full statement: every call that is not invalid leaves error 0 (here for reads with `n ≥ 0`) -/
def success_clears_error_full : Prop :=
  ∀ (h : H) (s : Store) (ty : Ty) (fc : Bool) (n : Int), HInv h s →
    0 ≤ n → h.mode ≠ .w → (fc = true ∨ n % (h.ch : Int) = 0) → (stepRead h s ty fc n).1.error = 0

/-- what holds: `n ≠ 0` -/
theorem success_clears_error_partial (h : H) (s : Store) (ty : Ty) (fc : Bool) (n : Int) (hi : HInv h s)
    (hn : 0 ≤ n) (hn0 : n ≠ 0) (hm : h.mode ≠ .w) (ha : fc = true ∨ n % (h.ch : Int) = 0) :
    (stepRead h s ty fc n).1.error = 0 :=
  (read_valid_err h s ty fc n hi (by omega) hm ha).2

/-- witness: read-only handle, a failed seek (error set), then a zero-length read: the error stays -/
def eS : Store := { bytes := [1,0, 2,0, 3,0, 4,0], pos := 0 }
def eH : H := { store := 0, mode := .r, container := .raw, enc := .pcm ⟨16, false, false⟩, big := false, ch := 2,
                sr := 8000, fmtWord := 0x040002, frames := 2, lastOp := .r, datalength := 8, filelength := 8 }
theorem eH_opened : openHandle 0 eS .r 0x040002 2 8000 = .ok eH eS := by rfl

theorem success_clears_error_full_fails : ¬ success_clears_error_full := by
  intro hfull
  have hi := HInv_reachable 0 eS .r 0x040002 2 8000 eH eS eH_opened [.seek 0 9 0]
  exact absurd (hfull _ _ .s16 true 0 hi (by decide) (by decide) (Or.inl rfl)) (by decide)

/-! ## non-vacuity -/

example : ReadInvalid eH false 3 ∧ ReadInvalid eH true (-1) ∧ WriteInvalid eH true 1 ∧
    SeekInvalid eH 0 7 ∧ SeekInvalid eH 3 0 ∧ SeekInvalid eH 0 0x20 := by
  refine ⟨by unfold ReadInvalid; decide, by unfold ReadInvalid; decide, by unfold WriteInvalid; decide,
    Or.inl (by unfold seekKnown; decide), Or.inr (Or.inr ⟨0, by decide, by unfold seekIsTell; decide, by decide⟩),
    Or.inr (Or.inl (by decide))⟩
example : (stepRead eH eS .s16 false 3).2.2.err = E_BAD_ALIGN ∧ (stepSeek eH eS 3 0).2.2.ret = -1 ∧
    (stepSeek eH eS 0 7).2.2.err = E_BAD_SEEK ∧ (stepSeek eH eS 0 0x20).2.2.err = E_WRONG_SEEK ∧
    (stepRead (stepSeek eH eS 3 0).1 (stepSeek eH eS 3 0).2.1 .s16 true 1).1.error = 0 := by decide

end Sf.C09
