/-
  C09 — invalid calls fail cleanly; valid calls leave no error.  The part of the property that lives in the
  handle state machine (SfModel/Handle.lean): the read / write wrappers, `sf_seek`, SFC_FILE_TRUNCATE and the flag
  commands.  Property theorems only (lemmas: SfProofs/HandleErrors.lean).

  "State unchanged" is equality of the whole handle record up to the `error` field, and equality of the store
  (bytes and position).
-/
import SfProofs.HandleErrors
namespace Sf.C09
open Sf

/-! ## invalid_call_no_effect -/

/-- read wrappers: a negative count, a write-only handle, or an item count that is not a multiple of the channel
    count (`ReadInvalid`, for `n ≠ 0`) returns 0, sets a non-zero error, and leaves every other field and the store
    as they were -/
theorem invalid_read_no_effect (h : H) (s : Store) (ty : Ty) (fc : Bool) (n : Int) (hv : ReadInvalid h fc n) :
    ∃ e, e ≠ 0 ∧ (stepRead h s ty fc n).1 = { h with error := e } ∧ (stepRead h s ty fc n).2.1 = s ∧
      (stepRead h s ty fc n).2.2.ret = 0 ∧ (stepRead h s ty fc n).2.2.err = e :=
  read_invalid h s ty fc n hv

/-- write wrappers: negative count, read-only handle, misaligned item count -/
theorem invalid_write_no_effect (h : H) (s : Store) (ty : Ty) (fc : Bool) (n : Int) (data : List Int)
    (hv : WriteInvalid h fc n) :
    ∃ e, e ≠ 0 ∧ (stepWrite h s ty fc n data).1 = { h with error := e } ∧ (stepWrite h s ty fc n data).2.1 = s ∧
      (stepWrite h s ty fc n data).2.2.ret = 0 ∧ (stepWrite h s ty fc n data).2.2.err = e :=
  write_invalid h s ty fc n data hv

/-- `sf_seek`: an unknown whence value, a mode-qualified whence that contradicts the handle's mode, or a target outside
    the file (negative; beyond the last frame on a read-only handle) returns −1, sets a non-zero error, and changes
    nothing else -/
theorem invalid_seek_no_effect (h : H) (s : Store) (off whence : Int) (hv : SeekInvalid h off whence) :
    ∃ e, e ≠ 0 ∧ stepSeek h s off whence = ({ h with error := e }, s, { ret := -1, err := e }) :=
  seek_invalid h s off whence hv

/-- the individual classes with the error each one records -/
theorem invalid_call_classes (h : H) (s : Store) (ty : Ty) (fc : Bool) (n : Int) (data : List Int) :
    (n < 0 → (stepRead h s ty fc n).1 = { h with error := E_NEG_LEN } ∧ (stepRead h s ty fc n).2.2.ret = 0) ∧
    (0 < n → h.mode = .w →
      (stepRead h s ty fc n).1 = { h with error := E_NOT_READMODE } ∧ (stepRead h s ty fc n).2.2.ret = 0) ∧
    (0 < n → h.mode ≠ .w → n % (h.ch : Int) ≠ 0 →
      (stepRead h s ty false n).1 = { h with error := E_BAD_ALIGN } ∧ (stepRead h s ty false n).2.2.ret = 0) ∧
    (n < 0 → (stepWrite h s ty fc n data).1 = { h with error := E_NEG_LEN } ∧ (stepWrite h s ty fc n data).2.2.ret = 0) ∧
    (0 < n → h.mode = .r →
      (stepWrite h s ty fc n data).1 = { h with error := E_NOT_WRITEMODE } ∧ (stepWrite h s ty fc n data).2.2.ret = 0) ∧
    (0 < n → h.mode ≠ .r → n % (h.ch : Int) ≠ 0 →
      (stepWrite h s ty false n data).1 = { h with error := E_BAD_ALIGN } ∧ (stepWrite h s ty false n data).2.2.ret = 0) :=
  ⟨fun a => by rw [stepRead_neg _ _ _ _ _ a]; exact ⟨rfl, rfl⟩,
   fun a b => by rw [stepRead_wmode _ _ _ _ _ a b]; exact ⟨rfl, rfl⟩,
   fun a b c => by rw [stepRead_align _ _ _ _ a b c]; exact ⟨rfl, rfl⟩,
   fun a => by rw [stepWrite_neg _ _ _ _ _ _ a]; exact ⟨rfl, rfl⟩,
   fun a b => by rw [stepWrite_rmode _ _ _ _ _ _ a b]; exact ⟨rfl, rfl⟩,
   fun a b c => by rw [stepWrite_align _ _ _ _ _ a b c]; exact ⟨rfl, rfl⟩⟩

/-- lifted to histories: any sequence of invalid read / write / seek calls, of any length, leaves the handle unchanged
    up to the error field and the store untouched (and `HInv` is preserved by *every* sequence, C05
    `HInv_reachable`, so valid and invalid calls may be interleaved freely around it) -/
theorem invalid_sequence_no_effect (ops : List Op) (h : H) (s : Store) (hv : ∀ op ∈ ops, OpInvalid h op) :
    ∃ e, runOps h s ops = ({ h with error := e }, s) :=
  invalid_ops_no_effect ops h s hv

/-! ### SFC_FILE_TRUNCATE: where an invalid / failing call does change the frame count

`stepTruncate` mirrors `sf_command (SFC_FILE_TRUNCATE)`: it seeks, compares the seek result with the requested
position, *then sets `sf.frames`*, then calls `psf_ftruncate`. -/

/-- a negative frame count other than −1 is rejected without effect (the command's failure value is 1) -/
theorem truncate_negative_no_effect (h : H) (s : Store) (f : Int) (hm : h.mode ≠ .r) (hf : f < 0) (hf1 : f ≠ -1) :
    stepTruncate h s f = ({ h with error := E_BAD_SEEK }, s, { ret := 1, err := E_BAD_SEEK }) :=
  stepTruncate_neg h s f hm hf hf1

/-- the full statement for the command: a call that reports failure leaves the frame count alone -/
def truncate_invalid_no_effect_full : Prop :=
  ∀ (h : H) (s : Store) (f : Int), HInv h s → (stepTruncate h s f).2.2.ret ≠ 0 →
    (stepTruncate h s f).1.frames = h.frames

/-- witness 1: the request −1 equals `sf_seek`'s failure value, so the failed seek is taken for success and the frame
    count becomes −1 (the call still reports failure).
    witness 2 (same theorem, second component): on a virtual-I/O handle `psf_ftruncate` fails *after* `sf.frames` was
    set, so a request of 2 frames on a 1-frame file returns −1 with an error and leaves `frames = 2`. -/
def tS : Store := { bytes := [1,0, 2,0, 3,0], pos := 0 }
def tH : H := { store := 0, mode := .rw, container := .raw, enc := .pcm ⟨16, false, false⟩, big := false, ch := 2,
                sr := 8000, fmtWord := 0x040002, frames := 1, wpos := 1, lastOp := .rw, haveWritten := true,
                datalength := 6, filelength := 6 }
theorem tH_opened : openHandle 0 tS .rw 0x040002 2 8000 = .ok tH tS := by rfl

theorem truncate_minus_one_sets_frames : (stepTruncate tH tS (-1)).2.2.ret = -1 ∧ (stepTruncate tH tS (-1)).2.2.err ≠ 0 ∧
    (stepTruncate tH tS (-1)).1.frames = -1 ∧
    (stepTruncate tH tS 2).2.2.ret = -1 ∧ (stepTruncate tH tS 2).2.2.err ≠ 0 ∧ (stepTruncate tH tS 2).1.frames = 2 := by
  decide

theorem truncate_invalid_no_effect_full_fails : ¬ truncate_invalid_no_effect_full := by
  intro hfull
  have hi := HInv_openHandle 0 tS .rw 0x040002 2 8000 tH tS tH_opened
  exact absurd (hfull tH tS (-1) hi (by decide)) (by decide)

/-- consequence for C05 (RDWR only): after the failed truncate above the store no longer holds `frames` whole frames,
    and a valid items read returns 3 items on a 2-channel file and stops short of the (inflated) frame count -/
example :
    let st := runOps tH tS [.truncate 0 2, .seek 0 0 0]
    (stepRead st.1 st.2 .s16 false 4).2.2.ret = 3 ∧ (stepRead st.1 st.2 .s16 false 4).2.2.err = 0 ∧
    (stepRead st.1 st.2 .s16 false 4).1.rpos = 1 ∧ (stepRead st.1 st.2 .s16 false 4).1.frames = 2 := by decide

/-! ## success_clears_error -/

/-- a valid read (`n > 0`) leaves error 0 in the handle and reports 0, whatever the error was before; indeed for
    `n ≠ 0` the previous error has no influence on the call at all -/
theorem read_success_clears_error (h : H) (s : Store) (ty : Ty) (fc : Bool) (n : Int) (e : Int) (hi : HInv h s)
    (hv : ReadValid h fc n) :
    (stepRead { h with error := e } s ty fc n).1.error = 0 ∧ (stepRead { h with error := e } s ty fc n).2.2.err = 0 ∧
    stepRead { h with error := e } s ty fc n = stepRead h s ty fc n := by
  have hn : n ≠ 0 := by have := hv.1; omega
  rw [read_error_irrelevant h s ty fc n e hn]
  exact ⟨(read_valid_err h s ty fc n hi hv.1 hv.2.1 hv.2.2).2, (read_valid_err h s ty fc n hi hv.1 hv.2.1 hv.2.2).1, rfl⟩

theorem write_success_clears_error (h : H) (s : Store) (ty : Ty) (fc : Bool) (n : Int) (data : List Int) (e : Int)
    (hi : HInv h s) (hv : WriteValid h fc n) :
    (stepWrite { h with error := e } s ty fc n data).1.error = 0 ∧
    (stepWrite { h with error := e } s ty fc n data).2.2.err = 0 ∧
    stepWrite { h with error := e } s ty fc n data = stepWrite h s ty fc n data := by
  have hn : n ≠ 0 := by have := hv.1; omega
  rw [write_error_irrelevant h s ty fc n data e hn]
  obtain ⟨_, a, b, _⟩ := write_contract_valid h s ty fc n data hi hv.1 hv.2.1 hv.2.2
  exact ⟨b, a, rfl⟩

/-- `sf_seek` ignores the previous error; when it succeeds (does not return −1 with an error) the error is 0 -/
theorem seek_success_clears_error (h : H) (s : Store) (off whence : Int) (e : Int) :
    stepSeek { h with error := e } s off whence = stepSeek h s off whence ∧
    ((stepSeek h s off whence).2.2.err = 0 → (stepSeek h s off whence).1.error = 0) := by
  refine ⟨rfl, fun hok => ?_⟩
  rcases seek_result_any h s off whence with ⟨_, hne, _⟩ | ⟨_, _, _, _, he, _⟩
  · exact absurd hok hne
  · exact he

/-- the flag commands always succeed and leave error 0 -/
theorem cmd_flag_clears_error (h : H) (s : Store) (cmd : Nat) (size : Int) :
    (stepCmdFlag h s cmd size).1.error = 0 ∧ (stepCmdFlag h s cmd size).2.2.err = 0 := by
  obtain ⟨cv, ah, ⟨fl, dl, off, e, _⟩, he, _⟩ := stepCmdFlag_fields h s cmd size
  exact ⟨by rw [e], he⟩

/-! ### the special case `n = 0`

`sf_read_* (f, p, 0)` / `sf_write_* (f, p, 0)` return 0 before the handle is looked at: the call neither validates
the mode nor clears the error. -/

theorem zero_count_returns_early (h : H) (s : Store) (ty : Ty) (fc : Bool) (data : List Int) :
    stepRead h s ty fc 0 = (h, s, { ret := 0, err := h.error }) ∧
    stepWrite h s ty fc 0 data = (h, s, { ret := 0, err := h.error }) :=
  ⟨stepRead_zero h s ty fc, stepWrite_zero h s ty fc data⟩

/-- the full statement: every call that is not invalid leaves error 0 (here for reads with `n ≥ 0`) -/
def success_clears_error_full : Prop :=
  ∀ (h : H) (s : Store) (ty : Ty) (fc : Bool) (n : Int), HInv h s →
    0 ≤ n → h.mode ≠ .w → (fc = true ∨ n % (h.ch : Int) = 0) → (stepRead h s ty fc n).1.error = 0

/-- what holds: `n ≠ 0` -/
theorem success_clears_error_partial (h : H) (s : Store) (ty : Ty) (fc : Bool) (n : Int) (hi : HInv h s)
    (hn : 0 ≤ n) (hn0 : n ≠ 0) (hm : h.mode ≠ .w) (ha : fc = true ∨ n % (h.ch : Int) = 0) :
    (stepRead h s ty fc n).1.error = 0 :=
  (read_valid_err h s ty fc n hi (by omega) hm ha).2

/-- witness: read-only handle, a failed seek (error set), then a zero-length read: the error stays -/
def eS : Store := { bytes := [1,0, 2,0, 3,0, 4,0], pos := 0 }
def eH : H := { store := 0, mode := .r, container := .raw, enc := .pcm ⟨16, false, false⟩, big := false, ch := 2,
                sr := 8000, fmtWord := 0x040002, frames := 2, lastOp := .r, datalength := 8, filelength := 8 }
theorem eH_opened : openHandle 0 eS .r 0x040002 2 8000 = .ok eH eS := by rfl

theorem success_clears_error_full_fails : ¬ success_clears_error_full := by
  intro hfull
  have hi := HInv_reachable 0 eS .r 0x040002 2 8000 eH eS eH_opened [.seek 0 9 0]
  exact absurd (hfull _ _ .s16 true 0 hi (by decide) (by decide) (Or.inl rfl)) (by decide)

/-! ## non-vacuity -/

example : ReadInvalid eH false 3 ∧ ReadInvalid eH true (-1) ∧ WriteInvalid eH true 1 ∧
    SeekInvalid eH 0 7 ∧ SeekInvalid eH 3 0 ∧ SeekInvalid eH 0 0x20 := by
  refine ⟨by unfold ReadInvalid; decide, by unfold ReadInvalid; decide, by unfold WriteInvalid; decide,
    Or.inl (by unfold seekKnown; decide), Or.inr (Or.inr ⟨0, by decide, by unfold seekIsTell; decide, by decide⟩),
    Or.inr (Or.inl (by decide))⟩
example : (stepRead eH eS .s16 false 3).2.2.err = E_BAD_ALIGN ∧ (stepSeek eH eS 3 0).2.2.ret = -1 ∧
    (stepSeek eH eS 0 7).2.2.err = E_BAD_SEEK ∧ (stepSeek eH eS 0 0x20).2.2.err = E_WRONG_SEEK ∧
    (stepRead (stepSeek eH eS 3 0).1 (stepSeek eH eS 3 0).2.1 .s16 true 1).1.error = 0 := by decide

end Sf.C09
