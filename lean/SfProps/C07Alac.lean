/-
  C07 (CAF/ALAC) — the bytes of a closed ALAC file depend only on the concatenated frames, for EVERY codec core
  (`Sf.Alac.Codec`, any state type, any encoder function): the staging loop of `alac_write_*` cuts the stream into
  packets of 4096 frames wherever the calls were cut.  Model: SfModel/AlacFile.lean.  Property theorems only.
-/
import SfModel.AlacFile
namespace Sf.C07Alac
open Sf Sf.Alac

variable {σ α : Type}

theorem writeLoop_nil (cd : Codec σ α) (w : W σ α) : writeLoop cd w [] = w := by
  rw [writeLoop]; simp

theorem writeLoop_step (cd : Codec σ α) (w : W σ α) (xs : List α) (h : xs ≠ []) :
    writeLoop cd w xs = writeLoop cd (writeStep cd w xs) (xs.drop (wcOf w.staged.length xs.length)) := by
  rw [writeLoop]; simp [h]

/-- a write call that does not fill the packet only stages -/
theorem writeLoop_short (cd : Codec σ α) (w : W σ α) (xs : List α) (h : w.staged.length + xs.length < fpb) :
    writeLoop cd w xs = { w with staged := w.staged ++ xs } := by
  by_cases hx : xs = []
  · subst hx; rw [writeLoop_nil]; simp
  · have hl : xs.length > 0 := List.length_pos_iff.mpr hx
    have hwc : wcOf w.staged.length xs.length = xs.length := by
      unfold wcOf; rw [if_pos]; right; omega
    rw [writeLoop_step cd w xs hx, hwc, List.drop_length, writeLoop_nil]
    unfold writeStep
    rw [hwc, List.take_length]
    simp only [List.length_append]
    rw [if_neg (by omega)]

/-- the staging invariant: fewer than 4096 frames are staged between calls -/
theorem writeLoop_staged (cd : Codec σ α) : ∀ (n : Nat) (xs : List α), xs.length = n → ∀ (w : W σ α),
    w.staged.length < fpb → (writeLoop cd w xs).staged.length < fpb := by
  intro n
  induction n using Nat.strongRecOn with
  | ind n ih =>
    intro xs hn w hw
    by_cases hx : xs = []
    · subst hx; rw [writeLoop_nil]; exact hw
    · have hl : xs.length > 0 := List.length_pos_iff.mpr hx
      by_cases hs : w.staged.length + xs.length < fpb
      · rw [writeLoop_short cd w xs hs]; simp only [List.length_append]; exact hs
      · have hwc : wcOf w.staged.length xs.length = fpb - w.staged.length := by
          unfold wcOf; rw [if_neg]; omega
        rw [writeLoop_step cd w xs hx, hwc]
        apply ih (xs.length - (fpb - w.staged.length)) (by omega) _ (by rw [List.length_drop])
        unfold writeStep
        rw [hwc]
        simp only [List.length_append, List.length_take]
        rw [if_pos (by omega)]
        show ([] : List α).length < fpb
        simp [fpb]

/-- THE partition lemma: writing `xs` and then `ys` leaves the writer (encoder state, staged frames, packet table,
    temporary file) exactly where writing `xs ++ ys` in one call does -/
theorem writeLoop_append (cd : Codec σ α) : ∀ (n : Nat) (xs : List α), xs.length = n → ∀ (w : W σ α) (ys : List α),
    w.staged.length < fpb → writeLoop cd w (xs ++ ys) = writeLoop cd (writeLoop cd w xs) ys := by
  intro n
  induction n using Nat.strongRecOn with
  | ind n ih =>
    intro xs hn w ys hw
    by_cases hx : xs = []
    · subst hx; rw [writeLoop_nil]; simp
    by_cases hy : ys = []
    · subst hy; rw [writeLoop_nil]; simp
    have hlx : xs.length > 0 := List.length_pos_iff.mpr hx
    have hly : ys.length > 0 := List.length_pos_iff.mpr hy
    have hxy : xs ++ ys ≠ [] := by simp [hx]
    by_cases hs : w.staged.length + xs.length < fpb
    · -- the first call only stages
      rw [writeLoop_short cd w xs hs]
      by_cases hs2 : w.staged.length + xs.length + ys.length < fpb
      · rw [writeLoop_short cd w (xs ++ ys) (by rw [List.length_append]; omega),
            writeLoop_short cd _ ys (by simp only [List.length_append]; omega)]
        simp
      · have hwc1 : wcOf w.staged.length (xs ++ ys).length = fpb - w.staged.length := by
          unfold wcOf; rw [if_neg]; rw [List.length_append]; omega
        have hwc2 : wcOf (w.staged ++ xs).length ys.length = fpb - w.staged.length - xs.length := by
          unfold wcOf; rw [if_neg] <;> simp only [List.length_append] <;> omega
        rw [writeLoop_step cd w (xs ++ ys) hxy, writeLoop_step cd _ ys hy, hwc1]
        simp only [hwc2]
        have ht : List.take (fpb - w.staged.length) (xs ++ ys) = xs ++ List.take (fpb - w.staged.length - xs.length) ys := by
          rw [List.take_append]
          rw [List.take_of_length_le (by omega)]
        have hd : List.drop (fpb - w.staged.length) (xs ++ ys) = List.drop (fpb - w.staged.length - xs.length) ys := by
          rw [List.drop_append]
          rw [List.drop_of_length_le (by omega)]; simp
        rw [hd]
        congr 1
        unfold writeStep
        rw [hwc1, ht]
        simp only [hwc2, List.append_assoc]
    · -- the first call fills the packet: same first step, then the induction hypothesis on the rest
      have hwc1 : wcOf w.staged.length (xs ++ ys).length = fpb - w.staged.length := by
        unfold wcOf; rw [if_neg]; rw [List.length_append]; omega
      have hwc2 : wcOf w.staged.length xs.length = fpb - w.staged.length := by
        unfold wcOf; rw [if_neg]; omega
      have ht : List.take (fpb - w.staged.length) (xs ++ ys) = List.take (fpb - w.staged.length) xs := by
        rw [List.take_append_of_le_length (by omega)]
      have hd : List.drop (fpb - w.staged.length) (xs ++ ys) = List.drop (fpb - w.staged.length) xs ++ ys := by
        rw [List.drop_append_of_le_length (by omega)]
      have hst : writeStep cd w (xs ++ ys) = writeStep cd w xs := by
        unfold writeStep; rw [hwc1, hwc2, ht]
      rw [writeLoop_step cd w (xs ++ ys) hxy, writeLoop_step cd w xs hx, hwc1, hwc2, hd, hst]
      apply ih (xs.length - (fpb - w.staged.length)) (by omega) _ (by rw [List.length_drop])
      unfold writeStep
      rw [hwc2]
      simp only [List.length_append, List.length_take]
      rw [if_pos (by omega)]
      show ([] : List α).length < fpb
      simp [fpb]

/-- the wrapper's frame count is not read by the codec loop -/
theorem writeLoop_frames_irrel (cd : Codec σ α) : ∀ (n : Nat) (xs : List α), xs.length = n → ∀ (v : W σ α) (k : Nat),
    writeLoop cd { v with frames := k } xs = { writeLoop cd v xs with frames := k } := by
  intro n
  induction n using Nat.strongRecOn with
  | ind n ih =>
    intro xs hn v k
    by_cases hx : xs = []
    · subst hx; simp [writeLoop_nil]
    · have hl0 : xs.length > 0 := List.length_pos_iff.mpr hx
      have hst : writeStep cd { v with frames := k } xs = { writeStep cd v xs with frames := k } := by
        unfold writeStep encodeBlock; simp only; split <;> rfl
      rw [writeLoop_step cd _ xs hx, writeLoop_step cd v xs hx, hst]
      exact ih _ (by rw [← hn, List.length_drop]; unfold wcOf; split <;> omega) _ rfl _ _

theorem writeLoop_frames (cd : Codec σ α) (w : W σ α) (xs : List α) : (writeLoop cd w xs).frames = w.frames := by
  have h := writeLoop_frames_irrel cd xs.length xs rfl w w.frames
  have he : ({ w with frames := w.frames } : W σ α) = w := rfl
  rw [he] at h
  rw [h]

theorem writeCall_eq (cd : Codec σ α) (w : W σ α) (c : List α) :
    writeCall cd w c = { writeLoop cd w c with frames := w.frames + c.length } := by
  unfold writeCall; simp only [writeLoop_frames]

/-- a history of write calls, seen from the codec: one call with the concatenation -/
theorem writeCalls_loop (cd : Codec σ α) : ∀ (calls : List (List α)) (w : W σ α), w.staged.length < fpb →
    writeCalls cd w calls = { writeLoop cd w calls.flatten with frames := w.frames + calls.flatten.length } := by
  intro calls
  induction calls with
  | nil => intro w _; simp [writeCalls, writeLoop_nil]
  | cons c cs ih =>
    intro w hw
    have hinv : (writeCall cd w c).staged.length < fpb := by
      rw [writeCall_eq]; exact writeLoop_staged cd c.length c rfl w hw
    have hc : writeCalls cd w (c :: cs) = writeCalls cd (writeCall cd w c) cs := by simp [writeCalls]
    rw [hc, ih (writeCall cd w c) hinv, writeCall_eq, writeLoop_frames_irrel cd _ _ rfl,
        ← writeLoop_append cd c.length c rfl w cs.flatten hw]
    simp [List.length_append, Nat.add_assoc]

/-- C07 for CAF/ALAC, every codec core: two histories of write calls with the same concatenated frames give the same file,
    byte for byte (header with kuki and pakt chunks, packets, pad byte) -/
theorem closed_bytes_partition_independent (c : Cfg) (cd : Codec σ α) (calls1 calls2 : List (List α))
    (h : calls1.flatten = calls2.flatten) :
    closedBytes c cd (writeCalls cd (W.init cd) calls1) = closedBytes c cd (writeCalls cd (W.init cd) calls2) := by
  have hw : (W.init cd : W σ α).staged.length < fpb := by simp [W.init, fpb]
  rw [writeCalls_loop cd calls1 _ hw, writeCalls_loop cd calls2 _ hw, h]

/-- non-vacuity: 4097 frames written as 4095 + 2 and as 1 + 4096 through a codec whose packets record their frame count -/
example :
    let cd : Codec Unit Unit := { init := (), enc := fun _ st => ((), [st.length % 256, st.length / 256]), dec := fun _ => [] }
    (writeCalls cd (W.init cd) [List.replicate 4095 (), List.replicate 2 ()]).sizes = [2] ∧
    (finish cd (writeCalls cd (W.init cd) [List.replicate 1 (), List.replicate 4096 ()])).tmp = [0, 16, 1, 0] := by
  refine ⟨?_, ?_⟩ <;> decide +kernel

end Sf.C07Alac
