/-
  C07 on the WRITE-SIDE PREDICATE (SfModel/AbsWrite.lean) — the clause `partition` of `Sf.AbsWrite.judge`, which the check
  evaluates on the implementation's own records (`sfmodel abs-write`): what an accepted record MEANS, and that the bytes
  the concrete model is proved to produce (`C07.file_bytes_partition_finite`) ARE accepted.
  Property theorems only; lemmas in SfProofs/AbsWrite*.lean.
-/
import SfProofs.AbsWriteComplete
import SfProps.C07
namespace Sf.C07AbsW
open Sf Sf.Abs Sf.AbsWrite

/-- MEANING (C07 at full strength, any container, any encoding): in an accepted record with a split run, the two runs
    were handed EQUAL CONCATENATIONS of samples, every call of either run accepted what it was handed — whatever the
    sizes, the item / frame variants and the header updates in between — and the closed files are EQUAL BYTE FOR BYTE
    (audio data and headers). -/
theorem partition_abs (r : Record) (sp : Run) (h : accepted r = true) (hs : r.split = some sp) :
    handed sp.calls = handed r.one.calls ∧ (∀ c ∈ r.one.calls, c.ret = c.n) ∧ (∀ c ∈ sp.calls, c.ret = c.n) ∧
    r.one.bytes = sp.bytes := by
  have a := accepted_meaning r h
  obtain ⟨_, h2, h3, h4, _⟩ := a.split sp hs
  exact ⟨h2, a.calls, h3, partitionOk_meaning _ _ h4⟩

/-- what "equal concatenations" is made of: the supplied regions of the calls, in order -/
theorem handed_concat (c : Call) (cs : List Call) : handed (c :: cs) = c.data ++ handed cs ∧ handed [] = #[] :=
  ⟨handed_cons c cs, rfl⟩

/-- COMPLETENESS against `C07.file_bytes_partition_finite`: for every RAW / AU / WAV session of the concrete model (PEAK
    carrying files included, finite samples), the closed bytes of ANY list of well-formed calls and the closed bytes of the
    single call with the concatenation — as the campaign records them — are accepted by the `partition` clause. -/
theorem file_bytes_partition_accepted (fmt : Nat) (ch sr : Int) (h : H) (s : Store)
    (ho : openHandle 0 {} .w fmt ch sr = .ok h s)
    (ty : Ty) (ops : List WOp) (hok : ∀ op ∈ ops, op.ok h) (ht : ∀ op ∈ ops, op.hasTy ty) (hfin : C07.FiniteOps h ty ops)
    (f1 f2 : List Byte) (h1 : closeBytes fmt ch sr [C07.oneCall ty ops] = some f1) (h2 : closeBytes fmt ch sr ops = some f2)
    (one split : Run) (hb1 : one.bytes = f1.toArray) (hb2 : split.bytes = f2.toArray) :
    partitionOk one split = true := by
  have := C07.file_bytes_partition_finite fmt ch sr h s ho ty ops hok ht hfin
  rw [h1, h2] at this
  injection this with e
  exact partitionOk_complete one split (by rw [hb1, hb2, e])

/-! ## non-vacuity: the stereo 16-bit AU job (3 frames in one call vs. a frames call + an items call with a header update) -/

def exG : AbsWrite.Geom := { word := 0x00030002, ch := 2, sr := 44100 }
def exBytes : Array Item :=
  #[46,115,110,100, 0,0,0,24, 0,0,0,12, 0,0,0,3, 0,0,172,68, 0,0,0,2, 0,1,255,254,0,3,255,252,0,5,0,6]
def exInfo (f : Int) : Info := { ch := 2, sr := 44100, fmt := 0x00030002, frames := f }
def exSplit : Run :=
  { calls := [{ ty := .s16, fc := true, n := 1, data := #[1, 0xFFFE], ret := 1 },
              { ty := .s16, fc := false, n := 4, data := #[3, 0xFFFC, 5, 6], ret := 4 }], bytes := exBytes }
def exRec : Record :=
  { g := exG, ty := .s16,
    one := { calls := [{ ty := .s16, fc := true, n := 3, data := #[1, 0xFFFE, 3, 0xFFFC, 5, 6], ret := 3 }], bytes := exBytes },
    info := exInfo 3,
    rb := { ret := 6, data := #[1, 0xFFFE, 3, 0xFFFC, 5, 6, 0xA5A5, 0xA5A5] },
    split := some exSplit }

example : accepted exRec = true ∧ exRec.split = some exSplit := ⟨by decide, rfl⟩
/-- the split run's header says 2 frames (a stale length): `partition`; a call of the split run accepts less: `write` in run 2 -/
example : judge { exRec with split := some { exSplit with bytes := exBytes.set! 11 8 } } = [{ tag := "partition", run := 2 }] := by decide
example : judge { exRec with split := some { exSplit with calls := exSplit.calls.map fun c => { c with ret := 1 } } } =
    [{ tag := "write", run := 2, idx := 1 }] := by decide
/-- two runs that were NOT handed the same samples are no comparison at all -/
example : judge { exRec with split := some { exSplit with calls := exSplit.calls.take 1 } } = [{ tag := "record", run := 2 }] := by decide
/-- the model side: the two call lists of this record give the same AU file -/
example : closeBytes 0x030002 2 44100 [.write .s16 true 1 [1, -2], .updHeader 0, .write .s16 false 4 [3, -4, 5, 6]] =
    closeBytes 0x030002 2 44100 [.write .s16 false 6 [1, -2, 3, -4, 5, 6]] := by decide +kernel

end Sf.C07AbsW
