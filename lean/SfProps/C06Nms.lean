/-
  C06 / C05 (NMS ADPCM, src/nms_adpcm.c) — the read side.
  -- properties: C05

  The sample stream of an opened NMS ADPCM file is `(reader r data).slice`: a function of the rate and of the bytes of
  the data region only (sequential decode with the decoder state carried through all blocks).  For every handle state
  reached from open by reads, every caller type (the 4096-short staging loop of the int / float / double entry points
  included), every request that ends inside the data: the call delivers exactly the next frames of that stream, reports
  the count asked, advances the position by it — so every partition of a read delivers the same items; at the end of
  the data a call returns 0 and zero-fills the request.  Seek contract as the code implements it: `sf.seekable` is
  false, every `sf_seek` (any offset, any whence) returns −1 with an error and changes nothing; `nms_adpcm_seek` itself
  accepts only offset 0 in the handle's own mode and rewinds.  Geometry: N frames written re-open as F frames with
  N ≤ F < N + 160.  Short final block: the words handed to the decoder do not depend on what the previous block left
  in the buffer (current rule), and did before the repair (`_old_rule` witnesses).  Property theorems only.
-/
import SfModel.NmsFile
import SfProofs.NmsReader
namespace Sf.C06Nms
open Sf Sf.Nms Sf.Block Sf.Block.Proofs

/-! ## the reader is well formed; handle invariant -/

theorem nms_reader_wf (r : Rate) (fill : Rate → List Nat → List Byte → List Nat) (len : Nat) (bytes : List Byte) :
    WF (readerWith r fill len bytes) := by
  refine ⟨Nat.succ_pos 159, Nat.succ_pos 0, ?_⟩
  intro k
  show (if k < _ then fixLen spb _ else zeros spb).length = spb * 1
  split <;> simp [fixLen, zeros]

/-- what holds of a read handle between calls: the reader invariant, the codec's position is `read_current`, and
    `sf.frames` does not exceed the codec's own bound -/
structure HInv (h : RHandle) : Prop where
  wf  : WF h.r
  inv : Inv h.r h.st
  pos : h.r.pos h.st = h.pos
  fr  : h.frames ≤ h.r.frames
  ch  : h.r.ch = 1

theorem nms_open_inv (r : Rate) (old : Bool) (len : Nat) (bytes : List Byte) : HInv (openRIn r old len bytes) := by
  have wf := nms_reader_wf r (if old then blockWordsOld else blockWords) len bytes
  obtain ⟨hi, hp⟩ := init_inv (readerWith r (if old then blockWordsOld else blockWords) len bytes)
  refine ⟨wf, hi, hp, ?_, rfl⟩
  show framesAtOpen r len ≤ spb * (blocksTotal r len + 1)
  unfold framesAtOpen
  rw [Nat.mul_comm, Nat.mul_add]
  omega

theorem nms_open_pos (r : Rate) (old : Bool) (len : Nat) (bytes : List Byte) :
    (openRIn r old len bytes).pos = 0 ∧ (openRIn r old len bytes).frames = framesAtOpen r len := ⟨rfl, rfl⟩

/-! ## reads inside the data -/

/-- the wrapper + staging loop on any block-reader handle with one channel, pieces of `q` items (`q = 0`: one piece),
    a request of `m` items with `pos + m ≤ frames` -/
theorem handle_read_inside (h : RHandle) (hi : HInv h) (q : Nat) (cz : Bool) (m : Nat) (hm : h.pos + m ≤ h.frames) :
    ∃ h', h.readBrk q cz m = (h', h.r.slice h.pos m, m) ∧ HInv h' ∧ h'.r = h.r ∧ h'.pos = h.pos + m ∧ h'.frames = h.frames := by
  unfold RHandle.readBrk
  by_cases h0 : m = 0
  · subst h0
    exact ⟨h, by simp [slice_zero], hi, rfl, rfl, rfl⟩
  · have hlt : ¬ (h.pos ≥ h.frames) := by omega
    simp only [h0, hlt, if_false]
    have hspec := readChunkedBrk_spec h.r hi.wf q cz (m + 1) h.st m [] hi.inv (Nat.lt_succ_self m)
      (by rw [hi.pos]; exact Nat.le_trans hm hi.fr)
    rw [hi.ch, Nat.mul_one, Nat.mul_one, Nat.mul_one, hi.pos] at hspec
    obtain ⟨st', hrun, inv', hp'⟩ := hspec
    simp only [List.length_nil, Nat.zero_add, List.nil_append] at hrun
    rw [hrun]
    have hle : m ≤ (h.frames - h.pos) * h.r.ch := by rw [hi.ch, Nat.mul_one]; omega
    refine ⟨{ h with st := st', pos := h.pos + m }, ?_, ⟨hi.wf, inv', by rw [hp'], hi.fr, hi.ch⟩, rfl, rfl, rfl⟩
    have hle1 : m ≤ (h.frames - h.pos) * 1 := by omega
    simp only [hi.ch, Nat.div_one]
    rw [if_pos hle1]

theorem chunk_cases (ty : Ty) : chunkOf ty = 0 ∨ chunkOf ty = 4096 := by
  unfold chunkOf
  split
  · exact Or.inl rfl
  · exact Or.inr rfl

/-- **reads deliver `stream [pos, pos + m)`**: every caller type, every request that ends inside the data, from every
    handle state satisfying the invariant (open, and every state reached by such reads) -/
theorem nms_read_inside (cv : Conv) (ty : Ty) (h : RHandle) (hi : HInv h) (m : Nat) (hm : h.pos + m ≤ h.frames) :
    ∃ h', Nms.read cv ty h m = (h', (h.r.slice h.pos m).map (toCaller cv ty), m) ∧ HInv h' ∧ h'.r = h.r ∧
      h'.pos = h.pos + m ∧ h'.frames = h.frames := by
  obtain ⟨h', e, r1, r2, r3, r4⟩ := handle_read_inside h hi (chunkOf ty) true m hm
  refine ⟨h', ?_, r1, r2, r3, r4⟩
  unfold Nms.read
  rw [e]

/-- **partition invariance**: a items then b items deliver the items, the counts and the position of one call for
    a + b items (and by induction any partition does) -/
theorem nms_read_partition (cv : Conv) (ty : Ty) (h : RHandle) (hi : HInv h) (a b : Nat) (hm : h.pos + (a + b) ≤ h.frames) :
    (Nms.read cv ty h (a + b)).2.1 = (Nms.read cv ty h a).2.1 ++ (Nms.read cv ty (Nms.read cv ty h a).1 b).2.1 ∧
    (Nms.read cv ty h (a + b)).2.2 = (Nms.read cv ty h a).2.2 + (Nms.read cv ty (Nms.read cv ty h a).1 b).2.2 ∧
    (Nms.read cv ty h (a + b)).1.pos = (Nms.read cv ty (Nms.read cv ty h a).1 b).1.pos := by
  obtain ⟨h1, e1, i1, r1, p1, f1⟩ := nms_read_inside cv ty h hi a (by omega)
  obtain ⟨h2, e2, _, _, p2, _⟩ := nms_read_inside cv ty h1 i1 b (by rw [p1, f1]; omega)
  obtain ⟨h3, e3, _, _, p3, _⟩ := nms_read_inside cv ty h hi (a + b) hm
  rw [e3, e1]
  simp only
  rw [e2]
  simp only
  rw [r1, p1, slice_append, List.map_append]
  refine ⟨rfl, trivial, ?_⟩
  rw [p3, p2, p1]; omega

theorem toCaller_zero (cv : Conv) (ty : Ty) : toCaller cv ty 0 = 0 := by
  cases ty
  · rfl
  · rfl
  · unfold toCaller; simp only; cases cv.normF <;> decide
  · unfold toCaller; simp only; cases cv.normD <;> decide

/-- end of data: the call returns 0, the whole request is zero-filled, the handle does not move -/
theorem nms_read_eof (cv : Conv) (ty : Ty) (h : RHandle) (n : Nat) (hn : n ≠ 0) (he : h.pos ≥ h.frames) :
    Nms.read cv ty h n = (h, zeros n, 0) := by
  unfold Nms.read RHandle.readBrk
  simp only [hn, he, if_true, if_false]
  congr 2
  simp [zeros, toCaller_zero]

/-! ## seek -/

/-- `sf_seek` on an NMS ADPCM handle: refused for every offset and whence — −1 with SFE_NOT_SEEKABLE (C06: "returns
    either the requested absolute position or −1 with an error set") -/
theorem nms_sf_seek_refused (h : RHandle) (offset : Int) (whence : Nat) : sfSeek h offset whence = none := rfl

/-- in particular a zero-offset SEEK_CUR does not report the position on these handles (`sf.seekable = 0`: the check
    requires such handles to refuse every seek and leave the stream undisturbed) -/
theorem nms_seek_cur_zero_refused : ¬ (∀ h : RHandle, sfSeek h 0 1 = some h.pos) := by
  intro hall
  have := hall (openR .r16 [])
  simp [sfSeek] at this

/-- `nms_adpcm_seek`: any offset but 0, or the other mode, fails … -/
theorem nms_codec_seek_fails (h : RHandle) (modeIsRead : Bool) (offset : Int) (hne : offset ≠ 0 ∨ modeIsRead = false) :
    codecSeek h modeIsRead offset = none := by
  unfold codecSeek
  cases hne with
  | inl ho => cases modeIsRead <;> simp [ho]
  | inr hm => simp [hm]

/-- … offset 0 rewinds: the following read delivers frames 0, 1, … of the stream again -/
theorem nms_codec_seek_rewinds (cv : Conv) (ty : Ty) (h : RHandle) (hi : HInv h) (m : Nat) (hm : m ≤ h.frames) :
    ∃ h0, codecSeek h true 0 = some h0 ∧ (Nms.read cv ty h0 m).2 = ((h.r.slice 0 m).map (toCaller cv ty), m) := by
  refine ⟨{ h with st := h.r.init, pos := 0 }, rfl, ?_⟩
  obtain ⟨i0, p0⟩ := init_inv h.r
  have hi0 : HInv { h with st := h.r.init, pos := 0 } := ⟨hi.wf, i0, p0, hi.fr, hi.ch⟩
  obtain ⟨h', e, _⟩ := nms_read_inside cv ty _ hi0 m (by show 0 + m ≤ h.frames; omega)
  rw [e]

/-! ## geometry -/

/-- frames at re-open: N samples written make ⌈N / 160⌉ blocks; the file re-opens with F = 160 · ⌈N / 160⌉ frames,
    N ≤ F < N + 160 (B = 160) -/
theorem nms_frames_at_reopen (r : Rate) (n : Nat) :
    n ≤ framesAtOpen r ((n + 159) / 160 * r.blockBytes) ∧ framesAtOpen r ((n + 159) / 160 * r.blockBytes) < n + 160 := by
  unfold framesAtOpen blocksTotal spb Rate.blockBytes
  cases r <;> simp only [Rate.shorts, Nat.mul_mod_left, ne_eq, not_true_eq_false, if_false] <;>
    rw [Nat.mul_div_cancel _ (by decide)] <;> omega

/-- a data region that is not a whole number of blocks counts its last, partial block as a whole one -/
theorem nms_partial_block_counts (r : Rate) (len : Nat) (h : len % r.blockBytes ≠ 0) :
    framesAtOpen r len = (len / r.blockBytes + 1) * 160 := by
  unfold framesAtOpen blocksTotal
  rw [if_pos h]
  rfl

example : framesAtOpen .r16 52 = 320 ∧ framesAtOpen .r32 (2 * 82) = 320 ∧ framesAtOpen .r24 0 = 0 := by decide

/-! ## short final block -/

/-- current rule: the words the decoder gets for a short block are a function of the bytes read, whatever the
    previous block left in `pnms->block` -/
theorem nms_short_block_ignores_buffer (r : Rate) (prev prev' : List Nat) (got : List Byte) :
    blockWords r prev got = blockWords r prev' got := rfl

/-- … and they are the whole shorts read followed by zeros (5 shorts of a 16 kbit/s block: 5 words, then 16 zeros) -/
example : blockWords .r16 (List.replicate 41 0xFFFF) [1, 2, 3, 4, 5, 6, 7, 8, 9, 10] =
    [0x0201, 0x0403, 0x0605, 0x0807, 0x0a09] ++ List.replicate 16 0 := by decide

/-- the rule before the repair: shorts [k, 2k) of the buffer kept what the previous block left there (k = 5 shorts
    read: words 5 … 9 are the previous block's) -/
theorem nms_short_block_old_rule :
    blockWordsOld .r16 (List.replicate 41 0xFFFF) [1, 2, 3, 4, 5, 6, 7, 8, 9, 10] =
      [0x0201, 0x0403, 0x0605, 0x0807, 0x0a09, 0xFFFF, 0xFFFF, 0xFFFF, 0xFFFF, 0xFFFF] ++ List.replicate 16 0 ++ List.replicate 15 0xFFFF ∧
    blockWordsOld .r16 (List.replicate 41 0xFFFF) [1, 2, 3, 4, 5, 6, 7, 8, 9, 10] ≠
      blockWordsOld .r16 (List.replicate 41 0) [1, 2, 3, 4, 5, 6, 7, 8, 9, 10] := by decide

/-- non-vacuity of the read theorems: a 16 kbit/s region of one block and 10 bytes (the shape of the witness of
    KF-NMS-SHORT-BLOCK) opens with 320 frames; a read of 3 + 2 items equals a read of 5 -/
example : (openR .r16 (List.replicate 52 0x5a)).frames = 320 ∧
    (Nms.read {} .s16 (openR .r16 (List.replicate 52 0x5a)) 5).2.1 =
      (Nms.read {} .s16 (openR .r16 (List.replicate 52 0x5a)) 3).2.1 ++
        (Nms.read {} .s16 (Nms.read {} .s16 (openR .r16 (List.replicate 52 0x5a)) 3).1 2).2.1 := by decide +kernel

end Sf.C06Nms
