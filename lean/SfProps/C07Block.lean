/-
  C07 (block codecs) — what the bytes of the stateful sample-granular coders depend on: the XI delta coders carry
  their running value across calls, so cutting the samples into calls anywhere gives the same deltas; the OKI
  coder likewise for cuts at even positions, and the proved witness of what an odd cut does (KF-VOX-ODD).
  The block writer's flush rule at close.  Property theorems only.
-/
import SfModel.BlockFile
namespace Sf.C07Block
open Sf Sf.Block

/-! ## XI DPCM: ∀ splits, the deltas of xs ++ ys are the deltas of xs followed by those of ys started from the
    state xs left -/

theorem dpcm16_partition (xs : List Int) : ∀ (l : Int) (ys : List Int),
    (Dpcm.delta16 l (xs ++ ys)).2 = (Dpcm.delta16 l xs).2 ++ (Dpcm.delta16 (Dpcm.delta16 l xs).1 ys).2 ∧
    (Dpcm.delta16 l (xs ++ ys)).1 = (Dpcm.delta16 (Dpcm.delta16 l xs).1 ys).1 := by
  induction xs with
  | nil => intro l ys; exact ⟨rfl, rfl⟩
  | cons x xs ih =>
    intro l ys
    simp only [List.cons_append, Dpcm.delta16]
    obtain ⟨h1, h2⟩ := ih x ys
    rw [h1, h2]
    exact ⟨rfl, rfl⟩

theorem dpcm8_partition (xs : List Int) : ∀ (l : Int) (ys : List Int),
    (Dpcm.delta8 l (xs ++ ys)).2 = (Dpcm.delta8 l xs).2 ++ (Dpcm.delta8 (Dpcm.delta8 l xs).1 ys).2 ∧
    (Dpcm.delta8 l (xs ++ ys)).1 = (Dpcm.delta8 (Dpcm.delta8 l xs).1 ys).1 := by
  induction xs with
  | nil => intro l ys; exact ⟨rfl, rfl⟩
  | cons x xs ih =>
    intro l ys
    simp only [List.cons_append, Dpcm.delta8]
    obtain ⟨h1, h2⟩ := ih x ys
    rw [h1, h2]
    exact ⟨rfl, rfl⟩

example : (Dpcm.delta16 0 ([5, 7] ++ [4])).2 = [5, 2, -3] ∧ (Dpcm.delta16 (Dpcm.delta16 0 [5, 7]).1 [4]).2 = [-3] := by decide

/-! ## VOX: an odd-length call inserts a sample (proved witness) -/

/-- the same four samples written as 3 + 1 and as 4: five and a half … six codes instead of four -/
theorem vox_partition_pads :
    (Oki.writeBlock 5 {} [256, 512, 768, 1024] 4).2.1.length = 2 ∧
    ((Oki.writeBlock 4 {} [256, 512, 768] 3).2.1 ++
      (Oki.writeBlock 2 (Oki.writeBlock 4 {} [256, 512, 768] 3).1 [1024] 1).2.1).length = 3 := by decide

/-! ## the flush at close -/

/-- close with nothing pending emits nothing; with `cnt` frames pending and `padZero` it encodes the pending
    frames followed by zeros (sds_close after 8917c03); without `padZero` the buffer as it is (paf24_close) -/
theorem block_writer_close (w : Writer σ) (st : WState σ) (pad : Bool) :
    (st.cnt = 0 → w.close pad st = st) ∧
    (st.cnt ≠ 0 → (w.close pad st).out =
      (w.enc st.es (if pad then st.buf.take (st.cnt * w.ch) ++ zeros ((w.spb - st.cnt) * w.ch) else st.buf)).2 :: st.out) := by
  constructor
  · intro h; simp [Writer.close, h]
  · intro h; simp [Writer.close, h, Writer.emit]

example : ((Sds.writer 3).close true ((Sds.writer 3).write ((Sds.writer 3).init 0) [65536])).out.length = 1 := by decide

end Sf.C07Block
