/-
  C07 (block codecs) — what the bytes of the stateful sample-granular coders depend on: the XI delta coders carry
  their running value across calls, so cutting the samples into calls anywhere gives the same deltas; the OKI
  coder likewise for cuts at ANY position (the odd sample of a call is held for the next call / for close: KF-VOX-ODD,
  repaired; what an odd cut did before as an `…_old_rule` witness).
  The block writer's flush rule at close.  Property theorems only.
-/
import SfModel.BlockFile
import SfProofs.BlockWriter
import SfProofs.BlockVox
import SfProofs.BlockVoxCarry
namespace Sf.C07Block
open Sf Sf.Block Sf.Block.Proofs Sf.VoxCarry

/-! ## XI DPCM: ∀ splits, the deltas of xs ++ ys are the deltas of xs followed by those of ys started from the
    state xs left -/

theorem dpcm16_partition (xs : List Int) : ∀ (l : Int) (ys : List Int),
    (Dpcm.delta16 l (xs ++ ys)).2 = (Dpcm.delta16 l xs).2 ++ (Dpcm.delta16 (Dpcm.delta16 l xs).1 ys).2 ∧
    (Dpcm.delta16 l (xs ++ ys)).1 = (Dpcm.delta16 (Dpcm.delta16 l xs).1 ys).1 := by
  induction xs with
  | nil => intro l ys; exact ⟨rfl, rfl⟩
  | cons x xs ih =>
    intro l ys
    simp only [List.cons_append, Dpcm.delta16]
    obtain ⟨h1, h2⟩ := ih x ys
    rw [h1, h2]
    exact ⟨rfl, rfl⟩

theorem dpcm8_partition (xs : List Int) : ∀ (l : Int) (ys : List Int),
    (Dpcm.delta8 l (xs ++ ys)).2 = (Dpcm.delta8 l xs).2 ++ (Dpcm.delta8 (Dpcm.delta8 l xs).1 ys).2 ∧
    (Dpcm.delta8 l (xs ++ ys)).1 = (Dpcm.delta8 (Dpcm.delta8 l xs).1 ys).1 := by
  induction xs with
  | nil => intro l ys; exact ⟨rfl, rfl⟩
  | cons x xs ih =>
    intro l ys
    simp only [List.cons_append, Dpcm.delta8]
    obtain ⟨h1, h2⟩ := ih x ys
    rw [h1, h2]
    exact ⟨rfl, rfl⟩

example : (Dpcm.delta16 0 ([5, 7] ++ [4])).2 = [5, 2, -3] ∧ (Dpcm.delta16 (Dpcm.delta16 0 [5, 7]).1 [4]).2 = [-3] := by decide

/-! ## VOX: the bytes do not depend on where the calls are cut (KF-VOX-ODD, repaired) -/

/-- old rule, witness: the same four samples written as 3 + 1 and as 4 — three bytes instead of two (each odd-length
    call inserted a zero sample) -/
theorem vox_partition_pads_old_rule :
    (Oki.writeBlockOld 5 {} [256, 512, 768, 1024] 4).2.1.length = 2 ∧
    ((Oki.writeBlockOld 4 {} [256, 512, 768] 3).2.1 ++
      (Oki.writeBlockOld 2 (Oki.writeBlockOld 4 {} [256, 512, 768] 3).1 [1024] 1).2.1).length = 3 := by decide

/-- full strength: two calls, cut ANYWHERE (odd or even position, any coder state, any sample held from earlier calls),
    leave the coder state and the held sample of one call with the concatenation, their bytes concatenated are its
    bytes and the counts add up — whatever the 512-sample pieces of `vox_write_block` are -/
theorem vox_partition (st : Oki.St) (c : Option Int) (xs ys : List Int) :
    let one := Oki.writeBlock ((xs ++ ys).length + 1) st c (xs ++ ys) (xs ++ ys).length
    let a := Oki.writeBlock (xs.length + 1) st c xs xs.length
    let b := Oki.writeBlock (ys.length + 1) a.1 a.2.1 ys ys.length
    one.1 = b.1 ∧ one.2.1 = b.2.1 ∧ one.2.2.1 = a.2.2.1 ++ b.2.2.1 ∧ one.2.2.2 = a.2.2.2 + b.2.2.2 := by
  simp only
  rw [writeBlock_spec _ st c (xs ++ ys) (Nat.lt_succ_self _), writeBlock_spec _ st c xs (Nat.lt_succ_self _),
    writeBlock_spec _ _ _ ys (Nat.lt_succ_self _)]
  obtain ⟨h1, h2, h3⟩ := writeSpec_append st c xs ys
  exact ⟨h1, h2, h3, by simp [writeSpec]⟩

/-- non-vacuity, the old witness: 3 + 1 now gives the two bytes of one call of 4 -/
example : (Oki.writeBlock 4 {} none [256, 512, 768] 3).2.2.1 ++
      (Oki.writeBlock 2 (Oki.writeBlock 4 {} none [256, 512, 768] 3).1 (Oki.writeBlock 4 {} none [256, 512, 768] 3).2.1 [1024] 1).2.2.1 =
    (Oki.writeBlock 5 {} none [256, 512, 768, 1024] 4).2.2.1 ∧ (Oki.writeBlock 5 {} none [256, 512, 768, 1024] 4).2.2.1.length = 2 := by decide

/-- the closed file: any number of calls of any sizes, then `codec_close` — the bytes are the pair encoder over the
    concatenated samples (an odd total gets the encoder's zero sample), so they depend on the concatenation only -/
theorem vox_file_bytes_partition (calls : List (List Int)) :
    voxFile {} none calls = (Oki.encPairs {} (padZero calls.flatten)).2 := by
  rw [voxFile_spec]; rfl

theorem vox_file_bytes_depend_on_samples_only (calls1 calls2 : List (List Int)) (h : calls1.flatten = calls2.flatten) :
    voxFile {} none calls1 = voxFile {} none calls2 := by
  rw [vox_file_bytes_partition, vox_file_bytes_partition, h]

example : voxFile {} none [[256], [512, 768, 1024], [1280]] = voxFile {} none [[256, 512, 768, 1024, 1280]] ∧
    (voxFile {} none [[256], [512, 768, 1024], [1280]]).length = 3 := by decide

/-- the staging of `vox_write_i/f/d` (pieces of 4096 items) is invisible too -/
theorem vox_write_call_staging (chunk : Nat) (st : Oki.St) (c : Option Int) (xs : List Int) :
    Oki.writeCall chunk (xs.length + 1) st c xs xs.length = Oki.writeBlock (xs.length + 1) st c xs xs.length := by
  rw [writeCall_spec chunk _ st c xs (Nat.lt_succ_self _), writeBlock_spec _ st c xs (Nat.lt_succ_self _)]

example : Oki.writeCall 2 6 {} none [256, 512, 768, 1024, 1280] 5 = Oki.writeBlock 6 {} none [256, 512, 768, 1024, 1280] 5 := by decide

/-! ## the flush at close -/

/-- close with nothing pending emits nothing; with `cnt` frames pending and `padZero` it encodes the pending
    frames followed by zeros (sds_close after 8917c03); without `padZero` the buffer as it is (paf24_close) -/
theorem block_writer_close (w : Writer σ) (st : WState σ) (pad : Bool) :
    (st.cnt = 0 → w.close pad st = st) ∧
    (st.cnt ≠ 0 → (w.close pad st).out =
      (w.enc st.es (if pad then st.buf.take (st.cnt * w.ch) ++ zeros ((w.spb - st.cnt) * w.ch) else st.buf)).2 :: st.out) := by
  constructor
  · intro h; simp [Writer.close, h]
  · intro h; simp [Writer.close, h, Writer.emit]

example : ((Sds.writer 3).close true ((Sds.writer 3).write ((Sds.writer 3).init 0) [65536])).out.length = 1 := by decide

/-! ## the generic block writer: ∀ encodeBlock (cross-block state allowed), ∀ spb, ∀ channels, ∀ splits -/

variable {σ : Type}

/-- one inner call with whole frames is the fold of the per-frame step `pushFrame` (store the frame, count it,
    encode + emit when the block is full) over its frames, and the invariant "buffer of block size, not full"
    is kept -/
theorem block_writer_is_fold (w : Writer σ) (wf : WWF w) (st : WState σ) (inv : WInv w st) (fs : List (List Int))
    (hu : Uniform w.ch fs) :
    w.write st fs.flatten = fs.foldl (pushFrame w) st ∧ WInv w (fs.foldl (pushFrame w) st) := write_fold w wf st fs inv hu

/-- helper shape shared by the two partition theorems: a list of calls, each cut into staging pieces of `q`
    frames (`q = 0`: one piece), is the fold over all frames -/
theorem block_writer_calls_fold (w : Writer σ) (wf : WWF w) : ∀ (calls : List (Nat × List (List Int))) (st : WState σ),
    WInv w st → (∀ c ∈ calls, Uniform w.ch c.2) →
    calls.foldl (fun st c => wcall w (c.1 * w.ch) st c.2.flatten) st = (calls.flatMap (·.2)).foldl (pushFrame w) st ∧
      WInv w ((calls.flatMap (·.2)).foldl (pushFrame w) st) := by
  intro calls
  induction calls with
  | nil => intro st inv _; exact ⟨rfl, inv⟩
  | cons c cs ih =>
    intro st inv hu
    have hc := hu c (by simp)
    have h1 := writeChunked_fold w wf c.1 (c.2.flatten.length + 1) st c.2 inv hc
      (by rw [uniform_flatten_length c.2 hc]; exact Nat.lt_succ_of_le (Nat.le_mul_of_pos_right _ wf.ch_pos))
    have hcall : wcall w (c.1 * w.ch) st c.2.flatten = c.2.foldl (pushFrame w) st := by
      unfold wcall
      simp only
      rw [← h1.1, uniform_flatten_length c.2 hc]
    obtain ⟨h2, h3⟩ := ih (c.2.foldl (pushFrame w) st) h1.2 (fun d hd => hu d (by simp [hd]))
    rw [List.foldl_cons, hcall, h2, List.flatMap_cons, List.foldl_append]
    exact ⟨rfl, h3⟩

/-- **block_writer_partition**: the state after any sequence of calls (hence the emitted bytes, and the bytes after
    close) is the state after one call with the concatenated frames -/
theorem block_writer_partition (w : Writer σ) (wf : WWF w) (st : WState σ) (inv : WInv w st) (calls : List (List (List Int)))
    (hu : ∀ c ∈ calls, Uniform w.ch c) (pad : Bool) :
    calls.foldl (fun st c => w.write st c.flatten) st = w.write st calls.flatten.flatten ∧
    (w.close pad (calls.foldl (fun st c => w.write st c.flatten) st)).bytes = (w.close pad (w.write st calls.flatten.flatten)).bytes := by
  have key : ∀ (cs : List (List (List Int))) (s : WState σ), WInv w s → (∀ c ∈ cs, Uniform w.ch c) →
      cs.foldl (fun st c => w.write st c.flatten) s = cs.flatten.foldl (pushFrame w) s := by
    intro cs
    induction cs with
    | nil => intro s _ _; rfl
    | cons c cs ih =>
      intro s hs hc
      obtain ⟨h1, h2⟩ := write_fold w wf s c hs (hc c (by simp))
      rw [List.foldl_cons, h1, ih _ h2 (fun d hd => hc d (by simp [hd])), List.flatten_cons, List.foldl_append]
  have hu2 : Uniform w.ch calls.flatten := by
    intro f hf
    obtain ⟨c, hc, hfc⟩ := List.mem_flatten.mp hf
    exact hu c hc f hfc
  have e : calls.foldl (fun st c => w.write st c.flatten) st = w.write st calls.flatten.flatten := by
    rw [key calls st inv hu, (write_fold w wf st calls.flatten inv hu2).1]
  exact ⟨e, by rw [e]⟩

/-- non-vacuity: a 2-frames-per-block, 2-channel writer whose encoder numbers its blocks (cross-block state) -/
def toyW : Writer Nat := { spb := 2, ch := 2, enc := fun k b => (k + 1, k :: b.map Int.toNat) }
example : ((toyW.close true ((([[[1, 2]], [[3, 4], [5, 6]]] : List (List (List Int))).foldl (fun st c => toyW.write st c.flatten) (toyW.init 0)))).bytes
    = [0, 1, 2, 3, 4, 1, 5, 6, 0, 0]) ∧
    (toyW.close true (toyW.write (toyW.init 0) [1, 2, 3, 4, 5, 6])).bytes = [0, 1, 2, 3, 4, 1, 5, 6, 0, 0] := by decide

/-! ## PAF24 after the repair of KF-PAF24-CHUNK: staging pieces are whole frames -/

theorem paf24_chunk_whole_frames (ch : Nat) (ty : Ty) : ∃ q, Paf24.chunkOf ch ty = q * ch := by
  unfold Paf24.chunkOf
  by_cases h : ty = .s32
  · exact ⟨0, by simp [h]⟩
  · refine ⟨2048 / ch, ?_⟩
    rw [if_neg h]
    have := Nat.div_add_mod 2048 ch
    rw [Nat.mul_comm] at this
    omega

/-- the rule before the repair: 683 three-channel frames written by one short call were accounted as 682 (the
    frame cut by the 2048-item piece is lost) … -/
theorem paf24_chunk_old_rule :
    (wcall (Paf24.writer 3 false) (Paf24.chunkOfOld .s16) ((Paf24.writer 3 false).init []) (List.replicate 2049 0)).nblk * 10 +
    (wcall (Paf24.writer 3 false) (Paf24.chunkOfOld .s16) ((Paf24.writer 3 false).init []) (List.replicate 2049 0)).cnt = 682 := by
  decide +kernel

/-- … and with the current rule all 683 are -/
theorem paf24_chunk_new_rule_witness :
    (wcall (Paf24.writer 3 false) (Paf24.chunkOf 3 .s16) ((Paf24.writer 3 false).init []) (List.replicate 2049 0)).nblk * 10 +
    (wcall (Paf24.writer 3 false) (Paf24.chunkOf 3 .s16) ((Paf24.writer 3 false).init []) (List.replicate 2049 0)).cnt = 683 := by
  decide +kernel

/-- **full strength, current rule**: for every channel count, byte order, every sequence of calls of any caller
    types (each a whole number of frames, as sf_write_* enforces), the writer state — so the data region after
    close — is the per-frame fold over the concatenated frames: it depends on the concatenation only -/
theorem paf24_write_partition (ch : Nat) (hch : 0 < ch) (big : Bool) (calls : List (Ty × List (List Int)))
    (hu : ∀ c ∈ calls, Uniform ch c.2) (st : WState (List Paf24.Spare)) (inv : WInv (Paf24.writer ch big) st) :
    calls.foldl (fun st c => wcall (Paf24.writer ch big) (Paf24.chunkOf ch c.1) st c.2.flatten) st =
      (calls.flatMap (·.2)).foldl (pushFrame (Paf24.writer ch big)) st := by
  have wf : WWF (Paf24.writer ch big) := ⟨Nat.succ_pos 9, hch⟩
  -- rewrite every call's chunk as q * ch
  have hq : ∀ c : Ty × List (List Int), ∃ q, Paf24.chunkOf ch c.1 = q * (Paf24.writer ch big).ch := fun c => paf24_chunk_whole_frames ch c.1
  let calls2 : List (Nat × List (List Int)) := calls.map fun c => ((hq c).choose, c.2)
  have h := block_writer_calls_fold (Paf24.writer ch big) wf calls2 st inv (by
    intro c hc
    obtain ⟨d, hd, rfl⟩ := List.mem_map.mp hc
    exact hu d hd)
  have e1 : calls2.foldl (fun st c => wcall (Paf24.writer ch big) (c.1 * (Paf24.writer ch big).ch) st c.2.flatten) st =
      calls.foldl (fun st c => wcall (Paf24.writer ch big) (Paf24.chunkOf ch c.1) st c.2.flatten) st := by
    simp only [calls2, List.foldl_map]
    congr 1
    funext s c
    rw [← (hq c).choose_spec]
  have e2 : calls2.flatMap (·.2) = calls.flatMap (·.2) := by
    simp only [calls2, List.flatMap_map]
  rw [← e1, h.1, e2]

end Sf.C07Block
