/-
  C07 / C05 (NMS ADPCM, src/nms_adpcm.c) — the codec core and the write side.
  -- properties: C05

  * codec-level invariants, for every state reachable from `nms_adpcm_codec_init` by any sequence of encoded samples
    and decoded codewords: every table index is in range, the shift count of `nms_adpcm_antilog` is in [16, 25],
    the coefficient and delta arrays keep their lengths (memory safety of the codec core, proved, not observed);
    decoded samples lie in [-32767, 32767]; codewords are < 16 and carry only the bits their rate keeps;
    `unpack (pack cs) = cs` for the 32 and 16 kbit/s layouts and per group for 24 kbit/s.
  * write-partition independence with the real encoder: the state of the block writer after any list of write calls
    of any caller types (so the bytes in the file, the pending samples, the encoder state, and the data region
    after close) is the fold of "store one short, encode when 160 are there" over the concatenated converted shorts.
    Item and frame call variants coincide (one channel).  Property theorems only.
-/
import SfModel.NmsFile
import SfProofs.NmsCodec
import SfProofs.BlockWriter
import SfProps.C07Block
namespace Sf.C07Nms
open Sf Sf.Nms Sf.Nms.Proofs Sf.Block Sf.Block.Proofs

/-! ## table indices and the shift count -/

/-- `table_expn [(exp & 0x7c0) >> 6]`: in range for every `short` (every integer) `exp` -/
theorem antilog_index_in_range (e : Int) : antilogIndex e < tableExpn.length := by
  have : tableExpn.length = 32 := rfl
  rw [this]
  unfold antilogIndex
  omega

/-- `r >>= (26 - (exp >> 11))`: with the scale factor clamped to [2171, 20480] the count is between 16 and 25 — never
    negative, never ≥ the width of the operand -/
theorem antilog_shift_in_range (e : Int) (h1 : 2171 ≤ e) (h2 : e ≤ 20480) : 16 ≤ antilogShift e ∧ antilogShift e ≤ 25 := by
  unfold antilogShift asr
  have : (2 : Int) ^ 11 = 2048 := by decide
  rw [this]
  omega

/-- `s->t_off + (I & 7)` into the 24-entry codeword tables -/
theorem code_index_in_range (r : Rate) (i : Nat) :
    codeIndex r.tOff i < tableScaleFactorStep.length ∧ codeIndex r.tOff i < tableStep.length := by
  have e1 : tableScaleFactorStep.length = 24 := rfl
  have e2 : tableStep.length = 24 := rfl
  rw [e1, e2]
  unfold codeIndex
  cases r <;> simp only [Rate.tOff] <;> omega

/-- `table_step_search [s->t_off + k]`, k = 0 … 6 -/
theorem search_index_in_range (r : Rate) (k : Nat) (hk : k ≤ 6) : r.tOff + k < tableStepSearch.length := by
  have e : tableStepSearch.length = 24 := rfl
  rw [e]
  cases r <;> simp only [Rate.tOff] <;> omega

/-! ## reachable states -/

/-- the states a handle's codec can be in: after `nms_adpcm_codec_init`, any samples encoded, any codewords decoded -/
inductive Reach (r : Rate) : St → Prop
  | init : Reach r (St.init r)
  | enc (s : St) (x : Int) : Reach r s → Reach r (encodeSample s x).1
  | dec (s : St) (i : Nat) : Reach r s → Reach r (decodeSample s i).1

theorem encodeSample_state (s : St) (x : Int) :
    ∃ i, (encodeSample s x).1 = (reconstruct { update s with parity := (s.parity + 1) % 2 } i).1 := by
  unfold encodeSample
  exact ⟨_, rfl⟩

theorem decodeSample_state (s : St) (i : Nat) : (decodeSample s i).1 = (reconstruct (update s) i).1 := by
  unfold decodeSample
  rfl

theorem reach_shape (r : Rate) (s : St) (h : Reach r s) : s.tOff = r.tOff ∧ Shape s ∧ s.ik < 16 := by
  induction h with
  | init => exact ⟨rfl, shape_init r, Nat.zero_lt_succ _⟩
  | enc s x _ ih =>
    obtain ⟨i, hi⟩ := encodeSample_state s x
    rw [hi]
    refine ⟨?_, ?_, ?_⟩
    · rw [reconstruct_tOff]; exact ih.1
    · apply reconstruct_shape
      have := update_shape s ih.2.1
      exact ⟨this.b, this.dq⟩
    · rw [reconstruct_ik]; exact Nat.mod_lt _ (by decide)
  | dec s i _ ih =>
    rw [decodeSample_state]
    refine ⟨?_, ?_, ?_⟩
    · rw [reconstruct_tOff, update_tOff]; exact ih.1
    · exact reconstruct_shape _ _ (update_shape s ih.2.1)
    · rw [reconstruct_ik]; exact Nat.mod_lt _ (by decide)

/-- everything one `nms_adpcm_update` + `nms_adpcm_reconstruct_sample (I)` + quantizer search step indexes or shifts by -/
structure SafeStep (s : St) (i : Nat) : Prop where
  sfs    : codeIndex s.tOff s.ik < tableScaleFactorStep.length          -- table_scale_factor_step [t_off + (Ik & 7)]
  expn   : antilogIndex (nextYl s) < tableExpn.length                   -- table_expn [(yl & 0x7c0) >> 6]
  shift  : 16 ≤ antilogShift (nextYl s) ∧ antilogShift (nextYl s) ≤ 25   -- r >>= 26 - (yl >> 11)
  step   : codeIndex s.tOff i < tableStep.length                        -- table_step [t_off + (I & 7)]
  search : ∀ k, k ≤ 6 → s.tOff + k < tableStepSearch.length             -- table_step_search [t_off + k]
  b      : s.b.length = 6                                               -- b [0..5]
  dq     : s.dq.length = 7                                              -- d_q [0..6]

/-- **memory safety of the codec core**: in every reachable state, for every codeword, every table index of the
    next step is in range, the shift count is legal, and the arrays have their declared lengths -/
theorem codec_step_safe (r : Rate) (s : St) (h : Reach r s) (i : Nat) : SafeStep s i := by
  obtain ⟨ht, hs, _⟩ := reach_shape r s h
  have hy := nextYl_range s
  exact {
    sfs := by rw [ht]; exact (code_index_in_range r s.ik).1
    expn := antilog_index_in_range _
    shift := antilog_shift_in_range _ hy.1 hy.2
    step := by rw [ht]; exact (code_index_in_range r i).2
    search := by intro k hk; rw [ht]; exact search_index_in_range r k hk
    b := hs.b
    dq := hs.dq }

/-- non-vacuity: a state reached by encoding three samples and decoding two codewords at 24 kbit/s -/
example : Reach .r24 (decodeSample (decodeSample (encodeSample (encodeSample (encodeSample (St.init .r24) 1000).1 (-32768)).1 32767).1 14).1 3).1 :=
  .dec _ _ (.dec _ _ (.enc _ _ (.enc _ _ (.enc _ _ .init))))

/-! ## ranges of what the codec hands out -/

/-- decoded samples are within 16 bits — in fact within ±32767 — for every state and every codeword -/
theorem decode_sample_range (s : St) (i : Nat) : -32767 ≤ (decodeSample s i).2 ∧ (decodeSample s i).2 ≤ 32767 := by
  unfold decodeSample
  simp only
  generalize (reconstruct (update s) i).2 = sl
  have key : ∀ c : Int, -8159 ≤ c → c ≤ 8159 → -32767 ≤ wrapS 16 (cdiv (c * 0x7fff) 0x1fdf) ∧ wrapS 16 (cdiv (c * 0x7fff) 0x1fdf) ≤ 32767 := by
    intro c h1 h2
    have hb : -32767 ≤ cdiv (c * 0x7fff) 0x1fdf ∧ cdiv (c * 0x7fff) 0x1fdf ≤ 32767 := by
      by_cases hc : 0 ≤ c
      · rw [cdiv_nonneg _ _ (by omega)]; omega
      · have e : c * 0x7fff = - ((-c) * 0x7fff) := by omega
        rw [e, cdiv_neg, cdiv_nonneg _ _ (by omega)]; omega
    rw [wrapS16_id _ (by omega) (by omega)]
    exact hb
  split
  · exact key _ (by decide) (by decide)
  · split
    · exact key _ (by decide) (by decide)
    · exact key sl (by omega) (by omega)

example : (decodeSample (St.init .r32) 7).2 = 20 ∧ (decodeSample (St.init .r32) 15).2 = -24 := by decide

/-- codewords are < 16 and carry only the bits their rate keeps -/
theorem encode_sample_code (s : St) (x : Int) :
    (encodeSample s x).2 < 16 ∧ (encodeSample s x).2 &&& maskOf s.tOff = (encodeSample s x).2 := by
  unfold encodeSample
  simp only
  generalize (if _ < (0 : Int) then 8 else 0) + quantize _ _ = c
  show c &&& maskOf s.tOff < 16 ∧ c &&& maskOf s.tOff &&& maskOf s.tOff = c &&& maskOf s.tOff
  have hm : maskOf s.tOff ≤ 15 := by
    unfold maskOf
    split
    · decide
    · split <;> decide
  refine ⟨?_, ?_⟩
  · exact Nat.lt_of_le_of_lt (Nat.le_trans Nat.and_le_right hm) (by decide)
  · rw [Nat.and_assoc, Nat.and_self]

/-- the mask of a rate: two-bit codewords are multiples of 4, three-bit ones of 2 -/
theorem masked_code_shape : ∀ c, c < 16 → (c &&& 0xc = c → c % 4 = 0) ∧ (c &&& 0xe = c → c % 2 = 0) := by decide

example : (encodeSample (St.init .r16) 12000).2 = 4 ∧ (encodeSample (St.init .r24) (-12000)).2 = 14 ∧ (encodeSample (St.init .r32) 300).2 = 7 := by decide

/-! ## unpack ∘ pack -/

theorem or_eq_add (a b i : Nat) (hb : b < 2 ^ i) (ha : a % 2 ^ i = 0) : a ||| b = a + b := by
  have e : a = (a / 2 ^ i) <<< i := by
    rw [Nat.shiftLeft_eq]
    have := Nat.div_add_mod a (2 ^ i)
    rw [ha, Nat.add_zero, Nat.mul_comm] at this
    exact this.symm
  rw [e, Nat.shiftLeft_add_eq_or_of_lt hb]

theorem and15 (x : Nat) : x &&& 15 = x % 16 := Nat.and_two_pow_sub_one_eq_mod x 4

/-- `w = c0 << 12 ; w |= c1 << 8 ; w |= c2 << 4 ; w |= c3` on nibbles is positional notation -/
theorem word4_eq (c0 c1 c2 c3 : Nat) (h0 : c0 < 16) (h1 : c1 < 16) (h2 : c2 < 16) (h3 : c3 < 16) :
    word4 c0 c1 c2 c3 = c0 * 4096 + c1 * 256 + c2 * 16 + c3 := by
  unfold word4 u16
  simp only [Nat.shiftLeft_eq, Nat.reducePow]
  rw [Nat.mod_eq_of_lt (by omega : c0 * 4096 < 65536)]
  rw [or_eq_add (c0 * 4096) (c1 * 256) 12 (by omega) (by omega), Nat.mod_eq_of_lt (by omega : c0 * 4096 + c1 * 256 < 65536)]
  rw [or_eq_add (c0 * 4096 + c1 * 256) (c2 * 16) 8 (by omega) (by omega), Nat.mod_eq_of_lt (by omega : c0 * 4096 + c1 * 256 + c2 * 16 < 65536)]
  rw [or_eq_add (c0 * 4096 + c1 * 256 + c2 * 16) c3 4 (by omega) (by omega), Nat.mod_eq_of_lt (by omega : c0 * 4096 + c1 * 256 + c2 * 16 + c3 < 65536)]

/-- 32 kbit/s: one word holds four 4-bit codewords -/
theorem word4_nibbles (c0 : Nat) (h0 : c0 < 16) (c1 : Nat) (h1 : c1 < 16) (c2 : Nat) (h2 : c2 < 16) (c3 : Nat) (h3 : c3 < 16) :
    nibbles 0xf (word4 c0 c1 c2 c3) = [c0, c1, c2, c3] := by
  rw [word4_eq c0 c1 c2 c3 h0 h1 h2 h3]
  unfold nibbles
  simp only [Nat.shiftRight_eq_div_pow, Nat.reducePow, and15]
  congr 1
  · omega
  congr 1
  · omega
  congr 1
  · omega
  congr 1
  omega

theorem unpack32_pack32 : ∀ (n : Nat) (cs : List Nat), cs.length = 4 * n → (∀ c ∈ cs, c < 16) → unpack32 (pack32 cs) = cs := by
  intro n
  induction n with
  | zero => intro cs h _; have : cs = [] := List.eq_nil_of_length_eq_zero (by omega); subst this; rfl
  | succ n ih =>
    intro cs h hc
    match cs, h with
    | c0 :: c1 :: c2 :: c3 :: rest, h =>
      have hr : rest.length = 4 * n := by simp only [List.length_cons] at h; omega
      have := ih rest hr (fun c hc' => hc c (by simp [hc']))
      simp only [pack32, unpack32, List.flatMap_cons]
      rw [word4_nibbles c0 (hc c0 (by simp)) c1 (hc c1 (by simp)) c2 (hc c2 (by simp)) c3 (hc c3 (by simp))]
      unfold unpack32 at this
      rw [this]
      rfl

example : unpack32 (pack32 [1, 15, 0, 8, 7, 7, 2, 9]) = [1, 15, 0, 8, 7, 7, 2, 9] := by decide

/-! ## write-partition independence (the real encoder, state carried across blocks) -/

/-- the shorts the codec sees for a list of write calls of any caller types -/
def shortsOf (cv : Conv) (calls : List (Ty × List Int)) : List Int := calls.flatMap fun c => c.2.map (ofCaller cv c.1)

/-- the per-sample step: store the short in the block buffer; when 160 are there, encode the block with the running
    encoder state (`nms_adpcm_encode_block`), emit its bytes, start the next block -/
def pushSample (r : Rate) (st : WState St) (x : Int) : WState St := pushFrame (writer r) st [x]

theorem writer_wf (r : Rate) : WWF (writer r) := ⟨Nat.succ_pos 159, Nat.succ_pos 0⟩

theorem flatten_singletons (xs : List Int) : (xs.map fun x => [x]).flatten = xs := by
  induction xs with
  | nil => rfl
  | cons x xs ih => simp only [List.map_cons, List.flatten_cons, ih]; rfl

theorem uniform_singletons (xs : List Int) : Uniform 1 (xs.map fun x => [x]) := by
  intro f hf
  obtain ⟨x, _, rfl⟩ := List.mem_map.mp hf
  rfl

/-- one `sf_write_T` call of any caller type, any length (the 4096-short staging loop of the int / float / double
    entry points included), from any state between calls: the fold of `pushSample` over the converted shorts -/
theorem nms_write_call_fold (r : Rate) (cv : Conv) (st : WState St) (inv : WInv (writer r) st) (c : Ty × List Int) :
    writeCall r cv st c = (c.2.map (ofCaller cv c.1)).foldl (pushSample r) st ∧
      WInv (writer r) ((c.2.map (ofCaller cv c.1)).foldl (pushSample r) st) := by
  generalize hxs : c.2.map (ofCaller cv c.1) = xs
  have h := writeChunked_fold (writer r) (writer_wf r) (chunkOf c.1) (xs.length + 1) st (xs.map fun x => [x]) inv
    (uniform_singletons xs) (by rw [List.length_map]; exact Nat.lt_succ_self _)
  have hch : (writer r).ch = 1 := rfl
  rw [hch, Nat.mul_one, Nat.mul_one, flatten_singletons, List.length_map, List.foldl_map] at h
  unfold writeCall wcall
  rw [hxs]
  exact h

theorem nms_write_calls_fold (r : Rate) (cv : Conv) : ∀ (calls : List (Ty × List Int)) (st : WState St), WInv (writer r) st →
    calls.foldl (writeCall r cv) st = (shortsOf cv calls).foldl (pushSample r) st ∧
      WInv (writer r) ((shortsOf cv calls).foldl (pushSample r) st) := by
  intro calls
  induction calls with
  | nil => intro st inv; exact ⟨rfl, inv⟩
  | cons c cs ih =>
    intro st inv
    obtain ⟨h1, h2⟩ := nms_write_call_fold r cv st inv c
    obtain ⟨h3, h4⟩ := ih _ h2
    have e : shortsOf cv (c :: cs) = c.2.map (ofCaller cv c.1) ++ shortsOf cv cs := by
      simp only [shortsOf, List.flatMap_cons]
    rw [List.foldl_cons, h1, h3, e, List.foldl_append]
    exact ⟨rfl, h4⟩

/-- **write-partition independence, full strength**: ∀ rate, ∀ conversion settings, ∀ two lists of write calls — any
    number of calls, any sizes (0, 1, odd, 159, 160, 161, beyond the 4096-short staging buffer), any mix of the four
    caller types, item or frame variants (one channel: the same call) — that hand the codec the same sequence of
    shorts: the writer ends in the same state (bytes in the file so far, samples pending, encoder state) and the data
    region of the closed file is byte-identical -/
theorem nms_write_partition (r : Rate) (cv : Conv) (calls1 calls2 : List (Ty × List Int))
    (h : shortsOf cv calls1 = shortsOf cv calls2) :
    calls1.foldl (writeCall r cv) (openW r) = calls2.foldl (writeCall r cv) (openW r) ∧
    closedData r cv calls1 = closedData r cv calls2 := by
  have inv : WInv (writer r) (openW r) := init_inv_w (writer r) (writer_wf r) _
  have e : calls1.foldl (writeCall r cv) (openW r) = calls2.foldl (writeCall r cv) (openW r) := by
    rw [(nms_write_calls_fold r cv calls1 _ inv).1, (nms_write_calls_fold r cv calls2 _ inv).1, h]
  exact ⟨e, by unfold closedData; rw [e]⟩

theorem shortsOf_pieces (cv : Conv) (ty : Ty) (pieces : List (List Int)) :
    shortsOf cv (pieces.map fun p => (ty, p)) = shortsOf cv [(ty, pieces.flatten)] := by
  induction pieces with
  | nil => rfl
  | cons p ps ih =>
    simp only [shortsOf, List.map_cons, List.flatMap_cons, List.flatMap_nil, List.append_nil, List.flatten_cons, List.map_append] at ih ⊢
    rw [ih]

/-- ∀ splits: the same caller values written piece by piece and in one call give the same file -/
theorem nms_write_splits (r : Rate) (cv : Conv) (ty : Ty) (pieces : List (List Int)) :
    closedData r cv (pieces.map fun p => (ty, p)) = closedData r cv [(ty, pieces.flatten)] :=
  (nms_write_partition r cv _ _ (shortsOf_pieces cv ty pieces)).2

/-- what the close does with a started block: nothing pending — nothing written; otherwise the pending samples,
    the rest of the block zero, encoded with the running state (`nms_adpcm_close`) -/
theorem nms_close_flush (r : Rate) (st : WState St) :
    (st.cnt = 0 → closeW r st = st) ∧
    (st.cnt ≠ 0 → (closeW r st).out = (encodeBlock r st.es (st.buf.take st.cnt ++ zeros (spb - st.cnt))).2 :: st.out) := by
  have h := Sf.C07Block.block_writer_close (writer r) st true
  constructor
  · exact h.1
  · intro hc
    have := h.2 hc
    simp only [if_true, show (writer r).ch = 1 from rfl, Nat.mul_one] at this
    exact this

/-- non-vacuity: 161 samples (one whole block and one started) written as 1 + 159 + 1 items of three caller types and
    as one short call: 2 blocks = 84 bytes, the same -/
example : (closedData .r16 {} [(.s16, [700]), (.s32, List.replicate 159 (-65536000)), (.s16, [5])]).length = 84 ∧
    closedData .r16 {} [(.s16, [700]), (.s32, List.replicate 159 (-65536000)), (.s16, [5])] =
      closedData .r16 {} [(.s16, 700 :: List.replicate 159 (-1000) ++ [5])] := by decide +kernel


end Sf.C07Nms
