/-
  C04 on the WRITE-SIDE PREDICATE (SfModel/AbsWrite.lean) — the clauses `open write close reopen info rate frames eof stale`
  of `Sf.AbsWrite.judge`, which the check evaluates on the implementation's own records (`sfmodel abs-write`): what an
  accepted record MEANS, and that the answers the concrete model is proved to give (`C04.frames_bound`,
  `C04.au_reopen_info`, …) ARE accepted.  Property theorems only; lemmas in SfProofs/AbsWrite*.lean.
-/
import SfProofs.AbsWriteComplete
import SfProps.C04
namespace Sf.C04AbsW
open Sf Sf.Abs Sf.AbsWrite Sf.Geometry

/-- MEANING (C04 at full strength, any container, any encoding): in an accepted record the writer opened, every write
    call accepted what it was handed, sf_close returned 0, the closed bytes re-open with the requested channel count and
    (outside RAW) container and encoding, the frame count F satisfies `N ≤ F < N + B` with N the frames the write calls
    accepted — `F = N` when `B = 1` —, reading delivers exactly `F·ch` items and then 0, and the closed bytes of the run
    with another stale SF_INFO.frames are the same bytes. -/
theorem closed_file_abs (r : Record) (h : accepted r = true) :
    r.one.openNull = false ∧ (∀ c ∈ r.one.calls, c.ret = c.n) ∧ r.one.close = 0 ∧ r.info.null = false ∧
    r.info.ch = (r.g.ch : Int) ∧ (r.g.major ≠ 0x04 → r.info.fmt % 0x10000000 = r.g.word % 0x10000000) ∧
    ((framesAccepted r.g.ch r.one.calls : Nat) : Int) ≤ r.info.frames ∧
    r.info.frames < (framesAccepted r.g.ch r.one.calls : Int) + (r.g.block : Int) ∧
    (r.g.block = 1 → r.info.frames = (framesAccepted r.g.ch r.one.calls : Int)) ∧
    r.rb.ret = r.info.frames * (r.g.ch : Int) ∧ r.rb.more = 0 ∧
    (∀ b, r.stale = some b → r.one.bytes = b) := by
  have a := accepted_meaning r h
  obtain ⟨i1, i2⟩ := infoOk_meaning _ _ a.info
  obtain ⟨f1, f2, f3⟩ := framesOk_meaning _ _ _ a.frames
  obtain ⟨e1, e2⟩ := eofOk_meaning _ _ _ a.eof
  refine ⟨a.opened, a.calls, a.closed, a.reopened, i1, i2, f1, ?_, f3, e1, e2, fun b hb => staleOk_meaning _ _ (a.stale b hb)⟩
  rw [pad_zero] at f2; simpa using f2

/-- the rate clause: the containers with integer-Hz or wider fields report exactly the rate asked for -/
theorem rate_exact_abs (r : Record) (h : accepted r = true) (hc : rateClass r.g.major = .exact) :
    r.info.sr = (r.g.sr : Int) :=
  rateOk_exact _ _ _ hc (accepted_meaning r h).rate

/-- COMPLETENESS against `C04.frames_bound`: the frame count a block codec reports — N rounded up to whole blocks — is
    accepted for every N and every positive block length -/
theorem frames_bound_accepted (g : AbsWrite.Geom) (N : Nat) (hb : 1 ≤ g.block) :
    framesOk g N (ceilToBlock N g.block : Int) = true := by
  obtain ⟨h1, h2⟩ := C04.frames_bound N g.block hb
  exact framesOk_complete g N _ (by exact_mod_cast h1) (by exact_mod_cast h2)

/-- … and F = N, the count of a sample-granular encoding, as well -/
theorem frames_exact_accepted (g : AbsWrite.Geom) (N : Nat) (hb : 1 ≤ g.block) : framesOk g N (N : Int) = true :=
  framesOk_complete_exact g N hb

/-- COMPLETENESS against `C04.au_reopen_info`: for every AU session of the concrete model (any configuration the model
    accepts, any valid list of write calls / header updates) every reader of the closed bytes answers what the clauses
    `info` (channels), `rate` and `frames` of the predicate accept -/
theorem au_reopen_accepted (ix fmt : Nat) (ch sr : Int) (h0 : H) (s0 : Store) (ops : List SOp)
    (hc : containerOf fmt = some .au) (ho : openHandle ix {} .w fmt ch sr = .ok h0 s0)
    (hsr : sr ≤ 0x7FFFFFFF) (hv : ∀ op ∈ ops, op.valid ch.toNat)
    (g : AbsWrite.Geom) (hg : (g.ch : Int) = ch) (hgs : (g.sr : Int) = sr) (hb : 1 ≤ g.block) (hrc : rateClass g.major = .exact)
    (ix' pos fmt0 : Nat) (ch0 sr0 : Int) (hraw : containerOf fmt0 ≠ some .raw) :
    ∃ h' s', openHandle ix' ⟨(closeHandle (runS (h0, s0) ops).1 (runS (h0, s0) ops).2).bytes, pos⟩ .r fmt0 ch0 sr0 = .ok h' s' ∧
      framesOk g (sessFrames ch.toNat ops) h'.frames = true ∧ rateOk g.major g.sr h'.sr = true ∧ (h'.ch : Int) = (g.ch : Int) := by
  obtain ⟨p, c, _, _, _, _, _, _, _, hr⟩ := C04.au_reopen_info ix fmt ch sr h0 s0 ops hc ho hsr hv
  obtain ⟨h', s', q1, q2, q3, q4, _⟩ := hr ix' pos fmt0 ch0 sr0 hraw
  refine ⟨h', s', q1, ?_, ?_, by rw [q3, hg]⟩
  · rw [q2]; exact framesOk_complete_exact g _ hb
  · exact rateOk_complete_exact _ _ _ hrc (by rw [q4, hgs])

/-! ## non-vacuity (the record of C01AbsW's example, spelled out here: property files do not import each other) -/

def exG : AbsWrite.Geom := { word := 0x00030002, ch := 2, sr := 44100 }
def exBytes : Array Item :=
  #[46,115,110,100, 0,0,0,24, 0,0,0,12, 0,0,0,3, 0,0,172,68, 0,0,0,2, 0,1,255,254,0,3,255,252,0,5,0,6]
def exInfo (f : Int) : Info := { ch := 2, sr := 44100, fmt := 0x00030002, frames := f }
def exRec : Record :=
  { g := exG, ty := .s16,
    one := { calls := [{ ty := .s16, fc := true, n := 3, data := #[1, 0xFFFE, 3, 0xFFFC, 5, 6], ret := 3 }], bytes := exBytes },
    info := exInfo 3,
    rb := { ret := 6, data := #[1, 0xFFFE, 3, 0xFFFC, 5, 6, 0xA5A5, 0xA5A5] },
    stale := some exBytes }

example : accepted exRec = true ∧ exRec.g.block = 1 ∧ rateClass exRec.g.major = .exact := by decide
/-- one frame too many at re-open (and a read-back that follows the header): `frames`; header says 3 but 4 frames are
    delivered: `eof`; another rate: `rate`; a write call that accepts less: `write`; a stale-frames run with other bytes -/
example : judge { exRec with info := exInfo 4, rb := { ret := 8, data := #[1, 0xFFFE, 3, 0xFFFC, 5, 6, 0, 0] } } = [{ tag := "frames" }] := by decide
example : judge { exRec with rb := { ret := 8, data := #[1, 0xFFFE, 3, 0xFFFC, 5, 6, 0, 0] } } = [{ tag := "eof" }] := by decide
example : judge { exRec with info := { exInfo 3 with sr := 44101 } } = [{ tag := "rate" }] := by decide
example : judge { exRec with stale := some (exBytes.set! 15 7) } = [{ tag := "stale", run := 3 }] := by decide
/-- an IMA ADPCM WAV job (B = 505 at 8 kHz mono): 1000 frames written re-open as 1010 = ⌈1000⌉_505, accepted; 1515 is not -/
example : (⟨0x00010012, 1, 8000⟩ : AbsWrite.Geom).block = 505 ∧ ceilToBlock 1000 505 = 1010 ∧
    framesOk ⟨0x00010012, 1, 8000⟩ 1000 1010 = true ∧ framesOk ⟨0x00010012, 1, 8000⟩ 1000 1515 = false ∧
    framesOk ⟨0x00010012, 1, 8000⟩ 1000 999 = false := by decide
/-- the rate quantiser classes: SVX keeps 16 bits (saturating; exact since round 9: the old clause asked nothing above 65535),
    IRCAM a binary32 (capped at 2^31 − 128; exact since round 9: the old clause asked nothing from 2^31 − 64 on), HTK a period in 100 ns units and SDS one in ns (21 bits) —
    the period clause is EXACT: 44100 Hz is period 226 = 44247 Hz and nothing else; 6 MHz is period 1 = 10 MHz; above the
    unit (period 0) and, for SDS, below 477 Hz (period beyond 21 bits) the field cannot express the rate: any positive rate -/
example : rateOk 0x06 65537 65535 = true ∧ rateOk 0x06 65537 1 = false ∧ field16Old 65537 1 = true ∧ rateOk 0x06 8000 8001 = false ∧
    rateOk 0x0A 16777217 16777216 = true ∧ rateOk 0x0A 16777217 16777217 = false ∧
    rateOk 0x0A (2 ^ 31 - 1) (2 ^ 31 - 128) = true ∧ rateOk 0x0A (2 ^ 31 - 1) 1 = false ∧ float32CapOld (2 ^ 31 - 1) 1 = true ∧ rateOk 0x10 44100 44247 = true ∧ rateOk 0x10 44100 44101 = false ∧
    rateOk 0x10 44100 44100 = false ∧ rateOk 0x10 8000 8000 = true ∧ rateOk 0x10 8000 8001 = false ∧
    rateOk 0x10 6000000 10000000 = true ∧ rateOk 0x10 6000000 5000000 = false ∧ rateOk 0x10 10000001 16000 = true ∧
    rateOk 0x10 10000001 0 = false ∧ rateOk 0x11 44100 44101 = true ∧ rateOk 0x11 44100 44100 = false ∧
    rateOk 0x11 476 271149 = true ∧ rateOk 0x11 477 477 = true ∧ rateOk 0x11 477 478 = false ∧
    rateOk 0x01 44100 44100 = true ∧ rateOk 0x01 44100 44101 = false := by decide

end Sf.C04AbsW
