/-
  C04 / C05 / C07 / C08 on the GENERIC handle machine `Sf.HandleG`, second part: the eight further instances (SVX, MPC2K, WVE,
  PVF, MAT4, MAT5, NIST, VOC) and the AIFF record with the SFM_RDWR header patch are lawful, so every generic theorem of
  SfProps/C05HandleG.lean applies to them; the closed-bytes theorem (what `<x>_close` leaves = header of the final state ++
  samples ++ tailer) for every `Spec`; two write calls = one call with the concatenated buffer at the level of the whole
  `stepWrite` wrapper (header latch included), hence for whole histories of any lawful container.  Property theorems only.
-/
-- properties: C04 C05 C07 C08 C01
import SfProofs.HandleGClose
namespace Sf.C04HandleG
open Sf Sf.HandleG

/-- all eighteen container records the driver runs are lawful (`contOf`: AIFF is the record with the in-place patch) -/
theorem instances_lawful_all (name17 name text : List Byte) :
    ContLaws (contOf rawSpec) ∧ ContLaws (contOf auSpec) ∧ ContLaws (contOf wavSpec) ∧ ContLaws (contOf avrSpec) ∧
    ContLaws (contOf ircamSpec) ∧ ContLaws (contOf pafSpec) ∧ ContLaws (contOf htkSpec) ∧ ContLaws (contOf aiffSpec) ∧
    ContLaws (contOf cafSpec) ∧ ContLaws (contOf w64Spec) ∧
    ContLaws (contOf (svxSpecN name)) ∧ ContLaws (contOf (mpcSpecN name17)) ∧ ContLaws (contOf wveSpec) ∧ ContLaws (contOf pvfSpec) ∧
    ContLaws (contOf mat4Spec) ∧ ContLaws (contOf (mat5SpecT text)) ∧ ContLaws (contOf nistSpec) ∧ ContLaws (contOf vocSpec) :=
  ⟨contOf_lawful _ rawLaws, contOf_lawful _ auLaws, contOf_lawful _ wavLaws, contOf_lawful _ avrLaws, contOf_lawful _ ircamLaws,
   contOf_lawful _ pafLaws, contOf_lawful _ htkLaws, contOf_lawful _ aiffLaws, contOf_lawful _ cafLaws, contOf_lawful _ w64Laws,
   contOf_lawful _ (svxLaws name), contOf_lawful _ (mpcLaws name17), contOf_lawful _ wveLaws, contOf_lawful _ pvfLaws,
   contOf_lawful _ mat4Laws, contOf_lawful _ (mat5Laws text), contOf_lawful _ nistLaws, contOf_lawful _ vocLaws⟩

/-- the AIFF record with `aiff_rewrite_header` keeps the handle invariant on every history -/
theorem aiff_rdwr_HInv (ops : List Op) (h : H) (s : Store) (hi : HInv h s) :
    HInv (HandleG.runOps aiffCont h s ops).1 (HandleG.runOps aiffCont h s ops).2 :=
  HandleG.HInv_runOps aiffContLaws ops h s hi

/-- every restore rule in use moves the file position only -/
theorem restore_rules_keep_bytes :
    RestoreKeeps wavSpec ∧ RestoreKeeps auSpec ∧ RestoreKeeps cafSpec ∧ RestoreKeeps w64Spec ∧ RestoreKeeps avrSpec ∧ RestoreKeeps htkSpec ∧
    RestoreKeeps svxSpec ∧ RestoreKeeps mpcSpec ∧ RestoreKeeps wveSpec ∧ RestoreKeeps mat4Spec ∧ RestoreKeeps mat5Spec ∧
    RestoreKeeps nistSpec ∧ RestoreKeeps vocSpec ∧ RestoreKeeps aiffSpec :=
  ⟨restoreHasData_keeps, restoreCur_keeps, restoreCaf_keeps, restoreCur_keeps, restoreCur_keeps, restoreCur_keeps,
   restoreCur_keeps, restoreCur_keeps, restoreCur_keeps, restoreCur_keeps, restoreCur_keeps, restoreCur_keeps, restoreCur_keeps,
   restoreHasData_keeps⟩

/-- closed-bytes theorem, any `Spec` whose close rewrites the header: after `<x>_close` of a handle that can write the store is
    the header of the FINAL state (the `calc_length` block on what the tailer leaves) followed by what lay behind the header
    after the tailer — the encoded samples and the tailer bytes (VOC: the terminator; AIFF / CAF: the pad byte) -/
theorem closed_bytes_generic (sp : Spec) (K : RestoreKeeps sp) (h : H) (s : Store) (hm : h.mode ≠ .r)
    (hh : sp.hasHeader = true) (hc : sp.closeHdr = true) (hs : sp.skipAt (sp.tailer h s).2.pos = false) :
    (sp.closeStore h s).bytes =
      sp.hdr (sp.recalc (sp.tailer h s).1 (sp.tailer h s).2.bytes.length) ++
        (sp.tailer h s).2.bytes.drop (sp.hdr (sp.recalc (sp.tailer h s).1 (sp.tailer h s).2.bytes.length)).length :=
  Spec.closeStore_bytes sp K h s hm hh hc hs

/-- … and a container whose close leaves the header alone (IRCAM, PAF, PVF) leaves the store as the tailer left it -/
theorem closed_bytes_no_rewrite (sp : Spec) (h : H) (s : Store) (hm : h.mode ≠ .r) (hh : sp.hasHeader = true) (hc : sp.closeHdr = false) :
    sp.closeStore h s = (sp.tailer h s).2 :=
  Spec.closeStore_noHdr sp h s hm hh hc

/-- C07 at the level of the whole write wrapper: on every lawful container, from any state that can write (the first call of
    a session included), `xs` then `ys` is `xs ++ ys` — same handle, same store -/
theorem write_two_calls_generic (c : Cont) (L : ContLaws c) (h : H) (s : Store) (ty : Ty) (xs ys : List Int)
    (hm : h.mode ≠ .r) (hch : 0 < h.ch) (hauto : h.autoHeader = false) (hp : h.peak = none)
    (hx : 0 < xs.length) (hy : 0 < ys.length) (hdx : (xs.length : Int) % h.ch = 0) (hdy : (ys.length : Int) % h.ch = 0) :
    let r1 := HandleG.stepWrite c h s ty false xs.length xs
    let r2 := HandleG.stepWrite c r1.1 r1.2.1 ty false ys.length ys
    let r := HandleG.stepWrite c h s ty false ((xs.length : Int) + ys.length) (xs ++ ys)
    r2.1 = r.1 ∧ r2.2.1 = r.2.1 :=
  HandleG.stepWrite_two L h s ty xs ys hm hch hauto hp hx hy hdx hdy

/-- non-vacuity + C04 on a VOC session of the generic machine: 16-bit stereo, (1 frame, 2 frames) = 3 frames; the closed file
    is header ++ 12 sample bytes ++ terminator, and re-opening it gives frames / channels / rate back -/
example :
    (match vocSpec.openH 0 {} .w 0x080002 2 8000 0 with
     | .ok h s =>
        let c := vocSpec.toCont
        let a := HandleG.stepWrite c h s .s16 false 2 [1, 2]
        let b := HandleG.stepWrite c a.1 a.2.1 .s16 false 4 [3, 4, 5, 6]
        let o := HandleG.stepWrite c h s .s16 false 6 [1, 2, 3, 4, 5, 6]
        let closed := c.closeStore b.1 b.2.1
        match vocSpec.openH 0 closed .r 0 0 0 0 with
        | .ok h2 _ => decide (b.2.1.bytes = o.2.1.bytes ∧ b.1.wpos = o.1.wpos ∧ closed.bytes.length = 42 + 12 + 1 ∧
                               closed.bytes.drop 42 = [1, 0, 2, 0, 3, 0, 4, 0, 5, 0, 6, 0, 0] ∧
                               h2.frames = 3 ∧ h2.ch = 2 ∧ h2.sr = 8000 ∧ h.mode ≠ .r ∧ h.peak = none ∧ h.autoHeader = false)
        | _ => false
     | _ => false) = true := by decide +kernel

/-- C04 on a MAT4 (float, big-endian) and an SVX session: write, close, re-open — frames / channels / rate come back -/
example :
    (match mat4Spec.openH 0 {} .w 0x200C0002 3 44100 0 with
     | .ok h s =>
        let c := mat4Spec.toCont
        let a := HandleG.stepWrite c h s .s16 true 2 [1, 2, 3, 4, 5, 6]
        match mat4Spec.openH 0 (c.closeStore a.1 a.2.1) .r 0 0 0 0 with
        | .ok h2 _ => decide (h2.frames = 2 ∧ h2.ch = 3 ∧ h2.sr = 44100 ∧ h2.big = true ∧ h2.dataoffset = 68)
        | _ => false
     | _ => false) = true := by decide +kernel

example :
    (match svxSpec.openH 0 {} .w 0x060001 1 22050 7 with
     | .ok h s =>
        let c := svxSpec.toCont
        let a := HandleG.stepWrite c h s .s16 false 3 [256, 512, 768]
        match svxSpec.openH 0 (c.closeStore a.1 a.2.1) .r 0 0 0 0 with
        | .ok h2 _ => decide (h2.frames = 3 ∧ h2.ch = 1 ∧ h2.sr = 22050 ∧ h2.dataoffset = 100)
        | _ => false
     | _ => false) = true := by decide +kernel

end Sf.C04HandleG
