/-
  C08 — accepted RDWR histories REFINE the abstract file of the statement; the bridge for read/write handles.

  -- properties: C08

  The abstract file of C08 (SfProofs/RdwrSpec.lean): `structure AbsFile α where frames : List α; rpos wpos : Nat` with
  `read`, `write`, `seek`, `truncate`.  `Abs.view g st ty` is the ITEM VIEW of a state of the predicate for the caller type
  `ty`: ⟨the cells of `st.ref ty`, rpos·cpf, wpos·cpf⟩ (a frame of the handle is `cpf = channels · cells ty` cells, so frame
  offsets scale by `cpf`).  `accepted_rdwr_refines`: along EVERY transcript the predicate accepts on a read/write handle
  (typed calls through `ty`, the nine whence values, SFC_FILE_TRUNCATE, queries, commands; any answers whatever code
  produced them) every answer is the abstract file's answer and the state the predicate reaches stands for the result of
  the abstract run — `Abs.writeAt` mirrors `AbsFile.write`, the truncation rule mirrors `AbsFile.truncate`, a read that is
  accepted delivered `AbsFile.read`, a seek that was not refused is `AbsFile.seek`.  (A refused seek / truncate, an invalid
  or zero-length request stand for no abstract operation: `Abs.lineAOp`, as `ROp.toAOp` does for the concrete model.)
  Together with C05Bridge.handle_run_accepted (the concrete model's transcripts ARE accepted) and C08Refine.rdwr_refines
  (the concrete model refines the byte-frame AbsFile) the three layers agree.  Property theorems only.
-/
import SfProofs.AbsRefineRun
import SfProofs.AbsSized
import SfProps.C05Bridge
import SfProps.C08Refine
import SfProps.C06
namespace Sf.C08Bridge
open Sf Sf.Abs

/-- ONE LINE.  On a read/write handle, an accepted line of the alphabet answers what the abstract file answers
    (`LineOk`), the item view after it is the abstract step, and the size invariant `ref.size = frames · cpf` is kept. -/
theorem accepted_line_refines (g : Geom) (ty : Ty) (st st1 : St) (op : Abs.Op) (o : Abs.Out) (hch : 0 < g.ch)
    (hio : g.ioMayFail = false) (hm : st.mode = .rw) (hs : (st.ref ty).size = st.frames * g.cpf ty) (ha : Alpha ty op)
    (hc : check g st op o = .ok st1) :
    LineOk g ty st (view g st ty) (op, o) ∧ view g st1 ty = (view g st ty).stepOpt 0 (lineAOp g ty (op, o)) ∧
    st1.mode = .rw ∧ (st1.ref ty).size = st1.frames * g.cpf ty :=
  line_refines g ty st st1 op o hch hio hm hs ha hc

/-- ALL HISTORIES.  Every transcript accepted from a read/write state refines the abstract file: every answer is the
    abstract one (`AnswersRefine`), the final state stands for the result of the abstract run, and `ref.size = frames · cpf`
    holds at the end (hence, by the same theorem, at every line). -/
theorem accepted_rdwr_refines (g : Geom) (ty : Ty) (st st' : St) (tr : List (Abs.Op × Abs.Out)) (hch : 0 < g.ch)
    (hio : g.ioMayFail = false) (hm : st.mode = .rw) (hs : (st.ref ty).size = st.frames * g.cpf ty)
    (ha : ∀ l ∈ tr, Alpha ty l.1) (h : accepts g st tr = some st') :
    AnswersRefine g ty st tr ∧ view g st' ty = absRunLines g ty (view g st ty) tr ∧
    st'.mode = .rw ∧ (st'.ref ty).size = st'.frames * g.cpf ty :=
  run_refines g ty hch hio tr st st' hm hs ha h

/-- … stated for the predicate as the check runs it: `holdsOn … = ok` on a read/write geometry -/
theorem holdsOn_rdwr_refines (g : Geom) (ty : Ty) (ref : Ty → Array Item) (valid : Ty → Bool) (tr : List (Abs.Op × Abs.Out)) (n : Nat)
    (hch : 0 < g.ch) (hio : g.ioMayFail = false) (hm : g.mode0 = .rw) (hs : (ref ty).size = g.frames0 * g.cpf ty)
    (ha : ∀ l ∈ tr, Alpha ty l.1) (h : holdsOn g ref valid tr = .ok n) :
    ∃ st', accepts g (St.init g ref valid) tr = some st' ∧ AnswersRefine g ty (St.init g ref valid) tr ∧
      view g st' ty = absRunLines g ty { frames := (ref ty).toList, rpos := 0, wpos := g.frames0 * g.cpf ty } tr := by
  unfold holdsOn at h
  obtain ⟨⟨st', hacc⟩, _⟩ := (holdsFrom_ok_iff g tr 0 _ n).1 h
  obtain ⟨a, b, _, _⟩ := run_refines g ty hch hio tr (St.init g ref valid) st' hm hs ha hacc
  refine ⟨st', hacc, a, ?_⟩
  rw [b]
  congr 1
  simp [view, St.init, hm]

/-- the frame count of the predicate is the length of the abstract file, in frames -/
theorem frames_is_length (g : Geom) (ty : Ty) (st : St) (hs : (st.ref ty).size = st.frames * g.cpf ty) :
    (view g st ty).frames.length = st.frames * g.cpf ty := by
  simp [view, hs]

/-- THE SIZE INVARIANT under writes: `ref.size = frames · cpf` for every caller type whose stream the predicate still claims
    to know is kept by every accepted line — writes inside and past the end (`writeAt`), truncations, re-opens, raw calls,
    reads, seeks — hence along every accepted transcript, in every mode -/
theorem ref_size_invariant (g : Geom) (st st' : St) (tr : List (Abs.Op × Abs.Out)) (hs : RefSized g st)
    (h : accepts g st tr = some st') : RefSized g st' :=
  accepts_RefSized g tr st st' hs h

/-- … from the state the check starts in, when the reference streams handed over are whole (`frames0 · cpf` cells) -/
theorem ref_size_from_init (g : Geom) (ref : Ty → Array Item) (valid : Ty → Bool) (st' : St) (tr : List (Abs.Op × Abs.Out))
    (hs : ∀ t, valid t = true → (ref t).size = g.frames0 * g.cpf t) (h : accepts g (St.init g ref valid) tr = some st') :
    RefSized g st' :=
  accepts_RefSized g tr _ st' (fun t ht => hs t ht) h

/-! ## the bridge for read/write handles of the concrete model -/

/-- a new file, a whole-frame RAW file, a tight or padded AU / WAV file opened SFM_RDWR (C08Refine.RwInv_initial_*), and
    every state reached from them (RwInv_reachable): every judged operation list produces an accepted transcript -/
theorem rdwr_handle_run_accepted (h : H) (s : Store) (inv : RwInv h s) (strict : Bool) (loss : Ty → Bool) (ops : List Sf.Op)
    (hr0 : h.rpos = 0) (hw1 : h.wpos = h.frames) (hj : ∀ op ∈ ops, AbsBridge.Judged (C05Bridge.geomOf h strict loss) h op)
    (hcl : AbsBridge.CloseLast ops) :
    holdsOn (C05Bridge.geomOf h strict loss) (AbsBridge.absRef h s) (fun _ => true) (AbsBridge.transcript h s ops) = .ok ops.length :=
  C05Bridge.handle_run_accepted h s strict loss ops (C05Bridge.BInv_read_write h s inv) (fun _ => hr0)
    (fun hm => by rw [inv.gives.1] at hm; cases hm) (fun _ => hw1) hj hcl

/-! ## non-vacuity -/

/-- a mono 16-bit read/write file of 2 frames `[7, 8]`; the history: overwrite frame 1 and extend by one frame, move the
    read pointer to 0, read 4 frames (3 arrive), query both positions, truncate to 1, read at the end -/
def exG : Geom := { ch := 1, strictSeek := true, canTrunc := true, lossless := fun _ => true, frames0 := 2, mode0 := .rw }
def exRef : Ty → Array Item := fun _ => #[7, 8]
def exTr : List (Abs.Op × Abs.Out) :=
  [(.seek 1 0x20, { ret := 1 }), (.write .s16 true 2 #[5, 6], { ret := 2 }), (.seek 0 0x10, { ret := 0 }),
   (.read .s16 false 4, { ret := 3, data := #[7, 5, 6, 0xA5A5] }), (.seek 0 0x11, { ret := 3 }), (.seek 0 0x21, { ret := 3 }),
   (.trunc 1, { ret := 0 }), (.read .s16 true 1, { ret := 0, data := #[0] }), (.seek (-5) 1, { ret := -1, err := true })]

example : holdsOn exG exRef (fun _ => true) exTr = .ok 9 := by decide
example : (∀ l ∈ exTr, Alpha .s16 l.1) := by
  intro l hl
  simp only [exTr, List.mem_cons, List.mem_nil_iff, or_false] at hl
  rcases hl with h | h | h | h | h | h | h | h | h <;> subst h <;> simp [Alpha] <;> decide
/-- the abstract run of the same lines: the file is `[7]`, both pointers at 1 -/
example : (absRunLines exG .s16 { frames := [7, 8], rpos := 0, wpos := 2 } exTr).frames = [7] ∧
    (absRunLines exG .s16 { frames := [7, 8], rpos := 0, wpos := 2 } exTr).rpos = 1 ∧
    (absRunLines exG .s16 { frames := [7, 8], rpos := 0, wpos := 2 } exTr).wpos = 1 := by decide
example : RefSized exG (St.init exG exRef (fun t => decide (t = .s16))) := by
  intro t ht
  cases t
  · decide
  all_goals exact absurd ht (by decide)
/-- a transcript whose read disagrees with the abstract file is refused -/
example : holdsOn exG exRef (fun _ => true)
    [(.seek 1 0x20, { ret := 1 }), (.write .s16 true 1 #[5], { ret := 1 }), (.seek 0 0x10, { ret := 0 }),
     (.read .s16 false 2, { ret := 2, data := #[7, 8] })] = .bad 3 "data" := by decide

/-- the concrete model, read/write: the 8-frame mono RAW file of C06 opened SFM_RDWR -/
def exOps : List Sf.Op :=
  [.read 0 .s16 true 3, .seek 0 2 0x20, .write 0 .s16 false 2 [9, 9], .seek 0 0 0x11, .read 0 .s16 true 8, .seek 0 0 1,
   .truncate 0 4, .close 0]
example : RwInv C06.rwH0 C06.rwStore :=
  C08Refine.RwInv_initial_raw 0 C06.rwStore 0x040002 1 8000 C06.rwH0 C06.rwStore C06.rwH0_opened rfl (by decide) false
/-- the geometry of the C08 campaign: strict seeks, the history's caller type claimed lossless — after the write the read
    of the whole file is compared with `writeAt` of the cells written, and accepted -/
example : holdsOn (C05Bridge.geomOf C06.rwH0 true (fun t => decide (t = .s16))) (AbsBridge.absRef C06.rwH0 C06.rwStore) (fun _ => true)
    (AbsBridge.transcript C06.rwH0 C06.rwStore exOps) = .ok 8 :=
  rdwr_handle_run_accepted C06.rwH0 C06.rwStore
    (C08Refine.RwInv_initial_raw 0 C06.rwStore 0x040002 1 8000 C06.rwH0 C06.rwStore C06.rwH0_opened rfl (by decide) false)
    true _ exOps rfl rfl
    (by
      intro op hop
      simp only [exOps, List.mem_cons, List.mem_nil_iff, or_false] at hop
      rcases hop with h | h | h | h | h | h | h | h <;> subst h <;> simp [AbsBridge.Judged, C05Bridge.geomOf] <;> decide)
    (by simp [exOps, AbsBridge.CloseLast, AbsBridge.isClose])
/-- the read after the write (read position 3) starts with the sample written at frame 3 -/
example : ((AbsBridge.transcript C06.rwH0 C06.rwStore exOps).map (fun l => l.2.data))[4]? = some #[9, 5, 6, 7, 8, 0xA5A5, 0xA5A5, 0xA5A5] := by
  decide
example : (AbsBridge.transcript C06.rwH0 C06.rwStore exOps).map (fun l => (l.2.ret, l.2.err)) =
    [(3, false), (2, false), (2, false), (3, false), (5, false), (4, false), (1, false), (0, false)] := by decide

end Sf.C08Bridge
