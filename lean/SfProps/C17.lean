/-
  C17 — sf_command never touches more than datasize bytes, string commands terminate, queries are pure.
  Property theorems only (model: SfModel/Command.lean, helper lemmas: SfProofs/Command.lean).

  The three statements hold at full strength since commits ff9108b, dc376ca, 8501a42 and 604e547 of /repo.
  The last section keeps, as theorems about explicitly named OLD rules, what was wrong before them.
-/
import SfModel.Command
import SfProofs.Command
namespace Sf.C17
open Sf.Command

/-! ## C17, bounds part -/

/-- For every command id (defined or not), every handle (NULL or open, any state), every datasize ≥ 0 and
    whatever lies behind the data pointer: every byte range `sf_command` reads or writes through data lies
    inside [0, datasize), a NULL data pointer is never dereferenced, and the return value is defined
    (does not depend on bytes outside the block). -/
theorem cmd_in_bounds (g : G) (h : Option H) (cmd : Int) (size : Nat) (data : Option Mem) :
    (run g h cmd size data).inBounds size = true ∧ (run g h cmd size data).retDefined = true := by
  unfold run
  cases hp : preHandle g h cmd size data with
  | some r => exact preHandle_ok g h cmd size data r hp
  | none =>
    cases h with
    | none =>
      simp only []
      split
      · apply stringOut_ok
      · simp [Res.inBounds, Res.retDefined]
    | some hh => exact withHandle_ok hh cmd size data

/-- a write-mode WAV / PCM16 handle, nothing written yet (the `w plain` handle of the grid) -/
def wavW : H :=
  { mode := .w, container := cWAV, codec := 2, channels := 2, seekable := true, hasCommand := true, haveWritten := false,
    readCur := 0, writeCur := 0, normFloat := true, normDouble := true, clipping := false, floatIntMult := false,
    scaleIntFloat := false, autoHeader := false, ieeeReplace := false, endswap := false, ambisonic := 0x40,
    rf64Downgrade := false, bext := none, cart := none, cues := none, hasInstrument := false, hasLoop := false,
    hasChanMap := false, hasPeak := false, logLen := 11, metaEpoch := 0, fileEpoch := 0 }

def g0 : G := { verLen := 16, gLogLen := 0, simpleCount := 13, majorCount := 23, subtypeCount := 28 }

/-- non-vacuity: calls that do touch data, and the four formerly failing points now answered inside the block -/
example : (run g0 (some wavW) 0x1002 32 (some ⟨32, fun _ => 0xA5⟩)).writes = [(0, 32)] ∧
          (run g0 (some wavW) 0x10F1 864 (some ⟨864, fun _ => 0⟩)).ret = .exact 1 ∧
          (run g0 none 0x1000 0 (some ⟨0, fun _ => 0xA5⟩)).reads = [] ∧
          (run g0 none 0x1000 0 (some ⟨0, fun _ => 0xA5⟩)).ret = .exact 0 ∧
          (run g0 (some wavW) 0x10F1 600 (some ⟨600, fun _ => 0⟩)).reads = [] ∧
          (run g0 (some wavW) 0x10F1 600 (some ⟨600, fun _ => 0⟩)).err = some eBextSize ∧
          (run g0 (some wavW) 0x10F1 609 (some ⟨609, fun i => if i + 1 = 609 then 10 else 0⟩)).reads = [(604, 608), (0, 608), (608, 609)] := by
  decide

/-! ## C17, string commands -/

/-- SFC_GET_LIB_VERSION / SFC_GET_LOG_INFO with a non-NULL buffer and datasize ≥ 1 write a string whose
    terminating NUL lies inside datasize, and return its length. -/
theorem string_cmds_terminate (g : G) (h : Option H) (cmd : Int) (size : Nat) (m : Mem)
    (hc : isStringCmd cmd = true) (hs : 1 ≤ size) : (run g h cmd size (some m)).terminates size = true := by
  simp only [isStringCmd, Bool.decide_or, Bool.or_eq_true, decide_eq_true_eq] at hc
  rcases hc with hc | hc <;> subst hc
  · simp only [run, preHandle, if_true]
    exact stringOut_terminates _ _ _ _ _ _ hs
  · have hp : preHandle g h 0x1001 size (some m) = none := by simp [preHandle]
    have hcl : classify 0x1001 = Cls.k1001 := by decide
    cases h with
    | none => simp only [run, hp, if_true]; exact stringOut_terminates _ _ _ _ _ _ hs
    | some hh => simp only [run, hp, withHandle, hcl]; exact stringOut_terminates _ _ _ _ _ _ hs

/-- non-vacuity: exact fit and truncation -/
example : (run g0 none 0x1000 17 (some ⟨17, fun _ => 0xA5⟩)).writes = [(0, 17)] ∧
          (run g0 none 0x1000 5 (some ⟨5, fun _ => 0xA5⟩)).ret = .exact 4 ∧
          (run g0 none 0x1000 1 (some ⟨1, fun _ => 0xA5⟩)).writes = [(0, 1)] := by decide

/-! ## C17, queries are pure -/

/-- A command that only queries information leaves position, audio, settings and metadata as they were —
    for every handle state, datasize and data. -/
theorem queries_are_pure (g : G) (h : Option H) (cmd : Int) (size : Nat) (data : Option Mem)
    (hq : isQuery cmd = true) : sameState (run g h cmd size data).h' h = true := by
  unfold run
  cases hp : preHandle g h cmd size data with
  | some r => simp [preHandle_pure g h cmd size data r hp, sameState]
  | none =>
    cases h with
    | none => simp only []; split <;> simp [stringOut, sameState] <;> (repeat' split) <;> simp
    | some hh => exact withHandle_pure hh cmd size data hq

/-- a read/write WAV handle with 8 frames written and the read cursor at 3 (the `rw used` handle of the grid) -/
def wavRW : H := { wavW with mode := .rw, haveWritten := true, readCur := 3, writeCur := 8 }

/-- non-vacuity: queries that write data, SFC_CALC_SIGNAL_MAX on the handle with diverging cursors, and a
    non-query that does change the handle -/
example : isQuery 0x1002 = true ∧ (run g0 (some wavRW) 0x1002 32 (some ⟨32, fun _ => 0⟩)).writes = [(0, 32)] ∧
          isQuery 0x1040 = true ∧ (run g0 (some wavRW) 0x1040 8 (some ⟨8, fun _ => 0⟩)).writes = [(0, 8)] ∧
          (run g0 (some wavRW) 0x1040 8 (some ⟨8, fun _ => 0⟩)).h' = some wavRW ∧
          isQuery 0x1013 = false ∧ (run g0 (some wavW) 0x1013 0 none).h' ≠ some wavW := by decide

/-! ## history: the four rules as they were before the repairs

Nothing here is about the current code; `oldStringOut`, `oldVarSet`, `oldCrlfEnd`, `oldAfterCalc`
(end of SfModel/Command.lean) are the rules the model used while the defects were known findings. -/

/-- before ff9108b — SFC_GET_LIB_VERSION / SFC_GET_LOG_INFO with datasize 0 and a non-NULL buffer: nothing is
    written, strlen reads at least byte 0 of a zero-length block, and the return value is undefined -/
theorem strlen_after_empty_snprintf_old_rule (l : Nat) (m : Mem) (h : Option H) (e : Option Nat) (r : Int) :
    (oldStringOut l 0 (some m) h e r).inBounds 0 = false ∧ (oldStringOut l 0 (some m) h e r).retDefined = false := by
  simp [oldStringOut, Res.inBounds, Res.retDefined, rangeIn]

/-- before dc376ca — `broadcast_var_set` / `cart_var_set` read the 4-byte length field at `sizeOff` whatever
    datasize is: out of bounds for every datasize that does not reach past it -/
theorem len_before_check_old_rule (sizeOff fixed cap eS eB : Nat) (h h2 : H) (size : Nat) (m : Mem)
    (hs : size < sizeOff + 4) : (oldVarSet sizeOff fixed cap eS eB h size (some m) h2).inBounds size = false := by
  unfold oldVarSet
  simp only
  split
  · simp [Res.inBounds, rangeIn]; omega
  · split
    · simp [Res.inBounds, rangeIn]; omega
    · simp [Res.inBounds, rangeIn]; omega

/-- the same two inputs under the old and the new rule: SFC_SET_BROADCAST_INFO, 600-byte block -/
theorem len_before_check_old_vs_new :
    (oldVarSet bextSizeOff bextFixed bextCap eBextSize eBextBig wavW 600 (some ⟨600, fun _ => 0⟩) wavW).reads = [(604, 608)] ∧
    (varSet bextSizeOff bextFixed bextCap eBextSize eBextBig wavW 600 (some ⟨600, fun _ => 0⟩) wavW).reads = [] := by decide

/-- before 8501a42 — `psf_strlcpy_crlf` with one source byte left that is CR or LF looked at the byte after it:
    609 bytes, coding_history_size = 0, last byte LF: byte 609 is read; the current rule stops at 609 -/
theorem crlf_last_old_rule :
    oldCrlfEnd (fun i => if i + 1 = 609 then 10 else 0) 1 608 16382 = 610 ∧
    crlfEnd (fun i => if i + 1 = 609 then 10 else 0) 1 608 16382 = 609 ∧
    (oldVarSet bextSizeOff bextFixed bextCap eBextSize eBextBig wavW 609
        (some ⟨609, fun i => if i + 1 = 609 then 10 else 0⟩) wavW).inBounds 609 = false := by decide

/-- the old rule never went further than that one byte -/
theorem crlf_old_rule_one_byte (m : Nat → Nat) (n i room : Nat) : oldCrlfEnd m n i room ≤ i + n + 1 :=
  oldCrlfEnd_le m n i room

/-- before 604e547 — SFC_CALC_* on a read/write handle: the read cursor ends up on the write cursor, so a query
    moved the handle whenever the two differed -/
theorem calc_rdwr_old_rule (h : H) (hm : h.mode = .rw) (hne : h.readCur ≠ h.writeCur) :
    (oldAfterCalc h).readCur = h.writeCur ∧ sameState (some (oldAfterCalc h)) (some h) = false := by
  cases h with
  | mk mode =>
    simp only at hm
    subst hm
    simp [oldAfterCalc, sameState, H.core]
    intro hx; exact absurd hx.symm hne

end Sf.C17
