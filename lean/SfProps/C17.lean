/-
  C17 — sf_command never touches more than datasize bytes, string commands terminate, queries are pure.
  Property theorems only (model: SfModel/Command.lean, helper lemmas: SfProofs/Command.lean).
-/
import SfModel.Command
import SfProofs.Command
namespace Sf.C17
open Sf.Command

/-! ## C17, bounds part -/

/-- The full statement: for every command id, handle, datasize and data pointer every byte range touched
    lies inside [0, datasize), NULL is never dereferenced and the return value is defined. -/
def cmd_in_bounds_full : Prop :=
  ∀ (g : G) (h : Option H) (cmd : Int) (size : Nat) (data : Option Mem),
    (run g h cmd size data).inBounds size = true ∧ (run g h cmd size data).retDefined = true

/-- It holds outside the three known-finding classes (and only there is anything excluded). -/
theorem cmd_in_bounds_partial (g : G) (h : Option H) (cmd : Int) (size : Nat) (data : Option Mem)
    (hk : kfBounds h cmd size data = false) :
    (run g h cmd size data).inBounds size = true ∧ (run g h cmd size data).retDefined = true := by
  have hk0 : kfStrlen0 cmd size data = false := by
    simp only [kfBounds, Bool.or_eq_false_iff] at hk; exact hk.1.1
  unfold run
  cases hp : preHandle g h cmd size data with
  | some r => exact preHandle_ok g h cmd size data r hk0 hp
  | none =>
    cases h with
    | none =>
      simp only []
      split
      · rename_i hc
        apply stringOut_ok
        subst hc
        cases data <;> simp_all [kfStrlen0, isStringCmd]
      · simp [Res.inBounds, Res.retDefined]
    | some hh => exact withHandle_ok hh cmd size data hk

/-- a write-mode WAV / PCM16 handle, nothing written yet (the `w plain` handle of the grid) -/
def wavW : H :=
  { mode := .w, container := cWAV, codec := 2, channels := 2, seekable := true, hasCommand := true, haveWritten := false,
    readCur := 0, writeCur := 0, normFloat := true, normDouble := true, clipping := false, floatIntMult := false,
    scaleIntFloat := false, autoHeader := false, ieeeReplace := false, endswap := false, ambisonic := 0x40,
    rf64Downgrade := false, bext := none, cart := none, cues := none, hasInstrument := false, hasLoop := false,
    hasChanMap := false, hasPeak := false, logLen := 11, metaEpoch := 0, fileEpoch := 0 }

def g0 : G := { verLen := 16, gLogLen := 0, simpleCount := 13, majorCount := 23, subtypeCount := 28 }

/-- KF-C17-strlen0: SFC_GET_LIB_VERSION, datasize 0, zero-length block: strlen reads byte 0, the return value is undefined -/
theorem lib_version_size0_fails :
    (run g0 none 0x1000 0 (some ⟨0, fun _ => 0xA5⟩)).inBounds 0 = false ∧
    (run g0 none 0x1000 0 (some ⟨0, fun _ => 0xA5⟩)).retDefined = false := by decide

/-- KF-C17-strlen0 for SFC_GET_LOG_INFO on an open handle -/
theorem log_info_size0_fails : (run g0 (some wavW) 0x1001 0 (some ⟨0, fun _ => 0⟩)).inBounds 0 = false := by decide

/-- KF-C17-len-before-check: SFC_SET_BROADCAST_INFO with a 600-byte block reads bytes 604..607 -/
theorem set_broadcast_len_before_check_fails :
    (run g0 (some wavW) 0x10F1 600 (some ⟨600, fun _ => 0⟩)).inBounds 600 = false := by decide

/-- … and SFC_SET_CART_INFO with a 2047-byte block reads bytes 2048..2051 -/
theorem set_cart_len_before_check_fails :
    (run g0 (some wavW) 0x1400 2047 (some ⟨2047, fun _ => 0⟩)).inBounds 2047 = false := by decide

/-- KF-C17-crlf-last: 609 bytes, coding_history_size = 0, last byte LF: psf_strlcpy_crlf reads byte 609 -/
theorem set_broadcast_crlf_last_fails :
    (run g0 (some wavW) 0x10F1 609 (some ⟨609, fun i => if i + 1 = 609 then 10 else 0⟩)).inBounds 609 = false := by decide

theorem cmd_in_bounds_fails : ¬ cmd_in_bounds_full := by
  intro hf
  have := (hf g0 none 0x1000 0 (some ⟨0, fun _ => 0xA5⟩)).1
  rw [lib_version_size0_fails.1] at this
  cases this

/-- the excluded classes are not empty promises: each of the first two is violated at *every* point of the class -/
theorem strlen0_class_exact (g : G) (h : Option H) (cmd : Int) (size : Nat) (data : Option Mem)
    (hk : kfStrlen0 cmd size data = true) : (run g h cmd size data).retDefined = false := by
  simp only [kfStrlen0, isStringCmd, Bool.and_eq_true, decide_eq_true_eq, Bool.decide_or, Bool.or_eq_true] at hk
  obtain ⟨⟨hc, hs⟩, hd⟩ := hk
  subst hs
  cases data with
  | none => simp at hd
  | some m =>
    rcases hc with hc | hc <;> subst hc
    · simp [run, preHandle, stringOut, Res.retDefined]
    · cases h with
      | none => simp [run, preHandle, stringOut, Res.retDefined]
      | some hh =>
        have hcl : classify 0x1001 = Cls.k1001 := by decide
        simp [run, preHandle, withHandle, hcl, stringOut, Res.retDefined]

/-- non-vacuity of `cmd_in_bounds_partial`: the hypothesis is met by ordinary calls, which do touch data -/
example : kfBounds (some wavW) 0x1002 32 (some ⟨32, fun _ => 0xA5⟩) = false ∧
          (run g0 (some wavW) 0x1002 32 (some ⟨32, fun _ => 0xA5⟩)).writes = [(0, 32)] ∧
          kfBounds (some wavW) 0x10F1 864 (some ⟨864, fun _ => 0⟩) = false ∧
          (run g0 (some wavW) 0x10F1 864 (some ⟨864, fun _ => 0⟩)).ret = .exact 1 := by decide

/-! ## C17, string commands -/

/-- SFC_GET_LIB_VERSION / SFC_GET_LOG_INFO with a non-NULL buffer and datasize ≥ 1 write a string whose
    terminating NUL lies inside datasize, and return its length. -/
theorem string_cmds_terminate (g : G) (h : Option H) (cmd : Int) (size : Nat) (m : Mem)
    (hc : isStringCmd cmd = true) (hs : 1 ≤ size) : (run g h cmd size (some m)).terminates size = true := by
  simp only [isStringCmd, Bool.decide_or, Bool.or_eq_true, decide_eq_true_eq] at hc
  rcases hc with hc | hc <;> subst hc
  · simp only [run, preHandle, if_true]
    exact stringOut_terminates _ _ _ _ _ _ hs
  · have hp : preHandle g h 0x1001 size (some m) = none := by simp [preHandle]
    have hcl : classify 0x1001 = Cls.k1001 := by decide
    cases h with
    | none => simp only [run, hp, if_true]; exact stringOut_terminates _ _ _ _ _ _ hs
    | some hh => simp only [run, hp, withHandle, hcl]; exact stringOut_terminates _ _ _ _ _ _ hs

/-- non-vacuity: exact fit and truncation -/
example : (run g0 none 0x1000 17 (some ⟨17, fun _ => 0xA5⟩)).writes = [(0, 17)] ∧
          (run g0 none 0x1000 5 (some ⟨5, fun _ => 0xA5⟩)).ret = .exact 4 ∧
          (run g0 none 0x1000 1 (some ⟨1, fun _ => 0xA5⟩)).writes = [(0, 1)] := by decide

/-! ## C17, queries are pure -/

/-- The full statement: a command that only queries information leaves position, audio, settings and metadata as they were. -/
def queries_are_pure_full : Prop :=
  ∀ (g : G) (h : Option H) (cmd : Int) (size : Nat) (data : Option Mem),
    isQuery cmd = true → sameState (run g h cmd size data).h' h = true

theorem queries_are_pure_partial (g : G) (h : Option H) (cmd : Int) (size : Nat) (data : Option Mem)
    (hq : isQuery cmd = true) (hk : kfCalcRdwr h cmd size data = false) :
    sameState (run g h cmd size data).h' h = true := by
  unfold run
  cases hp : preHandle g h cmd size data with
  | some r => simp [preHandle_pure g h cmd size data r hp, sameState]
  | none =>
    cases h with
    | none => simp only []; split <;> simp [stringOut, sameState] <;> (repeat' split) <;> simp
    | some hh => exact withHandle_pure hh cmd size data hq hk

/-- a read/write WAV handle with 8 frames written and the read cursor at 3 (the `rw used` handle of the grid) -/
def wavRW : H := { wavW with mode := .rw, haveWritten := true, readCur := 3, writeCur := 8 }

/-- KF-C17-calc-rdwr: SFC_CALC_SIGNAL_MAX moves the read cursor of a read/write handle to the write cursor -/
theorem calc_signal_max_moves_read_cursor :
    (run g0 (some wavRW) 0x1040 8 (some ⟨8, fun _ => 0⟩)).h' = some { wavRW with readCur := 8 } := by decide

theorem queries_are_pure_fails : ¬ queries_are_pure_full := by
  intro hf
  have := hf g0 (some wavRW) 0x1040 8 (some ⟨8, fun _ => 0⟩) (by decide)
  revert this
  decide

/-- the excluded class is exact: every point of it moves the read cursor -/
theorem calc_rdwr_class_exact (g : G) (h : H) (cmd : Int) (size : Nat) (data : Option Mem)
    (hk : kfCalcRdwr (some h) cmd size data = true) : sameState (run g (some h) cmd size data).h' (some h) = false := by
  simp only [kfCalcRdwr, isCalcCmd, Bool.and_eq_true, decide_eq_true_eq, Bool.decide_or, Bool.or_eq_true] at hk
  obtain ⟨⟨⟨⟨⟨hc, hd⟩, hm⟩, hsk⟩, hne⟩, hsz⟩ := hk
  cases data with
  | none => simp at hd
  | some m =>
    have hr : canRead h = true := by simp [canRead, hm]
    rcases hc with hc | hc | hc | hc <;> subst hc
    · have hcl : classify 0x1040 = Cls.k1040 := by decide
      simp at hsz
      simp [run, preHandle, withHandle, hcl, guardEq, hsz, hsk, hr, afterCalc, hm, sameState, H.core]
      intro hx; exact hne hx.symm
    · have hcl : classify 0x1041 = Cls.k1040 := by decide
      simp at hsz
      simp [run, preHandle, withHandle, hcl, guardEq, hsz, hsk, hr, afterCalc, hm, sameState, H.core]
      intro hx; exact hne hx.symm
    · have hcl : classify 0x1042 = Cls.k1042 := by decide
      simp at hsz
      simp [run, preHandle, withHandle, hcl, guardEq, hsz, hsk, hr, afterCalc, hm, sameState, H.core]
      intro hx; exact hne hx.symm
    · have hcl : classify 0x1043 = Cls.k1042 := by decide
      simp at hsz
      simp [run, preHandle, withHandle, hcl, guardEq, hsz, hsk, hr, afterCalc, hm, sameState, H.core]
      intro hx; exact hne hx.symm

/-- non-vacuity: queries that do write data, on handles where the hypothesis holds -/
example : isQuery 0x1002 = true ∧ kfCalcRdwr (some wavRW) 0x1002 32 (some ⟨32, fun _ => 0⟩) = false ∧
          (run g0 (some wavRW) 0x1002 32 (some ⟨32, fun _ => 0⟩)).writes = [(0, 32)] ∧
          isQuery 0x1040 = true ∧ kfCalcRdwr (some wavW) 0x1040 8 (some ⟨8, fun _ => 0⟩) = false ∧
          isQuery 0x1013 = false ∧ (run g0 (some wavW) 0x1013 0 none).h' ≠ some wavW := by decide

end Sf.C17
