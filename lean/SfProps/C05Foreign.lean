/-
  C05 / C06 on FOREIGN-BUT-VALID files (vlib/foreignread.py): a file the campaign BUILT — the audio bytes of a library-written
  base file under another, valid layout (SSND offset with chunks behind it, VOC text / repeat blocks, chunks around the audio …) —
  is judged by `Sf.Abs.holdsOn` with the geometry and the reference streams of the CONSTRUCTION (`frames0` := frames of the base file,
  `ref` := its streams), not with what the file's own first read delivers.  What an accepted transcript of the campaign's shape
  (info line; one read of everything and more; seek; read) then says, whatever parser produced the answers:
-- properties: C05 C06
-/
import SfProofs.AbsRun
namespace Sf.C05Foreign
open Sf Sf.Abs

/-- the `info` line in front of an accepted transcript reported exactly the frame count of the construction -/
theorem foreign_info_frames (g : Geom) (ref : Ty → Array Item) (valid : Ty → Bool) (o : Out) (tr : List (Op × Out)) (n : Nat)
    (h : holdsOn g ref valid ((.info, o) :: tr) = .ok n) : o.frames = (g.frames0 : Int) := by
  have hfr : (St.init g ref valid).frames = g.frames0 := rfl
  by_cases hf : o.frames = ((St.init g ref valid).frames : Int)
  · rw [hf, hfr]
  · exfalso
    unfold holdsOn holdsFrom at h
    simp only [check, infoOk, if_neg hf] at h
    exact Verdict.noConfusion h

/-- items a request covers / a return value stands for, as frames -/
theorem retItems_lt_of (g : Geom) (fc : Bool) (n r : Int) (hr : 0 ≤ r)
    (h : retItems g fc r < reqItems g fc n) : r < n := by
  unfold retItems reqItems at h
  cases fc
  · simp at h; omega
  · simp only [if_true] at h
    have : r.toNat < n.toNat := Nat.lt_of_mul_lt_mul_right h
    omega

/-- ONE read from the start that asks for more than the construction holds delivers exactly the construction: `frames0` whole
    frames — not one more (the bytes of a chunk behind the audio), not one less —, equal to the first `frames0 · ch` items of the
    reference stream, and the read position stands at the end.  (The deterministic prelude of every history of the campaign.) -/
theorem foreign_whole_read (g : Geom) (ref : Ty → Array Item) (valid : Ty → Bool) (ty : Ty) (fc : Bool) (n : Int) (o : Out) (st' : St)
    (hm : g.mode0 = .r) (hF : 0 < g.frames0) (hv : validReq g fc n = true)
    (hbig : g.frames0 * g.ch < reqItems g fc n)
    (h : readOk g (St.init g ref valid) ty fc n o = .ok st') :
    retItems g fc o.ret = g.frames0 * g.ch ∧ st'.rpos = g.frames0 ∧ o.err = false ∧
    (valid ty = true → o.data.extract 0 (g.frames0 * g.ch * cells ty) = (ref ty).extract 0 (g.frames0 * g.ch * cells ty)) := by
  have hrr : ReadReq g (St.init g ref valid) fc n := ⟨hv, by simp [St.init, hm]⟩
  obtain ⟨h0, _, hmod, _, herr, _, hmain⟩ := readOk_valid g _ ty fc n o st' hrr h
  have hlt : (St.init g ref valid).rpos < (St.init g ref valid).frames := by simp [St.init]; exact hF
  obtain ⟨hs, hle, hdat, hshort⟩ := hmain hlt
  simp only [St.init] at hle hshort hdat
  have hdiv : retItems g fc o.ret / g.ch * g.ch = retItems g fc o.ret := Nat.div_mul_cancel (Nat.dvd_of_mod_eq_zero hmod)
  have hle' : retItems g fc o.ret ≤ g.frames0 * g.ch := by
    have : retItems g fc o.ret / g.ch ≤ g.frames0 := by omega
    calc retItems g fc o.ret = retItems g fc o.ret / g.ch * g.ch := hdiv.symm
      _ ≤ g.frames0 * g.ch := Nat.mul_le_mul_right _ this
  have hlt2 : o.ret < n := retItems_lt_of g fc n o.ret h0 (by omega)
  have hend := hshort hlt2
  have hk : retItems g fc o.ret / g.ch = g.frames0 := by omega
  have hret : retItems g fc o.ret = g.frames0 * g.ch := by rw [← hdiv, hk]
  refine ⟨hret, ?_, herr, fun hval => ?_⟩
  · rw [hs]; simp [St.init, hk]
  · have hx := (sliceEq_extract _ _ _ _ _ (hdat hval)).1
    simp only [Nat.zero_mul, Nat.zero_add, hret] at hx
    exact hx

/-- a further read at the end of the construction delivers nothing and sets no error (the chunk behind the audio is not audio) -/
theorem foreign_read_at_end (g : Geom) (st : St) (ty : Ty) (fc : Bool) (n : Int) (o : Out) (st' : St)
    (hm : st.mode = .r) (hv : validReq g fc n = true) (hend : st.rpos = st.frames)
    (h : readOk g st ty fc n o = .ok st') : o.ret = 0 ∧ o.err = false ∧ st'.rpos = st.rpos := by
  have hrr : ReadReq g st fc n := ⟨hv, by rw [hm]; decide⟩
  obtain ⟨_, _, _, _, herr, heof, _⟩ := readOk_valid g st ty fc n o st' hrr h
  obtain ⟨hz, _, hs⟩ := heof (by omega)
  exact ⟨hz, herr, by rw [hs]⟩

/-- non-vacuity: a two-frame stereo construction; the answers a correct reader gives are accepted, and the answers of a reader that
    counts one frame too many (the defect class of the SSND-offset / text-block parsers) are refused with clause `frames` -/
def exG : Geom := { ch := 2, frames0 := 2, mode0 := .r }
def exRef : Ty → Array Item := fun _ => #[1, 2, 3, 4]

example : holdsOn exG exRef (fun _ => true)
    [(.info, { frames := 2 }), (.read .s16 false 6, { ret := 4, data := #[1, 2, 3, 4, 0xA5A5, 0xA5A5] })] = .ok 2 := by decide
example : holdsOn exG exRef (fun _ => true) [(.info, { frames := 3 })] = .bad 0 "frames" := by decide
example : holdsOn exG exRef (fun _ => true)
    [(.info, { frames := 2 }), (.read .s16 false 6, { ret := 6, data := #[1, 2, 3, 4, 9, 9] })] = .bad 1 "data" := by decide
example : (foreign_whole_read exG exRef (fun _ => true) .s16 false 6 { ret := 4, data := #[1, 2, 3, 4, 0xA5A5, 0xA5A5] }
    _ rfl (by decide) (by decide) (by decide) rfl).1 = rfl := rfl

end Sf.C05Foreign
