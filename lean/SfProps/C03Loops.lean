/-
  C03 — "returns in time bounded by the input size" for the chunk loops of the IFF-family parsers
  (svx.c, caf.c, wav.c, rf64.c, aiff.c), and the CAF 'info' size rule.
-- properties: C03 C15

  Since the round-4 repairs (psf_binheader_tell + "an iteration must end behind the offset it started at") the loops
  are bounded at FULL strength: for every announced file length (SF_COUNT_MAX of a pipe included), every file content
  and every behaviour of the I/O layer.  The failures of the old rule (known findings KF-C03-svx-backjump,
  KF-C03-pipe-chunk-loop, KF-C15-SCAN-HANG, KF-C03-caf-info-pipe; witnesses kept as regression scripts) stay as
  `…_old_rule` theorems.
-/
import SfModel.ChunkLoop
import SfModel.HeaderCache
namespace Sf.C03
open Sf.ChunkLoop

/-! ## the progress rule bounds the loop -/

/-- the engine: while the loop is still inside the file (`f < filelength - tail`) the parser's offset is at most B -/
theorem chunk_loop_terminates (filelength tail : Int) (o : Nat → It) (B : Int)
    (hB : ∀ k, (o k).p ≤ B ∨ (o k).f ≥ filelength - tail) :
    ∀ (n k : Nat) (p : Int), B - p ≤ n → (loop .current filelength tail o (n + 1) k p).isSome := by
  intro n
  induction n with
  | zero =>
    intro k p h
    unfold loop
    by_cases h1 : (o k).brk = true
    · simp [h1]
    · by_cases h2 : (o k).p ≤ p
      · simp [h1, h2]
      · by_cases h3 : (o k).f ≥ filelength - tail
        · simp [h1, h2, h3]
        · exfalso
          rcases hB k with h4 | h4
          · simp at h; omega
          · exact h3 h4
  | succ n ih =>
    intro k p h
    unfold loop
    by_cases h1 : (o k).brk = true
    · simp [h1]
    · by_cases h2 : (o k).p ≤ p
      · simp [h1, h2]
      · by_cases h3 : (o k).f ≥ filelength - tail
        · simp [h1, h2, h3]
        · by_cases h5 : (o k).done = true
          · simp [h1, h2, h3, h5]
          · simp only [h1, h2, h3, h5, Bool.false_eq_true, if_false, and_false]
            apply ih
            rcases hB k with h4 | h4
            · push_cast at h ⊢; omega
            · exact absurd h4 h3

/-- C03's "time bounded by the input size" for the five chunk loops, FULL strength: whatever length the file announces
    (SF_COUNT_MAX for a pipe), whatever the bytes are and whatever the I/O layer answers — if the header cache is ahead
    of the parser (`p ≤ f`, an invariant of header_read / header_seek SEEK_CUR / header_gets) and the file position
    cannot pass the N bytes of input (a pipe delivers no more than it holds), the loop ends within N - p + 1 iterations -/
theorem chunk_loop_bounded_by_input (filelength tail : Int) (o : Nat → It) (N p : Int) (k : Nat)
    (hpf : ∀ k, (o k).p ≤ (o k).f) (hN : ∀ k, (o k).f ≤ N) :
    (loop .current filelength tail o ((N - p).toNat + 1) k p).isSome := by
  apply chunk_loop_terminates filelength tail o N
  · intro j; left; exact Int.le_trans (hpf j) (hN j)
  · have := Int.self_le_toNat (N - p); omega

/-- … and on a seekable file (psf_fseek may move beyond the end; the `psf_ftell () >= filelength - tail` test then
    fires) within filelength - tail - p + 1 iterations -/
theorem chunk_loop_bounded_by_length (filelength tail : Int) (o : Nat → It) (p : Int) (k : Nat)
    (hpf : ∀ k, (o k).p ≤ (o k).f) :
    (loop .current filelength tail o ((filelength - tail - p).toNat + 1) k p).isSome := by
  apply chunk_loop_terminates filelength tail o (filelength - tail)
  · intro j
    by_cases h : (o j).f ≥ filelength - tail
    · right; exact h
    · left; have := hpf j; omega
  · have := Int.self_le_toNat (filelength - tail - p); omega

/-- every iteration but the last moved the parser forward: the loop never visits an offset twice -/
theorem chunk_loop_last_iteration (filelength tail : Int) (o : Nat → It) :
    ∀ (fuel k : Nat) (p : Int) (j : Nat) (e : Exit), loop .current filelength tail o fuel k p = some (j, e) → k ≤ j := by
  intro fuel
  induction fuel with
  | zero => intro k p j e h; simp [loop] at h
  | succ n ih =>
    intro k p j e h
    unfold loop at h
    by_cases h1 : (o k).brk = true
    · simp [h1] at h; omega
    · by_cases h2 : (o k).p ≤ p
      · simp [h1, h2] at h; omega
      · by_cases h3 : (o k).f ≥ filelength - tail
        · simp [h1, h2, h3] at h; omega
        · by_cases h5 : (o k).done = true
          · simp [h1, h2, h3, h5] at h; omega
          · simp only [h1, h2, h3, h5, Bool.false_eq_true, if_false, and_false] at h
            have := ih (k + 1) _ j e h
            omega

/-! ## the old rule -/

theorem chunk_loop_stuck_runs_old_rule (filelength tail p f : Int) (h : f < filelength - tail) :
    ∀ (fuel k : Nat) (q : Int), loop .old filelength tail (stuck p f) fuel k q = none := by
  intro fuel
  induction fuel with
  | zero => intro k q; rfl
  | succ n ih =>
    intro k q
    unfold loop
    have h3 : ¬ f ≥ filelength - tail := by omega
    simp only [stuck, Bool.false_eq_true, if_false, reduceCtorEq, false_and, h3]
    exact ih (k + 1) p

/-- the known-finding class of the old rule: some iteration does not move the parser forward while the file position
    is still short of `filelength - tail` -/
def KF.chunkNoProgress (filelength tail : Int) (o : Nat → It) (p0 : Int) : Prop :=
  ∃ k, (o k).f < filelength - tail ∧ (o k).p ≤ (if k = 0 then p0 else (o (k - 1)).p)

/-- OLD RULE, KF-C03-svx-backjump (findings/C03-svx-backjump.txt): the 61-byte 16SV file whose ANNO chunk at offset 48
    has the size 0xFFFFFFF8.  Every iteration ends at offset 48 with the file position at 56 < 61 - 4: still running
    after 10^15 iterations, on every route — and under the current rule it is left in the first such iteration. -/
theorem svx_backjump_unbounded_old_rule :
    loop .old 61 4 (stuck 48 56) 1000000000000000 0 48 = none ∧
    loop .current 61 4 (stuck 48 56) 1 0 48 = some (0, .noProgress) :=
  ⟨chunk_loop_stuck_runs_old_rule 61 4 48 56 (by decide) _ _ _, by decide⟩

/-- OLD RULE, KF-C03-pipe-chunk-loop / KF-C15-SCAN-HANG (findings/C03-svx-pipe-loop.txt, c15_scan_hang_*.txt): input that
    ends inside the header of a pipe (53 bytes delivered, filelength = SF_COUNT_MAX) or whose reads start to return
    nothing: the parser stays where it is -/
theorem pipe_eof_unbounded_old_rule :
    loop .old SF_COUNT_MAX 4 (stuck 53 53) 1000000000000000 0 53 = none ∧
    loop .current SF_COUNT_MAX 4 (stuck 53 53) 1 0 53 = some (0, .noProgress) :=
  ⟨chunk_loop_stuck_runs_old_rule SF_COUNT_MAX 4 53 53 (by decide) _ _ _, by decide⟩

/-- OLD RULE: outside the class (every iteration moves the parser forward) the old loop is the current loop -/
theorem chunk_loop_same_outside_class_old_rule (filelength tail : Int) (o : Nat → It) :
    ∀ (fuel k : Nat) (p : Int), (∀ j, k ≤ j → (o j).brk = false → (o j).p > (if j = k then p else (o (j - 1)).p)) →
      loop .old filelength tail o fuel k p = loop .current filelength tail o fuel k p := by
  intro fuel
  induction fuel with
  | zero => intro k p _; rfl
  | succ n ih =>
    intro k p h
    unfold loop
    by_cases h1 : (o k).brk = true
    · simp [h1]
    · have hk := h k (Nat.le_refl k) (by simpa using h1)
      simp only [if_true] at hk
      have h2 : ¬ (o k).p ≤ p := by omega
      simp only [h1, h2, Bool.false_eq_true, if_false, reduceCtorEq, and_false]
      by_cases h3 : (o k).f ≥ filelength - tail
      · simp [h3]
      · by_cases h5 : (o k).done = true
        · simp [h3, h5]
        · simp only [h3, h5, Bool.false_eq_true, if_false]
          apply ih
          intro j hj hb
          have := h j (by omega) hb
          by_cases hjk : j = k + 1
          · subst hjk; simpa using this
          · have hne : j ≠ k := by omega
            simpa [hne, hjk] using this

/-- non-vacuity: a well-formed chunk list (three chunks of 8 + 20 bytes in a 100-byte file) is walked in the same
    three iterations under both rules and the hypotheses of the bounds are met; a back jump in the second chunk ends
    the current loop there -/
example :
    let o : Nat → It := fun k => { p := 12 + 28 * (k + 1), f := 12 + 28 * (k + 1) }
    loop .current 100 4 o 10 0 12 = some (2, .endOfFile) ∧ loop .old 100 4 o 10 0 12 = some (2, .endOfFile) ∧
    (∀ k, (o k).p ≤ (o k).f) ∧
    loop .current 100 4 (fun k => if k = 1 then { p := 12, f := 68 } else o k) 10 0 12 = some (1, .noProgress) ∧
    loop .old 100 4 (fun k => if k = 1 then { p := 12, f := 68 } else o k) 3 0 12 = some (2, .endOfFile) := by
  refine ⟨by decide, by decide, ?_, by decide, by decide⟩
  intro k; exact Int.le_refl _

/-! ## CAF 'info' : the count handed to psf_binheader_readf's 'b' -/
open Sf.CafInfo in
/-- FULL strength for the current code: whatever size the chunk announces, on every route, the 'b' conversion (if it
    is reached at all) gets an argument in the range the header-cache theorems demand (`Item.argsOk`: not negative), it
    equals the number of bytes allocated less one, and no more than 100k + 1 bytes are allocated -/
theorem caf_info_count (n : Int) (hn : 1 ≤ n) :
    (∀ c, bCount .current n = some c → (HeaderCache.Item.b c).argsOk ∧ c = n ∧ allocated .current n = c + 1) ∧
    allocated .current n ≤ HEADER_CAP + 1 := by
  unfold allocated bCount HEADER_CAP
  by_cases h : n > 102400
  · simp [h]
  · simp only [h, if_false]
    have hc : asInt n = n := by unfold asInt; omega
    refine ⟨?_, by omega⟩
    intro c hc'
    simp only [Option.some.injEq] at hc'
    subst hc'
    rw [hc]
    exact ⟨by unfold HeaderCache.Item.argsOk; omega, rfl, rfl⟩

/-- the class of the old rule's failure: the string area does not fit an `int` as a positive number -/
def KF.cafInfoCount (n : Int) : Prop := Sf.CafInfo.asInt n < 0

instance (n : Int) : Decidable (KF.cafInfoCount n) := by unfold KF.cafInfoCount; infer_instance

open Sf.CafInfo in
/-- OLD RULE, KF-C03-caf-info-pipe (findings/C03-caf-info-pipe.txt): an 'info' chunk of 0xFF0000E6 bytes read from a
    pipe reached memset with the count -16776990 -/
theorem caf_info_count_fails_old_rule :
    ∃ n : Int, 1 ≤ n ∧ KF.cafInfoCount n ∧ bCount .old n = some (-16776990) ∧ ¬ (HeaderCache.Item.b (-16776990)).argsOk :=
  ⟨0xFF0000E6 - 4, by decide, by decide, by decide, by decide⟩

open Sf.CafInfo in
/-- OLD RULE: outside that class the count was in range -/
theorem caf_info_count_partial_old_rule (n : Int) (h : ¬ KF.cafInfoCount n) :
    ∀ c, bCount .old n = some c → (HeaderCache.Item.b c).argsOk := by
  intro c hc
  unfold bCount at hc
  simp only [Option.some.injEq] at hc
  subst hc
  unfold KF.cafInfoCount at h
  unfold HeaderCache.Item.argsOk
  omega

/-- non-vacuity: an ordinary chunk is read under both rules; the witness size and a 1 MB chunk are refused now -/
example : Sf.CafInfo.bCount .current 226 = some 226 ∧ Sf.CafInfo.bCount .old 226 = some 226 ∧
    Sf.CafInfo.bCount .current (0xFF0000E6 - 4) = none ∧ Sf.CafInfo.bCount .current 1048576 = none ∧
    Sf.CafInfo.bCount .current 102400 = some 102400 ∧ ¬ KF.cafInfoCount 226 := by decide

end Sf.C03
