/-
  C13 — custom chunks: any number set, all retrievable, audio untouched.
  Property theorems only; the model is SfModel/Chunk.lean.
-/
import SfModel.Chunk
namespace Sf.C13
open Sf Sf.Chunk

/-! ## the write table never overflows (repaired rule), and the rule before the repair does at the 32nd call -/

theorem save_ok (t : WTab) (h : t.ok) : t.save.ok := by
  obtain ⟨h1, h2, h3⟩ := h
  unfold WTab.ok WTab.save WTab.store growCount
  split
  · simp [h2]
  · split
    · simp only [h2, Bool.false_or, decide_eq_false_iff_not]
      refine ⟨by omega, by omega, trivial⟩
    · simp only [h2, Bool.false_or, decide_eq_false_iff_not]
      refine ⟨by omega, by omega, h3⟩

/-- `used ≤ capacity`, nothing stored out of bounds, after ANY number of sf_set_chunk calls -/
theorem wtab_inv (n : Nat) : (iter WTab.save n WTab.init).ok := by
  induction n with
  | zero => decide
  | succ n ih => exact save_ok _ ih

/-- the rule before commit adbbe09: calls 1…31 stay inside the allocation, the 32nd stores element 31 of a
    31-element table -/
theorem wtab_overflow_old_rule :
    (∀ n, n < 32 → (iter WTab.saveOld n WTab.init).oob = false) ∧
    (iter WTab.saveOld 32 WTab.init).oob = true ∧ (iter WTab.saveOld 32 WTab.init).alloc = 31 := by decide

/-- the read table (chunks seen while parsing) obeys the same invariant for any number of chunks in the file -/
theorem rtab_inv (n : Nat) : (iter WTab.storeRead n WTab.init).ok := by
  induction n with
  | zero => decide
  | succ n ih =>
    obtain ⟨h1, h2, h3⟩ := ih
    show (WTab.storeRead _).ok
    generalize iter WTab.storeRead n WTab.init = t at *
    unfold WTab.ok WTab.storeRead WTab.store growCount
    split
    · simp [h2]
    · split
      · omega
      · split
        · simp only [h2, Bool.false_or, decide_eq_false_iff_not]
          refine ⟨by omega, by omega, trivial⟩
        · simp only [h2, Bool.false_or, decide_eq_false_iff_not]
          refine ⟨by omega, by omega, h3⟩

/-- non-vacuity: 200 calls cross the steps 20, 31, 48, 73, 111, 168 and end with capacity 253 -/
example : (iter WTab.save 200 WTab.init) = ⟨253, 253, 200, false⟩ := by decide +kernel

/-! ## serialise → parse round trip -/

/-- a stored chunk for which the round trip is claimed -/
def okChunk (c : Container) (w : WChunk) : Prop :=
  legalMark c w.mark = true ∧ w.data.length = w.len ∧ w.len < 4294967296 ∧ w.len % 4 = 0

/-- what the read table must contain for the chunks `ws` serialised from byte position `pos` on -/
def entries (c : Container) : List WChunk → Nat → List RChunk
  | [], _ => []
  | w :: ws, pos => ⟨w.mark, pos + hdrLen c, w.len, w.data⟩ :: entries c ws (pos + hdrLen c + w.len)

theorem readSize_sizeField (c : Container) (n : Nat) (h : n < 4294967296) (r : List Byte) :
    readSize c (sizeField c n ++ r) = some (n, r) := by
  cases c <;> simp [sizeField, le4, be4, readSize] <;> omega

theorem parse_step (c : Container) (w : WChunk) (hw : okChunk c w) (fuel pos : Nat) (rest : List Byte) :
    parse c (fuel + 1) pos (ser c w ++ rest) =
      (⟨w.mark, pos + hdrLen c, w.len, w.data⟩ :: (parse c fuel (pos + hdrLen c + w.len) rest).1,
       (parse c fuel (pos + hdrLen c + w.len) rest).2) := by
  obtain ⟨hm, hl, h32, h4⟩ := hw
  simp only [legalMark, Bool.and_eq_true, bne_iff_ne, ne_eq, Bool.not_eq_true'] at hm
  obtain ⟨⟨⟨⟨h0, hacc⟩, hint⟩, htr⟩, htag⟩ := hm
  have hodd : oddJump c w.len = 0 := by cases c <;> simp [oddJump] <;> omega
  have htr' : ¬ w.mark ∈ trailer c := by simpa using htr
  have hint' : ¬ w.mark ∈ interpreted c := by simpa using hint
  simp only [ser, List.cons_append, List.append_assoc, parse, readSize_sizeField c w.len h32]
  simp [h0, hacc, hint', htr', htag, hodd, hl]

theorem serAll_length_cons (c : Container) (w : WChunk) (ws : List WChunk) :
    serAll c (w :: ws) = ser c w ++ serAll c ws := by simp [serAll]

theorem ser_length (c : Container) (w : WChunk) (hl : w.data.length = w.len) :
    (ser c w).length = hdrLen c + w.len := by
  cases c <;> simp [ser, sizeField, le4, be4, hdrLen, hl] <;> omega

/-- parsing the serialised chunks gives back exactly the entries, then continues with what follows -/
theorem parse_serAll (c : Container) (ws : List WChunk) (hok : ∀ w ∈ ws, okChunk c w) :
    ∀ (fuel pos : Nat) (tail : List Byte),
    parse c (ws.length + fuel) pos (serAll c ws ++ tail) =
      (entries c ws pos ++ (parse c fuel (pos + (serAll c ws).length) tail).1,
       (parse c fuel (pos + (serAll c ws).length) tail).2) := by
  induction ws with
  | nil => intro fuel pos tail; simp [serAll, entries]
  | cons w ws ih =>
    intro fuel pos tail
    have hw := hok w (by simp)
    have hrest := ih (fun x hx => hok x (by simp [hx]))
    have e1 : (w :: ws).length + fuel = (ws.length + fuel) + 1 := by simp; omega
    rw [e1, serAll_length_cons, List.append_assoc, parse_step c w hw, hrest]
    have hlen := ser_length c w hw.2.1
    simp only [entries, List.length_append, hlen, List.cons_append]
    have e2 : pos + hdrLen c + w.len + (serAll c ws).length = pos + (hdrLen c + w.len + (serAll c ws).length) := by omega
    rw [e2]

/-! ## iteration: every wanted entry exactly once, in order, then NULL -/

/-- the iterator `get_iterator`/`next` is positioned on when the table from index `i` on is `rs` -/
def first (h : Nat) (rs : List RChunk) (i : Nat) : Option Iter :=
  if h ≠ 0 then (findFrom h rs i).map fun k => ⟨k, h⟩
  else if rs.length > 0 then some ⟨i, 0⟩ else none

theorem iterRun_none (tab : List RChunk) (fuel : Nat) : iterRun tab fuel none = [] := by
  cases fuel <;> simp [iterRun]

theorem iterRun_first (tab : List RChunk) (h : Nat) :
    ∀ (rs : List RChunk) (i : Nat), tab.drop i = rs → ∀ fuel, fuel > rs.length →
      iterRun tab fuel (first h rs i) = wanted h rs i := by
  intro rs
  induction rs with
  | nil => intro i _ fuel _; simp [first, findFrom, wanted, iterRun_none]
  | cons r rs ih =>
    intro i hd fuel hf
    have hd1 : tab.drop (i + 1) = rs := by
      have := congrArg (List.drop 1) hd
      simpa [List.drop_drop, Nat.add_comm] using this
    have hlen : tab.length = i + (rs.length + 1) := by
      have := congrArg List.length hd
      simp at this; omega
    obtain ⟨f, rfl⟩ : ∃ f, fuel = f + 1 := ⟨fuel - 1, by omega⟩
    have hf' : f > rs.length := by simp at hf; omega
    by_cases h0 : h = 0
    · subst h0
      have hn : iterNext tab ⟨i, 0⟩ = first 0 rs (i + 1) := by
        simp [iterNext, first, hlen]
      simp only [first, wanted, iterRun, ne_eq, not_true_eq_false, if_false, List.length_cons, true_or, if_true,
        Nat.zero_lt_succ]
      rw [hn, ih (i + 1) hd1 f hf']
    · by_cases hr : r.hash = h
      · have hn : iterNext tab ⟨i, h⟩ = first h rs (i + 1) := by
          simp [iterNext, first, h0, hd1]
        simp only [first, findFrom, wanted, hr, h0, ne_eq, not_false_eq_true, if_true, Option.map_some, iterRun, or_true]
        rw [hn, ih (i + 1) hd1 f hf']
      · have e : first h (r :: rs) i = first h rs (i + 1) := by simp [first, findFrom, hr, h0]
        rw [e]
        simp only [wanted, hr, h0, or_self, if_false]
        exact ih (i + 1) hd1 (f + 1) (by omega)

theorem wanted_all (rs : List RChunk) : ∀ i, wanted 0 rs i = List.range' i rs.length := by
  induction rs with
  | nil => intro i; simp [wanted]
  | cons r rs ih => intro i; simp [wanted, ih, List.range'_succ]

/-- full iteration (NULL id) on a handle whose iterator is fresh or ran to its end: indices 0, 1, …, n-1, each once,
    then NULL -/
theorem iter_all_visits_each_once (tab : List RChunk) (stale : Nat) :
    iterRun tab (tab.length + 1) (iterStart tab stale none) = List.range tab.length := by
  have h := iterRun_first tab 0 tab 0 (by simp) (tab.length + 1) (by omega)
  have e : iterStart tab stale none = first 0 tab 0 := by simp [iterStart, first]
  rw [e, h, wanted_all, List.range_eq_range']

/-- the full statement quantifies over all iterator usage patterns, i.e. over every state the handle's single
    iterator can be in (`stale` = the hash an earlier, unfinished iteration by id left in it) -/
def iter_all_full (start : List RChunk → Nat → Option Id → Option Iter) : Prop :=
  ∀ (tab : List RChunk) (stale : Nat),
    iterRun tab (tab.length + 1) (start tab stale none) = List.range tab.length

/-- full strength, repaired rule (ee77a20): whatever an earlier iteration left behind, a NULL-id iteration visits
    every entry exactly once, in order -/
theorem iter_all_any_state : iter_all_full iterStart := fun tab stale => iter_all_visits_each_once tab stale

/-- the rule before the repair: an iteration by id abandoned before its end left its hash behind; the next full
    iteration then visited entry 0 and the entries of the OLD id only -/
theorem stale_iterator_old_rule : ¬ iter_all_full iterStartOld := by
  intro h
  have := h [⟨⟨97, 97, 97, 97⟩, 8, 0, []⟩, ⟨⟨98, 98, 98, 98⟩, 16, 0, []⟩, ⟨⟨97, 97, 97, 97⟩, 24, 0, []⟩]
    (mk4 "aaaa").u32
  exact absurd this (by decide)

example : iterRun [⟨⟨97, 97, 97, 97⟩, 8, 0, []⟩, ⟨⟨98, 98, 98, 98⟩, 16, 0, []⟩] 3
    (iterStart [⟨⟨97, 97, 97, 97⟩, 8, 0, []⟩, ⟨⟨98, 98, 98, 98⟩, 16, 0, []⟩] (mk4 "aaaa").u32 none) = [0, 1] := by decide

/-- iteration by id: exactly the entries whose marker hashes like the id, in file order, then NULL -/
theorem iter_by_id (tab : List RChunk) (id : Id) (h0 : idHash id ≠ 0) :
    ∀ stale, iterRun tab (tab.length + 1) (iterStart tab stale (some id)) = wanted (idHash id) tab 0 := by
  intro stale
  have h := iterRun_first tab (idHash id) tab 0 (by simp) (tab.length + 1) (by omega)
  have e : iterStart tab stale (some id) = first (idHash id) tab 0 := by simp [iterStart, first, h0]
  rw [e, h]

/-- the visited indices are strictly increasing (so no entry is visited twice) and all ≥ the start -/
theorem wanted_sorted (h : Nat) (rs : List RChunk) :
    ∀ i, List.Pairwise (· < ·) (wanted h rs i) ∧ ∀ k ∈ wanted h rs i, i ≤ k := by
  induction rs with
  | nil => intro i; simp [wanted]
  | cons r rs ih =>
    intro i
    obtain ⟨p, q⟩ := ih (i + 1)
    simp only [wanted]
    split
    · refine ⟨List.pairwise_cons.2 ⟨fun k hk => by have := q k hk; omega, p⟩, ?_⟩
      intro k hk
      rcases List.mem_cons.1 hk with rfl | hk
      · exact Nat.le_refl _
      · have := q k hk; omega
    · exact ⟨p, fun k hk => by have := q k hk; omega⟩

/-- an index is visited iff the entry there matches (NULL id: every entry) -/
theorem mem_wanted (h : Nat) (rs : List RChunk) :
    ∀ i k, k ∈ wanted h rs i ↔ ∃ r, rs[k - i]? = some r ∧ i ≤ k ∧ (h = 0 ∨ r.hash = h) := by
  induction rs with
  | nil => intro i k; simp [wanted]
  | cons r rs ih =>
    intro i k
    simp only [wanted]
    by_cases hc : h = 0 ∨ r.hash = h
    · simp only [hc, if_true, List.mem_cons, ih]
      constructor
      · rintro (rfl | ⟨r', h1, h2, h3⟩)
        · exact ⟨r, by simp, Nat.le_refl _, hc⟩
        · refine ⟨r', ?_, by omega, h3⟩
          have : k - i = (k - (i + 1)) + 1 := by omega
          rw [this]; simpa using h1
      · rintro ⟨r', h1, h2, h3⟩
        by_cases hk : k = i
        · exact Or.inl hk
        · refine Or.inr ⟨r', ?_, by omega, h3⟩
          have : k - i = (k - (i + 1)) + 1 := by omega
          rw [this] at h1; simpa using h1
    · simp only [hc, if_false, ih]
      constructor
      · rintro ⟨r', h1, h2, h3⟩
        refine ⟨r', ?_, by omega, h3⟩
        have : k - i = (k - (i + 1)) + 1 := by omega
        rw [this]; simpa using h1
      · rintro ⟨r', h1, h2, h3⟩
        by_cases hk : k = i
        · subst hk; simp at h1; subst h1; exact absurd h3 hc
        · refine ⟨r', ?_, by omega, h3⟩
          have : k - i = (k - (i + 1)) + 1 := by omega
          rw [this] at h1; simpa using h1

/-- `next` on the last matching entry returns NULL -/
theorem next_after_last (tab : List RChunk) (it : Iter) (h : ∀ k ∈ wanted it.hash (tab.drop (it.current + 1)) (it.current + 1), False) :
    iterNext tab it = none := by
  have hr := iterRun_first tab it.hash (tab.drop (it.current + 1)) (it.current + 1) rfl ((tab.drop (it.current + 1)).length + 1) (by omega)
  have hw : wanted it.hash (tab.drop (it.current + 1)) (it.current + 1) = [] := by
    cases hh : wanted it.hash (tab.drop (it.current + 1)) (it.current + 1) with
    | nil => rfl
    | cons a l => exact absurd (h a (by simp [hh])) id
  rw [hw] at hr
  have e : iterNext tab it = first it.hash (tab.drop (it.current + 1)) (it.current + 1) := by
    unfold iterNext first
    by_cases h0 : it.hash = 0
    · simp only [h0, ne_eq, not_true_eq_false, if_false, List.length_drop]
      by_cases hc : it.current + 1 < tab.length
      · have : tab.length - (it.current + 1) > 0 := by omega
        simp [hc, this]
      · have : ¬ tab.length - (it.current + 1) > 0 := by omega
        simp [hc, this]
    · simp [h0]
  rw [e]
  cases hf : first it.hash (tab.drop (it.current + 1)) (it.current + 1) with
  | none => rfl
  | some x => rw [hf] at hr; simp [iterRun] at hr

/-! ## the header cache: when nothing is dropped the region is the plain serialisation -/

theorem writef_flags_length (bump : HC → Nat → Option HC) : ∀ (items : List Item) (h : HC), (HC.writefW bump h items).2.length = items.length := by
  intro items
  induction items with
  | nil => intro h; simp [HC.writefW]
  | cons it rest ih =>
    intro h
    unfold HC.writefW
    split
    · simp
    · split
      · split
        · split <;> simp [ih]
        · simp [ih]
      · simp [ih]

theorem all_true_3 (f : List Bool) (hl : f.length = 3) (ha : f.all id = true) : f = [true, true, true] := by
  match f, hl with
  | [a, b, c], _ => simp at ha; simp [ha]

theorem all_true_4 (f : List Bool) (hl : f.length = 4) (ha : f.all id = true) : f = [true, true, true, true] := by
  match f, hl with
  | [a, b, c, d], _ => simp at ha; simp [ha]

theorem emitChunk_all (bump : HC → Nat → Option HC) (c : Container) (w : WChunk) (h : HC)
    (ha : (HC.writefW bump h (chunkItems c w.len)).2.all id = true) :
    emitChunk c w (HC.writefW bump h (chunkItems c w.len)).2 = ser c w := by
  have hl := writef_flags_length bump (chunkItems c w.len) h
  cases c
  case caf =>
    have := all_true_4 _ (by simpa [chunkItems] using hl) ha
    rw [this]; simp [emitChunk, ser, Mark.bytes, sizeField]
  all_goals
    have := all_true_3 _ (by simpa [chunkItems] using hl) ha
    rw [this]; simp [emitChunk, ser, Mark.bytes]

theorem emitChunks_all (bump : HC → Nat → Option HC) (c : Container) : ∀ (ws : List WChunk) (h : HC),
    (HC.writeChunksW bump c h (ws.map (·.len))).2.all (·.all id) = true →
    emitChunks c ws (HC.writeChunksW bump c h (ws.map (·.len))).2 = serAll c ws := by
  intro ws
  induction ws with
  | nil => intro h _; simp [emitChunks, serAll]
  | cons w ws ih =>
    intro h ha
    simp only [List.map_cons, HC.writeChunksW, List.all_cons, Bool.and_eq_true] at ha ⊢
    simp only [emitChunks, serAll_length_cons]
    rw [emitChunk_all bump c w h ha.1, ih _ ha.2]

/-- `hdrFits` ⇒ the bytes between the container's own chunks are exactly the serialised custom chunks -/
theorem region_of_fits (c : Container) (pre : Nat) (ws : List WChunk) (h : hdrFits c pre (ws.map (·.len)) = true) :
    customRegion c pre ws = serAll c ws := by
  unfold hdrFits cachePasses cachePassesW at h
  simp only [Bool.and_eq_true] at h
  unfold customRegion cachePasses cachePassesW
  exact emitChunks_all HC.bump c ws _ h.1

/-! ### what the header cache holds since the repair of psf_bump_header_allocation: everything up to its limit -/

/-- a request that fits the limit is granted (the repaired rule): the buffer then covers `indx + needed` -/
theorem bump_grants (h : HC) (n : Nat) (h1 : h.indx ≤ h.len) (h3 : h.len ≤ HEADER_CAP) (hn : h.indx + n ≤ HEADER_CAP) :
    ∃ len', HC.bump h n = some ⟨h.indx, len'⟩ ∧ h.indx + n ≤ len' ∧ h.len ≤ len' ∧ len' ≤ HEADER_CAP := by
  unfold HC.bump
  simp only
  by_cases hc : (if n > h.len then 2 * max n 256 else 2 * h.len) > HEADER_CAP
  · rw [if_pos hc, if_neg (by omega)]
    exact ⟨HEADER_CAP, rfl, hn, h3, Nat.le_refl _⟩
  · rw [if_neg hc]
    refine ⟨_, rfl, ?_, ?_, by omega⟩
    · split <;> omega
    · split <;> omega

def sumN (its : List Item) : Nat := (its.map (·.n)).sum

/-- one `psf_binheader_writef` call whose items end at least 16 bytes below the limit: every item is kept -/
theorem writef_all_kept : ∀ (its : List Item) (h : HC), (∀ it ∈ its, it.raw = false → it.n ≤ 16) →
    h.indx ≤ h.len → h.len ≤ HEADER_CAP → h.indx + sumN its + 16 ≤ HEADER_CAP →
    (h.writef its).2.all id = true ∧ (h.writef its).1.indx = h.indx + sumN its ∧
    (h.writef its).1.indx ≤ (h.writef its).1.len ∧ (h.writef its).1.len ≤ HEADER_CAP ∧ h.len ≤ (h.writef its).1.len := by
  intro its
  induction its with
  | nil => intro h _ h1 h3 _; simp [HC.writef, HC.writefW, sumN, h1, h3]
  | cons it rest ih =>
    intro h hits h1 h3 hsum
    have hsN : sumN (it :: rest) = it.n + sumN rest := by simp [sumN]
    rw [hsN] at hsum
    have hrest : ∀ x ∈ rest, x.raw = false → x.n ≤ 16 := fun x hx => hits x (List.mem_cons_of_mem _ hx)
    -- the loop head
    have hhead : ∃ len1, (if h.indx + 16 ≥ h.len then HC.bump h 16 else some h) = some ⟨h.indx, len1⟩ ∧
        h.indx + 16 ≤ len1 ∧ len1 ≤ HEADER_CAP ∧ h.len ≤ len1 := by
      by_cases hc : h.indx + 16 ≥ h.len
      · rw [if_pos hc]
        obtain ⟨l, e, a, m, d⟩ := bump_grants h 16 h1 h3 (by omega)
        exact ⟨l, e, a, d, m⟩
      · rw [if_neg hc]; exact ⟨h.len, rfl, by omega, h3, Nat.le_refl _⟩
    obtain ⟨len1, e1, a1, d1, m1⟩ := hhead
    unfold HC.writef at ih ⊢
    rw [HC.writefW, e1]
    simp only
    by_cases hraw : it.raw = true
    · rw [if_pos hraw]
      by_cases hbig : h.indx + it.n > len1
      · rw [if_pos hbig]
        obtain ⟨l2, e2, a2, m2, d2⟩ := bump_grants ⟨h.indx, len1⟩ it.n (by simp only; omega) d1 (by simp only; omega)
        rw [e2]
        simp only
        obtain ⟨r1, r2, r3, r4, r5⟩ := ih ⟨h.indx + it.n, l2⟩ hrest (by simp only; omega) d2 (by simp only; omega)
        simp only at r2 r5 m2
        refine ⟨by simp [r1], by rw [r2, hsN]; omega, r3, r4, by first | omega | (simp only; omega)⟩
      · rw [if_neg hbig]
        obtain ⟨r1, r2, r3, r4, r5⟩ := ih ⟨h.indx + it.n, len1⟩ hrest (by simp only; omega) d1 (by simp only; omega)
        simp only at r2 r5
        refine ⟨by simp [r1], by rw [r2, hsN]; omega, r3, r4, by first | omega | (simp only; omega)⟩
    · rw [if_neg hraw]
      have hn := hits it (List.mem_cons_self ..) (by simpa using hraw)
      obtain ⟨r1, r2, r3, r4, r5⟩ := ih ⟨h.indx + it.n, len1⟩ hrest (by simp only; omega) d1 (by simp only; omega)
      simp only at r2 r5
      refine ⟨by simp [r1], by rw [r2, hsN]; omega, r3, r4, by first | omega | (simp only; omega)⟩

/-- the bytes the custom chunks occupy in the header: id and size field(s) plus the padded payload, each -/
def totalLen (c : Container) (lens : List Nat) : Nat := (lens.map fun n => hdrLen c + n).sum

theorem chunkItems_spec (c : Container) (n : Nat) :
    (∀ it ∈ chunkItems c n, it.raw = false → it.n ≤ 16) ∧ sumN (chunkItems c n) = hdrLen c + n := by
  cases c <;> simp [chunkItems, sumN, hdrLen] <;> omega

/-- the custom-chunk loop from any state of the cache: everything is kept when the chunks end 16 bytes below the limit -/
theorem writeChunks_all_kept (c : Container) : ∀ (lens : List Nat) (h : HC),
    h.indx ≤ h.len → h.len ≤ HEADER_CAP → h.indx + totalLen c lens + 16 ≤ HEADER_CAP →
    (HC.writeChunks c h lens).2.all (·.all id) = true ∧ (HC.writeChunks c h lens).1.len ≤ HEADER_CAP ∧
    h.len ≤ (HC.writeChunks c h lens).1.len := by
  intro lens
  induction lens with
  | nil => intro h _ h3 _; simp [HC.writeChunks, HC.writeChunksW, h3]
  | cons n ns ih =>
    intro h h1 h3 hsum
    have ht : totalLen c (n :: ns) = hdrLen c + n + totalLen c ns := by simp [totalLen]
    rw [ht] at hsum
    obtain ⟨hi, hs⟩ := chunkItems_spec c n
    obtain ⟨r1, r2, r3, r4, r5⟩ := writef_all_kept (chunkItems c n) h hi h1 h3 (by rw [hs]; omega)
    unfold HC.writeChunks at ih ⊢
    unfold HC.writef at r1 r2 r3 r4 r5
    rw [HC.writeChunksW]
    simp only
    obtain ⟨q1, q2, q3⟩ := ih (HC.writefW HC.bump h (chunkItems c n)).1 r3 r4 (by rw [r2, hs]; omega)
    exact ⟨by simp [r1, q1], q2, by omega⟩

/-- **hdr_fits_up_to_cap** (the repaired allocation rule, full strength up to the limit): whatever the number and the sizes of
    the custom chunks, when they end at least 16 bytes (the head room every `psf_binheader_writef` item asks for) below the
    100 KiB of the header buffer, every byte of every chunk reaches the header, in both passes -/
theorem hdr_fits_up_to_cap (c : Container) (pre : Nat) (lens : List Nat) (hpre : pre ≤ 256)
    (h : pre + totalLen c lens + 16 ≤ HEADER_CAP) : hdrFits c pre lens = true := by
  unfold hdrFits cachePasses cachePassesW
  have p1 := writeChunks_all_kept c lens ⟨pre, 256⟩ hpre (by simp [HEADER_CAP]) h
  unfold HC.writeChunks at p1
  -- the allocation never shrinks: the second pass starts with at least the 256 bytes of the first
  have p2 := writeChunks_all_kept c lens ⟨pre, (HC.writeChunksW HC.bump c ⟨pre, 256⟩ lens).1.len⟩
    (by have := p1.2.2; simp only at this ⊢; omega) p1.2.1 h
  unfold HC.writeChunks at p2
  simp [p1.1, p2.1]

/-- ONE chunk of any size the statement allows (payload ≤ 64 KiB) always fits, in every container, whatever precedes it in
    an ordinary header (`pre ≤ 256`): the limit for a single chunk moved from 51 200 bytes to the whole buffer -/
theorem one_chunk_always_fits (c : Container) (pre n : Nat) (hpre : pre ≤ 256) (hn : n ≤ 65536) : hdrFits c pre [n] = true := by
  apply hdr_fits_up_to_cap c pre [n] hpre
  cases c <;> simp [totalLen, hdrLen, HEADER_CAP] <;> omega

/-- The statement allows any number of payloads up to 64 KiB; no cache of 100 KiB does: "every list of chunks of at most 64 KiB
    fits" stays false (the remaining part of the known finding C13-header-cache) -/
def hdr_always_fits_full : Prop :=
  ∀ (c : Container) (pre : Nat) (lens : List Nat), pre ≤ 256 → (∀ n ∈ lens, n ≤ 65536) → hdrFits c pre lens = true

theorem hdr_not_always_fits : ¬ hdr_always_fits_full := by
  intro h
  have := h .wav 36 [65536, 65536] (by decide) (by decide)
  exact absurd this (by decide)

/-- two chunks of 64 KiB: the second one's payload is dropped (id and size are written), in every container; chunks totalling
    just under the limit are kept -/
theorem chunks_beyond_cap_dropped :
    hdrFits .wav 36 [65536, 65536] = false ∧ hdrFits .rf64 96 [65536, 65536] = false ∧
    hdrFits .aiff 38 [65536, 65536] = false ∧ hdrFits .caf 52 [65536, 65536] = false ∧
    (cachePasses .wav 36 [65536, 65536]).1 = [[true, true, true], [true, true, false]] ∧
    hdrFits .wav 36 [30000, 30000, 30000] = true ∧ hdrFits .wav 36 [51204] = true ∧ hdrFits .wav 36 [65536] = true := by decide

/-- DESIGN §8 #18, before the repair: one chunk whose padded length is 51 204 (payload 51 201 … 51 204 bytes) was dropped, in
    every container; 51 200 was the largest single chunk that was kept; several chunks totalling about 100 KiB likewise -/
theorem one_big_chunk_is_dropped_old_rule :
    hdrFitsOld .wav 36 [51204] = false ∧ hdrFitsOld .rf64 96 [51204] = false ∧
    hdrFitsOld .aiff 38 [51204] = false ∧ hdrFitsOld .caf 52 [51204] = false ∧
    (cachePassesW HC.bumpOld .wav 36 [51204]).1 = [[true, true, false]] ∧
    hdrFitsOld .wav 36 [51200] = true ∧
    hdrFitsOld .wav 36 [30000, 30000] = false ∧ hdrFitsOld .wav 36 [20000, 20000] = true := by decide

/-! ## the round trip, for EVERY id the repaired `sf_set_chunk` accepts -/

structure Req where
  id : Id
  payload : List Byte

def toW (r : Req) : WChunk := WChunk.ofInfo r.id r.payload

/-- explicit `fits` predicate: ids `sf_set_chunk` accepts before the audio (any length; the pass-through names LIST,
    INFO, PAD / APPL / free are outside the read-table model), payloads below 4 GiB, and the header cache keeps everything -/
def fits (c : Container) (pre : Nat) (l : List Req) : Prop :=
  (∀ r ∈ l, legalId c r.id = true ∧ r.payload.length ≤ 4294967292) ∧
  hdrFits c pre (l.map fun r => pad4 r.payload.length) = true

/-- what the read table must hold: the id padded with spaces to four characters, the payload start, the size padded
    to 4, payload followed by zeros -/
def expected (c : Container) : List Req → Nat → List RChunk
  | [], _ => []
  | r :: rs, pos =>
    ⟨markerOf r.id, pos + hdrLen c, pad4 r.payload.length, r.payload ++ zeros (pad4 r.payload.length - r.payload.length)⟩
      :: expected c rs (pos + hdrLen c + pad4 r.payload.length)

/-- no byte of the C string is NUL -/
theorem cstr_ne_zero : ∀ (id : Id), ∀ b ∈ cstr id, b ≠ 0
  | [], b, hb => by simp [cstr] at hb
  | x :: xs, b, hb => by
    unfold cstr at hb
    by_cases hx : x = 0
    · simp [List.takeWhile, hx] at hb
    · simp only [List.takeWhile, ne_eq, hx, not_false_eq_true, decide_true, List.mem_cons] at hb
      rcases hb with rfl | hb
      · exact hx
      · exact cstr_ne_zero xs b hb

/-- the first byte of a marker is never NUL: it is the id's first character or a space -/
theorem markerOf_a_ne_zero (id : Id) : (markerOf id).a ≠ 0 := by
  have h := cstr_ne_zero id
  unfold markerOf
  split
  next a b c d _ heq => exact h a (by simp [heq])
  next a b c heq => exact h a (by simp [heq])
  next a b heq => exact h a (by simp [heq])
  next a heq => exact h a (by simp [heq])
  next => decide

theorem u32_ne_zero (m : Mark) (h : m.a ≠ 0) : m.u32 ≠ 0 := by
  intro h0
  apply h
  unfold Mark.u32 at h0
  exact Nat.eq_zero_of_add_eq_zero_right (Nat.eq_zero_of_add_eq_zero_right (Nat.eq_zero_of_add_eq_zero_right h0))

/-- every marker a container's parser interprets, and every trailing marker, is either refused by `sf_set_chunk`
    or one of the pass-through names -/
theorem interpreted_covered (c : Container) (m : Mark) (h : m ∈ interpreted c ∨ m ∈ trailer c) :
    m ∈ reserved c ∨ m ∈ passThrough c := by
  have key : ∀ c : Container, ((interpreted c ++ trailer c).all fun m => (reserved c).contains m || (passThrough c).contains m) = true := by
    intro c; cases c <;> decide
  have hm : m ∈ interpreted c ++ trailer c := by simpa using h
  have := List.all_eq_true.1 (key c) m hm
  simpa using this

/-- an id the repaired `sf_set_chunk` accepts (pass-through names aside) gives a marker the parser's default branch
    stores and skips -/
theorem legalId_mark (c : Container) (id : Id) (h : legalId c id = true) : legalMark c (markerOf id) = true := by
  simp only [legalId, accepts, Bool.and_eq_true, Bool.not_eq_true', Bool.or_eq_true, beq_iff_eq, Bool.not_false] at h
  obtain ⟨⟨⟨_, hp⟩, hr⟩, hpt⟩ := h
  have hr' : ¬ markerOf id ∈ reserved c := by simpa using hr
  have hpt' : ¬ markerOf id ∈ passThrough c := by simpa using hpt
  have hcov := interpreted_covered c (markerOf id)
  have hint : ¬ markerOf id ∈ interpreted c := fun hh => (hcov (Or.inl hh)).elim hr' hpt'
  have htr : ¬ markerOf id ∈ trailer c := fun hh => (hcov (Or.inr hh)).elim hr' hpt'
  have hz := u32_ne_zero _ (markerOf_a_ne_zero id)
  have hacc : markAccepted c (markerOf id) = true := by
    rcases hp with hc | hp
    · subst hc; rfl
    · cases c <;> simp [markAccepted, printableMark] at hp ⊢ <;> exact hp
  simp [legalMark, hz, hacc, hint, htr, tagLike]

theorem toW_ok (c : Container) (r : Req)
    (h : legalId c r.id = true ∧ r.payload.length ≤ 4294967292) : okChunk c (toW r) := by
  refine ⟨legalId_mark c r.id h.1, ?_, ?_, ?_⟩
  · simp [toW, WChunk.ofInfo, zeros, pad4]; omega
  · simp [toW, WChunk.ofInfo, pad4]; omega
  · simp [toW, WChunk.ofInfo, pad4]

theorem entries_expected (c : Container) : ∀ (l : List Req) (pos : Nat),
    entries c (l.map toW) pos = expected c l pos := by
  intro l
  induction l with
  | nil => intro pos; rfl
  | cons r rs ih => intro pos; simp [entries, expected, toW, WChunk.ofInfo, ih]

/-- **chunks_roundtrip** (full strength in the ids): for every list of (id, payload) whose ids the repaired
    `sf_set_chunk` accepts — of ANY length: shorter ones come back padded with spaces, longer ones cut to four
    characters — and which the header cache holds, whatever surrounds the custom chunks in the file (`pre` bytes
    before, `tail` after), the parser's read table gets exactly one entry per chunk, in order, with the size padded
    to 4 and the payload followed by zero padding; then the walk goes on with the container's own trailing chunks. -/
theorem chunks_roundtrip (c : Container) (pre : Nat) (l : List Req) (hf : fits c pre l)
    (fuel : Nat) (tail : List Byte) :
    let region := customRegion c pre (l.map toW)
    (parse c (l.length + fuel) pre (region ++ tail)).1
      = expected c l pre ++ (parse c fuel (pre + region.length) tail).1 := by
  intro region
  have hlens : (l.map toW).map (·.len) = l.map fun r => pad4 r.payload.length := by
    simp [toW, WChunk.ofInfo, Function.comp_def]
  have hreg : region = serAll c (l.map toW) := region_of_fits c pre _ (by rw [hlens]; exact hf.2)
  have hok : ∀ w ∈ l.map toW, okChunk c w := by
    intro w hw
    obtain ⟨r, hr, rfl⟩ := List.mem_map.1 hw
    exact toW_ok c r (hf.1 r hr)
  have := parse_serAll c (l.map toW) hok fuel pre tail
  rw [List.length_map] at this
  rw [hreg, this, entries_expected]

theorem le_totalLen (c : Container) : ∀ (lens : List Nat) (n : Nat), n ∈ lens → n ≤ totalLen c lens := by
  intro lens
  induction lens with
  | nil => intro n hn; cases hn
  | cons x xs ih =>
    intro n hn
    have ht : totalLen c (x :: xs) = hdrLen c + x + totalLen c xs := by simp [totalLen]
    rcases List.mem_cons.mp hn with rfl | hn
    · omega
    · have := ih n hn; omega

/-- **chunks_roundtrip_within_cap**: `chunks_roundtrip` with the header cache's condition made explicit — every list of custom
    chunks (ANY number, ANY accepted ids, ANY payload sizes) whose serialisation ends 16 bytes below the 100 KiB of the header
    buffer round-trips.  (Beyond that limit chunks are still dropped silently: the remaining part of C13-header-cache.) -/
theorem chunks_roundtrip_within_cap (c : Container) (pre : Nat) (l : List Req) (hid : ∀ r ∈ l, legalId c r.id = true)
    (hpre : pre ≤ 256) (hsize : pre + totalLen c (l.map fun r => pad4 r.payload.length) + 16 ≤ HEADER_CAP)
    (fuel : Nat) (tail : List Byte) :
    let region := customRegion c pre (l.map toW)
    (parse c (l.length + fuel) pre (region ++ tail)).1
      = expected c l pre ++ (parse c fuel (pre + region.length) tail).1 := by
  apply chunks_roundtrip c pre l ⟨?_, hdr_fits_up_to_cap c pre _ hpre hsize⟩
  intro r hr
  refine ⟨hid r hr, ?_⟩
  have h1 := le_totalLen c (l.map fun r => pad4 r.payload.length) (pad4 r.payload.length) (List.mem_map.2 ⟨r, hr, rfl⟩)
  have h2 : r.payload.length ≤ pad4 r.payload.length := by unfold pad4; omega
  unfold HEADER_CAP at hsize
  omega

example : 36 + totalLen .wav ([⟨[97, 98, 99, 100], List.replicate 65536 7⟩, ⟨[120], [1]⟩].map fun r : Req => pad4 r.payload.length) + 16 ≤ HEADER_CAP := by
  decide +kernel

/-- non-vacuity + concrete instance: a four-character id with an odd payload, a duplicate id, a THREE-character
    id and a ONE-character id in a WAV header -/
example :
    fits .wav 36 [⟨[97, 98, 99, 100], [1, 2, 3, 4, 5]⟩, ⟨[97, 98, 99, 100], []⟩, ⟨[97, 98, 99], [7]⟩, ⟨[120], []⟩] ∧
    (parse .wav 7 36 (customRegion .wav 36 ([⟨[97, 98, 99, 100], [1, 2, 3, 4, 5]⟩, ⟨[97, 98, 99, 100], []⟩, ⟨[97, 98, 99], [7]⟩,
        ⟨[120], []⟩].map toW) ++ [100, 97, 116, 97, 0, 0, 0, 0])).1
      = [⟨⟨97, 98, 99, 100⟩, 44, 8, [1, 2, 3, 4, 5, 0, 0, 0]⟩, ⟨⟨97, 98, 99, 100⟩, 60, 0, []⟩,
         ⟨⟨97, 98, 99, 32⟩, 68, 4, [7, 0, 0, 0]⟩, ⟨⟨120, 32, 32, 32⟩, 80, 0, []⟩] := by
  refine ⟨⟨by decide, by decide⟩, by decide⟩

/-- a chunk stored under a short id is found again by that same short id: storing and looking up use one rule -/
theorem lookup_uses_stored_marker (id : Id) (h : (cstr id).length ≤ 4) (payload : List Byte) :
    idHash id = (WChunk.ofInfo id payload).mark.u32 := by
  simp [idHash, WChunk.ofInfo]; omega

/-! ## what `sf_set_chunk` refuses, and what the rules before the repairs did with those ids -/

/-- the statement's "arbitrary identifiers … 1–4 character ids incl. reserved ids": `store g id` being the chunk the
    write table holds, every such id comes back -/
def ids_roundtrip_full (store : Id → WChunk) : Prop :=
  ∀ (c : Container) (id : Id), 1 ≤ id.length → id.length ≤ 4 → (∀ b ∈ id, b ≠ 0) →
    (parse c 1 0 (ser c (store id))).1 = [⟨(store id).mark, hdrLen c, 0, []⟩]

/-- what is documented instead (sndfile.h: "will fail for format specific reserved chunks") and now implemented: every
    1–4 character id either is refused — because the container reserves it or cannot represent it — or round-trips
    (the pass-through names LIST / INFO / PAD, APPL, free are accepted and left to the container's reader) -/
theorem ids_refused_or_roundtrip (c : Container) (id : Id) :
    accepts c false id = false ∨ markerOf id ∈ passThrough c ∨
    (parse c 1 0 (ser c (WChunk.ofInfo id []))).1 = [⟨markerOf id, hdrLen c, 0, []⟩] := by
  by_cases ha : accepts c false id = true
  · by_cases hp : markerOf id ∈ passThrough c
    · exact Or.inr (Or.inl hp)
    · refine Or.inr (Or.inr ?_)
      have hl : legalId c id = true := by simp [legalId, ha, hp]
      have hw : okChunk c (WChunk.ofInfo id []) := toW_ok c ⟨id, []⟩ ⟨hl, by simp⟩
      have := parse_step c (WChunk.ofInfo id []) hw 0 0 []
      rw [List.append_nil] at this
      rw [this]
      simp [WChunk.ofInfo, parse, pad4, zeros]
  · exact Or.inl (by simpa using ha)

/-- refusals: reserved markers in every container; unprintable markers in WAV, RF64, AIFF; anything once audio has
    been written -/
theorem set_chunk_refusals (c : Container) (id : Id) :
    (markerOf id ∈ reserved c → ∀ w, accepts c w id = false) ∧
    (c ≠ .caf → printableMark (markerOf id) = false → ∀ w, accepts c w id = false) ∧
    accepts c true id = false := by
  refine ⟨fun h w => by simp [accepts, h], fun hc hp w => ?_, by simp [accepts]⟩
  cases c <;> first | exact absurd rfl hc | simp [accepts, hp]

example : accepts .wav false [100, 97, 116, 97] = false ∧ accepts .aiff false [67, 79, 77, 77] = false ∧
    accepts .rf64 false [65, 65, 65, 0xa4] = false ∧ accepts .caf false [65, 65, 65, 0xa4] = true ∧
    accepts .wav false [76, 73, 83, 84] = true ∧ accepts .caf false [102, 114, 101, 101] = true ∧
    accepts .wav false [97, 98] = true ∧ accepts .wav true [97, 98, 99, 100] = false := by decide

/-- THE RULES BEFORE THE REPAIRS (C13-short-id, C13-unprintable-id, C13-reserved-id): every id was stored;
    a three-character id was stored as "abc\0" and WAV, RF64 and AIFF stop parsing there; so do ids with an
    unprintable byte; 'data' in a WAV file is taken for the audio chunk, 'COMM' in an AIFF file for the real one -/
theorem ids_outside_legal_old_rule :
    (parse .wav 1 0 (ser .wav (WChunk.ofInfoOld (0, 0, 0) [97, 98, 99] []))).2.1 = .rejected ∧
    (parse .aiff 1 0 (ser .aiff (WChunk.ofInfoOld (0, 0, 0) [97, 98, 99] []))).2.1 = .rejected ∧
    (parse .rf64 1 0 (ser .rf64 (WChunk.ofInfoOld (0, 0, 0) [65, 65, 65, 0xa4] []))).2.1 = .rejected ∧
    (parse .wav 1 0 (ser .wav (WChunk.ofInfoOld (0, 0, 0) [100, 97, 116, 97] []))).2.1 = .trailer ∧
    (parse .aiff 1 0 (ser .aiff (WChunk.ofInfoOld (0, 0, 0) [67, 79, 77, 77] []))).2.1 = .interpreted := by decide

/-- old rule: whatever the stack held, an id shorter than four characters was never accepted by the WAV, RF64, AIFF parsers -/
theorem short_id_old_rule (c : Container) (hc : c ≠ .caf) (g : Byte × Byte × Byte) (id : Id)
    (h : KF.shortId id = true) : markAccepted c (mark32Old g id) = false := by
  unfold KF.shortId at h
  unfold mark32Old
  cases c <;> first | exact absurd rfl hc | skip
  all_goals
    split <;> simp_all [markAccepted, isPrint] <;> omega

/-- old rule: the full statement was false (witness: "abc" in a WAV file) -/
theorem ids_roundtrip_old_rule : ¬ ids_roundtrip_full (fun id => WChunk.ofInfoOld (0, 0, 0) id []) := by
  intro h
  have := h .wav [97, 98, 99] (by decide) (by decide) (by decide)
  exact absurd this (by decide)

/-- old rule (WAV reader): a chunk `TAG?` was taken for an ID3v1 trailer although it stood in front of the audio -/
theorem tag_trailer_old_rule : tagLikeOld .wav (mk4 "TAGx") = true ∧ legalIdOld .wav [84, 65, 71, 120] = false ∧
    legalId .wav [84, 65, 71, 120] = true := by decide

/-- CAF takes any four bytes that are not one of its own markers; WAV wants printable ones -/
example : legalId .caf [65, 65, 65, 0xa4] = true ∧ legalId .wav [65, 65, 65, 0xa4] = false ∧
    legalId .wav [120, 121, 122, 32] = true ∧ legalId .wav [100, 97, 116, 97] = false ∧ legalId .wav [120] = true := by decide

/-! ## sf_get_chunk_data copies at most datalen bytes -/

/-- the caller's buffer keeps its length, bytes from `min datalen len` on are untouched, the first
    `min datalen len` are the chunk's -/
theorem get_data_bounded (r : RChunk) (buf : List Byte) (hd : r.data.length = r.len) :
    (getData r buf).length = buf.length ∧
    (getData r buf).drop (min buf.length r.len) = buf.drop (min buf.length r.len) ∧
    (getData r buf).take (min buf.length r.len) = r.data.take (min buf.length r.len) := by
  have hl : (r.data.take (min buf.length r.len)).length = min buf.length r.len := by
    rw [List.length_take, hd]; omega
  refine ⟨?_, ?_, ?_⟩
  · unfold getData; rw [List.length_append, hl, List.length_drop]; omega
  · unfold getData; rw [List.drop_append_of_le_length (by omega), List.drop_of_length_le (by omega)]; simp
  · unfold getData; rw [List.take_append_of_le_length (by omega), List.take_of_length_le (by omega)]

example : getData ⟨⟨97, 98, 99, 100⟩, 44, 8, [1, 2, 3, 4, 5, 0, 0, 0]⟩ [9, 9, 9] = [1, 2, 3] ∧
    getData ⟨⟨97, 98, 99, 100⟩, 44, 4, [1, 2, 3, 4]⟩ [9, 9, 9, 9, 9, 9] = [1, 2, 3, 4, 9, 9] := by decide

/-- repaired rule (c8a9c60): no route traps, whatever the sizes; a zero-length read leaves the buffer alone -/
theorem zero_length_read_safe (vio : Bool) (r : RChunk) (datalen : Nat) (buf : List Byte) (h : r.len = 0) :
    getDataTraps vio r datalen = false ∧ getData r buf = buf := by
  simp [getDataTraps, getData, h]

/-- old rule: through SF_VIRTUAL_IO a zero-byte read divided by zero (`psf_fread`: `… / bytes`) -/
theorem zero_length_read_old_rule (r : RChunk) (h : r.len = 0) (datalen : Nat) :
    getDataTrapsOld true r datalen = true ∧ getDataTrapsOld false r datalen = false := by
  simp [getDataTrapsOld, h]

/-! ## a chunk set after audio was written -/

/-- full statement: whatever a late `sf_set_chunk` does, the header written at close has the length of the one the
    audio was written behind, so the stored audio is what a reader finds -/
def late_set_harmless_full (hdrAtClose : List Byte → List Byte → List Byte) : Prop :=
  ∀ hdrOld lateChunk audio : List Byte, audioAfter hdrOld (hdrAtClose hdrOld lateChunk) audio = audio

/-- if the header did not change length (no late chunk, or CAF's `free` chunk absorbed it) the audio is
    byte-for-byte what was written -/
theorem late_set_harmless_partial (hdrOld hdrNew audio : List Byte) (h : hdrNew.length = hdrOld.length) :
    audioAfter hdrOld hdrNew audio = audio := by
  unfold audioAfter closeOver
  rw [List.drop_append_of_le_length (by omega), List.drop_of_length_le (by omega), List.nil_append,
    List.drop_append_of_le_length (by omega), List.drop_of_length_le (by omega)]
  simp

/-- repaired rule (7d7b1a3): once audio has been written `sf_set_chunk` is refused and changes nothing on the handle:
    the write table, hence the header assembled at close, is the one from before -/
theorem late_set_refused (h : WHandle) (id : Id) (payload : List Byte) :
    h.write.setChunk id payload = (h.write, false) := by
  simp [WHandle.setChunk, WHandle.write, accepts]

/-- full strength: the late chunk never reaches the header, the audio is untouched -/
theorem late_set_harmless : late_set_harmless_full (fun hdrOld _ => hdrOld) :=
  fun hdrOld _ audio => late_set_harmless_partial hdrOld hdrOld audio rfl

/-- old rule: the late chunk was accepted and the longer header written over the start of the audio -/
theorem late_set_old_rule : ¬ late_set_harmless_full (fun hdrOld late => hdrOld ++ late) := by
  intro h
  exact absurd (h [1] [2] [7]) (by decide)

/-- an accepted call appends exactly one entry and keeps the table invariant; a refused one changes nothing -/
theorem set_chunk_step (h : WHandle) (id : Id) (payload : List Byte) (hok : h.tab.ok) :
    ((h.setChunk id payload).2 = true → (h.setChunk id payload).1.chunks = h.chunks ++ [WChunk.ofInfo id payload] ∧
        (h.setChunk id payload).1.tab.ok) ∧
    ((h.setChunk id payload).2 = false → (h.setChunk id payload).1 = h) := by
  unfold WHandle.setChunk
  split <;> simp [save_ok _ hok]

example : ((WHandle.init .wav).setChunk [97, 98] [1]).1.chunks = [⟨⟨97, 98, 32, 32⟩, 4, [1, 0, 0, 0]⟩] ∧
    ((WHandle.init .wav).setChunk [100, 97, 116, 97] [1]).2 = false ∧
    ((WHandle.init .wav).write.setChunk [97, 98, 99, 100] [1]).2 = false := by decide

/-- the old class predicate of the late-set finding, kept for the record: WAV, RF64, AIFF: any late chunk grew the
    header; CAF: a small one was absorbed by the `free` chunk -/
example : KF.lateGrow .wav 36 12 12 = true ∧ KF.lateGrow .aiff 38 0 8 = true ∧ KF.lateGrow .caf 52 16 16 = false ∧
    KF.lateGrow .caf 52 16 4096 = true := by decide

end Sf.C13
