/-
  C05 / C06 / C08 — HOLES: a write, or an extending SFC_FILE_TRUNCATE, beyond the end of the data.

  -- properties: C05 C06 C08

  "writing at or past the end extends the frame count" (C08): the frames between the old end and the write position were
  written by nobody; the store fills them with zero bytes (`Sf.writeAt`, `truncBytes`; a sparse region of a real file, the
  zero-filling memory SF_VIRTUAL_IO of the harness).  The C08 hole campaign (vlib/c08holes.py) runs the predicate `Sf.Abs.check`
  with the claim `holezero=<ty>` — "a frame nobody wrote reads as 0" — for the encodings of `holeZeroFor`, and without it for the
  others.  This file states which encodings those are, and extends THE BRIDGE (SfProps/C05Bridge.lean `handle_run_accepted`, which
  covered `holeZero = ∅` only) to geometries that make the claim: the transcript of every judged operation list of the concrete
  model — writes past the end and extending truncations included — is accepted line by line.
-/
import SfProofs.AbsBridgeHolesRun
import SfProps.C05Bridge
import SfProps.C08Bridge
namespace Sf.C08Holes
open Sf Sf.Abs Sf.AbsBridge

/-! ## which encodings map zero bytes to zero samples -/

/-- signed PCM of any width read as short or int, float data read as float, double data read as double or float: a sample
    of zero bytes is the value 0, whatever the conversion settings -/
theorem zero_bytes_decode_zero (e : Enc) (ty : Ty) (h : holeZeroFor e ty = true) (c : Conv) :
    e.decode c ty (zeros e.nbytes) = 0 := decode_zeros e ty h c

/-- … and `k` such samples are `k` zero items -/
theorem zero_region_decodes_zero (e : Enc) (ty : Ty) (h : holeZeroFor e ty = true) (c : Conv) (hnb : 0 < e.nbytes) (k : Nat) :
    e.decodeAll c ty (zeros (k * e.nbytes)) = List.replicate k 0 := decodeAll_zeros e ty h c hnb k

/-- the table, per codec of the concrete model: every signed PCM width and both float widths, no unsigned PCM, no G.711 -/
theorem hole_zero_table :
    (∀ w big, holeZeroFor (.pcm ⟨w, false, big⟩) .s16 = true ∧ holeZeroFor (.pcm ⟨w, false, big⟩) .s32 = true) ∧
    (∀ big, holeZeroFor (.flt big) .f32 = true ∧ holeZeroFor (.dbl big) .f64 = true ∧ holeZeroFor (.dbl big) .f32 = true) ∧
    (∀ w big ty, holeZeroFor (.pcm ⟨w, true, big⟩) ty = false) ∧ (∀ ty, holeZeroFor .ulaw ty = false ∧ holeZeroFor .alaw ty = false) := by
  refine ⟨fun _ _ => ⟨rfl, rfl⟩, fun _ => ⟨rfl, rfl, rfl⟩, fun _ _ ty => by cases ty <;> rfl, fun ty => by cases ty <;> exact ⟨rfl, rfl⟩⟩

/-- WITNESSES (why the claim is not made for them): a zero byte is −128·256 as unsigned 8-bit PCM, −32124 as µ-law, −5504 as A-law -/
theorem zero_byte_u8_ulaw_alaw :
    (Enc.pcm ⟨8, true, false⟩).decode {} .s16 (zeros 1) = -32768 ∧ Enc.ulaw.decode {} .s16 (zeros 1) = -32124 ∧
    Enc.alaw.decode {} .s16 (zeros 1) = -5504 := ⟨hole_not_zero_u8, hole_not_zero_ulaw, hole_not_zero_alaw⟩

/-- the store side: a write at a position past the end leaves the old bytes, then zeros, then the data -/
theorem write_past_end_zero_fills (bs data : List Byte) (pos : Nat) (h : bs.length ≤ pos) :
    Sf.writeAt bs pos data = bs ++ zeros (pos - bs.length) ++ data := by
  unfold Sf.writeAt
  have hd : bs.drop (pos + data.length) = [] := List.drop_eq_nil_of_le (by omega)
  rw [hd, List.append_nil]
  split
  · rename_i hle
    have : pos = bs.length := Nat.le_antisymm hle h
    rw [this, List.take_length, Nat.sub_self]; simp [zeros]
  · rfl

/-- … and an extending ftruncate appends zeros -/
theorem truncate_extends_with_zeros (bs : List Byte) (n : Nat) (h : bs.length ≤ n) : truncBytes bs n = bs ++ zeros (n - bs.length) := by
  unfold truncBytes
  split
  · rename_i hle
    have : n = bs.length := Nat.le_antisymm hle h
    rw [this, List.take_length, Nat.sub_self]; simp [zeros]
  · rfl

/-! ## the bridge with hole claims -/

/-- the geometry of a handle with the hole claim made for the caller types that are claimed lossless AND whose zero bytes
    decode to zero (what vlib/c08holes.py `geom_for` passes) -/
def geomOfH (h : H) (strict : Bool) (loss : Ty → Bool) : Abs.Geom :=
  { C05Bridge.geomOf h strict loss with holeZero := fun t => loss t && holeZeroFor h.enc t }

theorem geomOfH_for (h : H) (strict : Bool) (loss : Ty → Bool) : GeomForH (geomOfH h strict loss) h :=
  ⟨rfl, rfl, rfl, rfl, rfl, fun t ht => by
    have : (loss t && holeZeroFor h.enc t) = true := ht
    simp only [Bool.and_eq_true] at this
    exact ⟨this.2, this.1⟩⟩

/-- FROM ANY STATE, with hole claims: every judged operation list — writes at a write position beyond the frame count and
    extending truncations included — is accepted line by line -/
theorem handle_run_accepted_holes_from (g : Abs.Geom) (h : H) (s : Store) (st : Abs.St) (ops : List Sf.Op)
    (gf : GeomForH g h) (bi : BInv h s) (sim : Sim h s st) (hj : ∀ op ∈ ops, Judged g h op) (hcl : CloseLast ops) :
    Abs.holdsFrom g 0 st (transcript h s ops) = .ok ops.length := by
  rw [Abs.holdsFrom_ok_iff]
  exact ⟨run_bridge_h C01.widenExact g ops h s st gf bi sim hj hcl, by rw [C05Bridge.transcript_length]; omega⟩

/-- THE BRIDGE WITH HOLES.  A handle as an open leaves it; the predicate started as the check starts it, with the hole
    claim of `geomOfH`: `ok` on the transcript of EVERY judged operation list. -/
theorem handle_run_accepted_holes (h : H) (s : Store) (strict : Bool) (loss : Ty → Bool) (ops : List Sf.Op) (bi : BInv h s)
    (hr0 : h.mode ≠ .w → h.rpos = 0) (hw0 : h.mode = .w → h.wpos = 0) (hw1 : h.mode = .rw → h.wpos = h.frames)
    (hj : ∀ op ∈ ops, Judged (geomOfH h strict loss) h op) (hcl : CloseLast ops) :
    Abs.holdsOn (geomOfH h strict loss) (absRef h s) (fun _ => true) (transcript h s ops) = .ok ops.length := by
  unfold Abs.holdsOn
  apply handle_run_accepted_holes_from _ h s _ ops (geomOfH_for h strict loss) bi _ hj hcl
  have hf := bi.frames_nn
  refine ⟨rfl, by simp only [Abs.St.init, geomOfH, C05Bridge.geomOf]; omega, fun hm => ?_, fun hm => ?_, fun _ _ _ => rfl⟩
  · simp only [Abs.St.init]; rw [hr0 hm]; rfl
  · simp only [Abs.St.init, geomOfH, C05Bridge.geomOf]
    rcases mode_cases h.mode with hx | hx | hx
    · exact absurd hx hm
    · simp only [hx, absMode, reduceCtorEq, if_false]; rw [hw0 hx]; rfl
    · simp only [hx, absMode, if_true]; rw [hw1 hx]; omega

/-- … never flagged, at no line, with no clause -/
theorem model_never_flagged_holes (h : H) (s : Store) (strict : Bool) (loss : Ty → Bool) (ops : List Sf.Op) (bi : BInv h s)
    (hr0 : h.mode ≠ .w → h.rpos = 0) (hw0 : h.mode = .w → h.wpos = 0) (hw1 : h.mode = .rw → h.wpos = h.frames)
    (hj : ∀ op ∈ ops, Judged (geomOfH h strict loss) h op) (hcl : CloseLast ops) (k : Nat) (tag : String) :
    Abs.holdsOn (geomOfH h strict loss) (absRef h s) (fun _ => true) (transcript h s ops) ≠ .bad k tag ∧
    Abs.holdsOn (geomOfH h strict loss) (absRef h s) (fun _ => true) (transcript h s ops) ≠ .skip k := by
  rw [handle_run_accepted_holes h s strict loss ops bi hr0 hw0 hw1 hj hcl]
  exact ⟨fun hx => Abs.Verdict.noConfusion hx, fun hx => Abs.Verdict.noConfusion hx⟩

/-! ## non-vacuity -/

/-- the 8-frame mono 16-bit RAW file of C06 opened SFM_RDWR (descriptor route switched on for the truncate): move the write
    pointer 3 frames beyond the end, write 2 frames, read the whole file through the read pointer (the gap arrives as zeros),
    extend to 16 frames by SFC_FILE_TRUNCATE, read at the new end -/
def hH : H := { C06.rwH0 with canTruncate := true }
def exOps : List Sf.Op :=
  [.seek 0 11 0x20, .write 0 .s16 false 2 [9, -9], .seek 0 6 0x10, .read 0 .s16 true 10, .truncate 0 16, .seek 0 12 0x10,
   .read 0 .s16 true 8, .close 0]

theorem hH_inv : RwInv hH C06.rwStore :=
  C08Refine.RwInv_initial_raw 0 C06.rwStore 0x040002 1 8000 C06.rwH0 C06.rwStore C06.rwH0_opened rfl (by decide) true

/-- the hypotheses of the bridge hold for this history: all 8 lines are accepted under the hole claim for shorts -/
example : holdsOn (geomOfH hH true (fun t => decide (t = .s16))) (absRef hH C06.rwStore) (fun _ => true)
    (transcript hH C06.rwStore exOps) = .ok 8 :=
  handle_run_accepted_holes hH C06.rwStore true _ exOps (C05Bridge.BInv_read_write _ _ hH_inv) (fun _ => rfl)
    (fun hm => by cases hm) (fun _ => rfl)
    (by
      intro op hop
      simp only [exOps, List.mem_cons, List.mem_nil_iff, or_false] at hop
      rcases hop with h | h | h | h | h | h | h | h <;> subst h <;> simp [Judged, geomOfH, C05Bridge.geomOf] <;> decide)
    (by simp [exOps, CloseLast, isClose])
/-- what the model answers: the read across the hole delivers frames 6, 7, three zero frames, 9, −9 (0xFFF7) and stops at the
    end of the data; after the extending truncate the read at frame 12 delivers −9 and three zero frames -/
example : (transcript hH C06.rwStore exOps).map (·.2.ret) = [11, 2, 6, 7, 0, 12, 4, 0] ∧
    ((transcript hH C06.rwStore exOps).map (fun l => l.2.data.extract 0 7))[3]? = some #[7, 8, 0, 0, 0, 9, 0xFFF7] ∧
    ((transcript hH C06.rwStore exOps).map (fun l => l.2.data.extract 0 4))[6]? = some #[0xFFF7, 0, 0, 0] := by decide +kernel
/-- a transcript whose read across the hole delivers anything but zeros there is refused -/
example : holdsOn (geomOfH hH true (fun t => decide (t = .s16))) (absRef hH C06.rwStore) (fun _ => true)
    [(.seek 11 0x20, { ret := 11 }), (.write .s16 false 2 #[9, 0xFFF7], { ret := 2 }), (.seek 6 0x10, { ret := 6 }),
     (.read .s16 true 4, { ret := 4, data := #[7, 8, 0, 5] })] = .bad 3 "data" := by decide +kernel

end Sf.C08Holes
