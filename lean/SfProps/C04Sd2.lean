-- properties: C03 C04 C11
/-
  C03 / C04 / C11 — SD2: the resource fork (stand-alone model SfModel/Sd2.lean; helpers SfProofs/Sd2Bounded.lean,
  Sd2Fuel.lean).  Property theorems only.

  The fork is the side file `._<name>`; `rsrc c` = what sd2_write_rsrc_fork writes for (sample size, rate, channels, file
  name), `parseFork len` = sd2_parse_rsrc_fork + parse_str_rsrc as a program of byte reads, `parseRsrc bs` its answer on the
  bytes `bs`, `parseReads bs` the offsets of `bs` it touches, `openInfo` the rest of sd2_open.  SD2 has no header in the data
  file and writes the fork once, at open: a header update (C11) changes no byte, the crash image of the data file is the
  audio written so far and the frame count at re-open is its length divided by the block width (`sd2_frames_from_data_file`).
-/
import SfModel.Sd2
import SfProofs.Sd2Bounded
import SfProofs.Sd2Fuel
import SfProofs.PvfImage
namespace Sf.C04Sd2
open Sf Sf.Small2 Sf.Sd2
open Sf.Pvf (digits scanInt isDigit)

/-! ## C03: hostile resource forks -/

/-- for ARBITRARY fork bytes every offset the parser reads lies inside the fork: the guards of read_rsrc_char / _short /
    _int / _marker / _str (offset < 0 || offset + n >= rsrc_len) cover every access of sd2_parse_rsrc_fork and
    parse_str_rsrc, whatever numbers the fork supplies -/
theorem sd2_parse_in_bounds (bs : List Byte) : ∀ i ∈ parseReads bs, i < bs.length :=
  Prog.run_reads_lt parseFork_bounded _

/-- the same for any contents behind any length: the statement does not depend on how the bytes are obtained -/
theorem sd2_parse_in_bounds_any (len : Nat) (g : Nat → Byte) : ∀ i ∈ ((parseFork len).run g).2, i < len :=
  Prog.run_reads_lt parseFork_bounded g

/-- the copy loop of read_rsrc_str stores at most `n` = buffer_len − 1 ≤ 31 characters: `name [32]` / `value [32]`
    always keep their terminating NUL -/
theorem sd2_str_copy_fits (g : Nat → Byte) : ∀ (n : Nat) (off : Int), ((copyLoop n off).run g).1.length ≤ n
  | 0, _ => by
    show ((Prog.run g (Prog.pure ([] : List Byte))).1).length ≤ 0
    simp [Prog.run]
  | n + 1, off => by
    unfold copyLoop
    simp only [Prog.run]
    split
    · have ih := sd2_str_copy_fits g n (off + 1)
      generalize copyLoop n (off + 1) = p at ih ⊢
      induction p with
      | pure a => simp [Prog.bind, Prog.run] at ih ⊢; omega
      | read i k ihk => simp only [Prog.bind, Prog.run] at ih ⊢; exact ihk (g i) ih
    · simp [Prog.run]

/-- the buffer length parse_str_rsrc asks for is at most 32, whatever the length byte says -/
theorem sd2_buffer_len_le (slen : Int) : ((min 32 (slen + 1) : Int) - 1).toNat ≤ 31 := by omega

/-- the loop bound of the model is never reached: the string loop makes at most len / 12 + 1 iterations (iteration k reads
    the item at item_offset + 12 k, which must lie inside the fork), the type loop at most 65536 -/
theorem sd2_parse_never_fuel (bs : List Byte) : parseRsrc bs ≠ .fuel :=
  Prog.run_all parseFork_nofuel _

/-- a refusal or sane parameters: an accepted fork yields a sample size in 1…4 and non-negative rate and channels;
    sd2_open then demands 1 ≤ channels ≤ 1024 and rate ≥ 1 (`openInfo`) -/
theorem sd2_finish_sane (s : LoopSt) (p : Params) (h : finish s = .ok p) : 1 ≤ p.size ∧ p.size ≤ 4 ∧ 0 ≤ p.rate ∧ 0 ≤ p.ch := by
  unfold finish at h
  dsimp only at h
  split at h <;> dsimp only at h <;>
    (split at h
     · cases h
     · split at h
       · cases h
       · split at h
         · injection h with h; subst h; dsimp only; omega
         · cases h)

theorem sd2_open_sane (p : Params) (n : Nat) (i : Info) (h : openInfo p n = .ok i) : 1 ≤ i.ch ∧ i.ch ≤ 1024 ∧ 1 ≤ i.sr := by
  unfold openInfo at h
  split at h
  · contradiction
  · injection h with h; subst h; simp only; omega

/-- non-vacuity: on the fork the library writes for 16-bit stereo at 44100 Hz the parser makes 105 byte reads, the largest at
    offset 417 of 444, ends through the data-offset test of the sixth iteration and never comes near its loop bound -/
example : (parseReads (rsrc { size := 2, rate := 44100, ch := 2, name := asc "s0.sd2" })).length = 105 ∧
    (parseReads (rsrc { size := 2, rate := 44100, ch := 2, name := asc "s0.sd2" })).all (· < 444) = true ∧
    (parseReads (rsrc { size := 2, rate := 44100, ch := 2, name := asc "s0.sd2" })).contains 417 = true ∧
    parseRsrc (rsrc { size := 2, rate := 44100, ch := 2, name := asc "s0.sd2" }) ≠ .fuel := by decide +kernel

example : finish { strOff := 0, size := 44100, rate := 2, ch := 2 } = .ok { size := 2, rate := 44100, ch := 2 } ∧
    openInfo { size := 2, rate := 44100, ch := 2 } 16 = .ok { ch := 2, fmt := 0x160002, sr := 44100, frames := 4 } := by decide

example : parseRsrc [0, 0, 1, 0] = .err .badDataOffset ∧ parseReads [0, 0, 1, 0] = [0, 1, 2, 3] := by decide +kernel

/-! ## C04: what the writer stores is read back -/

/-- "%d" then strtol: every channel count and sample size comes back -/
theorem sd2_decimal_roundtrip (n : Nat) (h : n ≤ 0x7FFFFFFF) : strtol (digits n) = n := by
  have e := Sf.Pvf.scanInt_digits n [] (by intro b r h; cases h)
  rw [List.append_nil] at e
  unfold strtol
  rw [e]
  simp only [wrapS]
  have h1 : ¬ ((n : Int) > 0x7FFFFFFFFFFFFFFF) := by omega
  have h2 : ¬ ((n : Int) < -0x8000000000000000) := by omega
  simp only [h1, h2, if_false]
  have e32 : (2 : Int) ^ 32 = 4294967296 := by decide
  rw [e32]
  split <;> omega

/-- "%d.000000" then strtol: the decimal text of every rate in [0, 2^31 − 1] parses back to the rate -/
theorem sd2_rate_text_roundtrip (c : Cfg) (h : c.rate ≤ 0x7FFFFFFF) : strtol (rateText c) = c.rate := by
  have e := Sf.Pvf.scanInt_digits c.rate (asc ".000000") (by
    intro b r hb
    have : b = 0x2E := by
      have : asc ".000000" = [0x2E, 0x30, 0x30, 0x30, 0x30, 0x30, 0x30] := by decide
      rw [this] at hb; injection hb with hb _; exact hb.symm
    subst this; decide)
  unfold strtol rateText
  rw [e]
  simp only [wrapS]
  have h1 : ¬ ((c.rate : Int) > 0x7FFFFFFFFFFFFFFF) := by omega
  have h2 : ¬ ((c.rate : Int) < -0x8000000000000000) := by omega
  simp only [h1, h2, if_false]
  have e32 : (2 : Int) ^ 32 = 4294967296 := by decide
  rw [e32]
  split <;> omega

example : strtol (rateText { size := 2, rate := 2147483647, ch := 2 }) = 2147483647 := by decide +kernel

/-- parameters that come out of the fork are reported exactly, and the frame count is the length of the data file in
    blocks: the caller's (stale) frames value and the fork play no part in it -/
theorem sd2_frames_from_data_file (size rate ch n : Nat) (hs : 1 ≤ size ∧ size ≤ 4) (hc : 1 ≤ ch ∧ ch ≤ 1024) (hr : 1 ≤ rate) :
    openInfo { size := size, rate := rate, ch := ch } n = .ok { ch := ch, fmt := 0x160000 + size, sr := rate, frames := n / (size * ch) } := by
  unfold openInfo codecOf
  have : ¬ ((ch : Int) < 1 ∨ (ch : Int) > 1024 ∨ (rate : Int) < 1) := by omega
  simp [this]

/-- re-opening what the writer wrote (the parser run on the writer's bytes by the kernel): every sample size, rates of 1, 4, 5,
    8 and 10 digits, channel counts of 1 to 4 digits, file names of even / odd length and one that reaches the 0x50 fields -/
theorem sd2_reopen_info_instances :
    (∀ c ∈ [({ size := 2, rate := 44100, ch := 2, name := asc "s0.sd2" } : Cfg), { size := 1, rate := 1, ch := 1, name := asc "s0.sd22" },
            { size := 3, rate := 8000, ch := 3, name := asc "a" }, { size := 4, rate := 2147483647, ch := 1024, name := List.replicate 40 0x78 },
            { size := 2, rate := 65536, ch := 255, name := [] }, { size := 1, rate := 11025000, ch := 10, name := asc "x.y" }],
        parseRsrc (rsrc c) = .ok { size := c.size, rate := c.rate, ch := c.ch } ∧ (rsrc c).length = total c) := by
  decide +kernel

/-- a data file of any length re-opens: one that is too short for the 12-byte probe of guess_file_type (fewer than 12
    bytes of audio, N = 0 included) goes to the resource fork like every other SD2 file -/
theorem sd2_short_data_reaches_fork (data : List Byte) (h : data.length < 12) : reachesFork data = some true := by
  simp [reachesFork, h]

theorem sd2_short_data_reopens (data fork : List Byte) (h : data.length < 12) : reopenFile data fork = reopen fork data.length := by
  simp [reopenFile, reopenFileWith, sd2_short_data_reaches_fork data h]

/-- the rule before the repair (KF-C04-SD2-SHORT-DATA): two stereo 16-bit frames were written, the closed file was refused -/
theorem sd2_short_data_old_rule :
    reopenFileOld [0x11, 0, 0x11, 1, 0x11, 2, 0x11, 3] (rsrc { size := 2, rate := 44100, ch := 2, name := asc "s0.sd2" }) = .err ∧
    reopenFile [0x11, 0, 0x11, 1, 0x11, 2, 0x11, 3] (rsrc { size := 2, rate := 44100, ch := 2, name := asc "s0.sd2" })
      = .ok { ch := 2, fmt := 0x160002, sr := 44100, frames := 2 } := by decide +kernel

/-! ## the fork is a function of (sample size, rate, channels, file name) -/

theorem gap_congr (f f' : Nat → Byte) (start n bound : Nat) (h : ∀ i, i < bound → f i = f' i) (hb : start + n ≤ bound) :
    gap f start n = gap f' start n := by
  unfold gap
  apply List.map_congr_left
  intro j hj
  rw [List.mem_range] at hj
  exact h _ (by omega)

theorem total_le (c : Cfg) (h : c.wf) : total c ≤ 452 := by
  obtain ⟨h1, h2, h3, h4, h5, h6, _⟩ := h
  have a := Sf.Pvf.digits_length_le 1 c.size (by omega) (by omega)
  have b := Sf.Pvf.digits_length_le 10 c.rate (by omega) (by omega)
  have d := Sf.Pvf.digits_length_le 4 c.ch (by omega) (by omega)
  have e : (asc ".000000").length = 7 := by decide
  unfold total mapOff mapLen dataLen off3 off2 off1 sizeText rateText chText
  rw [List.length_append, e]
  omega

/-- two backgrounds that agree below offset 512 give the same fork -/
theorem rsrcWith_congr (f f' : Nat → Byte) (c : Cfg) (hc : c.wf) (h : ∀ i, i < 512 → f i = f' i) : rsrcWith f c = rsrcWith f' c := by
  have ht := total_le c hc
  unfold total mapLen at ht
  unfold rsrcWith head mapRegion item
  dsimp only
  rw [gap_congr f f' 0 256 512 h (by omega), gap_congr f f' (mapOff c) 12 512 h (by omega),
      gap_congr f f' (mapOff c + 46 + 8) 4 512 h (by omega), gap_congr f f' (mapOff c + 58 + 8) 4 512 h (by omega),
      gap_congr f f' (mapOff c + 70 + 8) 4 512 h (by omega), gap_congr f f' (mapOff c + 82 + 8) 4 512 h (by omega),
      gap_congr f f' (mapOff c + 94) 12 512 h (by omega)]

/-- the bytes of the fork do not depend on what the heap held before (memset 0xEA over the 256 bytes there are, zero fill
    of what psf_bump_header_allocation adds): they are a function of the configuration alone -/
theorem sd2_rsrc_deterministic (mem mem' : Nat → Byte) (c : Cfg) (hc : c.wf) : rsrcOn true mem c = rsrcOn true mem' c :=
  rsrcWith_congr _ _ c hc (by intro i hi; simp [fill, hi])

/-- without the zero fill in psf_bump_header_allocation (seeded/C19-header-bump-stale-heap) the fork shows the heap -/
theorem sd2_rsrc_stale_heap_rule :
    ∃ (mem mem' : Nat → Byte) (c : Cfg), c.wf ∧ rsrcOn false mem c ≠ rsrcOn false mem' c :=
  ⟨fun _ => 0, fun _ => 0xBE, { size := 2, rate := 44100, ch := 2, name := asc "s0.sd2" }, by decide, by decide +kernel⟩

example : ({ size := 2, rate := 44100, ch := 2, name := asc "s0.sd2" } : Cfg).wf ∧
    (rsrc { size := 2, rate := 44100, ch := 2, name := asc "s0.sd2" }).length = 444 := by decide +kernel

end Sf.C04Sd2
