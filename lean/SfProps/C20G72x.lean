-- properties: C05
/-
  C20 for G.721 / G.723 (CCITT G.721 / G.723, today ITU-T G.726) — the model SfModel/G72x.lean is a transcription of the
  Sun Microsystems reference code libsndfile ships in src/G72x, which itself follows the block diagram of the
  Recommendation.  Names of the Recommendation's blocks next to the Lean definitions:

      Recommendation block                         C (src/G72x)                    Lean (Sf.G72x)
      ------------------------------------------   -----------------------------   --------------------------------
      FMULT  (floating multiply a_i·sr, b_i·dq)    fmult                           fmult
      ACCUM  (SEZI, SEI -> SEZ, SE)                predictor_zero / _pole + >> 1   predictorZero, predictorPole, `se`/`sez` in encode / decode
      EXPAND + SUBTA (D = SL − SE)                 sl >>= 2 ; d = sl − se          encode: `shr sample 2`, `d`
      LOG, SUBTB (DLN = DL − Y>>2)                 quantize (first half)           quantize: `expon`, `mant`, `dl`, `dln`
      QUAN   (decision levels)                     quan (dln, qtab_*)              quan dln r.qtab
      RECONST (DQLN), ADDA, ANTILOG                _dqlntab [i], reconstruct       tabAt r.dqlntab, reconstruct
      ADDB   (SR = SE + DQ)                        sr = …                          finish: `sr`
      ADDC   (DQSEZ, PK0, SIGPK)                   dqsez, pk0                      finish: `dqsez`, update: `pk0`
      FUNCTW, FILTD, LIMB, DELAY (YU)              _witab, update: yu              tabAt r.witab, updYu (LIMB = the clamp to [544, 5120])
      FILTE  (YL)                                  update: yl                      update: `yl`
      MIX, LIMA (AL = min (AP >> 2, 64))           step_size                       stepSize (`ap ≥ 256` is LIMA)
      FUNCTF, FILTA (DMS), FILTB (DML)             _fitab, update: dms, dml        tabAt r.fitab, update: `dms`, `dml`
      SUBTC, FILTC, TRIGA (AP)                     update: ap                      updAp
      TRANS  (TR)                                  update: tr                      trans
      TONE   (TD: A2 < −0.71875)                   update: td = a2p < −11776       update: `td`
      UPA2, LIMC (|A2| ≤ 0.75)                     update: a2p                     updA2 (LIMC = the ±12288 clamps)
      UPA1, LIMD (|A1| ≤ 1 − 2^−4 − A2)            update: a [0]                   updA1 (LIMD = the ±(15360 − a2p) clamp)
      UPB, XOR (six B_i, leak 2^−8 / 2^−9)         update: b [cnt]                 updB, updBs
      TRIGB  (reset on TR)                         update: if (tr) …               update: `if tr then 0 …`
      FLOATA, FLOATB (11-bit floating DQ, SR)      update: dq [0], sr [0]          floatA, floatB

  Spec-level facts the Recommendation states, proved on the transcription (tables tied to the tree under test by
  `g72x_tables_extracted`, restated here for C20):
    * `g72x_quantizer_monotone`        decision levels strictly increasing (every rate)
    * `g72x_tables_symmetric`          DQLN / W / F tables are even in the sign bit (code i and its complement)
    * `g72x_reconstruction_in_cell`    every reconstruction level lies inside its own decision cell
    * `quan_cell`                      QUAN returns the cell that contains the value
    * `g72x_quantize_then_reconstruct` hence DLN and the reconstructed DQLN of the code it is given lie in the SAME cell
                                       ("reconstruct ∘ quantize within one step")
    * `g72x_predictor_limits`          LIMC / LIMD / LIMB / LIMA as numbers: |A2| ≤ 0.75, |A1| ≤ 1 − 2^−4 − A2,
                                       1.06 ≤ YU ≤ 10.00, 0 ≤ AP ≤ 2 in every reachable state
    * `g72x_limc_upper_dead`           the comparison `a2p ≥ 12416` of LIMC can never be true (under LIMD it is dead code)
    * encoder / decoder tracking: see below (`g721_*`).
-/
import SfProps.C05G72x
namespace Sf.C20G72x
open Sf Sf.G72x Sf.G72x.Proofs

/-- the tables of the model are the tables of the tree under test (C20 restatement of `g72x_tables_extracted`) -/
theorem g72x_published_tables :
    g721.qtab = Generated.G72x.g721_qtab ∧ g721.dqlntab = Generated.G72x.g721_dqlntab ∧
    g723_24.qtab = Generated.G72x.g723_24_qtab ∧ g723_24.dqlntab = Generated.G72x.g723_24_dqlntab ∧
    g723_40.qtab = Generated.G72x.g723_40_qtab ∧ g723_40.dqlntab = Generated.G72x.g723_40_dqlntab := by
  have h := C05G72x.g72x_tables_extracted
  exact ⟨h.1, h.2.1, h.2.2.2.2.2.2.2.2.1, h.2.2.2.2.2.2.2.2.2.1, h.2.2.2.2.2.2.2.2.2.2.2.2.1, h.2.2.2.2.2.2.2.2.2.2.2.2.2.1⟩

/-! ## quantiser tables -/

def strictlyIncreasing : List Int → Bool
  | a :: b :: rest => decide (a < b) && strictlyIncreasing (b :: rest)
  | _ => true

/-- decision levels strictly increasing -/
theorem g72x_quantizer_monotone :
    strictlyIncreasing g721.qtab = true ∧ strictlyIncreasing g723_16.qtab = true ∧
    strictlyIncreasing g723_24.qtab = true ∧ strictlyIncreasing g723_40.qtab = true := by decide

/-- the sign-symmetric layout of the three per-code tables: entry i equals entry 2^bits − 1 − i -/
def symmetric (t : List Int) : Bool := t == t.reverse

theorem g72x_tables_symmetric :
    (symmetric g721.dqlntab && symmetric g721.witab && symmetric g721.fitab &&
     symmetric g723_16.dqlntab && symmetric g723_16.witab && symmetric g723_16.fitab &&
     symmetric g723_24.dqlntab && symmetric g723_24.witab && symmetric g723_24.fitab &&
     symmetric g723_40.dqlntab && symmetric g723_40.witab && symmetric g723_40.fitab) = true := by decide

/-- cell i (1 ≤ i ≤ size) of a decision table: `[qtab [i − 1], qtab [i])`, open above for the last -/
def inCell (qtab : List Int) (i : Nat) (v : Int) : Bool :=
  decide (1 ≤ i) && decide (qtab.getD (i - 1) 0 ≤ v) && (decide (i ≥ qtab.length) || decide (v < qtab.getD i 0))

/-- the reconstruction level of every magnitude code i ≥ 1 lies inside decision cell i; code 0 (G.721, G.723 24 / 40:
    "below the first level") reconstructs to −2048 = the most negative DQLN -/
def reconInCells (r : Rate) : Bool :=
  (List.range r.qtab.length).all fun k => inCell r.qtab (k + 1) (r.dqlntab.getD (k + 1) 0)

theorem g72x_reconstruction_in_cell :
    reconInCells g721 = true ∧ reconInCells g723_24 = true ∧ reconInCells g723_40 = true ∧
    g721.dqlntab.getD 0 0 = -2048 ∧ g723_24.dqlntab.getD 0 0 = -2048 ∧ g723_40.dqlntab.getD 0 0 = -2048 := by decide

/-- G.723 16 kbit/s has one decision level (261) and the two levels 116 / 365 around it -/
theorem g723_16_levels : g723_16.dqlntab.getD 0 0 < g723_16.qtab.getD 0 0 ∧ g723_16.qtab.getD 0 0 ≤ g723_16.dqlntab.getD 1 0 := by decide

/-- QUAN: `quan v t = i` is the number of leading entries ≤ v; for a strictly increasing table that is the cell of v -/
theorem quan_cell (v : Int) : ∀ (t : List Int), strictlyIncreasing t = true →
    (∀ k : Nat, (k : Int) < quan v t → t.getD k 0 ≤ v) ∧ (quan v t < t.length → v < t.getD (quan v t).toNat 0) := by
  intro t
  induction t with
  | nil => intro _; simp [quan]
  | cons a rest ih =>
    intro hs
    have hs' : strictlyIncreasing rest = true := by
      cases rest with
      | nil => rfl
      | cons b r => simp only [strictlyIncreasing, Bool.and_eq_true] at hs; exact hs.2
    obtain ⟨ih1, ih2⟩ := ih hs'
    have hq := quan_bounds v rest
    by_cases hv : v < a
    · simp only [quan, hv, if_true]
      exact ⟨fun k hk => by omega, fun _ => by simpa using hv⟩
    · simp only [quan, hv, if_false]
      constructor
      · intro k hk
        cases k with
        | zero => simp only [List.getD_cons_zero]; omega
        | succ k => simp only [List.getD_cons_succ]; exact ih1 k (by omega)
      · intro hl
        have hl' : quan v rest < rest.length := by simp only [List.length_cons] at hl; omega
        have := ih2 hl'
        have e : (1 + quan v rest).toNat = (quan v rest).toNat + 1 := by omega
        rw [e, List.getD_cons_succ]
        exact this

/-- **reconstruct ∘ quantize within one step** (log domain): for a non-negative difference whose normalised log DLN
    reaches the first decision level, the code QUAN picks and the reconstruction level RECONST reads for that code lie
    in the same decision cell — |DQLN − DLN| is less than the cell width -/
theorem g72x_quantize_then_reconstruct (r : Rate) (hr : r = g721 ∨ r = g723_24 ∨ r = g723_40) (dln : Int)
    (h1 : r.qtab.getD 0 0 ≤ dln) :
    inCell r.qtab (quan dln r.qtab).toNat dln = true ∧
    inCell r.qtab (quan dln r.qtab).toNat (r.dqlntab.getD (quan dln r.qtab).toNat 0) = true := by
  have hmono : strictlyIncreasing r.qtab = true := by
    rcases hr with rfl | rfl | rfl
    · exact g72x_quantizer_monotone.1
    · exact g72x_quantizer_monotone.2.2.1
    · exact g72x_quantizer_monotone.2.2.2
  obtain ⟨c1, c2⟩ := quan_cell dln r.qtab hmono
  have hb := quan_bounds dln r.qtab
  have hpos : 1 ≤ quan dln r.qtab := by
    have hne : r.qtab ≠ [] := by rcases hr with rfl | rfl | rfl <;> decide
    match hq : r.qtab, hne with
    | a :: rest, _ =>
      rw [hq] at h1
      simp only [List.getD_cons_zero] at h1
      have : ¬ dln < a := by omega
      simp only [quan, this, if_false]
      have := (quan_bounds dln rest).1
      omega
  generalize hi : quan dln r.qtab = i at *
  obtain ⟨n, rfl⟩ : ∃ n : Nat, i = (n : Int) := ⟨i.toNat, by omega⟩
  simp only [Int.toNat_natCast]
  have hn1 : 1 ≤ n := by omega
  have hn2 : n ≤ r.qtab.length := by omega
  constructor
  · unfold inCell
    have ha := c1 (n - 1) (by omega)
    simp only [Bool.and_eq_true, Bool.or_eq_true, decide_eq_true_eq]
    by_cases hlt : n < r.qtab.length
    · have hb' := c2 (by omega)
      simp only [Int.toNat_natCast] at hb'
      exact ⟨⟨hn1, ha⟩, Or.inr hb'⟩
    · exact ⟨⟨hn1, ha⟩, Or.inl (Nat.le_of_not_lt hlt)⟩
  · have hall : reconInCells r = true := by
      rcases hr with rfl | rfl | rfl
      · exact g72x_reconstruction_in_cell.1
      · exact g72x_reconstruction_in_cell.2.1
      · exact g72x_reconstruction_in_cell.2.2.1
    unfold reconInCells at hall
    rw [List.all_eq_true] at hall
    have := hall (n - 1) (List.mem_range.mpr (by omega))
    have e : n - 1 + 1 = n := by omega
    rw [e] at this
    exact this

example : inCell g721.qtab (quan 250 g721.qtab).toNat 250 = true ∧ quan 250 g721.qtab = 4 ∧ g721.dqlntab.getD 4 0 = 273 := by decide

/-! ## limits of the adaptive predictor and the scale factor -/

/-- LIMC, LIMD, LIMB, the range of AP (LIMA's input), in every state reachable by any mix of encoder and decoder steps:
    |A2| ≤ 0.75 (12288 / 2^14), |A1| ≤ 1 − 2^−4 − A2 (15360 / 2^14), 1.06 ≤ YU ≤ 10.00 (544 … 5120 / 2^9), 0 ≤ AP ≤ 2 (512 / 2^8) -/
theorem g72x_predictor_limits (r : Rate) (st : St) (h : C05G72x.Reachable r st) :
    (-12288 ≤ st.a1 ∧ st.a1 ≤ 12288) ∧ (-(15360 - st.a1) ≤ st.a0 ∧ st.a0 ≤ 15360 - st.a1) ∧
    (544 ≤ st.yu ∧ st.yu ≤ 5120) ∧ (0 ≤ st.ap ∧ st.ap ≤ 512) := by
  have inv := C05G72x.g72x_state_inv r st h
  exact ⟨⟨inv.a.1, inv.a.2.1⟩, ⟨inv.a.2.2.1, inv.a.2.2.2⟩, inv.yu, inv.ap⟩

/-- UPA2 without the upper comparison of LIMC's sign-change branch (`a2p >= 12416`) -/
def updA2NoUpper (st : St) (pk0 : Bool) (dqsez : Int) : Int :=
  let pks1 := pk0 != st.pk0
  let a2p0 := s16 (st.a1 - shr st.a1 7)
  if dqsez ≠ 0 then
    let fa1 := s16 (if pks1 then st.a0 else -st.a0)
    let a2p1 := s16 (if fa1 < -8191 then a2p0 - 0x100 else if fa1 > 8191 then a2p0 + 0xFF else a2p0 + shr fa1 5)
    if pk0 != st.pk1 then
      (if a2p1 ≤ -12160 then -12288 else s16 (a2p1 - 0x80))
    else if a2p1 ≤ -12416 then -12288
    else if a2p1 ≥ 12160 then 12288
    else s16 (a2p1 + 0x80)
  else a2p0

/-- the value LIMC looks at stays below 12416 whenever LIMC / LIMD held before (|a1| ≤ 12288, |a0| ≤ 15360 − a1) -/
theorem a2p_before_limc (a1 a0 : Int) (h : -12288 ≤ a1 ∧ a1 ≤ 12288 ∧ -(15360 - a1) ≤ a0 ∧ a0 ≤ 15360 - a1) (neg : Bool) :
    s16 (if s16 (if neg then a0 else -a0) < -8191 then s16 (a1 - shr a1 7) - 0x100
      else if s16 (if neg then a0 else -a0) > 8191 then s16 (a1 - shr a1 7) + 0xFF
      else s16 (a1 - shr a1 7) + shr (s16 (if neg then a0 else -a0)) 5) < 12416 := by
  have e0 : s16 (a1 - shr a1 7) = a1 - a1 / 128 := by rw [shr7]; exact s16_id _ (by omega) (by omega)
  have ef : s16 (if neg then a0 else -a0) = (if neg then a0 else -a0) := by
    cases neg
    · simp only [Bool.false_eq_true, if_false]; exact s16_id _ (by omega) (by omega)
    · simp only [if_true]; exact s16_id _ (by omega) (by omega)
  rw [e0, ef, shr5]
  cases neg
  · simp only [Bool.false_eq_true, if_false]
    split
    · rw [s16_id _ (by omega) (by omega)]; omega
    · split
      · rw [s16_id _ (by omega) (by omega)]; omega
      · rw [s16_id _ (by omega) (by omega)]; omega
  · simp only [if_true]
    split
    · rw [s16_id _ (by omega) (by omega)]; omega
    · split
      · rw [s16_id _ (by omega) (by omega)]; omega
      · rw [s16_id _ (by omega) (by omega)]; omega

/-- **deadness of the LIMC upper comparison**: in every state satisfying the invariant (so: every reachable state),
    UPA2 equals UPA2 with the comparison `a2p ≥ 12416` removed -/
theorem g72x_limc_upper_dead (st : St) (h : Inv st) (pk0 : Bool) (dqsez : Int) :
    updA2 st pk0 dqsez = updA2NoUpper st pk0 dqsez := by
  have hb := a2p_before_limc st.a1 st.a0 h.a (pk0 != st.pk0)
  unfold updA2 updA2NoUpper
  simp only
  split
  · generalize s16 (if s16 (if (pk0 != st.pk0) = true then st.a0 else -st.a0) < -8191 then s16 (st.a1 - shr st.a1 7) - 0x100
        else if s16 (if (pk0 != st.pk0) = true then st.a0 else -st.a0) > 8191 then s16 (st.a1 - shr st.a1 7) + 0xFF
        else s16 (st.a1 - shr st.a1 7) + shr (s16 (if (pk0 != st.pk0) = true then st.a0 else -st.a0)) 5) = a2p1 at hb ⊢
    split
    · split
      · rfl
      · have : ¬ a2p1 ≥ 12416 := by omega
        simp only [this, if_false]
    · rfl
  · rfl

/-- non-vacuity: the initial state satisfies the invariant, and at the corner a1 = 12288, a0 = 3072 the value LIMC sees
    is 12288 — the bound is nearly attained -/
example : Inv St.init ∧ updA2 { St.init with a1 := 12288, a0 := 3072, pk0 := true, pk1 := true } false 5 = 12160 := ⟨init_inv_st, by decide⟩

end Sf.C20G72x
