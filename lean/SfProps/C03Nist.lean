-- properties: C03
/-
  C03 — NIST / SPHERE files shorter than the 1024-byte header (model SfModel/Nist.lean).

  nist_read_header reads the header into `char psf_header [NIST_HEADER_LENGTH + 2]`, a stack array, with
  `psf_binheader_readf (psf, "pb", 0, psf_header, NIST_HEADER_LENGTH)`.  The 'b' conversion clears the destination
  before it calls header_read, and header_read copies nothing when the file ends early: the parser then works on 1024
  NUL bytes, never on what the stack held (checked under valgrind memcheck by vlib/vgcheck.py at every truncation
  point).  The verdict for a short file is therefore the same refusal whatever bytes are present.
-/
import SfModel.Nist
namespace Sf.C03Nist
open Sf Sf.Small2 Sf.Nist

/-- a file that is recognised as NIST and ends before the header does is refused -/
theorem nist_parse_short_file (bs : List Byte) (hs : bs.length < 1024) (hg : guess bs = some (.fmt 0x070000)) :
    parse bs = .err := by
  unfold parse
  split
  · rfl
  · rw [hg]
    simp [readHeader, hs]

/-- the verdict for a short file is a function of the bytes present — the constant one: two short NIST files get the
    same answer, nothing but the file takes part in it -/
theorem nist_short_file_verdict_fixed (bs bs' : List Byte) (hs : bs.length < 1024) (hs' : bs'.length < 1024)
    (hg : guess bs = some (.fmt 0x070000)) (hg' : guess bs' = some (.fmt 0x070000)) : parse bs = parse bs' := by
  rw [nist_parse_short_file bs hs hg, nist_parse_short_file bs' hs' hg']

/-- the header reader itself, for any short byte string -/
theorem nist_readHeader_short (bs : List Byte) (hs : bs.length < 1024) : readHeader bs = .err := by
  simp [readHeader, hs]

example : guess (asc "NIST_1A\n   1024\nchannel_count -i 2\n") = some (.fmt 0x070000) ∧
    parse (asc "NIST_1A\n   1024\nchannel_count -i 2\n") = .err := by decide +kernel

end Sf.C03Nist
