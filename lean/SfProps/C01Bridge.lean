/-
  C01 / C04 / C07 / C11 — THE WRITE-SIDE BRIDGE: soundness of the write-side predicate `Sf.AbsWrite.judge`
  (SfModel/AbsWrite.lean, what `sfmodel abs-write` evaluates on the implementation's own records) against the models:

      a library that behaves as the model does can never be flagged by the write campaign.

  -- properties: C01 C04 C07 C11

  `recordOf S` is the RECORD the all-format write campaign (vlib/writecamp.py) would write down of the job `S` if the
  library behaved like the model: the reference run (all samples in one frames call) and the split run (`S.ops`: write calls
  of either variant, SFC_UPDATE_HEADER_NOW, SFC_SET_UPDATE_HEADER_AUTO) with the values `stepWrite` returns and the closed
  bytes of `closeHandle`; the re-open through the model's own parser (`openHandle … .r`, RAW with the writer's parameters,
  every other container with an empty SF_INFO); the read-back through the model's decoder (`stepRead`: one items read of
  (N + B + pad + 8)·ch items, one further read); one crash point after every SFC_UPDATE_HEADER_NOW and after every write
  made in auto-update mode (the store's bytes at that moment, re-opened and read back the same way); the stale-frames run
  (= the reference run: `openHandle` in write mode has no frames parameter, C04.stale_frames_ignored).
  `Sess.Ok` lists what is asked of the session — only what the statements quantify over: the open succeeded, the calls are
  calls the API accepts, one caller type, values of that C type, a rate the 32-bit header fields hold, the RIFF guard, and
  finite samples on PEAK-carrying files (C07's quantifier).
  Proof: level A (SfProofs/AbsWriteBridge.lean: `Pred.accepted_of_good`, cells / arrays / crash-point indexing once for
  every model) + level B (`handle_pred_good`, from C01.data_roundtrip, C04 `close_bytes` / `*_image_reopen`,
  C07.file_bytes_partition_finite, C11 `stepUpdate_inv` / `stepWrite_inv`, C05 `stepRead_rmode` / `read_at_end`).
-/
import SfProofs.AbsWriteBridgeRun
namespace Sf.C01Bridge
open Sf Sf.AbsWrite Sf.AbsWriteBridge

/-- THE WRITE-SIDE BRIDGE for Sf.Handle (RAW / AU / WAV, every sample-granular codec, every caller type, any split, header
    updates and auto-update mode anywhere): the record of EVERY session is accepted — no clause of C01 / C04 / C07 / C11
    fails on what the model does. -/
theorem model_session_accepted (S : Sess) (h : H) (s : Store) (ok : S.Ok h s) : accepted (recordOf S) = true := by
  unfold recordOf; rw [ok.opened]
  exact Pred.accepted_of_good _ (handle_pred_good S h s ok)

/-- … in the driver's terms: `judge` prints no clause -/
theorem model_session_never_flagged (S : Sess) (h : H) (s : Store) (ok : S.Ok h s) : judge (recordOf S) = [] := by
  have := model_session_accepted S h s ok
  unfold accepted at this
  simpa using this

/-- … and therefore every clause of the four statements holds of what the model records (`accepted_meaning`): calls
    accepted in full, the file re-opens with the requested parameters, N ≤ F < N + B, F frames then end of file, the
    lossless round trip, byte-identical split run, stale frames ignored, every crash point a valid file holding exactly the
    frames written so far -/
theorem model_session_clauses (S : Sess) (h : H) (s : Store) (ok : S.Ok h s) : Accepted (recordOf S) :=
  accepted_meaning _ (model_session_accepted S h s ok)

/-- the prediction itself has the list-level properties (level B alone; what other models instantiate) -/
theorem model_session_good (S : Sess) (h : H) (s : Store) (ok : S.Ok h s) : Good (predOf S (h, s)) :=
  handle_pred_good S h s ok

/-- every crash point the record holds is the snapshot image of a prefix of the session (C11's `snapImage`) -/
theorem model_crash_points (S : Sess) (h : H) (s : Store) (ok : S.Ok h s) :
    ∀ x ∈ crashPoints S.ch.toNat (h, s) 0 0 S.ops, ∃ c pre post, openCfg S.fmt S.ch S.sr = some c ∧ S.ops = pre ++ post ∧
      x.1 = (callsOf S.ch.toNat (h, s) pre).length ∧ x.2.1 = sessFrames S.ch.toNat pre ∧
      x.2.2 = snapImage c (c.init.run c pre) := by
  intro x hx
  obtain ⟨c, hcfg, _, _, _, i0⟩ := open_ok ok.opened
  have f4 := (openCfg_facts hcfg).2.2.2.1
  obtain ⟨pre, post, e, e1, e2, e3⟩ := crashPoints_spec S.ops i0 (by rw [f4]; exact ok.valid) 0 0 x (by rw [f4]; exact hx)
  rw [f4] at e1 e2
  exact ⟨c, pre, post, hcfg, e, by simpa using e1, by simpa using e2, e3⟩

/-! ## non-vacuity -/

instance (ty : Ty) (op : SOp) : Decidable (SOp.hasTy ty op) := by cases op <;> (simp only [SOp.hasTy]; infer_instance)

/-- a stereo 16-bit AU job: a frames call, an explicit header update, auto mode switched on, an items call -/
def exS : Sess :=
  { fmt := 0x030002, ch := 2, sr := 44100, ty := .s16,
    ops := [.write ⟨.s16, true, 1, [1, -2]⟩, .update, .auto true, .write ⟨.s16, false, 4, [3, -4, 5, 6]⟩] }

/-- the hypotheses of the bridge are met … -/
example : ∃ h s, exS.Ok h s := by
  obtain ⟨h, s, ho⟩ := OpenRes.exists_of_isOk (r := openHandle 0 {} .w exS.fmt exS.ch exS.sr) (by decide)
  exact ⟨h, s, ho, by decide, by decide, by decide, by decide, fun hc => absurd hc (by decide), fun hc => absurd hc (by decide)⟩

/-- … the record holds both runs, two crash points (after the update: 1 frame; after the auto-mode write: 3 frames), the
    36 closed bytes, a re-open line with 3 frames, and it is accepted by evaluation too -/
example : (recordOf exS).one.calls.length = 1 ∧ (recordOf exS).snaps.map (·.calls) = [1, 2] ∧
    (recordOf exS).snaps.map (·.info.frames) = [1, 3] ∧ (recordOf exS).one.bytes.size = 36 ∧
    (recordOf exS).info.frames = 3 ∧ (recordOf exS).rb.ret = 6 ∧ accepted (recordOf exS) = true := by decide +kernel

/-- a mono float WAV job (fact + PEAK chunks) written from shorts: the hypotheses hold (finite samples) -/
def exF : Sess :=
  { fmt := 0x010006, ch := 1, sr := 8000, ty := .s16,
    ops := [.auto true, .write ⟨.s16, true, 2, [16384, -8192]⟩, .write ⟨.s16, false, 1, [100]⟩] }

example : ∃ h s, exF.Ok h s := by
  obtain ⟨h, s, ho⟩ := OpenRes.exists_of_isOk (r := openHandle 0 {} .w exF.fmt exF.ch exF.sr) (by decide)
  have hh : h = (match openHandle 0 {} .w exF.fmt exF.ch exF.sr with | .ok h _ => h | _ => default) := by rw [ho]
  have hs : s = (match openHandle 0 {} .w exF.fmt exF.ch exF.sr with | .ok _ s => s | _ => default) := by rw [ho]
  refine ⟨h, s, ho, by decide, by decide, by decide, by decide, fun _ => ?_, fun _ => ?_⟩
  · rw [hh, hs]; decide +kernel
  · rw [hh]; unfold FiniteSamples; decide +kernel

/-- a record the model does NOT produce is refused: one byte of the split run's file changed -/
example : judge { recordOf exS with split := (recordOf exS).split.map (fun r => { r with bytes := r.bytes.set! 30 7 }) } =
    [{ tag := "partition", run := 2 }] := by decide +kernel

end Sf.C01Bridge
