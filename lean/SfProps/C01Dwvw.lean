-- properties: C01 C04 C06 C07
/-
  C01 / C06 / C07 for DWVW (src/dwvw.c), on the bit-level model of SfModel/Dwvw.lean, DwvwFile.lean.
  Property theorems only; helpers in SfProofs/Dwvw*.lean.

  * C07: the bytes of the data region depend only on the concatenated samples (`dwvw_partition…`).
  * the delta-width state stays inside [0, bit_width) (`dwvw_width_bounded`).
  * C01: decode ∘ encode is the identity on bit_width-bit samples, wrap-around deltas included (`dwvw_roundtrip…`),
    and the caller types short / int come back exactly under the side condition the statement gives.
  * C06: cutting a read into calls does not change what is delivered (`dwvw_read_split`, full strength since the repair
    of KF-DWVW-TAIL-CALL; the rule before the repair — SfModel/DwvwOld.lean — refutes it: `dwvw_read_split_old_rule`).
  * C04: the frame count `dwvw_init` computes at open is at least the frames written (`dwvw_scan_ge`), so an AIFF file
    (count capped by the COMM chunk) re-opens with exactly N frames (`dwvw_aiff_frames_exact`); a RAW file has no
    header and its count is an estimate F ≥ N whose first N frames are the ones written (`dwvw_raw_frames_partial`,
    the part of C04 that holds for the class of KF-RAW-DWVW-FRAMES; `dwvw_raw_frames_full_false`: F = N does not).
-/
import SfProofs.DwvwCalls
import SfProofs.DwvwDec
import SfProofs.DwvwState
import SfModel.DwvwFile
import SfModel.DwvwOld
namespace Sf.C01Dwvw
open Sf Sf.Dwvw Sf.Dwvw.Proofs

/-! ## C07: write partition -/

/-- the encoder after `xs ++ ys` is the encoder after `xs` continued with `ys`: nothing depends on where a call ends -/
theorem dwvw_partition (c : Cfg) (e : ESt) (xs ys : List Int) :
    encodeData c e (xs ++ ys) = encodeData c (encodeData c e xs) ys := by
  simp [encodeData, List.foldl_append]

/-- any number of write calls, then close: the bytes are those of one call with the concatenation -/
theorem dwvw_partition_file (c : Cfg) (parts : List (List Int)) :
    closeBytes c (parts.foldl (encodeData c) {}) = encodeAll c parts.flatten := by
  have key : ∀ (e : ESt), parts.foldl (encodeData c) e = encodeData c e parts.flatten := by
    induction parts with
    | nil => intro e; simp [encodeData]
    | cons p ps ih => intro e; simp [ih, dwvw_partition]
  simp [encodeAll, key]

/-- the same for the caller-type front ends (`dwvw_write_s/i/f/d`) -/
theorem dwvw_partition_caller (c : Cfg) (cv : Conv) (ty : Ty) (e : ESt) (a b : List Int) :
    writeCall c cv ty (writeCall c cv ty e a) b = writeCall c cv ty e (a ++ b) := by
  simp [writeCall, dwvw_partition]

example : closeBytes ⟨16⟩ ([[65536, -65536], [], [0x7FFF0000]].foldl (encodeData ⟨16⟩) {}) =
    encodeAll ⟨16⟩ [65536, -65536, 0x7FFF0000] := by decide

/-! ## the width state -/

/-- after any sequence of 32-bit caller values `last_delta_width` is in [0, bit_width) and `last_sample` is a
    bit_width-bit value -/
theorem dwvw_width_bounded (c : Cfg) (hw : c.ok) (xs : List Int) (hx : ∀ x ∈ xs, -2 ^ 31 ≤ x ∧ x < 2 ^ 31) :
    0 ≤ (encodeData c {} xs).ldw ∧ (encodeData c {} xs).ldw < c.w ∧
      -c.maxDelta ≤ (encodeData c {} xs).last ∧ (encodeData c {} xs).last < c.maxDelta := by
  have h := (encodeData_spec c {} xs).2
  have ok := endSt_ok c hw 0 0 xs ⟨⟨by omega, by have := (cfg_consts c hw).2.2.2.2.2.2.2; omega⟩,
    ⟨by have := (cfg_consts c hw).2.1; omega, by have := (cfg_consts c hw).2.1; omega⟩⟩ hx
  have e1 : (encodeData c {} xs).ldw = (endSt c 0 0 xs).1 := by
    have := congrArg Prod.fst h; simpa using this
  have e2 : (encodeData c {} xs).last = (endSt c 0 0 xs).2 := by
    have := congrArg Prod.snd h; simpa using this
  rw [e1, e2]
  exact ⟨ok.1.1, ok.1.2, ok.2.1, ok.2.2⟩

example : (encodeData ⟨12⟩ {} [0x7FF00000, -0x80000000]).ldw = 1 ∧ (encodeData ⟨12⟩ {} [0x7FF00000, -0x80000000]).last = -2048 := by decide

/-! ## C01: caller types -/

/-- a caller `int` whose low `32 - bit_width` bits are zero is what the decoder hands back for it -/
theorem dwvw_int_exact (c : Cfg) (q : Int) : asr (q * 2 ^ c.shift) c.shift * 2 ^ c.shift = q * 2 ^ c.shift :=
  quant_exact c.shift q

/-- a caller `short` goes in as `v << 16` and comes back as `>> 16`; with 16 or 24 bits nothing is lost, with 12 bits
    the low four bits must be zero -/
theorem dwvw_short_exact (c : Cfg) (hw : c.ok) (cv : Conv) (v : Int) (hv : -32768 ≤ v ∧ v ≤ 32767)
    (hlow : c.w = 12 → v % 16 = 0) :
    toCaller cv .s16 (asr (toCodec cv .s16 v) c.shift * 2 ^ c.shift) = v := by
  obtain ⟨w⟩ := c
  rcases hw with h | h | h <;> simp only at h <;> subst h <;>
  · simp only [toCaller, toCodec, Cfg.shift, asr, wrapS] at hlow ⊢
    norm_num at hlow ⊢
    omega

example : toCaller {} .s16 (asr (toCodec {} .s16 (-32768)) (Cfg.shift ⟨12⟩) * 2 ^ (Cfg.shift ⟨12⟩)) = -32768 := by decide

/-! ## C01: decode ∘ encode -/

/-- every sequence of 32-bit caller values written to a file (any bit width 12 / 16 / 24, whatever follows the data —
    the AIFF pad byte — in `extra`) and read back in one call of the same length comes back with exactly the low
    `32 - bit_width` bits cleared; all wrap-around cases of the delta arithmetic are inside.  No hypothesis on the file
    (before the repair of KF-DWVW-TAIL-CALL: `dwm_maxsize ≤ 8 · length`, see `dwvw_short_file_old_rule`). -/
theorem dwvw_roundtrip (c : Cfg) (hw : c.ok) (xs : List Int) (hx : ∀ x ∈ xs, -2 ^ 31 ≤ x ∧ x < 2 ^ 31)
    (extra : List Byte) :
    decodeAll c (encodeAll c xs ++ extra) xs.length = xs.map (fun p => asr p c.shift * 2 ^ c.shift) :=
  dwvw_roundtrip_core c hw xs hx extra

theorem caller_range (c : Cfg) (hw : c.ok) (qs : List Int) (hq : ∀ q ∈ qs, -c.maxDelta ≤ q ∧ q < c.maxDelta) :
    ∀ x ∈ qs.map (· * 2 ^ c.shift), -2 ^ 31 ≤ x ∧ x < 2 ^ 31 := by
  intro x hx
  obtain ⟨q, hq1, rfl⟩ := List.mem_map.mp hx
  have := hq q hq1
  obtain ⟨w⟩ := c
  rcases hw with h | h | h <;> simp only at h <;> subst h <;>
  · simp only [Cfg.maxDelta, Cfg.shift] at this ⊢
    norm_num at this ⊢
    omega

/-- bit_width-bit samples (`q · 2^(32 - w)`, the low bits zero as C01 asks) come back bit-identical -/
theorem dwvw_roundtrip_exact (c : Cfg) (hw : c.ok) (qs : List Int) (hq : ∀ q ∈ qs, -c.maxDelta ≤ q ∧ q < c.maxDelta)
    (extra : List Byte) :
    decodeAll c (encodeAll c (qs.map (· * 2 ^ c.shift)) ++ extra) qs.length = qs.map (· * 2 ^ c.shift) := by
  have := dwvw_roundtrip_core c hw (qs.map (· * 2 ^ c.shift)) (caller_range c hw qs hq) extra
  rw [List.length_map] at this
  rw [this, List.map_map]
  apply List.map_congr_left
  intro q _
  exact quant_exact c.shift q

/-- the closed file always holds at least one byte (the twelve flush samples alone are twelve bits) -/
theorem dwvw_file_nonempty (c : Cfg) (hw : c.ok) (xs : List Int) : 1 ≤ (encodeAll c xs).length := by
  obtain ⟨p, hp, hb⟩ := encodeAll_bits c xs
  have hF := codes_flush_length c hw (endSt c 0 0 xs).1 (endSt c 0 0 xs).2
  have := congrArg List.length hb
  simp only [List.length_append, bytesBits_length] at this
  omega

/-- the rule before the repair needed a hypothesis on the file: three zero samples make the one-byte 24-bit file FF, the
    very first look-ahead (12 bits) passes its end and NOTHING was read back; the current rule reads the three samples -/
theorem dwvw_short_file_old_rule : encodeAll ⟨24⟩ [0, 0, 0] = [255] ∧ (Old.decodeData ⟨24⟩ 3 (DSt.init [255])).2 = [] ∧
    decodeAll ⟨24⟩ [255] 3 = [0, 0, 0] := by decide +kernel

/-- full scale down, full scale up, and the two ±max_delta special cases, 16 bit -/
example : encodeAll ⟨16⟩ [0x7FFF0000, -0x80000000, 0, -0x80000000, 0x7FFF0000] = [127, 255, 132, 63, 255, 223, 255, 249, 79, 255, 249, 127] ∧
    decodeAll ⟨16⟩ [127, 255, 132, 63, 255, 223, 255, 249, 79, 255, 249, 127] 5 = [0x7FFF0000, -0x80000000, 0, -0x80000000, 0x7FFF0000] := by
  decide +kernel

/-! ## C06: read partition -/

/-- the statement for a decoder `dec` (one call: state, delivered samples): cutting a read of `a + b` samples into a read
    of `a` (delivered completely) and a read of `b` delivers the same samples -/
def readSplitFull (dec : Cfg → Nat → DSt → DSt × List Int) : Prop :=
  ∀ (c : Cfg) (d : DSt) (a b : Nat), c.ok → (dec c a d).2.length = a →
    (dec c (a + b) d).2 = (dec c a d).2 ++ (dec c b (dec c a d).1).2

/-- **dwvw_read_split (C06, full strength)**: in EVERY decoder state, a call of `a + b` cells whose first `a` are
    delivered is the call of `a` cells followed by the call of `b` cells -/
theorem dwvw_read_split (c : Cfg) (d : DSt) (a b : Nat) (h : (decodeData c a d).2.length = a) :
    (decodeData c (a + b) d).2 = (decodeData c a d).2 ++ (decodeData c b (decodeData c a d).1).2 := by
  unfold decodeData at h ⊢
  rw [decLoop_add c a b d, if_pos h]

/-- not vacuous: in the two-byte file the first five samples are delivered, and 5 + 1 is the read of six -/
example : (decodeData ⟨24⟩ 5 (DSt.init [255, 255])).2.length = 5 ∧
    (decodeData ⟨24⟩ (5 + 1) (DSt.init [255, 255])).2 = [0, 0, 0, 0, 0, 0] := by decide +kernel

theorem dwvw_read_split_full_holds : readSplitFull decodeData := fun c d a b _ h => dwvw_read_split c d a b h

/-- six zero samples in a 24-bit file are the two bytes FF FF -/
theorem dwvw_tail_witness_bytes : encodeAll ⟨24⟩ [0, 0, 0, 0, 0, 0] = [255, 255] := by decide +kernel

/-- the rule before the repair of KF-DWVW-TAIL-CALL: one read of six delivered six; five and then one delivered five and
    then NOTHING (the second call started in `tailStart`); the current rule delivers the sixth -/
theorem dwvw_read_split_old_rule :
    (Old.decodeData ⟨24⟩ 6 (DSt.init [255, 255])).2 = [0, 0, 0, 0, 0, 0] ∧
    (Old.decodeData ⟨24⟩ 5 (DSt.init [255, 255])).2 = [0, 0, 0, 0, 0] ∧
    (Old.decodeData ⟨24⟩ 1 (Old.decodeData ⟨24⟩ 5 (DSt.init [255, 255])).1).2 = [] ∧
    tailStart ⟨24⟩ (Old.decodeData ⟨24⟩ 5 (DSt.init [255, 255])).1 ∧
    decodeCalls ⟨24⟩ (DSt.init [255, 255]) [5, 1] = [[0, 0, 0, 0, 0], [0]] := by
  decide +kernel

theorem dwvw_read_split_full_old_rule_fails : ¬ readSplitFull Old.decodeData := by
  intro h
  have := h ⟨24⟩ (DSt.init [255, 255]) 5 1 (by unfold Cfg.ok; decide) (by decide +kernel)
  revert this
  decide +kernel

/-- any number of calls, none but the last cut short: the pieces are the single read -/
theorem dwvw_read_calls (c : Cfg) (d : DSt) (ns : List Nat) (h : fullCalls c d ns) :
    (decodeCalls c d ns).flatten = (decodeData c ns.sum d).2 := decodeCalls_flatten c d ns h

example : fullCalls ⟨24⟩ (DSt.init [255, 255]) [3, 2, 1] ∧ (decodeCalls ⟨24⟩ (DSt.init [255, 255]) [3, 2, 1]).flatten = [0, 0, 0, 0, 0, 0] :=
  ⟨⟨Or.inr (by decide +kernel), Or.inr (by decide +kernel), Or.inl rfl, trivial⟩, by decide +kernel⟩

/-- a prefix of a request that is delivered completely is delivered completely -/
theorem dwvw_prefix_delivered (c : Cfg) (d : DSt) (a b : Nat) (h : (decodeData c (a + b) d).2.length = a + b) :
    (decodeData c a d).2.length = a := decLoop_prefix_full c a b d h

/-! ## C04: the frame count at open -/

theorem frameScan_mono (c : Cfg) (fuel : Nat) (d : DSt) (t : Nat) : t ≤ frameScan c fuel d t := by
  induction fuel generalizing d t with
  | zero => simp [frameScan]
  | succ f ih =>
    simp only [frameScan]
    split
    · exact Nat.le_refl _
    · exact Nat.le_trans (Nat.le_add_right _ _) (ih _ _)

/-- `psf_decode_frame_count` counts at least every sample one call would deliver -/
theorem frameScan_ge (c : Cfg) (fuel : Nat) (d : DSt) (t N : Nat) (h : (decodeData c N d).2.length = N)
    (hf : N ≤ chunkLen * fuel) : t + N ≤ frameScan c fuel d t := by
  induction fuel generalizing d t N with
  | zero => simp at hf; subst hf; simp [frameScan]
  | succ f ih =>
    simp only [frameScan]
    by_cases hN : N ≤ chunkLen
    · have hlen : N ≤ (decodeData c chunkLen d).2.length := by
        have e : chunkLen = N + (chunkLen - N) := by omega
        rw [e, dwvw_read_split c d N (chunkLen - N) h, List.length_append, h]; omega
      split
      · omega
      · exact Nat.le_trans (by omega) (frameScan_mono c f _ _)
    · have e : N = chunkLen + (N - chunkLen) := by omega
      have h1 : (decodeData c chunkLen d).2.length = chunkLen := by
        rw [e] at h; exact dwvw_prefix_delivered c d chunkLen (N - chunkLen) h
      have h2 : (decodeData c (N - chunkLen) (decodeData c chunkLen d).1).2.length = N - chunkLen := by
        have := h
        rw [e, dwvw_read_split c d chunkLen (N - chunkLen) h1, List.length_append, h1] at this
        omega
      have hc : chunkLen = 2048 := rfl
      rw [if_neg (by rw [h1, hc]; decide)]
      have := ih (decodeData c chunkLen d).1 (t + (decodeData c chunkLen d).2.length) (N - chunkLen) h2
        (by rw [Nat.mul_succ] at hf; omega)
      rw [h1] at this ⊢
      omega

/-- a written file holds at least one bit per sample -/
theorem dwvw_samples_le_bits (c : Cfg) (hw : c.ok) (xs : List Int) : xs.length ≤ 8 * (encodeAll c xs).length + 7 := by
  obtain ⟨p, hp, hb⟩ := encodeAll_bits c xs
  have h1 := codes_length_ge c hw 0 0 xs
  have := congrArg List.length hb
  simp only [List.length_append, bytesBits_length] at this
  omega

/-- **dwvw_scan_ge**: the frame count `dwvw_init` computes by decoding the file 2048 samples at a time is at least the
    number of frames written — whatever their number and whatever follows the data (before the repair of
    KF-DWVW-TAIL-CALL it could be that number rounded DOWN to a multiple of 2048: `dwvw_scan_old_rule`) -/
theorem dwvw_scan_ge (c : Cfg) (hw : c.ok) (xs : List Int) (hx : ∀ x ∈ xs, -2 ^ 31 ≤ x ∧ x < 2 ^ 31) (extra : List Byte) :
    xs.length ≤ frameScan c ((encodeAll c xs ++ extra).length * 8 + 2) (DSt.init (encodeAll c xs ++ extra)) 0 := by
  have h := dwvw_roundtrip_core c hw xs hx extra
  have hl : (decodeData c xs.length (DSt.init (encodeAll c xs ++ extra))).2.length = xs.length := by
    unfold decodeAll at h; rw [h, List.length_map]
  have hb := dwvw_samples_le_bits c hw xs
  have := frameScan_ge c ((encodeAll c xs ++ extra).length * 8 + 2) (DSt.init (encodeAll c xs ++ extra)) 0 xs.length hl
    (by simp only [chunkLen, List.length_append]; omega)
  omega

/-- **dwvw_aiff_frames_exact (C04, AIFF)**: the COMM chunk holds the frames written and caps the decoded count, so the
    re-opened file reports exactly N frames -/
theorem dwvw_aiff_frames_exact (c : Cfg) (hw : c.ok) (xs : List Int) (hx : ∀ x ∈ xs, -2 ^ 31 ≤ x ∧ x < 2 ^ 31) (extra : List Byte) :
    framesAtOpen c (encodeAll c xs ++ extra) (some xs.length) = xs.length := by
  have := dwvw_scan_ge c hw xs hx extra
  unfold framesAtOpen
  simp only
  split <;> omega

/-- **dwvw_raw_frames_partial (C04, RAW — what holds in the class of KF-RAW-DWVW-FRAMES)**: a headerless file re-opens
    with an ESTIMATE `F ≥ N`, and reading its first N frames in one call delivers the frames written -/
theorem dwvw_raw_frames_partial (c : Cfg) (hw : c.ok) (xs : List Int) (hx : ∀ x ∈ xs, -2 ^ 31 ≤ x ∧ x < 2 ^ 31) :
    xs.length ≤ framesAtOpen c (encodeAll c xs) none ∧
    decodeAll c (encodeAll c xs) xs.length = xs.map (fun p => asr p c.shift * 2 ^ c.shift) := by
  have h1 := dwvw_scan_ge c hw xs hx []
  have h2 := dwvw_roundtrip_core c hw xs hx []
  simp only [List.append_nil] at h1 h2
  exact ⟨by unfold framesAtOpen; exact h1, h2⟩

/-- C04 at full strength for RAW/DWVW (`F = N`) … -/
def dwvw_raw_frames_full : Prop :=
  ∀ (c : Cfg), c.ok → ∀ xs : List Int, (∀ x ∈ xs, -2 ^ 31 ≤ x ∧ x < 2 ^ 31) → framesAtOpen c (encodeAll c xs) none = xs.length

/-- … is false and not repairable in the codec: one 16-bit sample (the short 256) re-opens as six (the flush samples `dwvw_close` appends
    are indistinguishable from audio without a header; findings/kf_raw_dwvw_frames.txt) -/
theorem dwvw_raw_frames_full_false : ¬ dwvw_raw_frames_full := by
  intro h
  have := h ⟨16⟩ (by unfold Cfg.ok; decide) [16777216] (by decide)
  revert this
  decide +kernel

example : framesAtOpen ⟨16⟩ (encodeAll ⟨16⟩ [16777216]) none = 6 ∧ framesAtOpen ⟨16⟩ (encodeAll ⟨16⟩ [16777216] ++ [0]) (some 1) = 1 := by decide +kernel

end Sf.C01Dwvw
