-- properties: C01 C06 C07
/-
  C01 / C06 / C07 for DWVW (src/dwvw.c), on the bit-level model of SfModel/Dwvw.lean, DwvwFile.lean.
  Property theorems only; helpers in SfProofs/Dwvw*.lean.

  * C07: the bytes of the data region depend only on the concatenated samples (`dwvw_partition…`).
  * the delta-width state stays inside [0, bit_width) (`dwvw_width_bounded`).
  * C01: decode ∘ encode is the identity on bit_width-bit samples, wrap-around deltas included (`dwvw_roundtrip…`),
    and the caller types short / int come back exactly under the side condition the statement gives.
  * C06: the decoded stream does NOT depend only on the frame index — a call that starts in the tail of the file
    delivers nothing (known finding KF-DWVW-TAIL-CALL): full statement, proved witness, and the partial theorem whose
    excluded class is exactly `tailStart`.
-/
import SfProofs.DwvwCalls
import SfProofs.DwvwDec
import SfProofs.DwvwState
import SfModel.DwvwFile
namespace Sf.C01Dwvw
open Sf Sf.Dwvw Sf.Dwvw.Proofs

/-! ## C07: write partition -/

/-- the encoder after `xs ++ ys` is the encoder after `xs` continued with `ys`: nothing depends on where a call ends -/
theorem dwvw_partition (c : Cfg) (e : ESt) (xs ys : List Int) :
    encodeData c e (xs ++ ys) = encodeData c (encodeData c e xs) ys := by
  simp [encodeData, List.foldl_append]

/-- any number of write calls, then close: the bytes are those of one call with the concatenation -/
theorem dwvw_partition_file (c : Cfg) (parts : List (List Int)) :
    closeBytes c (parts.foldl (encodeData c) {}) = encodeAll c parts.flatten := by
  have key : ∀ (e : ESt), parts.foldl (encodeData c) e = encodeData c e parts.flatten := by
    induction parts with
    | nil => intro e; simp [encodeData]
    | cons p ps ih => intro e; simp [ih, dwvw_partition]
  simp [encodeAll, key]

/-- the same for the caller-type front ends (`dwvw_write_s/i/f/d`) -/
theorem dwvw_partition_caller (c : Cfg) (cv : Conv) (ty : Ty) (e : ESt) (a b : List Int) :
    writeCall c cv ty (writeCall c cv ty e a) b = writeCall c cv ty e (a ++ b) := by
  simp [writeCall, dwvw_partition]

example : closeBytes ⟨16⟩ ([[65536, -65536], [], [0x7FFF0000]].foldl (encodeData ⟨16⟩) {}) =
    encodeAll ⟨16⟩ [65536, -65536, 0x7FFF0000] := by decide

/-! ## the width state -/

/-- after any sequence of 32-bit caller values `last_delta_width` is in [0, bit_width) and `last_sample` is a
    bit_width-bit value -/
theorem dwvw_width_bounded (c : Cfg) (hw : c.ok) (xs : List Int) (hx : ∀ x ∈ xs, -2 ^ 31 ≤ x ∧ x < 2 ^ 31) :
    0 ≤ (encodeData c {} xs).ldw ∧ (encodeData c {} xs).ldw < c.w ∧
      -c.maxDelta ≤ (encodeData c {} xs).last ∧ (encodeData c {} xs).last < c.maxDelta := by
  have h := (encodeData_spec c {} xs).2
  have ok := endSt_ok c hw 0 0 xs ⟨⟨by omega, by have := (cfg_consts c hw).2.2.2.2.2.2.2; omega⟩,
    ⟨by have := (cfg_consts c hw).2.1; omega, by have := (cfg_consts c hw).2.1; omega⟩⟩ hx
  have e1 : (encodeData c {} xs).ldw = (endSt c 0 0 xs).1 := by
    have := congrArg Prod.fst h; simpa using this
  have e2 : (encodeData c {} xs).last = (endSt c 0 0 xs).2 := by
    have := congrArg Prod.snd h; simpa using this
  rw [e1, e2]
  exact ⟨ok.1.1, ok.1.2, ok.2.1, ok.2.2⟩

example : (encodeData ⟨12⟩ {} [0x7FF00000, -0x80000000]).ldw = 1 ∧ (encodeData ⟨12⟩ {} [0x7FF00000, -0x80000000]).last = -2048 := by decide

/-! ## C01: caller types -/

/-- a caller `int` whose low `32 - bit_width` bits are zero is what the decoder hands back for it -/
theorem dwvw_int_exact (c : Cfg) (q : Int) : asr (q * 2 ^ c.shift) c.shift * 2 ^ c.shift = q * 2 ^ c.shift :=
  quant_exact c.shift q

/-- a caller `short` goes in as `v << 16` and comes back as `>> 16`; with 16 or 24 bits nothing is lost, with 12 bits
    the low four bits must be zero -/
theorem dwvw_short_exact (c : Cfg) (hw : c.ok) (cv : Conv) (v : Int) (hv : -32768 ≤ v ∧ v ≤ 32767)
    (hlow : c.w = 12 → v % 16 = 0) :
    toCaller cv .s16 (asr (toCodec cv .s16 v) c.shift * 2 ^ c.shift) = v := by
  obtain ⟨w⟩ := c
  rcases hw with h | h | h <;> simp only at h <;> subst h <;>
  · simp only [toCaller, toCodec, Cfg.shift, asr, wrapS] at hlow ⊢
    norm_num at hlow ⊢
    omega

example : toCaller {} .s16 (asr (toCodec {} .s16 (-32768)) (Cfg.shift ⟨12⟩) * 2 ^ (Cfg.shift ⟨12⟩)) = -32768 := by decide

/-! ## C01: decode ∘ encode -/

/-- every sequence of 32-bit caller values written to a file (any bit width 12 / 16 / 24, whatever follows the data —
    the AIFF pad byte — in `extra`) and read back in one call of the same length comes back with exactly the low
    `32 - bit_width` bits cleared; all wrap-around cases of the delta arithmetic are inside.  The one hypothesis on
    the file, `dwm_maxsize ≤ 8 · length`, excludes files so short that the very first look-ahead passes the end (24 bit:
    a single byte — the KF-DWVW-TAIL-CALL class at the first call). -/
theorem dwvw_roundtrip (c : Cfg) (hw : c.ok) (xs : List Int) (hx : ∀ x ∈ xs, -2 ^ 31 ≤ x ∧ x < 2 ^ 31)
    (extra : List Byte) (hfile : c.dwmMax ≤ 8 * (encodeAll c xs ++ extra).length) :
    decodeAll c (encodeAll c xs ++ extra) xs.length = xs.map (fun p => asr p c.shift * 2 ^ c.shift) :=
  dwvw_roundtrip_core c hw xs hx extra hfile

/-- bit_width-bit samples (`q · 2^(32 - w)`, the low bits zero as C01 asks) come back bit-identical -/
theorem dwvw_roundtrip_exact (c : Cfg) (hw : c.ok) (qs : List Int) (hq : ∀ q ∈ qs, -c.maxDelta ≤ q ∧ q < c.maxDelta)
    (extra : List Byte) (hfile : c.dwmMax ≤ 8 * (encodeAll c (qs.map (· * 2 ^ c.shift)) ++ extra).length) :
    decodeAll c (encodeAll c (qs.map (· * 2 ^ c.shift)) ++ extra) qs.length = qs.map (· * 2 ^ c.shift) := by
  have hx : ∀ x ∈ qs.map (· * 2 ^ c.shift), -2 ^ 31 ≤ x ∧ x < 2 ^ 31 := by
    intro x hx
    obtain ⟨q, hq1, rfl⟩ := List.mem_map.mp hx
    have := hq q hq1
    obtain ⟨w⟩ := c
    rcases hw with h | h | h <;> simp only at h <;> subst h <;>
    · simp only [Cfg.maxDelta, Cfg.shift] at this ⊢
      norm_num at this ⊢
      omega
  have := dwvw_roundtrip_core c hw (qs.map (· * 2 ^ c.shift)) hx extra hfile
  rw [List.length_map] at this
  rw [this, List.map_map]
  apply List.map_congr_left
  intro q _
  exact quant_exact c.shift q

/-- the closed file always holds at least one byte (the twelve flush samples alone are twelve bits) -/
theorem dwvw_file_nonempty (c : Cfg) (hw : c.ok) (xs : List Int) : 1 ≤ (encodeAll c xs).length := by
  obtain ⟨p, hp, hb⟩ := encodeAll_bits c xs
  have hF := codes_flush_length c hw (endSt c 0 0 xs).1 (endSt c 0 0 xs).2
  have := congrArg List.length hb
  simp only [List.length_append, bytesBits_length] at this
  omega

/-- 12 and 16 bit: every file is long enough for the first look-ahead, so the round trip is unconditional -/
theorem dwvw_roundtrip_12_16 (c : Cfg) (hw : c.w = 12 ∨ c.w = 16) (xs : List Int)
    (hx : ∀ x ∈ xs, -2 ^ 31 ≤ x ∧ x < 2 ^ 31) :
    decodeAll c (encodeAll c xs) xs.length = xs.map (fun p => asr p c.shift * 2 ^ c.shift) := by
  have ok : c.ok := by rcases hw with h | h <;> simp [Cfg.ok, h]
  have hlen := dwvw_file_nonempty c ok xs
  have := dwvw_roundtrip_core c ok xs hx [] (by
    have : c.dwmMax ≤ 8 := by rcases hw with h | h <;> simp [Cfg.dwmMax, h]
    simp only [List.append_nil]; omega)
  simpa using this

/-- 24 bit really needs the hypothesis: three zero samples make the one-byte file FF, and nothing is read back -/
theorem dwvw_short_file_witness : encodeAll ⟨24⟩ [0, 0, 0] = [255] ∧ decodeAll ⟨24⟩ [255] 3 = [] := by decide +kernel

/-- full scale down, full scale up, and the two ±max_delta special cases, 16 bit -/
example : encodeAll ⟨16⟩ [0x7FFF0000, -0x80000000, 0, -0x80000000, 0x7FFF0000] = [127, 255, 132, 63, 255, 223, 255, 249, 79, 255, 249, 127] ∧
    decodeAll ⟨16⟩ [127, 255, 132, 63, 255, 223, 255, 249, 79, 255, 249, 127] 5 = [0x7FFF0000, -0x80000000, 0, -0x80000000, 0x7FFF0000] := by
  decide +kernel

/-! ## C06: read partition — known finding KF-DWVW-TAIL-CALL -/

/-- the full statement: cutting a read of `a + b` samples into a read of `a` (delivered completely) and a read of `b`
    delivers the same samples -/
def dwvw_read_split_full : Prop :=
  ∀ (c : Cfg) (d : DSt) (a b : Nat), c.ok → (decodeData c a d).2.length = a →
    (decodeData c (a + b) d).2 = (decodeData c a d).2 ++ (decodeData c b (decodeData c a d).1).2

/-- six zero samples in a 24-bit file are the two bytes FF FF -/
theorem dwvw_tail_witness_bytes : encodeAll ⟨24⟩ [0, 0, 0, 0, 0, 0] = [255, 255] := by decide +kernel

/-- witness: one read of six delivers six; five and then one delivers five and then nothing -/
theorem dwvw_tail_call_witness :
    decodeAll ⟨24⟩ [255, 255] 6 = [0, 0, 0, 0, 0, 0] ∧ decodeCalls ⟨24⟩ (DSt.init [255, 255]) [5, 1] = [[0, 0, 0, 0, 0], []] := by
  decide

theorem dwvw_read_split_fails : ¬ dwvw_read_split_full := by
  intro h
  have := h ⟨24⟩ (DSt.init [255, 255]) 5 1 (by unfold Cfg.ok; decide) (by decide)
  revert this
  decide

/-- what holds: for calls none of which is cut short and none of which starts after the look-ahead has passed the end of
    the file (`tailStart`, exactly the class of KF-DWVW-TAIL-CALL) the pieces are the single read -/
theorem dwvw_read_split_partial (c : Cfg) (d : DSt) (ns : List Nat) (h : safeCalls c d ns) :
    (decodeCalls c d ns).flatten = (decodeData c ns.sum d).2 := decodeCalls_flatten c d ns h

/-- two calls -/
theorem dwvw_read_split_two (c : Cfg) (d : DSt) (a b : Nat) (h1 : (decodeData c a d).2.length = a)
    (h2 : ¬ tailStart c (decodeData c a d).1) (h3 : (decodeData c b (decodeData c a d).1).2.length = b) :
    (decodeData c (a + b) d).2 = (decodeData c a d).2 ++ (decodeData c b (decodeData c a d).1).2 := by
  have := decodeCalls_flatten c d [a, b] ⟨h1, Or.inr h2, h3, Or.inl rfl, trivial⟩
  simpa [decodeCalls] using this.symm

/-- not vacuous: the six-sample file read as 3 + 2 is safe and gives the first five samples -/
example : safeCalls ⟨24⟩ (DSt.init [255, 255]) [3, 2] ∧ (decodeCalls ⟨24⟩ (DSt.init [255, 255]) [3, 2]).flatten = [0, 0, 0, 0, 0] :=
  ⟨⟨by decide, Or.inr (by decide), by decide, Or.inl rfl, trivial⟩, by decide⟩

/-- the class is met in the witness: after five samples the next call starts in the tail -/
example : tailStart ⟨24⟩ (decodeData ⟨24⟩ 5 (DSt.init [255, 255])).1 := by decide

end Sf.C01Dwvw
