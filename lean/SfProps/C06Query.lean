/-
  C05 / C06 / C08 — interleaved non-audio calls do not move the audio position: what the query clause of the abstract model
  (SfModel/AbsQuery.lean) means for an accepted transcript.  Property theorems only.
-- properties: C05 C06 C08
-/
import SfModel.AbsQuery
import SfProofs.AbsRun
namespace Sf.C06Query
open Sf Sf.Abs Sf.AbsQ

/-- the query clause is what `Sf.Abs.check` applies to a query line -/
theorem check_query (g : Geom) (st : St) (o : Out) : check g st .other o = queryOk st o := rfl

/-- a query line in front of a transcript changes nothing about its acceptance nor about the state it ends in -/
theorem accepts_cons_query (g : Geom) (st : St) (o : Out) (tr : List (Op × Out)) :
    accepts g st ((.other, o) :: tr) = accepts g st tr := rfl

theorem stripQ_query (o : Out) (tr : List (Op × Out)) : stripQ ((.other, o) :: tr) = stripQ tr := by
  simp [stripQ, isQuery]

theorem stripQ_keep (op : Op) (o : Out) (tr : List (Op × Out)) (h : isQuery op = false) :
    stripQ ((op, o) :: tr) = (op, o) :: stripQ tr := by
  simp [stripQ, h]

/-- FULL STRENGTH: a transcript is accepted exactly when the transcript WITHOUT its query lines is, with the same final state
    (frames, read position, write position, streams): wherever queries are put between reads, writes and seeks, and whatever
    they answer, every audio call is judged as if they had not been made -/
theorem accepts_strip_queries (g : Geom) : ∀ (tr : List (Op × Out)) (st : St), accepts g st tr = accepts g st (stripQ tr) := by
  intro tr
  induction tr with
  | nil => intro st; rfl
  | cons l tr ih =>
    intro st
    obtain ⟨op, o⟩ := l
    by_cases hq : isQuery op = true
    · have hop : op = .other := by cases op <;> simp_all [isQuery]
      subst hop
      rw [stripQ_query, accepts_cons_query]
      exact ih st
    · rw [stripQ_keep op o tr (by simpa using hq)]
      simp only [accepts]
      cases check g st op o <;> simp [ih]

/-- the verdict `ok` of THE PREDICATE does not depend on the query lines -/
theorem holds_iff_stripped (g : Geom) (st : St) (tr : List (Op × Out)) :
    (∃ n, holdsFrom g 0 st tr = .ok n) ↔ (∃ n, holdsFrom g 0 st (stripQ tr) = .ok n) := by
  constructor
  · intro ⟨n, h⟩
    obtain ⟨⟨st', hs⟩, _⟩ := (holdsFrom_ok_iff g tr 0 st n).mp h
    exact ⟨0 + (stripQ tr).length, (holdsFrom_ok_iff g _ 0 st _).mpr ⟨⟨st', by rw [← accepts_strip_queries]; exact hs⟩, rfl⟩⟩
  · intro ⟨n, h⟩
    obtain ⟨⟨st', hs⟩, _⟩ := (holdsFrom_ok_iff g _ 0 st n).mp h
    exact ⟨0 + tr.length, (holdsFrom_ok_iff g tr 0 st _).mpr ⟨⟨st', by rw [accepts_strip_queries]; exact hs⟩, rfl⟩⟩

/-- C06 with queries: ANY accepted history of a read handle that consists of valid reads of type `ty` (any partition, items or
    frames calls) with ANY queries in between delivered, concatenated, exactly the slice `[rpos·cpf, rpos'·cpf)` of the reference
    stream — the queries moved nothing -/
theorem reads_with_queries_concat (g : Geom) (ty : Ty) (tr : List (Op × Out)) (rds : List RdLine) (st st' : St)
    (hq : stripQ tr = rdTr ty rds) (hv : ∀ r ∈ rds, validReq g r.1 r.2.1 = true)
    (hm : st.mode = .r) (hval : st.valid ty = true) (hle : st.rpos ≤ st.frames) (h : accepts g st tr = some st') :
    deliveredAll g ty rds = (st.ref ty).extract (st.rpos * g.cpf ty) (st'.rpos * g.cpf ty) ∧ st'.frames = st.frames := by
  rw [accepts_strip_queries, hq] at h
  obtain ⟨a, _, _, b, _⟩ := reads_concat g ty rds st st' hv hm hval hle h
  exact ⟨a, b⟩

/-- the pattern of the campaign: read, query, read (no seek) — the second read continues where the first one stopped -/
theorem read_query_read (g : Geom) (ty : Ty) (r1 r2 : RdLine) (oq : Out) (st st' : St)
    (hv1 : validReq g r1.1 r1.2.1 = true) (hv2 : validReq g r2.1 r2.2.1 = true)
    (hm : st.mode = .r) (hval : st.valid ty = true) (hle : st.rpos ≤ st.frames)
    (h : accepts g st [(.read ty r1.1 r1.2.1, r1.2.2), (.other, oq), (.read ty r2.1 r2.2.1, r2.2.2)] = some st') :
    delivered g ty r1 ++ delivered g ty r2 = (st.ref ty).extract (st.rpos * g.cpf ty) (st'.rpos * g.cpf ty) := by
  have := (reads_with_queries_concat g ty _ [r1, r2] st st' (by simp [stripQ, isQuery, rdTr])
    (by intro r hr; simp at hr; rcases hr with rfl | rfl <;> assumption) hm hval hle h).1
  simpa [deliveredAll] using this

/-! ## the descriptor under sf_get_chunk_data -/

/-- FULL STRENGTH: `*_get_chunk_data` as written leaves the descriptor where it found it — for every chunk offset, every chunk
    length and every caller `datalen`, zero included -/
theorem get_chunk_data_restores_position (fd : Fd) (off len datalen : Nat) :
    (runAll fd (getChunkData off len datalen)).pos = fd.pos := by
  simp [runAll, getChunkData, Io.run]

/-- the early-return variant leaves the descriptor AT THE CHUNK whenever nothing is copied (empty chunk or `datalen = 0`) … -/
theorem early_return_moves_position (fd : Fd) (off len datalen : Nat) (h0 : min datalen len = 0) :
    (runAll fd (getChunkDataEarlyReturn off len datalen)).pos = off := by
  simp [runAll, getChunkDataEarlyReturn, h0, Io.run]

/-- … and is indistinguishable from the code as written on every non-empty transfer: only the zero-length query shows it -/
theorem early_return_same_when_nonempty (fd : Fd) (off len datalen : Nat) (h0 : min datalen len ≠ 0) :
    runAll fd (getChunkDataEarlyReturn off len datalen) = runAll fd (getChunkData off len datalen) := by
  simp [getChunkDataEarlyReturn, h0]

/-! ## non-vacuity -/

def exG : Geom := { ch := 1, frames0 := 6, mode0 := .r }
def exRef : Ty → Array Item := fun _ => #[10, 11, 12, 13, 14, 15]

/-- read 2, a chunk query, read 2, a metadata query, a position probe, read to the end: accepted -/
def exTr : List (Op × Out) :=
  [(.read .s16 true 2, { ret := 2, data := #[10, 11] }), (.other, { ret := 0 }),
   (.read .s16 false 2, { ret := 2, data := #[12, 13] }), (.other, { ret := -7, err := true }),
   (.seek 0 1, { ret := 4 }), (.read .s16 true 3, { ret := 2, data := #[14, 15, 0xA5A5] })]

example : holdsOn exG exRef (fun _ => true) exTr = .ok 6 := by decide +kernel
example : holdsOn exG exRef (fun _ => true) (stripQ exTr) = .ok 4 := by decide +kernel
/-- the seeded behaviour: after the query the read delivers other bytes (position probe still says 2) — refused, clause `data` -/
example : holdsOn exG exRef (fun _ => true)
    [(.read .s16 true 2, { ret := 2, data := #[10, 11] }), (.other, { ret := 0 }), (.seek 0 1, { ret := 2 }),
     (.read .s16 true 2, { ret := 2, data := #[99, 98] })] = .bad 3 "data" := by decide +kernel
example : (runAll ⟨4096, 0⟩ (getChunkData 60 0 16)).pos = 4096 ∧ (runAll ⟨4096, 0⟩ (getChunkDataEarlyReturn 60 0 16)).pos = 60 ∧
    (runAll ⟨4096, 0⟩ (getChunkDataEarlyReturn 60 8 16)).pos = 4096 := by decide
example : validReq exG true 2 = true ∧ (stripQ exTr).length = 4 := by decide

end Sf.C06Query
