/-
  C12 — "only the documented normalisations apply (… CR/LF line ends …)": what `psf_strlcpy_crlf` (src/common.c; model
  `Sf.Meta.crlfGo`, used for the bext coding history and the cart tag text) does to a text, stated against an
  INDEPENDENT description of the line structure.

  `toks` reads a text as a sequence of tokens — an ordinary byte, or a LINE END, which is one of CR LF, LF CR, a bare
  CR, a bare LF (a pair is taken only when its second half is the OTHER character: LF LF and CR CR are two line ends
  with an empty line between them).  `render` writes every line end as CR LF.

    * `crlf_canonical`        with room for the whole text the output is `render (toks src)`: every line end became CR LF,
                              nothing else changed;
    * `crlf_keeps_lines`      the token sequence of the output is the token sequence of the input: every line — empty
                              lines included — and every line end is still there, in order;
    * `crlf_eol_count`        in particular the number of line ends is unchanged;
    * `crlf_idempotent`       normalising a normalised text changes nothing;
    * `crlf_truncates_at_token`  when the destination is too small the output is the rendering of a PREFIX of the
                              tokens: a CR LF pair is never cut in the middle (the `destmax - 2` of the C code);
    * `collapse_rule_loses_empty_line`  the rule "the byte after a CR or LF is the second half of the pair when it is a
                              CR or LF" (seed C12-crlf-empty-line-collapse) is not the normalisation: it drops empty lines.

  Campaign side: vlib/props/c12.py `crlf_scripts` (empty lines, runs of line ends of every kind and mix, leading /
  trailing line ends, texts that fill the 16 KiB field up to the middle of a pair).
-/
import SfModel.Meta
namespace Sf.C12Crlf
open Sf Sf.Meta

/-- a text as tokens: `none` = a line end, `some a` = an ordinary byte -/
def toks : List Byte → List (Option Byte)
  | [] => []
  | [a] => if a = 13 ∨ a = 10 then [none] else [some a]
  | a :: b :: r =>
    if (a = 13 ∧ b = 10) ∨ (a = 10 ∧ b = 13) then none :: toks r
    else if a = 13 ∨ a = 10 then none :: toks (b :: r)
    else some a :: toks (b :: r)

/-- tokens as text, every line end written CR LF -/
def render : List (Option Byte) → List Byte
  | [] => []
  | none :: t => 13 :: 10 :: render t
  | some a :: t => a :: render t

/-- no CR / LF among the ordinary bytes -/
def Clean (ts : List (Option Byte)) : Prop := ∀ a, some a ∈ ts → a ≠ 13 ∧ a ≠ 10

theorem crlfGo_nil (room : Nat) (skip : Option Byte) : crlfGo room skip [] = [] := by simp [crlfGo]

/-- the `skip` state: the second half of a pair is dropped when it comes next -/
theorem crlfGo_some (room : Nat) (s a : Byte) (rest : List Byte) :
    crlfGo room (some s) (a :: rest) = if a = s then crlfGo room none rest else crlfGo room none (a :: rest) := by
  by_cases h : a = s
  · subst h; simp [crlfGo]
  · have h' : ¬ (some s = some a) := fun e => h (Option.some.inj e).symm
    simp only [crlfGo, h', if_false, h]
    simp

theorem crlfGo_none (room : Nat) (a : Byte) (rest : List Byte) :
    crlfGo room none (a :: rest) =
      if room = 0 then []
      else if a = 13 then 13 :: 10 :: crlfGo (room - 2) (some 10) rest
      else if a = 10 then 13 :: 10 :: crlfGo (room - 2) (some 13) rest
      else a :: crlfGo (room - 1) none rest := by
  simp [crlfGo]

theorem render_take_succ_none (ts : List (Option Byte)) (k : Nat) :
    render ((none :: ts).take (k + 1)) = 13 :: 10 :: render (ts.take k) := by simp [render]

theorem render_take_succ_some (a : Byte) (ts : List (Option Byte)) (k : Nat) :
    render ((some a :: ts).take (k + 1)) = a :: render (ts.take k) := by simp [render]

/-- the skeleton: truncated output = rendering of a token prefix; with room for everything = the whole rendering -/
theorem crlfGo_toks (src : List Byte) : ∀ room,
    (∃ k, crlfGo room none src = render ((toks src).take k)) ∧
    (2 * src.length ≤ room → crlfGo room none src = render (toks src)) := by
  induction src using toks.induct with
  | case1 => intro room; exact ⟨⟨0, by simp [crlfGo, render]⟩, fun _ => by simp [crlfGo, toks, render]⟩
  | case2 a he =>
    intro room
    by_cases hr : room = 0
    · subst hr
      exact ⟨⟨0, by simp [crlfGo, render]⟩, fun h => by simp at h⟩
    · rcases he with h13 | h10
      · subst h13
        exact ⟨⟨1, by simp [crlfGo_none, hr, crlfGo_nil, toks, render]⟩, fun _ => by simp [crlfGo_none, hr, crlfGo_nil, toks, render]⟩
      · subst h10
        exact ⟨⟨1, by simp [crlfGo_none, hr, crlfGo_nil, toks, render]⟩, fun _ => by simp [crlfGo_none, hr, crlfGo_nil, toks, render]⟩
  | case3 a he =>
    intro room
    have h13 : a ≠ 13 := fun e => he (Or.inl e)
    have h10 : a ≠ 10 := fun e => he (Or.inr e)
    by_cases hr : room = 0
    · subst hr
      exact ⟨⟨0, by simp [crlfGo, render]⟩, fun h => by simp at h⟩
    · exact ⟨⟨1, by simp [crlfGo_none, hr, h13, h10, crlfGo_nil, toks, render]⟩,
             fun _ => by simp [crlfGo_none, hr, h13, h10, crlfGo_nil, toks, render]⟩
  | case4 a b r hpair ih =>
    intro room
    have ht : toks (a :: b :: r) = none :: toks r := by simp only [toks, if_pos hpair]
    by_cases hr : room = 0
    · subst hr
      exact ⟨⟨0, by simp [crlfGo_none, render]⟩, fun h => by simp at h⟩
    · obtain ⟨⟨k, hk⟩, hfull⟩ := ih (room - 2)
      have hgo : crlfGo room none (a :: b :: r) = 13 :: 10 :: crlfGo (room - 2) none r := by
        rcases hpair with ⟨h1, h2⟩ | ⟨h1, h2⟩
        · subst h1; subst h2; simp [crlfGo_none, hr, crlfGo_some]
        · subst h1; subst h2; simp [crlfGo_none, hr, crlfGo_some]
      refine ⟨⟨k + 1, by rw [hgo, ht, render_take_succ_none, hk]⟩, fun h => ?_⟩
      rw [hgo, ht, hfull (by simp at h; omega)]
      simp [render]
  | case5 a b r hpair heol ih =>
    intro room
    have ht : toks (a :: b :: r) = none :: toks (b :: r) := by simp only [toks, if_neg hpair, if_pos heol]
    by_cases hr : room = 0
    · subst hr
      exact ⟨⟨0, by simp [crlfGo_none, render]⟩, fun h => by simp at h⟩
    · obtain ⟨⟨k, hk⟩, hfull⟩ := ih (room - 2)
      have hgo : crlfGo room none (a :: b :: r) = 13 :: 10 :: crlfGo (room - 2) none (b :: r) := by
        rcases heol with h1 | h1
        · subst h1
          have hb : b ≠ 10 := fun e => hpair (Or.inl ⟨rfl, e⟩)
          simp [crlfGo_none, hr, crlfGo_some, hb]
        · subst h1
          have hb : b ≠ 13 := fun e => hpair (Or.inr ⟨rfl, e⟩)
          simp [crlfGo_none, hr, crlfGo_some, hb]
      refine ⟨⟨k + 1, by rw [hgo, ht, render_take_succ_none, hk]⟩, fun h => ?_⟩
      rw [hgo, ht, hfull (by simp at h ⊢; omega)]
      simp [render]
  | case6 a b r hpair heol ih =>
    intro room
    have ht : toks (a :: b :: r) = some a :: toks (b :: r) := by simp only [toks, if_neg hpair, if_neg heol]
    have h13 : a ≠ 13 := fun e => heol (Or.inl e)
    have h10 : a ≠ 10 := fun e => heol (Or.inr e)
    by_cases hr : room = 0
    · subst hr
      exact ⟨⟨0, by simp [crlfGo_none, render]⟩, fun h => by simp at h⟩
    · obtain ⟨⟨k, hk⟩, hfull⟩ := ih (room - 1)
      have hgo : crlfGo room none (a :: b :: r) = a :: crlfGo (room - 1) none (b :: r) := by
        simp [crlfGo_none, hr, h13, h10]
      refine ⟨⟨k + 1, by rw [hgo, ht, render_take_succ_some, hk]⟩, fun h => ?_⟩
      rw [hgo, ht, hfull (by simp at h ⊢; omega)]
      simp [render]

/-- the ordinary bytes of a token sequence read from a text are never CR / LF -/
theorem toks_clean (src : List Byte) : Clean (toks src) := by
  induction src using toks.induct with
  | case1 => intro a h; simp [toks] at h
  | case2 a he => intro x h; simp [toks, he] at h
  | case3 a he =>
    intro x h
    simp [toks, he] at h
    subst h
    exact ⟨fun e => he (Or.inl e), fun e => he (Or.inr e)⟩
  | case4 a b r hpair ih =>
    intro x h
    simp only [toks, if_pos hpair] at h
    simp at h
    exact ih x h
  | case5 a b r hpair heol ih =>
    intro x h
    simp only [toks, if_neg hpair, if_pos heol] at h
    simp at h
    exact ih x h
  | case6 a b r hpair heol ih =>
    intro x h
    simp only [toks, if_neg hpair, if_neg heol] at h
    simp at h
    rcases h with h | h
    · subst h
      exact ⟨fun e => heol (Or.inl e), fun e => heol (Or.inr e)⟩
    · exact ih x h

/-- reading a rendering gives the tokens back -/
theorem toks_render : ∀ (ts : List (Option Byte)), Clean ts → toks (render ts) = ts := by
  intro ts
  induction ts with
  | nil => intro _; simp [render, toks]
  | cons t ts ih =>
    intro hc
    have hc' : Clean ts := fun a h => hc a (List.mem_cons_of_mem _ h)
    cases t with
    | none =>
      show toks (13 :: 10 :: render ts) = _
      simp only [toks]
      simp [ih hc']
    | some a =>
      obtain ⟨h13, h10⟩ := hc a (List.mem_cons_self ..)
      show toks (a :: render ts) = _
      cases hr : render ts with
      | nil =>
        have : toks (render ts) = ts := ih hc'
        rw [hr] at this
        simp [toks] at this
        subst this
        simp [toks, h13, h10]
      | cons b r =>
        have : toks (render ts) = ts := ih hc'
        rw [hr] at this
        simp only [toks]
        simp [h13, h10, this]

theorem render_length (ts : List (Option Byte)) : (render ts).length ≤ 2 * ts.length := by
  induction ts with
  | nil => simp [render]
  | cons t ts ih => cases t <;> simp [render] <;> omega

theorem toks_length (src : List Byte) : (toks src).length ≤ src.length := by
  induction src using toks.induct with
  | case1 => simp [toks]
  | case2 a he => simp [toks, he]
  | case3 a he => simp [toks, he]
  | case4 a b r hpair ih => simp only [toks, if_pos hpair]; simp; omega
  | case5 a b r hpair heol ih => simp only [toks, if_neg hpair, if_pos heol]; simp at ih ⊢; omega
  | case6 a b r hpair heol ih => simp only [toks, if_neg hpair, if_neg heol]; simp at ih ⊢; omega

/-! ### the property-level statements -/

/-- C12, CR/LF normalisation: with room for the text, the output is the text with every line end (CR LF, LF CR, bare CR,
    bare LF) written as CR LF and nothing else changed -/
theorem crlf_canonical (room : Nat) (src : List Byte) (h : 2 * src.length ≤ room) :
    crlfGo room none src = render (toks src) := (crlfGo_toks src room).2 h

/-- … so the line structure is unchanged: the same lines (empty lines included) and line ends, in the same order -/
theorem crlf_keeps_lines (room : Nat) (src : List Byte) (h : 2 * src.length ≤ room) :
    toks (crlfGo room none src) = toks src := by
  rw [crlf_canonical room src h, toks_render _ (toks_clean src)]

/-- … the number of line ends is unchanged -/
theorem crlf_eol_count (room : Nat) (src : List Byte) (h : 2 * src.length ≤ room) :
    (toks (crlfGo room none src)).count none = (toks src).count none := by
  rw [crlf_keeps_lines room src h]

/-- … and normalising twice is normalising once -/
theorem crlf_idempotent (room : Nat) (src : List Byte) (h : 4 * src.length ≤ room) :
    crlfGo room none (crlfGo room none src) = crlfGo room none src := by
  have h1 : crlfGo room none src = render (toks src) := crlf_canonical room src (by omega)
  have hl : 2 * (render (toks src)).length ≤ room := by
    have := render_length (toks src)
    have := toks_length src
    omega
  rw [h1, crlf_canonical room _ hl, toks_render _ (toks_clean src)]

/-- a destination that is too small cuts the text BETWEEN tokens: the output is the rendering of a prefix of the line
    structure, never half a CR LF pair -/
theorem crlf_truncates_at_token (room : Nat) (src : List Byte) :
    ∃ k, crlfGo room none src = render ((toks src).take k) := (crlfGo_toks src room).1

/-- the 16 KiB fields of SF_BROADCAST_INFO / SF_CART_INFO: a text of at most 8191 bytes is never truncated -/
theorem crlfCopy_keeps_lines (src : List Byte) (h : src.length ≤ 8191) :
    toks (crlfGo (VAR_TEXT - 2) none src) = toks src :=
  crlf_keeps_lines _ src (by unfold VAR_TEXT; omega)

-- non-vacuity: an empty line between bare LFs, a run of mixed line ends, a trailing pair
example : toks [97, 10, 10, 98, 10] = [some 97, none, none, some 98, none] := by decide
example : crlfGo 100 none [97, 10, 10, 98, 10] = [97, 13, 10, 13, 10, 98, 13, 10] := by decide
example : toks [13, 13, 10, 10, 13, 10] = [none, none, none, none] := by decide
example : crlfGo 100 none [13, 13, 10, 10, 13, 10] = [13, 10, 13, 10, 13, 10, 13, 10] := by decide
example : crlfGo 3 none [97, 98, 10, 99] = [97, 98, 13, 10] ∧ crlfGo 2 none [97, 98, 10, 99] = [97, 98] := by decide
example : 4 * [97, 10, 10, 98, 10].length ≤ 100 := by decide

/-! ### the collapsing rule (regression class of seed C12-crlf-empty-line-collapse) -/

/-- "a CR or LF starts a line end; the next byte belongs to it when it is a CR or LF" -/
def collapseGo : Nat → List Byte → List Byte
  | _, [] => []
  | room, [a] => if room = 0 then [] else if a = 13 ∨ a = 10 then [13, 10] else [a]
  | room, a :: b :: r =>
    if room = 0 then []
    else if a = 13 ∨ a = 10 then
      (if b = 13 ∨ b = 10 then 13 :: 10 :: collapseGo (room - 2) r else 13 :: 10 :: collapseGo (room - 2) (b :: r))
    else a :: collapseGo (room - 1) (b :: r)

/-- the collapsing rule agrees on CR LF texts and on texts without empty lines, and loses the empty line of "a LF LF b":
    it is not the documented normalisation (`crlf_keeps_lines` fails for it) -/
theorem collapse_rule_loses_empty_line :
    collapseGo 100 [97, 13, 10, 13, 10, 98] = crlfGo 100 none [97, 13, 10, 13, 10, 98] ∧
    collapseGo 100 [97, 10, 98, 13, 99] = crlfGo 100 none [97, 10, 98, 13, 99] ∧
    collapseGo 100 [97, 10, 10, 98] = [97, 13, 10, 98] ∧
    toks (collapseGo 100 [97, 10, 10, 98]) ≠ toks [97, 10, 10, 98] ∧
    toks (crlfGo 100 none [97, 10, 10, 98]) = toks [97, 10, 10, 98] := by
  decide

end Sf.C12Crlf
