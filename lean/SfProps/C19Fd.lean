/-
  C19 on real descriptors — theorems about Sf.FdWorld (SfModel/FdWorld.lean): the process-wide descriptor table (lowest free number on
  open, close frees the number whatever it is) and the descriptor numbers each SF_PRIVATE keeps.

  * `step_isolated`   a call on handle slot i — open (any route, SD2 with its resource fork, ALAC with its spool file, failing or not),
                      I/O, close — changes no descriptor that refers to a file of another slot or to a file the library does not own
                      (a sentinel, stdin/stdout, …): same number, same file.
  * `caller_step_isolated`  the caller opening / closing a descriptor of its own changes nothing else either.
  * `run_isolated`    lifted to every history (any number of slots and sentinels, any interleaving, no bound on the length).
  * `keeps_rule_closes_foreign`  under the rule "psf_close_rsrc keeps the number" (the code without `rsrc.filedes = -1`) a concrete
                      history closes another handle's descriptor: the model can express the defect, the theorems are about the rule.
-/
import SfModel.FdWorld
namespace Sf.C19Fd
open Sf.FdWorld

/-- every number at or above `hi` is free -/
def TInv (t : Table) : Prop := ∀ m, t.hi ≤ m → t.ent m = none

/-- the numbers a handle keeps -/
def Keeps (h : Handle) (n : Nat) : Prop := h.fileFd = some n ∨ h.rsrcFd = some n ∨ h.tmpFd = some n

/-- every number a handle keeps is open and refers to a file of that handle's slot; every sentinel number refers to that sentinel -/
def WInv (w : World) : Prop :=
  TInv w.tab ∧
  (∀ a h n, w.hs a = some h → Keeps h n → ∃ id, w.tab.ent n = some id ∧ id.owner = some a) ∧
  (∀ k n, w.sent k = some n → w.tab.ent n = some (.sentinel k))

/-- t' still has every entry of t that does not belong to slot i -/
def Foreign (i : Option Nat) (t t' : Table) : Prop := ∀ n id, t.ent n = some id → id.owner ≠ i → t'.ent n = some id

theorem Foreign.refl (i : Option Nat) (t : Table) : Foreign i t t := fun _ _ h _ => h

theorem Foreign.trans {i : Option Nat} {a b c : Table} (h1 : Foreign i a b) (h2 : Foreign i b c) : Foreign i a c :=
  fun n id h hne => h2 n id (h1 n id h hne) hne

theorem lowestFree_free (t : Table) (ht : TInv t) : t.ent t.lowestFree = none := by
  unfold Table.lowestFree
  cases hf : (List.range t.hi).find? (fun n => decide (t.ent n = none)) with
  | none => simpa using ht t.hi (Nat.le_refl _)
  | some n =>
    have := List.find?_some hf
    simpa using this

theorem osOpen_at (t : Table) (id : Ident) (ht : TInv t) (m : Nat) :
    (t.osOpen id).1.ent m = if m = t.lowestFree then some id else t.ent m := by
  have hfree := lowestFree_free t ht
  simp [Table.osOpen, hfree, Table.set]

theorem osOpen_snd (t : Table) (id : Ident) : (t.osOpen id).2 = t.lowestFree := by
  unfold Table.osOpen
  dsimp only
  split <;> rfl

theorem osOpen_TInv (t : Table) (id : Ident) (ht : TInv t) : TInv (t.osOpen id).1 := by
  have hfree := lowestFree_free t ht
  intro m hm
  simp only [Table.osOpen, hfree, if_true, Table.set] at hm ⊢
  by_cases hlt : t.lowestFree < t.hi
  · simp only [hlt, if_true] at hm
    have : m ≠ t.lowestFree := by omega
    simp [this, ht m hm]
  · simp only [hlt, if_false] at hm
    have : m ≠ t.lowestFree := by omega
    simp only [this, if_false]
    exact ht m (by omega)

theorem osOpen_foreign (i : Option Nat) (t : Table) (id : Ident) (ht : TInv t) : Foreign i t (t.osOpen id).1 := by
  intro n x hx _
  rw [osOpen_at t id ht]
  have hfree := lowestFree_free t ht
  have : n ≠ t.lowestFree := by intro e; rw [e, hfree] at hx; cases hx
  simp [this, hx]

theorem osClose_at (t : Table) (n m : Nat) : (t.osClose n).ent m = if m = n then none else t.ent m := rfl

theorem osClose_TInv (t : Table) (n : Nat) (ht : TInv t) : TInv (t.osClose n) := by
  intro m hm
  rw [osClose_at]
  split
  · rfl
  · exact ht m hm

theorem closeOpt_TInv (t : Table) (o : Option Nat) (ht : TInv t) : TInv (t.closeOpt o) := by
  cases o with
  | none => exact ht
  | some n => exact osClose_TInv t n ht

/-- closing a number that is free, or that refers to a file of slot i, leaves every entry foreign to i in place -/
theorem closeOpt_foreign (i : Option Nat) (t : Table) (o : Option Nat)
    (h : ∀ n, o = some n → t.ent n = none ∨ ∃ id, t.ent n = some id ∧ id.owner = i) : Foreign i t (t.closeOpt o) := by
  cases o with
  | none => exact Foreign.refl i t
  | some n =>
    intro m id hm hne
    show (t.osClose n).ent m = some id
    rw [osClose_at]
    have : m ≠ n := by
      intro e
      subst e
      rcases h m rfl with h0 | ⟨id', h1, h2⟩
      · rw [h0] at hm; cases hm
      · rw [h1] at hm; cases hm; exact hne h2
    simp [this, hm]

/-- what is known of a table position while an open is under way -/
def Mine (i : Nat) (t : Table) (o : Option Nat) : Prop := ∀ n, o = some n → t.ent n = none ∨ ∃ id, t.ent n = some id ∧ id.owner = some i

theorem mine_after_close (i : Nat) (t : Table) (o p : Option Nat) (h : Mine i t o) : Mine i (t.closeOpt p) o := by
  intro n hn
  cases p with
  | none => exact h n hn
  | some m =>
    have e2 : (t.closeOpt (some m)).ent n = if n = m then none else t.ent n := rfl
    rw [e2]
    by_cases e : n = m
    · left; simp [e]
    · simp only [e, if_false]; exact h n hn

theorem mine_after_open (i : Nat) (t : Table) (id : Ident) (ht : TInv t) (o : Option Nat) (h : Mine i t o) (hid : id.owner = some i) :
    Mine i (t.osOpen id).1 o := by
  intro n hn
  rw [osOpen_at t id ht]
  by_cases e : n = t.lowestFree
  · right; exact ⟨id, by simp [e], hid⟩
  · simp only [e, if_false]; exact h n hn

theorem mine_new (i : Nat) (t : Table) (id : Ident) (ht : TInv t) (hid : id.owner = some i) :
    Mine i (t.osOpen id).1 (some (t.osOpen id).2) := by
  intro n hn
  cases hn
  right
  refine ⟨id, ?_, hid⟩
  rw [osOpen_at t id ht, osOpen_snd]
  simp

/-- psf_close's descriptor side on a handle all of whose numbers are free or its own -/
theorem release_foreign (i : Nat) (t : Table) (h : Handle)
    (hf : Mine i t h.fileFd) (hr : Mine i t h.rsrcFd) (ht : Mine i t h.tmpFd) :
    Foreign (some i) t (release .resets t h) ∧ Foreign (some i) t ((release .resets t h).closeOpt h.fileFd) := by
  have s1 : Foreign (some i) t (t.closeOpt h.tmpFd) := closeOpt_foreign _ _ _ ht
  have hf1 := mine_after_close i t h.fileFd h.tmpFd hf
  have hr1 := mine_after_close i t h.rsrcFd h.tmpFd hr
  have key : ∀ t2, Foreign (some i) t t2 → Mine i t2 h.rsrcFd → Mine i t2 h.fileFd →
      Foreign (some i) t (t2.closeOpt h.rsrcFd) ∧ Foreign (some i) t ((t2.closeOpt h.rsrcFd).closeOpt h.fileFd) := by
    intro t2 f12 m2 m3
    have a := Foreign.trans f12 (closeOpt_foreign _ _ _ m2)
    exact ⟨a, Foreign.trans a (closeOpt_foreign _ _ _ (mine_after_close i t2 h.fileFd h.rsrcFd m3))⟩
  unfold release closeRsrc
  cases h.ownsFile with
  | false => simpa using key _ s1 hr1 hf1
  | true =>
    have s2 := Foreign.trans s1 (closeOpt_foreign _ _ _ hf1)
    simpa using key _ s2 (mine_after_close i _ _ _ hr1) (mine_after_close i _ _ _ hf1)

theorem release_TInv (r : Rule) (t : Table) (h : Handle) (ht : TInv t) : TInv (release r t h) := by
  unfold release closeRsrc
  cases h.ownsFile <;> simp <;> repeat (first | apply closeOpt_TInv | exact ht)

/-- the number (if any) is open and refers to a file of slot i -/
def Live (i : Nat) (t : Table) (o : Option Nat) : Prop := ∀ n, o = some n → ∃ id, t.ent n = some id ∧ id.owner = some i

theorem Live.mine {i : Nat} {t : Table} {o : Option Nat} (h : Live i t o) : Mine i t o := fun n hn => Or.inr (h n hn)

theorem osOpen_keeps (t : Table) (id : Ident) (ht : TInv t) {n : Nat} {x : Ident} (h : t.ent n = some x) : (t.osOpen id).1.ent n = some x := by
  rw [osOpen_at t id ht]
  have hfree := lowestFree_free t ht
  have : n ≠ t.lowestFree := by intro e; rw [e, hfree] at h; cases h
  simp [this, h]

theorem live_after_open (i : Nat) (t : Table) (id : Ident) (ht : TInv t) (o : Option Nat) (h : Live i t o) : Live i (t.osOpen id).1 o := by
  intro n hn
  obtain ⟨x, hx, ho⟩ := h n hn
  exact ⟨x, osOpen_keeps t id ht hx, ho⟩

theorem live_new (i : Nat) (t : Table) (id : Ident) (ht : TInv t) (hid : id.owner = some i) : Live i (t.osOpen id).1 (some (t.osOpen id).2) := by
  intro n hn
  cases hn
  refine ⟨id, ?_, hid⟩
  rw [osOpen_at t id ht, osOpen_snd]
  simp

/-- a descriptor opened and closed again (the resource fork inside sd2_open) leaves what was open before as it was -/
theorem live_open_close (i : Nat) (t : Table) (id : Ident) (ht : TInv t) (o : Option Nat) (h : Live i t o) :
    Live i ((t.osOpen id).1.closeOpt (some (t.osOpen id).2)) o := by
  intro n hn
  obtain ⟨x, hx, ho⟩ := h n hn
  refine ⟨x, ?_, ho⟩
  have e2 : ((t.osOpen id).1.closeOpt (some (t.osOpen id).2)).ent n = if n = (t.osOpen id).2 then none else (t.osOpen id).1.ent n := rfl
  have hfree := lowestFree_free t ht
  have : n ≠ t.lowestFree := by intro e; rw [e, hfree] at hx; cases hx
  rw [e2, osOpen_snd]
  simp [this, osOpen_keeps t id ht hx]

/-- the state of an open under way: table, handle so far, and that everything the handle holds is free or its own -/
structure Mid (i : Nat) (t0 t : Table) (h : Handle) : Prop where
  tinv : TInv t
  foreign : Foreign (some i) t0 t
  file : Mine i t h.fileFd
  rsrc : Mine i t h.rsrcFd
  tmp : Mine i t h.tmpFd
  fileL : Live i t h.fileFd
  tmpL : Live i t h.tmpFd
  rsrcN : h.rsrcFd = none

/-- **doOpen, descriptor side.**  The table after sf_open on slot i (succeeding or failing) keeps every entry foreign to i. -/
theorem doOpen_foreign (w : World) (i : Nat) (c : OpenCfg) (hw : WInv w) :
    Foreign (some i) w.tab (doOpen .resets w i c).tab ∧ TInv (doOpen .resets w i c).tab ∧
    (∀ h n, (doOpen .resets w i c).hs i = some h → w.hs i = none → Keeps h n → ∃ id, (doOpen .resets w i c).tab.ent n = some id ∧ id.owner = some i) ∧
    (∀ b, b ≠ i → (doOpen .resets w i c).hs b = w.hs b) ∧ (doOpen .resets w i c).sent = w.sent := by
  obtain ⟨ht, _, _⟩ := hw
  -- stage 1: the audio file
  have m1 : Mid i w.tab (w.tab.osOpen (.file i)).1 { fileFd := some (w.tab.osOpen (.file i)).2, ownsFile := c.route != .fd0 } :=
    ⟨osOpen_TInv _ _ ht, osOpen_foreign _ _ _ ht, mine_new i _ _ ht rfl, (fun _ h => by cases h), (fun _ h => by cases h),
      live_new i _ _ ht rfl, (fun _ h => by cases h), rfl⟩
  -- stage 2: the resource fork, opened and closed again
  have m2 : ∀ t h, Mid i w.tab t h →
      Mid i w.tab (if c.sd2 && c.rsrcFound then closeRsrc .resets (t.osOpen (.rsrc i)).1 { h with rsrcFd := some (t.osOpen (.rsrc i)).2 } else (t, h)).1
                  (if c.sd2 && c.rsrcFound then closeRsrc .resets (t.osOpen (.rsrc i)).1 { h with rsrcFd := some (t.osOpen (.rsrc i)).2 } else (t, h)).2 := by
    intro t h m
    split
    · have mn := mine_new i t (.rsrc i) m.tinv rfl
      refine ⟨closeOpt_TInv _ _ (osOpen_TInv _ _ m.tinv), ?_, ?_, (fun _ h => by cases h), ?_, ?_, ?_, rfl⟩
      · exact Foreign.trans m.foreign (Foreign.trans (osOpen_foreign _ _ _ m.tinv) (closeOpt_foreign _ _ _ mn))
      · show Mine i ((t.osOpen (.rsrc i)).1.closeOpt (some (t.osOpen (.rsrc i)).2)) h.fileFd
        exact mine_after_close i _ _ _ (mine_after_open i t (.rsrc i) m.tinv _ m.file rfl)
      · show Mine i ((t.osOpen (.rsrc i)).1.closeOpt (some (t.osOpen (.rsrc i)).2)) h.tmpFd
        exact mine_after_close i _ _ _ (mine_after_open i t (.rsrc i) m.tinv _ m.tmp rfl)
      · exact live_open_close i t (.rsrc i) m.tinv _ m.fileL
      · exact live_open_close i t (.rsrc i) m.tinv _ m.tmpL
    · exact m
  -- stage 3: the spool file
  have m3 : ∀ t h, Mid i w.tab t h →
      Mid i w.tab (if c.alacW then ((t.osOpen (.tmp i)).1, { h with tmpFd := some (t.osOpen (.tmp i)).2 }) else (t, h)).1
                  (if c.alacW then ((t.osOpen (.tmp i)).1, { h with tmpFd := some (t.osOpen (.tmp i)).2 }) else (t, h)).2 := by
    intro t h m
    split
    · exact ⟨osOpen_TInv _ _ m.tinv, Foreign.trans m.foreign (osOpen_foreign _ _ _ m.tinv), mine_after_open i t (.tmp i) m.tinv _ m.file rfl,
        mine_after_open i t (.tmp i) m.tinv _ m.rsrc rfl, mine_new i t (.tmp i) m.tinv rfl,
        live_after_open i t (.tmp i) m.tinv _ m.fileL, live_new i t (.tmp i) m.tinv rfl, m.rsrcN⟩
    · exact m
  have m := m3 _ _ (m2 _ _ m1)
  generalize hT : (if c.alacW then _ else _ : Table × Handle) = p at m
  have hdo : doOpen .resets w i c =
      if c.fails then { w with tab := (if p.2.ownsFile then release .resets p.1 p.2 else (release .resets p.1 p.2).closeOpt p.2.fileFd) }
      else { (w.setH i (some p.2)) with tab := p.1 } := by
    unfold doOpen
    simp only []
    rw [← hT]
    try (first | rfl | (split <;> rfl))
  rw [hdo]
  have rel := release_foreign i p.1 p.2 m.file m.rsrc m.tmp
  split
  · refine ⟨?_, ?_, ?_, fun _ _ => rfl, rfl⟩
    · show Foreign (some i) w.tab (if p.2.ownsFile then _ else _)
      split
      · exact Foreign.trans m.foreign rel.1
      · exact Foreign.trans m.foreign rel.2
    · show TInv (if p.2.ownsFile then _ else _)
      split
      · exact release_TInv _ _ _ m.tinv
      · exact closeOpt_TInv _ _ (release_TInv _ _ _ m.tinv)
    · intro h n hh hnone
      rw [show ({ w with tab := (if p.2.ownsFile then release .resets p.1 p.2 else (release .resets p.1 p.2).closeOpt p.2.fileFd) } : World).hs i = w.hs i from rfl, hnone] at hh
      cases hh
  · refine ⟨m.foreign, m.tinv, ?_, ?_, rfl⟩
    · intro h n hh _ hk
      have e : ({ (w.setH i (some p.2)) with tab := p.1 } : World).hs i = some p.2 := by simp [World.setH]
      rw [e] at hh
      cases hh
      rcases hk with hk | hk | hk
      · exact m.fileL n hk
      · rw [m.rsrcN] at hk; cases hk
      · exact m.tmpL n hk
    · intro b hb
      simp [World.setH, hb]

/-- sf_close, descriptor side -/
theorem doClose_foreign (w : World) (i : Nat) (hw : WInv w) :
    Foreign (some i) w.tab (doClose .resets w i).tab ∧ TInv (doClose .resets w i).tab ∧
    (∀ b, b ≠ i → (doClose .resets w i).hs b = w.hs b) ∧ (doClose .resets w i).hs i = none ∧ (doClose .resets w i).sent = w.sent := by
  obtain ⟨ht, hinv, _⟩ := hw
  unfold doClose
  cases hh : w.hs i with
  | none => exact ⟨Foreign.refl _ _, ht, fun _ _ => rfl, hh, rfl⟩
  | some h =>
    have lf : Live i w.tab h.fileFd := fun n hn => hinv i h n hh (Or.inl hn)
    have lr : Live i w.tab h.rsrcFd := fun n hn => hinv i h n hh (Or.inr (Or.inl hn))
    have lt : Live i w.tab h.tmpFd := fun n hn => hinv i h n hh (Or.inr (Or.inr hn))
    have rel := release_foreign i w.tab h lf.mine lr.mine lt.mine
    refine ⟨?_, ?_, ?_, ?_, rfl⟩
    · show Foreign (some i) w.tab (if h.ownsFile then _ else _)
      split
      · exact rel.1
      · exact rel.2
    · show TInv (if h.ownsFile then _ else _)
      split
      · exact release_TInv _ _ _ ht
      · exact closeOpt_TInv _ _ (release_TInv _ _ _ ht)
    · intro b hb
      simp [World.setH, hb]
    · simp [World.setH]

/-- **step_isolated.**  A call on handle slot i changes no descriptor that refers to a file of another slot or to a file the library does
    not own: the number is still open and still refers to the same file. -/
theorem step_isolated (w : World) (hw : WInv w) (op : Op) (i : Nat) (hop : op.slot = some i) (n : Nat) (id : Ident)
    (hn : w.tab.ent n = some id) (hid : id.owner ≠ some i) : (step .resets w op).tab.ent n = some id := by
  cases op with
  | sentinel k => cases hop
  | unsent k => cases hop
  | io a => exact hn
  | «open» a c =>
    cases hop
    show (if (w.hs i).isSome then w else doOpen .resets w i c).tab.ent n = some id
    split
    · exact hn
    · exact (doOpen_foreign w i c hw).1 n id hn hid
  | close a =>
    cases hop
    exact (doClose_foreign w i hw).1 n id hn hid

/-- **caller_step_isolated.**  The caller opening a descriptor of its own, or closing it, changes no other descriptor. -/
theorem caller_step_isolated (w : World) (hw : WInv w) (op : Op) (hop : op.slot = none) (n : Nat) (id : Ident)
    (hn : w.tab.ent n = some id) (hid : ∀ k, op = .unsent k → id ≠ .sentinel k) : (step .resets w op).tab.ent n = some id := by
  obtain ⟨ht, _, hs⟩ := hw
  cases op with
  | sentinel k => exact osOpen_keeps _ _ ht hn
  | unsent k =>
    show (w.tab.closeOpt (w.sent k)).ent n = some id
    cases hk : w.sent k with
    | none => exact hn
    | some m =>
      have e2 : (w.tab.closeOpt (some m)).ent n = if n = m then none else w.tab.ent n := rfl
      have : n ≠ m := by
        intro e
        subst e
        rw [hs k n hk] at hn
        cases hn
        exact hid k rfl rfl
      rw [e2]
      simp [this, hn]
  | io a => cases hop
  | «open» a c => cases hop
  | close a => cases hop

/-- the invariant is kept by every step -/
theorem step_WInv (w : World) (hw : WInv w) (op : Op) : WInv (step .resets w op) := by
  have hw0 := hw
  obtain ⟨ht, hinv, hs⟩ := hw
  cases op with
  | io a => exact hw0
  | sentinel k =>
    refine ⟨osOpen_TInv _ _ ht, ?_, ?_⟩
    · intro a h n hh hk
      obtain ⟨x, hx, ho⟩ := hinv a h n hh hk
      exact ⟨x, osOpen_keeps _ _ ht hx, ho⟩
    · intro j n hj
      show (w.tab.osOpen (.sentinel k)).1.ent n = _
      have hj2 : (if j = k then some (w.tab.osOpen (.sentinel k)).2 else w.sent j) = some n := hj
      by_cases e : j = k
      · subst e
        simp only [if_true] at hj2
        cases hj2
        rw [osOpen_at _ _ ht, osOpen_snd]
        simp
      · simp only [e, if_false] at hj2
        exact osOpen_keeps _ _ ht (hs j n hj2)
  | unsent k =>
    refine ⟨closeOpt_TInv _ _ ht, ?_, ?_⟩
    · intro a h n hh hk
      obtain ⟨x, hx, ho⟩ := hinv a h n hh hk
      refine ⟨x, ?_, ho⟩
      exact caller_step_isolated w hw0 (.unsent k) rfl n x hx (fun k' _ e => by rw [e] at ho; cases ho)
    · intro j n hj
      have hj2 : (if j = k then none else w.sent j) = some n := hj
      by_cases e : j = k
      · simp [e] at hj2
      · simp only [e, if_false] at hj2
        exact caller_step_isolated w hw0 (.unsent k) rfl n _ (hs j n hj2) (fun k' hk' e2 => by cases hk'; cases e2; exact e rfl)
  | «open» a c =>
    show WInv (if (w.hs a).isSome then w else doOpen .resets w a c)
    split
    · exact hw0
    · rename_i hnone
      have hnone : w.hs a = none := by
        cases hq : w.hs a with
        | none => rfl
        | some _ => rw [hq] at hnone; simp at hnone
      obtain ⟨hf, htn, hnew, hoth, hsent⟩ := doOpen_foreign w a c hw0
      refine ⟨htn, ?_, ?_⟩
      · intro b h n hh hk
        by_cases e : b = a
        · subst e; exact hnew h n hh hnone hk
        · rw [hoth b e] at hh
          obtain ⟨x, hx, ho⟩ := hinv b h n hh hk
          exact ⟨x, hf n x hx (by rw [ho]; intro q; cases q; exact e rfl), ho⟩
      · intro j n hj
        rw [hsent] at hj
        exact hf n _ (hs j n hj) (by intro q; cases q)
  | close a =>
    obtain ⟨hf, htn, hoth, hgone, hsent⟩ := doClose_foreign w a hw0
    refine ⟨htn, ?_, ?_⟩
    · intro b h n hh hk
      by_cases e : b = a
      · subst e
        have hh2 : (doClose .resets w b).hs b = some h := hh
        rw [hgone] at hh2; cases hh2
      · have hh2 : (doClose .resets w a).hs b = some h := hh
        rw [hoth b e] at hh2
        obtain ⟨x, hx, ho⟩ := hinv b h n hh2 hk
        exact ⟨x, hf n x hx (by rw [ho]; intro q; cases q; exact e rfl), ho⟩
    · intro j n hj
      have hj2 : (doClose .resets w a).sent j = some n := hj
      rw [hsent] at hj2
      exact hf n _ (hs j n hj2) (by intro q; cases q)

theorem run_WInv (w : World) (hw : WInv w) (ops : List Op) : WInv (run .resets w ops) := by
  induction ops generalizing w with
  | nil => exact hw
  | cons op rest ih => exact ih _ (step_WInv w hw op)

theorem start_WInv (taken : List Nat) : WInv (start taken) := by
  refine ⟨?_, (fun _ _ _ h => by cases h), (fun _ _ h => by cases h)⟩
  intro m hm
  show (if taken.contains m then _ else none) = none
  have key : ∀ (l : List Nat) (acc : Nat), (l.foldl (fun a n => max a (n + 1)) acc ≤ m) → acc ≤ m ∧ ∀ x ∈ l, x < m := by
    intro l
    induction l with
    | nil => intro acc h; exact ⟨h, fun _ hx => by cases hx⟩
    | cons y ys ih =>
      intro acc h
      have := ih (max acc (y + 1)) h
      refine ⟨by omega, ?_⟩
      intro x hx
      cases hx with
      | head => omega
      | tail _ hx' => exact this.2 x hx'
  have hlt := (key taken 0 hm).2
  have hnot : ¬ m ∈ taken := fun hmem => by have := hlt m hmem; omega
  simp [hnot]

/-- **run_isolated.**  Along every history from a process start (any descriptors already taken, any number of handle slots and
    sentinels, any interleaving, no bound on the length): a call on slot i leaves every descriptor that refers to a file of another slot,
    or to a file the library does not own, open and referring to the same file. -/
theorem run_isolated (taken : List Nat) (ops : List Op) (op : Op) (i : Nat) (hop : op.slot = some i) (n : Nat) (id : Ident)
    (hn : (run .resets (start taken) ops).tab.ent n = some id) (hid : id.owner ≠ some i) :
    (step .resets (run .resets (start taken) ops) op).tab.ent n = some id :=
  step_isolated _ (run_WInv _ (start_WInv taken) ops) op i hop n id hn hid

/-! ### the rule without the reset, and non-vacuity -/

def sd2W : OpenCfg := { route := .path, sd2 := true }
def wavFd1 : OpenCfg := { route := .fd1 }
def alacPath : OpenCfg := { route := .path, alacW := true }

/-- **keeps_rule_closes_foreign.**  psf_close_rsrc without `rsrc.filedes = -1`: an SD2 handle (slot 0) is opened — its resource fork got
    number 4 and was closed again —, a WAV handle (slot 1) is opened and gets number 4; closing the SD2 handle closes number 4 a second
    time: the WAV handle's descriptor is gone.  Under the rule of the code it stays. -/
theorem keeps_rule_closes_foreign :
    (run .keeps (start [0, 1, 2]) [.open 0 sd2W, .open 1 wavFd1]).tab.ent 4 = some (.file 1) ∧
    (run .keeps (start [0, 1, 2]) [.open 0 sd2W, .open 1 wavFd1, .close 0]).tab.ent 4 = none ∧
    (run .resets (start [0, 1, 2]) [.open 0 sd2W, .open 1 wavFd1, .close 0]).tab.ent 4 = some (.file 1) := by decide

-- the hypotheses of run_isolated are met by a non-trivial world: three handles on real descriptors and a sentinel
example : (run .resets (start [0, 1, 2]) [.sentinel 0, .open 0 sd2W, .open 1 wavFd1, .open 2 alacPath]).tab.entries =
    [(0, .sentinel 1000), (1, .sentinel 1001), (2, .sentinel 1002), (3, .sentinel 0), (4, .file 0), (5, .file 1), (6, .file 2), (7, .tmp 2)] := by decide
example : (Ident.file 1).owner ≠ some 0 ∧ (Op.close 0).slot = some 0 := by decide
-- numbers are re-used: after the SD2 handle is closed the next open gets its number
example : (run .resets (start [0, 1, 2]) [.open 0 sd2W, .open 1 wavFd1, .close 0, .open 2 alacPath]).tab.entries =
    [(0, .sentinel 1000), (1, .sentinel 1001), (2, .sentinel 1002), (3, .file 2), (4, .file 1), (5, .tmp 2)] := by decide
-- a failing open leaves the table as it was
example : (run .resets (start [0, 1, 2]) [.open 0 { sd2W with fails := true }]).tab.entries = (start [0, 1, 2]).tab.entries := by decide

end Sf.C19Fd
