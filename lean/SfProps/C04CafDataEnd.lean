/-
  SfProps.C04CafDataEnd — the CAF reader and a 'data' chunk of size −1 ("the audio data runs to the end of the file", CAF specification),
  after the repair of KF-CAF-DATA-MINUS-ONE (src/caf.c: the −1 is resolved where the chunk header is read).

  * `caf_data_to_end_walk` (full strength, EVERY file): when the chunk walk stands in front of a chunk header `'data' −1` at offset p,
    it ends there with the audio starting at p + 16 (behind the edit count) and running to the last byte of the file.
  * `caf_data_to_end_reopens`: the closed 16-bit file of 3 frames with its 'data' size replaced by −1 re-opens with the same SF_INFO as
    the file with the explicit size (was: refused); with a trailing pad byte the byte is audio (there is no size that could exclude it).
  * the rule before the repair is kept (`Sf.Caf.walkOld` / `parseOld`, `negSize true`): `caf_data_to_end_walk_old_rule` (the walk ended
    in front of the chunk, on every file) and `caf_data_size_minus_one_old_rule` (the witness file was refused, a file with an explicit
    size is read alike by both rules).
-/
import SfModel.Caf
import SfProofs.HdrReadLemmas
import SfProofs.CafDataEnd
namespace Sf.C04CafDataEnd
open Sf Sf.Caf Sf.HdrRd

theorem hdr_lengths : (mk "data").length = 4 ∧ (beBytes 8 (2 ^ 64 - 1)).length = 8 := by decide

theorem data_hdr_read (pre rest : List Byte) :
    rdSeq (pre ++ (mk "data" ++ (beBytes 8 (2 ^ 64 - 1) ++ rest))) [4, 8] ⟨pre.length, pre.length, false⟩ =
      ([mk "data", beBytes 8 (2 ^ 64 - 1)], ⟨pre.length + 12, pre.length + 12, false⟩) := by
  obtain ⟨l1, l2⟩ := hdr_lengths
  have h := rdSeq_at [mk "data", beBytes 8 (2 ^ 64 - 1)] (bs := pre ++ (mk "data" ++ (beBytes 8 (2 ^ 64 - 1) ++ rest))) (pre := pre) (rest := rest)
    (ns := [4, 8]) (e := pre.length) (by simp) (by simp [l1, l2]) (Nat.le_refl _)
  rw [h]
  simp [l1, l2]

/-- FULL STRENGTH: on every file, a chunk header `'data' −1` met by the chunk walk (whatever chunks came before: `pre`, with the scan
    state `s` they left) makes the rest of the file — edit count, then audio — the data chunk: the audio starts behind the edit count
    and has every remaining byte; nothing is cut off and nothing is invented.  Guards: the edit count is present; the audio is at most
    2^31 − 1 bytes (the guard of `caf_reopen_info`). -/
theorem caf_data_to_end_walk (pre rest : List Byte) (ch fuel : Nat) (s : Scan) (h4 : 4 ≤ rest.length) (hsz : rest.length - 4 ≤ 0x7FFFFFFF) :
    walk (pre ++ (mk "data" ++ (beBytes 8 (2 ^ 64 - 1) ++ rest))) ch (fuel + 1) ⟨pre.length, pre.length, false⟩ s =
      .done { haveData := true, dataoffset := pre.length + 16, datalength := ((rest.length - 4 : Nat) : Int), dataend := s.dataend } := by
  obtain ⟨l1, l2⟩ := hdr_lengths
  generalize hbs : pre ++ (mk "data" ++ (beBytes 8 (2 ^ 64 - 1) ++ rest)) = bs
  have hlen : bs.length = pre.length + 12 + rest.length := by rw [← hbs]; simp [l1, l2]; omega
  have hr := data_hdr_read pre rest
  rw [hbs] at hr
  rw [walk_data_minus_one bs ch fuel _ _ s hr]
  have h := dataCase_to_end bs (pre.length + 12) s (by omega) (by omega)
  have e1 : bs.length - (pre.length + 12 + 4) = rest.length - 4 := by omega
  rw [e1] at h
  simpa using h

/-- the rule before the repair: the same walk ended in front of the chunk with the scan state it had — no 'data' chunk — on every file -/
theorem caf_data_to_end_walk_old_rule (pre rest : List Byte) (ch fuel : Nat) (s : Scan) :
    walkOld (pre ++ (mk "data" ++ (beBytes 8 (2 ^ 64 - 1) ++ rest))) ch (fuel + 1) ⟨pre.length, pre.length, false⟩ s = .done s :=
  walkOld_data_minus_one _ ch fuel _ _ s (data_hdr_read pre rest)

-- non-vacuity: a two-byte audio region behind an arbitrary prefix
example : walk ([1, 2, 3] ++ (mk "data" ++ (beBytes 8 (2 ^ 64 - 1) ++ [0, 0, 0, 0, 7, 9]))) 1 1 ⟨3, 3, false⟩ {} =
    .done { haveData := true, dataoffset := 19, datalength := 2, dataend := 0 } := by decide

/-- the witness of KF-CAF-DATA-MINUS-ONE on the repaired reader: the closed 16-bit file of 3 frames with its 'data' size replaced by −1
    re-opens like the file with the explicit size; a 1-channel 8-bit file of 3 frames has a pad byte behind the audio, which "to the end
    of the file" makes a fourth frame -/
theorem caf_data_to_end_reopens :
    let img := image { codec := 0x02, endian := 0, ch := 1, sr := 8000 } 3 [] [0, 1, 0, 2, 0, 3]
    let img8 := image { codec := 0x01, endian := 0, ch := 1, sr := 8000 } 3 [] [1, 2, 3]
    parse (img.take 4084 ++ List.replicate 8 255 ++ img.drop 4092) = parse img ∧
    parse img = .ok { fmtWord := 0x180002, ch := 1, sr := 8000, frames := 3, dataoffset := 4096, datalength := 6 } ∧
    parse (img8.take 4084 ++ List.replicate 8 255 ++ img8.drop 4092) =
      .ok { fmtWord := 0x180001, ch := 1, sr := 8000, frames := 4, dataoffset := 4096, datalength := 4 } := by decide +kernel

/-- KF-CAF-DATA-MINUS-ONE under the rule before the repair: the witness file is refused; a file with an explicit size is read alike -/
theorem caf_data_size_minus_one_old_rule :
    let img := image { codec := 0x02, endian := 0, ch := 1, sr := 8000 } 3 [] [0, 1, 0, 2, 0, 3]
    parseOld (img.take 4084 ++ List.replicate 8 255 ++ img.drop 4092) = .err ∧ parseOld img = parse img := by decide +kernel

/-- every other negative chunk size still ends the walk, under both rules (the repair does not loosen the `chunk_size < 0` test) -/
theorem negative_size_still_ends_walk (old : Bool) (bs m : List Byte) (csize : Int) (r : Rd) (s : Scan) (h : csize ≠ -1) :
    negSize old bs m csize r s = .done s := by
  simp [negSize, h]

theorem negative_size_not_data_ends_walk (old : Bool) (bs m : List Byte) (csize : Int) (r : Rd) (s : Scan) (h : (m == mk "data") = false) :
    negSize old bs m csize r s = .done s := by
  simp [negSize, h]

end Sf.C04CafDataEnd
