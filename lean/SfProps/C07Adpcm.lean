/-
  C07 (and the C04 / C05 facts that go with it) for the WRITE side of IMA ADPCM (WAV / W64 layout, AIFF `ima4` layout) and
  MS ADPCM, on the bit-exact encoder model of SfModel/AdpcmEnc.lean, AdpcmFile.lean: the generic block-writer theorems of
  SfProps/C07Block.lean instantiated with the REAL encoders (step index / predictor carried across blocks, the `samples` buffer
  as each encode call leaves it).  Property theorems only; helpers in SfProofs/AdpcmEnc.lean, SfProofs/BlockWriter.lean.
  -- properties: C02 C04 C05 C06 C07

  * `adpcm_write_is_fold`        any sequence of write calls of any caller types (4096-short staging for int / float / double,
                                  none for short), 1 or 2 channels, is the per-frame fold `pushFrame` over the converted frames
  * `adpcm_write_partition`      the closed data region depends only on the concatenated converted shorts: ∀ layouts, ∀ legal
                                  geometries, ∀ conversion settings, ∀ sample sequences, ∀ splits into calls, ∀ caller types;
                                  a call is a whole number of frames (sf_write_T refuses anything else), so the item and the
                                  frame variant of a call are the same call
  * `adpcm_write_partition_typed`, `adpcm_closed_bytes_single`
  * `adpcm_closed_length`        N frames ⇒ ⌈N / samplesperblock⌉ blocks of `blockBytes` bytes
  * `adpcm_frames_at_reopen`     N ≤ F < N + samplesperblock for the frame count a reader computes from those bytes
  * `adpcm_header_frames`        what `ima_close` / `msadpcm_close` hand to the header writer (`fact` chunk): IMA, one channel:
                                  the re-open count F; IMA, two channels: F / 2 (recorded, no reader of this library uses it);
                                  MS: N
  * `adpcm_geometry`             what `wav_open` / `w64_open` / `aiff_open` + `*_init` derive for 1–2 channels and ANY sample rate
                                  (incl. the products that wrap a C int) is a legal geometry
  * `adpcm_written_stream`       what a re-open reads = the decoders of SfModel/Adpcm.lean on the encoders' blocks; with
                                  `adpcm_written_stream_partition`: C06's stream of a library-written file is a function of the shorts
  * `ima_decoder_tracks_encoder`, `ima_decoder_run_tracks`, `ima_wav_mono_roundtrip`  the decoders of SfModel/Adpcm.lean on the
                                  encoder's codes reproduce the encoder's reconstruction (step, run, WAV mono block)
  * `adpcm_refused_seek_clean`   a refused sf_seek on a writing handle changes nothing (`adpcm_refused_seek_old_rule`: the rule
                                  before the repair of KF-IMA-WAV-SEEK-WRITE), `adpcm_write_seek_results`
  * encoder invariants (for EVERY input): `ima_step_in_range` (code < 16, predictor a short, step index in 0…88),
    `ima_table_indices_safe`, `adpcm_session_state` (every state any session reaches), `ms_predictor_in_range`
    (predictor < 7, initial delta ≥ 16), `ms_step_in_range` (code < 16, reconstruction a short, delta ≥ 16 stays ≥ 16),
    `ms_table_indices_safe`
-/
import SfProofs.AdpcmEnc
import SfProofs.AdpcmRound
import SfProps.C07Block
namespace Sf.C07Adpcm
open Sf Sf.Adpcm Sf.AdpcmEnc Sf.AdpcmEnc.Proofs Sf.Block Sf.Block.Proofs Sf.C07Block Sf.Generated

/-- the shorts the codec is handed by a list of calls -/
def shorts (cv : Conv) (calls : List (Ty × List Int)) : List Int := calls.flatMap fun c => c.2.map (toCodec cv c.1)

/-- every call carries a whole number of frames (`sf_write_T` refuses other item counts with SFE_BAD_WRITE_ALIGN) -/
def Whole (g : Geo) (calls : List (Ty × List Int)) : Prop := ∀ c ∈ calls, c.2.length % g.ch = 0

/-- the converted frames of a session, call by call -/
def frameList (g : Geo) (cv : Conv) (calls : List (Ty × List Int)) : List (List Int) :=
  calls.flatMap fun c => framesOf g.ch (c.2.map (toCodec cv c.1))

theorem frameList_spec (g : Geo) (cv : Conv) : ∀ (calls : List (Ty × List Int)), Whole g calls →
    (frameList g cv calls).flatten = shorts cv calls ∧ Uniform g.ch (frameList g cv calls) := by
  intro calls
  induction calls with
  | nil => intro _; exact ⟨rfl, fun f hf => by simp [frameList] at hf⟩
  | cons c cs ih =>
    intro hw
    obtain ⟨h1, h2⟩ := ih (fun d hd => hw d (by simp [hd]))
    obtain ⟨a1, a2, _⟩ := framesOf_spec g.ch (c.2.map (toCodec cv c.1)) (by rw [List.length_map]; exact hw c (by simp))
    have e : frameList g cv (c :: cs) = framesOf g.ch (c.2.map (toCodec cv c.1)) ++ frameList g cv cs := by
      simp [frameList]
    rw [e]
    refine ⟨by rw [List.flatten_append, a1, h1]; simp [shorts], ?_⟩
    intro f hf
    rcases List.mem_append.mp hf with hf | hf
    · exact a2 f hf
    · exact h2 f hf

theorem adpcm_writer_wf (g : Geo) (hg : WGeo g) : WWF (writer g) :=
  ⟨(wgeo_pos g hg).1, (wgeo_pos g hg).2.1⟩

theorem adpcm_init_inv (g : Geo) (hg : WGeo g) : WInv (writer g) (initW g) := init_inv_w _ (adpcm_writer_wf g hg) _

/-- the staging pieces are whole frames: 4096 shorts = 4096 one-channel frames = 2048 two-channel frames -/
theorem adpcm_chunk_whole_frames (g : Geo) (hg : WGeo g) (ty : Ty) : ∃ q, chunkOf ty = q * g.ch := by
  unfold chunkOf chunkLen
  by_cases h : ty = .s16
  · exact ⟨0, by simp [h]⟩
  · rcases (wgeo_pos g hg).2.2.1 with hc | hc
    · exact ⟨4096, by simp [h, hc]⟩
    · exact ⟨2048, by simp [h, hc]⟩

/-- **any session is the per-frame fold**: every call of every caller type, whatever its staging pieces are, stores its
    converted frames one by one, encoding a block each time `samplesperblock` of them are there -/
theorem adpcm_write_is_fold (g : Geo) (hg : WGeo g) (cv : Conv) : ∀ (calls : List (Ty × List Int)) (st : WState ES),
    WInv (writer g) st → Whole g calls →
    calls.foldl (fun st c => writeCall g cv c.1 st c.2) st = (frameList g cv calls).foldl (pushFrame (writer g)) st ∧
      WInv (writer g) ((frameList g cv calls).foldl (pushFrame (writer g)) st) := by
  intro calls
  induction calls with
  | nil => intro st inv _; exact ⟨rfl, inv⟩
  | cons c cs ih =>
    intro st inv hw
    have wf := adpcm_writer_wf g hg
    obtain ⟨a1, a2, _⟩ := framesOf_spec g.ch (c.2.map (toCodec cv c.1)) (by rw [List.length_map]; exact hw c (by simp))
    obtain ⟨q, hq⟩ := adpcm_chunk_whole_frames g hg c.1
    have h1 := writeChunked_fold (writer g) wf q ((framesOf g.ch (c.2.map (toCodec cv c.1))).flatten.length + 1) st
      (framesOf g.ch (c.2.map (toCodec cv c.1))) inv a2
      (by rw [uniform_flatten_length _ a2]; exact Nat.lt_succ_of_le (Nat.le_mul_of_pos_right _ wf.ch_pos))
    have hcall : writeCall g cv c.1 st c.2 = (framesOf g.ch (c.2.map (toCodec cv c.1))).foldl (pushFrame (writer g)) st := by
      rw [← h1.1, uniform_flatten_length _ a2, a1]
      unfold writeCall
      simp only [hq]
      rw [← a1, uniform_flatten_length _ a2, a1]
      rfl
    obtain ⟨h2, h3⟩ := ih _ h1.2 (fun d hd => hw d (by simp [hd]))
    have e : frameList g cv (c :: cs) = framesOf g.ch (c.2.map (toCodec cv c.1)) ++ frameList g cv cs := by
      simp [frameList]
    rw [List.foldl_cons, hcall, h2, e, List.foldl_append]
    exact ⟨rfl, h3⟩

/-- **write-partition independence (full strength)**: the closed data region is a function of the concatenated converted
    shorts only — any two sessions of whole-frame calls, of any caller types, item or frame variants, 1 or 2 channels -/
theorem adpcm_write_partition (g : Geo) (hg : WGeo g) (cv : Conv) (calls1 calls2 : List (Ty × List Int))
    (hw1 : Whole g calls1) (hw2 : Whole g calls2) (h : shorts cv calls1 = shorts cv calls2) :
    closedBytes g cv calls1 = closedBytes g cv calls2 := by
  obtain ⟨f1, u1⟩ := frameList_spec g cv calls1 hw1
  obtain ⟨f2, u2⟩ := frameList_spec g cv calls2 hw2
  have e : frameList g cv calls1 = frameList g cv calls2 :=
    uniform_flatten_inj g.ch (wgeo_pos g hg).2.1 _ _ u1 u2 (by rw [f1, f2, h])
  unfold closedBytes session
  rw [(adpcm_write_is_fold g hg cv calls1 _ (adpcm_init_inv g hg) hw1).1,
    (adpcm_write_is_fold g hg cv calls2 _ (adpcm_init_inv g hg) hw2).1, e]

/-- the bytes of any session are the bytes of ONE call of shorts with the concatenation -/
theorem adpcm_closed_bytes_single (g : Geo) (hg : WGeo g) (cv : Conv) (calls : List (Ty × List Int)) (hw : Whole g calls) :
    closedBytes g cv calls = closedBytes g cv [(.s16, shorts cv calls)] := by
  have hid : toCodec cv Ty.s16 = id := by funext v; rfl
  have hs : shorts cv [(.s16, shorts cv calls)] = shorts cv calls := by simp [shorts, hid]
  apply adpcm_write_partition g hg cv _ _ hw _ hs.symm
  intro c hc
  simp only [List.mem_singleton] at hc
  subst hc
  obtain ⟨f1, u1⟩ := frameList_spec g cv calls hw
  show (shorts cv calls).length % g.ch = 0
  rw [← f1, uniform_flatten_length _ u1]
  exact Nat.mul_mod_left _ _

/-- the (type, value) sequence of a session -/
def tagged (calls : List (Ty × List Int)) : List (Ty × Int) := calls.flatMap fun c => c.2.map fun v => (c.1, v)

theorem shorts_of_tagged (cv : Conv) (calls : List (Ty × List Int)) :
    shorts cv calls = (tagged calls).map fun p => toCodec cv p.1 p.2 := by
  simp [shorts, tagged, List.map_flatMap, Function.comp_def]

/-- the same values of the same types, split into calls in any two ways: identical bytes -/
theorem adpcm_write_partition_typed (g : Geo) (hg : WGeo g) (cv : Conv) (calls1 calls2 : List (Ty × List Int))
    (hw1 : Whole g calls1) (hw2 : Whole g calls2) (h : tagged calls1 = tagged calls2) :
    closedBytes g cv calls1 = closedBytes g cv calls2 :=
  adpcm_write_partition g hg cv calls1 calls2 hw1 hw2 (by rw [shorts_of_tagged, shorts_of_tagged, h])

/-- what the open functions derive is a legal geometry — for ANY sample rate, also those whose product with the channel
    count wraps a C int (2^30 Hz stereo falls back to 256-byte blocks) -/
theorem adpcm_geometry (kind : Kind) (sr ch : Nat) (hch : ch = 1 ∨ ch = 2) : WGeo (geoOf kind sr ch) := geoOf_wgeo kind sr ch hch

example : geoOf .imaWav 44100 2 = ⟨.imaWav, 2, 2048, 2041⟩ ∧ geoOf .imaWav (2 ^ 30) 2 = ⟨.imaWav, 2, 256, 249⟩ ∧
    geoOf .ms 8000 1 = ⟨.ms, 1, 256, 500⟩ ∧ geoOf .ms 22050 2 = ⟨.ms, 2, 2048, 2036⟩ ∧ geoOf .imaAiff 1 2 = ⟨.imaAiff, 2, 34, 64⟩ := by
  decide

/-- non-vacuity of the partition theorem: 70 stereo frames of IMA AIFF (more than a block) as 1 + 68 + 1 frames of three
    caller types against one call of shorts -/
example : closedBytes (geoOf .imaAiff 8000 2) {} [(.s16, [1000, -1000]), (.s32, List.replicate 136 (2000 * 65536 + 77)), (.s16, [-3000, 3000])] =
    closedBytes (geoOf .imaAiff 8000 2) {} [(.s16, [1000, -1000] ++ List.replicate 136 2000 ++ [-3000, 3000])] := by
  apply adpcm_write_partition _ (adpcm_geometry _ _ _ (by decide))
  · intro c hc; simp at hc; rcases hc with rfl | rfl | rfl <;> simp [geoOf]
  · intro c hc; simp at hc; subst hc; simp [geoOf]
  · decide +kernel

/-! ## geometry of the closed data region -/

/-- state of the writer after `m` frames: position in the block, number of blocks out, each `blockBytes` long, the buffers
    of block size, the encoder state in range -/
structure SGeo (g : Geo) (st : WState ES) (m : Nat) : Prop where
  cnt : st.cnt = m % g.spb
  out : st.out.length = m / g.spb
  len : ∀ b ∈ st.out, b.length = g.blockBytes
  buf : st.buf.length = g.spb * g.ch
  es  : ESInv g st.es

theorem init_sgeo (g : Geo) : SGeo g (initW g) 0 :=
  ⟨by simp [initW, Writer.init], by simp [initW, Writer.init], by intro b hb; simp [initW, Writer.init] at hb,
    by simp [initW, Writer.init, writer, zeros], esInv_init g⟩

theorem pushFrame_sgeo (g : Geo) (hg : WGeo g) (st : WState ES) (m : Nat) (sg : SGeo g st m) (f : List Int) (hf : f.length = g.ch) :
    SGeo g (pushFrame (writer g) st f) (m + 1) := by
  obtain ⟨hspb, hch, _, _⟩ := wgeo_pos g hg
  have hlt : m % g.spb < g.spb := Nat.mod_lt _ hspb
  have hc := sg.cnt
  obtain ⟨dm1, dm2⟩ := step_divmod g.spb m hspb
  have hle : st.cnt * g.ch + g.ch ≤ st.buf.length := by
    rw [sg.buf]
    have := Nat.mul_le_mul_right g.ch (show st.cnt + 1 ≤ g.spb by omega)
    rwa [Nat.add_mul, Nat.one_mul] at this
  have hbuf : (overwrite st.buf (st.cnt * (writer g).ch) f (writer g).ch).length = g.spb * g.ch := by
    show (overwrite st.buf (st.cnt * g.ch) f g.ch).length = g.spb * g.ch
    rw [overwrite_length _ _ _ _ hle hf, sg.buf]
  unfold pushFrame
  simp only
  split
  · rename_i hfull0
    have hfull : m % g.spb + 1 ≥ g.spb := by rw [← hc]; exact hfull0
    obtain ⟨e1, e2⟩ := dm1 hfull
    obtain ⟨s1, s2⟩ := encOf_spec g hg st.es sg.es _ hbuf
    refine ⟨?_, ?_, ?_, hbuf, s2⟩
    · show 0 = (m + 1) % g.spb
      rw [e1]
    · show (_ :: st.out).length = (m + 1) / g.spb
      rw [List.length_cons, sg.out, e2]
    · intro b hbm
      simp only [Writer.emit] at hbm
      rcases List.mem_cons.mp hbm with h | h
      · rw [h]; exact s1
      · exact sg.len b h
  · rename_i hfull0
    have hfull : ¬ m % g.spb + 1 ≥ g.spb := by rw [← hc]; exact hfull0
    obtain ⟨e1, e2⟩ := dm2 hfull
    refine ⟨?_, ?_, sg.len, hbuf, sg.es⟩
    · show st.cnt + 1 = (m + 1) % g.spb
      rw [e1, hc]
    · show st.out.length = (m + 1) / g.spb
      rw [sg.out, e2]

theorem fold_sgeo (g : Geo) (hg : WGeo g) : ∀ (fs : List (List Int)) (st : WState ES) (m : Nat), Uniform g.ch fs → SGeo g st m →
    SGeo g (fs.foldl (pushFrame (writer g)) st) (m + fs.length) := by
  intro fs
  induction fs with
  | nil => intro st m _ sg; exact sg
  | cons f fs ih =>
    intro st m hu sg
    obtain ⟨h1, h2⟩ := uniform_cons hu
    have := ih _ (m + 1) h2 (pushFrame_sgeo g hg st m sg f h1)
    simp only [List.foldl_cons, List.length_cons]
    rw [show m + (fs.length + 1) = m + 1 + fs.length by omega]
    exact this

/-- frames of a session -/
def nframes (g : Geo) (cv : Conv) (calls : List (Ty × List Int)) : Nat := (shorts cv calls).length / g.ch

theorem frameList_length (g : Geo) (hg : WGeo g) (cv : Conv) (calls : List (Ty × List Int)) (hw : Whole g calls) :
    (frameList g cv calls).length = nframes g cv calls := by
  obtain ⟨f1, u1⟩ := frameList_spec g cv calls hw
  unfold nframes
  rw [← f1, uniform_flatten_length _ u1, Nat.mul_div_cancel _ (wgeo_pos g hg).2.1]

/-- **every state any session reaches**: position = frames mod block, blocks out = frames div block, every block
    `blockBytes` long, step indices inside the table -/
theorem adpcm_session_state (g : Geo) (hg : WGeo g) (cv : Conv) (calls : List (Ty × List Int)) (hw : Whole g calls) :
    SGeo g (session g cv calls) (nframes g cv calls) := by
  unfold session
  rw [(adpcm_write_is_fold g hg cv calls _ (adpcm_init_inv g hg) hw).1]
  have := fold_sgeo g hg (frameList g cv calls) _ 0 (frameList_spec g cv calls hw).2 (init_sgeo g)
  rwa [Nat.zero_add, frameList_length g hg cv calls hw] at this

theorem flatten_length_const {α : Type} (n : Nat) : ∀ (l : List (List α)), (∀ b ∈ l, b.length = n) → l.flatten.length = l.length * n := by
  intro l
  induction l with
  | nil => intro _; simp
  | cons a l ih =>
    intro h
    rw [List.flatten_cons, List.length_append, h a (by simp), ih (fun b hb => h b (by simp [hb])), List.length_cons, Nat.succ_mul]
    omega

/-- the blocks a closed session holds: ⌈N / samplesperblock⌉ of them, `blockBytes` each -/
theorem closeSt_blocks (g : Geo) (hg : WGeo g) (st : WState ES) (n : Nat) (sg : SGeo g st n) :
    (closeSt g st).out.length = (n + (g.spb - 1)) / g.spb ∧ ∀ b ∈ (closeSt g st).out, b.length = g.blockBytes := by
  obtain ⟨hspb, hch, _, _⟩ := wgeo_pos g hg
  rw [ceil_blocks g.spb n hspb]
  unfold closeSt
  by_cases hz : st.cnt = 0
  · rw [if_pos hz, if_pos (by rw [← sg.cnt]; exact hz)]
    exact ⟨sg.out, sg.len⟩
  · rw [if_neg hz, if_neg (by rw [← sg.cnt]; exact hz)]
    have hlt : n % g.spb < g.spb := Nat.mod_lt _ hspb
    have hpad : (st.buf.take (st.cnt * g.ch) ++ st.es.stale.drop (st.cnt * g.ch)).length = g.spb * g.ch := by
      have hle : st.cnt * g.ch ≤ g.spb * g.ch := Nat.mul_le_mul_right _ (by rw [sg.cnt]; omega)
      rw [List.length_append, List.length_take, List.length_drop, sg.buf, sg.es.stale]
      omega
    obtain ⟨s1, _⟩ := encOf_spec g hg st.es sg.es _ hpad
    constructor
    · show (_ :: st.out).length = n / g.spb + 1
      rw [List.length_cons, sg.out]
    · intro b hbm
      simp only [Writer.emit] at hbm
      rcases List.mem_cons.mp hbm with h | h
      · rw [h]; exact s1
      · exact sg.len b h

/-- **geometry**: a session of N frames (any calls, any types) leaves ⌈N / samplesperblock⌉ whole blocks in the data region -/
theorem adpcm_closed_length (g : Geo) (hg : WGeo g) (cv : Conv) (calls : List (Ty × List Int)) (hw : Whole g calls) :
    (closedBytes g cv calls).length = (nframes g cv calls + (g.spb - 1)) / g.spb * g.blockBytes := by
  obtain ⟨h1, h2⟩ := closeSt_blocks g hg _ _ (adpcm_session_state g hg cv calls hw)
  unfold closedBytes WState.bytes
  rw [flatten_length_const g.blockBytes _ (by intro b hb; exact h2 b (List.mem_reverse.mp hb)), List.length_reverse, h1]

example : (closedBytes (geoOf .imaAiff 8000 1) {} [(.s16, List.replicate 65 7)]).length = 68 := by
  rw [adpcm_closed_length _ (adpcm_geometry _ _ _ (by decide)) _ _ (by intro c hc; simp at hc; subst hc; simp [geoOf])]
  decide +kernel

/-- **frames at re-open**: N frames written (any session): a reader of the closed data region finds F frames with
    N ≤ F < N + samplesperblock (the last block is padded; the data length is all the reader uses) -/
theorem adpcm_frames_at_reopen (g : Geo) (hg : WGeo g) (cv : Conv) (calls : List (Ty × List Int)) (hw : Whole g calls) :
    nframes g cv calls ≤ framesAtOpen g (closedBytes g cv calls).length ∧
    framesAtOpen g (closedBytes g cv calls).length < nframes g cv calls + g.spb ∧
    framesAtOpen g (closedBytes g cv calls).length = (nframes g cv calls + (g.spb - 1)) / g.spb * g.spb := by
  obtain ⟨hspb, hch, hc12, hba⟩ := wgeo_pos g hg
  rw [adpcm_closed_length g hg cv calls hw]
  generalize nframes g cv calls = n
  have hF : framesAtOpen g ((n + (g.spb - 1)) / g.spb * g.blockBytes) = (n + (g.spb - 1)) / g.spb * g.spb := by
    generalize (n + (g.spb - 1)) / g.spb = k
    unfold framesAtOpen Geo.blockBytes
    cases hk : g.kind with
    | imaWav =>
      simp only [reduceCtorEq, if_false]
      rw [Nat.mul_mod_left, Nat.mul_div_cancel _ hba]; simp [Nat.mul_comm]
    | imaAiff =>
      simp only [if_true]
      rw [← Nat.mul_assoc, Nat.mul_mod_left, Nat.mul_div_cancel _ hba]
      simp only [ne_eq, not_true_eq_false, if_false]
      rw [Nat.mul_comm g.spb, Nat.mul_assoc, Nat.mul_comm g.ch, ← Nat.mul_assoc, Nat.mul_div_cancel _ hch]
    | ms =>
      simp only [reduceCtorEq, if_false]
      rw [Nat.mul_div_cancel _ hba]
  rw [hF, ceil_blocks g.spb n hspb]
  have hdm := Nat.div_add_mod n g.spb
  have hlt := Nat.mod_lt n hspb
  generalize n / g.spb = q at hdm ⊢
  generalize n % g.spb = r at hdm hlt ⊢
  by_cases hr : r = 0
  · rw [if_pos hr]
    rw [Nat.mul_comm] at hdm
    exact ⟨by omega, by omega, rfl⟩
  · rw [if_neg hr, Nat.add_mul, Nat.one_mul]
    rw [Nat.mul_comm] at hdm
    exact ⟨by omega, by omega, rfl⟩

example : framesAtOpen (geoOf .imaAiff 8000 2) (closedBytes (geoOf .imaAiff 8000 2) {} [(.s16, List.replicate 130 5)]).length = 128 := by
  rw [(adpcm_frames_at_reopen _ (adpcm_geometry _ _ _ (by decide)) _ _ (by intro c hc; simp at hc; subst hc; simp [geoOf])).2.2]
  decide +kernel

/-- **the frame count handed to the header writer** (`fact` chunk of WAV / W64, numSampleFrames × 64 of AIFF) for a session
    of N frames closed with B encode calls: MS: N itself when the open left 0 there (WAV), the "stupidly high" length
    `w64_open` leaves otherwise; IMA with one channel: the re-open count; IMA with two channels: HALF the re-open count
    (`samplesperblock * blockcount / channels` — the division is by the channel count although `samplesperblock` already
    counts frames).  No reader of this library looks at the field for these encodings, and no property speaks about it. -/
theorem adpcm_header_frames (g : Geo) (nblk n : Nat) :
    (g.kind = .ms → headerFrames g nblk n (openFrames false) = n ∧ (n < 2 ^ 62 → headerFrames g nblk n (openFrames true) = 2 ^ 63 - 10001)) ∧
    (g.kind ≠ .ms → g.ch = 1 → ∀ o, headerFrames g nblk n o = nblk * g.spb) ∧
    (g.kind ≠ .ms → g.ch = 2 → ∀ o, headerFrames g nblk n o = nblk * g.spb / 2) := by
  unfold headerFrames openFrames
  refine ⟨fun h => ⟨by simp [h], fun hn => by simp only [h, if_true]; omega⟩,
    fun h hc o => by simp [h, hc, Nat.mul_comm], fun h hc o => by simp [h, hc, Nat.mul_comm]⟩

example : headerFrames (geoOf .imaWav 8000 2) 3 600 0 = 757 ∧ framesAtOpen (geoOf .imaWav 8000 2) (3 * 512) = 1515 ∧
    headerField (geoOf .imaAiff 8000 2) (headerFrames (geoOf .imaAiff 8000 2) 39 2463 0) = 19 := by decide

/-! ## encoder invariants: every index, every stored value in range, for EVERY input -/

/-- one IMA encoder step, from ANY state on ANY sample: the code fits a nibble, the new predictor a `short`, the new step
    index the table -/
theorem ima_step_in_range (c : Ch) (x : Int) :
    (imaStep c x).2 < 16 ∧ -32768 ≤ (imaStep c x).1.prev ∧ (imaStep c x).1.prev ≤ 32767 ∧
    0 ≤ (imaStep c x).1.idx ∧ (imaStep c x).1.idx ≤ 88 := by
  obtain ⟨h1, h2, h3⟩ := imaStep_ok c x
  exact ⟨h3, h2.1, h2.2, h1.lo, h1.hi⟩

/-- with the step index in range, `ima_step_size [stepindx]` and `ima_indx_adjust [bytecode]` index inside their tables -/
theorem ima_table_indices_safe (c : Ch) (h0 : 0 ≤ c.idx) (h1 : c.idx ≤ 88) (x : Int) :
    c.idx.toNat < imaStepTab.length ∧ (imaStep c x).2 < imaIndexAdjust.length := by
  have := (imaStep_ok c x).2.2
  refine ⟨?_, this⟩
  show c.idx.toNat < 89
  omega

/-- every encoder state any session reaches has both step indices inside the table (the invariant that makes the table
    accesses of the next block safe) -/
theorem adpcm_session_indices (g : Geo) (hg : WGeo g) (cv : Conv) (calls : List (Ty × List Int)) (hw : Whole g calls) :
    let es := (session g cv calls).es
    0 ≤ es.st.1.idx ∧ es.st.1.idx ≤ 88 ∧ 0 ≤ es.st.2.idx ∧ es.st.2.idx ≤ 88 := by
  have := (adpcm_session_state g hg cv calls hw).es
  exact ⟨this.c0.lo, this.c0.hi, this.c1.lo, this.c1.hi⟩

example : (imaStep ⟨32767, 88⟩ (-32768)).2 = 15 ∧ (imaStep ⟨32767, 88⟩ (-32768)).1 = ⟨-28669, 88⟩ ∧ (imaStep ⟨0, 0⟩ 0).1.idx = 0 := by decide

/-- `choose_predictor`, ANY block: the predictor is one of the 7 coefficient pairs, the initial delta at least 16 -/
theorem ms_predictor_in_range (channels : Nat) (data : List Int) (chan : Nat) :
    (msChoose channels data chan).1 < 7 ∧ 16 ≤ (msChoose channels data chan).2 := msChoose_range channels data chan

/-- one MS encoder pass from ANY state: the code fits a nibble, the reconstruction is a `short`, a delta ≥ 16 stays ≥ 16 -/
theorem ms_step_in_range (channels : Nat) (bpred : Nat × Nat) (k : Nat) (x : Int) (idelta : Int × Int) (hist : List Int) :
    (msStep channels bpred k x idelta hist).2.1 < 16 ∧
    -32768 ≤ (msStep channels bpred k x idelta hist).2.2 ∧ (msStep channels bpred k x idelta hist).2.2 ≤ 32767 ∧
    (16 ≤ idelta.1 → 16 ≤ (msStep channels bpred k x idelta hist).1.1) ∧
    (16 ≤ idelta.2 → 16 ≤ (msStep channels bpred k x idelta hist).1.2) := by
  obtain ⟨h1, h2, h3⟩ := msStep_ok channels bpred k x idelta hist
  obtain ⟨h4, h5⟩ := msStep_idelta channels bpred k x idelta hist
  exact ⟨h1, h2, h3, h4, h5⟩

/-- `AdaptCoeff1/2 [bpred]` and `AdaptationTable [errordelta]` index inside their tables -/
theorem ms_table_indices_safe (channels : Nat) (data : List Int) (chan : Nat) (bpred : Nat × Nat) (k : Nat) (x : Int)
    (idelta : Int × Int) (hist : List Int) :
    (msChoose channels data chan).1 < msCoeff1.length ∧ (msChoose channels data chan).1 < msCoeff2.length ∧
    (msStep channels bpred k x idelta hist).2.1 < msAdaptationTab.length :=
  ⟨(msChoose_range channels data chan).1, (msChoose_range channels data chan).1, (msStep_ok channels bpred k x idelta hist).1⟩

example : msChoose 1 [0, 100, 200, 300, 400] 0 = (1, 16) ∧ msChoose 2 [5, 9, 5, 9, 5, 9, 5, 9, 5, 9] 1 = (0, 16) ∧
    msChoose 1 [0, 30000, -30000, 30000, -30000] 0 = (2, 7500) := by decide

/-! ## sf_seek on the writing handle -/

/-- **a refused seek leaves no trace** (current rule, after the repair of KF-IMA-WAV-SEEK-WRITE): whenever `sf_seek` on a
    handle opened for writing is refused, the file position, the block counter and the pending frames are untouched — every
    layout, every geometry, every target -/
theorem adpcm_refused_seek_clean (g : Geo) (off : Nat) (h : (seekWrite g off).ret = none) :
    (seekWrite g off).restart = false ∧ (seekWrite g off).dropped = false := by
  unfold seekWrite at h ⊢
  cases hk : g.kind <;> simp only [hk] at h ⊢
  · exact ⟨trivial, trivial⟩
  · exact ⟨trivial, trivial⟩
  · by_cases h0 : off = 0
    · simp [h0] at h
    · simp [h0]

/-- the rule before the repair: the statement above fails — the refused seek to frame 0 of an IMA WAV writer rewinds the file -/
theorem adpcm_refused_seek_old_rule :
    ¬ (∀ (g : Geo) (off : Nat), (seekWriteOld g off).ret = none → (seekWriteOld g off).restart = false) := by
  intro h
  have := h (geoOf .imaWav 8000 1) 0 (by decide)
  revert this
  decide

/-- IMA writers refuse every target; an MS writer accepts exactly frame 0 (and starts over) -/
theorem adpcm_write_seek_results (g : Geo) (off : Nat) :
    (g.kind ≠ .ms → (seekWrite g off).ret = none) ∧
    (g.kind = .ms → ((seekWrite g off).ret = some 0 ↔ off = 0) ∧ (off ≠ 0 → (seekWrite g off).ret = none)) := by
  unfold seekWrite
  cases hk : g.kind <;> simp
  by_cases h0 : off = 0 <;> simp [h0]

example : seekWrite (geoOf .imaWav 44100 2) 0 = ⟨none, false, false⟩ ∧ seekWriteOld (geoOf .imaWav 44100 2) 0 = ⟨none, true, false⟩ ∧
    seekWrite (geoOf .ms 44100 2) 0 = ⟨some 0, true, true⟩ ∧ seekWrite (geoOf .ms 44100 2) 7 = ⟨none, false, false⟩ := by decide

/-! ## what a re-open reads: the decoders of SfModel/Adpcm.lean run on the encoders' blocks -/

/-- the blocks of a closed session in file order -/
def closedBlocks (g : Geo) (cv : Conv) (calls : List (Ty × List Int)) : List (List Byte) := (closeSt g (session g cv calls)).out.reverse

/-- **the stream of a library-written file**: the reader of SfModel/AdpcmReader.lean (the model behind C06's `block_reader_refines_stream`,
    `partition_invariance_block`, `seek_then_read_block`) opened over the closed data region finds ⌈N / samplesperblock⌉ blocks,
    reports that many blocks' worth of frames — the value `framesAtOpen` computes from the length — and its block k is the
    DECODER (`imaWavDecodeBlock` / `imaAiffDecodeBlock` / `msDecodeBlock`, proved equal to the reference decoders in
    SfProps/C20Adpcm.lean) run on the k-th block the ENCODER emitted -/
theorem adpcm_written_stream (g : Geo) (hg : WGeo g) (cv : Conv) (calls : List (Ty × List Int)) (hw : Whole g calls) :
    (closedBlocks g cv calls).length = (nframes g cv calls + (g.spb - 1)) / g.spb ∧
    (readerOf g (closedBytes g cv calls)).frames = framesAtOpen g (closedBytes g cv calls).length ∧
    ∀ k, k < (closedBlocks g cv calls).length →
      (readerOf g (closedBytes g cv calls)).src k = fixLen (g.spb * g.ch) (decOf g ((closedBlocks g cv calls).getD k [])) := by
  obtain ⟨h1, h2⟩ := closeSt_blocks g hg _ _ (adpcm_session_state g hg cv calls hw)
  obtain ⟨hspb, hch, _, hba⟩ := wgeo_pos g hg
  have hbb : 0 < g.blockBytes := by
    unfold Geo.blockBytes
    split
    · exact Nat.mul_pos hch hba
    · exact hba
  have hall : ∀ b ∈ closedBlocks g cv calls, b.length = g.blockBytes := fun b hb => h2 b (List.mem_reverse.mp hb)
  have hlen : (closedBlocks g cv calls).length = (nframes g cv calls + (g.spb - 1)) / g.spb := by
    unfold closedBlocks; rw [List.length_reverse, h1]
  obtain ⟨r1, r2⟩ := adpcmReader_blocks (decOf g) g.ch g.blockBytes g.spb hbb (closedBlocks g cv calls) hall
  have e : closedBytes g cv calls = (closedBlocks g cv calls).flatten := rfl
  refine ⟨hlen, ?_, ?_⟩
  · rw [(adpcm_frames_at_reopen g hg cv calls hw).2.2, e]
    unfold readerOf
    rw [r1, hlen, Nat.mul_comm]
  · intro k hk
    rw [e]
    exact r2 k hk

/-- … so the decoded stream of a library-written file is a function of the concatenated converted shorts: two sessions with
    the same shorts give the same reader (same frame count, same blocks), whatever the calls were -/
theorem adpcm_written_stream_partition (g : Geo) (hg : WGeo g) (cv : Conv) (calls1 calls2 : List (Ty × List Int))
    (hw1 : Whole g calls1) (hw2 : Whole g calls2) (h : shorts cv calls1 = shorts cv calls2) :
    readerOf g (closedBytes g cv calls1) = readerOf g (closedBytes g cv calls2) := by
  rw [adpcm_write_partition g hg cv calls1 calls2 hw1 hw2 h]

/-- non-vacuity: 3 mono frames of MS ADPCM at 8000 Hz: one 256-byte block; the re-open stream starts with the two header
    samples verbatim and has 500 frames -/
example : (readerOf (geoOf .ms 8000 1) (closedBytes (geoOf .ms 8000 1) {} [(.s16, [1000, -2000, 3000])])).frames = 500 ∧
    ((readerOf (geoOf .ms 8000 1) (closedBytes (geoOf .ms 8000 1) {} [(.s16, [1000, -2000, 3000])])).src 0).take 2 = [1000, -2000] := by
  decide +kernel

/-! ## the conversions in front of the encoders (C02) -/

/-- `ima_write_i` / `msadpcm_write_i`: an int is narrowed by keeping its most significant 16 bits — whatever the low half
    holds, for negative values too (`>> 16`, not a division); a short passes through unchanged -/
theorem adpcm_int_narrowing (cv : Conv) (x r : Int) (hr0 : 0 ≤ r) (hr1 : r < 65536) :
    toCodec cv .s32 (x * 65536 + r) = x ∧ toCodec cv .s16 x = x := by
  refine ⟨?_, rfl⟩
  show asr (x * 65536 + r) 16 = x
  unfold asr
  have : (2 : Int) ^ 16 = 65536 := by decide
  rw [this]
  omega

example : toCodec {} .s32 (-3 * 65536 + 0x8001) = -3 ∧ toCodec {} .s32 (-1) = -1 := by decide

/-! ## the decoders track the encoder -/

/-- **one sample**: fed the code the encoder emitted, the decoder's update (the same in `wavlike_ima_decode_block` and
    `aiff_ima_decode_block`) lands on the encoder's new predictor and step index; the predictor it stores is a `short` -/
theorem ima_decoder_tracks_encoder (c : Ch) (h0 : 0 ≤ c.idx) (h1 : c.idx ≤ 88) (x : Int) :
    clamp16 (c.prev + imaDiff (imaStepSize c.idx) (imaStep c x).2) = (imaStep c x).1.prev ∧
    clampImaStepIndex (wrapS 16 (c.idx + imaIndxAdjust (imaStep c x).2)) = (imaStep c x).1.idx ∧
    wrapS 16 (imaStep c x).1.prev = (imaStep c x).1.prev := ima_decoder_step c ⟨h0, h1⟩ x

/-- **a run of one channel**: the decode loop started from the encoder's state reproduces the encoder's reconstruction
    (`imaRecon`: the predictor after every sample) for ANY samples.  (In the AIFF layout the block header keeps only the top
    9 bits of the predictor, so a decoder of the FILE starts a block from the truncated value; in the WAV layout the header
    holds the first sample itself.) -/
theorem ima_decoder_run_tracks (xs : List Int) (c : Ch) (h0 : 0 ≤ c.idx) (h1 : c.idx ≤ 88) :
    aiffDecodeLoop (imaRun c xs).2 c.prev c.idx = imaRecon c xs := ima_decoder_run xs c ⟨h0, h1⟩

/-- **decode (encode block)**, WAV / W64 layout, one channel, every block size 4(m+1), every carried step index, every buffer
    of shorts: `wavlike_ima_decode_block` on the block `wavlike_ima_encode_block` made = the first sample verbatim, then the
    encoder's own reconstruction -/
theorem ima_wav_mono_roundtrip (m : Nat) (st : Ch × Ch) (h0 : 0 ≤ st.1.idx) (h1 : st.1.idx ≤ 88) (buf : List Int)
    (hb : buf.length = 8 * m + 1) (hs0 : -32768 ≤ buf.getD 0 0) (hs1 : buf.getD 0 0 ≤ 32767) :
    imaWavDecodeBlock 1 (8 * m + 1) (imaWavEncodeBlock 1 (8 * m + 1) st buf).2.1 =
      buf.getD 0 0 :: imaRecon ⟨buf.getD 0 0, st.1.idx⟩ (buf.drop 1) :=
  ima_wav_mono_decode_encode m st ⟨h0, h1⟩ buf hb hs0 hs1

example : imaWavDecodeBlock 1 9 (imaWavEncodeBlock 1 9 ({}, {}) [100, 200, -300, 400, 32767, -32768, 0, 1, 2]).2.1 =
    [100, 111, 81, 144, 280, -13, 29, -9, 25] := by decide

end Sf.C07Adpcm
