-- properties: C04 C11
/-
  C04 / C11 — the PAF container (stand-alone L1 model SfModel/Paf.lean over SfModel/SmallSession.lean; the frame count
  of the 24-bit block encoding is `Sf.Paf24.maxBlocks` of SfModel/Paf24.lean; helpers SfProofs/SmallSession.lean,
  SfProofs/Paf.lean).  Property theorems only.

  The 2048-byte header holds no length and is written once, at open.  For the 24-bit encoding the audio bytes of a
  session are the 32-bytes-per-channel blocks the codec stores (the last, partial block is stored by paf24_close).
-/
import SfModel.Paf
import SfProofs.Paf
namespace Sf.C04Paf
open Sf Sf.Small Sf.Paf

theorem closedBytes_eq (c : Cfg) (stale : Nat) (ops : List WOp) : closedBytes (spec c) stale ops = hdr c ++ opsData ops := by
  obtain ⟨_, _, _, h⟩ := closed_noheader (spec c) (spec_lenOk c) rfl stale ops
  exact h

theorem snapshotBytes_eq (c : Cfg) (stale : Nat) (ops : List WOp) : snapshotBytes (spec c) stale ops = hdr c ++ opsData ops := by
  obtain ⟨_, _, _, h⟩ := snapshot_any (spec c) (spec_lenOk c) stale ops
  exact h

/-- **paf_reopen_info.**  For every accepted configuration (PCM S8 / 16 / 24, either byte order, up to 1024 channels,
    any rate up to 2^31 − 1: the rate field has 32 bits) and every session the closed file re-opens with the requested
    channels, format word (the byte order is always recorded) and rate; frames = audio bytes / block width for
    PCM S8 / 16 and ten per started 32-byte-per-channel block for the 24-bit encoding. -/
theorem paf_reopen_info (c : Cfg) (hwf : c.wf) (stale : Nat) (ops : List WOp) :
    parse (closedBytes (spec c) stale ops) =
      .ok { ch := c.ch, fmt := c.fmtWord, sr := c.sr, frames := framesOf c (opsData ops).length } := by
  rw [closedBytes_eq]; exact parse_hdr c hwf _

/-- whole blocks: `k` blocks of 32 bytes per channel are counted as `k` -/
theorem maxBlocks_whole (ch k : Nat) (hch : 0 < ch) : Paf24.maxBlocks ch (k * (32 * ch)) = k := by
  unfold Paf24.maxBlocks Paf24.chanBytes
  have h0 : k * (32 * ch) % 32 = 0 := by
    have : k * (32 * ch) = 32 * (k * ch) := by rw [Nat.mul_left_comm]
    rw [this]; exact Nat.mul_mod_right 32 _
  rw [if_neg (by simp [h0])]
  exact Nat.mul_div_cancel _ (by omega)

/-- **paf_frames_bound.**  PCM S8 / 16: N whole frames written re-open as exactly N.  24-bit: the ⌈N / 10⌉ blocks the
    codec stores re-open as F = 10 ⌈N / 10⌉ frames, N ≤ F < N + 10 (block length 10). -/
theorem paf_frames_bound (c : Cfg) (hwf : c.wf) (N D : Nat) :
    (c.codec ≠ 0x03 → D = N * c.bw → framesOf c D = N) ∧
    (c.codec = 0x03 → D = ((N + 9) / 10) * (32 * c.ch) → N ≤ framesOf c D ∧ framesOf c D < N + 10 ∧ framesOf c D = 10 * ((N + 9) / 10)) := by
  obtain ⟨hc, h1, _⟩ := cfg_cases c hwf
  constructor
  · intro h3 hD
    have hbw : 0 < c.bw := by unfold Cfg.bw Cfg.bytewidth; rcases hc with h | h | h <;> rw [h] <;> omega
    unfold framesOf; rw [if_neg h3, hD, Nat.mul_div_cancel _ hbw]
  · intro h3 hD
    unfold framesOf; rw [if_pos h3, hD, maxBlocks_whole c.ch _ (by omega)]
    unfold Paf24.spb
    omega

def exCfg : Cfg := ⟨0x02, 0, 2, 44100⟩
def exLe24 : Cfg := ⟨0x03, 3, 1, 2147483647⟩
def exOps : List WOp := [.write [0, 1, 0, 2] false, .update, .write [0, 3, 0, 4, 0, 5, 0, 6] true]

example : exCfg.wf ∧ (closedBytes (spec exCfg) 99 exOps).length = 2060 ∧
    parse (closedBytes (spec exCfg) 99 exOps) = .ok ⟨2, 0x20050002, 44100, 3⟩ := by
  refine ⟨by decide, ?_, ?_⟩
  · rw [closedBytes_eq, List.length_append, hdr_length]; rfl
  · rw [paf_reopen_info exCfg (by decide)]; decide
example : exLe24.wf ∧ framesOf exLe24 64 = 20 ∧ exLe24.fmtWord = 0x10050003 ∧ framesOf exLe24 33 = 20 := by decide

/-- **paf_size_fields.**  The header holds no length field; the file is 2048 header bytes plus the audio. -/
theorem paf_size_fields (c : Cfg) (stale : Nat) (ops : List WOp) :
    (closedBytes (spec c) stale ops).length = 2048 + (opsData ops).length ∧
    (closedBytes (spec c) stale ops).take 2048 = hdr c := by
  rw [closedBytes_eq]
  exact ⟨by rw [List.length_append, hdr_length]; rfl, List.take_left' (hdr_length c)⟩

/-- **stale_frames_ignored_paf.**  No byte of a PAF file depends on the frames value the caller left in SF_INFO. -/
theorem stale_frames_ignored_paf (c : Cfg) (a b : Nat) (ops : List WOp) :
    closedBytes (spec c) a ops = closedBytes (spec c) b ops ∧ snapshotBytes (spec c) a ops = snapshotBytes (spec c) b ops ∧
    (openW (spec c) a).bytes = (openW (spec c) b).bytes := by
  rw [closedBytes_eq, closedBytes_eq, snapshotBytes_eq, snapshotBytes_eq]
  exact ⟨rfl, rfl, rfl⟩

example : closedBytes (spec exCfg) 0 exOps = closedBytes (spec exCfg) 123456 exOps := by rw [closedBytes_eq, closedBytes_eq]

/-- **paf_snapshot_valid** (C11).  After any session prefix the image a header update leaves in the store is the
    header followed by exactly the audio bytes stored so far and parses with the requested parameters; for the 24-bit
    encoding the stored bytes are the completed blocks, so the count is the frames written rounded down to whole blocks
    (`paf_frames_floor`). -/
theorem paf_snapshot_valid (c : Cfg) (hwf : c.wf) (stale : Nat) (ops : List WOp) :
    parse (snapshotBytes (spec c) stale ops) =
      .ok { ch := c.ch, fmt := c.fmtWord, sr := c.sr, frames := framesOf c (opsData ops).length } ∧
    snapshotBytes (spec c) stale ops = hdr c ++ opsData ops := by
  rw [snapshotBytes_eq]; exact ⟨parse_hdr c hwf _, rfl⟩

/-- ⌊N / 10⌋ completed blocks of the 24-bit encoding are reported as 10 ⌊N / 10⌋ frames -/
theorem paf_frames_floor (c : Cfg) (hwf : c.wf) (h3 : c.codec = 0x03) (N : Nat) :
    framesOf c ((N / 10) * (32 * c.ch)) = 10 * (N / 10) := by
  obtain ⟨_, h1, _⟩ := cfg_cases c hwf
  unfold framesOf; rw [if_pos h3, maxBlocks_whole c.ch _ (by omega)]; rfl

example : framesOf exLe24 ((25 / 10) * (32 * 1)) = 20 := by decide

end Sf.C04Paf
