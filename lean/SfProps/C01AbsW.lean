/-
  C01 on the WRITE-SIDE PREDICATE (SfModel/AbsWrite.lean) — the clause `roundtrip` of `Sf.AbsWrite.judge`, which the check
  evaluates on the implementation's own records (`sfmodel abs-write`): what an accepted record MEANS, whatever code
  produced it, and that the answer the concrete model is proved to give (`C01.file_roundtrip`) IS accepted.
  Property theorems only; lemmas in SfProofs/AbsWriteMeaning.lean, AbsWriteComplete.lean.
-/
import SfProofs.AbsWriteComplete
import SfProps.C01
namespace Sf.C01AbsW
open Sf Sf.Abs Sf.AbsWrite

/-- MEANING (C01 at full strength, any container, any encoding): in an accepted record whose written stream meets the
    side condition of the statement, every write call accepted what it was handed, the closed file re-opened, the
    read-back delivered at least the N written frames, and its first N·ch items ARE the written items, bit for bit. -/
theorem roundtrip_abs (r : Record) (h : accepted r = true) (hs : sameType r.ty r.one.calls = true)
    (hl : losslessFor r.g r.ty (written r.g.ch r.one.calls) = true) :
    (∀ c ∈ r.one.calls, c.ret = c.n) ∧ r.one.close = 0 ∧ r.info.null = false ∧
    (written r.g.ch r.one.calls).size ≤ r.rb.ret.toNat * cells r.ty ∧
    r.rb.data.extract 0 (written r.g.ch r.one.calls).size = written r.g.ch r.one.calls := by
  have a := accepted_meaning r h
  obtain ⟨h1, h2⟩ := roundtripOk_meaning r.g r.ty r.one.calls r.rb a.roundtrip hs hl
  exact ⟨a.calls, a.closed, a.reopened, h1, h2⟩

/-- the side condition is a condition on the encoding and on every written cell: the pair has a lossless rule
    (`losslessLow`) and each cell meets it (low bits zero / finite float into binary64) -/
theorem side_condition_abs (g : AbsWrite.Geom) (ty : Ty) (w : Array Item) (h : losslessFor g ty w = true) :
    ∃ lz, losslessLow g.codec ty = some lz ∧ ∀ k (hk : k < w.size), cellOk g.codec ty lz w[k] = true :=
  losslessFor_cells g ty w h

/-- the low-bits rule on the printed cell is the rule on the value: `wrapU B v % 2^k = 0 ↔ v % 2^k = 0` for `k ≤ B` -/
theorem wrapU_mod (B k : Nat) (hk : k ≤ B) (v : Int) : wrapU B v % 2 ^ k = 0 ↔ v % 2 ^ k = 0 := by
  unfold wrapU
  have hpos : (0 : Int) ≤ v % (2 ^ B : Int) := Int.emod_nonneg _ (by positivity)
  have hdvd : ((2 : Int) ^ k) ∣ (2 ^ B : Int) := pow_dvd_pow 2 hk
  have h1 : (v % (2 ^ B : Int)) % (2 ^ k : Int) = v % (2 ^ k : Int) := Int.emod_emod_of_dvd v hdvd
  constructor
  · intro h
    have : (((v % (2 ^ B : Int)).toNat % 2 ^ k : Nat) : Int) = 0 := by rw [h]; rfl
    rw [Int.natCast_mod, Int.toNat_of_nonneg hpos] at this
    push_cast at this
    rw [h1] at this; exact this
  · intro h
    have : (((v % (2 ^ B : Int)).toNat % 2 ^ k : Nat) : Int) = 0 := by
      rw [Int.natCast_mod, Int.toNat_of_nonneg hpos]; push_cast; rw [h1]; exact h
    exact_mod_cast this

/-- the side condition of the predicate IS the side condition of the model (`Sf.lossless`, SfProofs/Codec.lean) for
    integer PCM: with `lz = W − w` low bits (0 when the encoding is at least as wide) the cell rule on the printed 16- /
    32-bit pattern says exactly `w ≥ W ∨ v % 2^(W−w) = 0` -/
theorem side_condition_matches_model (p : PcmFmt) (codec : Nat) (v : Int) :
    (cellOk codec .s16 (16 - p.w) (wrapU 16 v) = true ↔ lossless (.pcm p) .s16 v) ∧
    (cellOk codec .s32 (32 - p.w) (wrapU 32 v) = true ↔ lossless (.pcm p) .s32 v) := by
  constructor
  · show (wrapU 16 v % 2 ^ (16 - p.w) == 0) = true ↔ (16 ≤ p.w ∨ v % 2 ^ (16 - p.w) = 0)
    rw [beq_iff_eq, wrapU_mod 16 (16 - p.w) (by omega) v]
    constructor
    · exact Or.inr
    · rintro (hw | hv)
      · rw [show 16 - p.w = 0 by omega]; simp
      · exact hv
  · show (wrapU 32 v % 2 ^ (32 - p.w) == 0) = true ↔ (32 ≤ p.w ∨ v % 2 ^ (32 - p.w) = 0)
    rw [beq_iff_eq, wrapU_mod 32 (32 - p.w) (by omega) v]
    constructor
    · exact Or.inr
    · rintro (hw | hv)
      · rw [show 32 - p.w = 0 by omega]; simp
      · exact hv

/-- COMPLETENESS against the concrete model: for every RAW / AU / WAV session `C01.file_roundtrip` speaks about (any
    split into well-formed calls, lossless in-range samples), a record whose written stream is the cells of the session's
    samples and whose read-back starts with the cells of what the data region of the model's closed file decodes to, is
    accepted by the C01 clause: a model-conformant library is never flagged. -/
theorem file_roundtrip_accepted (fmt : Nat) (ch sr : Int) (h : H) (s : Store)
    (ho : openHandle 0 {} .w fmt ch sr = .ok h s)
    (ty : Ty) (ops : List WOp) (hok : ∀ op ∈ ops, op.ok h) (ht : ∀ op ∈ ops, op.hasTy ty)
    (hv : ∀ v ∈ ops.flatMap WOp.samples, ty.inRange v) (hl : ∀ v ∈ ops.flatMap WOp.samples, lossless h.enc ty v)
    (c' : Conv) (g : AbsWrite.Geom) (cs : List Call) (rb : ReadBack) (tail : Array Item)
    (hw : written g.ch cs = cellsOf ty (ops.flatMap WOp.samples))
    (hret : (ops.flatMap WOp.samples).length ≤ rb.ret.toNat) :
    ∃ file, closeBytes fmt ch sr ops = some file ∧
      (rb.data = cellsOf ty (h.enc.decodeAll c' ty
          ((file.drop (hdrLenOf h)).take ((ops.flatMap WOp.samples).length * h.enc.nbytes))) ++ tail →
        roundtripOk g ty cs rb = true) := by
  obtain ⟨file, hf, hdec⟩ := C01.file_roundtrip C01.widenExact fmt ch sr h s ho ty ops hok ht hv hl c'
  exact ⟨file, hf, fun hd => roundtripOk_of_lists g ty cs rb _ _ tail hw hd hdec hret⟩

/-! ## non-vacuity: a stereo 16-bit AU job as the campaign records it (reference run, split run with one crash point,
    stale-frames run) -/

def exG : AbsWrite.Geom := { word := 0x00030002, ch := 2, sr := 44100 }
def exBytes : Array Item :=
  #[46,115,110,100, 0,0,0,24, 0,0,0,12, 0,0,0,3, 0,0,172,68, 0,0,0,2, 0,1,255,254,0,3,255,252,0,5,0,6]
def exInfo (f : Int) : Info := { ch := 2, sr := 44100, fmt := 0x00030002, frames := f }
def exRec : Record :=
  { g := exG, ty := .s16,
    one := { calls := [{ ty := .s16, fc := true, n := 3, data := #[1, 0xFFFE, 3, 0xFFFC, 5, 6], ret := 3 }], bytes := exBytes },
    info := exInfo 3,
    rb := { ret := 6, data := #[1, 0xFFFE, 3, 0xFFFC, 5, 6, 0xA5A5, 0xA5A5] },
    split := some { calls := [{ ty := .s16, fc := true, n := 1, data := #[1, 0xFFFE], ret := 1 },
                              { ty := .s16, fc := false, n := 4, data := #[3, 0xFFFC, 5, 6], ret := 4 }], bytes := exBytes },
    snaps := [{ calls := 1, info := exInfo 1, rb := { ret := 2, data := #[1, 0xFFFE, 0xA5A5, 0xA5A5] } }],
    stale := some exBytes }

/-- the record is accepted and meets the hypotheses of `roundtrip_abs` -/
example : accepted exRec = true ∧ sameType exRec.ty exRec.one.calls = true ∧
    losslessFor exRec.g exRec.ty (written exRec.g.ch exRec.one.calls) = true := by decide
/-- one wrong item in the read-back, a read-back that delivers fewer items than were written: refused with the clause -/
example : judge { exRec with rb := { ret := 6, data := #[1, 0xFFFE, 3, 0xFFFC, 5, 7, 0xA5A5, 0xA5A5] } } = [{ tag := "roundtrip" }] := by decide
example : judge { exRec with info := exInfo 2, rb := { ret := 4, data := #[1, 0xFFFE, 3, 0xFFFC, 0, 0, 0, 0] } } =
    [{ tag := "frames" }, { tag := "roundtrip" }] := by decide
/-- a short into 8-bit PCM with non-zero low bits is outside the side condition: not judged, even when it comes back different -/
example : losslessFor { exG with word := 0x00030001 } .s16 #[0x0100, 0x0101] = false ∧
    losslessFor { exG with word := 0x00030001 } .s16 #[0x0100, 0xFF00] = true ∧
    losslessLow 0x0010 .s16 = none ∧ losslessLow 0x0007 .f32 = some 0 ∧ losslessLow 0x0050 .s32 = some 24 := by decide

end Sf.C01AbsW
