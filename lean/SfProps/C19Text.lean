/-
  SfProps.C19Text — a header writer's optional text and handle isolation (model: SfModel/HeaderText.lean).

  * `header_isolated` (full strength, rules `constant` = the code as it is and `handle` = the per-handle repair): for EVERY
    interleaving of opens / closes of any number of handles, the header text of handle k's file is what it is when handle k's calls run
    alone in a fresh process.
  * `global_rule_old_rule`: under the file-scope buffer (seeded regression C19-svx-anno-global) a writer opened BEFORE a read/write
    handle on a foreign file closes with the foreign text, and a writer opened AFTER that handle was closed starts with it.
-/
import SfModel.HeaderText
namespace Sf.C19Text
open Sf.HeaderText

/-- the two worlds agree on everything handle k can see -/
def Agree (k : Nat) (a b : W) : Prop := a.own k = b.own k ∧ a.hdr k = b.hdr k

theorem step_other (r : Rule) (hr : r ≠ .global) (d : Text) (w : W) (o : Op) (k : Nat) (hk : o.id ≠ k) :
    Agree k (step r d w o) w := by
  have hne : ∀ i, i ≠ k → (k = i) = False := fun i hi => eq_false (fun h => hi h.symm)
  cases o <;> cases r <;> simp_all [step, Agree, upd, Op.id]

theorem step_same (r : Rule) (hr : r ≠ .global) (d : Text) (a b : W) (o : Op) (k : Nat) (hk : o.id = k) (h : Agree k a b) :
    Agree k (step r d a o) (step r d b o) := by
  obtain ⟨h1, h2⟩ := h
  cases o <;> cases r <;> simp_all [step, Agree, upd, Op.id, textOf]

theorem run_isolated (r : Rule) (hr : r ≠ .global) (d : Text) (k : Nat) :
    ∀ (ops : List Op) (a b : W), Agree k a b → Agree k (run r d a ops) (run r d b (solo k ops)) := by
  intro ops
  induction ops with
  | nil => intro a b h; exact h
  | cons o rest ih =>
    intro a b h
    by_cases hk : o.id = k
    · have : solo k (o :: rest) = o :: solo k rest := by simp [solo, hk]
      rw [this]
      exact ih _ _ (step_same r hr d a b o k hk h)
    · have : solo k (o :: rest) = solo k rest := by simp [solo, hk]
      rw [this]
      refine ih _ _ ?_
      have h1 := step_other r hr d a o k hk
      exact ⟨h1.1.trans h.1, h1.2.trans h.2⟩

/-- FULL STRENGTH: the header of handle k's file does not depend on the other handles -/
theorem header_isolated (r : Rule) (hr : r ≠ .global) (d : Text) (k : Nat) (ops : List Op) :
    (run r d (init d) ops).hdr k = (run r d (init d) (solo k ops)).hdr k :=
  (run_isolated r hr d k ops (init d) (init d) ⟨rfl, rfl⟩).2

-- non-vacuity: a writer (0) around a read/write handle (1) on a foreign file, per-handle rule: the writer keeps the default, the
-- read/write handle keeps the foreign text
example : let ops := [Op.openW 0, .openRW 1 [70, 71], .close 1, .close 0]
    (run .handle [1, 2, 3] (init [1, 2, 3]) ops).hdr 0 = some [1, 2, 3] ∧ (run .handle [1, 2, 3] (init [1, 2, 3]) ops).hdr 1 = some [70, 71] ∧
    (run .constant [1, 2, 3] (init [1, 2, 3]) ops).hdr 1 = some [1, 2, 3] := by decide

/-- the file-scope buffer: interleaved (writer closes with the foreign text) and sequential (a later writer starts with it) -/
theorem global_rule_old_rule :
    (run .global [1, 2, 3] (init [1, 2, 3]) [Op.openW 0, .openRW 1 [70, 71], .close 1, .close 0]).hdr 0 = some [70, 71] ∧
    (run .global [1, 2, 3] (init [1, 2, 3]) (solo 0 [Op.openW 0, .openRW 1 [70, 71], .close 1, .close 0])).hdr 0 = some [1, 2, 3] ∧
    (run .global [1, 2, 3] (init [1, 2, 3]) [Op.openRW 1 [70, 71], .close 1, .openW 0, .close 0]).hdr 0 = some [70, 71] := by decide

theorem global_rule_not_isolated : ¬ ∀ (d : Text) (k : Nat) (ops : List Op),
    (run .global d (init d) ops).hdr k = (run .global d (init d) (solo k ops)).hdr k := by
  intro h
  have := h [1, 2, 3] 0 [Op.openW 0, .openRW 1 [70, 71], .close 1, .close 0]
  revert this
  decide

end Sf.C19Text
