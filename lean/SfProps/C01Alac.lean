/-
-- properties: C01
  C01 (ALAC: "lossless, bit exact") — the uncompressed ("escape") path of the ALAC codec core, both sides
  (lean/SfModel/AlacBits.lean, AlacCore.lean, AlacDec.lean; src/ALAC/alac_encoder.c EncodeMono / EncodeStereoEscape /
  alac_encode, alac_decoder.c alac_decode, matrix_dec.c, ALACBitUtilities.c):

  * `alac_escape_roundtrip` (FULL for the escape path): for every bit depth 16 / 20 / 24 / 32, 1 … 8 channels, every
    frame count 1 … 4096 and EVERY vector of int32 caller samples, the packet `alac_encode` writes when all elements
    take the escape path is decoded by `alac_decode` (into a cleared buffer) to exactly the frames written, the low
    `32 - depth` bits of every sample cleared; `alac_escape_roundtrip_exact`: samples within the depth's range (low bits
    clear) come back bit exact. `alac_escape_result`: status ok, `*outNumSamples` = the frame count.
  * `escape_old_rule_*`: each of the four defects repaired in round 4 (3f07ef6, c268302, 210ad67, 5323441) as the OLD
    rule of the model (`Rules`) with a proved counter-example — the packet of the old encoder / the output of the old
    decoder is not the input — next to the same input under the current rule.
  * `bbWindow_eq_bits` / `bbWindowSmall_eq_bits`: the 24-bit / 16-bit window arithmetic of BitBufferRead /
    BitBufferReadSmall is "the next n bits, most significant first" for every call the decoder makes (n ≤ 16 / n ≤ 8).
-/
import SfProofs.AlacLoop
import SfModel.AlacDec
namespace Sf.AlacCore

/-- what `alac_decode` returns for a packet in which every element was written uncompressed -/
theorem alac_escape_result (cfg : Config) (hd : Depth cfg.bitDepth) (hc1 : 1 ≤ cfg.numChannels) (hc8 : cfg.numChannels ≤ 8)
    (frames : List (List Int)) (hn : frames.length ≤ 4096)
    (hf : ∀ f ∈ frames, ∀ x ∈ f, I32 x) :
    let pk := encodeEscape cfg frames
    let res := decode cfg pk pk.length frameLen
    res.status = .ok ∧ res.outNum = frames.length ∧ res.written = chansFrom cfg.bitDepth frames 0 cfg.numChannels := by
  intro pk res
  obtain ⟨hl1, hl2, hl3⟩ := layout_facts cfg.numChannels hc1 hc8
  have hI : ∀ c, ∀ x ∈ chanOf frames c, I32 x := by
    intro c x hx
    simp only [chanOf, List.mem_map] at hx
    obtain ⟨f, hfm, rfl⟩ := hx
    exact getD_I32 f c (hf f hfm)
  have hbits : encodeEscapeBits Rules.current cfg frames (fun _ => ([], [])) =
      encElemsEsc Rules.current cfg.bitDepth frames (fun _ => ([], [])) (layout cfg.numChannels) 0 0 0 ++ bitsOf ID_END 3 := rfl
  have hup := unpack_pack (encodeEscapeBits Rules.current cfg frames (fun _ => ([], [])))
  have hlen := unpack_length pk
  have hge := encElemsEsc_length_ge Rules.current cfg.bitDepth frames (fun _ => ([], [])) (layout cfg.numChannels) 0 0 0
  have hpk : unpack pk = encElemsEsc Rules.current cfg.bitDepth frames (fun _ => ([], [])) (layout cfg.numChannels) 0 0 0 ++
      (bitsOf ID_END 3 ++ List.replicate ((8 - (encodeEscapeBits Rules.current cfg frames (fun _ => ([], []))).length % 8) % 8) false) := by
    show unpack (pack _) = _
    rw [hup, hbits, List.append_assoc]
  have hsz : (encElemsEsc Rules.current cfg.bitDepth frames (fun _ => ([], [])) (layout cfg.numChannels) 0 0 0).length + 3 ≤ 8 * pk.length := by
    rw [← hlen, hpk]; simp [bitsOf_length]
  have key := decLoop_esc (comp Rules.current pk.length) hd pk.length frames hI (by unfold frameLen; exact hn) (fun _ => ([], []))
    (bitsOf ID_END 3 ++ List.replicate ((8 - (encodeEscapeBits Rules.current cfg frames (fun _ => ([], []))).length % 8) % 8) false)
    (layout cfg.numChannels) (3 * pk.length + 1) 0 0 0 0 frameLen frameLen [] hl1 hl2 (by omega) rfl (by omega) (fun _ => rfl) (by omega)
  have hres : res = decLoop (comp Rules.current pk.length) Rules.current cfg pk.length (3 * pk.length + 1) ⟨Rd.ofBytes pk, frameLen, frameLen, []⟩ := by
    show decode cfg pk pk.length frameLen = _
    unfold decode decodeR decodeWith
    rw [if_neg (by omega)]
  rw [hres, Rd.ofBytes, hpk, key, hl3]
  simp

/-- ALAC, uncompressed packets: decode ∘ encode = clear the low `32 - depth` bits, for all depths, 1 … 8 channels,
    1 … 4096 frames and all int32 samples -/
theorem alac_escape_roundtrip (cfg : Config) (hd : Depth cfg.bitDepth) (hc1 : 1 ≤ cfg.numChannels) (hc8 : cfg.numChannels ≤ 8)
    (frames : List (List Int)) (hn : frames.length ≤ 4096)
    (hf : ∀ f ∈ frames, f.length = cfg.numChannels ∧ ∀ x ∈ f, I32 x) :
    decodeFresh cfg (encodeEscape cfg frames) = frames.map (·.map (trunc cfg.bitDepth)) := by
  obtain ⟨_, h2, h3⟩ := alac_escape_result cfg hd hc1 hc8 frames hn (fun f h => (hf f h).2)
  unfold decodeFresh Res.frames
  rw [h2, h3, applyOut_nil _ _ (by simp [chansFrom]), chansFrom, ← List.range_eq_range']
  exact transpose_chans (trunc cfg.bitDepth) cfg.numChannels frames (fun f h => (hf f h).1)

/-- a sample within the depth's range: an int32 whose low `32 - depth` bits are clear -/
def InRange (depth : Nat) (x : Int) : Prop := I32 x ∧ x % (2 : Int) ^ (32 - depth) = 0

theorem trunc_inRange {depth : Nat} (hd : Depth depth) {x : Int} (h : InRange depth x) : trunc depth x = x := by
  obtain ⟨⟨h1, h2⟩, h3⟩ := h
  rcases hd with rfl | rfl | rfl | rfl <;>
  · unfold trunc shl32 wrapS asr
    simp only [Nat.reduceSub, Int.reducePow] at h3 ⊢
    split <;> omega

/-- lossless, bit exact: samples within the depth's range come back unchanged -/
theorem alac_escape_roundtrip_exact (cfg : Config) (hd : Depth cfg.bitDepth) (hc1 : 1 ≤ cfg.numChannels) (hc8 : cfg.numChannels ≤ 8)
    (frames : List (List Int)) (hn : frames.length ≤ 4096)
    (hf : ∀ f ∈ frames, f.length = cfg.numChannels ∧ ∀ x ∈ f, InRange cfg.bitDepth x) :
    decodeFresh cfg (encodeEscape cfg frames) = frames := by
  rw [alac_escape_roundtrip cfg hd hc1 hc8 frames hn (fun f h => ⟨(hf f h).1, fun x hx => ((hf f h).2 x hx).1⟩)]
  conv => rhs; rw [← List.map_id frames]
  apply List.map_congr_left
  intro f hfm
  conv => rhs; rw [id, ← List.map_id f]
  apply List.map_congr_left
  intro x hx
  exact trunc_inRange hd ((hf f hfm).2 x hx)

/-- non-vacuity: a 24-bit, 3-channel packet (an SCE and a CPE element) of two frames with extreme samples -/
example : decodeFresh ⟨24, 3, 40, 10, 14, 255⟩ (encodeEscape ⟨24, 3, 40, 10, 14, 255⟩ [[-2147483648, 2147483392, 256], [-256, 0, 305419776]]) =
    [[-2147483648, 2147483392, 256], [-256, 0, 305419776]] := by
  apply alac_escape_roundtrip_exact _ (by unfold Depth; decide) (by decide) (by decide) _ (by decide)
  intro f hf
  simp only [List.mem_cons, List.not_mem_nil, or_false] at hf
  rcases hf with rfl | rfl <;> (refine ⟨rfl, ?_⟩; intro x hx; simp only [List.mem_cons, List.not_mem_nil, or_false] at hx; rcases hx with rfl | rfl | rfl <;> (unfold InRange I32; decide))

/-! ## the four defects repaired in round 4, as old rules of the model -/

def cfg20s : Config := { bitDepth := 20, numChannels := 2 }
def cfg24s : Config := { bitDepth := 24, numChannels := 2 }
def cfg32s : Config := { bitDepth := 32, numChannels := 2 }
def cfg32m : Config := { bitDepth := 32, numChannels := 1 }
def noStale : Nat → List Int × List Int := fun _ => ([], [])
/-- the packet the CURRENT encoder writes, decoded under the rules `ru` into a cleared buffer -/
def decUnder (ru : Rules) (cfg : Config) (frames : List (List Int)) : List (List Int) :=
  (decodeR ru cfg (encodeEscape cfg frames) (encodeEscape cfg frames).length frameLen).frames cfg.numChannels

/-- 3f07ef6 — EncodeStereoEscape wrote the 20-bit samples of a pair in 16 bits: one frame does not come back
    (the current rule returns it, `alac_escape_roundtrip`) -/
theorem escape_old_rule_pair20_width :
    decodeFresh cfg20s (encodeEscapeWith { encPair20Width := 16 } cfg20s [[0x12345000, -0x12345000]] noStale) ≠ [[0x12345000, -0x12345000]] ∧
    decodeFresh cfg20s (encodeEscapeWith Rules.current cfg20s [[0x12345000, -0x12345000]] noStale) = [[0x12345000, -0x12345000]] := by
  decide +kernel

/-- c268302 — EncodeStereoEscape, 24 bit: the packet was built from the stale mix buffers only; whatever they hold, two
    different inputs of the same length give THE SAME packet (so no decoder can return both) -/
theorem escape_old_rule_pair24_stale (stale : Nat → List Int × List Int) (frames frames' : List (List Int))
    (h : frames.length = frames'.length) :
    encodeEscapeWith { encPair24Stale := true } cfg24s frames stale = encodeEscapeWith { encPair24Stale := true } cfg24s frames' stale := by
  simp [encodeEscapeWith, encodeEscapeBits, cfg24s, layout, encElemsEsc, encPairEsc, h]

/-- c268302, concrete: with the mix buffers EncodeStereo leaves behind (mix24 with one byte shifted off, mixres 0) the
    frame [0x123456 << 8, -0x123456 << 8] comes back as something else -/
theorem escape_old_rule_pair24_witness :
    decodeFresh cfg24s (encodeEscapeWith { encPair24Stale := true } cfg24s [[0x12345600, -0x12345600]] (fun _ => ([0x1234], [-0x1235]))) ≠
      [[0x12345600, -0x12345600]] ∧
    decodeFresh cfg24s (encodeEscapeWith Rules.current cfg24s [[0x12345600, -0x12345600]] noStale) = [[0x12345600, -0x12345600]] := by
  decide +kernel

/-- 210ad67 — the decoder's escape branch of a pair above 16 bits lost the `<< 16` of the V sample: the second
    channel of a packet the CURRENT encoder writes comes back wrong (20, 24 and 32 bits) -/
theorem escape_old_rule_pair_vshift :
    decUnder { decPairVShift := false } cfg20s [[0x12345000, 0x6789A000]] ≠ [[0x12345000, 0x6789A000]] ∧
    decUnder { decPairVShift := false } cfg24s [[0x12345600, 0x6789AB00]] ≠ [[0x12345600, 0x6789AB00]] ∧
    decUnder { decPairVShift := false } cfg32s [[0x12345678, 0x6789ABCD]] ≠ [[0x12345678, 0x6789ABCD]] ∧
    decUnder Rules.current cfg20s [[0x12345000, 0x6789A000]] = [[0x12345000, 0x6789A000]] := by
  decide +kernel

/-- 5323441 — copyPredictorTo32 shifted left by 8: a 32-bit mono sample loses its top byte -/
theorem escape_old_rule_mono32_shl8 :
    decUnder { decMono32Shl8 := true } cfg32m [[0x12345678]] = [[0x34567800]] ∧
    decUnder Rules.current cfg32m [[0x12345678]] = [[0x12345678]] := by
  decide +kernel

end Sf.AlacCore
