/-
  C14 — sf_open ("-") is the path route on a descriptor the process already has: the handle psf_set_stdio makes is the handle
  sf_open (path) makes in a world whose next descriptor number is 0 (read) / 1 (write) except that it does NOT own the descriptor
  (the library never opened it: sf_close and a failed open leave it alone — repair of KF-C14-STDIO-CLOSE, old rule kept as
  `setStdioOld` / `stdio_close_old_rule`); SFM_RDWR is refused.  Campaign: vlib/c14stdio.py
  (harness route `stdio` / `stdiopipe`), every writable format.
-/
import SfModel.RoutesStdio
import SfProps.C14
import SfProps.C14CloseOwn
namespace Sf.C14Stdio
open Sf Sf.Routes Sf.RoutesStdio

/-- **the stdio handle is the path handle, minus the ownership**: same mode, descriptor = the one a path open would have been given in a
    world whose next number is 0 / 1, not virtual — and NOT owned: the library did not open it -/
theorem setStdio_is_openPath (w : World) (mode : Mode) (hm : mode ≠ .rw) (hfd : (w.fdnum : Int) = stdioFd mode) :
    setStdio mode = some { (openPath w mode).1 with doNotClose := true } := by
  cases mode
  · simp only [setStdio, openPath, stdioFd] at *; rw [hfd]
  · simp only [setStdio, openPath, stdioFd] at *; rw [hfd]
  · exact absurd rfl hm

theorem setStdio_rdwr_refused : setStdio .rw = none ∧ setStdioOld .rw = none := ⟨rfl, rfl⟩

theorem setStdio_shim (mode : Mode) (sh : Shim) (h : setStdio mode = some sh) : sh.doNotClose = true ∧ sh.virtualIo = false ∧ sh.filedes = stdioFd mode := by
  cases mode <;> simp [setStdio] at h <;> subst h <;> simp [stdioFd]

/-- the close of a handle with this shim, in the close model of C14CloseOwn (whatever the codec / container handlers and close (2) answer) -/
def closeOf (sh : Shim) (c k : Option Int) (os : Int) : CloseOwn.Out :=
  CloseOwn.psfClose { codecClose := c, containerClose := k, virtualIo := sh.virtualIo, doNotClose := sh.doNotClose, osClose := os }

/-- **C14, sf_open ("-")**: sf_close never closes the process's descriptor 0 / 1 — "never touches descriptors it did not open" — for
    both modes, every handler result and every answer of the operating system -/
theorem stdio_close_leaves_descriptor (mode : Mode) (sh : Shim) (h : setStdio mode = some sh) (c k : Option Int) (os : Int) :
    (closeOf sh c k os).fdClosed = false := by
  have hs := setStdio_shim mode sh h
  unfold closeOf
  rw [C14CloseOwn.close_releases_iff_owned]
  simp [CloseOwn.H.owns, hs.1, hs.2.1]

/-- **the rule before the repair closed it** (KF-C14-STDIO-CLOSE): with do_not_close_descriptor clear the same close calls close (2) on 0 / 1 -/
theorem stdio_close_old_rule (mode : Mode) (sh : Shim) (h : setStdioOld mode = some sh) (c k : Option Int) (os : Int) :
    (closeOf sh c k os).fdClosed = true := by
  unfold closeOf
  rw [C14CloseOwn.close_releases_iff_owned]
  cases mode <;> simp [setStdioOld] at h <;> subst h <;> simp [CloseOwn.H.owns]

/-! non-vacuity -/
example : setStdio .r = some { mode := .r, filedes := 0, doNotClose := true } := rfl
example : (closeOf { mode := .r, filedes := 0, doNotClose := true } (some 3) none (-1)).fdClosed = false := by decide
example : (setStdio .w).map (·.filedes) = some 1 := rfl

end Sf.C14Stdio
