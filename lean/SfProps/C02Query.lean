/-
  C02 — state-reading commands do not change conversions; the two normalisation switches are independent (round 8).

  Predicate (`Sf.CrossTypeQ`):
  * `switchOkQ_iff_strip`        : a plan with queries is accepted iff the plan without them is (queries are transparent);
  * `switchOkQ_query_insert`     : inserting a query anywhere in a plan does not change the verdict;
  * `wqueryOk_meaning`.
  Handle model (what the library does, `Sf.Peak.stepCalc`, `Sf.stepCmdFlag`):
  * `calc_keeps_normalisation`   : the four SFC_CALC_* on a read handle leave BOTH switches, clipping and the scale flags as the caller
                                   set them (re-statement of `Sf.C18.calc_restores_state` for C02), position and bytes too;
  * `calc_folded_save_fails`     : the scan written with ONE call `save = SET_NORM_DOUBLE (normalize)` is right when the command returns the
                                   PREVIOUS mode (`setNormD_returns_previous`) and wrong when it returns the new one — the two-site class;
  * `get_norm_keeps_state`       : SFC_GET_NORM_FLOAT / _DOUBLE change nothing but the error word;
  * `decode_own_switch_only`     : for EVERY sample-granular encoding a read of caller type `ty` depends on `conv.norm ty` only: the float
                                   switch never reaches the double reader (and vice versa), neither reaches the int readers;
  * `mixed_switches_witness`     : 16-bit PCM 0x4000 on a handle with the float switch off and the double switch on: 16384.0f and 0.5.
-/
import SfModel.CrossTypeQ
import SfProps.C18
namespace Sf.C02Query
open Sf Sf.CrossType Sf.CrossTypeQ Sf.Peak

/-! ## the predicate -/

theorem switchFrom_isNone_index (ch : Nat) (refs : Refs) (cs : List Call) :
    ∀ pos k k', (switchFrom ch refs pos k cs).isNone = (switchFrom ch refs pos k' cs).isNone := by
  induction cs with
  | nil => intro pos k k'; rfl
  | cons c cs ih =>
    intro pos k k'
    simp only [switchFrom]
    cases stepOk ch refs pos c with
    | none => rfl
    | some p => exact ih p (k + 1) (k' + 1)

theorem switchFromQ_strip (ch : Nat) (refs : Refs) (qs : List QCall) :
    ∀ pos k k', (switchFromQ ch refs pos k qs).isNone = (switchFrom ch refs pos k' (strip qs)).isNone := by
  induction qs with
  | nil => intro pos k k'; rfl
  | cons q qs ih =>
    intro pos k k'
    cases q with
    | call c =>
      simp only [switchFromQ, stepOkQ, strip, switchFrom]
      cases stepOk ch refs pos c with
      | none => rfl
      | some p => exact ih p (k + 1) (k' + 1)
    | query id =>
      simp only [switchFromQ, stepOkQ, strip]
      exact ih pos (k + 1) k'

/-- **queries are transparent**: the verdict on a plan with queries is the verdict on the plan without them -/
theorem switchOkQ_iff_strip (ch : Nat) (refs : Refs) (qs : List QCall) :
    switchOkQ ch refs qs = switchOk ch refs (strip qs) :=
  switchFromQ_strip ch refs qs 0 0 0

theorem strip_append (a b : List QCall) : strip (a ++ b) = strip a ++ strip b := by
  induction a with
  | nil => rfl
  | cons q a ih => cases q <;> simp [strip, ih]

/-- inserting a query anywhere does not change the verdict -/
theorem switchOkQ_query_insert (ch : Nat) (refs : Refs) (a b : List QCall) (id : Nat) :
    switchOkQ ch refs (a ++ .query id :: b) = switchOkQ ch refs (a ++ b) := by
  rw [switchOkQ_iff_strip, switchOkQ_iff_strip, strip_append, strip_append]
  rfl

theorem wqueryOk_meaning [BEq α] [LawfulBEq α] (t : Twin α) : wqueryOk t = true ↔ t.xs = t.ys ∧ t.fileX = t.fileY := by
  simp [wqueryOk]

/-- non-vacuity: a 1-channel file of two shorts; read one, SFC_CALC_SIGNAL_MAX, read the other as double -/
example : switchOkQ 1 { s16 := #[5, 7], f64 := #[0x3F24000000000000, 0x3F2C000000000000] }
    [.call (.read .s16 1 1 #[5]), .query 0x1040, .call (.read .f64 1 1 #[0x3F2C000000000000])] = true := by decide +kernel
/-- … and a plan whose read after the query delivers the unnormalised value is rejected -/
example : switchOkQ 1 { s16 := #[5, 7], f64 := #[0x3F24000000000000, 0x3F2C000000000000] }
    [.call (.read .s16 1 1 #[5]), .query 0x1040, .call (.read .f64 1 1 #[0x401C000000000000])] = false := by decide +kernel

/-! ## the handle model -/

/-- the four SFC_CALC_* commands on a read handle: both normalisation switches, clipping, the scale flags, the read position and the
    file bytes are what they were -/
theorem calc_keeps_normalisation (h : H) (s : Store) (normalize : Bool) (hi : HInv h s) (hm : h.mode = .r) :
    (stepCalc h s normalize).1.conv.normD = h.conv.normD ∧ (stepCalc h s normalize).1.conv.normF = h.conv.normF ∧
    (stepCalc h s normalize).1.conv = h.conv ∧ (stepCalc h s normalize).1.rpos = h.rpos ∧ (stepCalc h s normalize).2.1.bytes = s.bytes := by
  obtain ⟨a, b, c, _, _⟩ := Sf.C18.calc_restores_state h s normalize hi hm
  exact ⟨by rw [b], by rw [b], b, a, c⟩

/-- SFC_SET_NORM_DOUBLE returns the PREVIOUS mode (docs/command.md) -/
theorem setNormD_returns_previous (h : H) (s : Store) (b : Bool) :
    (stepCmdFlag h s 0x1012 (if b then 1 else 0)).2.2.ret = (if h.conv.normD then 1 else 0) ∧
    (stepCmdFlag h s 0x1012 (if b then 1 else 0)).1.conv.normD = b := by
  cases b <;> simp [stepCmdFlag]

/-- the flag a scan restores when it is written as ONE call `save = SET (normalize)`: what that call returned -/
def foldedRestore (returnsPrevious : Bool) (callerFlag normalize : Bool) : Bool := if returnsPrevious then callerFlag else normalize

/-- with a SET that returns the previous mode the folded form restores the caller's flag; with a SET that returns the NEW mode it
    restores the scan's own flag — wrong whenever the two differ (the two sites only fail together) -/
theorem calc_folded_save_fails :
    (∀ callerFlag normalize, foldedRestore true callerFlag normalize = callerFlag) ∧
    (∀ callerFlag normalize, callerFlag ≠ normalize → foldedRestore false callerFlag normalize ≠ callerFlag) := by
  refine ⟨fun _ _ => rfl, ?_⟩
  intro a b hab
  simpa [foldedRestore] using fun h => hab h.symm

/-- SFC_GET_NORM_FLOAT (0x1011) / SFC_GET_NORM_DOUBLE (0x1010): nothing but the error word changes -/
theorem get_norm_keeps_state (h : H) (s : Store) (v : Int) :
    (stepCmdFlag h s 0x1010 v).1 = { h with error := 0 } ∧ (stepCmdFlag h s 0x1011 v).1 = { h with error := 0 } ∧
    (stepCmdFlag h s 0x1010 v).2.1 = s ∧ (stepCmdFlag h s 0x1011 v).2.1 = s := by
  simp [stepCmdFlag]

/-! ## the two switches are independent -/

/-- every sample-granular encoding: a read of caller type `ty` looks at its OWN switch only (and at nothing else of the two) -/
theorem decode_own_switch_only (e : Enc) (c : Conv) (ty : Ty) (bF bD : Bool) (bs : List Byte)
    (h : ({ c with normF := bF, normD := bD } : Conv).norm ty = c.norm ty) :
    e.decode { c with normF := bF, normD := bD } ty bs = e.decode c ty bs := by
  cases e <;> cases ty <;> simp_all [Enc.decode, Conv.norm, intOfFloat, readScale]

/-- the double reader never sees the float switch, the float reader never sees the double switch, the int readers see neither -/
theorem decode_f64_ignores_normF (e : Enc) (c : Conv) (b : Bool) (bs : List Byte) :
    e.decode { c with normF := b } .f64 bs = e.decode c .f64 bs := by
  cases e <;> simp [Enc.decode]

theorem decode_f32_ignores_normD (e : Enc) (c : Conv) (b : Bool) (bs : List Byte) :
    e.decode { c with normD := b } .f32 bs = e.decode c .f32 bs := by
  cases e <;> simp [Enc.decode]

/-- 16-bit little-endian PCM, stored 0x4000, handle with the float switch off and the double switch on -/
theorem mixed_switches_witness :
    (Enc.pcm ⟨16, false, false⟩).decode { normF := false, normD := true } .f32 [0x00, 0x40] = 0x46800000 ∧
    (Enc.pcm ⟨16, false, false⟩).decode { normF := false, normD := true } .f64 [0x00, 0x40] = 0x3FE0000000000000 := by
  decide +kernel

end Sf.C02Query
