/-
  C12 — the trailing LIST: strings set AFTER the audio on a WAV / WAVEX / RF64 file (wav_write_tailer / rf64_write_tailer put them
  into a LIST/INFO chunk behind the `data` chunk).  `meta_roundtrip_riff_any` is `C12Round.meta_roundtrip_riff` without the
  hypothesis that no string was set late: for EVERY handle state within the limits the re-opened file returns the header's
  strings followed by the trailer's — except on RF64 behind an odd number of audio bytes, where rf64_read_header does not skip
  the pad byte and the trailing list is not found (the statement lets a late item be ignored; `normaliseRiffAny` says so).
-/
import SfProps.C12Round
namespace Sf.C12Late
open Sf Sf.Meta Sf.C12Round

/-- the strings a LIST chunk of that location carries (none when no string has the location: the chunk is not written) -/
def listEntries (h : MetaState) (loc : Nat) : List (Nat × List Byte) :=
  if (h.strings.flags &&& loc) ≠ 0 ∧ locationCount h.strings loc ≠ 0 then entriesOf h.strings loc else []

/-- is the trailing LIST found again?  Always, since the repair of KF-C12-RF64-ODD-PAD (rf64_read_header skips the pad byte behind an
    odd number of audio bytes as wav_read_header does); the rule before the repair is `Sf.Meta.trailerFoundOld` -/
def trailerFound (_h : MetaState) : Bool := true

def normaliseRiffAny (h : MetaState) : Reopened :=
  { normaliseRiff h with
    strings := listEntries h SF_STR_LOCATE_START ++ (if trailerFound h then listEntries h SF_STR_LOCATE_END else []) }

/-- the limits of a RIFF handle with strings at both ends -/
structure WithinRiffAny (period : Nat) (h : MetaState) : Prop where
  early : ∀ e ∈ listEntries h SF_STR_LOCATE_START, infoOk e
  earlyFits : (infoBody (listEntries h SF_STR_LOCATE_START)).length ≤ HEADER_CAP
  late : ∀ e ∈ listEntries h SF_STR_LOCATE_END, infoOk e
  lateFits : (infoBody (listEntries h SF_STR_LOCATE_END)).length ≤ HEADER_CAP
  bext : ∀ b, h.bext = some b → b.wf ∧ b.history.length ≤ 16384
  cart : ∀ c, h.cart = some c → c.wf ∧ c.tag.length ≤ 16384
  cues : ∀ cs, h.cues = some cs → cs.length ≤ MAX_CUES ∧ (∀ c ∈ cs, c.wf) ∧ (cs.map (·.indx)).Nodup
  inst : ∀ i, h.inst = some i → period < 2 ^ 32 ∧ i.loops.length ≤ 16 ∧ ∀ l ∈ i.loops, l.start < 2 ^ 32 ∧ l.stop < 2 ^ 32 ∧ l.count < 2 ^ 32

/-- one LIST chunk, written and parsed back -/
theorem list_back (h : MetaState) (loc : Nat) (hok : ∀ e ∈ listEntries h loc, infoOk e) (hfit : (infoBody (listEntries h loc)).length ≤ HEADER_CAP) :
    (if (h.strings.flags &&& loc) ≠ 0 ∧ locationCount h.strings loc ≠ 0 then parseInfo (writeStrings h.strings loc) else []) = listEntries h loc := by
  unfold listEntries at hok hfit ⊢
  by_cases hc : (h.strings.flags &&& loc) ≠ 0 ∧ locationCount h.strings loc ≠ 0
  · rw [if_pos hc] at hok hfit
    rw [if_pos hc, if_pos hc]
    unfold writeStrings
    rw [if_neg hc.2, info_roundtrip _ hok hfit]
  · rw [if_neg hc, if_neg hc]

/-- **meta_roundtrip** for WAV, WAVEX and RF64 with strings set before AND after the audio -/
theorem meta_roundtrip_riff_any (period : Nat) (h : MetaState) (w : WithinRiffAny period h) : reopenNow period h = normaliseRiffAny h := by
  obtain ⟨he, hef, hl, hlf, hbext, hcart, hcues, hinst⟩ := w
  unfold reopenNow normaliseRiffAny normaliseRiff reopen
  have hs1 := list_back h SF_STR_LOCATE_START he hef
  have hs2 : (if (h.strings.flags &&& SF_STR_LOCATE_END) ≠ 0 ∧ locationCount h.strings SF_STR_LOCATE_END ≠ 0
              then parseInfo (writeStrings h.strings SF_STR_LOCATE_END) else [])
             = (if trailerFound h then listEntries h SF_STR_LOCATE_END else []) := by
    have := list_back h SF_STR_LOCATE_END hl hlf
    simp only [trailerFound, if_true]
    exact this
  have hb : (h.bext.bind fun b => readBext (writeBext b)) = h.bext.map Bext.reread := by
    cases hbe : h.bext with
    | none => rfl
    | some b => simp [bext_chunk_roundtrip b (hbext b hbe).1 (hbext b hbe).2]
  have hc : (h.cart.bind fun c => readCart (writeCart c)) = h.cart.map Cart.reread := by
    cases hca : h.cart with
    | none => rfl
    | some c => simp [cart_chunk_roundtrip c (hcart c hca).1 (hcart c hca).2]
  have hq : (h.cues.bind MetaFix.reopenCues) = h.cues.map fun cs => cs.map MetaFix.Cue.normName := by
    cases hcu : h.cues with
    | none => rfl
    | some cs =>
      obtain ⟨a, b, c⟩ := hcues cs hcu
      simp [C12Fix.cue_names_roundtrip cs a b c]
  have hi : (h.inst.bind fun i => readSmpl (writeSmpl period i)) = h.inst.map normInst := by
    cases hin : h.inst with
    | none => rfl
    | some i =>
      obtain ⟨a, b, c⟩ := hinst i hin
      simp [inst_roundtrip period i a b c]
  simp only [hs1, hs2, hb, hc, hq, hi]

/-- non-vacuity: a WAV handle with a title set before the audio, a comment set after it and the title replaced after it -/
def lateHandle (c : Container) (audio : List Byte) : MetaState :=
  let pn := ascii "libsndfile"
  let pv := ascii "1.2.2"
  let h1 := (step pn pv (MetaState.open c) (.setString 1 (ascii "Title"))).2
  let h2 := (step pn pv h1 (.setString 4 (ascii "Artist"))).2
  let h3 := (step pn pv h2 (.writeAudio audio)).2
  let h4 := (step pn pv h3 (.setString 5 (ascii "late"))).2
  (step pn pv h4 (.setString 1 (ascii "New"))).2

example : (reopenNow 22675 (lateHandle .wav [1, 2, 3])).strings = [(4, ascii "Artist"), (5, ascii "late"), (1, ascii "New")] ∧
    (reopenNow 22675 (lateHandle .rf64 [1, 2, 3])).strings = [(4, ascii "Artist"), (5, ascii "late"), (1, ascii "New")] ∧
    (reopenNow 22675 (lateHandle .rf64 [1, 2, 3, 4])).strings = [(4, ascii "Artist"), (5, ascii "late"), (1, ascii "New")] := by decide +kernel

/-- the rule before the repair of KF-C12-RF64-ODD-PAD lost the strings set after an ODD number of audio bytes on RF64 (and only there):
    the witness of the finding -/
theorem rf64_odd_late_strings_lost_old_rule :
    trailerFoundOld (lateHandle .rf64 [1, 2, 3]) = false ∧ trailerFoundOld (lateHandle .rf64 [1, 2, 3, 4]) = true ∧
    trailerFoundOld (lateHandle .wav [1, 2, 3]) = true ∧ trailerFound (lateHandle .rf64 [1, 2, 3]) = true := by decide +kernel

example : WithinRiffAny 22675 (lateHandle .wav [1, 2, 3]) := by
  have h1 : listEntries (lateHandle .wav [1, 2, 3]) SF_STR_LOCATE_START = [(4, ascii "Artist")] := by decide +kernel
  have h2 : listEntries (lateHandle .wav [1, 2, 3]) SF_STR_LOCATE_END = [(5, ascii "late"), (1, ascii "New")] := by decide +kernel
  refine ⟨?_, ?_, ?_, ?_, ?_, ?_, ?_, ?_⟩
  · rw [h1]; intro e he
    simp only [List.mem_cons, List.mem_nil_iff, or_false] at he
    subst he; exact ⟨by decide, by decide⟩
  · rw [h1]; decide +kernel
  · rw [h2]; intro e he
    simp only [List.mem_cons, List.mem_nil_iff, or_false] at he
    rcases he with rfl | rfl <;> exact ⟨by decide, by decide⟩
  · rw [h2]; decide +kernel
  · intro b hb; have : (lateHandle .wav [1, 2, 3]).bext = none := by decide +kernel
    rw [this] at hb; cases hb
  · intro c hc; have : (lateHandle .wav [1, 2, 3]).cart = none := by decide +kernel
    rw [this] at hc; cases hc
  · intro cs hcs; have : (lateHandle .wav [1, 2, 3]).cues = none := by decide +kernel
    rw [this] at hcs; cases hcs
  · intro i hi; have : (lateHandle .wav [1, 2, 3]).inst = none := by decide +kernel
    rw [this] at hi; cases hi

end Sf.C12Late
