/-
  C15 for sf_write_raw / sf_read_raw in an SFM_RDWR session (SfModel/FaultsRaw.lean): when the re-seek in front of the transfer fails,
  the call returns 0, makes NO read / write request, and leaves both positions and the frame count alone -- so "data the I/O layer accepted
  before the failure is not corrupted by later calls" and "the reported position advances by exactly the returned count" hold for it.
  The rule that sets an error and transfers all the same (the seeded regression C15-write-raw-seek-fail) is `writeRawAnyway`.
-/
import SfModel.FaultsRaw
import SfProps.C15
namespace Sf.C15RawRw
open Sf Sf.Faults Sf.FaultsRaw

/-- psf_default_seek makes no write request, whatever the oracle answers -/
theorem defaultSeek_no_write (o : Oracle) (h : H) (hist : Hist) (f : Int) :
    writesOf (Faults.defaultSeek o h hist f).2.2 = writesOf hist := by
  unfold Faults.defaultSeek
  by_cases h1 : (h.bw = 0 ∨ h.dataoffset < 0)
  · simp [h1]
  · simp only [h1, if_false, ioSeek, call]
    by_cases h2 : (o hist (.seek (h.dataoffset + ↑h.bw * f) 0)).n ≠ h.dataoffset + ↑h.bw * f <;> simp [h2, writesOf]

/-- a failed re-seek contains sf_write_raw: 0 is returned, nothing is written, no position moves -/
theorem write_raw_seek_failure_contained (o : Oracle) (h : H) (hist : Hist) (n : Int) (data : List Byte)
    (hn : n ≠ 0) (hg : rawWriteGuard h n = none) (hl : (h.lastOp != Mode.w) = true)
    (hs : (Faults.defaultSeek o { h with error := 0 } hist h.wpos).1 < 0) :
    (stepWriteRaw o h hist n data).out.ret = 0 ∧
    writesOf (stepWriteRaw o h hist n data).hist = writesOf hist ∧
    (stepWriteRaw o h hist n data).h.wpos = h.wpos ∧ (stepWriteRaw o h hist n data).h.rpos = h.rpos ∧
    (stepWriteRaw o h hist n data).h.frames = h.frames := by
  have hn' : (n == 0) = false := by simpa using hn
  have e : stepWriteRaw o h hist n data =
      ⟨(Faults.defaultSeek o { h with error := 0 } hist h.wpos).2.1, (Faults.defaultSeek o { h with error := 0 } hist h.wpos).2.2,
       { ret := 0, err := (Faults.defaultSeek o { h with error := 0 } hist h.wpos).2.1.error }⟩ := by
    unfold stepWriteRaw
    simp only [hn', hg]
    unfold writeRawCore
    simp only [hl, if_true, hs]
    rfl
  rw [e]
  obtain ⟨a, b, _, d, _⟩ := Sf.C15.defaultSeek_keeps o { h with error := 0 } hist h.wpos
  exact ⟨rfl, defaultSeek_no_write _ _ _ _, b, a, d⟩

/-- the same for sf_read_raw: nothing is read, the read position stays -/
theorem read_raw_seek_failure_contained (o : Oracle) (h : H) (hist : Hist) (n : Int)
    (hn : n ≠ 0) (hm : (h.mode == Mode.w) = false) (hin : ¬ (n < 0 ∨ h.rpos ≥ h.frames))
    (ha : (n % ((h.ch * bytewidth1 h : Nat) : Int) != 0) = false) (hl : (h.lastOp != Mode.r) = true)
    (hs : (Faults.defaultSeek o { h with error := 0 } hist h.rpos).1 < 0) :
    (stepReadRaw o h hist n).out.ret = 0 ∧ (stepReadRaw o h hist n).h.rpos = h.rpos ∧ (stepReadRaw o h hist n).h.wpos = h.wpos := by
  have hn' : (n == 0) = false := by simpa using hn
  have e : stepReadRaw o h hist n =
      ⟨(Faults.defaultSeek o { h with error := 0 } hist h.rpos).2.1, (Faults.defaultSeek o { h with error := 0 } hist h.rpos).2.2,
       { ret := 0, err := (Faults.defaultSeek o { h with error := 0 } hist h.rpos).2.1.error }⟩ := by
    unfold stepReadRaw
    simp only [hn', hm, hin, ha, if_false, Bool.false_eq_true]
    unfold readRawCore
    simp only [hl, if_true, hs]
  rw [e]
  obtain ⟨a, b, _, _, _⟩ := Sf.C15.defaultSeek_keeps o { h with error := 0 } hist h.rpos
  exact ⟨rfl, a, b⟩

/-- the rule of the seeded regression: the failed re-seek only latches an error, the transfer goes ahead — on the I/O layer as it was
    before 9667294 (`fwriteOld`: since that repair psf_fwrite itself transfers nothing after a failed seek, so the same edit is contained
    one level further down) -/
def writeRawAnyway (o : Oracle) (h : H) (hist : Hist) (len : Nat) (data : List Byte) : Res :=
  let sk := Faults.defaultSeek o h hist h.wpos
  let fw := fwriteOld o sk.2.2 1 len (data.take len)
  ⟨{ sk.2.1 with wpos := sk.2.1.wpos + (fw.1 : Int) / (blockwidth1 sk.2.1 : Nat), lastOp := .w }, fw.2, { ret := fw.1, err := sk.2.1.error }⟩

/-- a 16-bit stereo RAW handle in SFM_RDWR whose last call was a read; an I/O layer whose seeks fail and whose writes succeed -/
def xH : H := { store := 0, mode := .rw, container := .raw, enc := .pcm ⟨16, false, false⟩, big := false, ch := 2, sr := 8000,
                fmtWord := 0x10040002, frames := 10, rpos := 3, wpos := 10, lastOp := .r }
def xO : Oracle := fun _ r => match r with
  | .seek _ _ => { n := -1 }
  | .write d => { n := d.length }
  | _ => {}

/-- witness: under that I/O layer the code writes nothing, the seeded rule hands the caller's bytes to the I/O layer (at the read offset) -/
theorem anyway_rule_writes :
    writesOf (stepWriteRaw xO xH [] 4 [1, 2, 3, 4]).hist = [] ∧ (stepWriteRaw xO xH [] 4 [1, 2, 3, 4]).out.ret = 0 ∧
    writesOf (writeRawAnyway xO xH [] 4 [1, 2, 3, 4]).hist = [[1, 2, 3, 4]] ∧ (writeRawAnyway xO xH [] 4 [1, 2, 3, 4]).out.ret = 4 := by decide

/-! non-vacuity of the two containment theorems on the witness handle -/
example : (stepWriteRaw xO xH [] 4 [1, 2, 3, 4]).h.wpos = xH.wpos :=
  (write_raw_seek_failure_contained xO xH [] 4 [1, 2, 3, 4] (by decide) (by decide) (by decide) (by decide)).2.2.1
example : (stepReadRaw xO { xH with lastOp := .w } [] 4).h.rpos = 3 :=
  (read_raw_seek_failure_contained xO { xH with lastOp := .w } [] 4 (by decide) (by decide) (by decide) (by decide) (by decide) (by decide)).2.1

end Sf.C15RawRw
